(* SeedingFacts.v — a run whose first random event installs the seed produces an
   output that does not depend on the generator state it started from. *)
From Coq Require Import ZArith List Bool Lia.
From Cnfgen Require Import Seeding.
Import ListNotations.
Open Scope Z_scope.

Section Facts.
  Context {G : Type} {out : Type}.
  Context (seed_fn : Z -> G) (draw : G -> Z * G).

  Definition seeds_first (p : prog out) : Prop :=
    match p with Ret _ => True | Seed _ _ => True | Draw _ => False end.

  Lemma seeds_first_run (p : prog out) : seeds_first p -> forall g1 g2, run seed_fn draw p g1 = run seed_fn draw p g2.
  Proof. destruct p; cbn; intros H g1 g2; [reflexivity|contradiction|reflexivity]. Qed.

  Lemma seeds_first_trace (p : prog out) : seeds_first p -> forall g1 g2, trace seed_fn draw p g1 = trace seed_fn draw p g2.
  Proof. destruct p; cbn; intros H g1 g2; [reflexivity|contradiction|reflexivity]. Qed.

  (* the link with the run-time monitor: if the observed trace of a run is
     disciplined then the program was of the seeds-first shape, hence ... *)
  Lemma disciplined_seeds_first s (p : prog out) g : disciplined s (trace seed_fn draw p g) = true -> seeds_first p.
  Proof. destruct p; cbn; auto. destruct (draw g). cbn. discriminate. Qed.

  Theorem disciplined_deterministic s (p : prog out) g :
    disciplined s (trace seed_fn draw p g) = true ->
    forall g1 g2, run seed_fn draw p g1 = run seed_fn draw p g2.
  Proof. intros H. apply seeds_first_run. eapply disciplined_seeds_first; eauto. Qed.

  Section Tools.
    Context {parsed : Type}.
    Context (parse : (parsed -> prog out) -> prog out) (build : parsed -> prog out).

    Theorem cli_seed_first_deterministic s :
      forall g1 g2, run seed_fn draw (cli_seed_first parse build (Some s)) g1
                  = run seed_fn draw (cli_seed_first parse build (Some s)) g2.
    Proof. intros. apply seeds_first_run. exact I. Qed.

    Theorem cli_seed_first_disciplined s g :
      disciplined s (trace seed_fn draw (cli_seed_first parse build (Some s)) g) = true.
    Proof. cbn. apply Z.eqb_refl. Qed.
  End Tools.
End Facts.

(* ---- the order found in the pinned tree is not deterministic: witnesses ---- *)
(* a concrete generator: state = Z, seeding sets it, a draw returns it and adds 1 *)
Definition toy_seed (s : Z) : Z := s.
Definition toy_draw (g : Z) : Z * Z := (g, g + 1).

(* (1) a graph argument drawn during parsing, before the seed is installed *)
Definition parse_gnp (k : Z -> prog Z) : prog Z := Draw k.   (* the parsed graph IS the drawn value *)
Definition build_const (a : Z) : prog Z := Ret a.
Lemma as_found_parse_draw_refuted :
  exists g1 g2, run toy_seed toy_draw (cli_as_found parse_gnp build_const (Some 5)) g1
             <> run toy_seed toy_draw (cli_as_found parse_gnp build_const (Some 5)) g2.
Proof. exists 1, 2. intro H. vm_compute in H. discriminate H. Qed.

(* (2) --seed 0 is not installed *)
Definition parse_plain (k : unit -> prog Z) : prog Z := k tt.
Definition build_draw (_ : unit) : prog Z := Draw (fun v => Ret v).
Lemma as_found_seed_zero_refuted :
  exists g1 g2, run toy_seed toy_draw (cli_as_found parse_plain build_draw (Some 0)) g1
             <> run toy_seed toy_draw (cli_as_found parse_plain build_draw (Some 0)) g2.
Proof. exists 1, 2. intro H. vm_compute in H. discriminate H. Qed.

(* as found, the tool IS deterministic when parsing draws nothing and the seed is not 0 *)
Lemma as_found_partial {G out parsed : Type} (seed_fn : Z -> G) (draw : G -> Z * G)
      (build : parsed -> prog out) (a : parsed) s : s <> 0 ->
  forall g1 g2, run seed_fn draw (cli_as_found (fun k => k a) build (Some s)) g1
              = run seed_fn draw (cli_as_found (fun k => k a) build (Some s)) g2.
Proof. intros H g1 g2. unfold cli_as_found. destruct (Z.eqb_spec s 0); [contradiction|reflexivity]. Qed.
