(* Fam_count.v — cnfgen/families/counting.py:
     CountingPrinciple(M, p)          variables = new_combinations(M, p): the p-subsets of
                                      1..M in the order of itertools.combinations
     PerfectMatchingPrinciple(G)      variables = new_graph_edges(G): edges (u<v) in
                                      lexicographic order; e(u,None) lists the edges to
                                      smaller neighbours first, then to larger ones
   A simple graph is given as its number of vertices and the lexicographically sorted
   list of its edges (u,v) with u < v.  Definitions only. *)
From Coq Require Import ZArith List Bool.
From Cnfgen Require Import Sem Comb Linear IR FamTab.
Import ListNotations.
Open Scope Z_scope.

Definition block_mem (i : Z) (S : list Z) : bool := existsb (Z.eqb i) S.

Definition count_valid (M p : Z) : bool := (0 <=? M) && (1 <=? p).
Definition count_blocks (M p : Z) : list (list Z) := combs (upto M) (Z.to_nat p).
Definition count_tab (M p : Z) : list (list Z * Z) := number 0 (count_blocks M p).
Definition count_numvar (M p : Z) : Z := len (count_blocks M p).
Definition count_ir (M p : Z) : list ir :=
  map (fun i => ILin (ids_where (block_mem i) (count_tab M p)) CEq 1) (upto M).

(* edges of a simple graph: 1 <= u < v <= n, strictly increasing lexicographically *)
Definition edge_lt (e f : Z * Z) : bool :=
  (fst e <? fst f) || ((fst e =? fst f) && (snd e <? snd f)).
Fixpoint edges_increasing (l : list (Z * Z)) : bool :=
  match l with
  | [] => true
  | x :: t => match t with [] => true | y :: _ => edge_lt x y && edges_increasing t end
  end.
Definition simple_graph_wf (n : Z) (es : list (Z * Z)) : bool :=
  forallb (fun e => (1 <=? fst e) && (fst e <? snd e) && (snd e <=? n)) es && edges_increasing es.

Definition touches (u : Z) (e : Z * Z) : bool := (fst e =? u) || (snd e =? u).
Definition matching_tab (es : list (Z * Z)) : list ((Z * Z) * Z) := number 0 es.
Definition matching_numvar (es : list (Z * Z)) : Z := len es.
Definition incident_ids (t : list ((Z * Z) * Z)) (u : Z) : list Z :=
  ids_where (fun e => snd e =? u) t ++ ids_where (fun e => fst e =? u) t.
Definition matching_ir (n : Z) (es : list (Z * Z)) : list ir :=
  map (fun u => ILin (incident_ids (matching_tab es) u) CEq 1) (upto n).
