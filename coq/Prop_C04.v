(* Property C04 — linear, parity and mapping constraint builders mean what
   their names say.  ONLY statements; every proof is `exact <lemma>`. *)
From Coq Require Import ZArith List Bool.
From Cnfgen Require Import Sem Comb Linear SemFacts LinearFacts.
Import ListNotations.
Open Scope Z_scope.

(* CNF clause encoding: for every literal list (repetitions and opposite literals
   allowed: the count is by position), every operator, every integer constant
   (negative, larger than the list) and every assignment *)
Theorem C04_add_linear : forall a ls o k, lits_ok ls = true ->
  cnf_sat a (add_linear ls o k) = cop_holds o (count_true a ls) k.
Proof. exact add_linear_sem. Qed.
Print Assumptions C04_add_linear.

Theorem C04_add_parity : forall a ls constant, lits_ok ls = true ->
  cnf_sat a (add_parity ls constant) = eqb (parity_of a ls) (constant =? 1).
Proof. exact add_parity_sem. Qed.
Print Assumptions C04_add_parity.

Theorem C04_parity_is_count_mod_2 : forall a ls, parity_of a ls = Z.odd (count_true a ls).
Proof. exact parity_of_count. Qed.
Print Assumptions C04_parity_is_count_mod_2.

Theorem C04_loose_majority : forall a ls,
  cnf_sat a (add_loose_majority ls) = (2 * count_true a ls >=? len ls).
Proof. exact loose_majority_sem. Qed.
Print Assumptions C04_loose_majority.
Theorem C04_strict_majority : forall a ls,
  cnf_sat a (add_strict_majority ls) = (2 * count_true a ls >? len ls).
Proof. exact strict_majority_sem. Qed.
Print Assumptions C04_strict_majority.
Theorem C04_loose_minority : forall a ls, lits_ok ls = true ->
  cnf_sat a (add_loose_minority ls) = (2 * count_true a ls <=? len ls).
Proof. exact loose_minority_sem. Qed.
Print Assumptions C04_loose_minority.
Theorem C04_strict_minority : forall a ls, lits_ok ls = true ->
  cnf_sat a (add_strict_minority ls) = (2 * count_true a ls <? len ls).
Proof. exact strict_minority_sem. Qed.
Print Assumptions C04_strict_minority.

(* normalisation of a pseudo-Boolean constraint never changes its models ... *)
Theorem C04_normalize_sem : forall a c, terms_ok (pb_terms c) = true ->
  pb_sat a (normalize_opb c) = pb_sat a c.
Proof. exact normalize_opb_sem. Qed.
Print Assumptions C04_normalize_sem.

(* ... and leaves >= or ==, no negative coefficient, and a positive coefficient
   wherever the input coefficient is not zero (a zero coefficient stays zero:
   DESIGN.md D26) *)
Theorem C04_normalize_shape : forall c,
  (pb_op (normalize_opb c) = PGe \/ pb_op (normalize_opb c) = PEq) /\
  Forall (fun cl => 0 <= fst cl) (pb_terms (normalize_opb c)) /\
  length (pb_terms (normalize_opb c)) = length (pb_terms c) /\
  (forall i, fst (nth i (pb_terms c) (0,0)) <> 0 -> 0 < fst (nth i (pb_terms (normalize_opb c)) (0,0))).
Proof. exact normalize_opb_shape. Qed.
Print Assumptions C04_normalize_shape.

(* pseudo-Boolean encoding: same arithmetic *)
Theorem C04_opb_linear : forall a ls o k, lits_ok ls = true ->
  opb_sat a (opb_linear ls o k) = cop_holds o (count_true a ls) k.
Proof. exact opb_linear_sem. Qed.
Print Assumptions C04_opb_linear.

Theorem C04_cnf_opb_alike : forall a ls o k, lits_ok ls = true ->
  cnf_sat a (add_linear ls o k) = opb_sat a (opb_linear ls o k).
Proof. exact linear_cnf_opb_agree. Qed.
Print Assumptions C04_cnf_opb_alike.

Theorem C04_parity_cnf_opb_alike : forall a ls constant,
  cnf_sat a (add_parity ls constant) = opb_sat a (opb_parity ls constant).
Proof. exact parity_cnf_opb_agree. Qed.
Print Assumptions C04_parity_cnf_opb_alike.

Theorem C04_opb_majorities : forall a ls, lits_ok ls = true ->
  opb_sat a (opb_loose_majority ls) = cnf_sat a (add_loose_majority ls) /\
  opb_sat a (opb_loose_minority ls) = cnf_sat a (add_loose_minority ls) /\
  opb_sat a (opb_strict_majority ls) = cnf_sat a (add_strict_majority ls) /\
  opb_sat a (opb_strict_minority ls) = cnf_sat a (add_strict_minority ls).
Proof. exact opb_majorities_agree. Qed.
Print Assumptions C04_opb_majorities.

(* non-vacuity: the hypotheses are met by an ordinary literal list with a
   repeated and an opposite literal, and the statement is not trivially true *)
Example C04_nonvacuous :
  lits_ok [1; -2; 3; 3; -1] = true /\
  add_linear [1; -2; 3] CLt 2 = [[-1; 2]; [-1; -3]; [2; -3]] /\
  cnf_sat (fun v => v =? 1) (add_linear [1; -2; 3] CLt 2) = false /\
  cnf_sat (fun v => v =? 2) (add_linear [1; -2; 3] CLt 2) = true.
Proof. vm_compute. repeat split. Qed.
