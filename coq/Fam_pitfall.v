(* Fam_pitfall.v — model of cnfgen/families/pitfall.py: PitfallFormula(v,d,ny,nz,k)
   and of the template it copies, cnfgen/families/tseitin.py: TseitinFormula(graph,[True]).
   Definitions only.

   The random d-regular graph drawn by networkx.random_regular_graph is an INPUT of
   the model: the sorted list [E] of its edges (u,v), u < v, over vertices 1..v
   (the harness captures the graph the real generator drew).  The t-th edge of the
   sorted list is variable t of the Tseitin template (new_graph_edges); the parity
   constraint of vertex w lists its edges in the order of Graph.neighbors(w).
   Variables of the formula: k copies X[j] of the nx edge variables, then blocks
   Y (k x ny), Z (k x nz), P (k x (nx+nz)), A (k x 3).
   [shift_asis] is `shift_edgelit` as written in the code: for a negative literal
   it lands two variables too far (DESIGN D31); [shift_spec] is the intended copy.
   The pipe gadget deletes position nx from its running list when it reaches the last
   clause, which raised IndexError when nz = 1, and networkx raised NetworkXError for d = v;
   both are rejected with ValueError since commit cc7a963 ([validated]).
   Abstracted: description/header, labels, the random choice of the graph. *)
From Coq Require Import ZArith List Bool.
From Cnfgen Require Import Sem Comb Linear IR C03_Util.
Import ListNotations.
Open Scope Z_scope.

(* ---------- Tseitin template with an odd charge on vertex 1 ---------- *)
Definition edge_vars (E : list (Z * Z)) : list ((Z * Z) * Z) := combine E (zrange 1 (len E + 1)).
Definition inc_lits (EV : list ((Z * Z) * Z)) (w : Z) : list Z :=
  map snd (filter (fun e => snd (fst e) =? w) EV) ++ map snd (filter (fun e => fst (fst e) =? w) EV).
Definition tseitin_cnf (n : Z) (E : list (Z * Z)) : cnf :=
  flat_map (fun w => add_parity (inc_lits (edge_vars E) w) (if w =? 1 then 1 else 0)) (vrange n).

(* ---------- copies ---------- *)
Definition shift_asis (nx j lit : Z) : Z := Z.sgn lit * ((j - 1) * nx + 1) + lit - 1.
Definition shift_spec (nx j lit : Z) : Z := Z.sgn lit * ((j - 1) * nx + 1 + Z.abs lit - 1).
Definition shift (fixed : bool) := if fixed then shift_spec else shift_asis.

Definition Yid (nx ny nz k j i : Z) : Z := k * nx + (j - 1) * ny + i.
Definition Zid (nx ny nz k j i : Z) : Z := k * nx + k * ny + (j - 1) * nz + i.
Definition Pid (nx ny nz k j i : Z) : Z := k * nx + k * ny + k * nz + (j - 1) * (nx + nz) + i.
Definition Aid (nx ny nz k j i : Z) : Z := k * nx + k * ny + k * nz + k * (nx + nz) + (j - 1) * 3 + i.
Definition Xs (nx j : Z) : list Z := zrange ((j - 1) * nx + 1) (j * nx + 1).
Definition Ys (nx ny nz k j : Z) : list Z := map (Yid nx ny nz k j) (vrange ny).
Definition Zs (nx ny nz k j : Z) : list Z := map (Zid nx ny nz k j) (vrange nz).
Definition Ps (nx ny nz k j : Z) : list Z := map (Pid nx ny nz k j) (vrange (nx + nz)).

Definition pit_hard (nx ny nz k : Z) (fixed : bool) (T : cnf) : cnf :=
  flat_map (fun j => map (fun cl => map (shift fixed nx j) cl ++ Zs nx ny nz k j) T) (vrange k).

Definition pit_pitfall (nx ny nz k : Z) : cnf :=
  flat_map (fun j => flat_map (fun yy => map (fun p => [fst yy; snd yy; - p]) (Ps nx ny nz k j))
                              (pairs (Ys nx ny nz k j))) (vrange k).

(* pipe(y, PP, XX, ZZ): clause number t (from 0); S = XX + ZZ *)
Definition pipe_clause (nx : Z) (y : Z) (PP S : list Z) (t : nat) : list Z :=
  let m := length S in
  [y] ++ remove_nth (m - 1 - t) PP
      ++ (if Nat.eqb (t + 1) m then remove_nth (Z.to_nat nx) (firstn t S) else firstn t S)
      ++ [- nth t S 0].
Definition pipe (nx : Z) (y : Z) (PP S : list Z) : cnf := map (pipe_clause nx y PP S) (seq 0 (length S)).
Definition pit_pipes (nx ny nz k : Z) : cnf :=
  flat_map (fun j => flat_map (fun y => pipe nx y (Ps nx ny nz k j) (Xs nx j ++ Zs nx ny nz k j))
                              (Ys nx ny nz k j)) (vrange k).

Definition pit_tail (nx ny nz k : Z) : cnf :=
  flat_map (fun j => flat_map (fun y => flat_map (fun z =>
      [[- Aid nx ny nz k j 1; Aid nx ny nz k j 3; - z]; [- Aid nx ny nz k j 2; - Aid nx ny nz k j 3; - z];
       [Aid nx ny nz k j 1; - z; - y]; [Aid nx ny nz k j 2; - z; - y]])
    (Zs nx ny nz k j)) (Ys nx ny nz k j)) (vrange k).

(* for i in range(1, ny, 2) *)
Definition pit_gamma (nx ny nz k : Z) : cnf :=
  map (fun t => flat_map (fun j => [- Yid nx ny nz k j (1 + 2 * t); - Yid nx ny nz k j (2 + 2 * t)]) (vrange k))
      (zrange 0 (ny / 2)).

Definition pit_numvar (nx ny nz k : Z) : Z := k * nx + k * ny + k * nz + k * (nx + nz) + k * 3.

Definition pitfall_cnf (fixed : bool) (n : Z) (E : list (Z * Z)) (ny nz k : Z) : cnf :=
  let nx := len E in
  pit_hard nx ny nz k fixed (tseitin_cnf n E) ++ pit_pitfall nx ny nz k ++ pit_pipes nx ny nz k
  ++ pit_tail nx ny nz k ++ pit_gamma nx ny nz k.

(* edges inside 1..n *)
Definition edges_ok (n : Z) (E : list (Z * Z)) : bool :=
  forallb (fun e => (1 <=? fst e) && (fst e <=? n) && (1 <=? snd e) && (snd e <=? n)) E.

(* [validated] = the argument checks of the current code (commit cc7a963: d >= v and nz < 2 are
   rejected with ValueError); [validated = false] is the code before that commit, where d = v
   reached networkx (NetworkXError) and nz = 1 crashed in the pipe gadget (IndexError). *)
Definition pitfall_formula (fixed validated : bool) (v d ny nz k : Z) (E : list (Z * Z)) : c3res :=
  if (v <? 1) || (d <? 1) || (ny <? 1) || (nz <? 1) || (k <? 1) then C3Err C3ValueError
  else if negb (k mod 2 =? 0) then C3Err C3ValueError
  else if (d >? v) || (v * d mod 2 =? 1) then C3Err C3ValueError
  else if d =? v then C3Err (if validated then C3ValueError else C3NetworkXError)
  else if nz =? 1 then C3Err (if validated then C3ValueError else C3IndexError)
  else C3Ok (pit_numvar (len E) ny nz k) (clauses_ir (pitfall_cnf fixed v E ny nz k)).
