(* C03_Driver_Facts.v — the theorems of the family files restated for the functions the
   driver runs and the harness compares with cnfgen ([*_formula] : parameters -> c3res):
   whenever the generator returns a formula (numvar, builder calls), its CNF rendering and
   its OPB rendering are both unsatisfiable (contradictions) / mean the documented thing. *)
From Coq Require Import ZArith List Bool Lia ZifyBool.
From Cnfgen Require Import Sem Comb Linear IR SemFacts LinearFacts IRFacts C03_Util C03_UtilFacts
  Fam_pebbling Fam_pebbling_Facts Fam_ordering Fam_ordering_Facts Fam_ramsey Fam_ramsey_Facts
  Fam_cpls Fam_cpls_Facts Fam_pitfall Fam_pitfall_Facts.
Import ListNotations.
Open Scope Z_scope.

Definition both_unsat (f : list ir) : Prop :=
  forall a, cnf_sat a (to_cnf f) = false /\ opb_sat a (to_opb f) = false.

Lemma clauses_both_unsat F : (forall a, cnf_sat a F = false) -> both_unsat (clauses_ir F).
Proof. intros H a. rewrite clauses_ir_cnf, clauses_ir_opb. auto. Qed.

Theorem peb_formula_unsat D nv f : peb_formula D = C3Ok nv f -> 1 <= len D -> nv = len D /\ both_unsat f.
Proof.
  unfold peb_formula. destruct (dag_ok D) eqn:Hd; [|discriminate]. intros E Hn. inversion E; subst.
  split; [reflexivity|]. apply clauses_both_unsat. intros a. now apply peb_unsat.
Qed.

Theorem sstone_formula_unsat D B R nv f : sstone_formula D B R = C3Ok nv f -> 1 <= len D -> 0 <= R -> bip_ok B R = true ->
  both_unsat f.
Proof.
  unfold sstone_formula. destruct (dag_ok D) eqn:Hd; [|discriminate]. cbn [negb].
  destruct (len B =? len D) eqn:HB; [|discriminate]. cbn [negb]. intros E Hn HR Hb. inversion E; subst.
  apply clauses_both_unsat. intros a. apply sstone_unsat; try assumption. lia.
Qed.

Theorem stone_formula_unsat D R nv f : stone_formula D R = C3Ok nv f -> 1 <= len D -> both_unsat f.
Proof.
  unfold stone_formula. destruct (dag_ok D) eqn:Hd; [|discriminate]. cbn [negb].
  destruct (R <? 0) eqn:HR; [discriminate|]. intros E Hn.
  eapply sstone_formula_unsat; eauto; [lia|apply complete_bip_ok].
Qed.

Theorem gop_formula_unsat nb total smart knuth nv f : gop_formula nb total smart false knuth = C3Ok nv f ->
  graph_ok nb = true -> 1 <= len nb -> both_unsat f.
Proof.
  unfold gop_formula. intros E Hg Hn. inversion E; subst. apply clauses_both_unsat. intros a. now apply gop_unsat.
Qed.

Theorem op_formula_unsat n total smart knuth nv f : op_formula n total smart false knuth = C3Ok nv f -> 1 <= n -> both_unsat f.
Proof.
  unfold op_formula. destruct (n <? 0) eqn:Hn0; [discriminate|]. intros E Hn.
  eapply gop_formula_unsat; eauto; [apply complete_nb_ok; lia|rewrite complete_nb_len; lia].
Qed.

Theorem cpls_formula_unsat a b c nv f : cpls_formula a b c = C3Ok nv f -> both_unsat f.
Proof.
  unfold cpls_formula. destruct ((a <? 1) || (b <? 1) || (c <? 1)) eqn:H1; [discriminate|].
  destruct (negb (is_pow2 b) || negb (is_pow2 c)) eqn:H2; [discriminate|]. intros E. inversion E; subst.
  assert (Hb : is_pow2 b = true) by (destruct (is_pow2 b); [reflexivity|discriminate]).
  assert (Hc : is_pow2 c = true) by (destruct (is_pow2 b), (is_pow2 c); try reflexivity; discriminate).
  apply is_pow2_spec in Hb as [Lb [HLb ->]]; [|lia]. apply is_pow2_spec in Hc as [Lc [HLc ->]]; [|lia].
  apply clauses_both_unsat. intros asg. apply cpls_unsat; lia.
Qed.

(* the documented Pitfall formula (repaired shift), with either argument handling *)
Theorem pitfall_formula_unsat validated v d ny nz k E nv f : pitfall_formula true validated v d ny nz k E = C3Ok nv f ->
  edges_ok v E = true -> 2 <= ny -> both_unsat f.
Proof.
  unfold pitfall_formula. destruct ((v <? 1) || (d <? 1) || (ny <? 1) || (nz <? 1) || (k <? 1)) eqn:H1; [discriminate|].
  destruct (negb (k mod 2 =? 0)); [discriminate|]. destruct ((d >? v) || (v * d mod 2 =? 1)); [discriminate|].
  destruct (d =? v); [discriminate|]. destruct (nz =? 1) eqn:Hz; [discriminate|]. intros E' Hok Hny. inversion E'; subst.
  apply clauses_both_unsat. intros a. apply pitfall_spec_unsat; try assumption; lia.
Qed.

(* van der Waerden as the code is today (= documented behaviour since commit f79a20a) *)
Theorem vdw_spec_formula_sem N ks nv f a : vdw_spec_formula N ks = C3Ok nv f ->
  nv = vdw_numvar N ks /\ f = vdw_ir vdw_aps_spec N ks /\ aps_correct vdw_aps_spec N ks /\
  cnf_sat a (to_cnf f) = irs_hold a f /\ opb_sat a (to_opb f) = irs_hold a f.
Proof.
  unfold vdw_spec_formula. destruct (vdw_args_ok N ks) eqn:Hok; [|discriminate]. cbn [negb]. intros E. inversion E; subst.
  assert (AC : aps_correct vdw_aps_spec N ks).
  { apply aps_correct_spec. unfold vdw_args_ok in Hok. apply andb_true_iff in Hok as [_ H]. exact H. }
  split; [reflexivity|]. split; [reflexivity|]. split; [exact AC|].
  split; [apply to_cnf_sem|apply to_opb_sem]; now apply vdw_ir_ok.
Qed.

Theorem ram_formula_sem s k N nv f a : ram_formula s k N = C3Ok nv f ->
  nv = ram_numvar N /\ (cnf_sat a (to_cnf f) = true <-> ram_good s k N (fun u v => a (cid N u v))) /\
  opb_sat a (to_opb f) = cnf_sat a (to_cnf f).
Proof.
  unfold ram_formula. destruct ((N <? 0) || (s <? 1) || (k <? 1)); [discriminate|]. intros E. inversion E; subst.
  rewrite clauses_ir_cnf, clauses_ir_opb. split; [reflexivity|]. split; [apply ram_T1|reflexivity].
Qed.

Theorem ptn_formula_sem N nv f a : ptn_formula N = C3Ok nv f ->
  nv = N /\ (cnf_sat a (to_cnf f) = true <-> ptn_good N a) /\ opb_sat a (to_opb f) = cnf_sat a (to_cnf f).
Proof.
  unfold ptn_formula. destruct (N <? 0); [discriminate|]. intros E. inversion E; subst.
  rewrite clauses_ir_cnf, clauses_ir_opb. split; [reflexivity|]. split; [apply ptn_T1|reflexivity].
Qed.
