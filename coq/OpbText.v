(* OpbText.v — OPB writer (as cnfgen writes it) and an independent OPB reader.
   Definitions only.

   Models cnfgen/utils/opb.py  to_opb_file(formula, out, export_header, export_varnames)
   as reached from CNFio.to_opb / OPBio.to_opb / to_file(fileformat='opb'):
     first line  "* #variable= n #constraint= m"
     header      "* field: value" per header field (through _within_comment and
                 encode('ascii','replace')), then "*"
     names       "* varname x<i> <label>" numbered from 1 (through _within_comment), then "*"
                 _within_comment: "\r\n" and "\r" become "\n", every "\n" is followed by "* "
                 (print_opb_as_found: the writer before commit 7278321, without it)
     CNF object  one line per clause:      "+1 x3 +1 ~x5 >= 1"
     OPB object  one line per constraint:  "{:+} x<l> " / "{:+} ~x<l> " per term, then
                 ">=" when the stored operator is '>=' and "=" otherwise, then the degree
   formula = FCnf n clauses | FOpb n constraints  (pbc of Sem.v; the stored
   operator of a constraint added through add_constraint is '>=' or '==').

   parse_opb is NOT a model of cnfgen code (cnfgen has no OPB reader): it is a
   reader written from the format description (PB competition format as the
   cnfgen documentation quotes it): a first line declaring the counts, lines
   starting with '*' are comments, every other line is
       (<integer coefficient> <x<v> | ~x<v>>)*  (>= | =)  <integer>  [;]
   with v >= 1; the final ';' is accepted and not required.  It checks the
   declared number of constraints and that no variable exceeds the declared n. *)
From Coq Require Import String ZArith List Bool Ascii.
From Cnfgen Require Import Sem Text Dimacs.
Import ListNotations.
Open Scope Z_scope.

Inductive formula := FCnf (n : Z) (F : cnf) | FOpb (n : Z) (C : list pbc).

Definition numvar (f : formula) : Z := match f with FCnf n _ => n | FOpb n _ => n end.

(* the constraints a formula stands for: a clause is  sum of its literals >= 1 *)
Definition clause_pbc (c : list Z) : pbc := mkpbc (map (fun l => (1, l)) c) PGe 1.
Definition constraints (f : formula) : list pbc :=
  match f with FCnf _ F => map clause_pbc F | FOpb _ C => C end.

(* ---- writer ---- *)
Definition opb_var (l : Z) : text :=
  if 0 <=? l then lit "x" ++ print_Z l else lit "~x" ++ print_Z (- l).
(* "{:+}".format(c) *)
Definition print_signed (c : Z) : text := if 0 <=? c then "+"%char :: print_Z c else print_Z c.
Definition term_text (cl : Z * Z) : text :=
  print_signed (fst cl) ++ [SP] ++ opb_var (snd cl) ++ [SP].
Definition op_text (o : pbop) : text := match o with PGe => lit ">=" | _ => lit "=" end.
Definition constraint_line (c : pbc) : text :=
  concat (map term_text (pb_terms c)) ++ op_text (pb_op c) ++ [SP] ++ print_Z (pb_deg c).

Definition opb_spec_line (n m : Z) : text :=
  lit "* #variable= " ++ print_Z n ++ lit " #constraint= " ++ print_Z m.
(* the writer as it is now (after the repair of D4, commit 7278321): every header
   field and variable name goes through _within_comment(text, "* ")
   (Dimacs.within_comment); an ENTRY is what one write(... + "\n") call writes,
   without that final "\n", and may contain line breaks, each followed by "* " *)
Definition opb_header_entry (fv : text * text) : text :=
  ascii_replace (within_comment (lit "* ") (lit "* " ++ fst fv ++ lit ": " ++ snd fv)).
Fixpoint opb_varname_entries (i : Z) (names : list text) : list text :=
  match names with
  | [] => []
  | nm :: r => within_comment (lit "* ") (lit "* varname x" ++ print_Z i ++ [SP] ++ nm)
               :: opb_varname_entries (i + 1) r
  end.
Definition opb_comment_entries (h : option header) (names : option (list text)) : list text :=
  (match h with Some h => map opb_header_entry h ++ [lit "*"] | None => [] end) ++
  (match names with Some ns => opb_varname_entries 1 ns ++ [lit "*"] | None => [] end).

Definition opb_entries (h : option header) (names : option (list text)) (f : formula) : list text :=
  opb_spec_line (numvar f) (len (constraints f)) :: opb_comment_entries h names ++
  map constraint_line (constraints f).
Definition print_opb (h : option header) (names : option (list text)) (f : formula) : text :=
  unlines (opb_entries h names f).

(* the lines of the comment part, as a reader of the text finds them *)
Definition opb_comment_lines (h : option header) (names : option (list text)) : list text :=
  split_lines (unlines (opb_comment_entries h names)).

(* the writer as it was found (before 7278321): fields copied verbatim *)
Definition opb_header_line_as_found (fv : text * text) : text :=
  ascii_replace (lit "* " ++ fst fv ++ lit ": " ++ snd fv).
Fixpoint opb_varname_lines_as_found (i : Z) (names : list text) : list text :=
  match names with
  | [] => []
  | nm :: r => (lit "* varname x" ++ print_Z i ++ [SP] ++ nm) :: opb_varname_lines_as_found (i + 1) r
  end.
Definition opb_comment_lines_as_found (h : option header) (names : option (list text)) : list text :=
  (match h with Some h => map opb_header_line_as_found h ++ [lit "*"] | None => [] end) ++
  (match names with Some ns => opb_varname_lines_as_found 1 ns ++ [lit "*"] | None => [] end).

Definition opb_lines_as_found (h : option header) (names : option (list text)) (f : formula) : list text :=
  opb_spec_line (numvar f) (len (constraints f)) :: opb_comment_lines_as_found h names ++
  map constraint_line (constraints f).
Definition print_opb_as_found (h : option header) (names : option (list text)) (f : formula) : text :=
  unlines (opb_lines_as_found h names f).

(* ---- independent reader ---- *)
Inductive opb_err :=
| ONoSpec | OBadSpec | OBadLine | OWrongCount | OVarRange.
Inductive opb_result := OOk (n : Z) (C : list pbc) | OErr (e : opb_err) (line : Z).

Definition all_digits (s : text) : bool := nonempty s && forallb is_digit s.
(* decimal integer with optional sign, nothing else *)
Definition strict_int (s : text) : option Z :=
  let body := match s with
              | c :: r => if Ascii.eqb c "+"%char || Ascii.eqb c "-"%char then r else s
              | [] => s
              end in
  if all_digits body then parse_int s else None.
Definition strict_nat (s : text) : option Z := if all_digits s then parse_int s else None.

Definition parse_var (s : text) : option Z :=
  match s with
  | c :: r =>
    if Ascii.eqb c "x"%char then
      match strict_nat r with Some v => if 1 <=? v then Some v else None | None => None end
    else if Ascii.eqb c "~"%char then
      match r with
      | c2 :: r2 =>
        if Ascii.eqb c2 "x"%char then
          match strict_nat r2 with Some v => if 1 <=? v then Some (- v) else None | None => None end
        else None
      | [] => None
      end
    else None
  | [] => None
  end.

Definition text_eqb (a b : text) : bool :=
  (length a =? length b)%nat && forallb (fun p => Ascii.eqb (fst p) (snd p)) (combine a b).
Definition parse_op (s : text) : option pbop :=
  if text_eqb s (lit ">=") then Some PGe else if text_eqb s (lit "=") then Some PEq else None.

Fixpoint parse_terms (toks : list text) : option pbc :=
  match toks with
  | [o; d] =>
    match parse_op o, strict_int d with
    | Some op, Some dv => Some (mkpbc [] op dv)
    | _, _ => None
    end
  | c :: v :: rest =>
    match strict_int c, parse_var v, parse_terms rest with
    | Some cv, Some l, Some p => Some (mkpbc ((cv, l) :: pb_terms p) (pb_op p) (pb_deg p))
    | _, _, _ => None
    end
  | _ => None
  end.

(* drop one final ';' (after white space has been removed at the end) *)
Definition drop_semicolon (s : text) : text :=
  match rev (rstrip s) with
  | c :: r => if Ascii.eqb c ";"%char then rev r else s
  | [] => s
  end.

Definition parse_opb_spec (s : text) : option (Z * Z) :=
  match split_ws s with
  | [a; b; n; c; m] =>
    if text_eqb a (lit "*") && text_eqb b (lit "#variable=") && text_eqb c (lit "#constraint=") then
      match strict_nat n, strict_nat m with
      | Some nv, Some mv => Some (nv, mv)
      | _, _ => None
      end
    else None
  | _ => None
  end.

Definition pbc_vars_ok (n : Z) (c : pbc) : bool :=
  forallb (fun cl => Z.abs (snd cl) <=? n) (pb_terms c).

Fixpoint parse_opb_lines (n : Z) (lineno : Z) (ls : list text) : opb_result :=
  match ls with
  | [] => OOk n []
  | l :: rest =>
    let k := lineno + 1 in
    match l with
    | c :: _ =>
      if Ascii.eqb c "*"%char then parse_opb_lines n k rest
      else match parse_terms (split_ws (drop_semicolon l)) with
           | None => OErr OBadLine k
           | Some p =>
             if pbc_vars_ok n p then
               match parse_opb_lines n k rest with
               | OOk n' C => OOk n' (p :: C)
               | e => e
               end
             else OErr OVarRange k
           end
    | [] => OErr OBadLine k
    end
  end.

Definition parse_opb (t : text) : opb_result :=
  match split_lines t with
  | [] => OErr ONoSpec 0
  | first :: rest =>
    match parse_opb_spec first with
    | None => OErr OBadSpec 1
    | Some (n, m) =>
      match parse_opb_lines n 1 rest with
      | OOk n' C => if m =? len C then OOk n' C else OErr OWrongCount 0
      | e => e
      end
    end
  end.

(* ---- formulas the round trip is stated for ---- *)
Definition term_ok (n : Z) (cl : Z * Z) : Prop := 1 <= Z.abs (snd cl) <= n.
Definition op_ok (o : pbop) : Prop := o = PGe \/ o = PEq.
Definition pbc_ok (n : Z) (c : pbc) : Prop := Forall (term_ok n) (pb_terms c) /\ op_ok (pb_op c).
Definition opb_valid (f : formula) : Prop :=
  0 <= numvar f /\ Forall (pbc_ok (numvar f)) (constraints f).
