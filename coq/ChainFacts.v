(* The shell pipe  `cnfgen <argv> | cnfshuffle <sargv>` : the two whole-program models composed.
   cnfgen_main (Pipeline.v) writes a text; cnfshuffle_main_gen (ShuffleMain.v) reads it on standard input.
   Lemmas only; the statements are in Prop_C09_chain.v. *)
From Coq Require Import ZArith List Bool Permutation Ascii String.
From Cnfgen Require Import Sem Comb Text Dimacs DimacsFacts Shuffle ShuffleFacts ShuffleMain ShuffleMainFacts.
From Cnfgen Require Import Pipeline PipelineFacts.
Import ListNotations.
Open Scope Z_scope.

(* what cnfshuffle reads on standard input is what cnfgen wrote: the family model after its transformations *)
Lemma chain_input_reads argv text n F env o :
  cnfgen_main argv = POut text -> pl_opb_of argv = false -> pl_formula argv = FrOk n F ->
  printable n -> printable (len F) -> so_input o = None ->
  parse_dimacs (shm_universal o) (shm_input_text env o text) = DOk n F.
Proof.
  intros Hm Hopb Hf P1 P2 Hin.
  destruct (cnfgen_main_roundtrip argv text Hm) as (n' & F' & Hf' & _ & _ & _ & RB).
  rewrite Hf in Hf'. injection Hf' as <- <-.
  specialize (RB P1 P2). unfold pl_reads_back in RB. rewrite Hopb in RB.
  unfold shm_input_text. rewrite Hin. apply RB.
Qed.

Lemma chain_is_renaming argv text rep env sargv o oracle dest t :
  cnfgen_main argv = POut text -> pl_opb_of argv = false ->
  shm_parse_args env sargv = PaOk o -> so_input o = None ->
  cnfshuffle_main_gen rep env sargv text oracle = ShmOut dest t ->
  exists n F, pl_formula argv = FrOk n F /\ 0 <= n /\ lits_in_range n F = true /\
   (printable n -> printable (len F) ->
    exists out flips perm cperm,
    (forall u, parse_dimacs u t = DOk n out) /\ lits_in_range n out = true /\
    List.length out = List.length F /\ Permutation (map (@List.length Z) F) (map (@List.length Z) out) /\
    let sigma := subst_lit flips perm in
    let sigma' := inv_lit flips perm in
    signed_map n sigma /\ signed_map n sigma' /\
    (forall l, inrange n l -> sigma' (sigma l) = l) /\ (forall l, inrange n l -> sigma (sigma' l) = l) /\
    Permutation cperm (zrange 0 (len F)) /\
    Permutation out (map (map sigma) F) /\
    (forall i, (i < List.length F)%nat -> nth (Z.to_nat (nth i cperm 0)) out [] = map sigma (nth i F [])) /\
    (forall a, cnf_sat a out = cnf_sat (pull sigma a) F) /\
    count_models n out = count_models n F /\
    (so_nop o = true -> forall l, inrange n l -> (0 < sigma l <-> 0 < l)) /\
    (so_nov o = true -> forall l, inrange n l -> Z.abs (sigma l) = Z.abs l) /\
    (so_noc o = true -> out = map (map sigma) F)).
Proof.
  intros Hm Hopb Hp Hin Hs.
  destruct (cnfgen_main_roundtrip argv text Hm) as (n & F & Hf & _ & Hn & HR & _).
  exists n, F. split; [exact Hf|]. split; [exact Hn|]. split; [exact HR|].
  intros P1 P2.
  destruct (shm_is_renaming rep env sargv text oracle dest t Hs)
    as (o' & N & F' & out & flips & perm & cperm & Hp' & _ & Hread & Hback & _ & _ & HRo & Hlen & Hw & R).
  rewrite Hp in Hp'. injection Hp' as <-.
  rewrite (chain_input_reads argv text n F env o Hm Hopb Hf P1 P2 Hin) in Hread.
  injection Hread as <- <-.
  exists out, flips, perm, cperm.
  cbv zeta in R. destruct R as (S1 & S2 & I1 & I2 & Pc & Po & Pn & Sat & _ & _ & Cnt & Op & Ov & Oc).
  cbv zeta. repeat split; try assumption; try (apply S1; assumption); try (apply S2; assumption); try (apply Op; assumption).
Qed.

(* -p -v -c: the pipe hands the family model through unchanged; with -q on both sides, byte for byte *)
Lemma chain_fixed_identity argv text rep env sargv o oracle dest t :
  cnfgen_main argv = POut text -> pl_opb_of argv = false ->
  shm_parse_args env sargv = PaOk o -> so_input o = None ->
  so_nop o = true -> so_nov o = true -> so_noc o = true ->
  cnfshuffle_main_gen rep env sargv text oracle = ShmOut dest t ->
  exists n F, pl_formula argv = FrOk n F /\
    (printable n -> printable (len F) ->
     (forall u, parse_dimacs u t = DOk n F) /\ (so_quiet o = true -> t = text)).
Proof.
  intros Hm Hopb Hp Hin O1 O2 O3 Hs.
  destruct (cnfgen_main_roundtrip argv text Hm) as (n & F & Hf & Ht & _ & _ & _).
  exists n, F. split; [exact Hf|]. intros P1 P2.
  destruct (shm_fixed_identity rep env sargv text o Hp O1 O2 O3 oracle) as (_ & Id).
  destruct (Id dest t Hs) as (N & F' & Hread & Hprint & Hback).
  rewrite (chain_input_reads argv text n F env o Hm Hopb Hf P1 P2 Hin) in Hread.
  injection Hread as <- <-. split; [exact Hback|].
  intros Q. rewrite Hprint, Ht. unfold shm_out_header, pl_write. now rewrite Q, Hopb.
Qed.

(* in particular the file that leaves the pipe is satisfiable exactly when the family model is *)
Lemma chain_equisatisfiable argv text rep env sargv o oracle dest t :
  cnfgen_main argv = POut text -> pl_opb_of argv = false ->
  shm_parse_args env sargv = PaOk o -> so_input o = None ->
  cnfshuffle_main_gen rep env sargv text oracle = ShmOut dest t ->
  exists n F, pl_formula argv = FrOk n F /\
    (printable n -> printable (len F) ->
     exists out, (forall u, parse_dimacs u t = DOk n out) /\
                 ((exists a, cnf_sat a out = true) <-> (exists a, cnf_sat a F = true))).
Proof.
  intros Hm Hopb Hp Hin Hs.
  destruct (chain_is_renaming argv text rep env sargv o oracle dest t Hm Hopb Hp Hin Hs) as (n & F & Hf & _ & HRF & R).
  exists n, F. split; [exact Hf|]. intros P1 P2.
  destruct (R P1 P2) as (out & flips & perm & cperm & Hb & _ & _ & _ & R'). cbv zeta in R'.
  destruct R' as (S1 & S2 & I1 & I2 & _ & _ & _ & Sat & _).
  exists out. split; [exact Hb|]. split.
  - intros (a & Ha). exists (pull (subst_lit flips perm) a). now rewrite <- Sat.
  - intros (a & Ha). exists (pull (inv_lit flips perm) a). rewrite Sat.
    rewrite (cnf_sat_ext_range n F _ a HRF); [exact Ha|].
    intros v Hv. exact (pull_inverse a (inv_lit flips perm) (subst_lit flips perm) n v S2 S1 I1 Hv).
Qed.
