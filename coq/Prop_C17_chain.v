(* Property C17 along the shell pipe  `cnfgen <argv> | cnfgen -q dimacs` .  ONLY statements; proofs are `exact <lemma>`
   (lemma in ChainFilesFacts.v).

   cnfgen_main (coq/Pipeline.v) is the whole-program model argv -> bytes of the formula sub-commands; cnfgen_files_main
   (coq/PipelineFiles.v) is the one with a file map and standard input, in which the `dimacs` sub-command lives.  Both are
   compared byte for byte with the real tool by the C17 check (streams of harness/c17_pipeline.py and harness/c17_files.py).
   Composed: the library call behind `dimacs` (read a DIMACS text, hand back the formula) applied to what the library call
   behind any other sub-command wrote gives back the same bytes -- the formula a user pipes through `cnfgen dimacs` (for
   instance to apply -T transformations later) is the formula that was generated. *)
From Coq Require Import ZArith List Bool Ascii String.
From Cnfgen Require Import Sem Comb Linear IR Text Dimacs DimacsFacts OpbText Cli GraphSpec GText GraphIO Subst.
From Cnfgen Require Import PipelineGraph Pipeline PipelineFacts PipelineFiles PipelineFilesFacts ChainFilesFacts.
Import ListNotations.
Open Scope Z_scope.

Theorem chain_through_dimacs_is_identity : forall argv text,
  cnfgen_main argv = POut text -> pl_opb_of argv = false ->
  exists n F, pl_formula argv = FrOk n F /\
    (printable n -> printable (len F) ->
     forall env, plf_stdin env = text -> cnfgen_files_main ["-q"; "dimacs"]%string env = POut text).
Proof. exact chain_dimacs_identity. Qed.
Print Assumptions chain_through_dimacs_is_identity.

(* the formula object `dimacs` hands to the transformations is the family model *)
Theorem chain_dimacs_reads_the_family_model : forall argv text n F env,
  cnfgen_main argv = POut text -> pl_opb_of argv = false -> pl_formula argv = FrOk n F ->
  printable n -> printable (len F) -> plf_stdin env = text ->
  plf_formula ["-q"; "dimacs"]%string env = FrOk n F.
Proof. exact chain_dimacs_formula. Qed.
Print Assumptions chain_dimacs_reads_the_family_model.

(* transformations applied LATER are the transformations applied AT ONCE:
     cnfgen <argv> | cnfgen -q dimacs -T t1 ... -T tk      and      cnfgen <argv> -T t1 ... -T tk
   build the same formula (same variable count, same clauses in the same order, or the same refusal), for every chain
   of transformations the parser accepts and every argv of the pipeline grammar *)
Theorem chain_transformations_later_or_at_once : forall argv text n F env ts tcs,
  cnfgen_main argv = POut text -> pl_opb_of argv = false -> pl_formula argv = FrOk n F ->
  printable n -> printable (len F) -> plf_stdin env = text ->
  Forall noT ts -> Forall2 (fun t tc => pl_parse_tchunk (map lit t) = PlOk (Some tc)) ts tcs ->
  plf_formula (["-q"; "dimacs"]%string ++ flat_map (fun t => "-T"%string :: t) ts) env =
  pl_formula (argv ++ flat_map (fun t => "-T"%string :: t) ts).
Proof. exact chain_dimacs_later. Qed.
Print Assumptions chain_transformations_later_or_at_once.

(* non-vacuity: `cnfgen -q php 2 1 -T xor 2 | cnfgen -q dimacs` *)
Example chain_through_dimacs_nonvacuous :
  exists text, cnfgen_main ["-q"; "php"; "2"; "1"; "-T"; "xor"; "2"]%string = POut text /\
               pl_opb_of ["-q"; "php"; "2"; "1"; "-T"; "xor"; "2"]%string = false /\
               cnfgen_files_main ["-q"; "dimacs"]%string (mk_plf_env [] text) = POut text.
Proof. vm_compute. eexists. repeat split. Qed.

(* `cnfgen -q php 2 1 | cnfgen -q dimacs -T xor 2 -T flip`  builds what  `cnfgen -q php 2 1 -T xor 2 -T flip`  builds *)
Example chain_later_nonvacuous :
  let text := match cnfgen_main ["-q"; "php"; "2"; "1"]%string with POut t => t | _ => [] end in
  cnfgen_main ["-q"; "php"; "2"; "1"]%string = POut text /\
  plf_formula ["-q"; "dimacs"; "-T"; "xor"; "2"; "-T"; "flip"]%string (mk_plf_env [] text) =
    pl_formula ["-q"; "php"; "2"; "1"; "-T"; "xor"; "2"; "-T"; "flip"]%string /\
  match pl_formula ["-q"; "php"; "2"; "1"; "-T"; "xor"; "2"; "-T"; "flip"]%string with
  | FrOk n F => (n =? 4) && (len F =? 8)
  | _ => false
  end = true.
Proof. vm_compute. repeat split. Qed.
