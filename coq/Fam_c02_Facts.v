(* Fam_c02_Facts.v — no literal is 0 in any formula of the C02 families (the hypothesis of
   to_cnf_sem / to_opb_sem / cnf_opb_same_models), collected in one statement. *)
From Coq Require Import ZArith List Bool.
From Cnfgen Require Import Sem Comb Linear IR IRFacts C02Common C02CommonFacts
  Fam_tseitin Fam_tseitin_Facts Fam_coloring Fam_coloring_Facts Fam_domset Fam_domset_Facts
  Fam_iso Fam_iso_Facts Fam_subgraph Fam_subgraph_Facts.
Import ListNotations.
Open Scope Z_scope.

Lemma c02_families_ok :
  (forall n E ch, irs_ok (tseitin_ir n E ch) = true) /\
  (forall n E k fn l, edges_ok n E = true -> kcolor_ir n E k fn = Some l -> irs_ok l = true) /\
  (forall n E l, ec_ir n E = Some l -> irs_ok l = true) /\
  (forall n E d alt l, graph_wf n E = true -> domset_ir n E d alt = Some l -> irs_ok l = true) /\
  (forall n E, edges_ok n E = true -> irs_ok (tiling_ir n E) = true) /\
  (forall n1 E1 n2 E2, irs_ok (iso_ir n1 E1 n2 E2) = true) /\
  (forall n E, irs_ok (auto_ir n E) = true) /\
  (forall n1 E1 n2 E2, irs_ok (iso_nontrivial_ir n1 E1 n2 E2) = true) /\
  (forall N EG k EH ind sb, irs_ok (subgraph_ir N EG k EH ind sb) = true) /\
  (forall N E k sb l, kclique_ir N E k sb = Some l -> irs_ok l = true) /\
  (forall N E k sb l, kcliquebin_ir N E k sb = Some l -> irs_ok l = true) /\
  (forall N E k s sb l, ramlb_as_is N E k s sb = Some l -> irs_ok l = true) /\
  (forall N E k s sb l, 0 <= N -> ramlb_spec N E k s sb = Some l -> irs_ok l = true).
Proof.
  repeat split.
  - exact tseitin_ok. - exact kcolor_ok. - exact ec_ok. - exact domset_ok. - exact tiling_ok. - exact iso_ok.
  - exact auto_ok. - exact iso_nontrivial_ok. - exact subgraph_ok. - exact kclique_ok. - exact kcliquebin_ok.
  - exact ramlb_as_is_ok. - exact ramlb_spec_ok.
Qed.

(* the CNF and the OPB rendering of any list of builder calls without a zero literal have the
   models described by the arithmetic meaning *)
Lemma c02_transfer a l : irs_ok l = true ->
  cnf_sat a (to_cnf l) = irs_hold a l /\ opb_sat a (to_opb l) = irs_hold a l.
Proof. intros H. split; [now apply to_cnf_sem|now apply to_opb_sem]. Qed.
