(* Fam_tseitin_Forest.v — executable connectivity used to STATE the converse direction and the
   model count of the Tseitin formulas (cnfgen/families/tseitin.py; nothing of the Python code is
   modelled here, these are the mathematical notions of the documentation: connected component,
   spanning forest).
   A functional union-find over the list of edges with their identifiers (C02Common.eidx): the
   edges are inserted one at a time (the head of the list is inserted LAST); [uf L v] is the
   representative of the class of v after all edges of L have been inserted; inserting (u,w) sends
   the whole class of w to the representative of u.  An edge is a FOREST edge when it joins two
   different classes at the moment it is inserted; the forest edges form a spanning forest, the
   others ([nonforest]) are the "free" edges of the cycle space.
   Definitions only. *)
From Coq Require Import ZArith List Bool.
From Cnfgen Require Import Sem Comb Linear IR C02Common Fam_tseitin.
Import ListNotations.
Open Scope Z_scope.

Fixpoint uf (L : list (Z * (Z * Z))) (v : Z) : Z :=
  match L with
  | [] => v
  | x :: L' => if uf L' v =? uf L' (snd (snd x)) then uf L' (fst (snd x)) else uf L' v
  end.

(* identifiers of the edges that close a cycle when they are inserted *)
Fixpoint nonforest (L : list (Z * (Z * Z))) : list Z :=
  match L with
  | [] => []
  | x :: L' => if uf L' (fst (snd x)) =? uf L' (snd (snd x)) then fst x :: nonforest L' else nonforest L'
  end.

(* u and w are in the same connected component *)
Definition connected (E : list (Z * Z)) (u w : Z) : bool := uf (eidx E) u =? uf (eidx E) w.
(* number of connected components of the graph on 1..n : vertices that represent their class *)
Definition uf_components (n : Z) (E : list (Z * Z)) : Z :=
  len (filter (fun v => uf (eidx E) v =? v) (rng n)).
(* the identifiers of the edges outside the spanning forest *)
Definition free_edges (E : list (Z * Z)) : list Z := nonforest (eidx E).

(* executable criterion: the charges of the component of every vertex add up to even *)
Definition tseitin_components_even (n : Z) (E : list (Z * Z)) (ch : option (list bool)) : bool :=
  forallb (fun x => negb (charge_parity ch (fun v => connected E v x) n)) (rng n).
