(* PipelinePbFacts.v -- lemmas about the whole-program model of `pbgen` (coq/PipelinePb.v) and about the two tools
   together (statements in Prop_C08_pipeline.v). *)
From Coq Require Import ZArith List Bool Ascii String Lia ZifyBool.
From Cnfgen Require Import Sem Comb Linear IR Text Dimacs OpbText OpbTextFacts Cli GraphSpec GraphIO Subst FamTab FamFast
     Fam_php Fam_count Fam_cliquecol Fam_subsetcard C02Common Fam_tseitin Fam_coloring Fam_domset Fam_subgraph
     C03_Util Fam_ordering Fam_ramsey Fam_cpls Fam_pebbling PipelineGraph.
From Cnfgen Require Import SemFacts LinearFacts GraphSpecFacts IRFacts IRRange SubstFacts DimacsFacts EndToEnd CliFacts FamFastFacts
     FamRange_Util FamRange_C01 FamRange_C02 FamRange_C03 C03_UtilFacts GraphIOFacts PipelineGraphFacts Pipeline
     PipelineFacts PipelineHeader PipelinePb.
From Cnfgen Require Fam_php_Facts Fam_count_Facts Fam_subsetcard_Facts FamTabFacts.
From Cnfgen Require Import Fam_ordering_Facts Fam_pebbling_Facts Fam_ramsey_Facts.
Import ListNotations.
Open Scope Z_scope.
Ltac Zify.zify_post_hook ::= Z.to_euclidean_division_equations.

(* ------------------------------------------------------------------ *)
(* the model of cnfgen renders the builder calls [plb_ir_of]           *)
(* ------------------------------------------------------------------ *)
Lemma plb_of_c3_rendered render r : pl_of_c3 render r = plb_rendered render (plb_of_c3 r).
Proof. destruct r as [nv f|e]; [reflexivity|destruct e; reflexivity]. Qed.
Lemma plb_of_opt_rendered render nv o : pl_of_opt render nv o = plb_rendered render (plb_of_opt nv o).
Proof. destruct o; reflexivity. Qed.

Theorem pl_build_via_ir render c : pl_build_with render c = plb_rendered render (plb_ir_of c).
Proof.
  destruct c; cbn [pl_build_with plb_ir_of]; rewrite ?plb_of_c3_rendered, ?plb_of_opt_rendered; try reflexivity;
    match goal with |- context [if ?b then _ else _] => destruct b end; reflexivity.
Qed.

Lemma plb_of_c3_ok r n l : plb_of_c3 r = IrOk n l -> r = C3Ok n l.
Proof. destruct r as [nv f|e]; cbn; [intros H; now inversion H|destruct e; discriminate]. Qed.
Lemma plb_of_opt_ok nv o n l : plb_of_opt nv o = IrOk n l -> n = nv /\ o = Some l.
Proof. destruct o; cbn; [intros H; inversion H; now split|discriminate]. Qed.

(* ------------------------------------------------------------------ *)
(* every literal handed to the formula object is a variable of 1..n    *)
(* ------------------------------------------------------------------ *)
Lemma plb_clauses_result_bounded n F nv f : cnf_bounded n F -> C3Ok n (clauses_ir F) = C3Ok nv f -> lits_bounded nv f.
Proof. intros H E. inversion E; subst. now apply lits_bounded_clauses. Qed.

Lemma plb_gop_result_bounded nb t s p kn nv f : graph_ok nb = true -> gop_formula nb t s p kn = C3Ok nv f -> lits_bounded nv f.
Proof. intros Hg. unfold gop_formula. now apply plb_clauses_result_bounded, gop_bounded. Qed.

Lemma plb_and_bounded p n : 0 <= p -> 0 <= n -> lits_bounded (p + n) (pl_and_ir p n).
Proof.
  intros Hp Hn. unfold pl_and_ir. apply lits_bounded_app; apply lits_bounded_map; intros v x Hv Hx;
    apply In_upto in Hv; cbn [ir_lits] in Hx; destruct Hx as [<-|[]]; lia.
Qed.
Lemma plb_or_bounded p n : 0 <= p -> 0 <= n -> lits_bounded (p + n) (pl_or_ir p n).
Proof.
  intros Hp Hn. unfold pl_or_ir. apply lits_bounded_cons; [|apply lits_bounded_nil].
  intros x Hx. cbn [ir_lits] in Hx. apply in_app_or in Hx as [Hx|Hx].
  - apply In_upto in Hx. lia.
  - apply in_map_iff in Hx as (v & <- & Hv). apply In_upto in Hv. lia.
Qed.

Theorem plb_ir_of_bounded c n l : pl_cmd_wf c -> plb_ir_of c = IrOk n l -> lits_bounded n l.
Proof.
  intros W. destruct c; cbn [plb_ir_of]; cbn [pl_cmd_wf] in W.
  - (* php *) destruct (php_valid m n0); [|discriminate]. intros H; inversion H; subst. apply famtab_bounded, Fam_php_Facts.php_in_range.
  - (* bphp *) destruct (bphp_valid m n0); [|discriminate]. intros H; inversion H; subst. apply bphp_bounded.
  - (* rphp *) destruct (rphp_valid p r h) eqn:V; [|discriminate]. intros H; inversion H; subst. now apply rphp_bounded.
  - (* count *) destruct (count_valid M p); [|discriminate]. intros H; inversion H; subst. apply famtab_bounded, Fam_count_Facts.count_in_range.
  - (* cliquecoloring *) destruct (cc_valid n0 k c) eqn:V; [|discriminate]. intros H; inversion H; subst. now apply cliquecol_bounded.
  - (* op *) intros H. apply plb_of_c3_ok in H. unfold op_formula in H. destruct (Z.ltb_spec n0 0); [discriminate|].
    eapply plb_gop_result_bounded; [|exact H]. apply complete_nb_ok. lia.
  - (* ram *) intros H. apply plb_of_c3_ok in H. unfold ram_formula in H. destruct ((N <? 0) || (s <? 1) || (k <? 1)); [discriminate|].
    revert H. apply plb_clauses_result_bounded, ram_bounded.
  - (* vdw *) intros H. apply plb_of_c3_ok in H. unfold vdw_spec_formula in H. destruct (vdw_args_ok N ks) eqn:Hok; [|discriminate].
    cbn [negb] in H. inversion H; subst. apply vdw_bounded, aps_correct_spec.
    unfold vdw_args_ok in Hok. apply andb_true_iff in Hok as [_ Hok]. exact Hok.
  - (* ptn *) intros H. apply plb_of_c3_ok in H. unfold ptn_formula in H. destruct (N <? 0); [discriminate|].
    revert H. apply plb_clauses_result_bounded, ptn_bounded.
  - (* cpls *) intros H. apply plb_of_c3_ok in H. apply cpls_ok_args in H as [Ha [Hb [Hc E]]]. revert E.
    now apply plb_clauses_result_bounded, cpls_bounded.
  - (* and *) destruct ((0 <=? p) && (0 <=? n0)) eqn:V; [|discriminate]. intros H; inversion H; subst. apply plb_and_bounded; lia.
  - (* or *) destruct ((0 <=? p) && (0 <=? n0)) eqn:V; [|discriminate]. intros H; inversion H; subst. apply plb_or_bounded; lia.
  - (* true *) intros H; inversion H; subst. apply lits_bounded_nil.
  - (* false *) intros H; inversion H; subst. apply lits_bounded_cons; [intros x []|apply lits_bounded_nil].
  - (* kcolor *) intros H. apply plb_of_opt_ok in H as [-> Hs]. destruct (graph_wf_parts _ _ W) as [_ HE]. eapply kcolor_bounded; eauto.
  - (* ec *) intros H. apply plb_of_opt_ok in H as [-> Hs]. eapply ec_bounded; eauto.
  - (* tiling *) intros H; inversion H; subst. destruct (graph_wf_parts _ _ W) as [_ HE]. now apply tiling_bounded.
  - (* matching *) intros H; inversion H; subst. apply famtab_bounded, Fam_count_Facts.matching_in_range.
  - (* kclique *) intros H. apply plb_of_opt_ok in H as [-> Hs]. eapply kclique_bounded; eauto.
  - (* kcliquebin *) intros H. apply plb_of_opt_ok in H as [-> Hs]. eapply kcliquebin_bounded; eauto.
  - (* domset *) intros H. apply plb_of_opt_ok in H as [-> Hs]. eapply domset_bounded; eauto.
  - (* tseitin *) intros H; inversion H; subst. apply FamRange_C02.tseitin_bounded.
  - (* gphp *) intros H; inversion H; subst. apply famtab_bounded, Fam_php_Facts.gphp_in_range.
  - (* subsetcard *) intros H; inversion H; subst. apply famtab_bounded, Fam_subsetcard_Facts.subsetcard_in_range.
  - (* gop *) intros H. apply plb_of_c3_ok in H. eapply plb_gop_result_bounded; eauto.
  - (* peb *) intros H. apply plb_of_c3_ok in H. unfold peb_formula in H. destruct (dag_ok D) eqn:Hd; [|discriminate].
    revert H. now apply plb_clauses_result_bounded, peb_bounded.
  - (* stone *) intros H. apply plb_of_c3_ok in H. unfold stone_formula in H. destruct (dag_ok D) eqn:Hd; [|discriminate]. cbn [negb] in H.
    destruct (s <? 0); [discriminate|]. unfold sstone_formula in H. rewrite Hd in H. cbn [negb] in H.
    destruct (Z.eqb_spec (len (complete_bip (List.length D) s)) (len D)) as [HL|]; [|discriminate]. cbn [negb] in H.
    revert H. now apply plb_clauses_result_bounded, stone_bounded.
Qed.

(* no crash value, and a non-negative number of variables: from the same facts about the cnfgen model *)
Lemma plb_ir_of_good c : pl_cmd_wf c ->
  match plb_ir_of c with IrOk n l => 0 <= n /\ lits_bounded n l | IrErr => True | IrCrash => False end.
Proof.
  intros W. pose proof (pl_build_good c W) as G. unfold pl_build in G. rewrite pl_build_via_ir in G.
  destruct (plb_ir_of c) as [n l| |] eqn:E; cbn [plb_rendered pl_good] in G; [|exact I|exact G].
  split; [apply G|]. now apply (plb_ir_of_bounded c).
Qed.

(* ------------------------------------------------------------------ *)
(* the OPB text reads back                                             *)
(* ------------------------------------------------------------------ *)
Lemma plb_ir_opb_op_ok i c : In c (ir_opb i) -> op_ok (pb_op c).
Proof.
  assert (L : forall ls o k c0, In c0 (opb_linear ls o k) -> op_ok (pb_op c0)).
  { intros ls o k c0 H. destruct o; cbn [opb_linear] in H.
    6: { apply in_map_iff in H as (d & <- & _). left. reflexivity. }
    all: destruct H as [<-|[]].
    all: match goal with |- op_ok (pb_op (normalize_opb ?x)) => destruct (normalize_opb_shape x) as [S' _] end.
    all: exact S'. }
  destruct i; cbn [ir_opb]; intros H.
  - destruct H as [<-|[]]. left. reflexivity.
  - now apply (L ls o k).
  - unfold opb_parity in H. apply in_map_iff in H as (d & <- & _). left. reflexivity.
  - now apply (L ls CGe ((len ls + 1) / 2)).
  - now apply (L ls CLe (len ls / 2)).
  - now apply (L ls CGt (len ls / 2)).
  - now apply (L ls CLt ((len ls + 1) / 2)).
Qed.

Theorem plb_to_opb_valid n l : 0 <= n -> lits_bounded n l -> opb_valid (FOpb n (to_opb l)).
Proof.
  intros Hn HB. split; [exact Hn|]. cbn [numvar constraints]. apply Forall_forall. intros c Hc.
  unfold to_opb in Hc. apply in_flat_map in Hc as (i & Hi & Hc). split.
  - apply Forall_forall. intros t Ht. unfold term_ok.
    destruct (ir_opb_from i c Hc t Ht) as [E|E]; specialize (HB i _ Hi E); lia.
  - now apply (plb_ir_opb_op_ok i).
Qed.

Lemma plb_write_reads_back h n l : 0 <= n -> lits_bounded n l -> opb_printable (FOpb n (to_opb l)) ->
  parse_opb (plb_write h n (to_opb l)) = OOk n (to_opb l).
Proof. intros Hn HB P. unfold plb_write. exact (opb_roundtrip_proved h None (FOpb n (to_opb l)) (plb_to_opb_valid n l Hn HB) P). Qed.

(* ------------------------------------------------------------------ *)
(* the two main parsers                                                *)
(* ------------------------------------------------------------------ *)
(* does the run of options in front of the formula name select `-of dimacs` (an invalid choice for pbgen)? *)
Fixpoint plb_of_dimacs (toks : list text) : bool :=
  match toks with
  | [] => false
  | t :: r =>
    if gs_teqb t (lit "-q") || gs_teqb t (lit "--quiet") then plb_of_dimacs r
    else if gs_teqb t (lit "-v") || gs_teqb t (lit "--verbose") then plb_of_dimacs r
    else if gs_teqb t (lit "-of") || gs_teqb t (lit "--output-format") then
      match r with
      | [] => false
      | f :: r' => if gs_teqb f (lit "dimacs") then true else if gs_teqb f (lit "opb") then plb_of_dimacs r' else false
      end
    else false
  end.

Lemma plb_main_rel : forall toks q v b, plb_of_dimacs toks = false ->
  match plb_parse_main q v toks with
  | PlOk (q', g) => exists b', pl_parse_main q v b toks = PlOk (mk_pl_opts q' b', g)
  | PlErr => pl_parse_main q v b toks = PlErr
  | PlOutside => pl_parse_main q v b toks = PlOutside
  end.
Proof.
  intros toks. remember (List.length toks) as k eqn:Hk. revert toks Hk.
  induction k as [k IHk] using lt_wf_ind. intros toks Hk q v b HD.
  destruct toks as [|t r]; [cbn; eexists; reflexivity|].
  cbn [plb_parse_main pl_parse_main plb_of_dimacs] in *. cbn [List.length] in Hk.
  destruct (gs_teqb t (lit "-q") || gs_teqb t (lit "--quiet")).
  { destruct v; [reflexivity|]. apply (IHk (List.length r)); [lia|reflexivity|exact HD]. }
  destruct (gs_teqb t (lit "-v") || gs_teqb t (lit "--verbose")).
  { destruct q; [reflexivity|]. apply (IHk (List.length r)); [lia|reflexivity|exact HD]. }
  destruct (gs_teqb t (lit "-of") || gs_teqb t (lit "--output-format")).
  { destruct r as [|f r']; [reflexivity|]. cbn [List.length] in Hk.
    destruct (pl_starts_dash f); [reflexivity|].
    destruct (gs_teqb f (lit "dimacs")); [discriminate|].
    destruct (gs_teqb f (lit "opb")); [apply (IHk (List.length r')); [lia|reflexivity|exact HD]|].
    destruct (gs_teqb f (lit "latex")); reflexivity. }
  destruct (pl_starts_dash t); [reflexivity|].
  destruct (pl_parse_formula t r); [eexists; reflexivity|reflexivity|reflexivity].
Qed.

Lemma plb_of_dimacs_rejected : forall toks q v, plb_of_dimacs toks = true -> plb_parse_main q v toks = PlErr.
Proof.
  intros toks. remember (List.length toks) as k eqn:Hk. revert toks Hk.
  induction k as [k IHk] using lt_wf_ind. intros toks Hk q v HD.
  destruct toks as [|t r]; [discriminate|].
  cbn [plb_parse_main plb_of_dimacs] in *. cbn [List.length] in Hk.
  destruct (gs_teqb t (lit "-q") || gs_teqb t (lit "--quiet")).
  { destruct v; [reflexivity|]. apply (IHk (List.length r)); [lia|reflexivity|exact HD]. }
  destruct (gs_teqb t (lit "-v") || gs_teqb t (lit "--verbose")).
  { destruct q; [reflexivity|]. apply (IHk (List.length r)); [lia|reflexivity|exact HD]. }
  destruct (gs_teqb t (lit "-of") || gs_teqb t (lit "--output-format")); [|discriminate].
  destruct r as [|f r']; [discriminate|]. cbn [List.length] in Hk.
  destruct (gs_teqb f (lit "dimacs")) eqn:Ed.
  - apply gs_teqb_eq in Ed. subst f. reflexivity.
  - destruct (gs_teqb f (lit "opb")) eqn:Eo; [|discriminate]. apply gs_teqb_eq in Eo. subst f.
    change (pl_starts_dash (lit "opb")) with false. cbv iota.
    change (gs_teqb (lit "opb") (lit "opb")) with true. cbv iota.
    apply (IHk (List.length r')); [lia|reflexivity|exact HD].
Qed.

(* ------------------------------------------------------------------ *)
(* both programs as functions of the parse of a -T-free command line   *)
(* ------------------------------------------------------------------ *)
Lemma plb_has_T_false argv : plb_has_T argv = false <-> noT argv.
Proof.
  unfold plb_has_T, noT. split.
  - intros H Hin. assert (E : existsb (String.eqb "-T") argv = true); [|congruence].
    apply existsb_exists. exists "-T"%string. split; [exact Hin|reflexivity].
  - intros H. destruct (existsb (String.eqb "-T") argv) eqn:E; [|reflexivity].
    apply existsb_exists in E as (x & Hx & Ex). apply String.eqb_eq in Ex. subst x. contradiction.
Qed.

Lemma plb_has_T_true argv : In "-T"%string argv -> plb_has_T argv = true.
Proof. intros H. apply existsb_exists. exists "-T"%string. split; [exact H|reflexivity]. Qed.

Lemma pl_chunks_of_noT argv : noT argv -> pl_chunks_of argv = [map lit argv].
Proof. intros H. unfold pl_chunks_of, split_T. rewrite (split_aux_noT_end argv [] H). reflexivity. Qed.

Definition plb_cnf_formula (p : pl_parsed (pl_opts * option pl_fcmd)) : pl_fres :=
  match p with
  | PlOk (_, Some g) => pl_build g
  | PlOk (_, None) => FrErr
  | PlErr => FrErr
  | PlOutside => FrOutside
  end.
Definition plb_cnf_outcome (p : pl_parsed (pl_opts * option pl_fcmd)) : pipeline_result :=
  match p with
  | PlOk (o, Some g) => pl_render (pl_quiet o) (pl_opb o) (pl_build g)
  | PlOk (_, None) => PCliError
  | PlErr => PCliError
  | PlOutside => POutside
  end.

Lemma pl_parse_chunks_single c0 : pl_parse_chunks [c0] =
  match pl_parse_chunk0 c0 with
  | PlOk (o, g) => PlOk (mk_pl_cmdline o g [])
  | PlErr => PlErr
  | PlOutside => PlOutside
  end.
Proof. cbn [pl_parse_chunks pl_parse_tchunks]. destruct (pl_parse_chunk0 c0) as [[o g]| |]; reflexivity. Qed.

Lemma pl_formula_noT argv : noT argv -> pl_formula argv = plb_cnf_formula (pl_parse_chunk0 (map lit argv)).
Proof.
  intros H. unfold pl_formula, pl_formula_of_chunks, pl_formula_of_chunks_with.
  rewrite (pl_chunks_of_noT argv H), pl_parse_chunks_single.
  destruct (pl_parse_chunk0 (map lit argv)) as [[o [g|]]| |]; reflexivity.
Qed.

Lemma cnfgen_main_noT argv : noT argv -> cnfgen_main argv = plb_cnf_outcome (pl_parse_chunk0 (map lit argv)).
Proof.
  intros H. unfold cnfgen_main, pl_quiet_of, pl_opb_of. rewrite (pl_formula_noT argv H).
  rewrite (pl_chunks_of_noT argv H), pl_parse_chunks_single.
  destruct (pl_parse_chunk0 (map lit argv)) as [[o [g|]]| |]; reflexivity.
Qed.

Definition plb_pb_outcome (p : pl_parsed (bool * option pl_fcmd)) : pipeline_result :=
  match p with
  | PlOk (q, Some g) => plb_render (if q then Some None else None) (plb_build g)
  | PlOk (_, None) => PCliError
  | PlErr => PCliError
  | PlOutside => POutside
  end.
Lemma pbgen_main_view argv : pbgen_main argv = plb_pb_outcome (plb_parse argv).
Proof.
  unfold pbgen_main, plb_quiet_of, plb_formula, plb_ir.
  destruct (plb_parse argv) as [[q [g|]]| |]; reflexivity.
Qed.

(* ------------------------------------------------------------------ *)
(* the parser of pbgen returns well-formed commands                    *)
(* ------------------------------------------------------------------ *)
Lemma plb_parse_main_wf toks q v q' g : plb_parse_main q v toks = PlOk (q', Some g) -> pl_cmd_wf g.
Proof.
  intros H. destruct (plb_of_dimacs toks) eqn:D.
  - rewrite (plb_of_dimacs_rejected toks q v D) in H. discriminate.
  - pose proof (plb_main_rel toks q v false D) as R. rewrite H in R. destruct R as [b' R].
    exact (pl_parse_main_wf toks q v false _ g R).
Qed.

Lemma plb_parse_wf argv q g : plb_parse argv = PlOk (q, Some g) -> pl_cmd_wf g.
Proof.
  unfold plb_parse. destruct (negb _); [discriminate|]. destruct (plb_has_T argv); [discriminate|].
  apply plb_parse_main_wf.
Qed.

(* ------------------------------------------------------------------ *)
(* totality and round trip of pbgen                                    *)
(* ------------------------------------------------------------------ *)
Theorem plb_formula_no_crash argv : plb_formula argv <> PbCrash.
Proof.
  unfold plb_formula, plb_ir. destruct (plb_parse argv) as [[q [g|]]| |] eqn:E; try discriminate.
  pose proof (plb_ir_of_good g (plb_parse_wf argv q g E)) as G.
  destruct (plb_ir_of g); cbn [plb_opb_of]; [discriminate|discriminate|contradiction].
Qed.

Theorem pbgen_main_total argv :
  (exists text, pbgen_main argv = POut text) \/ pbgen_main argv = PCliError \/ pbgen_main argv = POutside.
Proof.
  unfold pbgen_main. pose proof (plb_formula_no_crash argv) as H.
  destruct (plb_formula argv) as [n C| | |]; cbn [plb_render].
  - destruct (plb_quiet_of argv); [left; eexists; reflexivity|right; right; reflexivity].
  - right; left; reflexivity.
  - contradiction.
  - right; right; reflexivity.
Qed.

Theorem pbgen_main_env_total version argv :
  (exists text, pbgen_main_env version argv = POut text) \/ pbgen_main_env version argv = PCliError \/
  pbgen_main_env version argv = POutside.
Proof.
  unfold pbgen_main_env. pose proof (plb_formula_no_crash argv) as H.
  destruct (plb_formula argv) as [n C| | |]; cbn [plb_render].
  - destruct (plb_header_choice version argv); [left; eexists; reflexivity|right; right; reflexivity].
  - right; left; reflexivity.
  - contradiction.
  - right; right; reflexivity.
Qed.

(* what reaches the writer: the builder calls of a well-formed command, all literals within 1..n *)
Lemma plb_formula_ok argv n C : plb_formula argv = PbOk n C ->
  exists l, plb_ir argv = RunIr (IrOk n l) /\ C = to_opb l /\ 0 <= n /\ lits_bounded n l.
Proof.
  unfold plb_formula, plb_ir. destruct (plb_parse argv) as [[q [g|]]| |] eqn:E; try discriminate.
  pose proof (plb_ir_of_good g (plb_parse_wf argv q g E)) as G.
  destruct (plb_ir_of g) as [n' l| |]; cbn [plb_opb_of]; try discriminate.
  intros H. inversion H; subst. exists l. destruct G as [G1 G2]. exact (conj eq_refl (conj eq_refl (conj G1 G2))).
Qed.

Theorem pbgen_main_roundtrip argv text : pbgen_main argv = POut text ->
  exists n l, plb_ir argv = RunIr (IrOk n l) /\ plb_formula argv = PbOk n (to_opb l) /\
              text = plb_write None n (to_opb l) /\ 0 <= n /\ lits_bounded n l /\
              (opb_printable (FOpb n (to_opb l)) -> parse_opb text = OOk n (to_opb l)).
Proof.
  unfold pbgen_main. destruct (plb_formula argv) as [n C| | |] eqn:E; cbn [plb_render]; try discriminate.
  destruct (plb_quiet_of argv); [|discriminate]. intros H. inversion H; subst.
  destruct (plb_formula_ok argv n C E) as (l & E1 & -> & Hn & HB).
  exists n, l. refine (conj E1 (conj eq_refl (conj eq_refl (conj Hn (conj HB _))))). intros P. now apply plb_write_reads_back.
Qed.

Theorem pbgen_main_env_roundtrip version argv text : pbgen_main_env version argv = POut text ->
  exists n l hh, plb_ir argv = RunIr (IrOk n l) /\ plb_header_choice version argv = Some hh /\
                 text = plb_write hh n (to_opb l) /\ 0 <= n /\ lits_bounded n l /\
                 (opb_printable (FOpb n (to_opb l)) -> parse_opb text = OOk n (to_opb l)).
Proof.
  unfold pbgen_main_env. destruct (plb_formula argv) as [n C| | |] eqn:E; cbn [plb_render]; try discriminate.
  destruct (plb_header_choice version argv) as [hh|] eqn:Eh; [|discriminate]. intros H. inversion H; subst.
  destruct (plb_formula_ok argv n C E) as (l & E1 & -> & Hn & HB).
  exists n, l, hh. refine (conj E1 (conj eq_refl (conj eq_refl (conj Hn (conj HB _))))). intros P. now apply plb_write_reads_back.
Qed.

(* -q selects the header-less variant and changes nothing else *)
Theorem pbgen_env_extends_quiet version argv t : pbgen_main argv = POut t -> pbgen_main_env version argv = POut t.
Proof.
  unfold pbgen_main, pbgen_main_env, plb_quiet_of, plb_header_choice.
  destruct (plb_formula argv) as [n C| | |]; cbn [plb_render]; try discriminate.
  destruct (plb_parse argv) as [[q g]| |]; try discriminate. destruct q; [|discriminate]. intros H. exact H.
Qed.

Theorem pbgen_env_error_iff version argv : pbgen_main_env version argv = PCliError <-> pbgen_main argv = PCliError.
Proof.
  unfold pbgen_main, pbgen_main_env.
  destruct (plb_formula argv) as [n C| | |]; cbn [plb_render].
  - split.
    + destruct (plb_header_choice version argv); discriminate.
    + destruct (plb_quiet_of argv); discriminate.
  - split; reflexivity.
  - split; discriminate.
  - split; discriminate.
Qed.

(* the header: the four fields of the generated formula, then the command line -- nothing else *)
Theorem plb_header_shape version argv g h : plb_header version argv g = Some h ->
  exists d, pl_fdesc g = Some d /\
  h = plh_render (plh_fresh version d ++ [(Header.KO "command line", ("pbgen " ++ plh_join " " argv)%string)]).
Proof.
  unfold plb_header. destruct (pl_fdesc g) as [d|]; [|discriminate]. intros H. inversion H; subst.
  exists d. split; reflexivity.
Qed.

(* ------------------------------------------------------------------ *)
(* options that exist in one tool only                                 *)
(* ------------------------------------------------------------------ *)
Theorem pbgen_rejects_T argv : forallb pl_is_ascii (map lit argv) = true -> In "-T"%string argv -> pbgen_main argv = PCliError.
Proof.
  intros HA HT. rewrite pbgen_main_view. unfold plb_parse. rewrite HA, (plb_has_T_true argv HT). reflexivity.
Qed.

Theorem pbgen_rejects_of_dimacs argv : forallb pl_is_ascii (map lit argv) = true -> plb_of_dimacs (map lit argv) = true ->
  pbgen_main argv = PCliError.
Proof.
  intros HA HD. rewrite pbgen_main_view. unfold plb_parse. rewrite HA. cbn [negb].
  destruct (plb_has_T argv); [reflexivity|]. now rewrite plb_of_dimacs_rejected.
Qed.

(* ------------------------------------------------------------------ *)
(* the two tools on the common grammar                                 *)
(* ------------------------------------------------------------------ *)
Definition plb_same_kind (x y : pipeline_result) : Prop :=
  match x, y with
  | POut _, POut _ | PCliError, PCliError | PCrash, PCrash | POutside, POutside => True
  | _, _ => False
  end.

Theorem tools_same_kind argv : noT argv -> plb_of_dimacs (map lit argv) = false ->
  plb_same_kind (cnfgen_main argv) (pbgen_main argv).
Proof.
  intros HT HD. rewrite (cnfgen_main_noT argv HT), pbgen_main_view. unfold plb_parse, pl_parse_chunk0.
  destruct (negb (forallb pl_is_ascii (map lit argv))); [exact I|].
  rewrite (proj2 (plb_has_T_false argv) HT).
  pose proof (plb_main_rel (map lit argv) false false false HD) as R.
  destruct (plb_parse_main false false (map lit argv)) as [[q [g|]]| |].
  - destruct R as [b' ->]. cbn [plb_cnf_outcome plb_pb_outcome pl_quiet pl_opb]. unfold pl_build, plb_build.
    rewrite pl_build_via_ir. destruct (plb_ir_of g); cbn [plb_rendered plb_opb_of pl_render plb_render]; destruct q; exact I.
  - destruct R as [b' ->]. exact I.
  - rewrite R. exact I.
  - rewrite R. exact I.
Qed.

Lemma plb_same_kind_iffs x y : plb_same_kind x y ->
  ((exists t, x = POut t) <-> (exists t, y = POut t)) /\ (x = PCliError <-> y = PCliError) /\ (x = POutside <-> y = POutside).
Proof.
  destruct x, y; cbn; intros H; try contradiction; repeat split; intros; try discriminate; try reflexivity;
    try (eexists; reflexivity); try (destruct H0; discriminate).
Qed.

Theorem tools_accept_same_proved argv : noT argv -> plb_of_dimacs (map lit argv) = false ->
  ((exists t, cnfgen_main argv = POut t) <-> (exists t, pbgen_main argv = POut t)) /\
  (cnfgen_main argv = PCliError <-> pbgen_main argv = PCliError) /\
  (cnfgen_main argv = POutside <-> pbgen_main argv = POutside).
Proof. intros HT HD. apply plb_same_kind_iffs. now apply tools_same_kind. Qed.

(* when both tools write something, the two formula objects are the two renderings of ONE list of builder calls *)
Theorem tools_same_ir argv tp : pbgen_main argv = POut tp ->
  exists n l, plb_ir argv = RunIr (IrOk n l) /\ pl_formula argv = FrOk n (to_cnf l) /\ 0 <= n /\ lits_bounded n l.
Proof.
  intros Hp. destruct (pbgen_main_roundtrip argv tp Hp) as (n & l & E1 & _ & _ & Hn & HB & _).
  exists n, l. refine (conj E1 (conj _ (conj Hn HB))).
  unfold plb_ir in E1. unfold plb_parse in E1.
  destruct (negb (forallb pl_is_ascii (map lit argv))) eqn:EA; [discriminate|].
  destruct (plb_has_T argv) eqn:ET; [discriminate|]. apply plb_has_T_false in ET.
  rewrite (pl_formula_noT argv ET). unfold pl_parse_chunk0. rewrite EA.
  destruct (plb_of_dimacs (map lit argv)) eqn:D.
  - rewrite (plb_of_dimacs_rejected _ false false D) in E1. discriminate.
  - pose proof (plb_main_rel (map lit argv) false false false D) as R.
    destruct (plb_parse_main false false (map lit argv)) as [[q [g|]]| |]; try discriminate.
    destruct R as [b' ->]. cbn [plb_cnf_formula]. unfold pl_build. rewrite pl_build_via_ir.
    inversion E1 as [E2]. rewrite E2. reflexivity.
Qed.

Theorem tools_same_variables_and_models_proved argv tc tp :
  cnfgen_main argv = POut tc -> pbgen_main argv = POut tp ->
  exists n l,
    pl_formula argv = FrOk n (to_cnf l) /\ plb_formula argv = PbOk n (to_opb l) /\
    tc = pl_write (pl_opb_of argv) None n (to_cnf l) /\ tp = plb_write None n (to_opb l) /\
    (printable n -> printable (len (to_cnf l)) -> pl_reads_back (pl_opb_of argv) tc n (to_cnf l)) /\
    (opb_printable (FOpb n (to_opb l)) -> parse_opb tp = OOk n (to_opb l)) /\
    forall a, cnf_sat a (to_cnf l) = opb_sat a (to_opb l).
Proof.
  intros Hc Hp.
  destruct (tools_same_ir argv tp Hp) as (n & l & E1 & E2 & Hn & HB).
  destruct (pbgen_main_roundtrip argv tp Hp) as (n' & l' & E1' & E3 & E4 & _ & _ & RB).
  rewrite E1 in E1'. inversion E1'; subst n' l'.
  destruct (cnfgen_main_roundtrip argv tc Hc) as (n'' & F & E5 & E6 & _ & _ & RC).
  rewrite E2 in E5. inversion E5; subst n'' F.
  exists n, l. refine (conj E2 (conj E3 (conj E6 (conj E4 (conj RC (conj RB _)))))).
  intros a. apply cnf_opb_same_models. now apply (bounded_ok n).
Qed.
