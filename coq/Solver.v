(* Solver.v — model of cnfgen/utils/solver.py (sat_solve, some_solver_installed,
   _SATSOLVER_INTERFACE, _satsolve_stdin_stdout, _satsolve_filein_stdout,
   _satsolve_filein_fileout) and of CNF.solve / CNF.is_satisfiable in
   cnfgen/formula/cnfio.py.   Definitions only.

   Character level: a text is a list of ASCII characters.  Modelled exactly:
   str.splitlines (line boundaries \n \r \r\n \v \f \x1c \x1d \x1e),
   str.split() (whitespace = 9..13, 28..32), int() on ASCII tokens (optional
   sign, digits, single underscores between digits), sorted(key=abs), the
   `result and witness or None` expression, the order of the solver table
   (dict insertion order), the reset of `sameas` when no command is given.

   The outside world is a pair of functions: installed(name) says whether
   Popen([name,'--help']) succeeds (some_solver_installed), and
   world(interface, command) is the text the solver run produces (its standard
   output, or the content of the result file for the minisat convention).

   Abstracted: the DIMACS text handed to the solver (property C06), the
   TypeError for an F that is not a formula, `verbose`, the text of error
   messages (error classes are kept), bytes outside ASCII (UnicodeDecodeError),
   OSError after some_solver_installed succeeded, exit statuses (the code
   ignores them).  Temporary files: temp_files_left counts the files created
   by the interface function and not unlinked by it. *)
From Coq Require Import ZArith List Bool Ascii String.
From Cnfgen Require Import Sem.
Import ListNotations.
Open Scope Z_scope.

Definition text := list ascii.
Definition txt (s : string) : text := list_ascii_of_string s.
Definition chr (n : nat) : ascii := ascii_of_nat n.

Fixpoint text_eqb (a b : text) : bool :=
  match a, b with
  | [], [] => true
  | x :: a', y :: b' => Ascii.eqb x y && text_eqb a' b'
  | _, _ => false
  end.

Definition code (c : ascii) : Z := Z.of_nat (nat_of_ascii c).

(* ---------- str.splitlines ---------- *)
Definition is_linebreak (c : ascii) : bool :=
  let n := code c in ((10 <=? n) && (n <=? 13)) || ((28 <=? n) && (n <=? 30)).
Definition is_cr (c : ascii) : bool := code c =? 13.
Definition is_lf (c : ascii) : bool := code c =? 10.

Fixpoint splitlines (s : text) : list text :=
  match s with
  | [] => []
  | c :: t =>
    if is_linebreak c then
      [] :: (if is_cr c
             then match t with
                  | d :: t' => if is_lf d then splitlines t' else splitlines t
                  | [] => []
                  end
             else splitlines t)
    else match splitlines t with
         | [] => [[c]]
         | l :: ls => (c :: l) :: ls
         end
  end.

(* ---------- str.split() ---------- *)
Definition is_space (c : ascii) : bool :=
  let n := code c in ((9 <=? n) && (n <=? 13)) || ((28 <=? n) && (n <=? 32)).

Fixpoint sv_split_ws (s : text) : list text :=
  match s with
  | [] => []
  | c :: t =>
    if is_space c then sv_split_ws t
    else match t with
         | [] => [[c]]
         | d :: _ =>
           if is_space d then [c] :: sv_split_ws t
           else match sv_split_ws t with
                | l :: ls => (c :: l) :: ls
                | [] => [[c]]
                end
         end
  end.

(* ---------- int(token) ---------- *)
Definition is_digit (c : ascii) : bool := let n := code c in (48 <=? n) && (n <=? 57).
Definition digit_val (c : ascii) : Z := code c - 48.
Definition is_underscore (c : ascii) : bool := code c =? 95.

(* digits with single underscores between digits; prev = the previous
   character was a digit *)
Fixpoint parse_digits (acc : Z) (prev : bool) (s : text) : option Z :=
  match s with
  | [] => if prev then Some acc else None
  | c :: t =>
    if is_digit c then parse_digits (10 * acc + digit_val c) true t
    else if is_underscore c && prev then parse_digits acc false t
    else None
  end.

Definition sv_parse_int (s : text) : option Z :=
  match s with
  | [] => None
  | c :: t =>
    if code c =? 43 then parse_digits 0 false t                      (* + *)
    else if code c =? 45 then option_map Z.opp (parse_digits 0 false t)   (* - *)
    else parse_digits 0 false s
  end.

(* [int(el) for el in tokens] : None = ValueError *)
Fixpoint parse_ints (toks : list text) : option (list Z) :=
  match toks with
  | [] => Some []
  | t :: rest =>
    match sv_parse_int t, parse_ints rest with
    | Some z, Some zs => Some (z :: zs)
    | _, _ => None
    end
  end.

(* ---------- sorted(witness, key=abs) : stable ---------- *)
Fixpoint insert_abs (x : Z) (l : list Z) : list Z :=
  match l with
  | [] => [x]
  | y :: t => if Z.abs x <=? Z.abs y then x :: l else y :: insert_abs x t
  end.
Definition sort_abs (l : list Z) : list Z := fold_right insert_abs [] l.

(* ---------- the three known deviations of the code as it is (DESIGN.md D22, D23, D34) ----------
   Every function below takes a `quirks` value; `as_is` is the code in /repo,
   `spec` the documented behaviour.  The correspondence run accepts agreement
   with `as_is`, or -- after a repair -- with the variant that drops the
   repaired quirk. *)
Record quirks := mkquirks {
  q_empty_none : bool;   (* D22: `result and witness or None` turns an empty witness into None *)
  q_crash : bool;        (* D34: IndexError / ValueError of the parser escape instead of RuntimeError *)
  q_leak : bool          (* D23: the file-in/stdout interface never unlinks its temporary file *)
}.
Definition as_is : quirks := mkquirks true true true.
Definition spec : quirks := mkquirks false false false.

(* ---------- results ---------- *)
Inductive crash := IndexError | IntValueError.
Inductive sres :=
| SOk (answer : bool) (witness : option (list Z))
| SRuntimeError            (* RuntimeError("Error during SAT solver call") *)
| SCrash (e : crash).      (* an exception that is not among the documented ones escapes *)

(* (result, result and witness or None) after sorting *)
Definition answer (q : quirks) (result : bool) (witness : list Z) : sres :=
  SOk result (if result
              then match sort_abs witness with
                   | [] => if q_empty_none q then None else Some []
                   | w => Some w
                   end
              else None).
Definition crashed (q : quirks) (e : crash) : sres := if q_crash q then SCrash e else SRuntimeError.

Definition t_v := txt "v".
Definition t_0 := txt "0".
Definition t_SATISFIABLE := txt "SATISFIABLE".
Definition t_UNSATISFIABLE := txt "UNSATISFIABLE".
Definition t_SAT := txt "SAT".
Definition t_UNSAT := txt "UNSAT".

Definition status_of (w : text) : option bool :=
  if text_eqb w t_SATISFIABLE then Some true
  else if text_eqb w t_UNSATISFIABLE then Some false
  else None.

Definition keep_value (el : text) : bool := negb (text_eqb el t_v) && negb (text_eqb el t_0).
Definition keep_value_file (el : text) : bool := negb (text_eqb el t_0).

(* the loop over output.splitlines() of _satsolve_stdin_stdout / _satsolve_filein_stdout *)
Fixpoint parse_lines (q : quirks) (lines : list text) (result : option bool) (witness : list Z) : sres :=
  match lines with
  | [] => match result with
          | None => SRuntimeError
          | Some r => answer q r witness
          end
  | line :: rest =>
    match line with
    | [] => parse_lines q rest result witness
    | c :: _ =>
      if code c =? 115 then                                  (* 's' *)
        match sv_split_ws line with
        | _ :: w :: _ => parse_lines q rest (status_of w) witness
        | _ => if q_crash q then SCrash IndexError            (* line.split()[1] *)
               else parse_lines q rest None witness          (* repaired: an unknown status *)
        end
      else if code c =? 118 then                             (* 'v' *)
        match parse_ints (filter keep_value (sv_split_ws line)) with
        | Some zs => parse_lines q rest result (witness ++ zs)
        | None => crashed q IntValueError
        end
      else parse_lines q rest result witness
    end
  end.

Definition parse_stdout (q : quirks) (output : text) : sres := parse_lines q (splitlines output) None [].

(* the result file of the minisat convention *)
Definition parse_minisat (q : quirks) (file : text) : sres :=
  match sv_split_ws file with
  | [] => SRuntimeError
  | w :: rest =>
    if text_eqb w t_SAT then
      match parse_ints (filter keep_value_file rest) with
      | Some zs => answer q true zs
      | None => crashed q IntValueError
      end
    else if text_eqb w t_UNSAT then answer q false []
    else SRuntimeError
  end.

(* ---------- the solver table and sat_solve ---------- *)
Inductive iface := StdinStdout | FileinStdout | FileinFileout.

Definition solver_table : list (text * iface) :=
  [ (txt "cadical", StdinStdout); (txt "kissat", StdinStdout); (txt "lingeling", StdinStdout);
    (txt "plingeling", StdinStdout); (txt "precosat", StdinStdout); (txt "picosat", StdinStdout);
    (txt "march", FileinStdout); (txt "cryptominisat", StdinStdout); (txt "minisat", FileinFileout);
    (txt "glucose", StdinStdout); (txt "sat4j", FileinStdout) ].

Fixpoint lookup (name : text) (tab : list (text * iface)) : option iface :=
  match tab with
  | [] => None
  | (n, i) :: t => if text_eqb name n then Some i else lookup name t
  end.
Definition supported (name : text) : bool := match lookup name solver_table with Some _ => true | None => false end.

Inductive outcome :=
| OResult (r : sres) (i : iface) (cmd : text)   (* the interface function i ran the command and parsed its output *)
| OValueError                                   (* unknown 'sameas' *)
| ORuntimeUnsupported                           (* "Solver ... is not supported, use 'sameas'" *)
| ORuntimeNotInstalled                          (* "Solver ... is not installed or is unusable" *)
| ORuntimeNoSolver.                             (* "No usable solver found" *)

Definition run_iface (q : quirks) (i : iface) (world : iface -> text -> text) (cmd : text) : sres :=
  match i with
  | StdinStdout => parse_stdout q (world i cmd)
  | FileinStdout => parse_stdout q (world i cmd)
  | FileinFileout => parse_minisat q (world i cmd)
  end.

(* `for solver_cmd in supported_satsolvers()` : the first installed one wins *)
Fixpoint first_installed (tab : list (text * iface)) (installed : text -> bool) : option (text * iface) :=
  match tab with
  | [] => None
  | (n, i) :: t => if installed n then Some (n, i) else first_installed t installed
  end.

Definition sat_solve (q : quirks) (cmd sameas : option text) (installed : text -> bool) (world : iface -> text -> text) : outcome :=
  if match sameas with Some s => negb (supported s) | None => false end then OValueError
  else
    match (match cmd with None => [] | Some c => sv_split_ws c end) with
    | [] =>
      (* no command: try every supported solver; `sameas` is reset to None *)
      match first_installed solver_table installed with
      | Some (n, i) => OResult (run_iface q i world n) i n
      | None => ORuntimeNoSolver
      end
    | solver :: _ =>
      let c := match cmd with Some c => c | None => [] end in
      if negb (supported solver) && match sameas with None => true | Some _ => false end
      then ORuntimeUnsupported
      else
        match lookup (match sameas with Some s => s | None => solver end) solver_table with
        | Some i => if installed solver then OResult (run_iface q i world c) i c else ORuntimeNotInstalled
        | None => ORuntimeUnsupported     (* not reachable: the name was checked above *)
        end
    end.

(* what CNF.solve returns or raises *)
Inductive py_solve :=
| PyPair (sat : bool) (witness : option (list Z))
| PyValueError | PyRuntimeError | PyCrash (e : crash).

Definition solve (q : quirks) (cmd sameas : option text) (installed : text -> bool) (world : iface -> text -> text) : py_solve :=
  match sat_solve q cmd sameas installed world with
  | OResult (SOk b w) _ _ => PyPair b w
  | OResult SRuntimeError _ _ => PyRuntimeError
  | OResult (SCrash e) _ _ => PyCrash e
  | OValueError => PyValueError
  | ORuntimeUnsupported | ORuntimeNotInstalled | ORuntimeNoSolver => PyRuntimeError
  end.

Inductive py_bool := PyBool (b : bool) | PyBValueError | PyBRuntimeError | PyBCrash (e : crash).
(* CNF.is_satisfiable = sat_solve(...)[0] *)
Definition is_satisfiable (q : quirks) (cmd sameas : option text) (installed : text -> bool) (world : iface -> text -> text) : py_bool :=
  match solve q cmd sameas installed world with
  | PyPair b _ => PyBool b
  | PyValueError => PyBValueError
  | PyRuntimeError => PyBRuntimeError
  | PyCrash e => PyBCrash e
  end.

(* temporary files created by the interface function and still there when it returns or raises *)
Definition temp_files_left (q : quirks) (i : iface) : nat :=
  match i with
  | StdinStdout => 0      (* no temporary file *)
  | FileinStdout => if q_leak q then 1 else 0   (* cnf: NamedTemporaryFile(delete=False), never unlinked *)
  | FileinFileout => 0    (* cnf and sat unlinked in the finally clause *)
  end.
Definition temp_left (q : quirks) (o : outcome) : nat :=
  match o with OResult _ i _ => temp_files_left q i | _ => 0%nat end.

(* ---------- vocabulary of the statements ---------- *)

(* a witness, read as the set of literals it makes true, satisfies F *)
Definition lits_sat (w : list Z) (F : list (list Z)) : bool :=
  forallb (fun c => existsb (fun l => existsb (Z.eqb l) w) c) F.
