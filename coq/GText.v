(* GText.v -- character-level helpers used by the graph file readers/writers (GraphIO.v).
   Definitions only.

   Models the following CPython primitives on `str`, restricted to the latin-1
   range (code points 0..255; in that range the model is exact, see harness/c14.py
   stream "primitives"):
     str(int)                 gt_print_Z
     int(s)                   gt_int          grammar  ws* [+-]? D (_? D)* ws*   (base 10)
     s.strip()                gt_strip
     s.split()                gt_split_ws     (runs of non-whitespace)
     s.split(sep)             gt_split_on     (one-character separator)
     f.readlines()            gt_lines        (split after every "\n", ends kept; the text is what a
                                               StringIO / text-mode file delivers, i.e. after newline translation)
     c in s, s[k:], " ".join  gt_mem, skipn, gt_join
   Abstracted: CPython's limit of 4300 digits for int(); code points above 255
   (other Unicode spaces and decimal digits).
   Every identifier is prefixed gt_ because all model files are extracted into one OCaml module. *)
From Coq Require Import ZArith List Bool Ascii.
Import ListNotations.
Open Scope Z_scope.

Definition gt_str := list ascii.

Definition gt_code (c : ascii) : Z := Z.of_N (N_of_ascii c).
Definition gt_chr (z : Z) : ascii := ascii_of_N (Z.to_N z).

Definition gt_nl : ascii := gt_chr 10.
Definition gt_sp : ascii := gt_chr 32.
Definition gt_colon : ascii := gt_chr 58.
Definition gt_minus : ascii := gt_chr 45.
Definition gt_plus : ascii := gt_chr 43.
Definition gt_underscore : ascii := gt_chr 95.
Definition gt_hash : ascii := gt_chr 35.
Definition gt_c : ascii := gt_chr 99.
Definition gt_p : ascii := gt_chr 112.
Definition gt_e : ascii := gt_chr 101.
Definition gt_d : ascii := gt_chr 100.
Definition gt_g : ascii := gt_chr 103.
Definition gt_zero : ascii := gt_chr 48.
Definition gt_one : ascii := gt_chr 49.

(* str.isspace() per character: what strip() and split() remove *)
Definition gt_is_space (c : ascii) : bool :=
  let n := gt_code c in
  ((9 <=? n) && (n <=? 13)) || ((28 <=? n) && (n <=? 32)) || (n =? 133) || (n =? 160).
(* the whitespace int() itself skips (28..31 are not accepted there) *)
Definition gt_is_int_space (c : ascii) : bool :=
  let n := gt_code c in
  ((9 <=? n) && (n <=? 13)) || (n =? 32) || (n =? 133) || (n =? 160).

Definition gt_digit_val (c : ascii) : option Z :=
  let n := gt_code c in if (48 <=? n) && (n <=? 57) then Some (n - 48) else None.
Definition gt_digit_char (d : Z) : ascii := gt_chr (48 + d).

(* ---------- str(int) ---------- *)
Fixpoint gt_digits (fuel : nat) (n : Z) (acc : gt_str) : gt_str :=
  match fuel with
  | O => acc
  | S f => if n <? 10 then gt_digit_char n :: acc
           else gt_digits f (n / 10) (gt_digit_char (n mod 10) :: acc)
  end.
(* fuel: a number below 2^(k+1) has at most k+1 decimal digits *)
Definition gt_print_nat (n : Z) : gt_str := gt_digits (S (S (Z.to_nat (Z.log2 n)))) n [].
Definition gt_print_Z (z : Z) : gt_str :=
  if z <? 0 then gt_minus :: gt_print_nat (- z) else gt_print_nat z.

(* ---------- strip / split ---------- *)
Fixpoint gt_lstrip_by (p : ascii -> bool) (s : gt_str) : gt_str :=
  match s with
  | [] => []
  | c :: t => if p c then gt_lstrip_by p t else s
  end.
Definition gt_strip_by (p : ascii -> bool) (s : gt_str) : gt_str :=
  rev (gt_lstrip_by p (rev (gt_lstrip_by p s))).
Definition gt_strip (s : gt_str) : gt_str := gt_strip_by gt_is_space s.

(* s.split(): maximal runs of non-whitespace characters *)
Fixpoint gt_split_ws (s : gt_str) : list gt_str :=
  match s with
  | [] => []
  | c :: t =>
    if gt_is_space c then gt_split_ws t
    else match t with
         | [] => [[c]]
         | c' :: _ => if gt_is_space c' then [c] :: gt_split_ws t
                      else match gt_split_ws t with
                           | w :: ws => (c :: w) :: ws
                           | [] => [[c]]
                           end
         end
  end.

(* s.split(sep) for a one-character separator: never empty *)
Fixpoint gt_split_on (sep : ascii) (s : gt_str) : list gt_str :=
  match s with
  | [] => [[]]
  | c :: t => if Ascii.eqb c sep then [] :: gt_split_on sep t
              else match gt_split_on sep t with
                   | w :: ws => (c :: w) :: ws
                   | [] => [[c]]
                   end
  end.

(* f.readlines(): every line keeps its "\n"; no empty line is ever produced *)
Fixpoint gt_lines (s : gt_str) : list gt_str :=
  match s with
  | [] => []
  | c :: t => if Ascii.eqb c gt_nl then [c] :: gt_lines t
              else match gt_lines t with
                   | l :: ls => (c :: l) :: ls
                   | [] => [[c]]
                   end
  end.

Definition gt_mem (c : ascii) (s : gt_str) : bool := existsb (Ascii.eqb c) s.
Definition gt_is_nil {A} (l : list A) : bool := match l with [] => true | _ => false end.

Fixpoint gt_str_eqb (a b : gt_str) : bool :=
  match a, b with
  | [], [] => true
  | x :: a', y :: b' => Ascii.eqb x y && gt_str_eqb a' b'
  | _, _ => false
  end.
(* Python's < on str: lexicographic by code point *)
Fixpoint gt_str_ltb (a b : gt_str) : bool :=
  match a, b with
  | _, [] => false
  | [], _ :: _ => true
  | x :: a', y :: b' => if gt_code x <? gt_code y then true
                        else if gt_code y <? gt_code x then false
                        else gt_str_ltb a' b'
  end.

Fixpoint gt_join (sep : gt_str) (l : list gt_str) : gt_str :=
  match l with
  | [] => []
  | [x] => x
  | x :: t => x ++ sep ++ gt_join sep t
  end.

(* ---------- int(s) ---------- *)
(* [seen]: the previous character was a digit (an underscore is allowed only between digits) *)
Fixpoint gt_int_body (seen : bool) (acc : Z) (s : gt_str) : option Z :=
  match s with
  | [] => if seen then Some acc else None
  | c :: t =>
    match gt_digit_val c with
    | Some d => gt_int_body true (10 * acc + d) t
    | None => if Ascii.eqb c gt_underscore && seen then gt_int_body false acc t else None
    end
  end.
Definition gt_int (s : gt_str) : option Z :=
  match gt_strip_by gt_is_int_space s with
  | [] => None
  | c :: t => if Ascii.eqb c gt_minus then option_map Z.opp (gt_int_body false 0 t)
              else if Ascii.eqb c gt_plus then gt_int_body false 0 t
              else gt_int_body false 0 (c :: t)
  end.
(* [int(x) for x in l] : None when any conversion raises ValueError *)
Fixpoint gt_ints (l : list gt_str) : option (list Z) :=
  match l with
  | [] => Some []
  | s :: t => match gt_int s with
              | None => None
              | Some z => match gt_ints t with None => None | Some zs => Some (z :: zs) end
              end
  end.

(* range(1, n+1) *)
Definition gt_range1 (n : Z) : list Z := map Z.of_nat (seq 1 (Z.to_nat n)).
