(* C02CommonFacts.v — lemmas about the pieces shared by the C02 families:
   ranges and pairs, unary-mapping constraints, binary-mapping forbid clauses,
   unique_neighborhoods, relations versus functions. *)
From Coq Require Import ZArith List Bool Lia ZifyBool Arith.
From Coq Require FinFun.
From Cnfgen Require Import Sem Comb Linear SemFacts LinearFacts IR IRFacts C02Common.
Import ListNotations.
Open Scope Z_scope.

(* ---------- ranges ---------- *)
Lemma In_zrange x a b : In x (zrange a b) <-> a <= x < b.
Proof.
  unfold zrange. rewrite in_map_iff. split.
  - intros [i [<- Hi]]. apply in_seq in Hi. lia.
  - intros H. exists (Z.to_nat (x - a)). split; [lia|]. apply in_seq. lia.
Qed.
Lemma In_rng x n : In x (rng n) <-> 1 <= x <= n.
Proof. unfold rng. rewrite In_zrange. lia. Qed.

Lemma NoDup_zrange a b : NoDup (zrange a b).
Proof.
  unfold zrange. apply FinFun.Injective_map_NoDup; [|apply seq_NoDup].
  intros i j H. lia.
Qed.
Lemma NoDup_rng n : NoDup (rng n).
Proof. apply NoDup_zrange. Qed.

Lemma length_zrange a b : length (zrange a b) = Z.to_nat (b - a).
Proof. unfold zrange. now rewrite map_length, seq_length. Qed.
Lemma len_rng n : 0 <= n -> len (rng n) = n.
Proof. intros H. unfold len, rng. rewrite length_zrange. lia. Qed.

(* ---------- pairs ---------- *)
Lemma In_pairs_in {A} (l : list A) x y : In (x, y) (pairs l) -> In x l /\ In y l.
Proof.
  induction l as [|z t IH]; cbn; [tauto|]. rewrite in_app_iff, in_map_iff.
  intros [[w [E H]]|H]; [inversion E; subst; tauto | apply IH in H; tauto].
Qed.

Lemma pairs_map_seq_in {B} (f : nat -> B) : forall k a i1 i2, (a <= i1 -> i1 < i2 -> i2 < a + k ->
  In (f i1, f i2) (pairs (map f (seq a k))))%nat.
Proof.
  induction k as [|k IH]; intros a i1 i2 H1 H2 H3; [lia|]. cbn. apply in_or_app.
  destruct (Nat.eq_dec i1 a) as [->|Hne].
  - left. apply in_map. apply in_map. apply in_seq. lia.
  - right. apply IH; lia.
Qed.
Lemma pairs_map_seq_inv {B} (f : nat -> B) : forall k a x y, In (x, y) (pairs (map f (seq a k))) ->
  exists i1 i2, (a <= i1 /\ i1 < i2 /\ i2 < a + k)%nat /\ x = f i1 /\ y = f i2.
Proof.
  induction k as [|k IH]; intros a x y H; cbn in H; [tauto|]. apply in_app_or in H as [H|H].
  - apply in_map_iff in H as [w [E Hw]]. inversion E; subst. apply in_map_iff in Hw as [i2 [<- Hi]]. apply in_seq in Hi.
    exists a, i2. repeat split; lia.
  - apply IH in H as [i1 [i2 [? [? ?]]]]. exists i1, i2. repeat split; auto; lia.
Qed.

Lemma In_pairs_zrange x y a b : In (x, y) (pairs (zrange a b)) <-> a <= x /\ x < y /\ y < b.
Proof.
  unfold zrange. split.
  - intros H. apply pairs_map_seq_inv in H as [i1 [i2 [H [-> ->]]]]. lia.
  - intros H.
    replace x with (a + Z.of_nat (Z.to_nat (x - a))) by lia.
    replace y with (a + Z.of_nat (Z.to_nat (y - a))) by lia.
    apply (pairs_map_seq_in (fun i => a + Z.of_nat i)); lia.
Qed.
Lemma In_pairs_rng p n : In p (pairs (rng n)) <-> 1 <= fst p /\ fst p < snd p /\ snd p <= n.
Proof. destruct p as [x y]. unfold rng. rewrite In_pairs_zrange. cbn [fst snd]. lia. Qed.

Lemma In_list_prod {A B} (l1 : list A) (l2 : list B) p : In p (list_prod l1 l2) <-> In (fst p) l1 /\ In (snd p) l2.
Proof. destruct p. apply in_prod_iff. Qed.

(* ---------- lists of builder calls ---------- *)
Lemma irs_hold_true_iff a l : irs_hold a l = true <-> forall i, In i l -> ir_holds a i = true.
Proof. unfold irs_hold. apply forallb_forall. Qed.
Lemma irs_hold_app_iff a l1 l2 : irs_hold a (l1 ++ l2) = true <-> irs_hold a l1 = true /\ irs_hold a l2 = true.
Proof. rewrite irs_hold_app. apply andb_true_iff. Qed.
Lemma irs_hold_map_iff {A} a (f : A -> ir) l :
  irs_hold a (map f l) = true <-> forall x, In x l -> ir_holds a (f x) = true.
Proof.
  rewrite irs_hold_true_iff. split.
  - intros H x Hx. apply H. now apply in_map.
  - intros H i Hi. apply in_map_iff in Hi as [x [<- Hx]]. auto.
Qed.
Lemma irs_hold_flat_map_iff {A} a (f : A -> list ir) l :
  irs_hold a (flat_map f l) = true <-> forall x, In x l -> irs_hold a (f x) = true.
Proof.
  induction l as [|x t IH]; cbn [flat_map].
  - split; [intros _ x []|reflexivity].
  - rewrite irs_hold_app_iff, IH. split.
    + intros [H1 H2] y [<-|Hy]; auto.
    + intros H. split; [apply H; now left|]. intros y Hy. apply H. now right.
Qed.
Lemma irs_hold_nil a : irs_hold a [] = true. Proof. reflexivity. Qed.
Lemma irs_hold_cons a i l : irs_hold a (i :: l) = ir_holds a i && irs_hold a l.
Proof. reflexivity. Qed.
Lemma irs_hold_if a (b : bool) l : irs_hold a (if b then l else []) = true <-> (b = true -> irs_hold a l = true).
Proof. destruct b; cbn; split; auto; intros; discriminate. Qed.

Lemma irs_ok_true_iff l : irs_ok l = true <-> forall i, In i l -> ir_ok i = true.
Proof. unfold irs_ok. apply forallb_forall. Qed.
Lemma irs_ok_app_iff l1 l2 : irs_ok (l1 ++ l2) = true <-> irs_ok l1 = true /\ irs_ok l2 = true.
Proof. rewrite irs_ok_app. apply andb_true_iff. Qed.
Lemma irs_ok_map {A} (f : A -> ir) l : (forall x, In x l -> ir_ok (f x) = true) -> irs_ok (map f l) = true.
Proof. intros H. apply irs_ok_true_iff. intros i Hi. apply in_map_iff in Hi as [x [<- Hx]]. auto. Qed.
Lemma irs_ok_flat_map {A} (f : A -> list ir) l : (forall x, In x l -> irs_ok (f x) = true) -> irs_ok (flat_map f l) = true.
Proof.
  intros H. apply irs_ok_true_iff. intros i Hi. apply in_flat_map in Hi as [x [Hx Hi]].
  specialize (H x Hx). rewrite irs_ok_true_iff in H. auto.
Qed.
Lemma irs_ok_if (b : bool) l : irs_ok l = true -> irs_ok (if b then l else []) = true.
Proof. destruct b; auto. Qed.

Lemma lits_ok_true_iff ls : lits_ok ls = true <-> forall l, In l ls -> l <> 0.
Proof.
  unfold lits_ok. rewrite forallb_forall. split; intros H l Hl; specialize (H l Hl); now apply nonzero_spec.
Qed.
Lemma lits_ok_map_pos {A} (f : A -> Z) l : (forall x, In x l -> 0 < f x) -> lits_ok (map f l) = true.
Proof. intros H. apply lits_ok_true_iff. intros z Hz. apply in_map_iff in Hz as [x [<- Hx]]. specialize (H x Hx). lia. Qed.
Lemma lits_ok_map_neg {A} (f : A -> Z) l : (forall x, In x l -> 0 < f x) -> lits_ok (map (fun x => - f x) l) = true.
Proof. intros H. apply lits_ok_true_iff. intros z Hz. apply in_map_iff in Hz as [x [<- Hx]]. specialize (H x Hx). lia. Qed.
Lemma lits_ok_app l1 l2 : lits_ok (l1 ++ l2) = lits_ok l1 && lits_ok l2.
Proof. unfold lits_ok. apply forallb_app. Qed.

(* ---------- clauses over positive variables ---------- *)
Lemma clause_neg2 a x y : 0 < x -> 0 < y -> clause_sat a [- x; - y] = negb (a x && a y).
Proof.
  intros Hx Hy. unfold clause_sat. cbn [existsb]. rewrite !lit_true_neg by assumption.
  destruct (a x), (a y); reflexivity.
Qed.
Lemma clause_neg2_true a x y : 0 < x -> 0 < y ->
  (clause_sat a [- x; - y] = true <-> (a x = true -> a y = true -> False)).
Proof.
  intros Hx Hy. rewrite clause_neg2 by assumption. destruct (a x), (a y); cbn; split; intros H; auto; try discriminate; try (exfalso; now apply H).
Qed.
Lemma clause_neg3 a c x y : 0 < x -> 0 < y ->
  (clause_sat a [c; - x; - y] = true <-> (a x = true -> a y = true -> lit_true a c = true)).
Proof.
  intros Hx Hy. unfold clause_sat. cbn [existsb]. rewrite !lit_true_neg by assumption.
  destruct (lit_true a c), (a x), (a y); cbn; split; intros H; auto; try discriminate; try (symmetry; now apply H).
Qed.
Lemma clause_pos_map {A} a (f : A -> Z) l : (forall x, In x l -> 0 < f x) ->
  (clause_sat a (map f l) = true <-> exists x, In x l /\ a (f x) = true).
Proof.
  intros Hpos. rewrite clause_sat_true_iff. split.
  - intros [z [Hz Ht]]. apply in_map_iff in Hz as [x [<- Hx]]. exists x. split; [assumption|].
    now rewrite lit_true_pos in Ht by auto.
  - intros [x [Hx Ht]]. exists (f x). split; [now apply in_map|]. now rewrite lit_true_pos by auto.
Qed.
Lemma clause_neg_map {A} a (f : A -> Z) l : (forall x, In x l -> 0 < f x) ->
  (clause_sat a (map (fun x => - f x) l) = true <-> exists x, In x l /\ a (f x) = false).
Proof.
  intros Hpos. rewrite clause_sat_true_iff. split.
  - intros [z [Hz Ht]]. apply in_map_iff in Hz as [x [<- Hx]]. exists x. split; [assumption|].
    rewrite lit_true_neg in Ht by auto. now destruct (a (f x)).
  - intros [x [Hx Ht]]. exists (- f x). split; [apply in_map_iff; now exists x|]. rewrite lit_true_neg by auto. now rewrite Ht.
Qed.

(* number of true variables among [map f l] *)
Lemma count_true_map_le1 {A} a (f : A -> Z) l : NoDup l -> (forall x, In x l -> 0 < f x) ->
  (count_true a (map f l) <= 1 <-> forall x y, In x l -> In y l -> a (f x) = true -> a (f y) = true -> x = y).
Proof.
  induction l as [|z t IH]; intros Hnd Hpos.
  - cbn. split; [intros _ x y []|lia].
  - inversion Hnd as [|? ? Hz Ht]; subst. cbn [map count_true].
    rewrite lit_true_pos by (apply Hpos; now left).
    assert (Hpos' : forall x, In x t -> 0 < f x) by (intros; apply Hpos; now right).
    specialize (IH Ht Hpos'). pose proof (count_true_range a (map f t)) as Hr.
    destruct (a (f z)) eqn:Ez; cbn [b2z].
    + split.
      * intros Hc x y [<-|Hx] [<-|Hy] Tx Ty; try reflexivity.
        -- exfalso. assert (0 < count_true a (map f t)); [|lia].
           apply Z.ltb_lt. rewrite <- clause_sat_count. apply clause_pos_map; [assumption|]. now exists y.
        -- exfalso. assert (0 < count_true a (map f t)); [|lia].
           apply Z.ltb_lt. rewrite <- clause_sat_count. apply clause_pos_map; [assumption|]. now exists x.
        -- apply IH; auto. lia.
      * intros H. assert (count_true a (map f t) = 0); [|lia].
        destruct (Z.eq_dec (count_true a (map f t)) 0) as [|Hne]; [assumption|exfalso].
        assert (Hs : clause_sat a (map f t) = true) by (rewrite clause_sat_count; apply Z.ltb_lt; lia).
        apply clause_pos_map in Hs as [x [Hx Tx]]; [|assumption].
        assert (z = x) by (apply H; auto; [now left|now right]). subst. contradiction.
    + rewrite Z.add_0_l, IH. split.
      * intros H x y [<-|Hx] [<-|Hy] Tx Ty; try congruence. now apply H.
      * intros H x y Hx Hy. apply H; now right.
Qed.

(* ---------- identifiers of a unary mapping ---------- *)
Lemma mvar_pos off m i j : 0 <= off -> 1 <= i -> 1 <= j <= m -> 0 < mvar off m i j.
Proof. intros. unfold mvar. nia. Qed.
Lemma mvar_inj off m i j i' j' : 1 <= j <= m -> 1 <= j' <= m -> mvar off m i j = mvar off m i' j' -> i = i' /\ j = j'.
Proof. unfold mvar. intros H1 H2 H. assert (i = i') by nia. subst. lia. Qed.
Lemma mvar_range off n m i j : 0 <= off -> 1 <= i <= n -> 1 <= j <= m -> off < mvar off m i j <= off + n * m.
Proof. intros. unfold mvar. nia. Qed.

Lemma enc_map_mvar off m phi i j : 0 <= off -> 1 <= i -> 1 <= j <= m ->
  enc_map off m phi (mvar off m i j) = (phi i =? j).
Proof.
  intros H0 Hi Hj. unfold enc_map.
  assert (Hp : 0 < mvar off m i j) by (apply mvar_pos; lia).
  assert (E : mvar off m i j - off - 1 = (i - 1) * m + (j - 1)) by (unfold mvar; lia).
  rewrite E.
  replace (off <? mvar off m i j) with true by (symmetry; apply Z.ltb_lt; unfold mvar; nia).
  replace (0 <? m) with true by (symmetry; apply Z.ltb_lt; lia). cbn [andb].
  assert (Ed : ((i - 1) * m + (j - 1)) / m = i - 1) by (symmetry; apply Z.div_unique with (r := j - 1); lia).
  assert (Em : ((i - 1) * m + (j - 1)) mod m = j - 1) by (symmetry; apply Z.mod_unique with (q := i - 1); lia).
  rewrite Ed, Em.
  replace (i - 1 + 1) with i by lia. replace (j - 1 + 1) with j by lia. reflexivity.
Qed.

(* ---------- the mapping constraints of variables.py (unary mappings) ---------- *)
Lemma um_complete_sem a off n m : 0 <= off ->
  (irs_hold a (um_complete off n m) = true <-> rel_total (rel_of a off m) n m).
Proof.
  intros Hoff. unfold um_complete, rel_total, rel_of. rewrite irs_hold_map_iff. split.
  - intros H i Hi. specialize (H i (proj2 (In_rng i n) Hi)). cbn [ir_holds] in H.
    apply clause_pos_map in H as [j [Hj T]].
    + exists j. split; [now apply In_rng|assumption].
    + intros j Hj. apply In_rng in Hj. apply mvar_pos; lia.
  - intros H i Hi. apply In_rng in Hi. destruct (H i Hi) as [j [Hj T]]. cbn [ir_holds].
    apply clause_pos_map.
    + intros j' Hj'. apply In_rng in Hj'. apply mvar_pos; lia.
    + exists j. split; [now apply In_rng|assumption].
Qed.
Lemma um_complete_ok off n m : 0 <= off -> irs_ok (um_complete off n m) = true.
Proof.
  intros Hoff. apply irs_ok_map. intros i Hi. apply In_rng in Hi. unfold ir_ok. cbn [ir_lits].
  apply lits_ok_map_pos. intros j Hj. apply In_rng in Hj. apply mvar_pos; lia.
Qed.

Lemma um_surjective_sem a off n m : 0 <= off ->
  (irs_hold a (um_surjective off n m) = true <-> rel_surjective (rel_of a off m) n m).
Proof.
  intros Hoff. unfold um_surjective, rel_surjective, rel_of. rewrite irs_hold_map_iff. split.
  - intros H j Hj. specialize (H j (proj2 (In_rng j m) Hj)). cbn [ir_holds] in H.
    apply clause_pos_map in H as [i [Hi T]].
    + exists i. split; [now apply In_rng|assumption].
    + intros i Hi. apply In_rng in Hi. apply mvar_pos; lia.
  - intros H j Hj. apply In_rng in Hj. destruct (H j Hj) as [i [Hi T]]. cbn [ir_holds].
    apply clause_pos_map.
    + intros i' Hi'. apply In_rng in Hi'. apply mvar_pos; lia.
    + exists i. split; [now apply In_rng|assumption].
Qed.
Lemma um_surjective_ok off n m : 0 <= off -> irs_ok (um_surjective off n m) = true.
Proof.
  intros Hoff. apply irs_ok_map. intros j Hj. apply In_rng in Hj. unfold ir_ok. cbn [ir_lits].
  apply lits_ok_map_pos. intros i Hi. apply In_rng in Hi. apply mvar_pos; lia.
Qed.

Lemma um_functional_sem a off n m : 0 <= off ->
  (irs_hold a (um_functional off n m) = true <-> rel_functional (rel_of a off m) n m).
Proof.
  intros Hoff. unfold um_functional, rel_functional, rel_of. rewrite irs_hold_map_iff. split.
  - intros H i j1 j2 Hi Hj1 Hj2 T1 T2. specialize (H i (proj2 (In_rng i n) Hi)). cbn [ir_holds cop_holds] in H.
    apply Z.leb_le in H. rewrite count_true_map_le1 in H.
    + apply H; auto; now apply In_rng.
    + apply NoDup_rng.
    + intros j Hj. apply In_rng in Hj. apply mvar_pos; lia.
  - intros H i Hi. apply In_rng in Hi. cbn [ir_holds cop_holds]. apply Z.leb_le. apply count_true_map_le1.
    + apply NoDup_rng.
    + intros j Hj. apply In_rng in Hj. apply mvar_pos; lia.
    + intros j1 j2 Hj1 Hj2. apply In_rng in Hj1, Hj2. now apply H.
Qed.
Lemma um_functional_ok off n m : 0 <= off -> irs_ok (um_functional off n m) = true.
Proof.
  intros Hoff. apply irs_ok_map. intros i Hi. apply In_rng in Hi. unfold ir_ok. cbn [ir_lits].
  apply lits_ok_map_pos. intros j Hj. apply In_rng in Hj. apply mvar_pos; lia.
Qed.

Lemma um_injective_sem a off n m : 0 <= off ->
  (irs_hold a (um_injective off n m) = true <-> rel_injective (rel_of a off m) n m).
Proof.
  intros Hoff. unfold um_injective, rel_injective, rel_of. rewrite irs_hold_map_iff. split.
  - intros H j i1 i2 Hj Hi1 Hi2 T1 T2. specialize (H j (proj2 (In_rng j m) Hj)). cbn [ir_holds cop_holds] in H.
    apply Z.leb_le in H. rewrite count_true_map_le1 in H.
    + apply H; auto; now apply In_rng.
    + apply NoDup_rng.
    + intros i Hi. apply In_rng in Hi. apply mvar_pos; lia.
  - intros H j Hj. apply In_rng in Hj. cbn [ir_holds cop_holds]. apply Z.leb_le. apply count_true_map_le1.
    + apply NoDup_rng.
    + intros i Hi. apply In_rng in Hi. apply mvar_pos; lia.
    + intros i1 i2 Hi1 Hi2. apply In_rng in Hi1, Hi2. now apply H.
Qed.
Lemma um_injective_ok off n m : 0 <= off -> irs_ok (um_injective off n m) = true.
Proof.
  intros Hoff. apply irs_ok_map. intros j Hj. apply In_rng in Hj. unfold ir_ok. cbn [ir_lits].
  apply lits_ok_map_pos. intros i Hi. apply In_rng in Hi. apply mvar_pos; lia.
Qed.

Lemma um_nondecreasing_sem a off n m : 0 <= off ->
  (irs_hold a (um_nondecreasing off n m) = true <-> rel_nondecreasing (rel_of a off m) n m).
Proof.
  intros Hoff. unfold um_nondecreasing, rel_nondecreasing, rel_of. rewrite irs_hold_flat_map_iff. split.
  - intros H i1 i2 j1 j2 A1 A2 A3 B1 B2 B3 T1 T2.
    specialize (H (i1, i2)). rewrite In_pairs_rng in H. cbn [fst snd] in H. specialize (H ltac:(lia)).
    rewrite irs_hold_flat_map_iff in H. specialize (H (j1, j2)). rewrite In_list_prod, !In_rng in H.
    cbn [fst snd] in H. specialize (H ltac:(lia)).
    destruct (Z.gtb_spec j1 j2); [|lia]. rewrite irs_hold_cons in H. cbn [ir_holds] in H.
    apply andb_true_iff in H as [H _]. apply clause_neg2_true in H; auto; apply mvar_pos; lia.
  - intros H [i1 i2] Hi. apply In_pairs_rng in Hi. cbn [fst snd] in *.
    apply irs_hold_flat_map_iff. intros [j1 j2] Hj. apply In_list_prod in Hj. rewrite !In_rng in Hj. cbn [fst snd] in *.
    destruct (Z.gtb_spec j1 j2); [|reflexivity]. rewrite irs_hold_cons. cbn [ir_holds]. rewrite irs_hold_nil, andb_true_r.
    apply clause_neg2_true; try (apply mvar_pos; lia). intros T1 T2. apply (H i1 i2 j1 j2); auto; lia.
Qed.
Lemma um_nondecreasing_ok off n m : 0 <= off -> irs_ok (um_nondecreasing off n m) = true.
Proof.
  intros Hoff. apply irs_ok_flat_map. intros [i1 i2] Hi. apply In_pairs_rng in Hi. cbn [fst snd] in *.
  apply irs_ok_flat_map. intros [j1 j2] Hj. apply In_list_prod in Hj. rewrite !In_rng in Hj. cbn [fst snd] in *.
  destruct (j1 >? j2); [|reflexivity]. cbn. 
  assert (0 < mvar off m i1 j1) by (apply mvar_pos; lia). assert (0 < mvar off m i2 j2) by (apply mvar_pos; lia).
  unfold nonzero. rewrite !andb_true_r. apply andb_true_iff. split; apply negb_true_iff; apply Z.eqb_neq; lia.
Qed.

(* the doubly nested loop over increasing pairs *)
Lemma cons_clauses_sem a bad mk k N :
  irs_hold a (cons_clauses bad mk k N) = true <->
  forall i1 i2 j1 j2, 1 <= i1 -> i1 < i2 -> i2 <= k -> 1 <= j1 -> j1 < j2 -> j2 <= N ->
    bad i1 i2 j1 j2 = true -> irs_hold a (mk i1 i2 j1 j2) = true.
Proof.
  unfold cons_clauses. rewrite irs_hold_flat_map_iff. split.
  - intros H i1 i2 j1 j2 A1 A2 A3 B1 B2 B3 Hb.
    specialize (H (i1, i2)). rewrite In_pairs_rng in H. cbn [fst snd] in H. specialize (H ltac:(lia)).
    rewrite irs_hold_flat_map_iff in H. specialize (H (j1, j2)). rewrite In_pairs_rng in H. cbn [fst snd] in H.
    specialize (H ltac:(lia)). now rewrite Hb in H.
  - intros H [i1 i2] Hi. apply In_pairs_rng in Hi. cbn [fst snd] in *.
    apply irs_hold_flat_map_iff. intros [j1 j2] Hj. apply In_pairs_rng in Hj. cbn [fst snd] in *.
    destruct (bad i1 i2 j1 j2) eqn:Hb; [|reflexivity]. apply H; auto; lia.
Qed.
Lemma cons_clauses_ok bad mk k N :
  (forall i1 i2 j1 j2, 1 <= i1 -> i1 < i2 -> i2 <= k -> 1 <= j1 -> j1 < j2 -> j2 <= N -> irs_ok (mk i1 i2 j1 j2) = true) ->
  irs_ok (cons_clauses bad mk k N) = true.
Proof.
  intros H. apply irs_ok_flat_map. intros [i1 i2] Hi. apply In_pairs_rng in Hi. cbn [fst snd] in *.
  apply irs_ok_flat_map. intros [j1 j2] Hj. apply In_pairs_rng in Hj. cbn [fst snd] in *.
  destruct (bad i1 i2 j1 j2); [|reflexivity]. apply H; lia.
Qed.

Lemma ir_ok_clause2 x y : 0 < x -> 0 < y -> ir_ok (IClause [- x; - y]) = true.
Proof.
  intros Hx Hy. cbn. unfold nonzero. rewrite !andb_true_r. apply andb_true_iff.
  split; apply negb_true_iff; apply Z.eqb_neq; lia.
Qed.

(* ---------- relations that are graphs of functions ---------- *)
(* on the box 1..n x 1..m the relation R is the graph of phi *)
Definition graph_of (R : Z -> Z -> bool) (phi : Z -> Z) (n m : Z) : Prop :=
  forall i, 1 <= i <= n -> 1 <= phi i <= m /\ forall j, 1 <= j <= m -> (R i j = true <-> phi i = j).

Lemma graph_of_total R phi n m : graph_of R phi n m -> rel_total R n m.
Proof. intros H i Hi. destruct (H i Hi) as [Hr Hg]. exists (phi i). split; [assumption|]. now apply Hg. Qed.
Lemma graph_of_functional R phi n m : graph_of R phi n m -> rel_functional R n m.
Proof.
  intros H i j1 j2 Hi H1 H2 T1 T2. destruct (H i Hi) as [_ Hg].
  apply Hg in T1, T2; auto. congruence.
Qed.

Lemma dec_map_graph a off m n :
  rel_total (rel_of a off m) n m -> rel_functional (rel_of a off m) n m ->
  graph_of (rel_of a off m) (dec_map a off m) n m.
Proof.
  intros Ht Hf i Hi. unfold dec_map. destruct (Ht i Hi) as [j0 [Hj0 T0]].
  destruct (find (fun j => a (mvar off m i j)) (rng m)) as [j1|] eqn:E.
  - apply find_some in E as [Hj1 T1]. apply In_rng in Hj1. split; [assumption|].
    intros j Hj. split.
    + intros T. apply (Hf i j1 j); auto.
    + intros <-. exact T1.
  - exfalso. pose proof (find_none _ _ E j0 (proj2 (In_rng j0 m) Hj0)) as Hn. cbn beta in Hn.
    unfold rel_of in T0. congruence.
Qed.

Lemma enc_map_graph off m n phi : 0 <= off -> (forall i, 1 <= i <= n -> 1 <= phi i <= m) ->
  graph_of (rel_of (enc_map off m phi) off m) phi n m.
Proof.
  intros Hoff Hr i Hi. split; [now apply Hr|]. intros j Hj. unfold rel_of.
  rewrite enc_map_mvar by lia. apply Z.eqb_eq.
Qed.

Lemma graph_of_unique R phi psi n m : graph_of R phi n m -> graph_of R psi n m ->
  forall i, 1 <= i <= n -> phi i = psi i.
Proof.
  intros H1 H2 i Hi. destruct (H1 i Hi) as [Hr1 Hg1]. destruct (H2 i Hi) as [Hr2 Hg2].
  symmetry. apply (Hg2 (phi i) Hr1). now apply Hg1.
Qed.

(* assignments with the same graph agree on the variables of the mapping *)
Lemma graph_of_same_vars a b off n m phi : 0 <= off -> 0 <= n ->
  graph_of (rel_of a off m) phi n m -> graph_of (rel_of b off m) phi n m ->
  forall v, off < v <= off + n * m -> a v = b v.
Proof.
  intros Hoff Hn Ha Hb v Hv.
  assert (Hm : 0 < m) by nia.
  set (i := (v - off - 1) / m + 1). set (j := (v - off - 1) mod m + 1).
  assert (Hj : 1 <= j <= m) by (unfold j; pose proof (Z.mod_pos_bound (v - off - 1) m Hm); lia).
  assert (Ev : v = mvar off m i j).
  { unfold mvar, i, j. pose proof (Z.div_mod (v - off - 1) m ltac:(lia)). lia. }
  assert (Hi : 1 <= i <= n).
  { unfold i. split.
    - assert (0 <= (v - off - 1) / m) by (apply Z.div_pos; lia). lia.
    - assert ((v - off - 1) / m < n); [|lia]. apply Z.div_lt_upper_bound; lia. }
  destruct (Ha i Hi) as [_ Ga]. destruct (Hb i Hi) as [_ Gb]. specialize (Ga j Hj). specialize (Gb j Hj).
  unfold rel_of in Ga, Gb. rewrite <- Ev in Ga, Gb.
  destruct (a v), (b v); try reflexivity.
  - symmetry. apply Gb. now apply Ga.
  - apply Ga. now apply Gb.
Qed.

(* reading the other constraints on a function *)
Lemma graph_injective R phi n m : graph_of R phi n m ->
  (rel_injective R n m <-> forall i1 i2, 1 <= i1 <= n -> 1 <= i2 <= n -> phi i1 = phi i2 -> i1 = i2).
Proof.
  intros G. split.
  - intros H i1 i2 H1 H2 E. destruct (G i1 H1) as [R1 G1]. destruct (G i2 H2) as [R2 G2].
    apply (H (phi i1) i1 i2); auto; [now apply G1 | apply G2; [lia|congruence]].
  - intros H j i1 i2 Hj H1 H2 T1 T2. destruct (G i1 H1) as [R1 G1]. destruct (G i2 H2) as [R2 G2].
    apply H; auto. apply G1 in T1; auto. apply G2 in T2; auto. congruence.
Qed.
Lemma graph_surjective R phi n m : graph_of R phi n m ->
  (rel_surjective R n m <-> forall j, 1 <= j <= m -> exists i, 1 <= i <= n /\ phi i = j).
Proof.
  intros G. split.
  - intros H j Hj. destruct (H j Hj) as [i [Hi T]]. exists i. split; [assumption|]. destruct (G i Hi) as [_ Gi]. now apply Gi.
  - intros H j Hj. destruct (H j Hj) as [i [Hi E]]. exists i. split; [assumption|]. destruct (G i Hi) as [_ Gi]. now apply Gi.
Qed.
Lemma graph_nondecreasing R phi n m : graph_of R phi n m ->
  (rel_nondecreasing R n m <-> forall i1 i2, 1 <= i1 -> i1 < i2 -> i2 <= n -> phi i1 <= phi i2).
Proof.
  intros G. split.
  - intros H i1 i2 A1 A2 A3. destruct (G i1 ltac:(lia)) as [R1 G1]. destruct (G i2 ltac:(lia)) as [R2 G2].
    destruct (Z.le_gt_cases (phi i1) (phi i2)) as [|Hgt]; [assumption|exfalso].
    apply (H i1 i2 (phi i1) (phi i2)); auto; try lia; [now apply G1 | now apply G2].
  - intros H i1 i2 j1 j2 A1 A2 A3 B1 B2 B3 T1 T2.
    destruct (G i1 ltac:(lia)) as [R1 G1]. destruct (G i2 ltac:(lia)) as [R2 G2].
    apply G1 in T1; [|lia]. apply G2 in T2; [|lia]. specialize (H i1 i2 A1 A2 A3). lia.
Qed.

(* pairs of images: "straight" clauses [-f(i1,j1), -f(i2,j2)] and "crossed" clauses [-f(i1,j2), -f(i2,j1)] *)
Lemma graph_straight R phi n m (bad : Z -> Z -> Z -> Z -> bool) : graph_of R phi n m ->
  (rel_straight R bad n m <->
   (forall i1 i2, 1 <= i1 -> i1 < i2 -> i2 <= n -> phi i1 < phi i2 -> bad i1 i2 (phi i1) (phi i2) = false)).
Proof.
  intros G. unfold rel_straight. split.
  - intros H i1 i2 A1 A2 A3 Hlt. destruct (G i1 ltac:(lia)) as [R1 G1]. destruct (G i2 ltac:(lia)) as [R2 G2].
    destruct (bad i1 i2 (phi i1) (phi i2)) eqn:Hb; [exfalso|reflexivity].
    apply (H i1 i2 (phi i1) (phi i2)); auto; try lia; [now apply G1 | now apply G2].
  - intros H i1 i2 j1 j2 A1 A2 A3 B1 B2 B3 Hb T1 T2.
    destruct (G i1 ltac:(lia)) as [R1 G1]. destruct (G i2 ltac:(lia)) as [R2 G2].
    apply G1 in T1; [|lia]. apply G2 in T2; [|lia]. subst j1 j2.
    rewrite (H i1 i2 A1 A2 A3 B2) in Hb. discriminate.
Qed.
Lemma graph_crossed R phi n m (bad : Z -> Z -> Z -> Z -> bool) : graph_of R phi n m ->
  (rel_crossed R bad n m <->
   (forall i1 i2, 1 <= i1 -> i1 < i2 -> i2 <= n -> phi i2 < phi i1 -> bad i1 i2 (phi i2) (phi i1) = false)).
Proof.
  intros G. unfold rel_crossed. split.
  - intros H i1 i2 A1 A2 A3 Hlt. destruct (G i1 ltac:(lia)) as [R1 G1]. destruct (G i2 ltac:(lia)) as [R2 G2].
    destruct (bad i1 i2 (phi i2) (phi i1)) eqn:Hb; [exfalso|reflexivity].
    apply (H i1 i2 (phi i2) (phi i1)); auto; try lia; [now apply G1 | now apply G2].
  - intros H i1 i2 j1 j2 A1 A2 A3 B1 B2 B3 Hb T1 T2.
    destruct (G i1 ltac:(lia)) as [R1 G1]. destruct (G i2 ltac:(lia)) as [R2 G2].
    apply G1 in T1; [|lia]. apply G2 in T2; [|lia]. subst j1 j2.
    rewrite (H i1 i2 A1 A2 A3 B2) in Hb. discriminate.
Qed.

(* the consistency loop with pair_mk *)
Lemma cons_pair_sem a off N symbreak bad k : 0 <= off ->
  (irs_hold a (cons_clauses bad (pair_mk off N symbreak) k N) = true <->
   rel_straight (rel_of a off N) bad k N /\ (symbreak = false -> rel_crossed (rel_of a off N) bad k N)).
Proof.
  intros Hoff. rewrite cons_clauses_sem. unfold rel_straight, rel_crossed, rel_of, pair_mk. split.
  - intros H. split.
    + intros i1 i2 j1 j2 A1 A2 A3 B1 B2 B3 Hb T1 T2. specialize (H i1 i2 j1 j2 A1 A2 A3 B1 B2 B3 Hb).
      rewrite irs_hold_cons in H. apply andb_true_iff in H as [H _]. cbn [ir_holds] in H.
      apply clause_neg2_true in H; auto; apply mvar_pos; lia.
    + intros -> i1 i2 j1 j2 A1 A2 A3 B1 B2 B3 Hb T1 T2. specialize (H i1 i2 j1 j2 A1 A2 A3 B1 B2 B3 Hb).
      rewrite !irs_hold_cons in H. apply andb_true_iff in H as [_ H]. apply andb_true_iff in H as [H _]. cbn [ir_holds] in H.
      apply clause_neg2_true in H; auto; apply mvar_pos; lia.
  - intros [Hs Hc] i1 i2 j1 j2 A1 A2 A3 B1 B2 B3 Hb. rewrite irs_hold_cons. apply andb_true_iff. split.
    + cbn [ir_holds]. apply clause_neg2_true; try (apply mvar_pos; lia). now apply (Hs i1 i2 j1 j2).
    + destruct symbreak; [reflexivity|]. rewrite irs_hold_cons, irs_hold_nil, andb_true_r. cbn [ir_holds].
      apply clause_neg2_true; try (apply mvar_pos; lia). now apply (Hc eq_refl i1 i2 j1 j2).
Qed.
Lemma cons_pair_ok off N symbreak bad k : 0 <= off -> irs_ok (cons_clauses bad (pair_mk off N symbreak) k N) = true.
Proof.
  intros Hoff. apply cons_clauses_ok. intros i1 i2 j1 j2 A1 A2 A3 B1 B2 B3. unfold pair_mk.
  assert (P1 : ir_ok (IClause [- mvar off N i1 j1; - mvar off N i2 j2]) = true) by (apply ir_ok_clause2; apply mvar_pos; lia).
  assert (P2 : ir_ok (IClause [- mvar off N i1 j2; - mvar off N i2 j1]) = true) by (apply ir_ok_clause2; apply mvar_pos; lia).
  unfold irs_ok. cbn [forallb]. rewrite P1. destruct symbreak; cbn [forallb]; [reflexivity|]. now rewrite P2.
Qed.

(* ---------- edges ---------- *)
Lemma has_edge_sym E u v : has_edge E u v = has_edge E v u.
Proof. unfold has_edge. apply existsb_ext. intros e. apply orb_comm. Qed.
Lemma has_edge_true E u v : has_edge E u v = true <-> In (u, v) E \/ In (v, u) E.
Proof.
  unfold has_edge. rewrite existsb_exists. split.
  - intros [[x y] [Hin H]]. cbn [fst snd] in H. apply orb_true_iff in H as [H|H];
      apply andb_true_iff in H as [H1 H2]; apply Z.eqb_eq in H1, H2; subst; auto.
  - intros [H|H]; [exists (u, v)|exists (v, u)]; (split; [assumption|]); cbn [fst snd]; rewrite !Z.eqb_refl; cbn; auto using orb_true_r.
Qed.
Lemma edges_ok_in n E u v : edges_ok n E = true -> In (u, v) E -> 1 <= u /\ u < v /\ v <= n.
Proof.
  unfold edges_ok. rewrite forallb_forall. intros H Hin. specialize (H _ Hin). cbn [fst snd] in H. lia.
Qed.

(* ---------- binary mappings ---------- *)
Lemma pow2_succ p : 2 ^ Z.of_nat (S p) = 2 * 2 ^ Z.of_nat p.
Proof. rewrite Nat2Z.inj_succ, Z.pow_succ_r by lia. reflexivity. Qed.
Lemma pow2_pos p : 0 < 2 ^ Z.of_nat p.
Proof. apply Z.pow_pos_nonneg; lia. Qed.

Lemma bits_value_range a nb base : 0 <= bits_value a nb base < 2 ^ Z.of_nat nb.
Proof.
  revert base. induction nb as [|p IH]; intros base; cbn [bits_value].
  - cbn. lia.
  - rewrite pow2_succ. specialize (IH (base + 1)). pose proof (pow2_pos p). pose proof (b2z_range (a (base + 1))). nia.
Qed.

Lemma forbid_bits_sem a nb : forall base j, 0 <= base -> 0 <= j < 2 ^ Z.of_nat nb ->
  clause_sat a (forbid_bits nb base j) = negb (bits_value a nb base =? j).
Proof.
  induction nb as [|p IH]; intros base j Hb Hj; cbn [forbid_bits bits_value].
  - cbn in Hj. assert (j = 0) by lia. subst. reflexivity.
  - rewrite pow2_succ in Hj. pose proof (pow2_pos p) as Hp. pose proof (bits_value_range a p (base + 1)) as Hr.
    set (P := 2 ^ Z.of_nat p) in *. destruct (Z.leb_spec P j) as [L|L].
    + rewrite clause_sat_cons, lit_true_neg, IH by lia. destruct (a (base + 1)); cbn [negb orb b2z].
      * destruct (Z.eqb_spec (bits_value a p (base + 1)) (j - P)); destruct (Z.eqb_spec (1 * P + bits_value a p (base + 1)) j); try reflexivity; lia.
      * symmetry. apply negb_true_iff. apply Z.eqb_neq. lia.
    + rewrite clause_sat_cons, lit_true_pos, IH by lia. destruct (a (base + 1)); cbn [negb orb b2z].
      * symmetry. apply negb_true_iff. apply Z.eqb_neq. lia.
      * destruct (Z.eqb_spec (bits_value a p (base + 1)) j); destruct (Z.eqb_spec (0 * P + bits_value a p (base + 1)) j); try reflexivity; lia.
Qed.
Lemma forbid_bits_ok nb : forall base j, 0 <= base -> lits_ok (forbid_bits nb base j) = true.
Proof.
  induction nb as [|p IH]; intros base j Hb; cbn [forbid_bits]; [reflexivity|].
  destruct (2 ^ Z.of_nat p <=? j); cbn [lits_ok forallb]; (apply andb_true_iff; split; [apply nonzero_spec; lia|apply IH; lia]).
Qed.

Lemma bm_forbid_sem a b i j : 0 <= b -> 1 <= i -> 0 <= j < 2 ^ b ->
  clause_sat a (bm_forbid b i j) = negb (bm_value a b i =? j).
Proof.
  intros Hb Hi Hj. unfold bm_forbid, bm_value. apply forbid_bits_sem; [nia|]. now rewrite Z2Nat.id by lia.
Qed.
Lemma bm_forbid_ok b i j : 0 <= b -> 1 <= i -> lits_ok (bm_forbid b i j) = true.
Proof. intros. unfold bm_forbid. apply forbid_bits_ok. nia. Qed.
Lemma bm_value_range a b i : 0 <= b -> 0 <= bm_value a b i < 2 ^ b.
Proof. intros Hb. unfold bm_value. pose proof (bits_value_range a (Z.to_nat b) ((i - 1) * b)) as H. now rewrite Z2Nat.id in H by lia. Qed.

Lemma bm_bits_spec m : 1 <= m -> 0 <= bm_bits m /\ m <= 2 ^ bm_bits m.
Proof.
  intros Hm. unfold bm_bits. split; [apply Z.log2_up_nonneg|].
  destruct (Z.eq_dec m 1) as [->|Hne]; [cbn; lia|]. apply Z.log2_up_spec. lia.
Qed.

(* the relation "element i is mapped to vertex j" (vertices 1..m are written as 0..m-1) *)
Definition bm_rel (a : Z -> bool) (m : Z) : Z -> Z -> bool := fun i j => bm_value a (bm_bits m) i + 1 =? j.

Lemma bm_forbid2_sem a b i1 j1 i2 j2 : 0 <= b -> 1 <= i1 -> 1 <= i2 -> 0 <= j1 < 2 ^ b -> 0 <= j2 < 2 ^ b ->
  (clause_sat a (bm_forbid b i1 j1 ++ bm_forbid b i2 j2) = true <->
   (bm_value a b i1 = j1 -> bm_value a b i2 = j2 -> False)).
Proof.
  intros. rewrite clause_sat_app, !bm_forbid_sem by assumption.
  destruct (Z.eqb_spec (bm_value a b i1) j1), (Z.eqb_spec (bm_value a b i2) j2); cbn; intuition discriminate.
Qed.
Lemma bm_forbid2_ok b i1 j1 i2 j2 : 0 <= b -> 1 <= i1 -> 1 <= i2 ->
  ir_ok (IClause (bm_forbid b i1 j1 ++ bm_forbid b i2 j2)) = true.
Proof. intros. unfold ir_ok. cbn [ir_lits]. rewrite lits_ok_app, !bm_forbid_ok by assumption. reflexivity. Qed.

Lemma bm_complete_sem a n m : 1 <= m ->
  (irs_hold a (bm_complete n m) = true <-> forall i, 1 <= i <= n -> bm_value a (bm_bits m) i < m).
Proof.
  intros Hm. destruct (bm_bits_spec m Hm) as [Hb Hle]. unfold bm_complete. rewrite irs_hold_flat_map_iff. split.
  - intros H i Hi. specialize (H i (proj2 (In_rng i n) Hi)). rewrite irs_hold_map_iff in H.
    destruct (Z.lt_ge_cases (bm_value a (bm_bits m) i) m) as [|Hge]; [assumption|exfalso].
    pose proof (bm_value_range a (bm_bits m) i Hb) as Hr.
    specialize (H (bm_value a (bm_bits m) i)). rewrite In_zrange in H. specialize (H ltac:(lia)). cbn [ir_holds] in H.
    rewrite bm_forbid_sem, Z.eqb_refl in H by lia. discriminate.
  - intros H i Hi. apply In_rng in Hi. apply irs_hold_map_iff. intros j Hj. apply In_zrange in Hj. cbn [ir_holds].
    rewrite bm_forbid_sem by lia. apply negb_true_iff. apply Z.eqb_neq. specialize (H i Hi). lia.
Qed.
Lemma bm_complete_ok n m : 1 <= m -> irs_ok (bm_complete n m) = true.
Proof.
  intros Hm. destruct (bm_bits_spec m Hm) as [Hb _]. apply irs_ok_flat_map. intros i Hi. apply In_rng in Hi.
  apply irs_ok_map. intros j _. unfold ir_ok. cbn [ir_lits]. apply bm_forbid_ok; lia.
Qed.

Lemma bm_injective_sem a n m : 1 <= m ->
  (irs_hold a (bm_injective n m) = true <-> rel_injective (bm_rel a m) n m).
Proof.
  intros Hm. destruct (bm_bits_spec m Hm) as [Hb Hle]. unfold bm_injective, rel_injective, bm_rel.
  rewrite irs_hold_flat_map_iff. split.
  - intros H j i1 i2 Hj H1 H2 T1 T2. apply Z.eqb_eq in T1, T2.
    assert (Q : forall x1 x2, 1 <= x1 -> x1 < x2 -> x2 <= n ->
              bm_value a (bm_bits m) x1 = j - 1 -> bm_value a (bm_bits m) x2 = j - 1 -> False).
    { intros x1 x2 A1 A2 A3 V1 V2. specialize (H (j - 1)). rewrite In_zrange in H. specialize (H ltac:(lia)).
      rewrite irs_hold_map_iff in H. specialize (H (x1, x2)). rewrite In_pairs_rng in H. cbn [fst snd] in H.
      specialize (H ltac:(lia)). cbn [ir_holds] in H.
      assert (C1 : 1 <= x1) by lia. assert (C2 : 1 <= x2) by lia. assert (C3 : 0 <= j - 1 < 2 ^ bm_bits m) by lia.
      exact (proj1 (bm_forbid2_sem a _ x1 (j - 1) x2 (j - 1) Hb C1 C2 C3 C3) H V1 V2). }
    destruct (Z.lt_trichotomy i1 i2) as [L|[L|L]]; [exfalso|assumption|exfalso].
    + apply (Q i1 i2); lia.
    + apply (Q i2 i1); lia.
  - intros H y Hy. apply In_zrange in Hy. apply irs_hold_map_iff. intros [x1 x2] Hp. apply In_pairs_rng in Hp.
    cbn [fst snd] in *. cbn [ir_holds]. apply bm_forbid2_sem; try lia. intros T1 T2.
    assert (x1 = x2); [|lia]. apply (H (y + 1) x1 x2); try lia; apply Z.eqb_eq; lia.
Qed.
Lemma bm_injective_ok n m : 1 <= m -> irs_ok (bm_injective n m) = true.
Proof.
  intros Hm. destruct (bm_bits_spec m Hm) as [Hb _]. apply irs_ok_flat_map. intros y _.
  apply irs_ok_map. intros [x1 x2] Hp. apply In_pairs_rng in Hp. cbn [fst snd] in *. apply bm_forbid2_ok; lia.
Qed.

Lemma bm_nondecreasing_sem a n m : 1 <= m ->
  (irs_hold a (bm_nondecreasing n m) = true <-> rel_nondecreasing (bm_rel a m) n m).
Proof.
  intros Hm. destruct (bm_bits_spec m Hm) as [Hb Hle]. unfold bm_nondecreasing, rel_nondecreasing, bm_rel.
  rewrite irs_hold_flat_map_iff. split.
  - intros H i1 i2 j1 j2 A1 A2 A3 B1 B2 B3 T1 T2. apply Z.eqb_eq in T1, T2.
    specialize (H (i1, i2)). rewrite In_pairs_rng in H. cbn [fst snd] in H. specialize (H ltac:(lia)).
    rewrite irs_hold_map_iff in H. specialize (H (j2 - 1, j1 - 1)). rewrite In_pairs_zrange in H. specialize (H ltac:(lia)).
    cbn [ir_holds fst snd] in H.
    assert (C1 : 1 <= i1) by lia. assert (C2 : 1 <= i2) by lia.
    assert (C3 : 0 <= j1 - 1 < 2 ^ bm_bits m) by lia. assert (C4 : 0 <= j2 - 1 < 2 ^ bm_bits m) by lia.
    apply (proj1 (bm_forbid2_sem a _ i1 (j1 - 1) i2 (j2 - 1) Hb C1 C2 C3 C4) H); lia.
  - intros H [u1 u2] Hp. apply In_pairs_rng in Hp. cbn [fst snd] in *. apply irs_hold_map_iff. intros [v1 v2] Hv.
    apply In_pairs_zrange in Hv. cbn [ir_holds fst snd]. apply bm_forbid2_sem; try lia. intros T1 T2.
    apply (H u1 u2 (v2 + 1) (v1 + 1)); try lia; apply Z.eqb_eq; lia.
Qed.
Lemma bm_nondecreasing_ok n m : 1 <= m -> irs_ok (bm_nondecreasing n m) = true.
Proof.
  intros Hm. destruct (bm_bits_spec m Hm) as [Hb _]. apply irs_ok_flat_map. intros [u1 u2] Hp. apply In_pairs_rng in Hp.
  cbn [fst snd] in *. apply irs_ok_map. intros [v1 v2] _. apply bm_forbid2_ok; lia.
Qed.

(* ---------- ranks: the increasing enumeration of a finite set of vertices ---------- *)
Definition memb (v : Z) (S : list Z) : bool := existsb (Z.eqb v) S.
Lemma memb_true v S : memb v S = true <-> In v S.
Proof.
  unfold memb. rewrite existsb_exists. split.
  - intros [x [Hx E]]. apply Z.eqb_eq in E. now subst.
  - intros H. exists v. split; [assumption|apply Z.eqb_refl].
Qed.

Lemma filter_len_le {A} (p q : A -> bool) l :
  (forall x, In x l -> p x = true -> q x = true) -> len (filter p l) <= len (filter q l).
Proof.
  induction l as [|x t IH]; intros H; [cbn; lia|]. cbn [filter].
  assert (IH' : len (filter p t) <= len (filter q t)) by (apply IH; intros y Hy; apply H; now right).
  destruct (p x) eqn:Px.
  - rewrite (H x (or_introl eq_refl) Px), !len_cons. lia.
  - destruct (q x); rewrite ?len_cons; lia.
Qed.
Lemma filter_len_lt {A} (p q : A -> bool) l x :
  (forall y, In y l -> p y = true -> q y = true) -> In x l -> q x = true -> p x = false ->
  len (filter p l) < len (filter q l).
Proof.
  induction l as [|z t IH]; intros H Hin Qx Px; [destruct Hin|]. cbn [filter].
  assert (Hle : len (filter p t) <= len (filter q t)) by (apply filter_len_le; intros y Hy; apply H; now right).
  destruct Hin as [->|Hin].
  - rewrite Px, Qx, len_cons. lia.
  - assert (IH' : len (filter p t) < len (filter q t)) by (apply IH; auto; intros y Hy; apply H; now right).
    destruct (p z) eqn:Pz.
    + rewrite (H z (or_introl eq_refl) Pz), !len_cons. lia.
    + destruct (q z); rewrite ?len_cons; lia.
Qed.

Lemma NoDup_map_inj_in {A B} (f : A -> B) l :
  (forall x y, In x l -> In y l -> f x = f y -> x = y) -> NoDup l -> NoDup (map f l).
Proof.
  induction l as [|x t IH]; intros Hinj Hnd; [constructor|]. inversion Hnd as [|? ? Hx Ht]; subst. cbn [map]. constructor.
  - intros Hin. apply in_map_iff in Hin as [y [E Hy]]. apply Hx. rewrite (Hinj x y); auto; [now left|now right].
  - apply IH; [|assumption]. intros a b Ha Hb. apply Hinj; now right.
Qed.

(* number of elements of S that are <= v *)
Definition rank (S : list Z) (N v : Z) : Z := len (filter (fun u => memb u S && (u <=? v)) (rng N)).

Lemma rank_mono S N u v : u <= v -> rank S N u <= rank S N v.
Proof.
  intros H. unfold rank. apply filter_len_le. intros x _ Hx. apply andb_true_iff in Hx as [H1 H2].
  apply andb_true_iff. split; [assumption|]. apply Z.leb_le. apply Z.leb_le in H2. lia.
Qed.
Lemma rank_strict S N u v : u < v -> In v S -> 1 <= v <= N -> rank S N u < rank S N v.
Proof.
  intros H Hv Hr. unfold rank. apply (filter_len_lt _ _ _ v).
  - intros x _ Hx. apply andb_true_iff in Hx as [H1 H2]. apply andb_true_iff. split; [assumption|].
    apply Z.leb_le. apply Z.leb_le in H2. lia.
  - now apply In_rng.
  - apply andb_true_iff. split; [now apply memb_true|apply Z.leb_refl].
  - apply andb_false_iff. right. apply Z.leb_gt. lia.
Qed.
Lemma rank_pos S N v : In v S -> 1 <= v <= N -> 1 <= rank S N v.
Proof.
  intros Hv Hr. pose proof (rank_strict S N (v - 1) v ltac:(lia) Hv Hr). unfold rank in *.
  pose proof (len_nonneg (filter (fun u => memb u S && (u <=? v - 1)) (rng N))). lia.
Qed.
Lemma rank_le S N v : NoDup S -> rank S N v <= len S.
Proof.
  intros Hnd. unfold rank, len. apply inj_le. apply NoDup_incl_length.
  - apply NoDup_filter. apply NoDup_rng.
  - intros x Hx. apply filter_In in Hx as [_ Hx]. apply andb_true_iff in Hx as [Hx _]. now apply memb_true.
Qed.
Lemma rank_inj S N u v : In u S -> In v S -> (forall x, In x S -> 1 <= x <= N) -> rank S N u = rank S N v -> u = v.
Proof.
  intros Hu Hv Hr E. destruct (Z.lt_trichotomy u v) as [L|[L|L]]; [exfalso|assumption|exfalso].
  - pose proof (rank_strict S N u v L Hv (Hr v Hv)). lia.
  - pose proof (rank_strict S N v u L Hu (Hr u Hu)). lia.
Qed.
Lemma rank_surj S N : NoDup S -> (forall x, In x S -> 1 <= x <= N) ->
  forall i, 1 <= i <= len S -> exists v, In v S /\ rank S N v = i.
Proof.
  intros Hnd Hr i Hi.
  assert (Hincl : incl (rng (len S)) (map (rank S N) S)).
  { apply NoDup_length_incl.
    - apply NoDup_map_inj_in; [|assumption]. intros x y Hx Hy. now apply rank_inj.
    - rewrite map_length. unfold rng. rewrite length_zrange. unfold len. lia.
    - intros r Hin. apply in_map_iff in Hin as [v [<- Hv]]. apply In_rng.
      pose proof (rank_pos S N v Hv (Hr v Hv)). pose proof (rank_le S N v Hnd). lia. }
  specialize (Hincl i (proj2 (In_rng i (len S)) Hi)). apply in_map_iff in Hincl as [v [E Hv]]. now exists v.
Qed.

(* the i-th smallest element of S *)
Definition select (S : list Z) (N i : Z) : Z :=
  match find (fun v => memb v S && (rank S N v =? i)) (rng N) with Some v => v | None => 0 end.

Lemma select_spec S N i : NoDup S -> (forall x, In x S -> 1 <= x <= N) -> 1 <= i <= len S ->
  In (select S N i) S /\ rank S N (select S N i) = i.
Proof.
  intros Hnd Hr Hi. unfold select. destruct (rank_surj S N Hnd Hr i Hi) as [v [Hv Ev]].
  destruct (find (fun v => memb v S && (rank S N v =? i)) (rng N)) as [w|] eqn:F.
  - apply find_some in F as [_ F]. apply andb_true_iff in F as [F1 F2]. apply memb_true in F1. apply Z.eqb_eq in F2. now split.
  - exfalso. pose proof (find_none _ _ F v (proj2 (In_rng v N) (Hr v Hv))) as Hn. cbn beta in Hn.
    rewrite (proj2 (memb_true v S) Hv), Ev, Z.eqb_refl in Hn. discriminate.
Qed.

Lemma sorted_enum S N : NoDup S -> (forall x, In x S -> 1 <= x <= N) ->
  exists psi, (forall i, 1 <= i <= len S -> In (psi i) S) /\
              (forall i1 i2, 1 <= i1 -> i1 < i2 -> i2 <= len S -> psi i1 < psi i2) /\
              (forall v, In v S -> exists i, 1 <= i <= len S /\ psi i = v).
Proof.
  intros Hnd Hr. exists (select S N). split; [|split].
  - intros i Hi. apply (select_spec S N i Hnd Hr Hi).
  - intros i1 i2 A1 A2 A3. destruct (select_spec S N i1 Hnd Hr ltac:(lia)) as [_ E1].
    destruct (select_spec S N i2 Hnd Hr ltac:(lia)) as [_ E2].
    destruct (Z.lt_ge_cases (select S N i1) (select S N i2)) as [|Hge]; [assumption|exfalso].
    pose proof (rank_mono S N _ _ Hge). lia.
  - intros v Hv. exists (rank S N v). pose proof (rank_pos S N v Hv (Hr v Hv)). pose proof (rank_le S N v Hnd).
    split; [lia|]. destruct (select_spec S N (rank S N v) Hnd Hr ltac:(lia)) as [Hin E].
    now apply (rank_inj S N).
Qed.

(* ---------- writing a number in binary ---------- *)
Lemma b2z_testbit x n : 0 <= n -> b2z (Z.testbit x n) = (x / 2 ^ n) mod 2.
Proof. intros Hn. rewrite <- Z.testbit_spec' by assumption. now destruct (Z.testbit x n). Qed.

Lemma bits_value_testbit a x : forall q base,
  (forall p, 1 <= p <= Z.of_nat q -> a (base + p) = Z.testbit x (Z.of_nat q - p)) ->
  bits_value a q base = x mod 2 ^ Z.of_nat q.
Proof.
  induction q as [|q IH]; intros base H; cbn [bits_value].
  - cbn. now rewrite Z.mod_1_r.
  - rewrite (IH (base + 1)).
    2:{ intros p Hp. replace (base + 1 + p) with (base + (p + 1)) by lia. rewrite H by lia. f_equal. lia. }
    rewrite (H 1) by lia. replace (Z.of_nat (S q) - 1) with (Z.of_nat q) by lia.
    rewrite b2z_testbit by lia. rewrite pow2_succ. pose proof (pow2_pos q).
    rewrite (Z.mul_comm 2), Z.rem_mul_r by lia. lia.
Qed.

Lemma bm_value_enc b phi i : 0 <= b -> 1 <= i -> 0 <= phi i - 1 < 2 ^ b -> bm_value (enc_bits b phi) b i = phi i - 1.
Proof.
  intros Hb Hi Hr. unfold bm_value. rewrite (bits_value_testbit _ (phi i - 1)).
  - rewrite Z2Nat.id by lia. apply Z.mod_small. lia.
  - intros p Hp. rewrite Z2Nat.id in * by lia. unfold enc_bits.
    assert (E : ((i - 1) * b + p - 1) / b = i - 1) by (symmetry; apply Z.div_unique with (r := p - 1); lia).
    rewrite E. f_equal; [f_equal; f_equal; lia|lia].
Qed.

Lemma enc_rel_mvar off m R i j : 1 <= j <= m -> enc_rel off m R (mvar off m i j) = R i j.
Proof.
  intros Hj. unfold enc_rel.
  assert (E : mvar off m i j - off - 1 = (i - 1) * m + (j - 1)) by (unfold mvar; lia). rewrite E.
  assert (Ed : ((i - 1) * m + (j - 1)) / m = i - 1) by (symmetry; apply Z.div_unique with (r := j - 1); lia).
  assert (Em : ((i - 1) * m + (j - 1)) mod m = j - 1) by (symmetry; apply Z.mod_unique with (q := i - 1); lia).
  rewrite Ed, Em. f_equal; lia.
Qed.

Lemma dec_map_some a off m i : (exists j, 1 <= j <= m /\ rel_of a off m i j = true) ->
  1 <= dec_map a off m i <= m /\ rel_of a off m i (dec_map a off m i) = true.
Proof.
  intros [j0 [Hj0 T0]]. unfold dec_map.
  destruct (find (fun j => a (mvar off m i j)) (rng m)) as [j1|] eqn:E.
  - apply find_some in E as [Hj1 T1]. apply In_rng in Hj1. now split.
  - exfalso. pose proof (find_none _ _ E j0 (proj2 (In_rng j0 m) Hj0)) as Hn. cbn beta in Hn.
    unfold rel_of in T0. congruence.
Qed.

(* ---------- models <-> witnesses, generically ---------- *)
(* whenever the satisfying assignments are exactly the graphs of the functions with property P (and P only
   looks at the values on 1..k), decoding and encoding are mutually inverse bijections *)
Lemma char_bijection (holds : (Z -> bool) -> Prop) (off k N : Z) (P : (Z -> Z) -> Prop) :
  0 <= off -> 0 <= k ->
  (forall phi psi, (forall i, 1 <= i <= k -> phi i = psi i) -> P phi -> P psi) ->
  (forall phi, P phi -> forall i, 1 <= i <= k -> 1 <= phi i <= N) ->
  (forall a, holds a <-> exists phi, graph_of (rel_of a off N) phi k N /\ P phi) ->
  (forall a, holds a -> P (dec_map a off N)) /\
  (forall phi, P phi -> holds (enc_map off N phi)) /\
  (forall phi, P phi -> forall i, 1 <= i <= k -> dec_map (enc_map off N phi) off N i = phi i) /\
  (forall a, holds a -> forall v, off < v <= off + k * N -> enc_map off N (dec_map a off N) v = a v).
Proof.
  intros Hoff Hk Pext Prange Hchar.
  assert (Hdec : forall a, holds a -> graph_of (rel_of a off N) (dec_map a off N) k N /\ P (dec_map a off N)).
  { intros a H. apply Hchar in H as [phi [G HP]].
    assert (G' : graph_of (rel_of a off N) (dec_map a off N) k N).
    { apply dec_map_graph; [eapply graph_of_total|eapply graph_of_functional]; eauto. }
    split; [exact G'|]. apply (Pext phi); [|exact HP]. intros i Hi. apply (graph_of_unique _ _ _ _ _ G G' i Hi). }
  assert (Henc : forall phi, P phi -> holds (enc_map off N phi)).
  { intros phi HP. apply Hchar. exists phi. split; [|exact HP]. apply enc_map_graph; [assumption|now apply Prange]. }
  split; [|split; [|split]].
  - intros a H. now apply Hdec.
  - exact Henc.
  - intros phi HP i Hi. destruct (Hdec _ (Henc phi HP)) as [G _].
    assert (G' : graph_of (rel_of (enc_map off N phi) off N) phi k N) by (apply enc_map_graph; [assumption|now apply Prange]).
    apply (graph_of_unique _ _ _ _ _ G G' i Hi).
  - intros a H v Hv. destruct (Hdec a H) as [G HP].
    apply (graph_of_same_vars _ _ off k N (dec_map a off N)); try assumption.
    apply enc_map_graph; [assumption|now apply Prange].
Qed.
