(* Prop_C19_alias.v — property C19, the aliasing / purity half, over ALL histories.
   Statements only; proofs in AliasFacts.v.  Model: Heap.v (heap of Python list objects), Alias.v
   (formula objects holding locations; one operation = micro-operations computed from the state).

   lv : liveness   as_found = the code as it is (iteration and slices hand out the stored lists,
                              add_constraint keeps a pair given as a list by reference)
                   repaired = fixes/C19-A1.diff + fixes/C19-A3.diff
   al_run lv h     the state after history h (any list of operations of the alphabet `aop`)
   aval s g        what an observer sees of formula object g: kind, number of variables, clause list, header
   op_tame lv op   the operation does not go through a place where variant lv hands out / keeps a reference
                   (for `repaired`: every operation) *)
From Coq Require Import ZArith List Bool String.
From Cnfgen Require Import Sem Linear Header Heap Alias AliasFacts.
Import ListNotations.

(* 1. SEPARATION BETWEEN OBJECTS, every history, both variants: no list belongs to two formula objects (nor twice
      to one), no two objects have the same header dict.  In particular the result of a transformation shares
      nothing with its input. *)
Theorem objects_never_share : forall lv h,
  let s := al_run lv h in
  (forall g1 g2 o1 o2 l, g1 <> g2 -> nth_error (s_objs s) g1 = Some o1 -> nth_error (s_objs s) g2 = Some o2 ->
                         In l (oclauses o1) -> ~ In l (oclauses o2)) /\
  (forall g o, nth_error (s_objs s) g = Some o -> NoDup (oclauses o)) /\
  (forall g1 g2 o1 o2, g1 <> g2 -> nth_error (s_objs s) g1 = Some o1 -> nth_error (s_objs s) g2 = Some o2 ->
                       ohdr o1 <> ohdr o2).
Proof. exact run_objects_separate. Qed.
Print Assumptions objects_never_share.

(* 2. SEPARATION FROM THE CLIENT: nothing reachable from a formula object (its clause lists, and the lists they
      refer to as pairs) is held by the client. *)
Theorem client_separated : forall lv h,
  forallb (op_tame lv) h = true ->
  let s := al_run lv h in
  forall g o l, nth_error (s_objs s) g = Some o -> In l (s_held s) -> ~ In l (obj_reach (s_heap s) o).
Proof. exact run_client_separated. Qed.
Print Assumptions client_separated.

Theorem client_separated_repaired : forall h,
  let s := al_run repaired h in
  forall g o l, nth_error (s_objs s) g = Some o -> In l (s_held s) -> ~ In l (obj_reach (s_heap s) o).
Proof. exact run_client_separated_repaired. Qed.
Print Assumptions client_separated_repaired.

(* the code as found: after `list(F)` the client holds the stored clause list *)
Theorem client_separated_as_found_refuted :
  exists h g o l, nth_error (s_objs (al_run as_found h)) g = Some o /\ In l (s_held (al_run as_found h)) /\
                  In l (obj_reach (s_heap (al_run as_found h)) o).
Proof. exact as_found_client_holds_internal_list. Qed.
Print Assumptions client_separated_as_found_refuted.

(* 3. FRAME, every history, both variants: an operation changes only the formula object it acts on — the one a
      builder or header edit names; for a client mutation, the objects from which the edited list is reachable. *)
Theorem operation_changes_only_its_object : forall lv h op g,
  let s := al_run lv h in
  g < List.length (s_objs s) -> touches s op g = false -> aval (al_step lv s op) g = aval s g.
Proof. exact run_frame. Qed.
Print Assumptions operation_changes_only_its_object.

(* 4. CLIENT MUTATIONS ARE INVISIBLE: whatever list the client edits (one it passed in, one it got back), and
      however, no formula changes. *)
Theorem client_mutation_invisible : forall lv h hnd m g,
  forallb (op_tame lv) h = true ->
  aval (al_step lv (al_run lv h) (OMut hnd m)) g = aval (al_run lv h) g.
Proof. exact run_mutation_invisible. Qed.
Print Assumptions client_mutation_invisible.

Theorem client_mutation_invisible_repaired : forall h hnd m g,
  aval (al_step repaired (al_run repaired h) (OMut hnd m)) g = aval (al_run repaired h) g.
Proof. exact run_mutation_invisible_repaired. Qed.
Print Assumptions client_mutation_invisible_repaired.

(* the code as found: F = CNF(); F.add_clause([1,2]); c = list(F)[0]; c.append(7)  changes F *)
Theorem client_mutation_invisible_as_found_refuted :
  exists h hnd m g, aval (al_step as_found (al_run as_found h) (OMut hnd m)) g <> aval (al_run as_found h) g.
Proof. exact as_found_iteration_mutation_visible. Qed.
Print Assumptions client_mutation_invisible_as_found_refuted.

(* the same through a slice F[0:1] *)
Theorem returned_slice_live_as_found_refuted :
  exists h hnd m g, aval (al_step as_found (al_run as_found h) (OMut hnd m)) g <> aval (al_run as_found h) g.
Proof. exact as_found_slice_mutation_visible. Qed.
Print Assumptions returned_slice_live_as_found_refuted.

(* p = [1,2]; A.add_constraint([p,'>=',1]); B.add_constraint([p,'>=',1]); p[1] = 99  changes A and B *)
Theorem argument_pair_shared_as_found_refuted :
  exists h hnd m, aval (al_step as_found (al_run as_found h) (OMut hnd m)) 0 <> aval (al_run as_found h) 0 /\
                  aval (al_step as_found (al_run as_found h) (OMut hnd m)) 1 <> aval (al_run as_found h) 1.
Proof. exact as_found_pair_shared. Qed.
Print Assumptions argument_pair_shared_as_found_refuted.

(* a consequence: the variable count no longer bounds the literals (a later transformation then fails) *)
Theorem number_of_variables_stale_as_found_refuted :
  exists h hnd m, match aval (al_step as_found (al_run as_found h) (OMut hnd m)) 0 with
                  | Some (_, nv, [VLits c], _) => (nv <? max_var_clause c)%Z = true
                  | _ => False
                  end.
Proof. exact as_found_number_of_variables_stale. Qed.
Print Assumptions number_of_variables_stale_as_found_refuted.

(* 5. TRANSFORMATIONS ARE PURE, every history, both variants: every existing object — the input included — has
      the same variable count, clauses and header after the call; a call that returns makes exactly one new object
      and hands no list to the client. *)
Theorem transformation_pure : forall lv h t f g,
  let s := al_run lv h in
  g < List.length (s_objs s) -> aval (al_step lv s (OTransform t f)) g = aval s g.
Proof. exact run_transformation_pure. Qed.
Print Assumptions transformation_pure.

Theorem transformation_returns_new_object : forall lv s t f s',
  al_exec lv s (OTransform t f) = (s', AOk) ->
  List.length (s_objs s') = S (List.length (s_objs s)) /\ s_held s' = s_held s.
Proof. exact transform_new_object. Qed.
Print Assumptions transformation_returns_new_object.

(* ... and LATER operations on the result never change the input, and vice versa: along any continuation h2 in which
   no operation acts on g (builders / header edits name another object; client mutations edit lists not reachable
   from g — by theorem 4 that is every client mutation, for tame histories), g is as it was. *)
Theorem later_operations_on_other_objects_invisible : forall lv h h2 g,
  let s := al_run lv h in
  g < List.length (s_objs s) -> untouched lv s h2 g = true ->
  aval (al_run lv (h ++ h2)) g = aval s g.
Proof. exact run_suffix_frame. Qed.
Print Assumptions later_operations_on_other_objects_invisible.

(* 6. ARGUMENTS UNCHANGED, every state, both variants: an operation that is not a client mutation — every builder,
      with or without check, returning or RAISING, every accessor, every transformation — only allocates: the heap
      afterwards is the old heap followed by new lists.  (The sign flips of the '!=' branch happen in a fresh list.) *)
Theorem only_client_mutations_write_lists : forall lv s op,
  is_mut op = false -> exists extra, s_heap (al_step lv s op) = s_heap s ++ extra.
Proof. exact step_heap_prefix. Qed.
Print Assumptions only_client_mutations_write_lists.

Theorem arguments_unchanged : forall lv h op hnd l,
  let s := al_run lv h in
  is_mut op = false -> handle_loc s hnd = Some l ->
  handle_loc (al_step lv s op) hnd = Some l /\ cell_val (s_heap (al_step lv s op)) l = cell_val (s_heap s) l.
Proof. exact run_arguments_unchanged. Qed.
Print Assumptions arguments_unchanged.

Theorem only_header_edits_write_headers : forall lv s op,
  is_hdr_edit op = false -> exists extra, s_hdrs (al_step lv s op) = s_hdrs s ++ extra.
Proof. exact step_hdrs_prefix. Qed.
Print Assumptions only_header_edits_write_headers.

(* 7. ERROR PATHS.  A call that raises leaves the whole state as it was ... *)
Theorem raising_call_changes_nothing : forall lv s op s',
  single_call op = true -> al_exec lv s op = (s', AErr) -> s' = s.
Proof. exact error_atomic. Qed.
Print Assumptions raising_call_changes_nothing.

(* ... except add_clauses_from / add_constraints_from: when the clause at position n is rejected, the formula is left
   exactly as after a successful add_clauses_from of the n clauses before it (arguments untouched by theorem 6). *)
Theorem add_clauses_from_error_keeps_prefix : forall lv s f hs check s',
  al_exec lv s (OAddClausesFrom f hs check) = (s', AErr) ->
  exists n, n < List.length hs /\ al_exec lv s (OAddClausesFrom f (firstn n hs) check) = (s', AOk).
Proof. exact clauses_from_error. Qed.
Print Assumptions add_clauses_from_error_keeps_prefix.

Theorem add_constraints_from_error_keeps_prefix : forall lv s f hs check s',
  al_exec lv s (OAddConstraintsFrom f hs check) = (s', AErr) ->
  exists n, n < List.length hs /\ al_exec lv s (OAddConstraintsFrom f (firstn n hs) check) = (s', AOk).
Proof. exact constraints_from_error. Qed.
Print Assumptions add_constraints_from_error_keeps_prefix.

(* ---- the hypotheses are satisfiable, on histories that contain client mutations ---- *)
(* repaired variant: builders (one raising), '!=', F[i], iteration, four client mutations, FlipPolarity, a header edit
   on the result, a constraint with a list-pair, a mutation of that pair *)
Example client_mutation_invisible_nonvacuous :
  let s := al_run repaired ex_history in
  aval s 0 = Some (KCnf, 3%Z, [VLits [1; -2; 3]%Z; VLits [-1; 2; 3]%Z; VLits [1; -2; 3]%Z; VLits [1; 2; -3]%Z], ex_hdr) /\
  client_view s = [VLits [1; 2; 3; 0]%Z; VLits []; VLits [5; -2; 3]%Z; VLits [-1; 2; 3]%Z; VLits [1; -2; 3]%Z;
                   VLits [1; 2; -3]%Z; VLits [2; -3]%Z; VPb [[1; 1]; [2; -3]]%Z PGe 1%Z] /\
  aval s 2 = Some (KOpb, 3%Z, [VPb [[1; 1]; [2; 3]]%Z PGe 1%Z], []) /\
  map snd (al_trace repaired al_init ex_history) =
    [AOk; AOk; AOk; AOk; AOk; AOk; AErr; AOk; AOk; AOk; AOk; AOk; AOk; AOk; AOk; AOk; AOk; AOk; AOk].
Proof. vm_compute. repeat split; reflexivity. Qed.

(* the code as found, a history that does not iterate, slice or pass list-pairs *)
Example client_separated_nonvacuous :
  forallb (op_tame as_found) ex_tame_history = true /\
  List.length (filter is_mut ex_tame_history) = 6 /\
  map snd (al_trace as_found al_init ex_tame_history) =
    [AOk; AOk; AOk; AOk; AOk; AOk; AErr; AOk; AOk; AOk; AOk; AOk; AOk; AOk; AOk; AOk; AOk; AOk] /\
  aval (al_run as_found ex_tame_history) 2 = Some (KOpb, 3%Z, [VPb [[1; -1]; [2; 3]]%Z PGe 1%Z], []).
Proof. vm_compute. repeat split; reflexivity. Qed.

(* a continuation that works on the result of a transformation only *)
Example later_operations_nonvacuous :
  let h := [ONewFormula KCnf ex_hdr; ONewList [1; -2]%Z; OAddClause 0 0 true; OTransform (TXor 2) 0] in
  let h2 := [OAddClause 1 0 true; OHdrSet 1 (KO "description") "other"%string; OMut 0 MClear; OAddParity 1 0 1%Z true] in
  untouched as_found (al_run as_found h) h2 0 = true /\ untouched as_found (al_run as_found h) h2 1 = false /\
  aval (al_run as_found (h ++ h2)) 0 = aval (al_run as_found h) 0 /\
  aval (al_run as_found (h ++ h2)) 1 <> aval (al_run as_found h) 1.
Proof. vm_compute. repeat split; try reflexivity. intro H. discriminate H. Qed.

(* the statements are not true by construction of the state type *)
Example sharing_is_expressible_nonvacuous :
  ~ wf shared_state /\
  aval (ustep shared_state (UMut 0 (MAppend 3%Z))) 0 <> aval shared_state 0 /\
  aval (ustep shared_state (UMut 0 (MAppend 3%Z))) 1 <> aval shared_state 1.
Proof. exact sharing_is_expressible. Qed.
