(* PipelineTex.v -- the whole-program models of `cnfgen` and `pbgen` (Pipeline.v, PipelinePb.v, PipelineHeader.v)
   extended to three areas they placed outside:  the LaTeX document (-of latex / --output-format latex / -l / --latex),
   the variable names (--varnames), and the comment header of the sub-commands with a graph argument.
   Definitions only.

   Models (the tree in /repo as it is now)
     cnfgen/clitools/cnfgen.py, pbgen.py   the main parser: the mutually exclusive group {--output-format/-of, --latex/-l}
                                           (the last format given wins; the two spellings together are an error),
                                           --varnames (store_true), the group {--verbose/-v, --quiet/-q};
                                           build_latex_cmdline_description: no helper has a `docstring` attribute and the
                                           list of input files is always empty, so the extra text is "\n";
                                           to_file(output, fileformat, export_header=verbose, export_varnames, extra_text)
     cnfgen/utils/latexoutput.py           to_latex_document -> Latex.print_latex_document (title = header['description'],
                                           names = all_variable_labels(default_label_format='x_{}'))
     cnfgen/utils/parsedimacs.py, opb.py   export_varnames=True -> Dimacs.print_dimacs / OpbText.print_opb with
                                           Some (all_variable_labels())           (default label format 'x{}')
     cnfgen/families/*.py, clihelpers/simple_helpers.py
                                           the variable groups each family creates, in creation order, with their
                                           label formats: [plt_groups], as a history of Vars.v (new_mapping -> UMap,
                                           new_block -> GBlock, new_combinations / new_permutations -> GWords,
                                           new_binary_mapping -> BinMap, new_graph_edges -> GraphEdges,
                                           new_bipartite_edges / new_sparse_mapping -> BipEdges); the names are
                                           Vars.all_variable_labels (the enumeration as it is now in /repo: fixD3 = true)
                                           of that history followed by update_variable_number(numvar)
     cnfgen/transformations/substitutions.py
                                           the labels of the new formula: none keeps them, flip has no group (default
                                           names), ite: '{{' + escape_curly(name) + '}}^{i}' / ^{t} / ^{e} as the NAME of a
                                           single variable (never passed to str.format: the doubled braces stay),
                                           xor or eq neq maj one atleast atmost exact anybut: new_block(k,
                                           label='{{'+escape_curly(name)+'}}^{}') per old name = {name}^1 .. {name}^k,
                                           lift: X_{name}^i (k of them) then Y_{name}^i per old name.
                                           A transformation reads the old names with the default format 'x{}' whatever the
                                           output format is: [plt_tstep] carries both lists.
     cnfgen/graphs.py, clitools/graph_build.py
                                           G.name of the deterministic constructions of PipelineGraph.v: [plt_call_name];
                                           the description of the sub-commands with a graph argument: [plt_gdesc]

   The model CHECKS what it needs of the names before it writes them ([plt_names_checked]): as many names as the formula
   has variables, no white space inside a name, no name beginning with \overline{ (the hypotheses of the decoding
   theorems of Latex.v).  When the check fails the result is POutside -- the model claims nothing; the correspondence
   stream reports every argv of its grammar on which that happens.

   Token grammar: the one of Pipeline.v, where the options in front of the formula name may now also be the exact
   tokens  --varnames  -l  --latex  and  -of / --output-format followed by latex.
   Identifiers are prefixed plt_. *)
From Coq Require Import ZArith List Bool Ascii String.
From Cnfgen Require Import Sem Comb Linear IR Text Dimacs OpbText Latex Cli GraphSpec GraphIO Subst FamTab Vars Header
     PipelineGraph Pipeline PipelineHeader PipelinePb.
Import ListNotations.
Open Scope Z_scope.

(* ------------------------------------------------------------------ *)
(* names of the variables of a generated formula                       *)
(* ------------------------------------------------------------------ *)
Definition plt_new (s : shape) (fmt : list string) : op := OpNewGroup (mkgroup s fmt).
(* 'p_{{{},{}}}' and 'p_{{{}}}' *)
Definition plt_f2 (p : string) : list string := [String.append p "_{"; ","; "}"]%string.
Definition plt_f1 (p : string) : list string := [String.append p "_{"; "}"]%string.

(* rows of the complete bipartite graph (n left vertices, m right ones) *)
Definition plt_complete_adj (n m : Z) : list (list Z) := map (fun _ => upto m) (upto n).

(* the groups of variables a sub-command creates, in creation order *)
Definition plt_groups (c : pl_fcmd) : list op :=
  match c with
  | FcPhp m n _ _ => [plt_new (UMap m n) (plt_f2 "p")]
  | FcBphp m n => if (m =? 0) || (n =? 0) then [] else [plt_new (BinMap m n) ["v("; ","; ")"]%string]
  | FcRphp p r h =>
    [plt_new (UMap p r) (plt_f2 "p"); plt_new (UMap r h) (plt_f2 "q")] ++
    (if 0 <? r then [plt_new (GBlock [r]) (plt_f1 "r")] else [])
  | FcCount M p => [plt_new (GWords WComb M p) (plt_f1 "p")]
  | FcCliqueCol n k c =>
    [plt_new (GWords WComb n 2) (plt_f1 "e"); plt_new (UMap k n) (plt_f2 "q"); plt_new (UMap n c) (plt_f2 "r")]
  | FcOp n _ smart _ _ => [plt_new (GWords (if smart then WComb else WPerm) n 2) (plt_f1 "x")]
  | FcRam _ _ N => [plt_new (GWords WComb N 2) (plt_f1 "e")]
  | FcVdw N ks =>
    match ks with
    | [_; _] => [plt_new (GBlock [N]) (plt_f1 "x")]
    | _ => [plt_new (GBlock [N; len ks]) (plt_f2 "x")]
    end
  | FcPtn N => [plt_new (GBlock [N]) ["v("; ")"]%string]
  | FcCpls a b c =>
    plt_new (GBlock [a; b; c]) ["G_"; "("; ","; ")"]%string ::
    map (fun i => plt_new (BinMap b b) [String.append "(f_{" (String.append (plh_z i) "}("); "))_{"; "}"]%string) (upto a) ++
    [plt_new (BinMap b c) ["(u("; "))_{"; "}"]%string]
  | FcAnd p n | FcOr p n => [plt_new (GBlock [p]) ["x_"; ""]%string; plt_new (GBlock [n]) ["y_"; ""]%string]
  | FcTrue | FcFalse => []
  | FcKcolor k n _ => [plt_new (UMap n k) ["x_{"; ""; "}"]%string]
  | FcEc n E => [plt_new (GraphEdges (plg_nbrs n E)) ["e("; ","; ")"]%string]
  | FcTiling n _ => [plt_new (GBlock [n]) (plt_f1 "x")]
  | FcMatching n E => [plt_new (GraphEdges (plg_nbrs n E)) (plt_f2 "e")]
  | FcKclique k _ n _ => [plt_new (UMap k n) (plt_f2 "s")]
  | FcKcliquebin k n _ => [plt_new (BinMap k n) (plt_f2 "y")]
  | FcDomset d _ n _ => [plt_new (GBlock [n]) (plt_f1 "x"); plt_new (UMap n d) ["f("; ")="; ""]%string]
  | FcTseitin _ n E => [plt_new (GraphEdges (plg_nbrs n E)) (plt_f2 "E")]
  | FcGphp adj R _ _ => [plt_new (BipEdges adj R) (plt_f2 "p")]
  | FcSubsetcard adj R _ => [plt_new (BipEdges adj R) (plt_f2 "x")]
  | FcGop nb _ smart _ _ => [plt_new (GWords (if smart then WComb else WPerm) (len nb) 2) (plt_f1 "x")]
  | FcPeb D => [plt_new (GBlock [len D]) ["x("; ")"]%string]
  | FcStone s D => [plt_new (GBlock [s]) (plt_f1 "R"); plt_new (BipEdges (plt_complete_adj (len D) s) s) (plt_f2 "P")]
  end.

Definition plt_x : list string := ["x"; ""]%string.       (* 'x{}'  : all_variable_labels() *)
Definition plt_x_ : list string := ["x_"; ""]%string.     (* 'x_{}' : the LaTeX writer *)

(* F.all_variable_labels(default_label_format) of the formula build_formula returns; n = its number of variables *)
Definition plt_base_labels (dflt : list string) (c : pl_fcmd) (n : Z) : list string :=
  all_variable_labels true dflt (vm_run repaired vm_init (plt_groups c ++ [OpRaiseNumvar n])).

(* text.replace('{','{{').replace('}','}}') *)
Fixpoint plt_escape_curly (s : string) : string :=
  match s with
  | EmptyString => EmptyString
  | String c r =>
    if Ascii.eqb c "{"%char then String c (String c (plt_escape_curly r))
    else if Ascii.eqb c "}"%char then String c (String c (plt_escape_curly r))
    else String c (plt_escape_curly r)
  end.

(* new_block(k, label = pre + '{{' + escape_curly(name) + '}}^{}'): str.format undoes the escaping *)
Definition plt_block (pre : string) (k : Z) (name : string) : list string :=
  map (fun i => String.append pre (String.append "{" (String.append name (String.append "}^" (plh_z i))))) (upto k).
(* new_variable('{{' + escape_curly(name) + '}}^{i}'): the name of a single variable is used as it is *)
Definition plt_ite_name (mark : string) (name : string) : string :=
  String.append "{{" (String.append (plt_escape_curly name) (String.append "}}^{" (String.append mark "}"))).

(* the names of the new formula from the names of the old one (read with the default format 'x{}') *)
Definition plt_tlabels (t : pl_tcmd) (old : list string) : list string :=
  match t with
  | TcNone | TcFlip => old                                 (* not used: see plt_tstep *)
  | TcIte => map (plt_ite_name "i") old ++ map (plt_ite_name "t") old ++ map (plt_ite_name "e") old
  | TcXor k | TcOr k | TcEq k | TcNeq k | TcMaj k | TcOne k => flat_map (plt_block "" k) old
  | TcLin _ N _ => flat_map (plt_block "" N) old
  | TcLift k => flat_map (fun nm => plt_block "X_" k nm ++ plt_block "Y_" k nm) old
  end.

(* (names with the format 'x{}', names with the format of the writer) *)
Definition plt_tstep (dflt : list string) (ab : list string * list string) (t : pl_tcmd) : list string * list string :=
  match t with
  | TcNone => ab
  | TcFlip => let n := len (fst ab) in (map (default_label plt_x) (upto n), map (default_label dflt) (upto n))
  | _ => let r := plt_tlabels t (fst ab) in (r, r)
  end.

(* n0 = number of variables of the formula the sub-command builds *)
Definition plt_labels (dflt : list string) (c : pl_fcmd) (n0 : Z) (ts : list pl_tcmd) : list string :=
  snd (fold_left (plt_tstep dflt) ts (plt_base_labels plt_x c n0, plt_base_labels dflt c n0)).

(* what the model requires of the names before it writes them *)
Definition plt_names_checked (n : Z) (names : list text) : bool :=
  (len names =? n) && latex_names_ok names && latex_names_decodable names.

(* ------------------------------------------------------------------ *)
(* the name of the graph a graph argument builds                        *)
(* ------------------------------------------------------------------ *)
Local Open Scope string_scope.
(* str(list of int) *)
Definition plt_pylist (l : list Z) : string := "[" ++ plh_join ", " (map plh_z l) ++ "]".

Definition plt_call_name (c : gs_call) : option string :=
  match c with
  | GCCompleteS n None => Some ("the complete graph of order " ++ plh_z n)
  | GCEmptyS n => Some ("the empty graph of order " ++ plh_z n)
  | GCCompleteB l r => Some ("Complete bipartite graph with (" ++ plh_z l ++ "," ++ plh_z r ++ ") vertices")
  | GCEmptyB l r => Some ("Empty bipartite graph with (" ++ plh_z l ++ "," ++ plh_z r ++ ") vertices")
  | GCShift l r pat => Some ("Bipartite with " ++ plh_z l ++ "," ++ plh_z r ++ " vertices and shifting edge pattern " ++ plt_pylist pat)
  | GCTree h => Some ("Complete binary tree of height " ++ plh_z h)
  | GCPyramid h => Some ("Pyramid of height " ++ plh_z h)
  | GCPath n => Some ("Directed path of length " ++ plh_z n)
  | _ => None
  end.

(* G.name of the graph object ObtainXGraph.__call__(values) returns (same case analysis as PipelineGraph.plg_graph_arg) *)
Definition plt_graph_name (g : gs_gtype) (values : list text) : option string :=
  match gs_make (0, 0) g values with
  | inl (GSVOk [SGen c]) => plt_call_name c
  | _ => None
  end.

(* the tokens of the graph argument of a sub-command (the positional G of its parser), found as its parser finds them *)
Definition plt_graph_tokens (name : text) (toks : list text) : option (gs_gtype * list text) :=
  let one_plus flags longs g :=
    match pl_one_plus (map (pl_classify_gen flags longs) toks) with Some (_, vs) => Some (g, vs) | None => None end in
  let plus g := match pl_plus (map (pl_classify []) toks) with Some vs => Some (g, vs) | None => None end in
  let star flags g := match pl_star (map (pl_classify flags) toks) with Some (v0 :: vs) => Some (g, v0 :: vs) | _ => None end in
  if pl_is name "kcolor" then one_plus [] [] GSSimple
  else if pl_is name "kcliquebin" then one_plus [] [] GSSimple
  else if pl_is name "kclique" then one_plus [lit "--no-symmetry-breaking"] [] GSSimple
  else if pl_is name "domset" then one_plus [lit "--alternative"; lit "-a"] [] GSSimple
  else if pl_is name "stone" then one_plus [] [lit "--sparse"] GSDag
  else if pl_is name "ec" then plus GSSimple
  else if pl_is name "tiling" then plus GSSimple
  else if pl_is name "matching" then plus GSSimple
  else if pl_is name "peb" then plus GSDag
  else if pl_is name "tseitin" then
    match pl_star (map (pl_classify []) toks) with Some (_ :: vs) => Some (GSSimple, vs) | _ => None end
  else if pl_is name "subsetcard" then star pl_sc_flags GSBipartite
  else if pl_is name "php" then star pl_php_flags GSBipartite
  else if pl_is name "op" then star pl_op_flags GSSimple
  else None.

Definition plt_gname (name : text) (toks : list text) : option string :=
  match plt_graph_tokens name toks with
  | Some (g, vs) => plt_graph_name g vs
  | None => None
  end.

Definition plt_count_true (l : list bool) : Z := len (filter (fun b => b) l).

(* header['description'] of a formula built on the graph named G *)
Definition plt_gdesc (c : pl_fcmd) (G : string) : option string :=
  match c with
  | FcKcolor k _ _ => Some ("Graph " ++ plh_z k ++ "-Colorability of " ++ G)
  | FcEc _ _ => Some ("Even coloring formula on " ++ G)
  | FcTiling _ _ => Some ("tiling of " ++ G)
  | FcMatching _ _ => Some ("Perfect Matching Principle on " ++ G)
  | FcKclique k _ _ _ => Some (G ++ " does not contain any " ++ plh_z k ++ "-clique.")
  | FcKcliquebin k _ _ => Some (G ++ " does not contain any " ++ plh_z k ++ "-clique (Binary encoding).")
  | FcDomset d _ _ _ => Some (plh_z d ++ "-dominating set on " ++ G)
  | FcTseitin ch _ _ =>
    Some ("Tseitin formula on " ++ G ++ ", with " ++
          (match ch with
           | None => "odd"
           | Some l => if Z.eqb (plt_count_true l mod 2) 0 then "even" else "odd"
           end) ++ " charge")
  | FcGphp _ _ f o =>
    Some ((if f then (if o then "Graph matching" else "Graph functional pigeonhole principle")
           else (if o then "Graph onto pigeonhole principle" else "Graph pigeonhole principle"))
          ++ " formula on " ++ G)
  | FcSubsetcard _ _ _ => Some ("Subset cardinality formula for " ++ G)
  | FcGop _ total smart _ knuth =>
    Some ((if total || smart then "Total graph ordering principle" else "Graph ordering principle")
          ++ (if smart then " (compact representation)" else "")
          ++ (if Z.eqb knuth 2 || Z.eqb knuth 3 then " (Knuth variant " ++ plh_z knuth ++ ")" else "")
          ++ " on " ++ G)
  | FcPeb _ => Some ("Pebbling formula for " ++ G)
  | FcStone s _ => Some ("Stone formula of " ++ G ++ " with " ++ plh_z s ++ " stones")
  | _ => None
  end.

(* header['description']: PipelineHeader.pl_fdesc where it is defined, else through the name of the graph;
   [name] and [toks] are the formula name and the tokens after it (up to the first -T) *)
Definition plt_fdesc (name : text) (toks : list text) (c : pl_fcmd) : option string :=
  match pl_fdesc c with
  | Some d => Some d
  | None => match plt_gname name toks with
            | Some G => plt_gdesc c G
            | None => None
            end
  end.
Local Close Scope string_scope.

(* ------------------------------------------------------------------ *)
(* the main parser with the output options                             *)
(* ------------------------------------------------------------------ *)
Inductive plt_fmt := FmtDimacs | FmtOpb | FmtLatex.
Record plt_opts := mk_plt_opts { plt_quiet : bool; plt_format : plt_fmt; plt_varnames : bool }.

Record plt_head := mk_plt_head {
  plt_ho : plt_opts;
  plt_hname : text;                  (* the formula name ([] when there is none) *)
  plt_htoks : list text;             (* the tokens after it *)
  plt_hgen : option pl_fcmd
}.

(* options of the main parser in front of the formula name.  pb = true: the parser of pbgen (-of dimacs is an invalid
   choice).  q v: a member of the group {--quiet, --verbose} was seen; sof sl: a member of the group
   {--output-format, --latex} was seen *)
Fixpoint plt_scan (pb q v sof sl vn : bool) (fmt : plt_fmt) (toks : list text) : pl_parsed plt_head :=
  match toks with
  | [] => PlOk (mk_plt_head (mk_plt_opts q fmt vn) [] [] None)
  | t :: r =>
    if gs_teqb t (lit "-q") || gs_teqb t (lit "--quiet") then
      if v then PlErr else plt_scan pb true v sof sl vn fmt r
    else if gs_teqb t (lit "-v") || gs_teqb t (lit "--verbose") then
      if q then PlErr else plt_scan pb q true sof sl vn fmt r
    else if gs_teqb t (lit "-of") || gs_teqb t (lit "--output-format") then
      match r with
      | [] => PlErr                                        (* expected one argument *)
      | f :: r' =>
        if pl_starts_dash f then PlOutside
        else if gs_teqb f (lit "dimacs") then
          if pb || sl then PlErr else plt_scan pb q v true sl vn FmtDimacs r'
        else if gs_teqb f (lit "opb") then
          if sl then PlErr else plt_scan pb q v true sl vn FmtOpb r'
        else if gs_teqb f (lit "latex") then
          if sl then PlErr else plt_scan pb q v true sl vn FmtLatex r'
        else PlErr                                         (* invalid choice *)
      end
    else if gs_teqb t (lit "-l") || gs_teqb t (lit "--latex") then
      if sof then PlErr                                    (* not allowed with argument --output-format/-of *)
      else plt_scan pb q v sof true vn FmtLatex r
    else if gs_teqb t (lit "--varnames") then plt_scan pb q v sof sl true fmt r
    else if pl_starts_dash t then PlOutside
    else match pl_parse_formula t r with
         | PlOk c => PlOk (mk_plt_head (mk_plt_opts q fmt vn) t r (Some c))
         | PlErr => PlErr
         | PlOutside => PlOutside
         end
  end.

Definition plt_parse_chunk0 (pb : bool) (toks : list text) : pl_parsed plt_head :=
  if negb (forallb pl_is_ascii toks) then PlOutside
  else plt_scan pb false false false false false (if pb then FmtOpb else FmtDimacs) toks.

(* cnfgen: the first chunk, then the -T chunks (Pipeline.pl_parse_tchunks) *)
Definition plt_parse_chunks (chunks : list (list text)) : pl_parsed (plt_head * list (option pl_tcmd)) :=
  match chunks with
  | [] => PlOutside
  | c0 :: rest =>
    match plt_parse_chunk0 false c0 with
    | PlOk h =>
      match pl_parse_tchunks rest with
      | PlOk ts => PlOk (h, ts)
      | PlErr => PlErr
      | PlOutside => PlOutside
      end
    | PlErr => PlErr
    | PlOutside => PlOutside
    end
  end.

Definition plt_is_opb (f : plt_fmt) : bool := match f with FmtOpb => true | _ => false end.
(* the command line as Pipeline.v sees it *)
Definition plt_cmdline_of (x : plt_head * list (option pl_tcmd)) : pl_cmdline :=
  mk_pl_cmdline (mk_pl_opts (plt_quiet (plt_ho (fst x))) (plt_is_opb (plt_format (plt_ho (fst x))))) (plt_hgen (fst x)) (snd x).

(* ------------------------------------------------------------------ *)
(* what is handed to the writer                                        *)
(* ------------------------------------------------------------------ *)
Record plt_job := mk_plt_job {
  plt_jo : plt_opts;
  plt_jform : OpbText.formula;              (* FCnf n F (cnfgen) or FOpb n C (pbgen) *)
  plt_jheader : option Dimacs.header;       (* None: export_header = False *)
  plt_jtitle : option text;                 (* header['description']; None: not modelled *)
  plt_jnames : list text                    (* all_variable_labels(format of the writer) *)
}.

Inductive plt_jres :=
| JobOk (j : plt_job)
| JobErr
| JobCrash
| JobOutside.

Definition plt_needs_names (o : plt_opts) : bool :=
  match plt_format o with FmtLatex => true | _ => plt_varnames o end.
Definition plt_dflt (o : plt_opts) : list string :=
  match plt_format o with FmtLatex => plt_x_ | _ => plt_x end.

(* build_latex_cmdline_description: "\n".join(['\n']) *)
Definition plt_extra_text : text := [LF].

(* to_file(output, fileformat, export_header, export_varnames, extra_text).
   None: the writer is not defined (a literal without a name: KeyError in the LaTeX writer) *)
Definition plt_write (j : plt_job) : option (option text) :=
  let names := if plt_needs_names (plt_jo j) then Some (plt_jnames j) else None in
  match plt_format (plt_jo j) with
  | FmtDimacs =>
    match plt_jform j with
    | FCnf n F => Some (Some (print_dimacs (plt_jheader j) names n F))
    | FOpb _ _ => None                                     (* pbgen refuses the format: never built *)
    end
  | FmtOpb => Some (Some (print_opb (plt_jheader j) names (plt_jform j)))
  | FmtLatex =>
    match plt_jtitle j with
    | Some title => Some (print_latex_document title (plt_jheader j) plt_extra_text (plt_jnames j) (plt_jform j))
    | None => None
    end
  end.

(* the program, from the job: POutside when a part of the output is not modelled (the description the LaTeX title or
   the header needs) or when the names do not pass the check *)
Definition plt_emit (r : plt_jres) : pipeline_result :=
  match r with
  | JobOk j =>
    if plt_needs_names (plt_jo j) && negb (plt_names_checked (numvar (plt_jform j)) (plt_jnames j)) then POutside
    else match plt_write j with
         | Some (Some t) => POut t
         | Some None => PCrash
         | None => POutside
         end
  | JobErr => PCliError
  | JobCrash => PCrash
  | JobOutside => POutside
  end.

(* header of the output: Some None = none (-q); Some (Some h); None = not modelled *)
Definition plt_header_choice (quiet : bool) (h : option Dimacs.header) : option (option Dimacs.header) :=
  if quiet then Some None else option_map Some h.

(* ---- cnfgen ---- *)
Definition plt_header (version : string) (argv : list string) (d : string) (ts : list pl_tcmd) : Dimacs.header :=
  plh_render (plh_final version argv d ts).

(* cli() of cnfgen after the parsers returned (Pipeline.pl_run_with, with the formula of the sub-command built once) *)
Definition plt_cnf_job_with (build : pl_fcmd -> pl_fres) (version : string) (argv : list string) : plt_jres :=
  match plt_parse_chunks (pl_chunks_of argv) with
  | PlErr => JobErr
  | PlOutside => JobOutside
  | PlOk x =>
    match plt_hgen (fst x), pl_all_some (snd x) with
    | None, _ => JobErr                                    (* You did not tell which formula you wanted to generate *)
    | Some _, None => JobErr                               (* You used option '-T' but did not pick a transformation *)
    | Some g, Some ts =>
      let b := build g in
      match pl_chain b ts with
      | FrErr => JobErr
      | FrCrash => JobCrash
      | FrOutside => JobOutside
      | FrOk n F =>
        let o := plt_ho (fst x) in
        let d := plt_fdesc (plt_hname (fst x)) (plt_htoks (fst x)) g in
        match plt_header_choice (plt_quiet o) (option_map (fun d => plt_header version argv d ts) d) with
        | Some hh =>
          JobOk (mk_plt_job o (FCnf n F) hh (option_map lit d)
                            (if plt_needs_names o
                             then map lit (plt_labels (plt_dflt o) g (match b with FrOk n0 _ => n0 | _ => 0 end) ts)
                             else []))
        | None => JobOutside
        end
      end
    end
  end.

(* the program `cnfgen` with every output option of its main parser except --output/-o and --seed;
   [version] is info['version'] of the installation *)
Definition cnfgen_main_tex (version : string) (argv : list string) : pipeline_result :=
  plt_emit (plt_cnf_job_with pl_build version argv).
Definition cnfgen_main_tex_fast (version : string) (argv : list string) : pipeline_result :=
  plt_emit (plt_cnf_job_with pl_build_fast version argv).

(* ---- pbgen ---- *)
(* parse_command_line of pbgen.py (PipelinePb.plb_parse with the output options) *)
Definition plt_pb_parse (argv : list string) : pl_parsed plt_head :=
  let toks := map lit argv in
  if negb (forallb pl_is_ascii toks) then PlOutside
  else if plb_has_T argv then PlErr
  else plt_scan true false false false false false FmtOpb toks.

Definition plt_pb_header (version : string) (argv : list string) (d : string) : Dimacs.header :=
  plh_render (plb_final version argv d).

Definition plt_pb_job (version : string) (argv : list string) : plt_jres :=
  match plt_pb_parse argv with
  | PlErr => JobErr
  | PlOutside => JobOutside
  | PlOk h =>
    match plt_hgen h with
    | None => JobErr
    | Some g =>
      match plb_ir_of g with
      | IrErr => JobErr
      | IrCrash => JobCrash
      | IrOk n l =>
        let o := plt_ho h in
        let d := plt_fdesc (plt_hname h) (plt_htoks h) g in
        match plt_header_choice (plt_quiet o) (option_map (fun d => plt_pb_header version argv d) d) with
        | Some hh =>
          JobOk (mk_plt_job o (FOpb n (to_opb l)) hh (option_map lit d)
                            (if plt_needs_names o then map lit (plt_labels (plt_dflt o) g n []) else []))
        | None => JobOutside
        end
      end
    end
  end.

Definition pbgen_main_tex (version : string) (argv : list string) : pipeline_result :=
  plt_emit (plt_pb_job version argv).
