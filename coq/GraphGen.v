(* GraphGen.v -- graph constructions available on the command line.  Definitions only.

   Models
     cnfgen/graphs.py
       bipartite_random_left_regular      gg_left_regular
       bipartite_random_m_edges           gg_m_edges         (dense branch samples from the list of all pairs;
                                                              gg_m_edges_as_found, before 434eacc: the population was a
                                                              generator and random.sample raises TypeError on Python >= 3.11)
       bipartite_random_regular           gg_random_regular  (a position whose retries are exhausted while a free pair exists uses that
                                                              pair; gg_random_regular_as_found, before e36db3c: the position is skipped)
       bipartite_random                   gg_bip_random      (one recorded comparison `random() < p` per pair; before 2bc4e51 `<=`:
                                                              the comparison is done by the harness, the model is the same)
       bipartite_shift                    gg_shift           (returns the caller's pattern as it is after the call: untouched;
                                                              gg_shift_as_found, before 50573cf: sorted in place)
     The functions without suffix follow the CURRENT code; *_as_found follow the code before the repair named above;
     both are instances of a *_gen function with a boolean.
       CompleteBipartiteGraph, BipartiteGraph(L,R)           gg_complete_bipartite, gg_empty_bipartite
       Graph.complete_graph / empty_graph                    gg_complete_simple, gg_empty_simple
       dag_pyramid, dag_complete_binary_tree, dag_path       gg_dag_pyramid, gg_dag_tree, gg_dag_path
       add_random_missing_edges           gg_add_missing
       split_random_edges (+ Graph.remove_edge, update_vertex_number)   gg_split_edges, gg_remove_edge, gg_update_vertex_number
     cnfgen/clitools/graph_build.py
       multipartite_tnp (shuffleblocks=False)                gg_tnp   (one recorded comparison `random() < p` per pair)
       modify_simple_graph_plantclique, modify_bipartite_graph_plantbiclique, modify_graph_addedges,
       modify_graph_splitedges                               gg_modify_plantclique, gg_modify_plantbiclique, gg_modify_addedges, gg_modify_splitedges
       the try/assert blocks of obtain_* and modify_*        gg_guard_*   (on the integer arguments AFTER int(); arity = length of the list)
     cnfgen/clitools/graph_args.py
       obtain_graph, the option phase     gg_modify  (plant, then addedges, then splitedges)

   Randomness.  Every sampler is a function of an ORACLE STREAM (list Z) of recorded draws:
     random.randint(a,b)    one draw z, CHECKED a <= z <= b                         gg_randint
     random.sample(pop,k)   k draws read as positions in list(pop), CHECKED to be in range and pairwise distinct
                            (ValueError when k < 0 or k > len(pop), as CPython)      gg_sample_pos / gg_sample_range1 / gg_sample_list
     random.random() cmp p  one draw, 1 when the comparison holds, 0 when it does not (the float comparison is done by the harness)
   A draw that breaks the contract, or an exhausted stream, is the distinct outcome GGBadOracle; every function returns the
   unread rest of the stream.  Theorems quantify over every stream.

   Abstracted
   * graph objects as in GraphIO.v: (kind, orders, strictly sorted edge list); names are not modelled (the name is left empty);
     CompleteBipartiteGraph is the ordinary object with all L*R edges (its add_edge is a no-op, which is what inserting a present edge does);
   * networkx generators (gnp with t=1, gnm, gnd, grid, torus, complete multipartite) are an external oracle: only their guards and the
     precondition of the networkx call are stated here (the gg_pre_ predicates);
   * the conversions int()/float() of the tokens and error messages; the final `assert G.number_of_edges() == m` of
     bipartite_random_m_edges (shown never to fail);
   * restarts of bipartite_random_regular and nothing else use explicit fuel (GGNoFuel when it runs out).
   Identifiers are prefixed gg_ (single extracted OCaml module). *)
From Coq Require Import ZArith List Bool.
From Cnfgen Require Import Comb GText GraphIO.
Import ListNotations.
Open Scope Z_scope.

Inductive gg_res (A : Type) :=
| GGOk (a : A) | GGRaise (e : gio_exn) | GGZeroDiv | GGBadOracle | GGNoFuel.
Arguments GGOk {A} a.
Arguments GGRaise {A} e.
Arguments GGZeroDiv {A}.
Arguments GGBadOracle {A}.
Arguments GGNoFuel {A}.

Definition gg_bind {A B} (x : gg_res A) (f : A -> gg_res B) : gg_res B :=
  match x with
  | GGOk a => f a
  | GGRaise e => GGRaise e
  | GGZeroDiv => GGZeroDiv
  | GGBadOracle => GGBadOracle
  | GGNoFuel => GGNoFuel
  end.
Definition gg_lift {A} (x : gio_res A) : gg_res A :=
  match x with GOk a => GGOk a | GRaise e => GGRaise e end.

Definition gg_stream := list Z.
Definition gg_len {A} (l : list A) : Z := Z.of_nat (length l).
(* G.number_of_edges() *)
Definition gg_nedges (G : iograph) : Z := gg_len (io_edges G).

(* ---------- the random module, by contract ---------- *)
Definition gg_randint (a b : Z) (s : gg_stream) : gg_res (Z * gg_stream) :=
  if b <? a then GGRaise EValueError
  else match s with
       | [] => GGBadOracle
       | z :: t => if (a <=? z) && (z <=? b) then GGOk (z, t) else GGBadOracle
       end.

(* k positions in [0,n), pairwise distinct, in the order they are drawn *)
Fixpoint gg_draw_pos (k : nat) (n : Z) (seen : list Z) (s : gg_stream) : gg_res (list Z * gg_stream) :=
  match k with
  | O => GGOk ([], s)
  | S k' =>
    match s with
    | [] => GGBadOracle
    | z :: t =>
      if (0 <=? z) && (z <? n) && negb (existsb (Z.eqb z) seen)
      then gg_bind (gg_draw_pos k' n (z :: seen) t) (fun r => GGOk (z :: fst r, snd r))
      else GGBadOracle
    end
  end.
(* random.sample(pop, k) with len(pop) = n *)
Definition gg_sample_pos (n k : Z) (s : gg_stream) : gg_res (list Z * gg_stream) :=
  if (k <? 0) || (Z.max 0 n <? k) then GGRaise EValueError
  else gg_draw_pos (Z.to_nat k) n [] s.
(* random.sample(range(1, n+1), k) *)
Definition gg_sample_range1 (n k : Z) (s : gg_stream) : gg_res (list Z * gg_stream) :=
  gg_bind (gg_sample_pos n k s) (fun r => GGOk (map (fun p => p + 1) (fst r), snd r)).
(* random.sample(pop, k) for a list *)
Definition gg_sample_list {A} (d : A) (pop : list A) (k : Z) (s : gg_stream) : gg_res (list A * gg_stream) :=
  gg_bind (gg_sample_pos (gg_len pop) k s) (fun r => GGOk (map (fun p => nth (Z.to_nat p) pop d) (fst r), snd r)).

Definition gg_add_edges (G : iograph) (es : list (Z * Z)) (s : gg_stream) : gg_res (iograph * gg_stream) :=
  gg_bind (gg_lift (gio_add_edges G es)) (fun G' => GGOk (G', s)).

(* [(u, v) for u in range(1,L+1) for v in range(1,R+1)] *)
Definition gg_all_pairs (L R : Z) : list (Z * Z) :=
  flat_map (fun u => map (fun v => (u, v)) (gt_range1 R)) (gt_range1 L).

(* ---------- bipartite_random_left_regular ---------- *)
Fixpoint gg_lr_loop (us : list Z) (r d : Z) (G : iograph) (s : gg_stream) : gg_res (iograph * gg_stream) :=
  match us with
  | [] => GGOk (G, s)
  | u :: us' =>
    gg_bind (gg_sample_range1 r d s) (fun vs =>
    gg_bind (gg_lift (gio_add_edges G (map (fun v => (u, v)) (gio_sort Z.ltb (fst vs))))) (fun G' =>
    gg_lr_loop us' r d G' (snd vs)))
  end.
Definition gg_left_regular (l r d : Z) (s : gg_stream) : gg_res (iograph * gg_stream) :=
  if (l <? 0) || (r <? 0) || (d <? 0) then GGRaise EValueError
  else gg_bind (gg_lift (gio_new GioBipartite [] l r)) (fun G => gg_lr_loop (gt_range1 l) r (Z.min r d) G s).

(* ---------- bipartite_random_m_edges ---------- *)
(* while count < m: u = randint(1,L); v = randint(1,R); add when absent *)
Fixpoint gg_me_sparse (L R remaining : Z) (G : iograph) (s : gg_stream) {struct s} : gg_res (iograph * gg_stream) :=
  if remaining <=? 0 then GGOk (G, s)
  else match s with
       | u :: v :: t =>
         if (1 <=? u) && (u <=? L) && (1 <=? v) && (v <=? R) then
           if gio_has_edge G u v then gg_me_sparse L R remaining G t
           else gg_bind (gg_lift (gio_add_edge G u v)) (fun G' => gg_me_sparse L R (remaining - 1) G' t)
         else GGBadOracle
       | _ => GGBadOracle
       end.
Definition gg_m_edges_gen (repaired : bool) (L R m : Z) (s : gg_stream) : gg_res (iograph * gg_stream) :=
  if (L <? 1) || (R <? 1) || (m <? 0) || (L * R <? m) then GGRaise EValueError
  else gg_bind (gg_lift (gio_new GioBipartite [] L R)) (fun G =>
       if L * R / 3 <? m then
         (* dense: random.sample(E, m) where E is the list of all pairs (as found: a generator, TypeError) *)
         if repaired then gg_bind (gg_sample_list (0, 0) (gg_all_pairs L R) m s) (fun es => gg_add_edges G (fst es) (snd es))
         else GGRaise ETypeError
       else gg_me_sparse L R m G s).
Definition gg_m_edges_as_found := gg_m_edges_gen false.
Definition gg_m_edges := gg_m_edges_gen true.

(* ---------- bipartite_random (glrp): for u: for v: if random() < p ---------- *)
Fixpoint gg_bernoulli (cells : list (Z * Z)) (G : iograph) (s : gg_stream) : gg_res (iograph * gg_stream) :=
  match cells with
  | [] => GGOk (G, s)
  | (u, v) :: t =>
    match s with
    | [] => GGBadOracle
    | b :: s' =>
      if b =? 1 then gg_bind (gg_lift (gio_add_edge G u v)) (fun G' => gg_bernoulli t G' s')
      else if b =? 0 then gg_bernoulli t G s'
      else GGBadOracle
    end
  end.
(* p_ok: 0 <= p <= 1 *)
Definition gg_bip_random (L R : Z) (p_ok : bool) (s : gg_stream) : gg_res (iograph * gg_stream) :=
  if (L <? 1) || (R <? 1) || negb p_ok then GGRaise EValueError
  else gg_bind (gg_lift (gio_new GioBipartite [] L R)) (fun G => gg_bernoulli (gg_all_pairs L R) G s).

(* multipartite_tnp(t, n, p): blocks i < j, a in block i, b in block j (0-based a, b; vertex = index + 1) *)
Definition gg_tnp_cells (t n : Z) : list (Z * Z) :=
  flat_map (fun ij => flat_map (fun a => map (fun b => (a, b))
                                             (map (fun x => n * (snd ij - 1) + x) (gt_range1 n)))
                               (map (fun x => n * (fst ij - 1) + x) (gt_range1 n)))
           (pairs (gt_range1 t)).
Definition gg_tnp (t n : Z) (s : gg_stream) : gg_res (iograph * gg_stream) :=
  gg_bind (gg_lift (gio_new GioSimple [] (t * n) 0)) (fun G => gg_bernoulli (gg_tnp_cells t n) G s).

(* ---------- bipartite_shift ---------- *)
Definition gg_shift_edges (N M : Z) (pat : list Z) : list (Z * Z) :=
  flat_map (fun u => map (fun o => (u, 1 + (u - 1 + o) mod M)) pat) (gt_range1 N).
(* sort_in_place = false: pattern = sorted(pattern), the caller's list is left alone (current code);
   true: pattern.sort() on the caller's list (as found) *)
Definition gg_shift_gen (sort_in_place : bool) (N M : Z) (pat : list Z) : gg_res (iograph * list Z) :=
  if (N <? 1) || (M <? 1) then GGRaise EValueError
  else let sp := gio_sort Z.ltb pat in
       gg_bind (gg_lift (gio_new GioBipartite [] N M)) (fun G =>
       gg_bind (gg_lift (gio_add_edges G (gg_shift_edges N M sp))) (fun G' =>
       GGOk (G', if sort_in_place then sp else pat))).
Definition gg_shift_as_found := gg_shift_gen true.
Definition gg_shift := gg_shift_gen false.

(* ---------- bipartite_random_regular ---------- *)
Fixpoint gg_set_nth (i : nat) (x : Z) (l : list Z) : list Z :=
  match l, i with
  | [], _ => []
  | _ :: t, O => x :: t
  | y :: t, S i' => y :: gg_set_nth i' x t
  end.
(* A[i], A[j] = A[j], A[i] *)
Definition gg_swap (i j : nat) (l : list Z) : list Z :=
  let x := nth i l 0 in
  let y := nth j l 0 in
  gg_set_nth j x (gg_set_nth i y l).

Inductive gg_try := GGFound (ea eb : Z) (rest : gg_stream) | GGNotFound (rest : gg_stream) | GGTryBad.
(* for retries in range(cnt): ea = randint(i, hi); eb = randint(i, hi); stop at the first absent edge *)
Fixpoint gg_rr_try (cnt i hi : Z) (G : iograph) (A B : list Z) (s : gg_stream) {struct s} : gg_try :=
  if cnt <=? 0 then GGNotFound s
  else match s with
       | ea :: eb :: t =>
         if (i <=? ea) && (ea <=? hi) && (i <=? eb) && (eb <=? hi) then
           if gio_has_edge G (nth (Z.to_nat ea) A 0) (nth (Z.to_nat eb) B 0)
           then gg_rr_try (cnt - 1) i hi G A B t
           else GGFound ea eb t
         else GGTryBad
       | _ => GGTryBad
       end.

Fixpoint gg_find_pos (p : Z -> bool) (l : list Z) (k : nat) : option nat :=
  match l with
  | [] => None
  | x :: t => if p x then Some k else gg_find_pos p t (S k)
  end.
(* the exhaustive test: first (ea, eb), ea major, with no edge between A[ea] and B[eb] *)
Fixpoint gg_rr_free (G : iograph) (As Bs : list Z) (ka kb : nat) : option (nat * nat) :=
  match As with
  | [] => None
  | a :: t =>
    match gg_find_pos (fun b => negb (gio_has_edge G a b)) Bs kb with
    | Some j => Some (ka, j)
    | None => gg_rr_free G t Bs (S ka) kb
    end
  end.

(* for i in range(l*d): ...; result None: `return bipartite_random_regular(l, r, d)` *)
Fixpoint gg_rr_loop (repair : bool) (fuel : nat) (i ld d : Z) (G : iograph) (A B : list Z) (s : gg_stream)
  : gg_res (option iograph * gg_stream) :=
  match fuel with
  | O => GGOk (Some G, s)
  | S f =>
    match gg_rr_try (3 * d * d) i (ld - 1) G A B s with
    | GGTryBad => GGBadOracle
    | GGFound ea eb t =>
      gg_bind (gg_lift (gio_add_edge G (nth (Z.to_nat ea) A 0) (nth (Z.to_nat eb) B 0))) (fun G' =>
      gg_rr_loop repair f (i + 1) ld d G' (gg_swap (Z.to_nat i) (Z.to_nat ea) A) (gg_swap (Z.to_nat i) (Z.to_nat eb) B) t)
    | GGNotFound t =>
      match gg_rr_free G (skipn (Z.to_nat i) A) (skipn (Z.to_nat i) B) (Z.to_nat i) (Z.to_nat i) with
      | None => GGOk (None, t)
      | Some (ea, eb) =>
        if repair then
          gg_bind (gg_lift (gio_add_edge G (nth ea A 0) (nth eb B 0))) (fun G' =>
          gg_rr_loop repair f (i + 1) ld d G' (gg_swap (Z.to_nat i) ea A) (gg_swap (Z.to_nat i) eb B) t)
        else gg_rr_loop repair f (i + 1) ld d G A B t      (* nothing is added for this i *)
      end
    end
  end.

Definition gg_rr_A (l d : Z) : list Z := concat (repeat (gt_range1 l) (Z.to_nat d)).
Definition gg_rr_B (l r d : Z) : list Z := concat (repeat (gt_range1 r) (Z.to_nat (l * d / r))).

Fixpoint gg_rr_restarts (repair : bool) (restarts : nat) (l r d : Z) (s : gg_stream) : gg_res (iograph * gg_stream) :=
  match restarts with
  | O => GGNoFuel
  | S k =>
    gg_bind (gg_lift (gio_new GioBipartite [] l r)) (fun G =>
    gg_bind (gg_rr_loop repair (Z.to_nat (l * d)) 0 (l * d) d G (gg_rr_A l d) (gg_rr_B l r d) s) (fun res =>
    match fst res with
    | Some G' => GGOk (G', snd res)
    | None => gg_rr_restarts repair k l r d (snd res)
    end))
  end.
Definition gg_random_regular_gen (repair : bool) (restarts : nat) (l r d : Z) (s : gg_stream) : gg_res (iograph * gg_stream) :=
  if (l <? 0) || (r <? 0) || (d <? 0) then GGRaise EValueError
  else if r =? 0 then GGZeroDiv
  else if negb ((l * d) mod r =? 0) then GGRaise EValueError
  else gg_rr_restarts repair restarts l r d s.
Definition gg_random_regular_as_found := gg_random_regular_gen false.
Definition gg_random_regular := gg_random_regular_gen true.

(* ---------- fixed graphs ---------- *)
Definition gg_complete_bipartite (L R : Z) : gg_res iograph :=
  gg_bind (gg_lift (gio_new GioBipartite [] L R)) (fun G => gg_lift (gio_add_edges G (gg_all_pairs L R))).
Definition gg_empty_bipartite (L R : Z) : gg_res iograph := gg_lift (gio_new GioBipartite [] L R).
Definition gg_complete_simple (n : Z) : gg_res iograph :=
  gg_bind (gg_lift (gio_new GioSimple [] n 0)) (fun G => gg_lift (gio_add_edges G (pairs (gt_range1 n)))).
Definition gg_empty_simple (n : Z) : gg_res iograph := gg_lift (gio_new GioSimple [] n 0).

(* one layer of the pyramid: w destinations *)
Fixpoint gg_pyr_row (w : nat) (src dest : Z) : list (Z * Z) :=
  match w with
  | O => []
  | S w' => (src, dest) :: (src + 1, dest) :: gg_pyr_row w' (src + 1) (dest + 1)
  end.
(* layers of width w, w-1, ..., 1 *)
Fixpoint gg_pyr_rows (w : nat) (src dest : Z) : list (Z * Z) :=
  match w with
  | O => []
  | S w' => gg_pyr_row (S w') src dest ++ gg_pyr_rows w' (src + Z.of_nat (S w') + 1) (dest + Z.of_nat (S w'))
  end.
Definition gg_dag_pyramid (h : Z) : gg_res iograph :=
  if h <? 0 then GGRaise EValueError
  else gg_bind (gg_lift (gio_new GioDirected [] ((h + 1) * (h + 2) / 2) 0)) (fun G =>
       gg_lift (gio_add_edges G (gg_pyr_rows (Z.to_nat h) 1 (h + 2)))).

Fixpoint gg_tree_edges (cnt : nat) (src dest : Z) : list (Z * Z) :=
  match cnt with
  | O => []
  | S c => (src, dest) :: (src + 1, dest) :: gg_tree_edges c (src + 2) (dest + 1)
  end.
Definition gg_dag_tree (h : Z) : gg_res iograph :=
  if h <? 0 then GGRaise EValueError
  else let N := 2 * 2 ^ h in
       gg_bind (gg_lift (gio_new GioDirected [] (N - 1) 0)) (fun G =>
       gg_lift (gio_add_edges G (gg_tree_edges (Z.to_nat (N / 2 - 1)) 1 (N / 2 + 1)))).

Definition gg_dag_path (len : Z) : gg_res iograph :=
  if len <? 0 then GGRaise EValueError
  else gg_bind (gg_lift (gio_new GioDirected [] (len + 1) 0)) (fun G =>
       gg_lift (gio_add_edges G (map (fun i => (i, i + 1)) (gt_range1 len)))).

(* ---------- plantclique / plantbiclique (after the argument guard) ---------- *)
Definition gg_plantclique (G : iograph) (k : Z) (s : gg_stream) : gg_res (iograph * gg_stream) :=
  if io_n G <? k then GGRaise EValueError
  else gg_bind (gg_sample_range1 (io_n G) k s) (fun c => gg_add_edges G (pairs (fst c)) (snd c)).
Definition gg_plantbiclique (G : iograph) (a b : Z) (s : gg_stream) : gg_res (iograph * gg_stream) :=
  if (io_n G <? a) || (io_r G <? b) then GGRaise EValueError
  else gg_bind (gg_sample_range1 (io_n G) a s) (fun lf =>
       gg_bind (gg_sample_range1 (io_r G) b (snd lf)) (fun rt =>
       gg_add_edges G (flat_map (fun v => map (fun w => (v, w)) (fst rt)) (fst lf)) (snd rt))).

(* ---------- add_random_missing_edges ---------- *)
(* twice total_number_of_edges *)
Definition gg_total2 (G : iograph) : Z :=
  match io_kind G with
  | GioBipartite => 2 * (io_n G * io_r G)
  | _ => io_n G * (io_n G - 1)
  end.
(* edge_sampler() cannot even start: random.sample raises ValueError, sample larger than population *)
Definition gg_ae_pop_small (G : iograph) : bool :=
  match io_kind G with
  | GioBipartite => (io_n G <? 1) || (io_r G <? 1)
  | _ => io_n G <? 2
  end.
(* edge_sampler() from two recorded positions *)
Definition gg_ae_pick (G : iograph) (a b : Z) : option (Z * Z) :=
  match io_kind G with
  | GioBipartite =>
    if (0 <=? a) && (a <? io_n G) && (0 <=? b) && (b <? io_r G) then Some (a + 1, b + 1) else None
  | _ =>
    if (0 <=? a) && (a <? io_n G) && (0 <=? b) && (b <? io_n G) && negb (a =? b) then Some (a + 1, b + 1) else None
  end.
(* for _ in range(cnt): if G.number_of_edges() >= goal: break; sample; add when absent *)
Fixpoint gg_ae_loop (cnt goal : Z) (G : iograph) (s : gg_stream) {struct s} : gg_res (iograph * gg_stream) :=
  if cnt <=? 0 then GGOk (G, s)
  else if goal <=? gg_nedges G then GGOk (G, s)
  else if gg_ae_pop_small G then GGRaise EValueError
  else match s with
       | a :: b :: t =>
         match gg_ae_pick G a b with
         | None => GGBadOracle
         | Some (u, v) =>
           if gio_has_edge G u v then gg_ae_loop (cnt - 1) goal G t
           else gg_bind (gg_lift (gio_add_edge G u v)) (fun G' => gg_ae_loop (cnt - 1) goal G' t)
         end
       | _ => GGBadOracle
       end.
Definition gg_candidates (G : iograph) : list (Z * Z) :=
  match io_kind G with
  | GioBipartite => gg_all_pairs (io_n G) (io_r G)
  | _ => pairs (gt_range1 (io_n G))
  end.
(* available_edges() *)
Definition gg_available (G : iograph) : list (Z * Z) :=
  filter (fun e => negb (gio_has_edge G (fst e) (snd e))) (gg_candidates G).
Definition gg_add_missing (G : iograph) (m : Z) (s : gg_stream) : gg_res (iograph * gg_stream) :=
  if m <? 0 then GGRaise EValueError
  else let goal := gg_nedges G + m in
       if gg_total2 G <? 2 * goal then GGRaise EValueError
       else gg_bind (gg_ae_loop (10 * m) goal G s) (fun r =>
            let G1 := fst r in
            if gg_nedges G1 <? goal
            then gg_bind (gg_sample_list (0, 0) (gg_available G1) (goal - gg_nedges G1) (snd r)) (fun es =>
                 gg_add_edges G1 (fst es) (snd es))
            else GGOk (G1, snd r)).

(* ---------- split_random_edges ---------- *)
(* Graph.remove_edge *)
Definition gg_remove_edge (G : iograph) (u v : Z) : iograph :=
  if gio_has_edge G u v
  then gio_with_edges G (filter (fun e => negb (gio_pair_eqb e (Z.min u v, Z.max u v))) (io_edges G))
  else G.
(* Graph.update_vertex_number *)
Definition gg_update_vertex_number (G : iograph) (nv : Z) : gg_res iograph :=
  if nv <? 0 then GGRaise EValueError
  else GGOk (mkIOG (io_kind G) (io_name G) (Z.max (io_n G) nv) (io_r G) (io_edges G)).
Fixpoint gg_split_loop (G : iograph) (x : Z) (es : list (Z * Z)) : gg_res iograph :=
  match es with
  | [] => GGOk G
  | (u, v) :: t =>
    gg_bind (gg_lift (gio_add_edge (gg_remove_edge G u v) u x)) (fun G1 =>
    gg_bind (gg_lift (gio_add_edge G1 x v)) (fun G2 =>
    gg_split_loop G2 (x + 1) t))
  end.
Definition gg_split_edges (G : iograph) (k : Z) (s : gg_stream) : gg_res (iograph * gg_stream) :=
  match io_kind G with
  | GioSimple =>
    if k <? 0 then GGRaise EValueError
    else if gg_nedges G <? k then GGRaise EValueError
    else gg_bind (gg_sample_list (0, 0) (io_edges G) k s) (fun ts =>
         gg_bind (gg_update_vertex_number G (io_n G + k)) (fun G0 =>
         gg_bind (gg_split_loop G0 (io_n G + 1) (fst ts)) (fun G' => GGOk (G', snd ts))))
  | _ => GGRaise ETypeError
  end.

(* ---------- argument guards of graph_build.py: true = no ValueError from the try/assert block ---------- *)
(* as found (before 9fe5425): N >= d *)
Definition gg_guard_gnd_as_found (args : list Z) : bool :=
  match args with
  | [n; d] => (0 <? n) && (0 <? d) && (d <=? n) && negb ((n * d) mod 2 =? 1)
  | _ => false
  end.
(* current code: N > d *)
Definition gg_guard_gnd (args : list Z) : bool :=
  match args with
  | [n; d] => (0 <? n) && (0 <? d) && (d <? n) && negb ((n * d) mod 2 =? 1)
  | _ => false
  end.
(* ints: [n] or [n; t]; p_ok: float(p) succeeded and 0 <= p <= 1 *)
Definition gg_guard_gnp (ints : list Z) (p_ok : bool) : bool :=
  match ints with
  | [n] => (0 <? n) && p_ok
  | [n; t] => (0 <? n) && p_ok && (0 <? t)
  | _ => false
  end.
Definition gg_guard_gnm (args : list Z) : bool :=
  match args with
  | [n; m] => (0 <? n) && (0 <=? m) && (m <=? n * (n - 1) / 2)
  | _ => false
  end.
Definition gg_guard_complete_simple (args : list Z) : bool :=
  match args with
  | [n] => 0 <? n
  | [n; b] => (0 <? n) && (0 <? b)
  | _ => false
  end.
Definition gg_guard_empty_simple (args : list Z) : bool :=
  match args with [n] => 0 <? n | _ => false end.
(* as found (before 458cbc2): no arity test *)
Definition gg_guard_grid_as_found (dims : list Z) : bool := forallb (fun d => 0 <? d) dims.
(* current code: at least one dimension *)
Definition gg_guard_grid (dims : list Z) : bool := negb (gt_is_nil dims) && gg_guard_grid_as_found dims.
Definition gg_guard_glrp (ints : list Z) (p_ok : bool) : bool :=
  match ints with [l; r] => (0 <? l) && (0 <? r) && p_ok | _ => false end.
Definition gg_guard_glrm (args : list Z) : bool :=
  match args with
  | [l; r; m] => (0 <? l) && (0 <? r) && (0 <=? m) && (m <=? l * r)
  | _ => false
  end.
Definition gg_guard_glrd (args : list Z) : bool :=
  match args with
  | [l; r; d] => (0 <? l) && (0 <? r) && (0 <=? d) && (d <=? r)
  | _ => false
  end.
Definition gg_guard_regular (args : list Z) : bool :=
  match args with
  | [l; r; d] => (0 <? l) && (0 <? r) && (0 <=? d) && (d <=? r) && ((d * l) mod r =? 0)
  | _ => false
  end.
Fixpoint gg_adjacent_equal (l : list Z) : bool :=
  match l with
  | x :: ((y :: _) as t) => (x =? y) || gg_adjacent_equal t
  | _ => false
  end.
(* values: L R v1 v2 ...; the pattern handed to bipartite_shift is sorted(v1 v2 ...) *)
Definition gg_guard_shift (values : list Z) : bool :=
  match values with
  | L :: R :: pat =>
    (0 <? L) && (0 <? R) && negb (gg_adjacent_equal (gio_sort Z.ltb pat))
    && negb (existsb (fun x => (x <? 0) || (R <? x)) pat)
  | _ => false
  end.
Definition gg_guard_two_positive (args : list Z) : bool :=      (* complete / empty bipartite *)
  match args with [l; r] => (0 <? l) && (0 <? r) | _ => false end.
Definition gg_guard_one_nonneg (args : list Z) : bool :=        (* tree, pyramid, path, plantclique, addedges, splitedges *)
  match args with [h] => 0 <=? h | _ => false end.
Definition gg_guard_two_nonneg (args : list Z) : bool :=        (* plantbiclique *)
  match args with [a; b] => (0 <=? a) && (0 <=? b) | _ => false end.

(* obtain_* of the in-house constructions: guard, then the construction *)
Definition gg_obtain_glrm_gen (repaired : bool) (args : list Z) (s : gg_stream) : gg_res (iograph * gg_stream) :=
  match args with
  | [l; r; m] => if gg_guard_glrm args then gg_m_edges_gen repaired l r m s else GGRaise EValueError
  | _ => GGRaise EValueError
  end.
Definition gg_obtain_glrm := gg_obtain_glrm_gen true.
Definition gg_obtain_glrd (args : list Z) (s : gg_stream) : gg_res (iograph * gg_stream) :=
  match args with
  | [l; r; d] => if gg_guard_glrd args then gg_left_regular l r d s else GGRaise EValueError
  | _ => GGRaise EValueError
  end.
Definition gg_obtain_regular_gen (repair : bool) (restarts : nat) (args : list Z) (s : gg_stream) : gg_res (iograph * gg_stream) :=
  match args with
  | [l; r; d] => if gg_guard_regular args then gg_random_regular_gen repair restarts l r d s else GGRaise EValueError
  | _ => GGRaise EValueError
  end.
Definition gg_obtain_regular := gg_obtain_regular_gen true.
Definition gg_obtain_shift (values : list Z) : gg_res iograph :=
  match values with
  | L :: R :: pat =>
    if gg_guard_shift values
    then gg_bind (gg_shift L R (gio_sort Z.ltb pat)) (fun r => GGOk (fst r))
    else GGRaise EValueError
  | _ => GGRaise EValueError
  end.
Definition gg_obtain_complete_bipartite (args : list Z) : gg_res iograph :=
  match args with
  | [l; r] => if gg_guard_two_positive args then gg_complete_bipartite l r else GGRaise EValueError
  | _ => GGRaise EValueError
  end.
Definition gg_obtain_empty_bipartite (args : list Z) : gg_res iograph :=
  match args with
  | [l; r] => if gg_guard_two_positive args then gg_empty_bipartite l r else GGRaise EValueError
  | _ => GGRaise EValueError
  end.
Definition gg_obtain_complete_simple (args : list Z) : gg_res iograph :=   (* one argument only: B is networkx *)
  match args with
  | [n] => if gg_guard_complete_simple args then gg_complete_simple n else GGRaise EValueError
  | _ => GGRaise EValueError
  end.
Definition gg_obtain_empty_simple (args : list Z) : gg_res iograph :=
  match args with
  | [n] => if gg_guard_empty_simple args then gg_empty_simple n else GGRaise EValueError
  | _ => GGRaise EValueError
  end.
Definition gg_obtain_dag (which : Z) (args : list Z) : gg_res iograph :=   (* 0 path, 1 tree, 2 pyramid *)
  match args with
  | [h] => if gg_guard_one_nonneg args
           then (if which =? 0 then gg_dag_path h else if which =? 1 then gg_dag_tree h else gg_dag_pyramid h)
           else GGRaise EValueError
  | _ => GGRaise EValueError
  end.

(* modify_*: guard on the option's arguments, then the modification *)
Definition gg_modify_plantclique (args : list Z) (G : iograph) (s : gg_stream) : gg_res (iograph * gg_stream) :=
  match args with
  | [k] => if gg_guard_one_nonneg args then gg_plantclique G k s else GGRaise EValueError
  | _ => GGRaise EValueError
  end.
Definition gg_modify_plantbiclique (args : list Z) (G : iograph) (s : gg_stream) : gg_res (iograph * gg_stream) :=
  match args with
  | [a; b] => if gg_guard_two_nonneg args then gg_plantbiclique G a b s else GGRaise EValueError
  | _ => GGRaise EValueError
  end.
Definition gg_modify_addedges (args : list Z) (G : iograph) (s : gg_stream) : gg_res (iograph * gg_stream) :=
  match args with
  | [k] => if gg_guard_one_nonneg args then gg_add_missing G k s else GGRaise EValueError
  | _ => GGRaise EValueError
  end.
Definition gg_modify_splitedges (args : list Z) (G : iograph) (s : gg_stream) : gg_res (iograph * gg_stream) :=
  match args with
  | [k] => if gg_guard_one_nonneg args then gg_split_edges G k s else GGRaise EValueError
  | _ => GGRaise EValueError
  end.

(* obtain_graph after the construction: options that are present (Some args), in the order of the code *)
Record gg_opts := mkGGOpts { gg_o_plant : option (list Z); gg_o_add : option (list Z); gg_o_split : option (list Z) }.
Definition gg_opt_step (o : option (list Z)) (f : list Z -> iograph -> gg_stream -> gg_res (iograph * gg_stream))
           (x : iograph * gg_stream) : gg_res (iograph * gg_stream) :=
  match o with
  | None => GGOk x
  | Some args => f args (fst x) (snd x)
  end.
Definition gg_modify (o : gg_opts) (G : iograph) (s : gg_stream) : gg_res (iograph * gg_stream) :=
  gg_bind (match io_kind G with
           | GioSimple => gg_opt_step (gg_o_plant o) gg_modify_plantclique (G, s)
           | GioBipartite => gg_opt_step (gg_o_plant o) gg_modify_plantbiclique (G, s)
           | GioDirected => GGOk (G, s)
           end) (fun x1 =>
  gg_bind (gg_opt_step (gg_o_add o) gg_modify_addedges x1) (fun x2 =>
  gg_opt_step (gg_o_split o) gg_modify_splitedges x2)).

(* ---------- preconditions of what is called after the guard ---------- *)
(* networkx.random_regular_graph(d, n) raises NetworkXError unless n*d is even and 0 <= d < n *)
Definition gg_pre_nx_random_regular (d n : Z) : Prop := (n * d) mod 2 = 0 /\ 0 <= d < n.
(* networkx.gnm_random_graph(n, m) delivers m edges only when m does not exceed the number of pairs *)
Definition gg_pre_nx_gnm (n m : Z) : Prop := 0 < n /\ 0 <= m <= n * (n - 1) / 2.
(* networkx.grid_graph(dims): positive sizes *)
Definition gg_pre_nx_grid (dims : list Z) : Prop := Forall (fun d => 0 < d) dims.
(* networkx.complete_multipartite_graph(n, ..., n) with b blocks *)
Definition gg_pre_nx_multipartite (n b : Z) : Prop := 0 < n /\ 0 < b.
(* the `raise ValueError` tests of the in-house samplers do not fire *)
Definition gg_pre_m_edges (L R m : Z) : Prop := 1 <= L /\ 1 <= R /\ 0 <= m <= L * R.
Definition gg_pre_left_regular (l r d : Z) : Prop := 0 <= l /\ 0 <= r /\ 0 <= d /\ Z.min r d = d.
Definition gg_pre_random_regular (l r d : Z) : Prop := 0 <= l /\ 0 < r /\ 0 <= d /\ (l * d) mod r = 0.
Definition gg_pre_shift (N M : Z) (pat : list Z) : Prop := 1 <= N /\ 1 <= M.
Definition gg_pre_orders (L R : Z) : Prop := 0 <= L /\ 0 <= R.
Definition gg_pre_height (h : Z) : Prop := 0 <= h.
(* random.sample(population of size n, k) *)
Definition gg_pre_sample (n k : Z) : Prop := 0 <= k <= n.
