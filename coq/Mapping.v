(* Mapping.v — model of the mapping constraints of cnfgen/formula/variables.py:
   VariablesManager.force_complete_mapping, force_functional_mapping,
   force_surjective_mapping, force_injective_mapping, force_nondecreasing_mapping and
   BinaryMappingVariables.forbid, for unary mappings (new_mapping: complete bipartite
   graph), sparse mappings (new_sparse_mapping: any bipartite graph) and binary
   mappings (new_binary_mapping).  The result is the list of builder calls (coq/IR.v)
   the Python code makes on the formula, in the same order.  Definitions only.

   Abstracted: the mapping object is given by its shape and the offset of its
   variable group (coq/Vars.v); the check `f.parent_formula() != F` (ValueError for a
   mapping of another formula) is not modelled.  forbid(i,j) with negative j (Python
   negative indexing into the sign table) is not modelled. *)
From Coq Require Import ZArith List Bool.
From Cnfgen Require Import Sem Comb Linear IR Vars.
Import ListNotations.
Open Scope Z_scope.

Definition id_or_0 (o : option Z) : Z := match o with Some x => x | None => 0 end.

(* list(f( *pattern )) : the identifiers matching a pattern, [] when the pattern is rejected *)
Definition pattern_ids (off : Z) (s : shape) (pat : list (option Z)) : list Z :=
  match pattern_indices s pat with
  | Some l => map (fun i => id_or_0 (vg_to_id off s i)) l
  | None => []
  end.

Inductive mapping :=
| MUnary (adj : list (list Z)) (R : Z)     (* new_mapping (complete_adj n m, m) / new_sparse_mapping *)
| MBinary (n m : Z).                       (* new_binary_mapping *)

Definition mapping_shape (mp : mapping) : shape :=
  match mp with MUnary adj R => BipEdges adj R | MBinary n m => BinMap n m end.

(* f.domain() *)
Definition m_domain (mp : mapping) : list Z :=
  match mp with MUnary adj _ => zrange 1 (len adj + 1) | MBinary n _ => zrange 1 (n + 1) end.
(* f.range() *)
Definition m_range (mp : mapping) : list Z :=
  match mp with MUnary _ R => zrange 1 (R + 1) | MBinary _ m => zrange 0 m end.
(* f.range(u) of a unary mapping *)
Definition m_range_of (adj : list (list Z)) (u : Z) : list Z :=
  match right_nbrs adj u with Some vs => vs | None => [] end.

(* ---------- BinaryMappingVariables.forbid ---------- *)
Definition flips (k : Z) : list (list Z) := prod_rep [1; -1] (Z.to_nat k).   (* product([1,-1], repeat=k) *)
Fixpoint mul_zip (s v : list Z) : list Z :=
  match s, v with
  | x :: s', y :: v' => x * y :: mul_zip s' v'
  | _, _ => []
  end.
Definition vmap_forbid (off n m i j : Z) : option (list Z) :=     (* None: ValueError *)
  if j >=? 2 ^ bitlength m then None
  else match znth j (flips (bitlength m)) with
       | Some sg => Some (mul_zip sg (pattern_ids off (BinMap n m) [Some i; None]))
       | None => None
       end.
Definition forbid_cl (off n m i j : Z) : list Z :=
  match vmap_forbid off n m i j with Some c => c | None => [] end.

(* ---------- the five constraints ---------- *)
Definition vm_force_complete (off : Z) (mp : mapping) : list ir :=
  match mp with
  | MBinary n m =>
      flat_map (fun i => map (fun j => IClause (forbid_cl off n m i j)) (zrange m (2 ^ bitlength m))) (m_domain mp)
  | MUnary adj R =>
      map (fun x => IClause (pattern_ids off (mapping_shape mp) [Some x; None])) (m_domain mp)
  end.

Definition vm_force_functional (off : Z) (mp : mapping) : list ir :=
  match mp with
  | MBinary _ _ => []
  | MUnary adj R => map (fun x => ILin (pattern_ids off (mapping_shape mp) [Some x; None]) CLe 1) (m_domain mp)
  end.

(* second component: the call ends with ValueError (binary mappings: the loop asks for bit
   position y for every y in range(m), and m exceeds the number of bits) *)
Definition vm_force_surjective (off : Z) (mp : mapping) : list ir * bool :=
  match mp with
  | MUnary adj R => (map (fun y => IClause (pattern_ids off (mapping_shape mp) [None; Some y])) (m_range mp), false)
  | MBinary n m =>
      (map (fun y => IClause (pattern_ids off (mapping_shape mp) [None; Some y])) (zrange 0 (Z.min (bitlength m) m)),
       bitlength m <? m)
  end.

Definition vm_force_injective (off : Z) (mp : mapping) : list ir :=
  match mp with
  | MUnary adj R => map (fun y => ILin (pattern_ids off (mapping_shape mp) [None; Some y]) CLe 1) (m_range mp)
  | MBinary n m =>
      flat_map (fun y => map (fun xx => IClause (forbid_cl off n m (fst xx) y ++ forbid_cl off n m (snd xx) y))
                             (pairs (m_domain mp))) (m_range mp)
  end.

Definition vm_force_nondecreasing (off : Z) (mp : mapping) : list ir :=
  match mp with
  | MUnary adj R =>
      let fd u v := id_or_0 (vg_to_id off (mapping_shape mp) [u; v]) in
      flat_map (fun uu =>
        flat_map (fun v1 =>
          flat_map (fun v2 => if v1 >? v2 then [IClause [- fd (fst uu) v1; - fd (snd uu) v2]] else [])
                   (m_range_of adj (snd uu)))
                 (m_range_of adj (fst uu)))
        (pairs (m_domain mp))
  | MBinary n m =>
      flat_map (fun uu => map (fun vv => IClause (forbid_cl off n m (fst uu) (snd vv) ++ forbid_cl off n m (snd uu) (fst vv)))
                              (pairs (m_range mp))) (pairs (m_domain mp))
  end.
