(* Fam_subsetcard_Facts.v — subset cardinality formulas encode 0/1 edge labellings with
   the documented degree conditions (C01). *)
From Coq Require Import ZArith List Bool Lia ZifyBool.
From Cnfgen Require Import Sem Comb Linear IR SemFacts LinearFacts IRFacts FamTab FamTabFacts Fam_subsetcard Spec_C01.
Import ListNotations.
Open Scope Z_scope.
Ltac Zify.zify_post_hook ::= Z.to_euclidean_division_equations.

Lemma subsetcard_tab_pos adj e : In e (subsetcard_tab adj) -> 0 < snd e.
Proof. apply number_pos. lia. Qed.

Lemma subsetcard_ok adj R eq : irs_ok (subsetcard_ir adj R eq) = true.
Proof.
  unfold subsetcard_ir. cbv zeta. apply irs_ok_app_intro; apply irs_ok_map; intros x _;
    destruct eq; unfold ir_ok; cbn [ir_lits]; apply lits_ok_ids_where, subsetcard_tab_pos.
Qed.

Lemma subsetcard_len_ids adj (p : Z * Z -> bool) :
  len (ids_where p (subsetcard_tab adj)) = deg_in p (bip_index adj).
Proof. rewrite len_ids_where. unfold subsetcard_tab. now rewrite number_fst. Qed.

Theorem subsetcard_T1 a adj R eq :
  irs_hold a (subsetcard_ir adj R eq) = true <-> subsetcard_labelling adj R eq (subsetcard_sel a adj).
Proof.
  unfold subsetcard_ir, subsetcard_labelling, subsetcard_sel. cbv zeta.
  rewrite irs_hold_app_iff, !irs_hold_map.
  assert (A : forall (X Y X' Y' : Prop), (X <-> X') -> (Y <-> Y') -> (X /\ Y <-> X' /\ Y')) by tauto.
  apply A.
  - split.
    + intros H u Hu. specialize (H u (proj2 (In_upto u (len adj)) Hu)). unfold row_ids in H.
      destruct eq; cbn [ir_holds cop_holds] in H; rewrite count_ids_where in H by apply subsetcard_tab_pos;
        rewrite subsetcard_len_ids in H; unfold deg_in in *; lia.
    + intros H u Hu. apply In_upto in Hu. specialize (H u Hu). unfold row_ids.
      destruct eq; cbn [ir_holds cop_holds]; rewrite count_ids_where by apply subsetcard_tab_pos;
        rewrite subsetcard_len_ids; unfold deg_in in *; lia.
  - split.
    + intros H v Hv. specialize (H v (proj2 (In_upto v R) Hv)). unfold col_ids in H.
      destruct eq; cbn [ir_holds cop_holds] in H; rewrite count_ids_where in H by apply subsetcard_tab_pos;
        rewrite subsetcard_len_ids in H; unfold deg_in in *; lia.
    + intros H v Hv. apply In_upto in Hv. specialize (H v Hv). unfold col_ids.
      destruct eq; cbn [ir_holds cop_holds]; rewrite count_ids_where by apply subsetcard_tab_pos;
        rewrite subsetcard_len_ids; unfold deg_in in *; lia.
Qed.

(* ---------- T2 and uniqueness ---------- *)
Lemma bip_wf_NoDup adj R : bip_wf adj R = true -> NoDup (bip_index adj).
Proof.
  unfold bip_wf. rewrite forallb_forall. intros H. apply NoDup_bip_rows. intros vs Hvs.
  specialize (H vs Hvs). apply andb_true_iff in H as [H _]. apply strictly_increasing_spec, H.
Qed.

Theorem subsetcard_T2 adj R eq (obj : Z * Z -> bool) :
  subsetcard_labelling adj R eq (filter obj (bip_index adj)) ->
  exists a, irs_hold a (subsetcard_ir adj R eq) = true /\ subsetcard_sel a adj = filter obj (bip_index adj).
Proof.
  intros HP. exists (enc (subsetcard_tab adj) obj).
  assert (E : subsetcard_sel (enc (subsetcard_tab adj) obj) adj = filter obj (bip_index adj)).
  { unfold subsetcard_sel. rewrite sel_enc by apply number_NoDup_snd. unfold subsetcard_tab. now rewrite number_fst. }
  split; [|exact E]. apply subsetcard_T1. now rewrite E.
Qed.

Theorem subsetcard_unique a b adj R : bip_wf adj R = true ->
  (forall e, In e (subsetcard_sel a adj) <-> In e (subsetcard_sel b adj)) ->
  forall v, 1 <= v <= subsetcard_numvar adj -> a v = b v.
Proof.
  intros Hwf H v Hv. unfold subsetcard_numvar in Hv.
  destruct (number_surj (bip_index adj) 0 v ltac:(lia)) as [x Hx].
  assert (NoDup (map fst (subsetcard_tab adj))) as Hnd
    by (unfold subsetcard_tab; rewrite number_fst; now apply (bip_wf_NoDup adj R)).
  apply (sel_inj a b (subsetcard_tab adj) Hnd H (x, v) Hx).
Qed.

Corollary subsetcard_sat_iff_exists adj R eq : bip_wf adj R = true ->
  ((exists a, irs_hold a (subsetcard_ir adj R eq) = true) <->
   exists obj, subsetcard_labelling adj R eq (filter obj (bip_index adj))).
Proof.
  intros Hwf. split.
  - intros [a Ha]. apply subsetcard_T1 in Ha. exists (fun x => existsb (pair_eqb x) (subsetcard_sel a adj)).
    assert (NoDup (map fst (subsetcard_tab adj))) as Hnd
      by (unfold subsetcard_tab; rewrite number_fst; now apply (bip_wf_NoDup adj R)).
    pose proof (sel_as_filter pair_eqb a (subsetcard_tab adj) pair_eqb_spec Hnd) as E.
    unfold subsetcard_tab in E at 3. rewrite number_fst in E. unfold subsetcard_sel in *. now rewrite <- E.
  - intros [obj Hb]. destruct (subsetcard_T2 adj R eq obj Hb) as [a [Ha _]]. eauto.
Qed.

Lemma subsetcard_in_range adj R eq : irs_in_range (subsetcard_numvar adj) (subsetcard_ir adj R eq).
Proof.
  unfold subsetcard_ir, subsetcard_numvar. cbv zeta.
  apply irs_in_range_app; apply irs_in_range_map; intros y x _ Hx; destruct eq; cbn [ir_lits] in Hx;
    now apply ids_where_range in Hx.
Qed.
