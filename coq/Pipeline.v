(* Pipeline.v -- whole-program model of the command line tool `cnfgen`:
   argv -> bytes written to standard output.  Definitions only.

   Models (the tree in /repo as it is now, CPython 3.12.1 and its argparse)
     cnfgen/clitools/cnfgen.py      cli(): parse_command_line (split around -T, first chunk to the formula
                                    parser, the others to the transformation parser), the two "did not pick"
                                    checks, build_formula, the transform_cnf loop (left to right), to_file
     cnfgen/clitools/cmdline.py     positive_int, nonnegative_int, positive_even_int, compose_two_parsers
     cnfgen/clihelpers/*.py         setup_command_line / build_formula of
                                      php bphp rphp count parity cliquecoloring op ram vdw ptn cpls and or true false
                                      kcolor ec tiling matching kclique kcliquebin domset tseitin subsetcard peb stone
                                      (and php / op on a graph argument);
                                    setup_command_line / transform_cnf of none flip ite or xor eq neq maj one
                                    lift atleast atmost exact anybut
     cnfgen/clitools/graph_args.py  the graph argument: PipelineGraph.v (GraphSpec.v + deterministic GraphGen.v)
     argparse (3.12.1)              _parse_optional (classification of a token as option 'O' or argument 'A'),
                                    _parse_known_args (alternation of consume_optional / consume_positionals,
                                    mutually exclusive groups, extras => "unrecognized arguments",
                                    "the following arguments are required")
                                    restricted to the TOKEN GRAMMAR below
     cnfgen/formula/basecnf.py, cnfio.py, utils/parsedimacs.py, utils/opb.py
                                    to_file -> Dimacs.print_dimacs / OpbText.print_opb (header: PipelineHeader.v)

   The argument of [cnfgen_main] is sys.argv[1:] (the program name is not part of it).

   TOKEN GRAMMAR (anything else gives POutside: the model claims nothing)
     * every character of every token is ASCII (code < 128) (checked chunk by chunk, in parsing order);
     * before the formula name only the exact tokens  -q --quiet -v --verbose  (any number of them) and
       -of / --output-format followed by dimacs or opb (latex is outside);
     * a token starting with "-" after a formula / transformation name is
         - an exact option string of that sub-command that takes no argument (php: --functional --onto;
           op: --total -t --smart -s --knuth2 --knuth3 --plant -p; kclique: --no-symmetry-breaking;
           domset: --alternative -a; subsetcard: --equal -e), or
         - "-" followed by decimal digits only (argparse reads it as an argument: a negative number), or
         - "--x..." that is not a prefix of any long option of the main parser, of the sub-command or of
           --help, and contains neither "=" nor a blank  (argparse: unknown option => error at the end), or
         - "-c" for one letter c that is no short option of the sub-command nor -h (unknown option);
       any other such token (abbreviated options, -h/--help, "--", "-", joined short options, "=" forms,
       options with an argument such as stone --sparse) is outside;
     * the first token of a -T chunk does not start with "-";
     * formula names pitfall randkcnf randkxor (random) and dimacs iso ramlb subgraph (files / not modelled) are
       outside; `php M N D` with D <> N, `op N d`, `tseitin N [d]`, `subsetcard N [d]` (random graphs) and the random
       charges of tseitin are outside; graph arguments other than the deterministic constructions
       (PipelineGraph.v) are outside; transformation names shuffle xorcomp majcomp are outside.
   Inside the grammar the result is POut text (exit status 0, exactly these bytes on standard output) or
   PCliError (CLIError: message on the error stream, exit status 255, nothing on standard output).
   PCrash would be an exception that is neither CLIError nor caught by main(): Prop_C17_pipeline.v proves
   that no argv reaches it.

   int(token) and float(token) are GraphSpec.gs_int / gs_float_ok.  Integers are unbounded (a run of the real
   tool on huge numbers is a matter of memory and time, not of this model).
   [cnfgen_main] is the program under -q (without -q: POutside); PipelineHeader.cnfgen_main_env adds the comment
   header, whose only part that is not a function of argv is the version of the installation.

   Identifiers are prefixed pl_ (single extracted OCaml module). *)
From Coq Require Import ZArith List Bool Ascii String.
From Cnfgen Require Import Sem Comb Linear IR Text Dimacs OpbText Cli GraphSpec GraphIO Subst FamTab FamFast
     Fam_php Fam_count Fam_cliquecol Fam_subsetcard C02Common Fam_tseitin Fam_coloring Fam_domset Fam_subgraph
     C03_Util Fam_ordering Fam_ramsey Fam_cpls Fam_pebbling PipelineGraph.
Import ListNotations.
Open Scope Z_scope.

(* ------------------------------------------------------------------ *)
(* results                                                             *)
(* ------------------------------------------------------------------ *)
(* the formula object handed to to_file: number of variables and clauses in order *)
Inductive pl_fres :=
| FrOk (n : Z) (F : cnf)
| FrErr            (* CLIError / ValueError turned into a command line error *)
| FrCrash          (* any other exception *)
| FrOutside.

Inductive pipeline_result :=
| POut (t : text)
| PCliError
| PCrash
| POutside.

(* ------------------------------------------------------------------ *)
(* tokens                                                              *)
(* ------------------------------------------------------------------ *)
Definition pl_dash : ascii := "-"%char.
Definition pl_is_ascii (t : text) : bool := forallb (fun c => code c <? 128) t.
Definition pl_all_digits (t : text) : bool := nonempty t && forallb is_digit t.
Definition pl_is_letter (c : ascii) : bool :=
  let n := code c in ((65 <=? n) && (n <=? 90)) || ((97 <=? n) && (n <=? 122)).
Fixpoint pl_prefix (p s : text) : bool :=
  match p, s with
  | [], _ => true
  | _ :: _, [] => false
  | x :: p', y :: s' => Ascii.eqb x y && pl_prefix p' s'
  end.
Definition pl_has_char (c : ascii) (t : text) : bool := existsb (Ascii.eqb c) t.
Definition pl_starts_dash (t : text) : bool :=
  match t with c :: _ => Ascii.eqb c pl_dash | [] => false end.

(* long option strings of the main parser (cnfgen.py: setup_command_line_parsers) *)
Definition pl_main_longs : list text :=
  [lit "--help"; lit "--version"; lit "--tutorial"; lit "--help-graph"; lit "--help-bipartite"; lit "--help-dag";
   lit "--output"; lit "--output-format"; lit "--latex"; lit "--seed"; lit "--verbose"; lit "--quiet"; lit "--varnames"].

Inductive pl_class :=
| PlPos (t : text)      (* 'A' *)
| PlFlag (t : text)     (* 'O', an option of the sub-command that takes no argument *)
| PlUnknown             (* 'O' with no action: ends in "unrecognized arguments" *)
| PlOut.                (* outside the grammar *)

(* argparse._parse_optional of the main parser and of the sub-command parser, on the grammar.
   flags: the exact option strings of the sub-command that take no argument (other than -h/--help);
   longs: its other long option strings (options with an argument: outside) *)
Definition pl_classify_gen (flags longs : list text) (t : text) : pl_class :=
  match t with
  | [] => PlPos t
  | c :: r =>
    if negb (Ascii.eqb c pl_dash) then PlPos t
    else if gs_mem t flags then PlFlag t
    else if gs_mem t longs then PlOut
    else if pl_all_digits r then PlPos t
    else
      match r with
      | [] => PlOut
      | c2 :: r2 =>
        if Ascii.eqb c2 pl_dash then
          if gs_is_nil r2 then PlOut
          else if pl_has_char "="%char t || pl_has_char " "%char t then PlOut
          else if existsb (pl_prefix t) (lit "--help" :: pl_main_longs ++ flags ++ longs) then PlOut
          else PlUnknown
        else if gs_is_nil r2 && pl_is_letter c2 && negb (gs_teqb t (lit "-h")) then PlUnknown
        else PlOut
      end
  end.

Definition pl_classify (flags : list text) (t : text) : pl_class := pl_classify_gen flags [] t.

Definition pl_is_out (c : pl_class) : bool := match c with PlOut => true | _ => false end.
Definition pl_is_unknown (c : pl_class) : bool := match c with PlUnknown => true | _ => false end.
Definition pl_is_pos (c : pl_class) : bool := match c with PlPos _ => true | _ => false end.
Definition pl_flags_of (cls : list pl_class) : list text :=
  flat_map (fun c => match c with PlFlag f => [f] | _ => [] end) cls.
Definition pl_has_flag (f : String.string) (cls : list pl_class) : bool := gs_mem (lit f) (pl_flags_of cls).

(* the leading run of arguments, and what follows it *)
Fixpoint pl_take_run (cls : list pl_class) : list text * list pl_class :=
  match cls with
  | PlPos t :: r => let x := pl_take_run r in (t :: fst x, snd x)
  | _ => ([], cls)
  end.
Fixpoint pl_drop_options (cls : list pl_class) : list pl_class :=
  match cls with
  | [] => []
  | c :: r => if pl_is_pos c then cls else pl_drop_options r
  end.
(* a parser whose only positional has nargs='*': consume_positionals gives it the FIRST maximal run of
   arguments (the empty list when there is none); arguments after a later option are extras.
   None = extras *)
Definition pl_star (cls : list pl_class) : option (list text) :=
  let x := pl_take_run (pl_drop_options cls) in
  if existsb pl_is_pos (snd x) then None else Some (fst x).

(* the maximal runs of arguments (separated by options) *)
Fixpoint pl_runs_aux (cur : list text) (cls : list pl_class) : list (list text) :=
  match cls with
  | [] => match cur with [] => [] | _ => [rev cur] end
  | PlPos t :: r => pl_runs_aux (t :: cur) r
  | _ :: r => match cur with [] => pl_runs_aux [] r | _ => rev cur :: pl_runs_aux [] r end
  end.
Definition pl_runs (cls : list pl_class) : list (list text) := pl_runs_aux [] cls.
(* positionals [x (one argument); G (nargs='+')]: consume_positionals matches as many positionals as the run in
   front of it allows: x and G from one run of >= 2 arguments, or x from a run of one and G from the next run;
   anything else leaves a positional without arguments or arguments without a positional *)
Definition pl_one_plus (cls : list pl_class) : option (text * list text) :=
  match pl_runs cls with
  | [a :: b :: r] => Some (a, b :: r)
  | [[a]; b :: r] => Some (a, b :: r)
  | _ => None
  end.
(* positionals [G (nargs='+')] *)
Definition pl_plus (cls : list pl_class) : option (list text) :=
  match pl_runs cls with
  | [a :: r] => Some (a :: r)
  | _ => None
  end.

(* ------------------------------------------------------------------ *)
(* abstract commands                                                   *)
(* ------------------------------------------------------------------ *)
Inductive pl_fcmd :=
| FcPhp (m n : Z) (functional onto : bool)
| FcBphp (m n : Z)
| FcRphp (p r h : Z)
| FcCount (M p : Z)                 (* parity N = count N 2 *)
| FcCliqueCol (n k c : Z)
| FcOp (n : Z) (total smart plant : bool) (knuth : Z)
| FcRam (s k N : Z)
| FcVdw (N : Z) (ks : list Z)
| FcPtn (N : Z)
| FcCpls (a b c : Z)
| FcAnd (p n : Z)
| FcOr (p n : Z)
| FcTrue
| FcFalse
(* with a graph argument: simple graphs as (order, sorted edge list u < v), bipartite graphs as the lists of right
   neighbours and the number of right vertices, dags as predecessor lists *)
| FcKcolor (k n : Z) (E : list (Z * Z))
| FcEc (n : Z) (E : list (Z * Z))
| FcTiling (n : Z) (E : list (Z * Z))
| FcMatching (n : Z) (E : list (Z * Z))
| FcKclique (k : Z) (symbreak : bool) (n : Z) (E : list (Z * Z))
| FcKcliquebin (k n : Z) (E : list (Z * Z))
| FcDomset (d : Z) (alternative : bool) (n : Z) (E : list (Z * Z))
| FcTseitin (ch : option (list bool)) (n : Z) (E : list (Z * Z))
| FcGphp (adj : list (list Z)) (R : Z) (functional onto : bool)
| FcSubsetcard (adj : list (list Z)) (R : Z) (equalities : bool)
| FcGop (nb : list (list Z)) (total smart plant : bool) (knuth : Z)
| FcPeb (D : list (list Z))
| FcStone (s : Z) (D : list (list Z)).

Inductive pl_tcmd :=
| TcNone | TcFlip | TcIte
| TcXor (k : Z) | TcOr (k : Z) | TcEq (k : Z) | TcNeq (k : Z) | TcMaj (k : Z) | TcOne (k : Z) | TcLift (k : Z)
| TcLin (o : cop) (N K : Z).        (* atleast >=, atmost <=, exact ==, anybut != *)

(* ------------------------------------------------------------------ *)
(* sub-command parsers                                                 *)
(* ------------------------------------------------------------------ *)
(* a sub-command whose parser has only positionals with a type function (and -h):
   tys = the required ones, rest = the type of a trailing nargs='*' positional *)
Definition pl_fixed (tys : list argty) (rest : option argty) (toks : list text) : pl_parsed (list Z) :=
  let cls := map (pl_classify []) toks in
  if existsb pl_is_out cls then PlOutside
  else if existsb pl_is_unknown cls then PlErr
  else match check_args tys rest (map gs_int toks) with
       | Some zs => PlOk zs
       | None => PlErr
       end.

(* [int(x) for x in values] *)
Fixpoint pl_ints (ts : list text) : option (list Z) :=
  match ts with
  | [] => Some []
  | t :: r => match gs_int t, pl_ints r with
              | Some z, Some zs => Some (z :: zs)
              | _, _ => None
              end
  end.

Definition pl_map_parsed {A B} (f : A -> B) (x : pl_parsed A) : pl_parsed B :=
  match x with PlOk a => PlOk (f a) | PlErr => PlErr | PlOutside => PlOutside end.
(* ValueError raised while build_formula runs is the same command line error as one raised while parsing;
   [mk] returns None for it *)
Definition pl_bind_parsed {A B} (x : pl_parsed A) (f : A -> pl_parsed B) : pl_parsed B :=
  match x with PlOk a => f a | PlErr => PlErr | PlOutside => PlOutside end.

Definition pl_php_flags : list text := [lit "--functional"; lit "--onto"].
(* php_helpers.py: PHPArgs + PHPCmdHelper.build_formula *)
Definition pl_parse_php (toks : list text) : pl_parsed pl_fcmd :=
  let cls := map (pl_classify pl_php_flags) toks in
  if existsb pl_is_out cls then PlOutside
  else
    let f := pl_has_flag "--functional" cls in
    let o := pl_has_flag "--onto" cls in
    match pl_star cls with
    | None => PlErr                                        (* unrecognized arguments *)
    | Some [] => PlErr                                     (* php formula needs <pigeons> <holes> specification *)
    | Some (v0 :: vs) =>
      if negb (gs_float_ok v0) then                        (* a bipartite graph specification: innerparser, B nargs='+' *)
        match plg_graph_arg GSBipartite (v0 :: vs) with
        | PlOk G => if existsb pl_is_unknown cls then PlErr
                    else PlOk (FcGphp (plg_adj (io_n G) (io_edges G)) (io_r G) f o)
        | PlErr => PlErr
        | PlOutside => PlOutside
        end
      else if (3 <? len (v0 :: vs)) then PlErr             (* too many arguments *)
      else match pl_ints (v0 :: vs) with
           | None => PlErr
           | Some zs =>
             if existsb (fun z => z <? 0) zs then PlErr
             else if existsb pl_is_unknown cls then PlErr
             else match zs with
                  | [n] => PlOk (FcPhp (n + 1) n f o)
                  | [m; n] => PlOk (FcPhp m n f o)
                  | [m; n; d] => if n <? d then PlErr
                                 else if n =? d then PlOk (FcPhp m n f o)
                                 else PlOutside            (* bipartite_random_left_regular *)
                  | _ => PlErr
                  end
           end
    end.

Definition pl_op_flags : list text :=
  [lit "--total"; lit "-t"; lit "--smart"; lit "-s"; lit "--knuth2"; lit "--knuth3"; lit "--plant"; lit "-p"].
(* ordering_helpers.py: mutually exclusive group {total, smart, knuth2, knuth3}; compose_two_parsers *)
Definition pl_parse_op (toks : list text) : pl_parsed pl_fcmd :=
  let cls := map (pl_classify pl_op_flags) toks in
  if existsb pl_is_out cls then PlOutside
  else
    let total := pl_has_flag "--total" cls || pl_has_flag "-t" cls in
    let smart := pl_has_flag "--smart" cls || pl_has_flag "-s" cls in
    let k2 := pl_has_flag "--knuth2" cls in
    let k3 := pl_has_flag "--knuth3" cls in
    let plant := pl_has_flag "--plant" cls || pl_has_flag "-p" cls in
    let chosen := (if total then 1 else 0) + (if smart then 1 else 0) + (if k2 then 1 else 0) + (if k3 then 1 else 0) in
    match pl_star cls with
    | None => PlErr
    | Some [] => PlErr                                     (* requires some arguments *)
    | Some (v0 :: vs) =>
      if negb (gs_float_ok v0) then                        (* a graph specification: gopparser, G nargs='+' *)
        match plg_graph_arg GSSimple (v0 :: vs) with
        | PlOk G => if (1 <? chosen) || existsb pl_is_unknown cls then PlErr
                    else PlOk (FcGop (plg_nbrs (io_n G) (io_edges G)) total smart plant (if k2 then 2 else if k3 then 3 else 0))
        | PlErr => PlErr
        | PlOutside => PlOutside
        end
      else match v0 :: vs with
           | [tn] =>
             match gs_int tn with
             | None => PlErr
             | Some n => if (1 <? chosen) || existsb pl_is_unknown cls then PlErr
                         else PlOk (FcOp n total smart plant (if k2 then 2 else if k3 then 3 else 0))
             end
           | [tn; td] =>
             match gs_int tn, gs_int td with
             | Some n, Some d => if (1 <? chosen) || existsb pl_is_unknown cls then PlErr
                                 else if (n * d) mod 2 =? 1 then PlErr
                                 else PlOutside            (* gnd N d: a random regular graph *)
             | _, _ => PlErr
             end
           | _ => PlErr
           end
    end.

(* ---- sub-commands with a graph argument ---- *)
(* positionals [G]: ec tiling matching (simple), peb (dag) *)
Definition pl_parse_graph_only (g : gs_gtype) (mk : iograph -> pl_fcmd) (toks : list text) : pl_parsed pl_fcmd :=
  let cls := map (pl_classify []) toks in
  if existsb pl_is_out cls then PlOutside
  else if existsb pl_is_unknown cls then PlErr
  else match pl_plus cls with
       | None => PlErr
       | Some vs => pl_map_parsed mk (plg_graph_arg g vs)
       end.

(* positionals [x (type function); G], options that take no argument [flags], other options [longs] *)
Definition pl_parse_int_graph (flags longs : list text) (ty : argty) (g : gs_gtype)
           (mk : list pl_class -> Z -> iograph -> pl_fcmd) (toks : list text) : pl_parsed pl_fcmd :=
  let cls := map (pl_classify_gen flags longs) toks in
  if existsb pl_is_out cls then PlOutside
  else if existsb pl_is_unknown cls then PlErr
  else match pl_one_plus cls with
       | None => PlErr
       | Some (tx, vs) =>
         match gs_int tx with
         | None => PlErr
         | Some x => if argty_ok ty x then pl_map_parsed (mk cls x) (plg_graph_arg g vs) else PlErr
         end
       end.

(* counting_helpers.py: TseitinCmdHelper: compose_two_parsers(shortcut N [d], longform <charge> <graph>) *)
Definition pl_charge (name : text) (n : Z) : option (option (list bool)) :=
  if n <? 1 then Some None                                 (* G.order() < 1: charge = None *)
  else if gs_teqb name (lit "first") then Some (Some (true :: repeat false (Z.to_nat (n - 1))))
  else if gs_teqb name (lit "zero") then Some (Some (repeat false (Z.to_nat n)))
  else if gs_teqb name (lit "one") then Some (Some (repeat true (Z.to_nat n)))
  else None.
Definition pl_charge_names : list text :=
  [lit "first"; lit "random"; lit "randomodd"; lit "randomeven"; lit "zero"; lit "one"].
Definition pl_parse_tseitin (toks : list text) : pl_parsed pl_fcmd :=
  let cls := map (pl_classify []) toks in
  if existsb pl_is_out cls then PlOutside
  else if existsb pl_is_unknown cls then PlErr
  else match pl_star cls with
       | None => PlErr
       | Some [] => PlErr                                  (* requires some arguments *)
       | Some (v0 :: vs) =>
         if gs_float_ok v0 then PlOutside                  (* tseitin N [d]: random regular graph, random charge *)
         else if negb (gs_mem v0 pl_charge_names) then PlErr   (* invalid choice *)
         else match vs with
              | [] => PlErr                                (* the following arguments are required: <graph> *)
              | _ =>
                match plg_graph_arg GSSimple vs with
                | PlOk G => match pl_charge v0 (io_n G) with
                            | Some ch => PlOk (FcTseitin ch (io_n G) (io_edges G))
                            | None => PlOutside            (* random charges *)
                            end
                | PlErr => PlErr
                | PlOutside => PlOutside
                end
              end
       end.

Definition pl_sc_flags : list text := [lit "--equal"; lit "-e"].
(* counting_helpers.py: SCCmdHelper: compose_two_parsers(N [d] -> random regular graph, <bipartite>) *)
Definition pl_parse_subsetcard (toks : list text) : pl_parsed pl_fcmd :=
  let cls := map (pl_classify pl_sc_flags) toks in
  if existsb pl_is_out cls then PlOutside
  else if existsb pl_is_unknown cls then PlErr
  else
    let eq := pl_has_flag "--equal" cls || pl_has_flag "-e" cls in
    match pl_star cls with
    | None => PlErr
    | Some [] => PlErr
    | Some (v0 :: vs) =>
      if gs_float_ok v0 then PlOutside
      else pl_map_parsed (fun G => FcSubsetcard (plg_adj (io_n G) (io_edges G)) (io_r G) eq)
                         (plg_graph_arg GSBipartite (v0 :: vs))
    end.

Definition pl_no_args (c : pl_fcmd) (toks : list text) : pl_parsed pl_fcmd :=
  match pl_fixed [] None toks with
  | PlOk _ => PlOk c
  | PlErr => PlErr
  | PlOutside => PlOutside
  end.
Definition pl_with_ints (tys : list argty) (rest : option argty) (mk : list Z -> option pl_fcmd) (toks : list text)
  : pl_parsed pl_fcmd :=
  match pl_fixed tys rest toks with
  | PlOk zs => match mk zs with Some c => PlOk c | None => PlErr end
  | PlErr => PlErr
  | PlOutside => PlOutside
  end.

(* names of the formula sub-commands that exist but are not modelled here *)
Definition pl_other_formulas : list text :=
  [lit "dimacs"; lit "iso"; lit "pitfall"; lit "ramlb"; lit "randkcnf"; lit "randkxor"; lit "subgraph"].

Definition pl_is (name : text) (s : String.string) : bool := gs_teqb name (lit s).

Definition pl_parse_formula (name : text) (toks : list text) : pl_parsed pl_fcmd :=
  if pl_is name "php" then pl_parse_php toks
  else if pl_is name "op" then pl_parse_op toks
  else if pl_is name "bphp" then
    pl_with_ints [TPos; TPos] None (fun zs => match zs with [m; n] => Some (FcBphp m n) | _ => None end) toks
  else if pl_is name "rphp" then
    pl_with_ints [TNonNeg; TNonNeg; TNonNeg] None (fun zs => match zs with [p; r; h] => Some (FcRphp p r h) | _ => None end) toks
  else if pl_is name "count" then
    pl_with_ints [TNonNeg; TPos] None (fun zs => match zs with [M; p] => Some (FcCount M p) | _ => None end) toks
  else if pl_is name "parity" then
    pl_with_ints [TNonNeg] None (fun zs => match zs with [N] => Some (FcCount N 2) | _ => None end) toks
  else if pl_is name "cliquecoloring" then
    pl_with_ints [TNonNeg; TPos; TPos] None (fun zs => match zs with [n; k; c] => Some (FcCliqueCol n k c) | _ => None end) toks
  else if pl_is name "ram" then
    pl_with_ints [TPos; TPos; TNonNeg] None (fun zs => match zs with [s; k; N] => Some (FcRam s k N) | _ => None end) toks
  else if pl_is name "vdw" then
    pl_with_ints [TNonNeg; TPos; TPos] (Some TPos) (fun zs => match zs with N :: ks => Some (FcVdw N ks) | _ => None end) toks
  else if pl_is name "ptn" then
    pl_with_ints [TNonNeg] None (fun zs => match zs with [N] => Some (FcPtn N) | _ => None end) toks
  else if pl_is name "cpls" then
    pl_with_ints [TPos; TPos; TPos] None (fun zs => match zs with [a; b; c] => Some (FcCpls a b c) | _ => None end) toks
  else if pl_is name "and" then
    pl_with_ints [TNonNeg; TNonNeg] None (fun zs => match zs with [p; n] => Some (FcAnd p n) | _ => None end) toks
  else if pl_is name "or" then
    pl_with_ints [TNonNeg; TNonNeg] None (fun zs => match zs with [p; n] => Some (FcOr p n) | _ => None end) toks
  else if pl_is name "kcolor" then
    pl_parse_int_graph [] [] TPos GSSimple (fun _ k G => FcKcolor k (io_n G) (io_edges G)) toks
  else if pl_is name "kcliquebin" then
    pl_parse_int_graph [] [] TNonNeg GSSimple (fun _ k G => FcKcliquebin k (io_n G) (io_edges G)) toks
  else if pl_is name "kclique" then
    pl_parse_int_graph [lit "--no-symmetry-breaking"] [] TNonNeg GSSimple
      (fun cls k G => FcKclique k (negb (pl_has_flag "--no-symmetry-breaking" cls)) (io_n G) (io_edges G)) toks
  else if pl_is name "domset" then
    pl_parse_int_graph [lit "--alternative"; lit "-a"] [] TPos GSSimple
      (fun cls d G => FcDomset d (pl_has_flag "--alternative" cls || pl_has_flag "-a" cls) (io_n G) (io_edges G)) toks
  else if pl_is name "stone" then
    pl_parse_int_graph [] [lit "--sparse"] TPos GSDag (fun _ s G => FcStone s (plg_preds (io_n G) (io_edges G))) toks
  else if pl_is name "ec" then pl_parse_graph_only GSSimple (fun G => FcEc (io_n G) (io_edges G)) toks
  else if pl_is name "tiling" then pl_parse_graph_only GSSimple (fun G => FcTiling (io_n G) (io_edges G)) toks
  else if pl_is name "matching" then pl_parse_graph_only GSSimple (fun G => FcMatching (io_n G) (io_edges G)) toks
  else if pl_is name "peb" then pl_parse_graph_only GSDag (fun G => FcPeb (plg_preds (io_n G) (io_edges G))) toks
  else if pl_is name "tseitin" then pl_parse_tseitin toks
  else if pl_is name "subsetcard" then pl_parse_subsetcard toks
  else if pl_is name "true" then pl_no_args FcTrue toks
  else if pl_is name "false" then pl_no_args FcFalse toks
  else if gs_mem name pl_other_formulas then PlOutside
  else PlErr.                                              (* invalid choice *)

Definition pl_other_transformations : list text := [lit "shuffle"; lit "xorcomp"; lit "majcomp"].

Definition pl_parse_transformation (name : text) (toks : list text) : pl_parsed pl_tcmd :=
  let one (mk : Z -> pl_tcmd) :=
    match pl_fixed [TPos] None toks with
    | PlOk [k] => PlOk (mk k) | PlOk _ => PlErr | PlErr => PlErr | PlOutside => PlOutside
    end in
  let two (o : cop) :=
    match pl_fixed [TPos; TPos] None toks with
    | PlOk [N; K] => PlOk (TcLin o N K) | PlOk _ => PlErr | PlErr => PlErr | PlOutside => PlOutside
    end in
  let zero (c : pl_tcmd) :=
    match pl_fixed [] None toks with
    | PlOk _ => PlOk c | PlErr => PlErr | PlOutside => PlOutside
    end in
  if pl_is name "none" then zero TcNone
  else if pl_is name "flip" then zero TcFlip
  else if pl_is name "ite" then zero TcIte
  else if pl_is name "xor" then one TcXor
  else if pl_is name "or" then one TcOr
  else if pl_is name "eq" then one TcEq
  else if pl_is name "neq" then one TcNeq
  else if pl_is name "maj" then one TcMaj
  else if pl_is name "one" then one TcOne
  else if pl_is name "lift" then one TcLift
  else if pl_is name "atleast" then two CGe
  else if pl_is name "atmost" then two CLe
  else if pl_is name "exact" then two CEq
  else if pl_is name "anybut" then two CNe
  else if gs_mem name pl_other_transformations then PlOutside
  else PlErr.

(* ------------------------------------------------------------------ *)
(* the two top-level parsers                                           *)
(* ------------------------------------------------------------------ *)
Record pl_opts := mk_pl_opts { pl_quiet : bool; pl_opb : bool }.

(* options of the main parser in front of the formula name: the mutually exclusive group
   {--verbose/-v, --quiet/-q}, and --output-format/-of with its argument (choices latex dimacs opb; the last one
   given wins).  Returns the options and, when a formula name follows, the parsed command *)
Fixpoint pl_parse_main (seen_q seen_v opb : bool) (toks : list text) : pl_parsed (pl_opts * option pl_fcmd) :=
  match toks with
  | [] => PlOk (mk_pl_opts seen_q opb, None)               (* no generator: reported after all chunks are parsed *)
  | t :: r =>
    if gs_teqb t (lit "-q") || gs_teqb t (lit "--quiet") then
      if seen_v then PlErr else pl_parse_main true seen_v opb r
    else if gs_teqb t (lit "-v") || gs_teqb t (lit "--verbose") then
      if seen_q then PlErr else pl_parse_main seen_q true opb r
    else if gs_teqb t (lit "-of") || gs_teqb t (lit "--output-format") then
      match r with
      | [] => PlErr                                        (* expected one argument *)
      | f :: r' =>
        if pl_starts_dash f then PlOutside
        else if gs_teqb f (lit "dimacs") then pl_parse_main seen_q seen_v false r'
        else if gs_teqb f (lit "opb") then pl_parse_main seen_q seen_v true r'
        else if gs_teqb f (lit "latex") then PlOutside
        else PlErr                                         (* invalid choice *)
      end
    else if pl_starts_dash t then PlOutside
    else match pl_parse_formula t r with
         | PlOk c => PlOk (mk_pl_opts seen_q opb, Some c)
         | PlErr => PlErr
         | PlOutside => PlOutside
         end
  end.

(* the first chunk (sys.argv[1:] up to the first -T) *)
Definition pl_parse_chunk0 (toks : list text) : pl_parsed (pl_opts * option pl_fcmd) :=
  if negb (forallb pl_is_ascii toks) then PlOutside else pl_parse_main false false false toks.

(* one chunk after a -T *)
Definition pl_parse_tchunk (toks : list text) : pl_parsed (option pl_tcmd) :=
  if negb (forallb pl_is_ascii toks) then PlOutside
  else
  match toks with
  | [] => PlOk None                                        (* "-T" without a transformation: reported later *)
  | t :: r =>
    if pl_starts_dash t then PlOutside
    else match pl_parse_transformation t r with
         | PlOk c => PlOk (Some c)
         | PlErr => PlErr
         | PlOutside => PlOutside
         end
  end.

(* targs: the chunks are parsed in order; the first failure ends the run *)
Fixpoint pl_parse_tchunks (chunks : list (list text)) : pl_parsed (list (option pl_tcmd)) :=
  match chunks with
  | [] => PlOk []
  | c :: r =>
    match pl_parse_tchunk c with
    | PlOk t => match pl_parse_tchunks r with
                | PlOk ts => PlOk (t :: ts)
                | PlErr => PlErr
                | PlOutside => PlOutside
                end
    | PlErr => PlErr
    | PlOutside => PlOutside
    end
  end.

Record pl_cmdline := mk_pl_cmdline {
  pl_o : pl_opts;
  pl_gen : option pl_fcmd;
  pl_ts : list (option pl_tcmd)
}.

Definition pl_parse_chunks (chunks : list (list text)) : pl_parsed pl_cmdline :=
  match chunks with
  | [] => PlOutside                                        (* split_T never returns the empty list *)
  | c0 :: rest =>
    match pl_parse_chunk0 c0 with
    | PlOk (o, g) =>
      match pl_parse_tchunks rest with
      | PlOk ts => PlOk (mk_pl_cmdline o g ts)
      | PlErr => PlErr
      | PlOutside => PlOutside
      end
    | PlErr => PlErr
    | PlOutside => PlOutside
    end
  end.

(* ------------------------------------------------------------------ *)
(* build_formula                                                       *)
(* ------------------------------------------------------------------ *)
Definition pl_of_c3 (render : list ir -> cnf) (r : c3res) : pl_fres :=
  match r with
  | C3Ok nv f => FrOk nv (render f)
  | C3Err C3ValueError => FrErr
  | C3Err _ => FrCrash
  end.

(* a family model that returns None where the generator raises ValueError *)
Definition pl_of_opt (render : list ir -> cnf) (nv : Z) (o : option (list ir)) : pl_fres :=
  match o with Some l => FrOk nv (render l) | None => FrErr end.

(* simple_helpers.py: OR, AND: new_block(P), new_block(N) *)
Definition pl_or_ir (p n : Z) : list ir := [IClause (upto p ++ map (fun v => - (p + v)) (upto n))].
Definition pl_and_ir (p n : Z) : list ir :=
  map (fun v => IClause [v]) (upto p) ++ map (fun v => IClause [- (p + v)]) (upto n).

(* [render] is IR.to_cnf in every statement; the driver uses the output-identical FamFast.to_cnf_f *)
Definition pl_build_with (render : list ir -> cnf) (c : pl_fcmd) : pl_fres :=
  match c with
  | FcPhp m n f o => if php_valid m n then FrOk (php_numvar m n) (render (php_ir m n f o)) else FrErr
  | FcBphp m n => if bphp_valid m n then FrOk (bphp_numvar m n) (render (bphp_ir m n)) else FrErr
  | FcRphp p r h => if rphp_valid p r h then FrOk (rphp_numvar p r h) (render (rphp_ir p r h)) else FrErr
  | FcCount M p => if count_valid M p then FrOk (count_numvar M p) (render (count_ir M p)) else FrErr
  | FcCliqueCol n k c => if cc_valid n k c then FrOk (cc_numvar n k c) (render (cliquecol_ir n k c)) else FrErr
  | FcOp n t s p kn => pl_of_c3 render (op_formula n t s p kn)
  | FcRam s k N => pl_of_c3 render (ram_formula s k N)
  | FcVdw N ks => pl_of_c3 render (vdw_spec_formula N ks)
  | FcPtn N => pl_of_c3 render (ptn_formula N)
  | FcCpls a b c => pl_of_c3 render (cpls_formula a b c)
  | FcAnd p n => if (0 <=? p) && (0 <=? n) then FrOk (p + n) (render (pl_and_ir p n)) else FrErr
  | FcOr p n => if (0 <=? p) && (0 <=? n) then FrOk (p + n) (render (pl_or_ir p n)) else FrErr
  | FcTrue => FrOk 0 (render [])
  | FcFalse => FrOk 0 (render [IClause []])
  | FcKcolor k n E => pl_of_opt render (kcolor_numvar n k) (kcolor_ir n E k true)
  | FcEc n E => pl_of_opt render (ec_numvar E) (ec_ir n E)
  | FcTiling n E => FrOk (tiling_numvar n) (render (tiling_ir n E))
  | FcMatching n E => FrOk (matching_numvar E) (render (matching_ir n E))
  | FcKclique k sb n E => pl_of_opt render (kclique_numvar n k) (kclique_ir n E k sb)
  | FcKcliquebin k n E => pl_of_opt render (kcliquebin_numvar n k) (kcliquebin_ir n E k true)
  | FcDomset d alt n E => pl_of_opt render (domset_numvar n d) (domset_ir n E d alt)
  | FcTseitin ch n E => FrOk (tseitin_numvar E) (render (tseitin_ir n E ch))
  | FcGphp adj R f o => FrOk (gphp_numvar adj) (render (gphp_ir adj R f o))
  | FcSubsetcard adj R eq => FrOk (subsetcard_numvar adj) (render (subsetcard_ir adj R eq))
  | FcGop nb t s p kn => pl_of_c3 render (gop_formula nb t s p kn)
  | FcPeb D => pl_of_c3 render (peb_formula D)
  | FcStone s D => pl_of_c3 render (stone_formula D s)
  end.
Definition pl_build : pl_fcmd -> pl_fres := pl_build_with to_cnf.
Definition pl_build_fast : pl_fcmd -> pl_fres := pl_build_with to_cnf_f.

(* ------------------------------------------------------------------ *)
(* transform_cnf                                                       *)
(* ------------------------------------------------------------------ *)
Definition pl_of_tres (r : tres (Z * cnf)) : pl_fres :=
  match r with
  | TOk (n, F) => FrOk n F
  | TValueErr => FrErr
  end.

Definition pl_transform (t : pl_tcmd) (n : Z) (F : cnf) : pl_fres :=
  match t with
  | TcNone => FrOk n F
  | TcFlip => let r := flip_polarity_spec n F in FrOk (fst r) (snd r)
  | TcIte => let r := ite_substitution n F in FrOk (fst r) (snd r)
  | TcXor k => pl_of_tres (xor_substitution n k F)
  | TcOr k => pl_of_tres (or_substitution n k F)
  | TcEq k => pl_of_tres (all_equal_substitution n k false F)
  | TcNeq k => pl_of_tres (not_all_equal_substitution n k F)
  | TcMaj k => pl_of_tres (majority_substitution n k F)
  | TcOne k => pl_of_tres (exactly_one_substitution n k F)
  | TcLift k => pl_of_tres (formula_lifting n k F)
  | TcLin o N K => pl_of_tres (linear_substitution n N o K F)
  end.

(* for argdict in t_args: cnf = argdict.transformation.transform_cnf(cnf, argdict) *)
Definition pl_step (acc : pl_fres) (t : pl_tcmd) : pl_fres :=
  match acc with
  | FrOk n F => pl_transform t n F
  | other => other
  end.
Definition pl_chain (start : pl_fres) (ts : list pl_tcmd) : pl_fres := fold_left pl_step ts start.

Fixpoint pl_all_some {A} (l : list (option A)) : option (list A) :=
  match l with
  | [] => Some []
  | Some x :: r => option_map (cons x) (pl_all_some r)
  | None :: _ => None
  end.

(* cli() after the parsers returned *)
Definition pl_run_with (build : pl_fcmd -> pl_fres) (c : pl_cmdline) : pl_fres :=
  match pl_gen c with
  | None => FrErr                                          (* You did not tell which formula you wanted to generate *)
  | Some g =>
    match pl_all_some (pl_ts c) with
    | None => FrErr                                        (* You used option '-T' but did not pick a transformation *)
    | Some ts => pl_chain (build g) ts
    end
  end.

(* ------------------------------------------------------------------ *)
(* the whole program                                                   *)
(* ------------------------------------------------------------------ *)
Definition pl_chunks_of (argv : list String.string) : list (list text) := map (map lit) (split_T argv).

Definition pl_formula_of_chunks_with (build : pl_fcmd -> pl_fres) (chunks : list (list text)) : pl_fres :=
  match pl_parse_chunks chunks with
  | PlOk c => pl_run_with build c
  | PlErr => FrErr
  | PlOutside => FrOutside
  end.
Definition pl_formula_of_chunks := pl_formula_of_chunks_with pl_build.

(* the formula object that reaches to_file *)
Definition pl_formula (argv : list String.string) : pl_fres := pl_formula_of_chunks (pl_chunks_of argv).
Definition pl_formula_fast (argv : list String.string) : pl_fres :=
  pl_formula_of_chunks_with pl_build_fast (pl_chunks_of argv).

Definition pl_quiet_of (argv : list String.string) : bool :=
  match pl_parse_chunks (pl_chunks_of argv) with
  | PlOk c => pl_quiet (pl_o c)
  | _ => false
  end.

Definition pl_opb_of (argv : list String.string) : bool :=
  match pl_parse_chunks (pl_chunks_of argv) with
  | PlOk c => pl_opb (pl_o c)
  | _ => false
  end.

(* to_file(output, fileformat, export_header, export_varnames=False): the DIMACS writer or the OPB writer
   (a CNF object: one constraint `+1 x.. +1 ~x.. >= 1` per clause) *)
Definition pl_write (opb : bool) (h : option Dimacs.header) (n : Z) (F : cnf) : text :=
  if opb then print_opb h None (FCnf n F) else print_dimacs h None n F.

(* quiet mode: export_header=False.  Without -q the header is written: see PipelineHeader.v; here it is outside. *)
Definition pl_render (quiet opb : bool) (r : pl_fres) : pipeline_result :=
  match r with
  | FrOk n F => if quiet then POut (pl_write opb None n F) else POutside
  | FrErr => PCliError
  | FrCrash => PCrash
  | FrOutside => POutside
  end.

Definition cnfgen_main (argv : list String.string) : pipeline_result :=
  pl_render (pl_quiet_of argv) (pl_opb_of argv) (pl_formula argv).
Definition cnfgen_main_fast (argv : list String.string) : pipeline_result :=
  pl_render (pl_quiet_of argv) (pl_opb_of argv) (pl_formula_fast argv).
