(* Linear.v — model of cnfgen/formula/linear.py (CNFLinear) and of the
   constraint builders of cnfgen/formula/baseopb.py (BaseOPB, normalize_opb).
   Definitions only. *)
From Coq Require Import ZArith List Bool.
From Cnfgen Require Import Sem Comb.
Import ListNotations.
Open Scope Z_scope.

Inductive cop := CLe | CGe | CLt | CGt | CEq | CNe.

(* ---------- CNF encoding (CNFLinear.add_linear) ---------- *)

(* op '>=' : the base case of the recursion in add_linear *)
Definition add_geq (ls : list Z) (k : Z) : cnf :=
  if k <=? 0 then []
  else if k >? len ls then [[]]
  else combs ls (Z.to_nat (len ls - k + 1)).

(* op '<=' : negate the literals, '>=' len - k *)
Definition add_leq (ls : list Z) (k : Z) : cnf :=
  add_geq (map Z.opp ls) (len ls - k).

(* op '!=' : for flips in combinations(range(n),k): clause with those positions
   negated.  Written by recursion on the list: the combinations containing
   position 0 come first, exactly as itertools enumerates them. *)
Fixpoint neq_clauses (ls : list Z) (k : nat) : cnf :=
  match k with
  | O => [ls]
  | S k' => match ls with
            | [] => []
            | x :: t => map (cons (- x)) (neq_clauses t k') ++ map (cons x) (neq_clauses t (S k'))
            end
  end.

Definition add_neq (ls : list Z) (k : Z) : cnf :=
  if (k <? 0) || (k >? len ls) then [] else neq_clauses ls (Z.to_nat k).

Definition add_linear (ls : list Z) (o : cop) (k : Z) : cnf :=
  match o with
  | CGe => add_geq ls k
  | CLe => add_leq ls k
  | CLt => add_leq ls (k - 1)
  | CGt => add_geq ls (k + 1)
  | CEq => add_leq ls k ++ add_geq ls k
  | CNe => add_neq ls k
  end.

(* add_parity: signs in product([1,-1],repeat=n) whose product is the desired
   sign (+1 iff constant == 1); [want] = "the remaining signs must multiply to +1" *)
Fixpoint parity_clauses (ls : list Z) (want : bool) : cnf :=
  match ls with
  | [] => if want then [[]] else []
  | x :: t => map (cons x) (parity_clauses t want) ++ map (cons (- x)) (parity_clauses t (negb want))
  end.
Definition add_parity (ls : list Z) (constant : Z) : cnf := parity_clauses ls (constant =? 1).

Definition add_loose_majority (ls : list Z) : cnf := add_linear ls CGe ((len ls + 1) / 2).
Definition add_loose_minority (ls : list Z) : cnf := add_linear ls CLe (len ls / 2).
Definition add_strict_majority (ls : list Z) : cnf := add_linear ls CGe (len ls / 2 + 1).
Definition add_strict_minority (ls : list Z) : cnf := add_linear ls CLe ((len ls - 1) / 2).

(* arithmetic meaning of the operators *)
Definition cop_holds (o : cop) (x k : Z) : bool :=
  match o with
  | CLe => x <=? k | CGe => x >=? k | CLt => x <? k | CGt => x >? k
  | CEq => x =? k | CNe => negb (x =? k)
  end.

(* ---------- pseudo-Boolean side (baseopb.py) ---------- *)

(* normalize_opb *)
Fixpoint norm_coeffs (ts : list (Z * Z)) (v : Z) : list (Z * Z) * Z :=
  match ts with
  | [] => ([], v)
  | (c, l) :: t =>
      let '(t', v') := norm_coeffs t v in
      if c <? 0 then ((- c, - l) :: t', v' + (- c)) else ((c, l) :: t', v')
  end.

Definition normalize_opb (c : pbc) : pbc :=
  let '(o1, v1) := match pb_op c with
                   | PLt => (PLe, pb_deg c - 1)
                   | PGt => (PGe, pb_deg c + 1)
                   | o => (o, pb_deg c)
                   end in
  let '(ts2, o2, v2) := match o1 with
                        | PLe => (map (fun cl => (- fst cl, snd cl)) (pb_terms c), PGe, - v1)
                        | _ => (pb_terms c, o1, v1)
                        end in
  let '(ts3, v3) := norm_coeffs ts2 v2 in
  mkpbc ts3 o2 v3.

Definition unit_terms (ls : list Z) : list (Z * Z) := map (fun l => (1, l)) ls.
Definition opb_clause (ls : list Z) : pbc := mkpbc (unit_terms ls) PGe 1.

Definition opb_linear (ls : list Z) (o : cop) (k : Z) : list pbc :=
  match o with
  | CGe => [normalize_opb (mkpbc (unit_terms ls) PGe k)]
  | CLe => [normalize_opb (mkpbc (unit_terms ls) PLe k)]
  | CLt => [normalize_opb (mkpbc (unit_terms ls) PLt k)]
  | CGt => [normalize_opb (mkpbc (unit_terms ls) PGt k)]
  | CEq => [normalize_opb (mkpbc (unit_terms ls) PEq k)]
  | CNe => map opb_clause (add_neq ls k)
  end.
Definition opb_parity (ls : list Z) (constant : Z) : list pbc := map opb_clause (add_parity ls constant).
Definition opb_loose_majority (ls : list Z) := opb_linear ls CGe ((len ls + 1) / 2).
Definition opb_loose_minority (ls : list Z) := opb_linear ls CLe (len ls / 2).
Definition opb_strict_majority (ls : list Z) := opb_linear ls CGt (len ls / 2).
Definition opb_strict_minority (ls : list Z) := opb_linear ls CLt ((len ls + 1) / 2).
