(* IRFacts.v — the CNF and the pseudo-Boolean rendering of any list of builder
   calls have exactly the models described by the arithmetic meaning (C04 + C08). *)
From Coq Require Import ZArith List Bool Lia ZifyBool.
From Cnfgen Require Import Sem Comb Linear SemFacts LinearFacts IR.
Import ListNotations.
Open Scope Z_scope.

Lemma opb_sat_app a F G : opb_sat a (F ++ G) = opb_sat a F && opb_sat a G.
Proof. unfold opb_sat. apply forallb_app. Qed.

Lemma ir_cnf_sem a i : ir_ok i = true -> cnf_sat a (ir_cnf i) = ir_holds a i.
Proof.
  unfold ir_ok. destruct i; cbn [ir_cnf ir_holds ir_lits]; intros H.
  - rewrite cnf_sat_cons, cnf_sat_nil, andb_true_r. reflexivity.
  - now apply add_linear_sem.
  - now apply add_parity_sem.
  - apply loose_majority_sem.
  - now apply loose_minority_sem.
  - apply strict_majority_sem.
  - now apply strict_minority_sem.
Qed.

Lemma ir_opb_sem a i : ir_ok i = true -> opb_sat a (ir_opb i) = ir_holds a i.
Proof.
  unfold ir_ok. destruct i; cbn [ir_opb ir_holds ir_lits]; intros H.
  - unfold opb_sat. cbn [forallb]. rewrite andb_true_r. apply opb_clause_sem.
  - now apply opb_linear_sem.
  - rewrite <- parity_cnf_opb_agree. now apply add_parity_sem.
  - destruct (opb_majorities_agree a ls H) as [E _]. rewrite E. apply loose_majority_sem.
  - destruct (opb_majorities_agree a ls H) as [_ [E _]]. rewrite E. now apply loose_minority_sem.
  - destruct (opb_majorities_agree a ls H) as [_ [_ [E _]]]. rewrite E. apply strict_majority_sem.
  - destruct (opb_majorities_agree a ls H) as [_ [_ [_ E]]]. rewrite E. now apply strict_minority_sem.
Qed.

Theorem to_cnf_sem a l : irs_ok l = true -> cnf_sat a (to_cnf l) = irs_hold a l.
Proof.
  unfold irs_ok, irs_hold, to_cnf. induction l as [|i t IH]; intros H; [reflexivity|].
  cbn [forallb] in H. apply andb_true_iff in H as [H1 H2].
  cbn [flat_map forallb]. rewrite cnf_sat_app, ir_cnf_sem, IH by assumption. reflexivity.
Qed.

Theorem to_opb_sem a l : irs_ok l = true -> opb_sat a (to_opb l) = irs_hold a l.
Proof.
  unfold irs_ok, irs_hold, to_opb. induction l as [|i t IH]; intros H; [reflexivity|].
  cbn [forallb] in H. apply andb_true_iff in H as [H1 H2].
  cbn [flat_map forallb]. rewrite opb_sat_app, ir_opb_sem, IH by assumption. reflexivity.
Qed.

(* C08 at the level of builder calls: same models under both formula classes *)
Theorem cnf_opb_same_models a l : irs_ok l = true -> cnf_sat a (to_cnf l) = opb_sat a (to_opb l).
Proof. intros H. now rewrite to_cnf_sem, to_opb_sem. Qed.

Lemma irs_hold_app a l1 l2 : irs_hold a (l1 ++ l2) = irs_hold a l1 && irs_hold a l2.
Proof. unfold irs_hold. apply forallb_app. Qed.
Lemma irs_ok_app l1 l2 : irs_ok (l1 ++ l2) = irs_ok l1 && irs_ok l2.
Proof. unfold irs_ok. apply forallb_app. Qed.
Lemma irs_hold_clauses a F : irs_hold a (map IClause F) = cnf_sat a F.
Proof. unfold irs_hold, cnf_sat. rewrite forallb_map. reflexivity. Qed.
Lemma to_cnf_clauses F : to_cnf (map IClause F) = F.
Proof. unfold to_cnf. induction F as [|c t IH]; [reflexivity|]. cbn. now rewrite IH. Qed.
Lemma to_cnf_app l1 l2 : to_cnf (l1 ++ l2) = to_cnf l1 ++ to_cnf l2.
Proof. unfold to_cnf. apply flat_map_app. Qed.
