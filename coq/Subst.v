(* Subst.v — model of cnfgen/transformations/substitutions.py.  Definitions only.

   Modelled functions: apply_substitution, FlipPolarity, XorSubstitution,
   ExactlyOneSubstitution, LinearSubstitution (and AtLeastK/AtMostK/ExactlyK/
   AnythingButK), MajoritySubstitution, AllEqualSubstitution(invert),
   NotAllEqualSubstitution, OrSubstitution, IfThenElseSubstitution,
   FormulaLifting, VariableCompression.

   A formula is (N, F): N = F.number_of_variables(), F = the clause list; the
   result of a transformation is (numvar, clause list) in the order the code
   emits clauses, or TValueErr where the code raises ValueError.

   Abstracted:
   - headers, variable labels and the variable-group objects of the new
     formula (only the variable COUNT that new_block/new_variable/
     update_variable_number/add_clause(check=True) produce is modelled:
     `numvar_add`);
   - the table `substitutions[lit]` (a cache of subst(lit) for |lit| <= N, read
     with Python's negative indexing) is modelled by calling the gadget
     directly: equal for every clause list whose literals are within 1..N in
     absolute value, the invariant of CNF objects built with check=True;
   - `temp = CNF(); temp.add_...(nvars); list(temp)` is the clause list of the
     builder of Linear.v;
   - a bipartite graph is (R, adj): R = right_order(), adj = the list, for the
     left vertices 1..L in order, of right_neighbors(u) (sorted by cnfgen);
   - non-integer arities / constants (TypeError) are outside the model's types;
   - AndSubstitution (not reachable from the command line, not in C05) is not
     modelled. *)
From Coq Require Import ZArith List Bool.
From Cnfgen Require Import Sem Comb Linear.
Import ListNotations.
Open Scope Z_scope.

Inductive tres (A : Type) : Type :=
| TOk (x : A)
| TValueErr.
Arguments TOk {A} x.
Arguments TValueErr {A}.

(* ---------- apply_substitution ---------- *)

(* for clause in formula: domains = [subst(lit) for lit in clause];
   for clause_tuple in itertools.product of the domains: yield the concatenation *)
Definition subst_clause (g : Z -> cnf) (c : list Z) : cnf :=
  map (@concat Z) (prod (map g c)).
Definition apply_subst (F : cnf) (g : Z -> cnf) : cnf :=
  flat_map (subst_clause g) F.

(* numvar after add_clauses_from(out, check=True) on a formula with n variables *)
Definition numvar_add (n : Z) (out : cnf) : Z := Z.max n (max_var out).

(* nvars = [(abs(lit)-1)*k + i for i in range(1,k+1)] *)
Definition subst_block (k v : Z) : list Z :=
  map (fun i => (v - 1) * k + i) (zrange 1 (k + 1)).

Definition polarity (l : Z) : Z := if l >? 0 then 1 else 0.

(* the common frame: positive_int(k); new_block(k) once per variable; add clauses *)
Definition block_subst (N k : Z) (F : cnf) (g : Z -> cnf) : tres (Z * cnf) :=
  if k <? 1 then TValueErr
  else let out := apply_subst F g in TOk (numvar_add (k * N) out, out).

(* ---------- gadgets ---------- *)

Definition flip_gadget (l : Z) : cnf := [[- l]].

Definition xorify (k l : Z) : cnf := add_parity (subst_block k (Z.abs l)) (polarity l).

(* for i: nvars[i] *= -1; add_clause(nvars); nvars[i] *= -1 *)
Fixpoint flip_each (ls : list Z) : cnf :=
  match ls with
  | [] => []
  | x :: t => (- x :: t) :: map (cons x) (flip_each t)
  end.
Definition oneify (k l : Z) : cnf :=
  let nv := subst_block k (Z.abs l) in
  if l >? 0 then add_linear nv CEq 1 else flip_each nv.

(* opchoices = ['==','<','>','<=','>=','!=']; negop = opchoices[-i-1] *)
Definition negop (o : cop) : cop :=
  match o with
  | CEq => CNe | CLt => CGe | CGt => CLe | CLe => CGt | CGe => CLt | CNe => CEq
  end.
Definition linear_gadget (k : Z) (o : cop) (C : Z) (l : Z) : cnf :=
  add_linear (subst_block k (Z.abs l)) (if l >? 0 then o else negop o) C.

Definition majorify (k l : Z) : cnf :=
  let nv := subst_block k (Z.abs l) in
  if l >? 0 then add_loose_majority nv else add_strict_minority nv.

(* [[-nvars[i-1], nvars[i]] for i in range(1,len(nvars))] *)
Fixpoint chain (ls : list Z) : cnf :=
  match ls with
  | x :: t => match t with
              | y :: _ => [- x; y] :: chain t
              | [] => []
              end
  | [] => []
  end.
Definition aesubst (k : Z) (invert : bool) (l : Z) : cnf :=
  let nv := subst_block k (Z.abs l) in
  let l' := if invert then - l else l in
  if l' >? 0 then [hd 0 nv; - last nv 0] :: chain nv
  else [nv; map Z.opp nv].

Definition orify (k l : Z) : cnf :=
  let nv := subst_block k (Z.abs l) in
  if l >? 0 then [nv] else map (fun v => [- v]) nv.

(* var = abs(lit); sign = lit//var *)
Definition ite_gadget (N l : Z) : cnf :=
  let v := Z.abs l in
  let s := l / v in
  [[- v; s * (N + v)]; [v; s * (2 * N + v)]].

Definition lift_gadget (k l : Z) : cnf :=
  let s := l / Z.abs l in
  let v := Z.abs l in
  let xoff := (v - 1) * 2 * k in
  let yoff := (v - 1) * 2 * k + k in
  map (fun i => [- (yoff + i); s * (xoff + i)]) (zrange 1 (k + 1)).

(* range(a, b, s) for s > 0 *)
Definition range_step (a b s : Z) : list Z :=
  map (fun j => a + s * j) (zrange 0 ((b - a + s - 1) / s)).

(* for y in range(k+1, N'+1, 2k): add_linear([y+i for i in range(k)], '==', 1) *)
Definition lift_selectors (N k : Z) : cnf :=
  flat_map (fun y => add_linear (map (fun i => y + i) (zrange 0 k)) CEq 1)
           (range_step (k + 1) (2 * k * N + 1) (2 * k)).

Definition right_nbrs (adj : list (list Z)) (v : Z) : list Z :=
  nth (Z.to_nat (v - 1)) adj [].
Definition comp_xor (adj : list (list Z)) (l : Z) : cnf :=
  add_parity (right_nbrs adj (Z.abs l)) (polarity l).
Definition comp_maj (adj : list (list Z)) (l : Z) : cnf :=
  let nb := right_nbrs adj (Z.abs l) in
  if l >? 0 then add_loose_majority nb else add_strict_minority nb.

(* ---------- the transformations ---------- *)

Definition flip_polarity (N : Z) (F : cnf) : Z * cnf :=
  let out := apply_subst F flip_gadget in (numvar_add 0 out, out).

(* the documented behaviour (fixes/D32.diff: the new formula starts with
   update_variable_number(F.number_of_variables())) *)
Definition flip_polarity_spec (N : Z) (F : cnf) : Z * cnf :=
  let out := apply_subst F flip_gadget in (numvar_add N out, out).

Definition xor_substitution N k F := block_subst N k F (xorify k).
Definition or_substitution N k F := block_subst N k F (orify k).
Definition majority_substitution N k F := block_subst N k F (majorify k).
Definition exactly_one_substitution N k F := block_subst N k F (oneify k).
Definition all_equal_substitution N k (invert : bool) F := block_subst N k F (aesubst k invert).
Definition not_all_equal_substitution N k F := all_equal_substitution N k true F.
Definition linear_substitution N k o C F := block_subst N k F (linear_gadget k o C).
Definition at_least_k_substitution N n k F := linear_substitution N n CGe k F.
Definition at_most_k_substitution N n k F := linear_substitution N n CLe k F.
Definition exactly_k_substitution N n k F := linear_substitution N n CEq k F.
Definition anything_but_k_substitution N n k F := linear_substitution N n CNe k F.

(* three rounds of new_variable, one per original variable *)
Definition ite_substitution (N : Z) (F : cnf) : Z * cnf :=
  let out := apply_subst F (ite_gadget N) in (numvar_add (3 * N) out, out).

Definition formula_lifting (N k : Z) (F : cnf) : tres (Z * cnf) :=
  if k <? 1 then TValueErr
  else let out := lift_selectors N k ++ apply_subst F (lift_gadget k) in
       TOk (numvar_add (2 * k * N) out, out).

Inductive compfn := CompXor | CompMaj | CompOther.
Definition variable_compression (N : Z) (F : cnf) (R : Z) (adj : list (list Z)) (fn : compfn)
  : tres (Z * cnf) :=
  match fn with
  | CompOther => TValueErr
  | _ =>
    if negb (len adj =? N) then TValueErr
    else let out := apply_subst F (match fn with CompXor => comp_xor adj | _ => comp_maj adj end) in
         TOk (numvar_add R out, out)
  end.

(* ---------- the induced assignment on the original variables ---------- *)

Definition dec_flip (a : Z -> bool) (v : Z) : bool := negb (a v).
Definition dec_xor (k : Z) (a : Z -> bool) (v : Z) : bool := parity_of a (subst_block k v).
Definition dec_or (k : Z) (a : Z -> bool) (v : Z) : bool := existsb a (subst_block k v).
Definition dec_maj (k : Z) (a : Z -> bool) (v : Z) : bool := 2 * count_true a (subst_block k v) >=? k.
Definition dec_one (k : Z) (a : Z -> bool) (v : Z) : bool := count_true a (subst_block k v) =? 1.
Definition dec_linear (k : Z) (o : cop) (C : Z) (a : Z -> bool) (v : Z) : bool :=
  cop_holds o (count_true a (subst_block k v)) C.
Definition all_eq (a : Z -> bool) (ls : list Z) : bool :=
  forallb a ls || forallb (fun x => negb (a x)) ls.
Definition dec_eq (k : Z) (invert : bool) (a : Z -> bool) (v : Z) : bool :=
  xorb invert (all_eq a (subst_block k v)).
Definition dec_ite (N : Z) (a : Z -> bool) (v : Z) : bool :=
  if a v then a (N + v) else a (2 * N + v).
Definition lift_x (k v i : Z) : Z := (v - 1) * 2 * k + i.
Definition lift_y (k v i : Z) : Z := (v - 1) * 2 * k + k + i.
(* the value of the selected copy *)
Definition dec_lift (k : Z) (a : Z -> bool) (v : Z) : bool :=
  existsb (fun i => a (lift_y k v i) && a (lift_x k v i)) (zrange 1 (k + 1)).
(* exactly one selector true for each original variable *)
Definition selectors_ok (N k : Z) (a : Z -> bool) : bool :=
  forallb (fun v => count_true a (map (lift_y k v) (zrange 1 (k + 1))) =? 1) (zrange 1 (N + 1)).
Definition dec_comp_xor (adj : list (list Z)) (a : Z -> bool) (v : Z) : bool :=
  parity_of a (right_nbrs adj v).
Definition dec_comp_maj (adj : list (list Z)) (a : Z -> bool) (v : Z) : bool :=
  2 * count_true a (right_nbrs adj v) >=? len (right_nbrs adj v).

(* a well-formed compression graph: every neighbour is a right vertex 1..R *)
Definition adj_ok (R : Z) (adj : list (list Z)) : bool :=
  forallb (forallb (fun u => (1 <=? u) && (u <=? R))) adj.
