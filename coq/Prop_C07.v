(* Property C07 — output is a function of the command line and the seed only.
   What a theorem can carry is the seeding discipline; hash order, object
   addresses and the working directory live in the run time and are covered by
   the differential runs of the correspondence check (DESIGN.md section 5, C07). *)
From Coq Require Import ZArith List Bool.
From Cnfgen Require Import Seeding SeedingFacts.
Import ListNotations.
Open Scope Z_scope.

(* For EVERY generator (state type, seeding function, draw function) and EVERY
   program: if the trace observed on one run is disciplined for seed s (nothing
   drawn before s is installed), the output is the same from every initial
   generator state. The run-time monitor checks `disciplined` (extracted) on the
   real trace of each sampled command line. *)
Theorem C07_disciplined_runs_are_deterministic :
  forall (G out : Type) (seed_fn : Z -> G) (draw : G -> Z * G) (s : Z) (p : prog out) (g : G),
  disciplined s (trace seed_fn draw p g) = true ->
  forall g1 g2, run seed_fn draw p g1 = run seed_fn draw p g2.
Proof. exact @disciplined_deterministic. Qed.
Print Assumptions C07_disciplined_runs_are_deterministic.

(* the repaired phase order (seed installed when --seed is met, before the
   sub-command's arguments are parsed) is deterministic for every seed,
   0 included, whatever parsing, construction and transformations draw *)
Theorem C07_seed_first_deterministic :
  forall (G out : Type) (seed_fn : Z -> G) (draw : G -> Z * G) (parsed : Type)
         (parse : (parsed -> prog out) -> prog out) (build : parsed -> prog out) (s : Z) g1 g2,
  run seed_fn draw (cli_seed_first parse build (Some s)) g1 = run seed_fn draw (cli_seed_first parse build (Some s)) g2.
Proof. exact @cli_seed_first_deterministic. Qed.
Print Assumptions C07_seed_first_deterministic.

Theorem C07_seed_first_disciplined :
  forall (G out : Type) (seed_fn : Z -> G) (draw : G -> Z * G) (parsed : Type)
         (parse : (parsed -> prog out) -> prog out) (build : parsed -> prog out) (s : Z) g,
  disciplined s (trace seed_fn draw (cli_seed_first parse build (Some s)) g) = true.
Proof. exact @cli_seed_first_disciplined. Qed.
Print Assumptions C07_seed_first_disciplined.

(* the phase order of the pinned tree violates the property twice (D18, D17) *)
Theorem C07_as_found_graph_argument_refuted :
  exists g1 g2, run toy_seed toy_draw (cli_as_found parse_gnp build_const (Some 5)) g1
             <> run toy_seed toy_draw (cli_as_found parse_gnp build_const (Some 5)) g2.
Proof. exact as_found_parse_draw_refuted. Qed.
Print Assumptions C07_as_found_graph_argument_refuted.
Theorem C07_as_found_seed_zero_refuted :
  exists g1 g2, run toy_seed toy_draw (cli_as_found parse_plain build_draw (Some 0)) g1
             <> run toy_seed toy_draw (cli_as_found parse_plain build_draw (Some 0)) g2.
Proof. exact as_found_seed_zero_refuted. Qed.
Print Assumptions C07_as_found_seed_zero_refuted.
Theorem C07_as_found_partial :
  forall (G out parsed : Type) (seed_fn : Z -> G) (draw : G -> Z * G) (build : parsed -> prog out) (a : parsed) s,
  s <> 0 -> forall g1 g2, run seed_fn draw (cli_as_found (fun k => k a) build (Some s)) g1
                        = run seed_fn draw (cli_as_found (fun k => k a) build (Some s)) g2.
Proof. exact @as_found_partial. Qed.
Print Assumptions C07_as_found_partial.

Example C07_nonvacuous :
  disciplined 7 [ESeed 7; EDraw; EDraw] = true /\ disciplined 7 [EDraw; ESeed 7] = false /\
  disciplined 0 [ESeed 0; EDraw] = true /\ disciplined 7 [] = true.
Proof. vm_compute. repeat split. Qed.
