(* GraphIOKth.v -- the kthlist format (simple, directed, bipartite): write then read is the identity. *)
From Coq Require Import ZArith List Bool Lia ZifyBool Ascii.
From Cnfgen Require Import GText GraphIO GTextFacts GraphIOFacts GraphIOMatrix GraphIODimacs.
Import ListNotations.
Open Scope Z_scope.

(* ---------- one line ---------- *)
Definition kth_skip (l : gt_str) : Prop := forall size, gio_kth_line size l = GOk KISkip.

Lemma kth_skip_comment t : kth_skip (gt_c :: t).
Proof. intros size. reflexivity. Qed.
Lemma kth_skip_nl : kth_skip [gt_nl].
Proof. intros size. reflexivity. Qed.

Lemma mem_colon_plain s : Forall plainc s -> gt_mem gt_colon s = false.
Proof. intros H. apply mem_false. now apply plain_no_colon. Qed.

Lemma mem_mid c x y : gt_mem c (x ++ c :: y) = true.
Proof. unfold gt_mem. apply existsb_exists. exists c. split; [apply in_elt|apply Ascii.eqb_refl]. Qed.

Lemma kth_line_size n : 0 <= n -> gio_kth_line (-1) (gt_print_Z n ++ [gt_nl]) = GOk (KISize n).
Proof.
  intros Hn. destruct (print_Z_plain n) as [Hp Hne]. unfold gio_kth_line.
  destruct (gt_print_Z n) as [|c0 t] eqn:E; [congruence|]. cbn [app].
  rewrite (print_Z_first_not c0 n t gt_c E Hn) by (rewrite code_c; lia).
  change (c0 :: t ++ [gt_nl]) with ((c0 :: t) ++ [gt_nl]).
  rewrite strip_word_post; [|exact Hp|repeat constructor]. cbn [gt_is_nil].
  rewrite mem_app, mem_colon_plain by exact Hp. cbn [orb gt_mem existsb negb].
  change (Ascii.eqb gt_colon gt_nl) with false. cbn [orb negb]. cbn [Z.geb Z.compare].
  rewrite <- E, int_print_Z. replace (n <? 0) with false by lia. reflexivity.
Qed.

(* the text of a row without its newline *)
Definition kth_tail : gt_str := [gt_sp; gt_zero; gt_nl].
Lemma kth_row_shape v nb : gio_kth_row v nb =
  (gt_print_Z v ++ [gt_sp]) ++ gt_colon :: (concat (map (fun i => gt_sp :: gt_print_Z i) nb) ++ kth_tail).
Proof. unfold gio_kth_row, kth_tail. norm_app. reflexivity. Qed.

Lemma kth_tokens_no_colon nb : Forall (fun x => Ascii.eqb x gt_colon = false)
  (concat (map (fun i => gt_sp :: gt_print_Z i) nb) ++ kth_tail).
Proof.
  apply Forall_app. split; [|repeat constructor].
  induction nb as [|i t IH]; [constructor|]. cbn [map concat]. apply Forall_cons; [reflexivity|].
  apply Forall_app. split; [|exact IH]. apply plain_no_colon, print_Z_plain.
Qed.

Lemma kth_split_ws_tail nb : gt_split_ws (concat (map (fun i => gt_sp :: gt_print_Z i) nb) ++ kth_tail) = map gt_print_Z (nb ++ [0]).
Proof.
  rewrite <- (map_map gt_print_Z (fun w => gt_sp :: w)). rewrite split_ws_tokens; [|apply prints_tokens|reflexivity].
  rewrite map_app. reflexivity.
Qed.

Lemma kth_line_row size v nb : 1 <= v <= size -> Forall (fun x => 1 <= x <= size) nb ->
  gio_kth_line size (gio_kth_row v nb) = GOk (KIAdj v nb).
Proof.
  intros Hv Hnb. destruct (print_Z_plain v) as [Hp Hne]. rewrite kth_row_shape. unfold gio_kth_line.
  destruct (gt_print_Z v) as [|c0 t] eqn:E; [congruence|]. cbn [app].
  rewrite (print_Z_first_not c0 v t gt_c E ltac:(lia)) by (rewrite code_c; lia).
  assert (Hc0 : gt_is_space c0 = false) by (inversion Hp as [|x l [K _] _]; exact K).
  destruct (strip_by_head gt_is_space c0 (t ++ [gt_sp] ++ gt_colon :: concat (map (fun i => gt_sp :: gt_print_Z i) nb) ++ kth_tail) Hc0) as [t' Es].
  unfold gt_strip at 1. replace (c0 :: (t ++ [gt_sp]) ++ gt_colon :: concat (map (fun i : Z => gt_sp :: gt_print_Z i) nb) ++ kth_tail)
    with (c0 :: t ++ [gt_sp] ++ gt_colon :: concat (map (fun i : Z => gt_sp :: gt_print_Z i) nb) ++ kth_tail) by (norm_app; reflexivity).
  rewrite Es. cbn [gt_is_nil].
  replace (c0 :: t ++ [gt_sp] ++ gt_colon :: concat (map (fun i : Z => gt_sp :: gt_print_Z i) nb) ++ kth_tail)
    with (((c0 :: t) ++ [gt_sp]) ++ gt_colon :: (concat (map (fun i : Z => gt_sp :: gt_print_Z i) nb) ++ kth_tail)) by (norm_app; reflexivity).
  rewrite mem_mid. cbn [negb].
  rewrite split_on_one.
  2:{ apply Forall_app. split; [now apply plain_no_colon|repeat constructor]. }
  rewrite split_on_none by apply kth_tokens_no_colon.
  rewrite strip_word_post; [|exact Hp|repeat constructor]. rewrite <- E, int_print_Z.
  rewrite kth_split_ws_tail, ints_print.
  replace (gt_is_nil (nb ++ [0])) with false by (destruct nb; reflexivity).
  rewrite last_last, removelast_last. cbn [Z.eqb negb orb].
  replace ((v <? 1) || (v >? size)) with false by lia.
  replace (existsb (fun x => (x <? 1) || (x >? size)) nb) with false; [reflexivity|].
  symmetry. apply not_true_is_false. intros Hex. apply existsb_exists in Hex as [x [Hx Hb]].
  rewrite Forall_forall in Hnb. specialize (Hnb x Hx). lia.
Qed.

Lemma kth_row_no_nl v nb : exists body, gio_kth_row v nb = body ++ [gt_nl] /\ no_nl body.
Proof.
  exists (gt_print_Z v ++ [gt_sp; gt_colon] ++ concat (map (fun i => gt_sp :: gt_print_Z i) nb) ++ [gt_sp; gt_zero]).
  split; [unfold gio_kth_row; norm_app; reflexivity|].
  unfold no_nl. apply Forall_app. split; [apply token_no_nl|]. cbn [app]. repeat (apply Forall_cons; [reflexivity|]).
  apply Forall_app. split; [|repeat constructor].
  induction nb as [|i t IH]; [constructor|]. cbn [map concat]. apply Forall_cons; [reflexivity|].
  apply Forall_app. split; [apply token_no_nl|exact IH].
Qed.

(* ---------- header ---------- *)
Lemma kth_next_skips : forall skips n rest, Forall kth_skip skips -> 0 <= n ->
  gio_kth_next (skips ++ (gt_print_Z n ++ [gt_nl]) :: rest) = GOk (n, rest).
Proof.
  induction skips as [|l t IH]; intros n rest HF Hn.
  - cbn [app gio_kth_next]. now rewrite kth_line_size.
  - inversion HF as [|x y Hl Ht]; subst. cbn [app gio_kth_next]. rewrite (Hl (-1)). now apply IH.
Qed.
Lemma kth_header_skips af skips n rest : Forall kth_skip skips -> 0 <= n ->
  gio_kth_header_gen af (skips ++ (gt_print_Z n ++ [gt_nl]) :: rest) = GOk (n, rest).
Proof. intros HF Hn. unfold gio_kth_header_gen. now rewrite kth_next_skips. Qed.

(* names the writer can be given: every line of "c <name>\n" is skipped by the reader *)
Definition kth_name_ok (name : gt_str) : Prop := Forall kth_skip (gt_lines ([gt_c; gt_sp] ++ name ++ [gt_nl])).

Lemma kth_name_ok_line name : no_nl name -> kth_name_ok name.
Proof.
  intros H. unfold kth_name_ok.
  replace ([gt_c; gt_sp] ++ name ++ [gt_nl]) with ((gt_c :: gt_sp :: name) ++ gt_nl :: []) by reflexivity.
  rewrite lines_line by (repeat (apply Forall_cons; [reflexivity|]); exact H).
  cbn [gt_lines]. constructor; [apply kth_skip_comment|constructor].
Qed.
(* a name read from a kthlist file ends with the newline of its comment line *)
Lemma kth_name_ok_line_nl name : no_nl name -> kth_name_ok (name ++ [gt_nl]).
Proof.
  intros H. unfold kth_name_ok.
  replace ([gt_c; gt_sp] ++ (name ++ [gt_nl]) ++ [gt_nl]) with ((gt_c :: gt_sp :: name) ++ gt_nl :: ([] ++ gt_nl :: []))
    by (norm_app; reflexivity).
  rewrite lines_line by (repeat (apply Forall_cons; [reflexivity|]); exact H).
  rewrite lines_line by constructor. cbn [gt_lines app].
  constructor; [apply kth_skip_comment|]. constructor; [apply kth_skip_nl|constructor].
Qed.

(* ---------- body: simple and directed graphs ---------- *)
Fixpoint rows_inc (prev : Z) (rows : list (Z * list Z)) : Prop :=
  match rows with
  | [] => True
  | r :: t => prev < fst r /\ rows_inc (fst r) t
  end.
Definition row_edges (r : Z * list Z) : list (Z * Z) := map (fun u => (u, fst r)) (snd r).
Definition row_text (r : Z * list Z) : gt_str := gio_kth_row (fst r) (snd r).

Lemma kth_body_rows size : forall rows prev G,
  rows_inc prev rows ->
  Forall (fun r => 1 <= fst r <= size /\ Forall (fun x => 1 <= x <= size) (snd r) /\ Forall (edge_ok G) (row_edges r)) rows ->
  gio_kth_body size (map row_text rows ++ [[gt_nl]]) prev G =
  GOk (gio_with_edges G (insert_all (map (edge_norm (io_kind G)) (flat_map row_edges rows)) (io_edges G))).
Proof.
  induction rows as [|r t IH]; intros prev G Hinc HF.
  - cbn [map app gio_kth_body flat_map]. rewrite (kth_skip_nl size). cbn [insert_all fold_left]. now rewrite with_edges_self.
  - inversion HF as [|x y (Hv & Hnb & Hok) Ht]; subst. destruct Hinc as [Hp Hinc].
    cbn [map app gio_kth_body]. unfold row_text at 1. rewrite kth_line_row by assumption.
    replace (fst r <=? prev) with false by lia.
    fold (row_edges r). rewrite add_edges_ok by exact Hok. cbn [gio_bind].
    rewrite IH.
    + rewrite with_edges_twice, with_edges_kind, with_edges_edges. cbn [flat_map]. rewrite map_app, insert_all_app. reflexivity.
    + exact Hinc.
    + eapply Forall_impl; [|exact Ht]. intros r' (H1 & H2 & H3). split; [exact H1|]. split; [exact H2|].
      eapply Forall_impl; [|exact H3]. intros e He. now apply edge_ok_with_edges.
Qed.

Lemma rows_inc_zseq (f : Z -> list Z) : forall len a prev, prev < a -> rows_inc prev (map (fun v => (v, f v)) (zseq a len)).
Proof.
  induction len as [|len IH]; intros a prev H; [exact I|].
  rewrite zseq_S. cbn [map rows_inc fst]. split; [exact H|]. apply IH. lia.
Qed.

(* membership in the adjacency lists read off the edge list *)
Lemma preds_In G u v : In u (gio_preds G v) <-> In (u, v) (io_edges G).
Proof.
  unfold gio_preds. rewrite in_map_iff. split.
  - intros [[a b] [<- H]]. apply filter_In in H as [H E]. cbn [fst snd] in *. assert (b = v) by lia. now subst.
  - intros H. exists (u, v). split; [reflexivity|]. apply filter_In. split; [exact H|]. cbn. lia.
Qed.
Lemma succs_In G u v : In v (gio_succs G u) <-> In (u, v) (io_edges G).
Proof.
  unfold gio_succs. rewrite in_map_iff. split.
  - intros [[a b] [<- H]]. apply filter_In in H as [H E]. cbn [fst snd] in *. assert (a = u) by lia. now subst.
  - intros H. exists (u, v). split; [reflexivity|]. apply filter_In. split; [exact H|]. cbn. lia.
Qed.

Definition kth_nbrs (G : iograph) (v : Z) : list Z :=
  match io_kind G with GioDirected => gio_preds G v | _ => gio_neighbors G v end.

Lemma write_kth_shape G : gio_write_kth G =
  ([gt_c; gt_sp] ++ io_name G) ++ gt_nl ::
  ((gt_print_Z (io_n G)) ++ gt_nl :: (concat (map (fun v => row_text (v, kth_nbrs G v)) (gt_range1 (io_n G))) ++ [gt_nl])).
Proof. unfold gio_write_kth, row_text, kth_nbrs. cbn [fst snd]. norm_app. reflexivity. Qed.

Lemma lines_kth_rows rows rest : gt_lines (concat (map row_text rows) ++ rest) = map row_text rows ++ gt_lines rest.
Proof.
  induction rows as [|r t IH]; [reflexivity|]. cbn [map concat]. rewrite <- app_assoc.
  destruct (kth_row_no_nl (fst r) (snd r)) as [body [E Hb]]. unfold row_text at 1 3. rewrite E, <- app_assoc. cbn [app].
  rewrite lines_line by exact Hb. rewrite IH. reflexivity.
Qed.

Theorem kth_roundtrip_gen af G : gio_wf G -> io_kind G <> GioBipartite -> kth_name_ok (io_name G) ->
  exists nm, gio_read_kth_gen af (io_kind G) (gio_write_kth G) = GOk (mkIOG (io_kind G) nm (io_n G) (io_r G) (io_edges G)).
Proof.
  intros (Hn & Hr & Hk & Hs & Hf) HK Hname. specialize (Hk HK). unfold gio_read_kth_gen.
  set (ls := gt_lines (gio_write_kth G)). exists (gio_kth_name ls).
  assert (Hls : ls = gt_lines ([gt_c; gt_sp] ++ io_name G ++ [gt_nl]) ++
                     (gt_print_Z (io_n G) ++ [gt_nl]) :: map row_text (map (fun v => (v, kth_nbrs G v)) (gt_range1 (io_n G))) ++ [[gt_nl]]).
  { unfold ls. rewrite write_kth_shape, lines_app. f_equal.
    rewrite lines_line by apply token_no_nl. f_equal. rewrite <- map_map, lines_kth_rows. reflexivity. }
  rewrite Hls at 1. rewrite kth_header_skips by assumption. cbn [gio_bind fst snd].
  rewrite new_ok by lia. cbn [gio_bind].
  set (G0 := mkIOG (io_kind G) (gio_kth_name ls) (io_n G) 0 []).
  rewrite kth_body_rows.
  - cbn [G0 io_kind io_edges]. unfold gio_with_edges. cbn [io_kind io_name io_n io_r]. rewrite Hk. do 2 f_equal.
    apply insert_all_rebuild; [exact Hs|]. intros [a b]. rewrite Forall_forall in Hf. split.
    + intros Hin. apply in_map_iff in Hin as [[u v] [Hx Hin]]. apply in_flat_map in Hin as [r [Hr' Hin]].
      apply in_map_iff in Hr' as [w [<- Hw]]. unfold row_edges in Hin. cbn [fst snd] in Hin.
      apply in_map_iff in Hin as [u' [Hu' Hin]]. inversion Hu'; subst u' w. clear Hu'.
      unfold kth_nbrs, gio_neighbors in Hin. destruct (io_kind G) eqn:EK; [| |congruence].
      * apply in_app_or in Hin as [Hin|Hin].
        -- apply preds_In in Hin. pose proof (Hf _ Hin) as Hok. unfold edge_stored_ok in Hok. rewrite EK in Hok. cbn [fst snd] in Hok.
           cbn [edge_norm fst snd] in Hx. rewrite <- Hx. replace (Z.min u v) with u by lia. replace (Z.max u v) with v by lia. exact Hin.
        -- apply succs_In in Hin. pose proof (Hf _ Hin) as Hok. unfold edge_stored_ok in Hok. rewrite EK in Hok. cbn [fst snd] in Hok.
           cbn [edge_norm fst snd] in Hx. rewrite <- Hx. replace (Z.min u v) with v by lia. replace (Z.max u v) with u by lia. exact Hin.
      * apply preds_In in Hin. cbn [edge_norm] in Hx. now rewrite <- Hx.
    + intros Hin. pose proof (Hf _ Hin) as Hok. unfold edge_stored_ok in Hok. cbn [fst snd] in Hok.
      apply in_map_iff. exists (a, b). split.
      * unfold edge_norm. destruct (io_kind G); [cbn [fst snd]; f_equal; lia|reflexivity|reflexivity].
      * apply in_flat_map. exists (b, kth_nbrs G b). split.
        -- apply in_map_iff. exists b. split; [reflexivity|]. apply range1_In. destruct (io_kind G); lia.
        -- unfold row_edges. cbn [fst snd]. apply in_map_iff. exists a. split; [reflexivity|].
           unfold kth_nbrs, gio_neighbors. destruct (io_kind G); [apply in_or_app; left; now apply preds_In|now apply preds_In|congruence].
  - rewrite range1_zseq. apply rows_inc_zseq. lia.
  - apply Forall_forall. intros r Hr'. apply in_map_iff in Hr' as [v [<- Hv]]. apply range1_In in Hv. cbn [fst snd].
    rewrite Forall_forall in Hf.
    assert (Hnb : forall u, In u (kth_nbrs G v) -> 1 <= u <= io_n G /\ edge_ok G0 (u, v)).
    { intros u Hu. unfold kth_nbrs, gio_neighbors in Hu. unfold edge_ok. cbn [G0 io_kind io_n fst snd].
      destruct (io_kind G) eqn:EK; [| |congruence].
      - apply in_app_or in Hu as [Hu|Hu].
        + apply preds_In in Hu. pose proof (Hf _ Hu) as Hok. unfold edge_stored_ok in Hok. rewrite EK in Hok. cbn [fst snd] in Hok. lia.
        + apply succs_In in Hu. pose proof (Hf _ Hu) as Hok. unfold edge_stored_ok in Hok. rewrite EK in Hok. cbn [fst snd] in Hok. lia.
      - apply preds_In in Hu. pose proof (Hf _ Hu) as Hok. unfold edge_stored_ok in Hok. rewrite EK in Hok. cbn [fst snd] in Hok. lia. }
    split; [lia|]. split.
    + apply Forall_forall. intros u Hu. now apply Hnb.
    + unfold row_edges. cbn [fst snd]. apply Forall_forall. intros e He. apply in_map_iff in He as [u [<- Hu]]. now apply Hnb.
Qed.

Theorem kth_roundtrip G : gio_wf G -> io_kind G <> GioBipartite -> kth_name_ok (io_name G) ->
  exists nm, gio_read_kth (io_kind G) (gio_write_kth G) = GOk (mkIOG (io_kind G) nm (io_n G) (io_r G) (io_edges G)).
Proof. exact (kth_roundtrip_gen false G). Qed.

(* ---------- bipartite kthlist ---------- *)
Lemma dict_set_new k v : forall d, ~ In k (map fst d) -> gio_dict_set k v d = d ++ [(k, v)].
Proof.
  induction d as [|[k' v'] t IH]; intros Hn; [reflexivity|]. cbn [gio_dict_set].
  destruct (k' =? k) eqn:E.
  - exfalso. apply Hn. left. cbn. lia.
  - cbn [app]. f_equal. apply IH. intros H. apply Hn. now right.
Qed.

Lemma kthb_scan_ok lo L : forall vs hi, L <= hi -> Forall (fun v => lo <= v /\ L < v) vs ->
  exists hi', gio_kthb_scan vs lo hi = Some hi' /\ L <= hi'.
Proof.
  induction vs as [|v t IH]; intros hi Hhi HF; [exists hi; split; [reflexivity|exact Hhi]|].
  inversion HF as [|x y [H1 H2] Ht]; subst. cbn [gio_kthb_scan]. replace (v <? lo) with false by lia.
  apply IH; [lia|exact Ht].
Qed.

(* rows for the left vertices a, a+1, ..., L; `previous` is below a (a - 1 in the current code, 0 as found) *)
Lemma kthb_body_rows af size L (f : Z -> list Z) : forall len a prev hi d,
  1 <= a -> prev < a -> a + Z.of_nat len = L + 1 -> L <= hi -> L <= size ->
  (forall u, a <= u <= L -> Forall (fun v => L < v <= size) (f u)) ->
  (forall k, In k (map fst d) -> k < a) ->
  gio_kthb_body_gen af size (map row_text (map (fun u => (u, f u)) (zseq a len)) ++ [[gt_nl]]) prev a hi d =
  GOk (L + 1, d ++ map (fun u => (u, f u)) (zseq a len)).
Proof.
  induction len as [|len IH]; intros a prev hi d Ha Hprev Hlen Hhi Hsz Hf Hd.
  - cbn [zseq seq map app gio_kthb_body_gen]. rewrite (kth_skip_nl size). rewrite app_nil_r. do 2 f_equal. lia.
  - rewrite zseq_S. cbn [map app gio_kthb_body_gen]. unfold row_text at 1. cbn [fst snd].
    assert (Hfa : Forall (fun v => L < v <= size) (f a)) by (apply Hf; lia).
    rewrite kth_line_row; [|lia|eapply Forall_impl; [|exact Hfa]; cbn; intros; lia].
    replace (a <=? prev) with false by lia. replace (a >? hi) with false by lia.
    replace (Z.max a (a + 1)) with (a + 1) by lia.
    destruct (kthb_scan_ok (a + 1) L (f a) hi Hhi) as [hi' [Es Hhi']].
    { eapply Forall_impl; [|exact Hfa]. cbn. intros; lia. }
    rewrite Es. rewrite dict_set_new.
    2:{ intros Hin. apply Hd in Hin. lia. }
    rewrite IH; [|lia|destruct af; lia|lia|exact Hhi'|exact Hsz| |].
    + rewrite <- app_assoc. reflexivity.
    + intros u Hu. apply Hf. lia.
    + intros k Hk. rewrite map_app in Hk. apply in_app_or in Hk as [Hk|Hk]; [apply Hd in Hk; lia|].
      cbn in Hk. destruct Hk as [<-|[]]. lia.
Qed.

Definition kthb_row (G : iograph) (u : Z) : list Z := map (fun v => v + io_n G) (gio_succs G u).

Lemma write_kthb_shape G : gio_write_kthb G =
  ([gt_c; gt_sp] ++ io_name G) ++ gt_nl ::
  ((gt_print_Z (io_n G + io_r G)) ++ gt_nl :: (concat (map (fun u => row_text (u, kthb_row G u)) (gt_range1 (io_n G))) ++ [gt_nl])).
Proof. unfold gio_write_kthb, row_text, kthb_row. cbn [fst snd]. norm_app. reflexivity. Qed.

Theorem kthb_roundtrip_gen af G : gio_wf G -> io_kind G = GioBipartite -> kth_name_ok (io_name G) ->
  exists nm, gio_read_kthb_gen af (gio_write_kthb G) = GOk (mkIOG GioBipartite nm (io_n G) (io_r G) (io_edges G)).
Proof.
  intros (Hn & Hr & _ & Hs & Hf) HK Hname. unfold gio_read_kthb_gen.
  set (ls := gt_lines (gio_write_kthb G)). exists (gio_kth_name ls).
  set (L := io_n G) in *. set (R := io_r G) in *.
  assert (Hls : ls = gt_lines ([gt_c; gt_sp] ++ io_name G ++ [gt_nl]) ++
                     (gt_print_Z (L + R) ++ [gt_nl]) :: map row_text (map (fun u => (u, kthb_row G u)) (gt_range1 L)) ++ [[gt_nl]]).
  { unfold ls. rewrite write_kthb_shape, lines_app. f_equal.
    rewrite lines_line by apply token_no_nl. f_equal. rewrite <- map_map, lines_kth_rows. reflexivity. }
  rewrite Hls at 1. rewrite kth_header_skips by (assumption || lia). cbn [gio_bind fst snd].
  rewrite Forall_forall in Hf.
  assert (Hedge : forall u v, In (u, v) (io_edges G) -> 1 <= u <= L /\ 1 <= v <= R).
  { intros u v Hin. pose proof (Hf _ Hin) as Hok. unfold edge_stored_ok in Hok. rewrite HK in Hok. exact Hok. }
  rewrite range1_zseq. rewrite (kthb_body_rows af (L + R) L (kthb_row G) (Z.to_nat L) 1 0 (L + R) []); try lia.
  2:{ intros u Hu. unfold kthb_row. apply Forall_forall. intros x Hx. apply in_map_iff in Hx as [v [<- Hv]].
      apply succs_In in Hv. apply Hedge in Hv. fold L. lia. }
  2:{ intros k []. }
  cbn [gio_bind fst snd app]. replace (L + 1 - 1) with L by lia. replace (L + R - (L + 1) + 1) with R by lia.
  rewrite new_ok by lia. cbn [gio_bind].
  set (G0 := mkIOG GioBipartite (gio_kth_name ls) L R []).
  assert (Hde : gio_dict_edges L (map (fun u => (u, kthb_row G u)) (zseq 1 (Z.to_nat L))) =
                flat_map (fun u => map (fun v => (u, v)) (gio_succs G u)) (zseq 1 (Z.to_nat L))).
  { unfold gio_dict_edges. rewrite flat_map_concat_map, map_map, <- flat_map_concat_map.
    apply flat_map_ext. intros u. cbn [fst snd]. unfold kthb_row. rewrite map_map. apply map_ext. intros v. f_equal. fold L. lia. }
  rewrite Hde. rewrite add_edges_ok.
  - unfold G0, gio_with_edges. cbn [io_kind io_name io_n io_r io_edges]. do 2 f_equal.
    replace (map (edge_norm GioBipartite) (flat_map (fun u => map (fun v => (u, v)) (gio_succs G u)) (zseq 1 (Z.to_nat L))))
      with (flat_map (fun u => map (fun v => (u, v)) (gio_succs G u)) (zseq 1 (Z.to_nat L))) by (symmetry; apply map_id).
    apply insert_all_rebuild; [exact Hs|]. intros [a b]. rewrite in_flat_map. split.
    + intros [u [_ Hin]]. apply in_map_iff in Hin as [v [Hx Hv]]. inversion Hx; subst. now apply succs_In.
    + intros Hin. exists a. split.
      * apply zseq_In. apply Hedge in Hin. lia.
      * apply in_map_iff. exists b. split; [reflexivity|]. now apply succs_In.
  - apply Forall_forall. intros [a b] Hin. apply in_flat_map in Hin as [u [_ Hin]].
    apply in_map_iff in Hin as [v [Hx Hv]]. inversion Hx; subst. apply succs_In in Hv. apply Hedge in Hv.
    unfold edge_ok, G0. cbn [io_kind io_n io_r fst snd]. exact Hv.
Qed.

Theorem kthb_roundtrip G : gio_wf G -> io_kind G = GioBipartite -> kth_name_ok (io_name G) ->
  exists nm, gio_read_kthb (gio_write_kthb G) = GOk (mkIOG GioBipartite nm (io_n G) (io_r G) (io_edges G)).
Proof. exact (kthb_roundtrip_gen false G). Qed.
