(* GraphIOFacts.v -- lemmas about the graph objects of GraphIO.v (sorted edge lists, add_edge)
   shared by the C14 (files) and C15 (constructions) developments. *)
From Coq Require Import ZArith List Bool Lia ZifyBool Ascii Sorting.Sorted.
From Cnfgen Require Import GText GraphIO.
Import ListNotations.
Open Scope Z_scope.

(* ---------- order on pairs ---------- *)
Definition pair_lt (a b : Z * Z) : Prop := fst a < fst b \/ (fst a = fst b /\ snd a < snd b).

Lemma pair_ltb_spec a b : gio_pair_ltb a b = true <-> pair_lt a b.
Proof. unfold gio_pair_ltb, pair_lt. lia. Qed.
Lemma pair_eqb_spec a b : gio_pair_eqb a b = true <-> a = b.
Proof.
  unfold gio_pair_eqb. destruct a as [a1 a2], b as [b1 b2]; cbn [fst snd]. split.
  - intros H. f_equal; lia.
  - intros H. inversion H. lia.
Qed.
Lemma pair_eqb_refl a : gio_pair_eqb a a = true.
Proof. apply pair_eqb_spec. reflexivity. Qed.
Lemma pair_lt_irrefl a : ~ pair_lt a a.
Proof. unfold pair_lt. lia. Qed.
Lemma pair_lt_trans a b c : pair_lt a b -> pair_lt b c -> pair_lt a c.
Proof. unfold pair_lt. lia. Qed.
Lemma pair_lt_total a b : pair_lt a b \/ a = b \/ pair_lt b a.
Proof.
  unfold pair_lt. destruct a as [a1 a2], b as [b1 b2]; cbn [fst snd].
  destruct (Z.lt_total a1 b1) as [H|[H|H]]; [left; lia| |right; right; lia].
  destruct (Z.lt_total a2 b2) as [K|[K|K]]; [left; lia| |right; right; lia].
  right; left. congruence.
Qed.

(* strictly sorted lists of pairs *)
Inductive ssorted : list (Z * Z) -> Prop :=
| ss_nil : ssorted []
| ss_cons : forall x l, ssorted l -> (forall y, In y l -> pair_lt x y) -> ssorted (x :: l).

Lemma ssorted_inv x l : ssorted (x :: l) -> ssorted l /\ (forall y, In y l -> pair_lt x y).
Proof. intros H. inversion H; subst. auto. Qed.

Lemma ssorted_NoDup l : ssorted l -> NoDup l.
Proof.
  induction 1 as [|x l Hs IH Hx]; constructor; auto.
  intros Hin. apply Hx in Hin. now apply pair_lt_irrefl in Hin.
Qed.

(* two strictly sorted lists with the same elements are equal *)
Lemma ssorted_unique : forall l1 l2, ssorted l1 -> ssorted l2 ->
  (forall x, In x l1 <-> In x l2) -> l1 = l2.
Proof.
  induction l1 as [|a l1 IH]; intros l2 H1 H2 Hiff.
  - destruct l2 as [|b l2]; [reflexivity|]. exfalso. apply (proj2 (Hiff b)). now left.
  - destruct l2 as [|b l2]; [exfalso; apply (proj1 (Hiff a)); now left|].
    apply ssorted_inv in H1 as [H1 Ha]. apply ssorted_inv in H2 as [H2 Hb].
    assert (Hab : a = b).
    { destruct (proj1 (Hiff a) (or_introl eq_refl)) as [E|Hin]; [congruence|].
      destruct (proj2 (Hiff b) (or_introl eq_refl)) as [E|Hin2]; [congruence|].
      apply Hb in Hin. apply Ha in Hin2. exfalso. apply (pair_lt_irrefl a). eapply pair_lt_trans; eauto. }
    subst b. f_equal. apply IH; auto.
    intros x. split; intros Hx.
    + destruct (proj1 (Hiff x) (or_intror Hx)) as [E|Hin]; [|exact Hin].
      subst x. apply Ha in Hx. now apply pair_lt_irrefl in Hx.
    + destruct (proj2 (Hiff x) (or_intror Hx)) as [E|Hin]; [|exact Hin].
      subst x. apply Hb in Hx. now apply pair_lt_irrefl in Hx.
Qed.

(* ---------- gio_insert ---------- *)
Lemma insert_In e l x : In x (gio_insert e l) <-> x = e \/ In x l.
Proof.
  induction l as [|y t IH]; cbn [gio_insert].
  - cbn. intuition.
  - destruct (gio_pair_ltb e y) eqn:E1.
    + cbn. intuition.
    + destruct (gio_pair_eqb e y) eqn:E2.
      * apply pair_eqb_spec in E2. subst y. cbn. intuition.
      * cbn [In]. rewrite IH. intuition.
Qed.

Lemma insert_ssorted e l : ssorted l -> ssorted (gio_insert e l).
Proof.
  induction 1 as [|y t Hs IH Hy]; cbn [gio_insert].
  - constructor; [constructor|]. intros y [].
  - destruct (gio_pair_ltb e y) eqn:E1.
    + apply pair_ltb_spec in E1. constructor; [constructor; auto|].
      intros z [Hz|Hz]; [subst; auto|]. eapply pair_lt_trans; eauto.
    + destruct (gio_pair_eqb e y) eqn:E2; [constructor; auto|].
      constructor; auto. intros z Hz. apply insert_In in Hz as [Hz|Hz]; [|auto].
      subst z. destruct (pair_lt_total e y) as [H|[H|H]]; [|subst|exact H].
      * apply pair_ltb_spec in H. congruence.
      * rewrite pair_eqb_refl in E2. discriminate.
Qed.

Lemma mem_In e l : gio_mem e l = true <-> In e l.
Proof.
  unfold gio_mem. rewrite existsb_exists. split.
  - intros [x [Hx He]]. apply pair_eqb_spec in He. now subst.
  - intros H. exists e. split; [exact H|apply pair_eqb_refl].
Qed.

Lemma insert_present e l : ssorted l -> In e l -> gio_insert e l = l.
Proof.
  induction 1 as [|y t Hs IH Hy]; intros Hin; [destruct Hin|]. cbn [gio_insert].
  destruct (gio_pair_ltb e y) eqn:E1.
  - apply pair_ltb_spec in E1. destruct Hin as [Hin|Hin].
    + subst. now apply pair_lt_irrefl in E1.
    + apply Hy in Hin. exfalso. apply (pair_lt_irrefl e). eapply pair_lt_trans; eauto.
  - destruct (gio_pair_eqb e y) eqn:E2; [reflexivity|].
    destruct Hin as [Hin|Hin]; [subst; rewrite pair_eqb_refl in E2; discriminate|].
    f_equal. auto.
Qed.

Lemma insert_length_new e l : ~ In e l -> length (gio_insert e l) = S (length l).
Proof.
  induction l as [|y t IH]; intros Hn; cbn [gio_insert]; [reflexivity|].
  destruct (gio_pair_ltb e y); [reflexivity|].
  destruct (gio_pair_eqb e y) eqn:E2.
  - apply pair_eqb_spec in E2. subst. exfalso. apply Hn. now left.
  - cbn [length]. rewrite IH; [reflexivity|]. intros H. apply Hn. now right.
Qed.

Lemma insert_length e l : ssorted l ->
  length (gio_insert e l) = if gio_mem e l then length l else S (length l).
Proof.
  intros Hs. destruct (gio_mem e l) eqn:E.
  - apply mem_In in E. now rewrite insert_present.
  - apply insert_length_new. intros H. apply mem_In in H. congruence.
Qed.

(* folding insertions *)
Definition insert_all (es l : list (Z * Z)) : list (Z * Z) := fold_left (fun acc e => gio_insert e acc) es l.

Lemma insert_all_cons e t l : insert_all (e :: t) l = insert_all t (gio_insert e l).
Proof. reflexivity. Qed.
Lemma insert_all_In es : forall l x, In x (insert_all es l) <-> In x es \/ In x l.
Proof.
  induction es as [|e t IH]; intros l x.
  - cbn. intuition.
  - rewrite insert_all_cons, IH, insert_In. cbn [In]. intuition.
Qed.
Lemma insert_all_ssorted es : forall l, ssorted l -> ssorted (insert_all es l).
Proof.
  induction es as [|e t IH]; intros l Hl; [exact Hl|].
  rewrite insert_all_cons. apply IH. now apply insert_ssorted.
Qed.
Lemma insert_all_app a b l : insert_all (a ++ b) l = insert_all b (insert_all a l).
Proof. unfold insert_all. apply fold_left_app. Qed.

(* a strictly sorted list is rebuilt by inserting any list with the same elements *)
Lemma insert_all_rebuild es l : ssorted l -> (forall x, In x es <-> In x l) -> insert_all es [] = l.
Proof.
  intros Hs Hiff. apply ssorted_unique; [apply insert_all_ssorted; constructor|exact Hs|].
  intros x. rewrite insert_all_In. cbn [In]. rewrite Hiff. intuition.
Qed.

(* ---------- add_edge ---------- *)
(* what add_edge stores, and when it accepts *)
Definition edge_norm (k : gio_kind) (e : Z * Z) : Z * Z :=
  match k with GioSimple => (Z.min (fst e) (snd e), Z.max (fst e) (snd e)) | _ => e end.
Definition edge_ok (G : iograph) (e : Z * Z) : Prop :=
  match io_kind G with
  | GioSimple => 1 <= fst e <= io_n G /\ 1 <= snd e <= io_n G /\ fst e <> snd e
  | GioDirected => 1 <= fst e <= io_n G /\ 1 <= snd e <= io_n G
  | GioBipartite => 1 <= fst e <= io_n G /\ 1 <= snd e <= io_r G
  end.

Lemma add_edge_ok G u v : edge_ok G (u, v) ->
  gio_add_edge G u v = GOk (gio_with_edges G (gio_insert (edge_norm (io_kind G) (u, v)) (io_edges G))).
Proof.
  unfold edge_ok, gio_add_edge, edge_norm. cbn [fst snd]. destruct (io_kind G); intros H.
  - replace ((1 <=? u) && (u <=? io_n G) && (1 <=? v) && (v <=? io_n G) && negb (u =? v)) with true by lia. reflexivity.
  - replace ((1 <=? u) && (u <=? io_n G) && (1 <=? v) && (v <=? io_n G)) with true by lia. reflexivity.
  - replace ((1 <=? u) && (u <=? io_n G) && (1 <=? v) && (v <=? io_r G)) with true by lia. reflexivity.
Qed.

Lemma add_edge_inv G u v G' : gio_add_edge G u v = GOk G' ->
  edge_ok G (u, v) /\ G' = gio_with_edges G (gio_insert (edge_norm (io_kind G) (u, v)) (io_edges G)).
Proof.
  unfold edge_ok, gio_add_edge, edge_norm. cbn [fst snd]. destruct (io_kind G).
  - destruct ((1 <=? u) && (u <=? io_n G) && (1 <=? v) && (v <=? io_n G) && negb (u =? v)) eqn:E; intros H; inversion H.
    split; [lia|reflexivity].
  - destruct ((1 <=? u) && (u <=? io_n G) && (1 <=? v) && (v <=? io_n G)) eqn:E; intros H; inversion H.
    split; [lia|reflexivity].
  - destruct ((1 <=? u) && (u <=? io_n G) && (1 <=? v) && (v <=? io_r G)) eqn:E; intros H; inversion H.
    split; [lia|reflexivity].
Qed.

Lemma add_edge_exn G u v e : gio_add_edge G u v = GRaise e -> e = EValueError.
Proof.
  unfold gio_add_edge. destruct (io_kind G).
  - destruct ((1 <=? u) && (u <=? io_n G) && (1 <=? v) && (v <=? io_n G) && negb (u =? v)); intros H; inversion H; reflexivity.
  - destruct ((1 <=? u) && (u <=? io_n G) && (1 <=? v) && (v <=? io_n G)); intros H; inversion H; reflexivity.
  - destruct ((1 <=? u) && (u <=? io_n G) && (1 <=? v) && (v <=? io_r G)); intros H; inversion H; reflexivity.
Qed.

Lemma with_edges_kind G es : io_kind (gio_with_edges G es) = io_kind G. Proof. reflexivity. Qed.
Lemma with_edges_n G es : io_n (gio_with_edges G es) = io_n G. Proof. reflexivity. Qed.
Lemma with_edges_r G es : io_r (gio_with_edges G es) = io_r G. Proof. reflexivity. Qed.
Lemma with_edges_name G es : io_name (gio_with_edges G es) = io_name G. Proof. reflexivity. Qed.
Lemma with_edges_edges G es : io_edges (gio_with_edges G es) = es. Proof. reflexivity. Qed.
Lemma with_edges_twice G a b : gio_with_edges (gio_with_edges G a) b = gio_with_edges G b. Proof. reflexivity. Qed.
Lemma edge_ok_with_edges G es e : edge_ok (gio_with_edges G es) e <-> edge_ok G e.
Proof. unfold edge_ok. cbn. reflexivity. Qed.

Lemma add_edges_ok : forall es G, Forall (edge_ok G) es ->
  gio_add_edges G es = GOk (gio_with_edges G (insert_all (map (edge_norm (io_kind G)) es) (io_edges G))).
Proof.
  induction es as [|[u v] t IH]; intros G HF.
  - cbn. destruct G; reflexivity.
  - inversion HF as [|x l Hx Hl]; subst. cbn [gio_add_edges]. rewrite add_edge_ok by exact Hx.
    cbn [gio_bind]. rewrite IH.
    + rewrite with_edges_twice, with_edges_kind, with_edges_edges. reflexivity.
    + eapply Forall_impl; [|exact Hl]. intros e He. now apply edge_ok_with_edges.
Qed.

Lemma add_edges_inv : forall es G G', gio_add_edges G es = GOk G' ->
  Forall (edge_ok G) es /\ G' = gio_with_edges G (insert_all (map (edge_norm (io_kind G)) es) (io_edges G)).
Proof.
  induction es as [|[u v] t IH]; intros G G' H.
  - cbn in H. inversion H. split; [constructor|]. destruct G'; reflexivity.
  - cbn [gio_add_edges] in H. destruct (gio_add_edge G u v) as [G1|] eqn:E; [|discriminate].
    cbn [gio_bind] in H. apply add_edge_inv in E as [Hok ->]. apply IH in H as [HF ->].
    split.
    + constructor; [exact Hok|]. eapply Forall_impl; [|exact HF]. intros e He. now apply edge_ok_with_edges in He.
    + rewrite with_edges_twice, with_edges_kind, with_edges_edges. reflexivity.
Qed.

Lemma add_edges_exn : forall es G e, gio_add_edges G es = GRaise e -> e = EValueError.
Proof.
  induction es as [|[u v] t IH]; intros G e H; [discriminate|].
  cbn [gio_add_edges] in H. destruct (gio_add_edge G u v) as [G1|e1] eqn:E; cbn [gio_bind] in H.
  - eauto.
  - inversion H; subst. eapply add_edge_exn; eauto.
Qed.

(* ---------- well-formed graph objects ---------- *)
Definition edge_stored_ok (G : iograph) (e : Z * Z) : Prop :=
  match io_kind G with
  | GioSimple => 1 <= fst e /\ fst e < snd e /\ snd e <= io_n G
  | GioDirected => 1 <= fst e <= io_n G /\ 1 <= snd e <= io_n G
  | GioBipartite => 1 <= fst e <= io_n G /\ 1 <= snd e <= io_r G
  end.
Definition gio_wf (G : iograph) : Prop :=
  0 <= io_n G /\ 0 <= io_r G /\ (io_kind G <> GioBipartite -> io_r G = 0) /\
  ssorted (io_edges G) /\ Forall (edge_stored_ok G) (io_edges G).

Lemma edge_norm_stored G e : edge_ok G e -> edge_stored_ok G (edge_norm (io_kind G) e).
Proof. unfold edge_ok, edge_stored_ok, edge_norm. destruct (io_kind G); cbn [fst snd]; lia. Qed.

Lemma has_edge_In G u v : gio_has_edge G u v = true <-> In (edge_norm (io_kind G) (u, v)) (io_edges G).
Proof. unfold gio_has_edge, edge_norm. cbn [fst snd]. destruct (io_kind G); apply mem_In. Qed.

Lemma new_ok k name n r : 0 <= n -> 0 <= r -> gio_new k name n r = GOk (mkIOG k name n r []).
Proof. intros. unfold gio_new. replace ((n <? 0) || (r <? 0)) with false by lia. reflexivity. Qed.
Lemma new_inv k name n r G : gio_new k name n r = GOk G -> 0 <= n /\ 0 <= r /\ G = mkIOG k name n r [].
Proof. unfold gio_new. destruct ((n <? 0) || (r <? 0)) eqn:E; intros H; inversion H. repeat split; lia. Qed.
Lemma new_exn k name n r e : gio_new k name n r = GRaise e -> e = EValueError.
Proof. unfold gio_new. destruct ((n <? 0) || (r <? 0)); intros H; inversion H; reflexivity. Qed.

(* adding valid edges to a well-formed graph keeps it well-formed *)
Lemma add_edges_wf G es G' : gio_wf G -> gio_add_edges G es = GOk G' -> gio_wf G'.
Proof.
  intros (Hn & Hr & Hk & Hs & Hf) H. apply add_edges_inv in H as [HF ->].
  unfold gio_wf. cbn [gio_with_edges io_n io_r io_kind io_edges]. repeat split; auto.
  - now apply insert_all_ssorted.
  - apply Forall_forall. intros x Hx. apply insert_all_In in Hx as [Hx|Hx].
    + apply in_map_iff in Hx as [e [<- He]]. rewrite Forall_forall in HF.
      apply (edge_norm_stored G e). auto.
    + rewrite Forall_forall in Hf. apply (Hf x Hx).
Qed.

(* is_dag: every edge increases *)
Lemma is_dag_spec G : gio_is_dag G = true <-> forall u v, In (u, v) (io_edges G) -> u < v.
Proof.
  unfold gio_is_dag. rewrite forallb_forall. split.
  - intros H u v Hin. specialize (H _ Hin). cbn in H. lia.
  - intros H [u v] Hin. specialize (H _ _ Hin). cbn. lia.
Qed.
