(* Fam_tseitin_Labels.v — the component count of Fam_tseitin.num_components (label propagation:
   every vertex starts with its own number, one round gives both ends of every edge the smaller
   label, n rounds) is the number of classes of the union-find of Fam_tseitin_Forest; hence the
   model count statement of Fam_tseitin.v holds as it was written. *)
From Coq Require Import ZArith List Bool Lia ZifyBool.
From Cnfgen Require Import Sem Comb Linear SemFacts LinearFacts IR IRFacts C02Common C02CommonFacts
  Fam_tseitin Fam_tseitin_Facts Fam_tseitin_Forest Fam_tseitin_Conv Fam_tseitin_Count.
Import ListNotations.
Open Scope Z_scope.

(* ---------- the smallest vertex of a class ---------- *)
Lemma find_seq_least (p : Z -> bool) a : forall k s x,
  find p (map (fun i => a + Z.of_nat i) (seq s k)) = Some x ->
  p x = true /\ a + Z.of_nat s <= x < a + Z.of_nat s + Z.of_nat k /\ forall y, a + Z.of_nat s <= y < x -> p y = false.
Proof.
  induction k as [|k IH]; intros s x H; cbn [seq map find] in H; [discriminate|].
  destruct (p (a + Z.of_nat s)) eqn:E.
  - injection H as <-. split; [exact E|]. split; [lia|]. intros y Hy. lia.
  - apply IH in H as [Hp [Hr Hl]]. split; [exact Hp|]. split; [lia|]. intros y Hy.
    destruct (Z.eq_dec y (a + Z.of_nat s)) as [->|Hne]; [exact E|]. apply Hl. lia.
Qed.

Lemma find_rng_least (p : Z -> bool) n x : find p (rng n) = Some x ->
  p x = true /\ 1 <= x <= n /\ forall y, 1 <= y < x -> p y = false.
Proof.
  unfold rng, zrange. intros H. apply find_seq_least in H as [Hp [Hr Hl]]. split; [exact Hp|]. split; [lia|].
  intros y Hy. apply Hl. lia.
Qed.

Definition cmin (n : Z) (E : list (Z * Z)) (v : Z) : Z :=
  match find (fun x => uf (eidx E) x =? uf (eidx E) v) (rng n) with Some x => x | None => 0 end.

Lemma cmin_spec n E v : 1 <= v <= n ->
  1 <= cmin n E v <= v /\ uf (eidx E) (cmin n E v) = uf (eidx E) v /\
  forall y, 1 <= y <= n -> uf (eidx E) y = uf (eidx E) v -> cmin n E v <= y.
Proof.
  intros Hv. unfold cmin. destruct (find (fun x => uf (eidx E) x =? uf (eidx E) v) (rng n)) as [x|] eqn:F.
  - apply find_rng_least in F as [Hp [Hr Hl]]. apply Z.eqb_eq in Hp.
    assert (x <= v).
    { destruct (Z_le_dec x v) as [H|H]; [exact H|]. specialize (Hl v ltac:(lia)). rewrite Z.eqb_refl in Hl. discriminate. }
    split; [lia|]. split; [exact Hp|]. intros y Hy Hc.
    destruct (Z_le_dec x y) as [H'|H']; [exact H'|]. specialize (Hl y ltac:(lia)). apply Z.eqb_neq in Hl. contradiction.
  - pose proof (find_none _ _ F v (proj2 (In_rng v n) Hv)) as H. cbn beta in H. rewrite Z.eqb_refl in H. discriminate.
Qed.

Lemma cmin_class n E u w : uf (eidx E) u = uf (eidx E) w -> cmin n E u = cmin n E w.
Proof. intros H. unfold cmin. now rewrite H. Qed.

Lemma cmin_idem n E v : 1 <= v <= n -> cmin n E (cmin n E v) = cmin n E v.
Proof. intros Hv. apply cmin_class. apply (cmin_spec n E v Hv). Qed.

(* ---------- label propagation on functions ---------- *)
Definition relaxf (f : Z -> Z) (e : Z * Z) : Z -> Z :=
  fun v => if (v =? fst e) || (v =? snd e) then Z.min (f (fst e)) (f (snd e)) else f v.
Fixpoint roundsf (k : nat) (E : list (Z * Z)) (g : Z -> Z) : Z -> Z :=
  match k with O => g | S k' => roundsf k' E (fold_left relaxf E g) end.

(* labels stay inside the class *)
Definition linv (n : Z) (E : list (Z * Z)) (h : Z -> Z) : Prop :=
  forall v, 1 <= v <= n -> 1 <= h v <= n /\ uf (eidx E) (h v) = uf (eidx E) v.

Lemma edge_same_class E e : In e E -> uf (eidx E) (fst e) = uf (eidx E) (snd e).
Proof.
  intros He. pose proof (uf_class_closed E (uf (eidx E) (fst e)) e He) as H. cbn beta in H.
  rewrite Z.eqb_refl in H. symmetry in H. apply Z.eqb_eq in H. now symmetry.
Qed.

Lemma linv_ge n E h v : linv n E h -> 1 <= v <= n -> cmin n E v <= h v.
Proof. intros H Hv. destruct (H v Hv) as [Hr Hc]. now apply (cmin_spec n E v Hv). Qed.

Lemma relaxf_le h e v : relaxf h e v <= h v.
Proof.
  unfold relaxf. destruct (Z.eqb_spec v (fst e)) as [->|_]; [cbn; lia|].
  destruct (Z.eqb_spec v (snd e)) as [->|_]; cbn; lia.
Qed.

Lemma relaxf_inv n E h e : edges_ok n E = true -> In e E -> linv n E h -> linv n E (relaxf h e).
Proof.
  intros Hok He H v Hv. unfold relaxf. destruct ((v =? fst e) || (v =? snd e)) eqn:Q; [|now apply H].
  pose proof (edge_same_class E e He) as Hc. destruct e as [u w]. cbn [fst snd] in *.
  pose proof (edges_ok_in n E u w Hok He) as Hr.
  destruct (H u ltac:(lia)) as [Ru Cu]. destruct (H w ltac:(lia)) as [Rw Cw].
  assert (Hcv : uf (eidx E) v = uf (eidx E) u).
  { apply orb_true_iff in Q as [Q|Q]; apply Z.eqb_eq in Q; subst; congruence. }
  destruct (Z.min_spec (h u) (h w)) as [[_ ->]|[_ ->]]; split; try lia; congruence.
Qed.

Lemma fold_inv n E : edges_ok n E = true -> forall Es h, incl Es E -> linv n E h ->
  linv n E (fold_left relaxf Es h) /\ forall v, fold_left relaxf Es h v <= h v.
Proof.
  intros Hok. induction Es as [|e Es IH]; intros h Hin H; [split; [exact H|intros; cbn; lia]|].
  cbn [fold_left]. destruct (IH (relaxf h e)) as [H1 H2].
  - intros x Hx. apply Hin. now right.
  - apply (relaxf_inv n E h e Hok); [apply Hin; now left|exact H].
  - split; [exact H1|]. intros v. specialize (H2 v). pose proof (relaxf_le h e v). lia.
Qed.

(* a vertex that has reached the smallest label of its class keeps it *)
Lemma stay n E : edges_ok n E = true -> forall Es h v, incl Es E -> linv n E h -> 1 <= v <= n ->
  h v = cmin n E v -> fold_left relaxf Es h v = cmin n E v.
Proof.
  intros Hok Es h v Hin H Hv Hd. destruct (fold_inv n E Hok Es h Hin H) as [H1 H2].
  pose proof (linv_ge n E _ v H1 Hv). specialize (H2 v). lia.
Qed.

(* an edge with one finished end finishes the other end during the round *)
Lemma fold_hit n E e : edges_ok n E = true -> In e E -> forall Es h, incl Es E -> linv n E h -> In e Es ->
  h (fst e) = cmin n E (fst e) \/ h (snd e) = cmin n E (snd e) ->
  fold_left relaxf Es h (fst e) = cmin n E (fst e) /\ fold_left relaxf Es h (snd e) = cmin n E (snd e).
Proof.
  intros Hok HeE.
  assert (Hr : 1 <= fst e <= n /\ 1 <= snd e <= n).
  { destruct e as [u w]. pose proof (edges_ok_in n E u w Hok HeE). cbn [fst snd]. lia. }
  assert (Hcm : cmin n E (fst e) = cmin n E (snd e)) by (apply cmin_class; now apply edge_same_class).
  induction Es as [|e0 Es IH]; intros h Hin H He Hd; [destruct He|]. cbn [fold_left].
  assert (H1 : linv n E (relaxf h e0)) by (apply (relaxf_inv n E h e0 Hok); [apply Hin; now left|exact H]).
  assert (Hin' : incl Es E) by (intros x Hx; apply Hin; now right).
  pose proof (linv_ge n E h (fst e) H (proj1 Hr)) as G1. pose proof (linv_ge n E h (snd e) H (proj2 Hr)) as G2.
  destruct He as [->|He].
  - assert (Hm : Z.min (h (fst e)) (h (snd e)) = cmin n E (fst e)) by lia.
    split; apply (stay n E Hok); try assumption; try tauto; unfold relaxf.
    + rewrite Z.eqb_refl. cbn [orb]. exact Hm.
    + rewrite Z.eqb_refl, orb_true_r. lia.
  - apply IH; try assumption.
    pose proof (relaxf_le h e0 (fst e)). pose proof (relaxf_le h e0 (snd e)).
    pose proof (linv_ge n E _ (fst e) H1 (proj1 Hr)). pose proof (linv_ge n E _ (snd e) H1 (proj2 Hr)). lia.
Qed.

Lemma forallb_false_ex {A} (p : A -> bool) l : forallb p l = false -> exists x, In x l /\ p x = false.
Proof.
  induction l as [|x l IH]; [discriminate|]. cbn [forallb]. destruct (p x) eqn:E.
  - intros H. destruct (IH H) as [y [Hy Py]]. exists y. split; [now right|exact Py].
  - intros _. exists x. split; [now left|exact E].
Qed.

Definition donec (n : Z) (E : list (Z * Z)) (h : Z -> Z) : Z := len (filter (fun v => h v =? cmin n E v) (rng n)).

(* a round finishes a new vertex unless all are finished *)
Lemma progress n E h : edges_ok n E = true -> linv n E h -> (forall v, 1 <= v <= n -> h v <= v) ->
  (forall v, 1 <= v <= n -> h v = cmin n E v) \/ donec n E h < donec n E (fold_left relaxf E h).
Proof.
  intros Hok H Hid. destruct (forallb (fun v => h v =? cmin n E v) (rng n)) eqn:F.
  - left. intros v Hv. rewrite forallb_forall in F. apply Z.eqb_eq. apply F. now apply In_rng.
  - right. apply forallb_false_ex in F as [v0 [Hv0 N0]]. apply In_rng in Hv0.
    set (S := fun v => h v =? cmin n E v) in *.
    destruct (forallb (fun e => eqb (S (fst e)) (S (snd e))) E) eqn:G.
    + exfalso. rewrite forallb_forall in G.
      assert (Hcl : closed_under_edges S E) by (intros e He; apply eqb_prop; now apply G).
      pose proof (uf_closed (eidx E) S (proj1 (closed_eidx S E) Hcl)) as HS.
      destruct (cmin_spec n E v0 Hv0) as [Hr [Hc _]].
      assert (Sm : S (cmin n E v0) = true).
      { unfold S. apply Z.eqb_eq. rewrite cmin_idem by assumption.
        pose proof (linv_ge n E h (cmin n E v0) H ltac:(lia)) as G1. rewrite cmin_idem in G1 by assumption.
        specialize (Hid (cmin n E v0) ltac:(lia)). lia. }
      rewrite <- HS, Hc, HS in Sm. change (S v0 = false) in N0. congruence.
    + apply forallb_false_ex in G as [e [He Ne]].
      assert (Hr : 1 <= fst e <= n /\ 1 <= snd e <= n).
      { destruct e as [u w]. pose proof (edges_ok_in n E u w Hok He). cbn [fst snd]. lia. }
      assert (Hd : h (fst e) = cmin n E (fst e) \/ h (snd e) = cmin n E (snd e)).
      { unfold S in Ne. destruct (Z.eqb_spec (h (fst e)) (cmin n E (fst e))); [now left|].
        destruct (Z.eqb_spec (h (snd e)) (cmin n E (snd e))); [now right|discriminate]. }
      destruct (fold_hit n E e Hok He E h (incl_refl E) H He Hd) as [D1 D2].
      assert (Hmono : forall y, In y (rng n) -> S y = true -> (fold_left relaxf E h y =? cmin n E y) = true).
      { intros y Hy Sy. apply In_rng in Hy. apply Z.eqb_eq. apply (stay n E Hok); auto using incl_refl. now apply Z.eqb_eq. }
      unfold donec. fold S.
      destruct (S (fst e)) eqn:S1.
      * apply (filter_len_lt _ _ _ (snd e)); [exact Hmono|now apply In_rng|now apply Z.eqb_eq|].
        destruct (S (snd e)); [discriminate|reflexivity].
      * apply (filter_len_lt _ _ _ (fst e)); [exact Hmono|now apply In_rng|now apply Z.eqb_eq|exact S1].
Qed.

Lemma filter_full {A} (p : A -> bool) l : len l <= len (filter p l) -> forall x, In x l -> p x = true.
Proof.
  induction l as [|y l IH]; intros H x Hx; [destruct Hx|]. cbn [filter] in H. rewrite len_cons in H.
  pose proof (filter_len_le p (fun _ => true) l (fun _ _ _ => eq_refl)) as Hle.
  assert (E : filter (fun _ : A => true) l = l) by (clear; induction l as [|z l IHl]; [reflexivity|cbn; now rewrite IHl]).
  rewrite E in Hle. destruct (p y) eqn:Py.
  - rewrite len_cons in H. destruct Hx as [<-|Hx]; [exact Py|]. apply IH; [lia|exact Hx].
  - exfalso. lia.
Qed.

Lemma filter_true_len {A} (p : A -> bool) l : (forall x, In x l -> p x = true) -> len (filter p l) = len l.
Proof.
  induction l as [|y l IH]; intros H; [reflexivity|]. cbn [filter]. rewrite (H y) by (now left).
  rewrite !len_cons, IH; [reflexivity|]. intros x Hx. apply H. now right.
Qed.

Lemma rounds_done n E : 0 <= n -> edges_ok n E = true -> forall k h, linv n E h -> (forall v, 1 <= v <= n -> h v <= v) ->
  n <= donec n E h + Z.of_nat k -> forall v, 1 <= v <= n -> roundsf k E h v = cmin n E v.
Proof.
  intros Hn Hok. induction k as [|k IH]; intros h H Hid Hc v Hv.
  - cbn [roundsf]. apply Z.eqb_eq. apply (filter_full (fun v => h v =? cmin n E v) (rng n)); [|now apply In_rng].
    rewrite len_rng by assumption. unfold donec in Hc. lia.
  - cbn [roundsf]. destruct (fold_inv n E Hok E h (incl_refl E) H) as [H1 H2].
    apply IH; [exact H1| |  |exact Hv].
    + intros y Hy. specialize (H2 y). specialize (Hid y Hy). lia.
    + destruct (progress n E h Hok H Hid) as [Hall|Hlt]; [|lia].
      assert (donec n E (fold_left relaxf E h) = n); [|lia].
      unfold donec. rewrite filter_true_len, len_rng; [reflexivity|assumption|].
      intros y Hy. apply In_rng in Hy. apply Z.eqb_eq. apply (stay n E Hok); auto using incl_refl.
Qed.

Lemma labels_final n E : 0 <= n -> edges_ok n E = true ->
  forall v, 1 <= v <= n -> roundsf (Z.to_nat n) E (fun v => v) v = cmin n E v.
Proof.
  intros Hn Hok. apply rounds_done; try assumption.
  - intros v Hv. split; [exact Hv|reflexivity].
  - intros; lia.
  - pose proof (len_nonneg (filter (fun v => v =? cmin n E v) (rng n))). unfold donec. lia.
Qed.

(* ---------- from lists of labels to functions ---------- *)
Definition getl (lab : list Z) (v : Z) : Z := nth (Z.to_nat (v - 1)) lab 0.

Lemma set_nth_length : forall l i x, length (set_nth l i x) = length l.
Proof. induction l as [|y l IH]; intros [|i] x; cbn; auto. Qed.
Lemma nth_set_nth : forall l i x j d, (i < length l)%nat ->
  nth j (set_nth l i x) d = if (j =? i)%nat then x else nth j l d.
Proof.
  induction l as [|y l IH]; intros [|i] x [|j] d Hi; cbn in *; try lia; try reflexivity.
  apply IH. lia.
Qed.

Lemma relax_edge_length lab e : length (relax_edge lab e) = length lab.
Proof. unfold relax_edge. now rewrite !set_nth_length. Qed.

Lemma relax_edge_get n lab e : length lab = Z.to_nat n -> 1 <= fst e <= n -> 1 <= snd e <= n ->
  forall v, 1 <= v <= n -> getl (relax_edge lab e) v = relaxf (getl lab) e v.
Proof.
  intros Hl Hu Hw v Hv. unfold relax_edge, getl, relaxf.
  rewrite !nth_set_nth by (rewrite ?set_nth_length; lia).
  destruct (Z.eqb_spec v (snd e)) as [->|Hne2].
  - rewrite Nat.eqb_refl, orb_true_r. reflexivity.
  - destruct (Nat.eqb_spec (Z.to_nat (v - 1)) (Z.to_nat (snd e - 1))) as [E'|_]; [lia|].
    destruct (Z.eqb_spec v (fst e)) as [->|Hne1].
    + rewrite Nat.eqb_refl. reflexivity.
    + destruct (Nat.eqb_spec (Z.to_nat (v - 1)) (Z.to_nat (fst e - 1))) as [E'|_]; [lia|]. reflexivity.
Qed.

Lemma relaxf_ext n f g e : 1 <= fst e <= n -> 1 <= snd e <= n -> (forall v, 1 <= v <= n -> f v = g v) ->
  forall v, 1 <= v <= n -> relaxf f e v = relaxf g e v.
Proof. intros Hu Hw H v Hv. unfold relaxf. now rewrite (H _ Hu), (H _ Hw), (H _ Hv). Qed.

Lemma fold_get n : forall Es lab f, length lab = Z.to_nat n ->
  (forall e, In e Es -> 1 <= fst e <= n /\ 1 <= snd e <= n) -> (forall v, 1 <= v <= n -> getl lab v = f v) ->
  length (fold_left relax_edge Es lab) = Z.to_nat n /\
  forall v, 1 <= v <= n -> getl (fold_left relax_edge Es lab) v = fold_left relaxf Es f v.
Proof.
  induction Es as [|e Es IH]; intros lab f Hl Hr Hf; [split; assumption|]. cbn [fold_left].
  destruct (Hr e (or_introl eq_refl)) as [Hu Hw].
  apply IH; [now rewrite relax_edge_length|intros x Hx; apply Hr; now right|].
  intros v Hv. rewrite (relax_edge_get n lab e Hl Hu Hw v Hv). now apply (relaxf_ext n).
Qed.

Lemma rounds_get n E : (forall e, In e E -> 1 <= fst e <= n /\ 1 <= snd e <= n) ->
  forall k lab f, length lab = Z.to_nat n -> (forall v, 1 <= v <= n -> getl lab v = f v) ->
  length (relax_rounds k E lab) = Z.to_nat n /\
  forall v, 1 <= v <= n -> getl (relax_rounds k E lab) v = roundsf k E f v.
Proof.
  intros Hr. induction k as [|k IH]; intros lab f Hl Hf; [split; assumption|]. cbn [relax_rounds roundsf].
  destruct (fold_get n E lab f Hl Hr Hf) as [Hl' Hf']. now apply IH.
Qed.

Lemma getl_rng n v : 1 <= v <= n -> getl (rng n) v = v.
Proof.
  intros Hv. unfold getl, rng, zrange.
  rewrite (nth_indep _ 0 (1 + Z.of_nat 0)) by (rewrite map_length, seq_length; lia).
  rewrite (map_nth (fun i => 1 + Z.of_nat i) (seq 0 (Z.to_nat (n + 1 - 1))) 0%nat), seq_nth by lia. lia.
Qed.

Lemma labels_as_map lab : map (getl lab) (rng (Z.of_nat (length lab))) = lab.
Proof.
  rewrite rng_as_seq, map_map. transitivity (map (fun i => nth i lab 0) (seq 0 (length lab))); [|apply map_nth_seq].
  apply map_ext. intros i. unfold getl. f_equal. lia.
Qed.

Lemma combine_map {A B} (f : A -> B) l : combine l (map f l) = map (fun v => (v, f v)) l.
Proof. induction l as [|x l IH]; [reflexivity|]. cbn. now rewrite IH. Qed.

Lemma filter_map_len {A B} (p : B -> bool) (f : A -> B) l : len (filter p (map f l)) = len (filter (fun x => p (f x)) l).
Proof. induction l as [|x l IH]; [reflexivity|]. cbn [map filter]. destruct (p (f x)); rewrite ?len_cons, IH; reflexivity. Qed.

(* the number of fixed points of two representative functions of the same partition *)
Lemma count_reps (p q : Z -> Z) l : NoDup l ->
  (forall v, In v l -> In (p v) l /\ In (q v) l) ->
  (forall v, In v l -> p (p v) = p v /\ q (q v) = q v) ->
  (forall u w, In u l -> In w l -> (p u = p w <-> q u = q w)) ->
  len (filter (fun v => p v =? v) l) = len (filter (fun v => q v =? v) l).
Proof.
  assert (Hhalf : forall p q : Z -> Z, NoDup l ->
    (forall v, In v l -> In (q v) l) -> (forall v, In v l -> q (q v) = q v) ->
    (forall u w, In u l -> In w l -> q u = q w -> p u = p w) ->
    Nat.le (length (filter (fun v => p v =? v) l)) (length (filter (fun v => q v =? v) l))).
  { clear p q. intros p q Hnd Hq Hqq Hpq. rewrite <- (map_length q (filter (fun v => p v =? v) l)).
    apply NoDup_incl_length.
    - apply NoDup_map_inj_in; [|now apply NoDup_filter].
      intros a b Ha Hb Hab. apply filter_In in Ha as [Ha Pa]. apply filter_In in Hb as [Hb Pb].
      apply Z.eqb_eq in Pa, Pb. rewrite <- Pa, <- Pb. now apply Hpq.
    - intros y Hy. apply in_map_iff in Hy as [a [<- Ha]]. apply filter_In in Ha as [Ha _]. apply filter_In.
      split; [now apply Hq|]. apply Z.eqb_eq. now apply Hqq. }
  intros Hnd Hr Hi Heq. unfold len. f_equal. apply Nat.le_antisymm.
  - apply Hhalf; [exact Hnd|intros v Hv; apply (Hr v Hv)|intros v Hv; apply (Hi v Hv)|intros u w Hu Hw; apply (Heq u w Hu Hw)].
  - apply Hhalf; [exact Hnd|intros v Hv; apply (Hr v Hv)|intros v Hv; apply (Hi v Hv)|intros u w Hu Hw; apply (Heq u w Hu Hw)].
Qed.

(* ---------- the two component counts agree ---------- *)
Theorem num_components_uf n E : 0 <= n -> edges_ok n E = true -> num_components n E = uf_components n E.
Proof.
  intros Hn Hok.
  assert (Hr : forall e, In e E -> 1 <= fst e <= n /\ 1 <= snd e <= n).
  { intros [u w] He. pose proof (edges_ok_in n E u w Hok He). cbn [fst snd]. lia. }
  assert (Hlen0 : length (rng n) = Z.to_nat n) by (unfold rng; rewrite length_zrange; lia).
  destruct (rounds_get n E Hr (Z.to_nat n) (rng n) (fun v => v) Hlen0 (getl_rng n)) as [Hlen Hget].
  fold (component_labels n E) in Hlen, Hget.
  unfold num_components, uf_components. set (lab := component_labels n E) in *.
  assert (Hlab : lab = map (getl lab) (rng n)).
  { rewrite <- (labels_as_map lab) at 1. rewrite Hlen. now replace (Z.of_nat (Z.to_nat n)) with n by lia. }
  rewrite Hlab at 1. rewrite combine_map, filter_map_len. cbn [fst snd].
  rewrite (filter_ext_in (fun x => x =? getl lab x) (fun v => cmin n E v =? v)).
  2:{ intros v Hv. apply In_rng in Hv. rewrite (Hget v Hv), (labels_final n E Hn Hok v Hv). apply Z.eqb_sym. }
  apply count_reps.
  - apply NoDup_rng.
  - intros v Hv. apply In_rng in Hv. split; apply In_rng.
    + pose proof (cmin_spec n E v Hv). lia.
    + apply (uf_range n (eidx E)); [|exact Hv]. intros y Hy. pose proof (proj2 (eidx_iedges_ok n E Hok) y Hy). lia.
  - intros v Hv. apply In_rng in Hv. split; [now apply cmin_idem|apply uf_idem].
  - intros u w Hu Hw. apply In_rng in Hu, Hw. split.
    + intros H. rewrite <- (proj1 (proj2 (cmin_spec n E u Hu))), <- (proj1 (proj2 (cmin_spec n E w Hw))). now rewrite H.
    + apply cmin_class.
Qed.

(* the model count exactly as stated in Fam_tseitin.v *)
Theorem tseitin_model_count : tseitin_model_count_statement.
Proof.
  intros n E ch Hwf Hs. unfold graph_wf in Hwf. apply andb_true_iff in Hwf as [Hwf _]. apply andb_true_iff in Hwf as [Hn Hok].
  apply Z.leb_le in Hn. rewrite (num_components_uf n E Hn Hok). now apply tseitin_model_count_uf.
Qed.
