(* ShuffleMain.v -- whole-program model of the command line tool `cnfshuffle`:
   (environment, argv, standard input, stream of primitive random draws) -> bytes written.
   Definitions only.

   Models (the tree in /repo as it is now, CPython 3.12.1)
     cnfgen/clitools/cnfshuffle.py   cli(): the argparse parser (options below), `if args.seed: random.seed(args.seed)`,
                                     CNF.from_file(args.input), Shuffle(F, 'fixed'|'shuffle' x 3),
                                     G.to_file(args.output, fileformat='dimacs', export_header=args.verbose);
                                     main(): ValueError -> "c DIMACS ERROR: ..." exit 255, CLIError -> exit 255,
                                     any other exception is not caught (traceback, exit 1)
     cnfgen/transformations/shuffle.py  Shuffle with the strings 'shuffle' / 'fixed':
                                       polarity_flips        = [random.choice([-1, 1]) for x in range(N)]
                                       variables_permutation = list(range(1, N+1)); random.shuffle(..)
                                       tmp = list(range(M)); random.shuffle(tmp)      (in THIS order)
                                     and then the code path of explicit arguments: Shuffle.shuffle (coq/Shuffle.v)
     cnfgen/utils/parsedimacs.py     from_dimacs_file / to_dimacs_file: Dimacs.parse_dimacs / Dimacs.print_dimacs
                                     (standard input: lines end at "\n" only, as CPython creates sys.stdin on POSIX;
                                      a file named by -i: universal newlines)
     cnfgen/formula/basecnf.py       the header of the formula that was read (description 'Formula from DIMACS file <name>',
                                     generator, copyright, url) and Shuffle's change of it: Header.shuffle_header
     Lib/random.py (CPython 3.12.1)  Random.choice(seq)   = seq[self._randbelow(len(seq))]
                                     Random.shuffle(x)    = for i in reversed(range(1, len(x))):
                                                                j = randbelow(i + 1); x[i], x[j] = x[j], x[i]
                                     Random._randbelow_with_getrandbits(n) =
                                         k = n.bit_length(); r = getrandbits(k); while r >= n: r = getrandbits(k); return r
     Lib/argparse.py (CPython 3.12.1) _parse_optional, _get_option_tuples (abbreviated long options, ambiguity,
                                     "-Xvalue", "--opt=value", negative-number-like tokens, tokens with a blank),
                                     consume_optional (joined single-dash flags "-pvc", "-pi" FILE, explicit arguments),
                                     "expected one argument", "ignored explicit argument", "unrecognized arguments",
                                     FileType('r') / FileType('w') with "-" = standard input / output

   THE ORACLE.  The stream of primitive draws is the list of the values `getrandbits(k)` returned, in the order of the
   calls (the seed decides this stream; the model does not look at the seed).  [shm_randbelow n] replays
   _randbelow_with_getrandbits(n) on the stream: values >= n are rejected and the next one is read.  A stream that ends
   early gives ShmOracleEnd; a value getrandbits(k) cannot return (negative or >= 2^k) gives ShmOracleBad.

   OPTION GRAMMAR.  [argv] is sys.argv[1:].  Options: -o/--output FILE, -S/--seed SEED, -i/--input FILE,
   -p/--no-polarity-flips, -v/--no-variables-permutation, -c/--no-clauses-permutation, -q/--quiet, -h/--help, in every
   spelling argparse accepts (unique prefixes of the long names, "--name=value", "-Svalue", joined flags).
   Outside the model (ShmOutside, the model claims nothing):
     * a token "--" (argparse's end-of-options marker), a token with a character that is not ASCII;
     * -h/--help when argparse reaches it before an error (the help text is written, exit 0);
     * the input file being one of the files named by -o (the file is truncated before it is read).
   Inside, the result is ShmOut dest text (exit 0; `text` are exactly the bytes written to standard output when dest =
   None, or to the file `dest`, then nothing is written to standard output), ShmCliError (message on the error stream,
   exit 255, nothing on standard output: every argparse error, an input file that cannot be opened, an output file
   that cannot be created, every ValueError of the DIMACS reader) or ShmCrash (an exception main() does not catch).

   THE ENVIRONMENT [shm_env]: the version string of the installation (info['version'], written in the header), the
   readable files (name, content as text) and the names that cannot be opened for writing.  Files named by earlier -o
   options are created empty by argparse; this is not part of the result.

   ShmCrash is reached (as found) exactly when -p is given and the `p cnf` line declares 2^63 or more variables:
   `[1] * N` raises OverflowError.  [cnfshuffle_main_repaired] is the tool after the proposed repair (the error is
   reported as a command line error).  A declared N between about 2^27 and 2^63, or a huge N without -p (N calls of
   random.choice), is a matter of memory and time of the real run, not of this model.

   Abstracted: the text of error messages; the error stream; decoding of the input bytes (the input is a text of code
   points 0..255; undecodable input raises UnicodeDecodeError, a ValueError, i.e. a command line error);
   sys.stdin being a terminal (the interactive message goes to the error stream).
   Identifiers are prefixed shm_ / Shm / Sa / Sc / St / Pa / Dr / so_ (single extracted OCaml module). *)
From Coq Require Import ZArith List Bool Ascii String.
From Cnfgen Require Import Sem Comb Text Dimacs Header Shuffle.
Import ListNotations.
Open Scope Z_scope.

(* ------------------------------------------------------------------ *)
(* results                                                             *)
(* ------------------------------------------------------------------ *)
Inductive shm_result :=
| ShmOut (dest : option text) (t : text)
| ShmCliError
| ShmCrash
| ShmOutside
| ShmOracleEnd
| ShmOracleBad.

Record shm_env := ShmEnv {
  shm_version : string;
  shm_files : list (text * text);
  shm_nowrite : list text
}.

(* ------------------------------------------------------------------ *)
(* the primitive draws                                                 *)
(* ------------------------------------------------------------------ *)
(* int.bit_length() *)
Definition shm_bitlen (n : Z) : Z := if n <=? 0 then 0 else Z.log2 n + 1.

Inductive shm_dr (A : Type) :=
| DrOk (a : A) (rest : list Z)
| DrEnd
| DrBad.
Arguments DrOk {A} a rest.
Arguments DrEnd {A}.
Arguments DrBad {A}.

(* Random._randbelow_with_getrandbits(n) on the recorded values of getrandbits(n.bit_length()) *)
Fixpoint shm_randbelow (n : Z) (o : list Z) : shm_dr Z :=
  match o with
  | [] => DrEnd
  | r :: o' =>
    if (r <? 0) || (2 ^ shm_bitlen n <=? r) then DrBad
    else if r <? n then DrOk r o'
    else shm_randbelow n o'
  end.

(* one _randbelow call per bound, in order *)
Fixpoint shm_draws (bounds : list Z) (o : list Z) : shm_dr (list Z) :=
  match bounds with
  | [] => DrOk [] o
  | b :: bs =>
    match shm_randbelow b o with
    | DrOk r o' =>
      match shm_draws bs o' with
      | DrOk rs o'' => DrOk (r :: rs) o''
      | DrEnd => DrEnd
      | DrBad => DrBad
      end
    | DrEnd => DrEnd
    | DrBad => DrBad
    end
  end.

(* [random.choice([-1, 1]) for x in range(n)] : n calls of _randbelow(2) *)
Definition shm_choice_bounds (n : Z) : list Z := repeat 2 (Z.to_nat n).
(* random.shuffle of a list of length n: _randbelow(i + 1) for i = n-1, n-2, ..., 1 *)
Fixpoint shm_down (i : nat) : list Z :=
  match i with
  | O => []
  | S i' => (Z.of_nat i + 1) :: shm_down i'
  end.
Definition shm_shuffle_bounds (n : Z) : list Z := shm_down (Z.to_nat n - 1).

(* the bounds of all _randbelow calls of one run: a function of the three switches, the number of
   variables and the number of clauses only *)
Definition shm_bounds (nop nov noc : bool) (N M : Z) : list Z :=
  (if nop then [] else shm_choice_bounds N) ++
  (if nov then [] else shm_shuffle_bounds N) ++
  (if noc then [] else shm_shuffle_bounds M).

(* [-1, 1][r] *)
Definition shm_flips (rs : list Z) : list Z := map (fun r => if r =? 0 then -1 else 1) rs.

(* x[i] = v *)
Fixpoint shm_set {A} (i : nat) (v : A) (x : list A) : list A :=
  match x with
  | [] => []
  | a :: t => match i with
              | O => v :: t
              | S i' => a :: shm_set i' v t
              end
  end.
(* x[i], x[j] = x[j], x[i] *)
Definition shm_swap (i j : nat) (x : list Z) : list Z :=
  shm_set j (nth i x 0) (shm_set i (nth j x 0) x).
(* the loop of random.shuffle from index i down to 1, with the drawn j's *)
Fixpoint shm_fy (i : nat) (js : list Z) (x : list Z) : list Z :=
  match i, js with
  | S i', j :: js' => shm_fy i' js' (shm_swap i (Z.to_nat j) x)
  | _, _ => x
  end.
Definition shm_shuffle_list (js : list Z) (x : list Z) : list Z := shm_fy (List.length x - 1) js x.

(* the three arguments Shuffle continues with, from the results of the _randbelow calls *)
Definition shm_args (nop nov noc : bool) (N M : Z) (rs : list Z) : sharg * sharg * sharg :=
  let n1 := if nop then O else List.length (shm_choice_bounds N) in
  let n2 := if nov then O else List.length (shm_shuffle_bounds N) in
  let r1 := firstn n1 rs in
  let r2 := firstn n2 (skipn n1 rs) in
  let r3 := skipn n2 (skipn n1 rs) in
  (if nop then ShFixed else ShGiven (shm_flips r1),
   if nov then ShFixed else ShGiven (shm_shuffle_list r2 (zrange 1 (1 + N))),
   if noc then ShFixed else ShGiven (shm_shuffle_list r3 (zrange 0 (0 + M)))).

(* ------------------------------------------------------------------ *)
(* the command line                                                    *)
(* ------------------------------------------------------------------ *)
Fixpoint shm_teqb (a b : text) : bool :=
  match a, b with
  | [], [] => true
  | x :: a', y :: b' => Ascii.eqb x y && shm_teqb a' b'
  | _, _ => false
  end.
Definition shm_mem (x : text) (l : list text) : bool := existsb (shm_teqb x) l.
Fixpoint shm_prefix (p s : text) : bool :=
  match p, s with
  | [], _ => true
  | _ :: _, [] => false
  | x :: p', y :: s' => Ascii.eqb x y && shm_prefix p' s'
  end.
Fixpoint shm_assoc (x : text) (l : list (text * text)) : option text :=
  match l with
  | [] => None
  | (k, v) :: r => if shm_teqb x k then Some v else shm_assoc x r
  end.

Definition shm_dash : ascii := "-"%char.
Definition shm_is_ascii (t : text) : bool := forallb (fun c => code c <? 128) t.

Inductive shm_action := SaOutput | SaSeed | SaInput | SaNoPol | SaNoVar | SaNoCla | SaQuiet | SaHelp.
Definition shm_takes_arg (a : shm_action) : bool :=
  match a with SaOutput | SaSeed | SaInput => true | _ => false end.
Definition shm_is_help (a : shm_action) : bool := match a with SaHelp => true | _ => false end.

(* parser._option_string_actions, in the order the options are added *)
Definition shm_option_table : list (text * shm_action) :=
  [ (lit "-h", SaHelp); (lit "--help", SaHelp);
    (lit "--output", SaOutput); (lit "-o", SaOutput);
    (lit "--seed", SaSeed); (lit "-S", SaSeed);
    (lit "--input", SaInput); (lit "-i", SaInput);
    (lit "--no-polarity-flips", SaNoPol); (lit "-p", SaNoPol);
    (lit "--no-variables-permutation", SaNoVar); (lit "-v", SaNoVar);
    (lit "--no-clauses-permutation", SaNoCla); (lit "-c", SaNoCla);
    (lit "--quiet", SaQuiet); (lit "-q", SaQuiet) ].
Fixpoint shm_lookup_in (t : text) (l : list (text * shm_action)) : option shm_action :=
  match l with
  | [] => None
  | (k, a) :: r => if shm_teqb t k then Some a else shm_lookup_in t r
  end.
Definition shm_lookup (t : text) : option shm_action := shm_lookup_in t shm_option_table.

(* an option string whose second character is not a prefix character *)
Definition shm_is_short (t : text) : bool :=
  match t with
  | _ :: c2 :: _ => negb (Ascii.eqb c2 shm_dash)
  | _ => false
  end.

(* s.split('=', 1) when '=' occurs in s *)
Fixpoint shm_split_eq (t : text) : option (text * text) :=
  match t with
  | [] => None
  | c :: r =>
    if Ascii.eqb c "="%char then Some ([], r)
    else match shm_split_eq r with
         | Some (a, b) => Some (c :: a, b)
         | None => None
         end
  end.

(* parser._negative_number_matcher = re.compile(r'^-\d+$|^-\d*\.\d+$'); `$` also matches before one final "\n" *)
Definition shm_all_digits (t : text) : bool := nonempty t && forallb is_digit t.
Fixpoint shm_skip_digits (t : text) : text :=
  match t with
  | [] => []
  | c :: r => if is_digit c then shm_skip_digits r else t
  end.
Fixpoint shm_chop_lf (t : text) : text :=
  match t with
  | [] => []
  | [c] => if is_lf c then [] else [c]
  | c :: r => c :: shm_chop_lf r
  end.
Definition shm_neg_body (r : text) : bool :=
  shm_all_digits r ||
  match shm_skip_digits r with
  | d :: r' => Ascii.eqb d "."%char && shm_all_digits r'
  | [] => false
  end.
Definition shm_neg_number (t : text) : bool :=
  match t with
  | c :: r => Ascii.eqb c shm_dash && (shm_neg_body r || shm_neg_body (shm_chop_lf r))
  | [] => false
  end.

Inductive shm_class :=
| ScArg                                                      (* 'A' *)
| ScOpt (a : shm_action) (short : bool) (explicit : option text)   (* 'O' with its option tuple *)
| ScUnknown                                                  (* 'O', no such option: goes to the extras *)
| ScAmbiguous.                                               (* parser.error("ambiguous option ...") *)

(* ArgumentParser._parse_optional + _get_option_tuples for this parser *)
Definition shm_classify (t : text) : shm_class :=
  match t with
  | [] => ScArg
  | c :: r =>
    if negb (Ascii.eqb c shm_dash) then ScArg
    else
      match shm_lookup t with
      | Some a => ScOpt a (shm_is_short t) None
      | None =>
        match r with
        | [] => ScArg
        | c2 :: r2 =>
          let eq := shm_split_eq t in
          match (match eq with
                 | Some (p, e) => match shm_lookup p with Some a => Some (a, p, e) | None => None end
                 | None => None
                 end) with
          | Some (a, p, e) => ScOpt a (shm_is_short p) (Some e)
          | None =>
            let tuples : list (shm_action * bool * option text) :=
              if Ascii.eqb c2 shm_dash then
                let pe := match eq with Some (p, e) => (p, Some e) | None => (t, None) end in
                map (fun oa => (snd oa, false, snd pe))
                    (filter (fun oa => shm_prefix (fst pe) (fst oa)) shm_option_table)
              else
                (* an option string equal to the first two characters; the rest is its explicit argument
                   (no option string of this parser starts with a longer single-dash token) *)
                map (fun oa => (snd oa, true, Some r2))
                    (filter (fun oa => shm_teqb (fst oa) [c; c2]) shm_option_table) in
            match tuples with
            | [(a, s, e)] => ScOpt a s e
            | _ :: _ :: _ => ScAmbiguous
            | [] =>
              if shm_neg_number t then ScArg
              else if existsb (Ascii.eqb " "%char) t then ScArg
              else ScUnknown
            end
          end
        end
      end
  end.

Definition shm_is_ambiguous (t : text) : bool :=
  match shm_classify t with ScAmbiguous => true | _ => false end.

Record shm_opts := ShmOpts {
  so_nop : bool;               (* -p *)
  so_nov : bool;               (* -v *)
  so_noc : bool;               (* -c *)
  so_quiet : bool;             (* -q *)
  so_seed : option text;       (* args.seed *)
  so_input : option text;      (* None: standard input *)
  so_output : option text;     (* None: standard output *)
  so_outs : list text          (* every file opened for writing while parsing *)
}.
Definition shm_opts0 : shm_opts := ShmOpts false false false false None None None [].

Definition shm_set_flag (a : shm_action) (o : shm_opts) : shm_opts :=
  match a with
  | SaNoPol => ShmOpts true (so_nov o) (so_noc o) (so_quiet o) (so_seed o) (so_input o) (so_output o) (so_outs o)
  | SaNoVar => ShmOpts (so_nop o) true (so_noc o) (so_quiet o) (so_seed o) (so_input o) (so_output o) (so_outs o)
  | SaNoCla => ShmOpts (so_nop o) (so_nov o) true (so_quiet o) (so_seed o) (so_input o) (so_output o) (so_outs o)
  | SaQuiet => ShmOpts (so_nop o) (so_nov o) (so_noc o) true (so_seed o) (so_input o) (so_output o) (so_outs o)
  | _ => o
  end.

Definition shm_is_minus (v : text) : bool := shm_teqb v [shm_dash].

(* take_action for an option with one argument: type conversion (str, FileType('r'), FileType('w')) and store;
   None = ArgumentError (the file cannot be opened) *)
Definition shm_set_value (env : shm_env) (a : shm_action) (v : text) (o : shm_opts) : option shm_opts :=
  match a with
  | SaSeed => Some (ShmOpts (so_nop o) (so_nov o) (so_noc o) (so_quiet o) (Some v) (so_input o) (so_output o) (so_outs o))
  | SaInput =>
    if shm_is_minus v then
      Some (ShmOpts (so_nop o) (so_nov o) (so_noc o) (so_quiet o) (so_seed o) None (so_output o) (so_outs o))
    else match shm_assoc v (shm_files env) with
         | Some _ => Some (ShmOpts (so_nop o) (so_nov o) (so_noc o) (so_quiet o) (so_seed o) (Some v) (so_output o) (so_outs o))
         | None => None
         end
  | SaOutput =>
    if shm_is_minus v then
      Some (ShmOpts (so_nop o) (so_nov o) (so_noc o) (so_quiet o) (so_seed o) (so_input o) None (so_outs o))
    else if shm_mem v (shm_nowrite env) then None
    else Some (ShmOpts (so_nop o) (so_nov o) (so_noc o) (so_quiet o) (so_seed o) (so_input o) (Some v) (v :: so_outs o))
  | _ => Some o
  end.

(* what consume_optional finds in ONE token (help = -h is among the actions to take) *)
Inductive shm_step :=
| StDone (o : shm_opts) (help : bool)
| StValue (a : shm_action) (v : text) (o : shm_opts) (help : bool)     (* an option with its explicit argument *)
| StNeedArg (a : shm_action) (o : shm_opts) (help : bool)              (* an option whose argument is the next token *)
| StError.

(* the loop of consume_optional on a single-dash option [a] that takes no argument and has the explicit
   argument [x]: "-pvc" is -p -v -c, "-pi" ends with -i waiting for its argument, "-pSabc" gives -S the value abc *)
Fixpoint shm_cluster (a : shm_action) (x : text) (o : shm_opts) (h : bool) : shm_step :=
  if shm_takes_arg a then StValue a x o h
  else
    match x with
    | [] => StError                                  (* "--quiet=" / "-p=" : ignored explicit argument '' *)
    | c :: xs =>
      match shm_lookup [shm_dash; c] with
      | None => StError                              (* ignored explicit argument *)
      | Some a' =>
        let o' := shm_set_flag a o in
        let h' := h || shm_is_help a in
        match xs with
        | [] => if shm_takes_arg a' then StNeedArg a' o' h'
                else StDone (shm_set_flag a' o') (h' || shm_is_help a')
        | _ :: _ => shm_cluster a' xs o' h'
        end
      end
    end.

Definition shm_step_of (a : shm_action) (short : bool) (e : option text) (o : shm_opts) : shm_step :=
  match e with
  | None => if shm_takes_arg a then StNeedArg a o false else StDone (shm_set_flag a o) (shm_is_help a)
  | Some x =>
    if shm_takes_arg a then StValue a x o false
    else if short then shm_cluster a x o false
    else StError                                     (* a double-dash flag with "=value" *)
  end.

Inductive shm_parse := PaOk (o : shm_opts) | PaError | PaHelp | PaOutside.

(* the main loop of _parse_known_args (there are no positionals: every 'A' that is not the argument of an
   option, and every unknown option, ends in "unrecognized arguments" after the loop) *)
Fixpoint shm_walk (env : shm_env) (ts : list text) (o : shm_opts) (extras : bool) : shm_parse :=
  match ts with
  | [] => if extras then PaError else PaOk o
  | t :: rest =>
    match shm_classify t with
    | ScArg => shm_walk env rest o true
    | ScUnknown => shm_walk env rest o true
    | ScAmbiguous => PaError
    | ScOpt a short e =>
      match shm_step_of a short e o with
      | StError => PaError
      | StDone o' h => if h then PaHelp else shm_walk env rest o' extras
      | StValue a' v o' h =>
        if h then PaHelp
        else match shm_set_value env a' v o' with
             | Some o'' => shm_walk env rest o'' extras
             | None => PaError
             end
      | StNeedArg a' o' h =>
        match rest with
        | v :: rest' =>
          match shm_classify v with
          | ScArg =>
            if h then PaHelp
            else match shm_set_value env a' v o' with
                 | Some o'' => shm_walk env rest' o'' extras
                 | None => PaError
                 end
          | _ => PaError                              (* expected one argument *)
          end
        | [] => PaError
        end
      end
    end
  end.

Definition shm_parse_args (env : shm_env) (argv : list text) : shm_parse :=
  if existsb (fun t => shm_teqb t [shm_dash; shm_dash]) argv then PaOutside
  else if negb (forallb shm_is_ascii argv) then PaOutside
  else if existsb shm_is_ambiguous argv then PaError     (* raised while the tokens are classified *)
  else shm_walk env argv shm_opts0 false.

(* `if args.seed: random.seed(args.seed)`: the seed that is installed (the empty string is not) *)
Definition shm_seed_installed (o : shm_opts) : option text :=
  match so_seed o with
  | Some (c :: r) => Some (c :: r)
  | _ => None
  end.

(* ------------------------------------------------------------------ *)
(* the header                                                          *)
(* ------------------------------------------------------------------ *)
Definition shm_copyright : string := "(C) 2012-2022 Massimo Lauria <massimo.lauria@uniroma1.it>".
Definition shm_url : string := "https://massimolauria.net/cnfgen".
Definition shm_stdin_name : text := lit "<stdin>".

(* the header of CNF.from_file(args.input): BaseCNF.__init__(description='Formula from DIMACS file <name>') *)
Definition shm_read_header (version : string) (name : text) : Header.header :=
  [ (KO "description", String.append "Formula from DIMACS file " (string_of_list_ascii name));
    (KO "generator", String.append "CNFgen (" (String.append version ")"));
    (KO "copyright", shm_copyright);
    (KO "url", shm_url) ].

Definition shm_key_text (k : hkey) : text :=
  match k with
  | KO s => lit s
  | KT i => lit "transformation " ++ print_Z (Z.of_nat i)
  end.
Definition shm_render (h : Header.header) : Dimacs.header :=
  map (fun kv => (shm_key_text (fst kv), lit (snd kv))) h.

Definition shm_input_name (o : shm_opts) : text :=
  match so_input o with Some f => f | None => shm_stdin_name end.

(* what to_file writes in front of the formula: None under -q *)
Definition shm_out_header (env : shm_env) (o : shm_opts) : option Dimacs.header :=
  if so_quiet o then None
  else Some (shm_render (shuffle_header (shm_read_header (shm_version env) (shm_input_name o)))).

(* ------------------------------------------------------------------ *)
(* the program                                                         *)
(* ------------------------------------------------------------------ *)
Definition shm_input_text (env : shm_env) (o : shm_opts) (stdin : text) : text :=
  match so_input o with
  | None => stdin
  | Some f => match shm_assoc f (shm_files env) with Some t => t | None => [] end
  end.

(* sys.stdin is created with newline="\n" (no translation: only "\n" ends a line, a lone "\r" does not);
   a file opened by FileType('r') is in universal-newlines mode *)
Definition shm_universal (o : shm_opts) : bool :=
  match so_input o with Some _ => true | None => false end.

Definition shm_word : Z := 9223372036854775808.     (* sys.maxsize + 1 *)

(* everything before the first draw *)
Inductive shm_plan :=
| PlanRun (o : shm_opts) (N : Z) (F : cnf)
| PlanStop (r : shm_result).

Definition shm_plan_of (repaired : bool) (env : shm_env) (argv : list text) (stdin : text) : shm_plan :=
  match shm_parse_args env argv with
  | PaOutside => PlanStop ShmOutside
  | PaHelp => PlanStop ShmOutside
  | PaError => PlanStop ShmCliError
  | PaOk o =>
    if (match so_input o with Some f => shm_mem f (so_outs o) | None => false end) then PlanStop ShmOutside
    else
      match parse_dimacs (shm_universal o) (shm_input_text env o stdin) with
      | Err _ _ => PlanStop ShmCliError                       (* ValueError -> "c DIMACS ERROR: ..." *)
      | DOk N F =>
        if so_nop o && (shm_word <=? N)
        then PlanStop (if repaired then ShmCliError else ShmCrash)      (* [1] * N : OverflowError *)
        else PlanRun o N F
      end
  end.

(* Shuffle with the drawn arguments, then to_file *)
Definition shm_finish (env : shm_env) (o : shm_opts) (N : Z) (F : cnf) (d : shm_dr (list Z)) : shm_result :=
  match d with
  | DrEnd => ShmOracleEnd
  | DrBad => ShmOracleBad
  | DrOk rs _ =>
    let '(fl, pm, cp) := shm_args (so_nop o) (so_nov o) (so_noc o) N (len F) rs in
    match shuffle N F fl pm cp with
    | ShOk n out => ShmOut (so_output o) (print_dimacs (shm_out_header env o) None n out)
    | _ => ShmCliError                                        (* a ValueError of Shuffle (unreachable) *)
    end
  end.

Definition shm_plan_bounds (p : shm_plan) : list Z :=
  match p with
  | PlanRun o N F => shm_bounds (so_nop o) (so_nov o) (so_noc o) N (len F)
  | PlanStop _ => []
  end.

Definition shm_run (env : shm_env) (p : shm_plan) (oracle : list Z) : shm_result :=
  match p with
  | PlanStop r => r
  | PlanRun o N F => shm_finish env o N F (shm_draws (shm_plan_bounds p) oracle)
  end.

Definition cnfshuffle_main_gen (repaired : bool) (env : shm_env) (argv : list text) (stdin : text)
           (oracle : list Z) : shm_result :=
  shm_run env (shm_plan_of repaired env argv stdin) oracle.

(* the tool as it is / after the proposed repair of the OverflowError *)
Definition cnfshuffle_main_env := cnfshuffle_main_gen false.
Definition cnfshuffle_main_repaired := cnfshuffle_main_gen true.

(* argv -> stdin -> oracle -> result, in the environment without files (version "") *)
Definition shm_env0 : shm_env := ShmEnv EmptyString [] [].
Definition cnfshuffle_main (argv : list text) (stdin : text) (oracle : list Z) : shm_result :=
  cnfshuffle_main_env shm_env0 argv stdin oracle.

(* how many recorded values the run reads (None: it does not get to the end of its draws) *)
Definition shm_draws_used (env : shm_env) (argv : list text) (stdin : text) (oracle : list Z) : option Z :=
  match shm_draws (shm_plan_bounds (shm_plan_of false env argv stdin)) oracle with
  | DrOk _ rest => Some (len oracle - len rest)
  | _ => None
  end.

(* ------------------------------------------------------------------ *)
(* a run against a generator (for the statement of reproducibility)    *)
(* ------------------------------------------------------------------ *)
Section Generator.
  Context {G : Type}.
  Context (bits : Z -> G -> Z * G).      (* getrandbits(k) : value and next state *)

  (* _randbelow_with_getrandbits(n) against the generator; the rejection loop runs on explicit fuel.
     Returns the result, the values getrandbits returned (in order) and the next state *)
  Fixpoint shm_gen_randbelow (fuel : nat) (n : Z) (g : G) : option (Z * list Z * G) :=
    match fuel with
    | O => None
    | S f =>
      let '(r, g') := bits (shm_bitlen n) g in
      if r <? n then Some (r, [r], g')
      else match shm_gen_randbelow f n g' with
           | Some (v, rec, g'') => Some (v, r :: rec, g'')
           | None => None
           end
    end.

  Fixpoint shm_gen_draws (fuel : nat) (bounds : list Z) (g : G) : option (list Z * list Z * G) :=
    match bounds with
    | [] => Some ([], [], g)
    | b :: bs =>
      match shm_gen_randbelow fuel b g with
      | Some (r, rec1, g') =>
        match shm_gen_draws fuel bs g' with
        | Some (rs, rec2, g'') => Some (r :: rs, rec1 ++ rec2, g'')
        | None => None
        end
      | None => None
      end
    end.

  (* one run of the tool: the generator starts in state g0, `random.seed(args.seed)` replaces the state when
     a non-empty seed is given; None = some rejection loop did not end within the fuel *)
  Definition cnfshuffle_run (seed_fn : text -> G) (fuel : nat) (env : shm_env) (argv : list text) (stdin : text)
             (g0 : G) : option shm_result :=
    match shm_plan_of false env argv stdin with
    | PlanStop r => Some r
    | PlanRun o N F =>
      let g := match shm_seed_installed o with Some s => seed_fn s | None => g0 end in
      match shm_gen_draws fuel (shm_bounds (so_nop o) (so_nov o) (so_noc o) N (len F)) g with
      | Some (rs, _, _) => Some (shm_finish env o N F (DrOk rs []))
      | None => None
      end
    end.
End Generator.
