(* Header.v — model of the provenance header of a formula
   (cnfgen/formula/basecnf.py: `self.header` OrderedDict;
    cnfgen/transformations/substitutions.py: add_description;
    cnfgen/transformations/shuffle.py: the same loop inline + " (reshuffled)").
   A header is an association list in insertion order; a key is either
   'transformation <i>' or any other string.  Definitions only. *)
From Coq Require Import List Bool Arith String.
Import ListNotations.

Inductive hkey := KT (i : nat) | KO (s : string).
Definition hkey_eqb (a b : hkey) : bool :=
  match a, b with
  | KT i, KT j => Nat.eqb i j
  | KO s, KO t => String.eqb s t
  | _, _ => false
  end.
Definition header := list (hkey * string).
Definition has_key (h : header) (k : hkey) : bool := existsb (fun e => hkey_eqb (fst e) k) h.

(* i = 1; while 'transformation i' in header: i += 1   (the loop ends within
   length h + 1 steps; the candidates are enumerated explicitly) *)
Definition first_free (h : header) : nat :=
  match find (fun i => negb (has_key h (KT i))) (seq 1 (S (List.length h))) with
  | Some i => i
  | None => S (List.length h)
  end.

(* header[key] = text on a key that is not present: appended at the end *)
Definition add_description (h : header) (text : string) : header := h ++ [(KT (first_free h), text)].

(* a transformation copies the header and adds one entry *)
Definition apply_chain (h : header) (texts : list string) : header := fold_left add_description texts h.

(* the entries 'transformation n+1', 'transformation n+2', ... with the given texts *)
Fixpoint number_from (n : nat) (texts : list string) : header :=
  match texts with
  | [] => []
  | t :: ts => (KT (S n), t) :: number_from (S n) ts
  end.

(* Shuffle: description gets a suffix (in place: the entry keeps its position), then one entry *)
Definition suffix_description (h : header) : header :=
  map (fun e => if hkey_eqb (fst e) (KO "description") then (fst e, (snd e ++ " (reshuffled)")%string) else e) h.
Definition shuffle_header (h : header) : header := add_description (suffix_description h) "Formula reshuffling".

Definition transformation_entries (h : header) : list (nat * string) :=
  flat_map (fun e => match fst e with KT i => [(i, snd e)] | KO _ => [] end) h.
