(* VarsFacts.v — the variable groups of Vars.v are bijections between their
   legal indices (in enumeration order) and the identifiers off+1 .. off+size.
   Part 1: the generic consequences of the four "group laws"; blocks (mixed radix);
   binary mappings (bit arithmetic). *)
From Coq Require Import ZArith List Bool Lia ZifyBool.
From Cnfgen Require Import Sem Comb SemFacts Vars VarsLists.
Import ListNotations.
Open Scope Z_scope.

(* the canonical form of an index: only simple graphs identify (u,v) and (v,u) *)
Definition canon (s : shape) (i : idx) : idx := of_core s (to_core s i).

(* ---------- the laws every group kind is shown to satisfy ---------- *)
Definition law_enum (off : Z) (s : shape) : Prop :=
  map (vg_to_id off s) (vg_indices s) = map Some (zrange (off + 1) (off + gsize s + 1)).
Definition law_back (off : Z) (s : shape) : Prop :=
  forall i x, In i (vg_indices s) -> vg_to_id off s i = Some x -> vg_to_index off s x = Some i.
Definition law_dom (off : Z) (s : shape) : Prop :=
  forall i x, vg_to_id off s i = Some x -> In (canon s i) (vg_indices s) /\ vg_to_id off s (canon s i) = Some x.
Definition group_laws (off : Z) (s : shape) : Prop :=
  0 <= gsize s /\ law_enum off s /\ law_back off s /\ law_dom off s.

(* ---------- facts that hold by the shape of the definitions ---------- *)
Lemma to_index_abs off s l : vg_to_index off s l = vg_to_index off s (Z.abs l).
Proof. unfold vg_to_index. now rewrite Z.abs_involutive. Qed.

Lemma to_index_opp off s l : vg_to_index off s (- l) = vg_to_index off s l.
Proof. unfold vg_to_index. now rewrite Z.abs_opp. Qed.

Lemma to_index_in_range off s l i : vg_to_index off s l = Some i -> off + 1 <= Z.abs l <= off + gsize s.
Proof.
  unfold vg_to_index. intros H. destruct (Z.leb_spec (off + 1) (Z.abs l)); destruct (Z.leb_spec (Z.abs l) (off + gsize s));
    cbn [andb] in H; try discriminate. lia.
Qed.

Lemma to_index_out_of_range off s l : ~ (off + 1 <= Z.abs l <= off + gsize s) -> vg_to_index off s l = None.
Proof.
  intros H. destruct (vg_to_index off s l) eqn:E; [|reflexivity]. apply to_index_in_range in E. contradiction.
Qed.

(* ---------- generic consequences ---------- *)
Section Generic.
  Context (off : Z) (s : shape) (L : group_laws off s).

  Lemma g_size : len (vg_indices s) = gsize s.
  Proof.
    destruct L as [H0 [He _]]. unfold law_enum in He. apply (f_equal (@length _)) in He.
    rewrite !map_length, zrange_length in He. unfold len. lia.
  Qed.

  Lemma g_rank j i : znth j (vg_indices s) = Some i -> vg_to_id off s i = Some (off + 1 + j) /\ 0 <= j < gsize s.
  Proof.
    destruct L as [H0 [He _]]. intros H.
    destruct (map_eq_zrange_nth _ _ _ _ He j i H) as [H1 H2]. split; [exact H1|lia].
  Qed.

  Lemma g_unrank x : off + 1 <= x <= off + gsize s -> vg_to_index off s x = znth (x - off - 1) (vg_indices s).
  Proof.
    intros Hx. destruct L as [H0 [He [Hb _]]].
    assert (Hj : 0 <= x - off - 1 < len (vg_indices s)) by (rewrite g_size; lia).
    destruct (znth (x - off - 1) (vg_indices s)) as [i|] eqn:E.
    - destruct (g_rank _ _ E) as [Hi _]. replace (off + 1 + (x - off - 1)) with x in Hi by lia.
      apply Hb; [eapply znth_In; eauto|exact Hi].
    - exfalso. unfold znth in E. destruct (Z.ltb_spec (x - off - 1) 0); [lia|].
      apply nth_error_None in E. unfold len in Hj. lia.
  Qed.

  (* identifiers of the legal indices, in enumeration order, are off+1, off+2, ... *)
  Lemma g_enum : map (vg_to_id off s) (vg_indices s) = map Some (zrange (off + 1) (off + gsize s + 1)).
  Proof. now destruct L as [_ [He _]]. Qed.

  (* index -> id -> index, for the positive and the negative literal *)
  Lemma g_index_of_id i x : In i (vg_indices s) -> vg_to_id off s i = Some x ->
    vg_to_index off s x = Some i /\ vg_to_index off s (- x) = Some i /\ off + 1 <= x <= off + gsize s.
  Proof.
    intros Hi Hx. destruct L as [H0 [He [Hb _]]]. pose proof (Hb _ _ Hi Hx) as E.
    split; [exact E|]. split; [now rewrite to_index_opp|].
    destruct (In_znth _ _ Hi) as [j Hj]. destruct (g_rank _ _ Hj) as [E2 R]. rewrite Hx in E2. injection E2 as ->. lia.
  Qed.

  (* id -> index -> id *)
  Lemma g_id_of_index l i : vg_to_index off s l = Some i -> In i (vg_indices s) /\ vg_to_id off s i = Some (Z.abs l).
  Proof.
    intros H. pose proof (to_index_in_range _ _ _ _ H) as R. rewrite to_index_abs, g_unrank in H by exact R.
    split; [eapply znth_In; eauto|]. destruct (g_rank _ _ H) as [E _]. rewrite E. f_equal. lia.
  Qed.

  Lemma g_to_index_total l : off + 1 <= Z.abs l <= off + gsize s -> exists i, vg_to_index off s l = Some i.
  Proof.
    intros R. rewrite to_index_abs, g_unrank by exact R.
    assert (Hj : 0 <= Z.abs l - off - 1 < len (vg_indices s)) by (rewrite g_size; lia).
    destruct (znth (Z.abs l - off - 1) (vg_indices s)) as [i|] eqn:E; [eauto|].
    exfalso. unfold znth in E. destruct (Z.ltb_spec (Z.abs l - off - 1) 0); [lia|].
    apply nth_error_None in E. unfold len in Hj. lia.
  Qed.

  Lemma g_to_index_none l : vg_to_index off s l = None <-> ~ (off + 1 <= Z.abs l <= off + gsize s).
  Proof.
    split.
    - intros H R. destruct (g_to_index_total l R) as [i E]. congruence.
    - apply to_index_out_of_range.
  Qed.

  (* an index is accepted only if (its canonical form) is legal, and then the id is in the range of the group *)
  Lemma g_to_id_some i x : vg_to_id off s i = Some x ->
    In (canon s i) (vg_indices s) /\ vg_to_index off s x = Some (canon s i) /\ off + 1 <= x <= off + gsize s.
  Proof.
    intros H. destruct L as [H0 [He [Hb Hd]]]. destruct (Hd _ _ H) as [Hi Hx].
    split; [exact Hi|]. destruct (g_index_of_id _ _ Hi Hx) as [E [_ R]]. auto.
  Qed.

  Lemma g_to_id_rejects i : ~ In (canon s i) (vg_indices s) -> vg_to_id off s i = None.
  Proof.
    intros H. destruct (vg_to_id off s i) eqn:E; [|reflexivity]. apply g_to_id_some in E. tauto.
  Qed.

  Lemma g_nodup : NoDup (vg_indices s).
  Proof.
    apply (proj2 (NoDup_nth_error _)). intros a b Ha E.
    destruct (nth_error (vg_indices s) a) as [i|] eqn:Ea; [|apply nth_error_None in Ea; lia].
    symmetry in E. rewrite <- znth_of_nat in Ea, E.
    destruct (g_rank _ _ Ea) as [E1 _]. destruct (g_rank _ _ E) as [E2 _].
    rewrite E1 in E2. injection E2. lia.
  Qed.

  (* the whole table of to_index over the range of the group *)
  Lemma g_unrank_all : map (vg_to_index off s) (zrange (off + 1) (off + gsize s + 1)) = map Some (vg_indices s).
  Proof.
    apply nth_error_ext_eq. intros n. rewrite !nth_error_map.
    destruct (nth_error (vg_indices s) n) as [i|] eqn:E.
    - rewrite <- znth_of_nat in E. destruct (g_rank _ _ E) as [_ R].
      rewrite zrange_nth_error by lia. cbn [option_map]. rewrite g_unrank by lia.
      replace (off + 1 + Z.of_nat n - off - 1) with (Z.of_nat n) by lia. now rewrite E.
    - apply nth_error_None in E. pose proof g_size as G. unfold len in G.
      rewrite (proj2 (nth_error_None _ _)); [reflexivity|]. rewrite zrange_length. lia.
  Qed.
End Generic.

(* ---------- flat_map helpers ---------- *)
Lemma map_flat_map {A B C} (f : B -> C) (g : A -> list B) l : map f (flat_map g l) = flat_map (fun x => map f (g x)) l.
Proof. induction l as [|x t IH]; [reflexivity|]. cbn [flat_map]. now rewrite map_app, IH. Qed.

Lemma flat_map_ext_in {A B} (f g : A -> list B) l : (forall x, In x l -> f x = g x) -> flat_map f l = flat_map g l.
Proof.
  induction l as [|x t IH]; intros H; [reflexivity|]. cbn [flat_map].
  rewrite H by now left. rewrite IH; [reflexivity|]. intros; apply H; now right.
Qed.

(* consecutive blocks of k integers, n of them, starting at a *)
Lemma zrange_blocks a k : 0 <= k -> forall n : nat,
  flat_map (fun x => zrange (a + (x - 1) * k) (a + x * k)) (zrange 1 (Z.of_nat n + 1)) = zrange a (a + Z.of_nat n * k).
Proof.
  intros Hk. induction n as [|n IH].
  - cbn [Z.of_nat]. rewrite zrange_empty by lia. cbn [flat_map]. now rewrite zrange_empty by lia.
  - rewrite Nat2Z.inj_succ. unfold Z.succ. rewrite zrange_snoc by lia.
    rewrite flat_map_app, IH. cbn [flat_map]. rewrite app_nil_r.
    replace (Z.of_nat n + 1 - 1) with (Z.of_nat n) by lia.
    rewrite <- zrange_app; [reflexivity| |]; nia.
Qed.

Lemma zrange_blocks_Z a k n : 0 <= k -> 0 <= n ->
  flat_map (fun x => zrange (a + (x - 1) * k) (a + x * k)) (zrange 1 (n + 1)) = zrange a (a + n * k).
Proof. intros Hk Hn. rewrite <- (Z2Nat.id n) by lia. now apply zrange_blocks. Qed.

(* ================= blocks ================= *)
Definition rng (r : Z) : list Z := zrange 1 (r + 1).
Definition nonneg_all (ranges : list Z) : Prop := Forall (fun r => 0 <= r) ranges.

Lemma in_prod_rng ranges : forall i, In i (prod (map rng ranges)) <->
  length i = length ranges /\ forallb (fun xr => (1 <=? fst xr) && (fst xr <=? snd xr)) (combine i ranges) = true.
Proof.
  induction ranges as [|r t IH]; intros i.
  - cbn. destruct i; cbn; split; intros H; try tauto; try (destruct H; discriminate); try discriminate.
    destruct H as [H|[]]. discriminate.
  - cbn [map prod]. rewrite in_flat_map. split.
    + intros [x [Hx Hi]]. apply in_map_iff in Hi as [i' [<- Hi']]. apply IH in Hi' as [L1 L2].
      apply in_zrange in Hx. cbn [length combine forallb fst snd]. split; [lia|]. rewrite L2. lia.
    + intros [L1 L2]. destruct i as [|x i']; [discriminate|]. cbn [length combine forallb fst snd] in *.
      apply andb_true_iff in L2 as [Hx L2]. exists x. split; [apply in_zrange; lia|].
      apply in_map. apply IH. split; [lia|exact L2].
Qed.

Lemma block_weights_spec ranges : nonneg_all ranges ->
  snd (block_weights ranges) = len (prod (map rng ranges)) /\ length (fst (block_weights ranges)) = length ranges.
Proof.
  induction 1 as [|r t Hr Ht IH]; [split; reflexivity|].
  cbn [block_weights map prod]. destruct (block_weights t) as [ws n] eqn:E. cbn [fst snd] in *.
  destruct IH as [IH1 IH2]. split; [|cbn; lia].
  rewrite (len_flat_map_const _ _ n).
  - unfold rng. rewrite zrange_len by lia. lia.
  - intros x _. now rewrite len_map.
Qed.

Lemma block_size_nonneg ranges : nonneg_all ranges -> 0 <= snd (block_weights ranges).
Proof. intros H. rewrite (proj1 (block_weights_spec _ H)). apply len_nonneg. Qed.

(* mixed radix: the relative positions of the indices, in enumeration order, are 0, 1, 2, ... *)
Lemma block_rel_enum ranges : nonneg_all ranges ->
  map (fun i => block_relative i (fst (block_weights ranges))) (prod (map rng ranges)) = zrange 0 (snd (block_weights ranges)).
Proof.
  induction 1 as [|r t Hr Ht IH]; [reflexivity|].
  pose proof (block_size_nonneg t Ht) as Hn.
  cbn [block_weights map prod]. destruct (block_weights t) as [ws n] eqn:E. cbn [fst snd] in *.
  rewrite map_flat_map.
  rewrite (flat_map_ext_in _ (fun x => zrange (0 + (x - 1) * n) (0 + x * n))).
  - unfold rng. rewrite zrange_blocks_Z by lia. f_equal. lia.
  - intros x Hx. rewrite map_map. cbn [block_relative].
    rewrite <- (map_map (fun i => block_relative i ws) (fun y => (x - 1) * n + y)), IH.
    rewrite (zrange_map_shift _ ((x - 1) * n)) by (intros; lia). f_equal; lia.
Qed.

Lemma block_rel_bound ranges i : nonneg_all ranges -> In i (prod (map rng ranges)) ->
  0 <= block_relative i (fst (block_weights ranges)) < snd (block_weights ranges).
Proof.
  intros H Hi. apply (in_map (fun i => block_relative i (fst (block_weights ranges)))) in Hi.
  rewrite block_rel_enum in Hi by exact H. now apply in_zrange in Hi.
Qed.

Lemma block_digits_rel ranges : nonneg_all ranges -> forall i, In i (prod (map rng ranges)) ->
  block_digits (block_relative i (fst (block_weights ranges))) (fst (block_weights ranges)) = i.
Proof.
  induction 1 as [|r t Hr Ht IH]; intros i Hi.
  - cbn in Hi. destruct Hi as [<-|[]]. reflexivity.
  - cbn [map prod] in Hi. apply in_flat_map in Hi as [x [Hx Hi]]. apply in_map_iff in Hi as [i' [<- Hi']].
    pose proof (block_rel_bound t i' Ht Hi') as B. specialize (IH i' Hi').
    cbn [block_weights]. destruct (block_weights t) as [ws n] eqn:E. cbn [fst snd] in *.
    cbn [block_relative block_digits].
    assert (Q : ((x - 1) * n + block_relative i' ws) / n = x - 1).
    { symmetry. apply (Z.div_unique_pos _ _ _ (block_relative i' ws)); lia. }
    assert (M : ((x - 1) * n + block_relative i' ws) mod n = block_relative i' ws).
    { symmetry. apply (Z.mod_unique_pos _ _ (x - 1)); lia. }
    rewrite Q, M, IH. f_equal. lia.
Qed.

Lemma block_to_id_in off ranges i : ranges <> [] -> In i (prod (map rng ranges)) ->
  vg_to_id off (GBlock ranges) i = Some (off + 1 + block_relative i (fst (block_weights ranges))).
Proof.
  intros Hne Hi. apply in_prod_rng in Hi as [L1 L2]. cbn [vg_to_id]. rewrite L2, L1, Nat.eqb_refl.
  destruct ranges; [contradiction|]. reflexivity.
Qed.

Theorem block_laws off ranges : 0 <= off -> ranges <> [] -> nonneg_all ranges -> group_laws off (GBlock ranges).
Proof.
  intros Hoff Hne Hr. pose proof (block_size_nonneg _ Hr) as Hn. unfold group_laws. cbn [gsize].
  split; [exact Hn|]. split; [|split].
  - unfold law_enum. cbn [vg_indices gsize]. fold rng.
    rewrite (map_ext_in _ (fun i => Some (off + 1 + block_relative i (fst (block_weights ranges)))))
      by (intros i Hi; now apply block_to_id_in).
    rewrite <- (map_map (fun i => block_relative i (fst (block_weights ranges))) (fun y => Some (off + 1 + y))).
    rewrite block_rel_enum by exact Hr. rewrite <- (map_map (fun y => off + 1 + y) Some). f_equal.
    rewrite (zrange_map_shift _ (off + 1)) by (intros; lia). f_equal; lia.
  - intros i x Hi Hx. cbn [vg_indices] in Hi. fold rng in Hi. rewrite block_to_id_in in Hx by assumption.
    injection Hx as <-. pose proof (block_rel_bound _ _ Hr Hi) as B.
    unfold vg_to_index. cbn [gsize]. rewrite Z.abs_eq by lia.
    destruct (Z.leb_spec (off + 1) (off + 1 + block_relative i (fst (block_weights ranges)))); [|lia].
    destruct (Z.leb_spec (off + 1 + block_relative i (fst (block_weights ranges))) (off + snd (block_weights ranges))); [|lia].
    cbn [andb]. f_equal.
    replace (off + 1 + block_relative i (fst (block_weights ranges)) - (off + 1)) with (block_relative i (fst (block_weights ranges))) by lia.
    now apply block_digits_rel.
  - intros i x Hx. unfold canon. cbn [to_core of_core]. split; [|exact Hx].
    cbn [vg_to_id] in Hx. cbn [vg_indices]. fold rng. apply in_prod_rng.
    destruct (Nat.eqb_spec (length i) (length ranges)) as [E|]; [|discriminate]. cbn [andb] in Hx.
    destruct (negb (length i =? 0)%nat); [|discriminate]. cbn [andb] in Hx.
    destruct (forallb _ (combine i ranges)) eqn:F; [|discriminate]. auto.
Qed.

(* closed form used by the families: a two-dimensional block is laid out row by row *)
Lemma block2_to_id off n m i j : 1 <= i <= n -> 1 <= j <= m ->
  vg_to_id off (GBlock [n; m]) [i; j] = Some (off + (i - 1) * m + j).
Proof.
  intros Hi Hj. cbn [vg_to_id length combine forallb fst snd Nat.eqb negb andb block_weights block_relative].
  destruct (Z.leb_spec 1 i); [|lia]. destruct (Z.leb_spec i n); [|lia].
  destruct (Z.leb_spec 1 j); [|lia]. destruct (Z.leb_spec j m); [|lia]. cbn [andb]. f_equal. lia.
Qed.

(* ================= binary mappings ================= *)
Lemma bitlength_nonneg m : 0 <= bitlength m.
Proof. unfold bitlength. apply Z.log2_up_nonneg. Qed.

(* 2^(k-1) < m <= 2^k for m > 1: k is the exact ceiling of log2 m *)
Lemma bitlength_spec m : 1 < m -> 2 ^ (bitlength m - 1) < m <= 2 ^ bitlength m.
Proof. intros H. unfold bitlength. pose proof (Z.log2_up_spec m H). replace (Z.pred (Z.log2_up m)) with (Z.log2_up m - 1) in * by lia. lia. Qed.
Lemma bitlength_one : bitlength 1 = 0. Proof. reflexivity. Qed.

Lemma down_range_spec k : down_range k = map (fun b => k - 1 - b) (zrange 0 k).
Proof. reflexivity. Qed.

Lemma binmap_indices_in n m i : In i (vg_indices (BinMap n m)) <->
  exists x b, i = [x; b] /\ 1 <= x <= n /\ 0 <= b < bitlength m.
Proof.
  cbn [vg_indices]. rewrite in_flat_map. split.
  - intros [x [Hx Hi]]. apply in_map_iff in Hi as [b [<- Hb]]. unfold down_range in Hb.
    apply in_map_iff in Hb as [c [<- Hc]]. apply in_zrange in Hx, Hc. exists x, (bitlength m - 1 - c). split; [reflexivity|lia].
  - intros [x [b [-> [Hx Hb]]]]. exists x. split; [apply in_zrange; lia|]. apply (in_map (fun b0 => [x; b0])). unfold down_range.
    apply in_map_iff. exists (bitlength m - 1 - b). split; [lia|apply in_zrange; lia].
Qed.

Theorem binmap_laws off n m : 0 <= off -> 1 <= n -> 1 <= m -> group_laws off (BinMap n m).
Proof.
  intros Hoff Hn Hm. pose proof (bitlength_nonneg m) as Hk. unfold group_laws. cbn [gsize].
  split; [nia|]. split; [|split].
  - unfold law_enum. cbn [vg_indices gsize]. rewrite map_flat_map.
    rewrite (flat_map_ext_in _ (fun x => map Some (zrange ((off + 1) + (x - 1) * bitlength m) ((off + 1) + x * bitlength m)))).
    + rewrite <- map_flat_map. f_equal. rewrite zrange_blocks_Z by lia. f_equal. lia.
    + intros x Hx. apply in_zrange in Hx. unfold down_range. rewrite !map_map.
      rewrite (map_ext_in _ (fun c => Some (c + (off + 1 + (x - 1) * bitlength m)))).
      * rewrite <- (map_map (fun c => c + (off + 1 + (x - 1) * bitlength m)) Some).
        rewrite (zrange_map_shift _ (off + 1 + (x - 1) * bitlength m)) by (intros; lia).
        f_equal. f_equal; lia.
      * intros c Hc. apply in_zrange in Hc. cbn [vg_to_id].
        destruct (Z.leb_spec 1 x); [|lia]. destruct (Z.leb_spec x n); [|lia].
        destruct (Z.leb_spec 0 (bitlength m - 1 - c)); [|lia]. destruct (Z.ltb_spec (bitlength m - 1 - c) (bitlength m)); [|lia].
        cbn [andb]. f_equal. lia.
  - intros i x Hi Hx. apply binmap_indices_in in Hi as [y [b [-> [Hy Hb]]]]. cbn [vg_to_id] in Hx.
    destruct (Z.leb_spec 1 y); [|lia]. destruct (Z.leb_spec y n); [|lia].
    destruct (Z.leb_spec 0 b); [|lia]. destruct (Z.ltb_spec b (bitlength m)); [|lia]. cbn [andb] in Hx. injection Hx as <-.
    unfold vg_to_index. cbn [gsize]. set (k := bitlength m) in *.
    assert (R : off + 1 <= y * k - b + off <= off + n * k) by nia.
    rewrite Z.abs_eq by lia.
    destruct (Z.leb_spec (off + 1) (y * k - b + off)); [|lia]. destruct (Z.leb_spec (y * k - b + off) (off + n * k)); [|lia].
    cbn [andb]. replace (y * k - b + off - off - 1) with ((y - 1) * k + (k - 1 - b)) by lia.
    assert (Q : ((y - 1) * k + (k - 1 - b)) / k = y - 1) by (symmetry; apply (Z.div_unique_pos _ _ _ (k - 1 - b)); lia).
    assert (M : ((y - 1) * k + (k - 1 - b)) mod k = k - 1 - b) by (symmetry; apply (Z.mod_unique_pos _ _ (y - 1)); lia).
    rewrite Q, M. f_equal. f_equal; [lia|f_equal; lia].
  - intros i x Hx. unfold canon. cbn [to_core of_core]. split; [|exact Hx].
    cbn [vg_to_id] in Hx. destruct i as [|y [|b [|? ?]]]; try discriminate.
    apply binmap_indices_in. exists y, b. split; [reflexivity|].
    destruct (Z.leb_spec 1 y); [|discriminate]. destruct (Z.leb_spec y n); [|discriminate].
    destruct (Z.leb_spec 0 b); [|discriminate]. destruct (Z.ltb_spec b (bitlength m)); [|discriminate]. lia.
Qed.

(* ================= single variable ================= *)
Theorem single_laws off : 0 <= off -> group_laws off GSingle.
Proof.
  intros Hoff.
  unfold group_laws. cbn [gsize]. split; [lia|]. split; [|split].
  - unfold law_enum. cbn [vg_indices gsize map vg_to_id]. rewrite zrange_cons by lia. rewrite zrange_empty by lia. reflexivity.
  - intros i x Hi Hx. cbn [vg_indices] in Hi. destruct Hi as [<-|[]]. cbn [vg_to_id] in Hx. injection Hx as <-.
    unfold vg_to_index. cbn [gsize]. rewrite Z.abs_eq by lia.
    destruct (Z.leb_spec (off + 1) (off + 1)); [|lia]. reflexivity.
  - intros i x Hx. unfold canon. cbn [to_core of_core]. split; [|exact Hx].
    cbn [vg_to_id] in Hx. destruct i; [|discriminate]. now left.
Qed.
