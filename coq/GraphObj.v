(* GraphObj.v -- the graph objects of cnfgen/graphs.py as state machines.
   DEFINITIONS ONLY (lemmas are in GraphObjFacts.v).

   Models, statement by statement:
     class Graph           __init__, add_edge, update_vertex_number, remove_edge, has_edge,
                           number_of_vertices, number_of_edges, neighbors, degree, is_dag,
                           edges() = GraphEdgeList.__iter__, to_networkx / from_networkx
     class DirectedGraph   __init__, add_edge, has_edge, number_of_*, predecessors, successors,
                           in_degree, out_degree, is_dag, edges() and edges_ordered_by_successors()
                           = DirectedEdgeList.__iter__, to_networkx / from_networkx
     class BipartiteGraph  (with BaseBipartiteGraph) __init__, add_edge, has_edge, number_of_edges,
                           number_of_vertices, right_neighbors, left_neighbors, left_degree,
                           right_degree, edges() = BipartiteEdgeList.__iter__, to_networkx / from_networkx
     BaseGraph.add_edges_from  (a loop of add_edge that stops at the first exception)

   Fields are mirrored one to one: Graph (n, m, adjlist, edgeset), DirectedGraph (n, m, edgeset,
   still_a_dag, pred, succ), BipartiteGraph (lorder, rorder, ladj, radj, edgeset).

   Python values and their models
     int arguments          Z (invalid ones -- 0, negative, too large, u = v -- are expressible)
     set of pairs           list (Z*Z); `in` = set_mem, `.add` = set_add (no-op when present),
                            `.remove` = set_remove and an explicit KeyError (outcome Crash) when absent
     list of lists          list (list Z); `a[i]` = py_pos (CPython index rule, negative indices wrap,
                            IndexError = outcome Crash); `a[i].insert(pos, x)` = insert_at;
                            `a[i].remove(x)` = remove_first (ValueError of list.remove kept as ValueError)
     dict int -> list       association list in insertion order; `k in d`, `d[k] = []`, `d.get(k, [])`
     bisect_right(a, x)     number of leading elements <= x.  ABSTRACTED: CPython bisects; both give the
                            same position on a sorted list, and the lists are sorted in every reachable
                            state (GraphObjFacts.g_inv / d_inv / b_inv).
   Outcomes of a call: Ok | ValueError | NoMethod (AttributeError: the class has no such method --
   DirectedGraph and BipartiteGraph have neither remove_edge nor update_vertex_number) | Crash (any
   other exception: IndexError, KeyError).  On Crash / ValueError the returned state is the state at
   the moment the exception is raised (partial updates included).

   Not modelled: the `name` attribute, argument types other than int (float, str, ...; the harness has a
   separate malformed stream for them), networkx itself (to_nx / from_nx take and return a vertex count
   and an edge list with labels 1..n; relabelling is networkx's). *)
From Coq Require Import ZArith List Bool.
From Cnfgen Require Import Comb.
Import ListNotations.
Open Scope Z_scope.

Inductive outcome := Ok | ValueError | NoMethod | Crash.

Inductive kind := KSimple | KDirected | KBipartite.

Inductive op :=
| AddEdge (u v : Z)
| RemoveEdge (u v : Z)
| RaiseN (k : Z)                      (* update_vertex_number(k) *)
| AddEdgesFrom (l : list (Z * Z)).

(* ---------------------------------------------------------------- python containers *)
Definition between (lo x hi : Z) : bool := (lo <=? x) && (x <=? hi).

Definition pair_eqb (a b : Z * Z) : bool := (fst a =? fst b) && (snd a =? snd b).
Definition set_mem (e : Z * Z) (s : list (Z * Z)) : bool := existsb (pair_eqb e) s.
Definition set_add (e : Z * Z) (s : list (Z * Z)) : list (Z * Z) := if set_mem e s then s else e :: s.
Definition set_remove (e : Z * Z) (s : list (Z * Z)) : list (Z * Z) := filter (fun x => negb (pair_eqb e x)) s.

(* a[i] : position addressed by index i in a list of length len, None = IndexError *)
Definition py_pos (len : nat) (i : Z) : option nat :=
  let n := Z.of_nat len in
  if (0 <=? i) && (i <? n) then Some (Z.to_nat i)
  else if (- n <=? i) && (i <? 0) then Some (Z.to_nat (n + i))
  else None.

Fixpoint set_nth {A} (l : list A) (i : nat) (x : A) : list A :=
  match l with
  | [] => []
  | a :: t => match i with O => x :: t | S j => a :: set_nth t j x end
  end.

Fixpoint bisect_right (l : list Z) (x : Z) : nat :=
  match l with
  | [] => O
  | a :: t => if a <=? x then S (bisect_right t x) else O
  end.

(* list.insert(pos, x): appends when pos >= len *)
Fixpoint insert_at {A} (pos : nat) (x : A) (l : list A) : list A :=
  match pos with
  | O => x :: l
  | S p => match l with [] => [x] | a :: t => a :: insert_at p x t end
  end.

(* pos = bisect_right(l, x); l.insert(pos, x) *)
Definition insort (x : Z) (l : list Z) : list Z := insert_at (bisect_right l x) x l.

(* list.remove(x): first occurrence, None = ValueError *)
Fixpoint remove_first (x : Z) (l : list Z) : option (list Z) :=
  match l with
  | [] => None
  | a :: t => if a =? x then Some t
              else match remove_first x t with Some t' => Some (a :: t') | None => None end
  end.

(* dict with integer keys *)
Definition dict := list (Z * list Z).
Fixpoint dict_find (k : Z) (d : dict) : option (list Z) :=
  match d with
  | [] => None
  | (k', x) :: t => if k' =? k then Some x else dict_find k t
  end.
Definition dict_has (k : Z) (d : dict) : bool := match dict_find k d with Some _ => true | None => false end.
(* d.get(k, []) *)
Definition dict_get (k : Z) (d : dict) : list Z := match dict_find k d with Some x => x | None => [] end.
(* d[k] = x *)
Fixpoint dict_set (k : Z) (x : list Z) (d : dict) : dict :=
  match d with
  | [] => [(k, x)]
  | (k', y) :: t => if k' =? k then (k', x) :: t else (k', y) :: dict_set k x t
  end.
(* if k not in d: d[k] = [] *)
Definition dict_default (k : Z) (d : dict) : dict := if dict_has k d then d else dict_set k [] d.

(* list of adjacency lists read at a vertex that passed its range check *)
Definition adj_at (adj : list (list Z)) (u : Z) : list Z := nth (Z.to_nat u) adj [].

(* BaseGraph.add_edges_from: for u, v in edges: self.add_edge(u, v) *)
Fixpoint add_from {S} (add : S -> Z -> Z -> S * outcome) (s : S) (l : list (Z * Z)) : S * outcome :=
  match l with
  | [] => (s, Ok)
  | (u, v) :: r => match add s u v with
                   | (s', Ok) => add_from add s' r
                   | (s', o) => (s', o)
                   end
  end.

(* ---------------------------------------------------------------- class Graph *)
Record gstate := mkG { g_n : Z; g_m : Z; g_adj : list (list Z); g_es : list (Z * Z) }.

(* Graph(n): None = ValueError of non_negative_int *)
Definition g_init (n : Z) : option gstate :=
  if n <? 0 then None else Some (mkG n 0 (repeat [] (Z.to_nat (n + 1))) []).

Definition g_valid (s : gstate) (u v : Z) : bool :=
  between 1 u (g_n s) && between 1 v (g_n s) && negb (u =? v).

Definition g_add_edge (s : gstate) (u v : Z) : gstate * outcome :=
  if negb (g_valid s u v) then (s, ValueError)
  else if set_mem (u, v) (g_es s) then (s, Ok)
  else
    let u' := Z.min u v in
    let v' := Z.max u v in
    match py_pos (length (g_adj s)) u' with
    | None => (s, Crash)
    | Some pu =>
      let lu := nth pu (g_adj s) [] in
      let adj1 := set_nth (g_adj s) pu (insort v' lu) in
      match py_pos (length adj1) v' with
      | None => (mkG (g_n s) (g_m s) adj1 (g_es s), Crash)
      | Some pv =>
        let lv := nth pv adj1 [] in
        let adj2 := set_nth adj1 pv (insort u' lv) in
        (mkG (g_n s) (g_m s + 1) adj2 (set_add (v', u') (set_add (u', v') (g_es s))), Ok)
      end
    end.

Definition g_update_vertex_number (s : gstate) (k : Z) : gstate * outcome :=
  if k <? 0 then (s, ValueError)
  else (mkG (Z.max (g_n s) k) (g_m s) (g_adj s ++ repeat [] (Z.to_nat (k - g_n s))) (g_es s), Ok).

Definition g_remove_edge (s : gstate) (u v : Z) : gstate * outcome :=
  if negb (set_mem (u, v) (g_es s)) then (s, Ok)
  else
    let es1 := set_remove (u, v) (g_es s) in
    if negb (set_mem (v, u) es1) then (mkG (g_n s) (g_m s) (g_adj s) es1, Crash)
    else
      let es2 := set_remove (v, u) es1 in
      match py_pos (length (g_adj s)) u with
      | None => (mkG (g_n s) (g_m s) (g_adj s) es2, Crash)
      | Some pu =>
        match remove_first v (nth pu (g_adj s) []) with
        | None => (mkG (g_n s) (g_m s) (g_adj s) es2, ValueError)
        | Some lu =>
          let adj1 := set_nth (g_adj s) pu lu in
          match py_pos (length adj1) v with
          | None => (mkG (g_n s) (g_m s) adj1 es2, Crash)
          | Some pv =>
            match remove_first u (nth pv adj1 []) with
            | None => (mkG (g_n s) (g_m s) adj1 es2, ValueError)
            | Some lv => (mkG (g_n s) (g_m s - 1) (set_nth adj1 pv lv) es2, Ok)
            end
          end
        end
      end.

Definition g_step (s : gstate) (o : op) : gstate * outcome :=
  match o with
  | AddEdge u v => g_add_edge s u v
  | RemoveEdge u v => g_remove_edge s u v
  | RaiseN k => g_update_vertex_number s k
  | AddEdgesFrom l => add_from g_add_edge s l
  end.

(* views *)
Definition g_has_edge (s : gstate) (u v : Z) : bool := set_mem (u, v) (g_es s).
Definition g_neighbors (s : gstate) (u : Z) : option (list Z) :=
  if between 1 u (g_n s) then Some (adj_at (g_adj s) u) else None.
Definition g_degree (s : gstate) (u : Z) : option Z :=
  if between 1 u (g_n s) then Some (Z.of_nat (length (adj_at (g_adj s) u))) else None.
(* GraphEdgeList.__iter__: for u in range(1, n): the part of adjlist[u] after bisect_right(adjlist[u], u) *)
Definition g_edges (s : gstate) : list (Z * Z) :=
  flat_map (fun u => let l := adj_at (g_adj s) u in map (pair u) (skipn (bisect_right l u) l))
           (zrange 1 (g_n s)).

(* ---------------------------------------------------------------- class DirectedGraph *)
Record dstate := mkD { d_n : Z; d_m : Z; d_es : list (Z * Z); d_dag : bool;
                       d_pred : list (list Z); d_succ : list (list Z) }.

Definition d_init (n : Z) : option dstate :=
  if n <? 0 then None
  else Some (mkD n 0 [] true (repeat [] (Z.to_nat (n + 1))) (repeat [] (Z.to_nat (n + 1)))).

Definition d_valid (s : dstate) (u v : Z) : bool := between 1 u (d_n s) && between 1 v (d_n s).

Definition d_add_edge (s : dstate) (src dest : Z) : dstate * outcome :=
  if negb (d_valid s src dest) then (s, ValueError)
  else if set_mem (src, dest) (d_es s) then (s, Ok)
  else
    let dag := if src >=? dest then false else d_dag s in
    match py_pos (length (d_pred s)) dest with
    | None => (mkD (d_n s) (d_m s) (d_es s) dag (d_pred s) (d_succ s), Crash)
    | Some pd =>
      let pred1 := set_nth (d_pred s) pd (insort src (nth pd (d_pred s) [])) in
      match py_pos (length (d_succ s)) src with
      | None => (mkD (d_n s) (d_m s) (d_es s) dag pred1 (d_succ s), Crash)
      | Some ps =>
        let succ1 := set_nth (d_succ s) ps (insort dest (nth ps (d_succ s) [])) in
        (mkD (d_n s) (d_m s + 1) (set_add (src, dest) (d_es s)) dag pred1 succ1, Ok)
      end
    end.

Definition d_step (s : dstate) (o : op) : dstate * outcome :=
  match o with
  | AddEdge u v => d_add_edge s u v
  | RemoveEdge _ _ => (s, NoMethod)
  | RaiseN _ => (s, NoMethod)
  | AddEdgesFrom l => add_from d_add_edge s l
  end.

Definition d_has_edge (s : dstate) (u v : Z) : bool := set_mem (u, v) (d_es s).
Definition d_successors (s : dstate) (u : Z) : option (list Z) :=
  if between 1 u (d_n s) then Some (adj_at (d_succ s) u) else None.
Definition d_predecessors (s : dstate) (u : Z) : option (list Z) :=
  if between 1 u (d_n s) then Some (adj_at (d_pred s) u) else None.
Definition d_out_degree (s : dstate) (u : Z) : option Z :=
  if between 1 u (d_n s) then Some (Z.of_nat (length (adj_at (d_succ s) u))) else None.
Definition d_in_degree (s : dstate) (u : Z) : option Z :=
  if between 1 u (d_n s) then Some (Z.of_nat (length (adj_at (d_pred s) u))) else None.
(* DirectedEdgeList.__iter__, sort_by_pred = True (sic: it walks the successor lists) *)
Definition d_edges (s : dstate) : list (Z * Z) :=
  flat_map (fun src => map (pair src) (adj_at (d_succ s) src)) (zrange 1 (d_n s + 1)).
(* edges_ordered_by_successors(): walks the predecessor lists *)
Definition d_edges_by_dest (s : dstate) : list (Z * Z) :=
  flat_map (fun dest => map (fun src => (src, dest)) (adj_at (d_pred s) dest)) (zrange 1 (d_n s + 1)).

(* ---------------------------------------------------------------- class BipartiteGraph *)
Record bstate := mkB { b_l : Z; b_r : Z; b_ladj : dict; b_radj : dict; b_es : list (Z * Z) }.

Definition b_init (l r : Z) : option bstate :=
  if (l <? 0) || (r <? 0) then None else Some (mkB l r [] [] []).

Definition b_valid (s : bstate) (u v : Z) : bool := between 1 u (b_l s) && between 1 v (b_r s).

Definition b_add_edge (s : bstate) (u v : Z) : bstate * outcome :=
  if negb (b_valid s u v) then (s, ValueError)
  else if set_mem (u, v) (b_es s) then (s, Ok)
  else
    let ladj1 := dict_default u (b_ladj s) in
    let radj1 := dict_default v (b_radj s) in
    let lu := dict_get u ladj1 in
    let rv := dict_get v radj1 in
    (mkB (b_l s) (b_r s) (dict_set u (insort v lu) ladj1) (dict_set v (insort u rv) radj1)
         (set_add (u, v) (b_es s)), Ok).

Definition b_step (s : bstate) (o : op) : bstate * outcome :=
  match o with
  | AddEdge u v => b_add_edge s u v
  | RemoveEdge _ _ => (s, NoMethod)
  | RaiseN _ => (s, NoMethod)
  | AddEdgesFrom l => add_from b_add_edge s l
  end.

Definition b_has_edge (s : bstate) (u v : Z) : bool := set_mem (u, v) (b_es s).
Definition b_number_of_edges (s : bstate) : Z := Z.of_nat (length (b_es s)).
Definition b_right_neighbors (s : bstate) (u : Z) : option (list Z) :=
  if between 1 u (b_l s) then Some (dict_get u (b_ladj s)) else None.
Definition b_left_neighbors (s : bstate) (v : Z) : option (list Z) :=
  if between 1 v (b_r s) then Some (dict_get v (b_radj s)) else None.
Definition b_right_degree (s : bstate) (u : Z) : option Z :=
  match b_right_neighbors s u with Some l => Some (Z.of_nat (length l)) | None => None end.
Definition b_left_degree (s : bstate) (v : Z) : option Z :=
  match b_left_neighbors s v with Some l => Some (Z.of_nat (length l)) | None => None end.
(* BipartiteEdgeList.__iter__ *)
Definition b_edges (s : bstate) : list (Z * Z) :=
  flat_map (fun u => match b_right_neighbors s u with
                     | Some l => map (pair u) l
                     | None => []
                     end) (zrange 1 (b_l s + 1)).

(* ---------------------------------------------------------------- networkx conversions
   to_networkx: nodes 1..n (bipartite: 1..L and L+1..L+R), edges = the edge listing (bipartite: (u, v+L)).
   from_networkx: cls(order) then add_edges_from(G.edges()); the edge list may come in any order and,
   for undirected graphs, in either orientation. *)
Definition g_to_nx (s : gstate) : Z * list (Z * Z) := (g_n s, g_edges s).
Definition g_from_nx (n : Z) (edges : list (Z * Z)) : option (gstate * outcome) :=
  match g_init n with Some s => Some (add_from g_add_edge s edges) | None => None end.

Definition d_to_nx (s : dstate) : Z * list (Z * Z) := (d_n s, d_edges s).
Definition d_from_nx (n : Z) (edges : list (Z * Z)) : option (dstate * outcome) :=
  match d_init n with Some s => Some (add_from d_add_edge s edges) | None => None end.

Definition b_to_nx (s : bstate) : Z * Z * list (Z * Z) :=
  (b_l s, b_r s, map (fun e => (fst e, snd e + b_l s)) (b_edges s)).
(* from_networkx: an edge with both ends on one side is a ValueError; otherwise add_edge(left index, right index) *)
Fixpoint b_from_nx_edges (s : bstate) (edges : list (Z * Z)) : bstate * outcome :=
  match edges with
  | [] => (s, Ok)
  | (x, y) :: r =>
    let xleft := between 1 x (b_l s) in
    let yright := between (b_l s + 1) y (b_l s + b_r s) in
    if Bool.eqb xleft (negb yright) then (s, ValueError)
    else match (if xleft then b_add_edge s x (y - b_l s) else b_add_edge s y (x - b_l s)) with
         | (s', Ok) => b_from_nx_edges s' r
         | (s', o) => (s', o)
         end
  end.
Definition b_from_nx (l r : Z) (edges : list (Z * Z)) : option (bstate * outcome) :=
  match b_init l r with Some s => Some (b_from_nx_edges s edges) | None => None end.

(* ---------------------------------------------------------------- one snapshot of every view *)
Record view := mkView {
  vw_order : Z;                          (* number_of_vertices() *)
  vw_count : Z;                          (* number_of_edges() *)
  vw_edges : list (Z * Z);               (* list(edges()) *)
  vw_edges2 : list (Z * Z);              (* directed: list(edges_ordered_by_successors()); else [] *)
  vw_has : list (list bool);             (* has_edge(u, v) for u, v in the query ranges *)
  vw_nbr1 : list (option (list Z));      (* neighbors / successors / right_neighbors, None = ValueError *)
  vw_nbr2 : list (option (list Z));      (* -- / predecessors / left_neighbors *)
  vw_deg1 : list (option Z);             (* degree / out_degree / right_degree *)
  vw_deg2 : list (option Z);             (* -- / in_degree / left_degree *)
  vw_dag : bool                          (* is_dag(); false for bipartite (not implemented there) *)
}.

(* vertices asked about: -1, 0, 1 .. n, n+1, n+2 *)
Definition qrange (n : Z) : list Z := zrange (-1) (n + 3).

Definition g_view (s : gstate) : view :=
  let q := qrange (g_n s) in
  mkView (g_n s) (g_m s) (g_edges s) []
         (map (fun u => map (fun v => g_has_edge s u v) q) q)
         (map (g_neighbors s) q) [] (map (g_degree s) q) [] false.

Definition d_view (s : dstate) : view :=
  let q := qrange (d_n s) in
  mkView (d_n s) (d_m s) (d_edges s) (d_edges_by_dest s)
         (map (fun u => map (fun v => d_has_edge s u v) q) q)
         (map (d_successors s) q) (map (d_predecessors s) q)
         (map (d_out_degree s) q) (map (d_in_degree s) q) (d_dag s).

Definition b_view (s : bstate) : view :=
  let ql := qrange (b_l s) in
  let qr := qrange (b_r s) in
  mkView (b_l s + b_r s) (b_number_of_edges s) (b_edges s) []
         (map (fun u => map (fun v => b_has_edge s u v) qr) ql)
         (map (b_right_neighbors s) ql) (map (b_left_neighbors s) qr)
         (map (b_right_degree s) ql) (map (b_left_degree s) qr) false.

(* ---------------------------------------------------------------- runs *)
Definition g_run (s : gstate) (ops : list op) : gstate := fold_left (fun s o => fst (g_step s o)) ops s.
Definition d_run (s : dstate) (ops : list op) : dstate := fold_left (fun s o => fst (d_step s o)) ops s.
Definition b_run (s : bstate) (ops : list op) : bstate := fold_left (fun s o => fst (b_step s o)) ops s.

(* outcomes of the successive calls of a run, for any of the machines *)
Fixpoint outcomes {S} (step : S -> op -> S * outcome) (s : S) (ops : list op) : list outcome :=
  match ops with
  | [] => []
  | o :: r => snd (step s o) :: outcomes step (fst (step s o)) r
  end.

(* the driver interface: any of the three kinds, outcome and snapshot after every step *)
Inductive anystate := SG (s : gstate) | SD (s : dstate) | SB (s : bstate).

Definition any_init (k : kind) (a b : Z) : option anystate :=
  match k with
  | KSimple => match g_init a with Some s => Some (SG s) | None => None end
  | KDirected => match d_init a with Some s => Some (SD s) | None => None end
  | KBipartite => match b_init a b with Some s => Some (SB s) | None => None end
  end.
Definition any_step (s : anystate) (o : op) : anystate * outcome :=
  match s with
  | SG s => let '(s', r) := g_step s o in (SG s', r)
  | SD s => let '(s', r) := d_step s o in (SD s', r)
  | SB s => let '(s', r) := b_step s o in (SB s', r)
  end.
Definition any_view (s : anystate) : view :=
  match s with SG s => g_view s | SD s => d_view s | SB s => b_view s end.
Fixpoint any_trace (s : anystate) (ops : list op) : list (outcome * view) :=
  match ops with
  | [] => []
  | o :: r => let '(s', out) := any_step s o in (out, any_view s') :: any_trace s' r
  end.
(* None = the constructor raised ValueError *)
Definition graph_run (k : kind) (a b : Z) (ops : list op) : option (view * list (outcome * view)) :=
  match any_init k a b with
  | Some s => Some (any_view s, any_trace s ops)
  | None => None
  end.

(* round trip through networkx on the model: None = constructor error *)
Definition any_roundtrip (s : anystate) : option (outcome * view) :=
  match s with
  | SG s => let '(n, es) := g_to_nx s in
            match g_from_nx n es with Some (s', r) => Some (r, g_view s') | None => None end
  | SD s => let '(n, es) := d_to_nx s in
            match d_from_nx n es with Some (s', r) => Some (r, d_view s') | None => None end
  | SB s => let '(l, r, es) := b_to_nx s in
            match b_from_nx l r es with Some (s', o) => Some (o, b_view s') | None => None end
  end.
