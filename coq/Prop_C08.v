(* Property C08 — the pseudo-Boolean and the CNF rendering of a family are the
   same formula.  Every family is modelled once, as a list of builder calls
   (coq/IR.v); class CNF renders the list with to_cnf, class OPB with to_opb. *)
From Coq Require Import ZArith List Bool.
From Cnfgen Require Import Sem Comb Linear IR SemFacts LinearFacts IRFacts.
Import ListNotations.
Open Scope Z_scope.

(* for EVERY list of builder calls with non-zero literals and EVERY assignment *)
Theorem C08_same_models : forall a l, irs_ok l = true -> cnf_sat a (to_cnf l) = opb_sat a (to_opb l).
Proof. exact cnf_opb_same_models. Qed.
Print Assumptions C08_same_models.

(* both renderings mean the arithmetic the calls name *)
Theorem C08_cnf_meaning : forall a l, irs_ok l = true -> cnf_sat a (to_cnf l) = irs_hold a l.
Proof. exact to_cnf_sem. Qed.
Print Assumptions C08_cnf_meaning.
Theorem C08_opb_meaning : forall a l, irs_ok l = true -> opb_sat a (to_opb l) = irs_hold a l.
Proof. exact to_opb_sem. Qed.
Print Assumptions C08_opb_meaning.

Example C08_nonvacuous :
  let l := [IClause [1; -2]; ILin [1; 2; 3] CLe 1; IParity [1; 3] 1; ILooseMaj [-1; 2; 3]] in
  irs_ok l = true /\
  to_opb l = [mkpbc [(1, 1); (1, -2)] PGe 1; mkpbc [(1, -1); (1, -2); (1, -3)] PGe 2;
              mkpbc [(1, 1); (1, 3)] PGe 1; mkpbc [(1, -1); (1, -3)] PGe 1; mkpbc [(1, -1); (1, 2); (1, 3)] PGe 2] /\
  length (to_cnf l) = 9%nat.
Proof. vm_compute. repeat split. Qed.
