(* FamTabFacts.v — lemmas about variable tables, ranges and the mapping constraints
   (shared by the C01 family proofs). *)
From Coq Require Import ZArith List Bool Lia ZifyBool.
From Cnfgen Require Import Sem Comb Linear IR SemFacts LinearFacts IRFacts FamTab.
Import ListNotations.
Open Scope Z_scope.

(* ---------- ranges ---------- *)
Lemma In_zrange x a b : In x (zrange a b) <-> a <= x < b.
Proof.
  unfold zrange. rewrite in_map_iff. split.
  - intros [i [<- Hi]]. apply in_seq in Hi. lia.
  - intros H. exists (Z.to_nat (x - a)). split; [lia|]. apply in_seq. lia.
Qed.
Lemma In_upto x m : In x (upto m) <-> 1 <= x <= m.
Proof. unfold upto. rewrite In_zrange. lia. Qed.

Lemma NoDup_map_inj_in {A B} (f : A -> B) l :
  (forall x y, In x l -> In y l -> f x = f y -> x = y) -> NoDup l -> NoDup (map f l).
Proof.
  induction l as [|x t IH]; intros Hinj Hnd; [constructor|].
  inversion Hnd as [|? ? Hx Ht]; subst. cbn [map]. constructor.
  - intros Hin. apply in_map_iff in Hin as [y [Hy Hyin]]. apply Hx.
    rewrite (Hinj x y); auto; [now left|now right].
  - apply IH; auto. intros a b Ha Hb. apply Hinj; now right.
Qed.

Lemma NoDup_zrange a b : NoDup (zrange a b).
Proof.
  unfold zrange. apply NoDup_map_inj_in; [|apply seq_NoDup]. intros; lia.
Qed.
Lemma NoDup_upto m : NoDup (upto m). Proof. apply NoDup_zrange. Qed.
Lemma len_zrange a b : a <= b -> len (zrange a b) = b - a.
Proof. intros H. unfold len, zrange. rewrite map_length, seq_length. lia. Qed.
Lemma len_upto m : 0 <= m -> len (upto m) = m.
Proof. intros H. unfold upto. rewrite len_zrange; lia. Qed.
Lemma upto_nil m : m <= 0 -> upto m = [].
Proof. intros H. unfold upto, zrange. replace (Z.to_nat (m + 1 - 1)) with O by lia. reflexivity. Qed.

(* ---------- lists of builder calls ---------- *)
Lemma irs_hold_map {A} a (f : A -> ir) l :
  irs_hold a (map f l) = true <-> forall x, In x l -> ir_holds a (f x) = true.
Proof.
  unfold irs_hold. rewrite forallb_forall. split.
  - intros H x Hx. apply H. now apply in_map.
  - intros H i Hi. apply in_map_iff in Hi as [x [<- Hx]]. auto.
Qed.
Lemma irs_hold_flat_map {A} a (f : A -> list ir) l :
  irs_hold a (flat_map f l) = true <-> forall x, In x l -> irs_hold a (f x) = true.
Proof.
  unfold irs_hold. rewrite forallb_forall. split.
  - intros H x Hx. apply forallb_forall. intros i Hi. apply H. apply in_flat_map. eauto.
  - intros H i Hi. apply in_flat_map in Hi as [x [Hx Hi]]. specialize (H x Hx).
    rewrite forallb_forall in H. auto.
Qed.
Lemma irs_hold_app_iff a l1 l2 : irs_hold a (l1 ++ l2) = true <-> irs_hold a l1 = true /\ irs_hold a l2 = true.
Proof. rewrite irs_hold_app. apply andb_true_iff. Qed.
Lemma irs_hold_nil a : irs_hold a [] = true. Proof. reflexivity. Qed.
Lemma irs_ok_map {A} (f : A -> ir) l : (forall x, In x l -> ir_ok (f x) = true) -> irs_ok (map f l) = true.
Proof. intros H. unfold irs_ok. apply forallb_forall. intros i Hi. apply in_map_iff in Hi as [x [<- Hx]]. auto. Qed.
Lemma irs_ok_flat_map {A} (f : A -> list ir) l : (forall x, In x l -> irs_ok (f x) = true) -> irs_ok (flat_map f l) = true.
Proof.
  intros H. unfold irs_ok. apply forallb_forall. intros i Hi. apply in_flat_map in Hi as [x [Hx Hi]].
  specialize (H x Hx). unfold irs_ok in H. rewrite forallb_forall in H. auto.
Qed.
Lemma irs_ok_app_intro l1 l2 : irs_ok l1 = true -> irs_ok l2 = true -> irs_ok (l1 ++ l2) = true.
Proof. intros H1 H2. rewrite irs_ok_app, H1, H2. reflexivity. Qed.

(* a semantic characterisation transfers to the CNF and the OPB rendering *)
Lemma irs_transfer a l (P : Prop) : irs_ok l = true -> (irs_hold a l = true <-> P) ->
  (cnf_sat a (to_cnf l) = true <-> P) /\ (opb_sat a (to_opb l) = true <-> P).
Proof. intros Hok H. now rewrite to_cnf_sem, to_opb_sem. Qed.

Lemma lits_ok_pos ls : (forall l, In l ls -> 0 < l) -> lits_ok ls = true.
Proof. intros H. unfold lits_ok. apply forallb_forall. intros l Hl. apply nonzero_spec. specialize (H l Hl). lia. Qed.
Lemma lits_ok_forall ls : (forall l, In l ls -> l <> 0) -> lits_ok ls = true.
Proof. intros H. unfold lits_ok. apply forallb_forall. intros l Hl. apply nonzero_spec. auto. Qed.
Lemma lits_ok_app l1 l2 : lits_ok (l1 ++ l2) = lits_ok l1 && lits_ok l2.
Proof. unfold lits_ok. apply forallb_app. Qed.

(* ---------- clauses and counts over positive identifiers ---------- *)
Lemma clause_sat_map_pos {A} a (g : A -> Z) l : (forall x, In x l -> 0 < g x) ->
  (clause_sat a (map g l) = true <-> exists x, In x l /\ a (g x) = true).
Proof.
  intros Hpos. rewrite clause_sat_true_iff. split.
  - intros [v [Hv Ht]]. apply in_map_iff in Hv as [x [<- Hx]]. exists x. split; auto.
    now rewrite lit_true_pos in Ht by auto.
  - intros [x [Hx Ht]]. exists (g x). split; [now apply in_map|]. now rewrite lit_true_pos by auto.
Qed.

Lemma count_true_map_pos {A} a (g : A -> Z) l : (forall x, In x l -> 0 < g x) ->
  count_true a (map g l) = len (filter (fun x => a (g x)) l).
Proof.
  induction l as [|x t IH]; intros Hpos; [reflexivity|].
  cbn [map count_true filter]. rewrite lit_true_pos by (apply Hpos; now left).
  rewrite IH by (intros; apply Hpos; now right).
  destruct (a (g x)); cbn [b2z]; [rewrite len_cons|]; lia.
Qed.

Lemma filter_le1 {A} (P : A -> bool) l : NoDup l ->
  (len (filter P l) <= 1 <-> forall x y, In x l -> In y l -> P x = true -> P y = true -> x = y).
Proof.
  induction l as [|z t IH]; intros Hnd.
  - cbn. split; [intros _ x y []|intros; unfold len; cbn; lia].
  - inversion Hnd as [|? ? Hz Ht]; subst. cbn [filter]. destruct (P z) eqn:Pz.
    + rewrite len_cons. pose proof (len_nonneg (filter P t)) as Hn. split.
      * intros H x y Hx Hy Px Py.
        assert (Hnone : forall w, In w t -> P w = true -> False).
        { intros w Hw Pw. assert (In w (filter P t)) as Hin by (apply filter_In; auto).
          destruct (filter P t); [destruct Hin|]. rewrite len_cons in H. pose proof (len_nonneg l). lia. }
        destruct Hx as [<-|Hx], Hy as [<-|Hy]; auto; exfalso; eauto.
      * intros H. enough (filter P t = []) as -> by (unfold len; cbn; lia).
        destruct (filter P t) as [|w r] eqn:E; [reflexivity|exfalso].
        assert (In w (filter P t)) as Hin by (rewrite E; now left). apply filter_In in Hin as [Hw Pw].
        assert (z = w) by (apply H; auto; [now left|now right]). subst. auto.
    + rewrite IH by assumption. split.
      * intros H x y Hx Hy Px Py. destruct Hx as [<-|Hx]; [congruence|]. destruct Hy as [<-|Hy]; [congruence|]. auto.
      * intros H x y Hx Hy. apply H; now right.
Qed.

Lemma filter_len_exists {A} (P : A -> bool) l : 1 <= len (filter P l) <-> exists x, In x l /\ P x = true.
Proof.
  split.
  - intros H. destruct (filter P l) as [|x r] eqn:E; [unfold len in H; cbn in H; lia|].
    assert (In x (filter P l)) as Hin by (rewrite E; now left). apply filter_In in Hin. eauto.
  - intros [x [Hx Px]]. assert (In x (filter P l)) as Hin by (apply filter_In; auto).
    destruct (filter P l) as [|w r]; [destruct Hin|]. rewrite len_cons. pose proof (len_nonneg r). lia.
Qed.

Lemma atmost1_map_pos {A} a (g : A -> Z) l : (forall x, In x l -> 0 < g x) -> NoDup l ->
  ((count_true a (map g l) <=? 1) = true <->
   forall x y, In x l -> In y l -> a (g x) = true -> a (g y) = true -> x = y).
Proof.
  intros Hpos Hnd. rewrite count_true_map_pos by assumption. rewrite Z.leb_le.
  now rewrite (filter_le1 (fun x => a (g x)) l Hnd).
Qed.

Lemma lits_ok_map_pos {A} (g : A -> Z) l : (forall x, In x l -> 0 < g x) -> lits_ok (map g l) = true.
Proof. intros H. apply lits_ok_pos. intros v Hv. apply in_map_iff in Hv as [x [<- Hx]]. auto. Qed.

(* ---------- numbering ---------- *)
Lemma number_fst {I} : forall (l : list I) off, map fst (number off l) = l.
Proof. induction l as [|x t IH]; intros off; [reflexivity|]. cbn. now rewrite IH. Qed.
Lemma number_len {I} (l : list I) off : len (number off l) = len l.
Proof. rewrite <- (number_fst l off) at 2. now rewrite len_map. Qed.
Lemma number_range {I} : forall (l : list I) off e, In e (number off l) -> off < snd e <= off + len l.
Proof.
  induction l as [|x t IH]; intros off e H; [destruct H|]. cbn [number] in H. rewrite len_cons.
  pose proof (len_nonneg t). destruct H as [<-|H]; [cbn [snd]; lia|]. apply IH in H. lia.
Qed.
Lemma number_NoDup_snd {I} : forall (l : list I) off, NoDup (map snd (number off l)).
Proof.
  induction l as [|x t IH]; intros off; [constructor|]. cbn. constructor; [|apply IH].
  intros H. apply in_map_iff in H as [e [E He]]. apply number_range in He. lia.
Qed.
Lemma NoDup_of_map {A B} (f : A -> B) l : NoDup (map f l) -> NoDup l.
Proof.
  induction l as [|x t IH]; intros H; [constructor|]. cbn in H. inversion H; subst. constructor; auto.
  intros Hx. apply H2. now apply in_map.
Qed.
Lemma number_NoDup {I} (l : list I) off : NoDup (number off l).
Proof. apply (NoDup_of_map snd), number_NoDup_snd. Qed.
Lemma number_surj {I} : forall (l : list I) off v, off < v <= off + len l -> exists x, In (x, v) (number off l).
Proof.
  induction l as [|x t IH]; intros off v H; [rewrite len_nil in H; lia|]. rewrite len_cons in H. cbn [number].
  destruct (Z.eq_dec v (off + 1)) as [->|Hne]; [exists x; now left|].
  destruct (IH (off + 1) v) as [y Hy]; [lia|]. exists y. now right.
Qed.
Lemma number_app {I} : forall (l1 l2 : list I) off, number off (l1 ++ l2) = number off l1 ++ number (off + len l1) l2.
Proof.
  induction l1 as [|x t IH]; intros l2 off; cbn [app number].
  - rewrite len_nil. f_equal. lia.
  - rewrite IH, len_cons. do 3 f_equal. lia.
Qed.
Lemma number_pos {I} (l : list I) off e : 0 <= off -> In e (number off l) -> 0 < snd e.
Proof. intros H He. apply number_range in He. lia. Qed.
Lemma NoDup_snd_unique {I} (t : list (I * Z)) x y v : NoDup (map snd t) -> In (x, v) t -> In (y, v) t -> x = y.
Proof.
  induction t as [|e r IH]; intros Hnd Hx Hy; [destruct Hx|]. cbn in Hnd. inversion Hnd as [|? ? Hn Hr]; subst.
  destruct Hx as [->|Hx], Hy as [E|Hy].
  - congruence.
  - exfalso. apply Hn. cbn. change v with (snd (y, v)). now apply in_map.
  - subst e. exfalso. apply Hn. cbn. change v with (snd (x, v)). now apply in_map.
  - auto.
Qed.
Lemma NoDup_fst_unique {I} (t : list (I * Z)) x v w : NoDup (map fst t) -> In (x, v) t -> In (x, w) t -> v = w.
Proof.
  induction t as [|e r IH]; intros Hnd Hx Hy; [destruct Hx|]. cbn in Hnd. inversion Hnd as [|? ? Hn Hr]; subst.
  destruct Hx as [->|Hx], Hy as [E|Hy].
  - congruence.
  - exfalso. apply Hn. cbn. change x with (fst (x, w)). now apply in_map.
  - subst e. exfalso. apply Hn. cbn. change x with (fst (x, v)). now apply in_map.
  - auto.
Qed.

(* ---------- decoding / encoding through a table ---------- *)
Lemma In_sel {I} a (t : list (I * Z)) x : In x (sel a t) <-> exists v, In (x, v) t /\ a v = true.
Proof.
  unfold sel. rewrite in_map_iff. split.
  - intros [[y v] [E H]]. cbn in E. subst y. apply filter_In in H as [H1 H2]. eauto.
  - intros [v [H1 H2]]. exists (x, v). split; [reflexivity|]. apply filter_In. auto.
Qed.
Lemma NoDup_map_filter {A B} (f : A -> B) (P : A -> bool) l : NoDup (map f l) -> NoDup (map f (filter P l)).
Proof.
  induction l as [|x t IH]; intros H; [constructor|]. cbn in H. inversion H as [|? ? Hx Ht]; subst.
  cbn [filter]. destruct (P x); auto. cbn [map]. constructor; auto.
  intros Hin. apply Hx. apply in_map_iff in Hin as [y [E Hy]]. apply filter_In in Hy as [Hy _].
  rewrite <- E. now apply in_map.
Qed.
Lemma sel_NoDup {I} a (t : list (I * Z)) : NoDup (map fst t) -> NoDup (sel a t).
Proof. apply NoDup_map_filter. Qed.

Lemma count_ids_where {I} a (p : I -> bool) (t : list (I * Z)) : (forall e, In e t -> 0 < snd e) ->
  count_true a (ids_where p t) = len (filter p (sel a t)).
Proof.
  unfold ids_where, sel. induction t as [|e r IH]; intros Hpos; [reflexivity|].
  cbn [filter]. assert (0 < snd e) as He by (apply Hpos; now left).
  assert (forall e0, In e0 r -> 0 < snd e0) as Hr by (intros; apply Hpos; now right).
  specialize (IH Hr).
  destruct (p (fst e)) eqn:Pe, (a (snd e)) eqn:Ae; cbn [map count_true filter]; rewrite ?Pe, ?lit_true_pos, ?Ae by assumption;
    cbn [b2z]; rewrite ?len_cons, IH; lia.
Qed.
Lemma clause_ids_where {I} a (p : I -> bool) (t : list (I * Z)) : (forall e, In e t -> 0 < snd e) ->
  (clause_sat a (ids_where p t) = true <-> exists x, In x (sel a t) /\ p x = true).
Proof.
  intros Hpos. rewrite clause_sat_count, count_ids_where by assumption. rewrite Z.ltb_lt.
  rewrite <- filter_len_exists. lia.
Qed.
Lemma len_ids_where {I} (p : I -> bool) (t : list (I * Z)) : len (ids_where p t) = len (filter p (map fst t)).
Proof.
  unfold ids_where. rewrite len_map. induction t as [|e r IH]; [reflexivity|]. cbn [filter map].
  destruct (p (fst e)); rewrite ?len_cons, IH; reflexivity.
Qed.
Lemma lits_ok_ids_where {I} (p : I -> bool) (t : list (I * Z)) : (forall e, In e t -> 0 < snd e) ->
  lits_ok (ids_where p t) = true.
Proof.
  intros Hpos. apply lits_ok_pos. intros v Hv. unfold ids_where in Hv. apply in_map_iff in Hv as [e [<- He]].
  apply filter_In in He as [He _]. auto.
Qed.

Lemma enc_spec {I} (t : list (I * Z)) obj x v : NoDup (map snd t) -> In (x, v) t -> enc t obj v = obj x.
Proof.
  intros Hnd Hin. unfold enc. destruct (find (fun e => snd e =? v) t) as [e|] eqn:E.
  - apply find_some in E as [He Hv]. destruct e as [y w]. cbn in Hv. assert (w = v) by lia. subst w.
    cbn. f_equal. eapply NoDup_snd_unique; eauto.
  - exfalso. pose proof (find_none _ _ E (x, v) Hin) as H. cbn in H. lia.
Qed.
Lemma sel_ext {I} a b (t : list (I * Z)) : (forall e, In e t -> a (snd e) = b (snd e)) -> sel a t = sel b t.
Proof.
  intros H. unfold sel. f_equal. apply filter_ext_in. auto.
Qed.
Lemma filter_map_comm {A B} (f : A -> B) (P : B -> bool) l : filter P (map f l) = map f (filter (fun x => P (f x)) l).
Proof. induction l as [|x t IH]; [reflexivity|]. cbn. destruct (P (f x)); cbn; now rewrite IH. Qed.
Lemma sel_enc {I} (t : list (I * Z)) obj : NoDup (map snd t) -> sel (enc t obj) t = filter obj (map fst t).
Proof.
  intros Hnd. unfold sel. rewrite filter_map_comm. f_equal. apply filter_ext_in.
  intros [x v] Hin. cbn. now apply enc_spec.
Qed.
Lemma sel_inj {I} a b (t : list (I * Z)) : NoDup (map fst t) ->
  (forall x, In x (sel a t) <-> In x (sel b t)) -> forall e, In e t -> a (snd e) = b (snd e).
Proof.
  intros Hnd H [x v] Hin. cbn.
  assert (forall c d : Z -> bool, (forall y, In y (sel c t) -> In y (sel d t)) -> c v = true -> d v = true) as Hdir.
  { intros c d Hcd Hc. assert (In x (sel c t)) as Hx by (apply In_sel; eauto).
    apply Hcd, In_sel in Hx as [w [Hw Hd]]. now rewrite (NoDup_fst_unique t x v w Hnd Hin Hw). }
  destruct (a v) eqn:Ea, (b v) eqn:Eb; auto.
  - rewrite (Hdir a b) in Eb; auto. intros y. apply H.
  - rewrite (Hdir b a) in Ea; auto. intros y. apply H.
Qed.

(* ---------- closed-form block layout ---------- *)
Lemma bvar_pos off n i j : 0 <= off -> 0 <= n -> 1 <= i -> 1 <= j -> 0 < bvar off n i j.
Proof. intros. unfold bvar. pose proof (Z.mul_nonneg_nonneg (i - 1) n). lia. Qed.
Lemma bvar_range off m n i j : 1 <= i <= m -> 1 <= j <= n -> off < bvar off n i j <= off + m * n.
Proof.
  intros Hi Hj. unfold bvar. pose proof (Z.mul_nonneg_nonneg (i - 1) n).
  assert ((i - 1) * n <= (m - 1) * n) by (apply Z.mul_le_mono_nonneg_r; lia). lia.
Qed.
Lemma bvar_inv off n i j : 1 <= j <= n ->
  (bvar off n i j - off - 1) / n + 1 = i /\ (bvar off n i j - off - 1) mod n + 1 = j.
Proof.
  intros Hj. unfold bvar. replace (off + (i - 1) * n + j - off - 1) with (n * (i - 1) + (j - 1)) by lia.
  split.
  - rewrite <- (Z.div_unique (n * (i - 1) + (j - 1)) n (i - 1) (j - 1)); lia.
  - rewrite <- (Z.mod_unique (n * (i - 1) + (j - 1)) n (i - 1) (j - 1)); lia.
Qed.
Lemma bvar_inj off n i j i' j' : 1 <= j <= n -> 1 <= j' <= n -> bvar off n i j = bvar off n i' j' -> i = i' /\ j = j'.
Proof.
  intros Hj Hj' E. destruct (bvar_inv off n i j Hj) as [A B]. destruct (bvar_inv off n i' j' Hj') as [A' B'].
  rewrite E in A, B. lia.
Qed.
Lemma bvar_surj off m n v : off < v <= off + m * n -> 0 <= m -> 0 <= n ->
  exists i j, 1 <= i <= m /\ 1 <= j <= n /\ v = bvar off n i j.
Proof.
  intros Hv Hm Hn. assert (0 < n) as Hn0 by (destruct (Z.eq_dec n 0); [subst; lia|lia]).
  pose proof (Z.div_mod (v - off - 1) n ltac:(lia)) as E.
  pose proof (Z.mod_pos_bound (v - off - 1) n Hn0) as B.
  pose proof (Z.div_pos (v - off - 1) n ltac:(lia) Hn0) as Q.
  exists ((v - off - 1) / n + 1), ((v - off - 1) mod n + 1). split; [|split; [lia|unfold bvar; lia]].
  split; [lia|]. assert ((v - off - 1) / n < m); [|lia].
  apply Z.div_lt_upper_bound; lia.
Qed.

(* ---------- mapping constraints, complete layout ---------- *)
Section CompleteMappingOk.
  Context (off m n : Z) (Hoff : 0 <= off) (Hn : 0 <= n).

  Lemma blk_row_pos i : 1 <= i -> forall j, In j (upto n) -> 0 < bvar off n i j.
  Proof. intros Hi j Hj. apply In_upto in Hj. apply bvar_pos; lia. Qed.
  Lemma blk_col_pos j : 1 <= j -> forall i, In i (upto m) -> 0 < bvar off n i j.
  Proof. intros Hj i Hi. apply In_upto in Hi. apply bvar_pos; lia. Qed.

  Lemma cm_complete_ok : irs_ok (cm_complete off m n) = true.
  Proof. apply irs_ok_map. intros i Hi. apply In_upto in Hi. apply lits_ok_map_pos. apply blk_row_pos. lia. Qed.
  Lemma cm_functional_ok : irs_ok (cm_functional off m n) = true.
  Proof. apply irs_ok_map. intros i Hi. apply In_upto in Hi. apply lits_ok_map_pos. apply blk_row_pos. lia. Qed.
  Lemma cm_surjective_ok : irs_ok (cm_surjective off m n) = true.
  Proof. apply irs_ok_map. intros j Hj. apply In_upto in Hj. apply (lits_ok_map_pos (fun i => bvar off n i j)). apply blk_col_pos. lia. Qed.
  Lemma cm_injective_ok : irs_ok (cm_injective off m n) = true.
  Proof. apply irs_ok_map. intros j Hj. apply In_upto in Hj. apply (lits_ok_map_pos (fun i => bvar off n i j)). apply blk_col_pos. lia. Qed.
End CompleteMappingOk.

Section CompleteMapping.
  Context (a : Z -> bool) (off m n : Z) (Hoff : 0 <= off) (Hn : 0 <= n).

  Lemma cm_complete_sem : irs_hold a (cm_complete off m n) = true <->
    forall i, 1 <= i <= m -> exists j, 1 <= j <= n /\ a (bvar off n i j) = true.
  Proof.
    unfold cm_complete. rewrite irs_hold_map. split.
    - intros H i Hi. specialize (H i (proj2 (In_upto i m) Hi)). cbn [ir_holds] in H. unfold blk_row in H.
      apply clause_sat_map_pos in H; [|apply blk_row_pos; lia]. destruct H as [j [Hj Hv]]. apply In_upto in Hj. eauto.
    - intros H i Hi. apply In_upto in Hi. cbn [ir_holds]. unfold blk_row. apply clause_sat_map_pos; [apply blk_row_pos; lia|].
      destruct (H i Hi) as [j [Hj Hv]]. exists j. split; [now apply In_upto|assumption].
  Qed.
  Lemma cm_surjective_sem : irs_hold a (cm_surjective off m n) = true <->
    forall j, 1 <= j <= n -> exists i, 1 <= i <= m /\ a (bvar off n i j) = true.
  Proof.
    unfold cm_surjective. rewrite irs_hold_map. split.
    - intros H j Hj. specialize (H j (proj2 (In_upto j n) Hj)). cbn [ir_holds] in H. unfold blk_col in H.
      apply (clause_sat_map_pos a (fun i => bvar off n i j)) in H; [|apply blk_col_pos; lia].
      destruct H as [i [Hi Hv]]. apply In_upto in Hi. eauto.
    - intros H j Hj. apply In_upto in Hj. cbn [ir_holds]. unfold blk_col.
      apply (clause_sat_map_pos a (fun i => bvar off n i j)); [apply blk_col_pos; lia|].
      destruct (H j Hj) as [i [Hi Hv]]. exists i. split; [now apply In_upto|assumption].
  Qed.
  Lemma cm_injective_sem : irs_hold a (cm_injective off m n) = true <->
    forall j i1 i2, 1 <= j <= n -> 1 <= i1 <= m -> 1 <= i2 <= m ->
      a (bvar off n i1 j) = true -> a (bvar off n i2 j) = true -> i1 = i2.
  Proof.
    unfold cm_injective. rewrite irs_hold_map. split.
    - intros H j i1 i2 Hj H1 H2. specialize (H j (proj2 (In_upto j n) Hj)). cbn [ir_holds cop_holds] in H. unfold blk_col in H.
      pose proof (proj1 (atmost1_map_pos a (fun i => bvar off n i j) (upto m) (blk_col_pos off m n Hoff Hn j ltac:(lia)) (NoDup_upto m)) H) as H'.
      apply H'; now apply In_upto.
    - intros H j Hj. apply In_upto in Hj. cbn [ir_holds cop_holds]. unfold blk_col.
      apply (proj2 (atmost1_map_pos a (fun i => bvar off n i j) (upto m) (blk_col_pos off m n Hoff Hn j ltac:(lia)) (NoDup_upto m))).
      intros x y Hx Hy. apply In_upto in Hx, Hy. now apply H.
  Qed.
  Lemma cm_functional_sem : irs_hold a (cm_functional off m n) = true <->
    forall i j1 j2, 1 <= i <= m -> 1 <= j1 <= n -> 1 <= j2 <= n ->
      a (bvar off n i j1) = true -> a (bvar off n i j2) = true -> j1 = j2.
  Proof.
    unfold cm_functional. rewrite irs_hold_map. split.
    - intros H i j1 j2 Hi H1 H2. specialize (H i (proj2 (In_upto i m) Hi)). cbn [ir_holds cop_holds] in H. unfold blk_row in H.
      pose proof (proj1 (atmost1_map_pos a (bvar off n i) (upto n) (blk_row_pos off n Hoff Hn i ltac:(lia)) (NoDup_upto n)) H) as H'.
      apply H'; now apply In_upto.
    - intros H i Hi. apply In_upto in Hi. cbn [ir_holds cop_holds]. unfold blk_row.
      apply (proj2 (atmost1_map_pos a (bvar off n i) (upto n) (blk_row_pos off n Hoff Hn i ltac:(lia)) (NoDup_upto n))).
      intros x y Hx Hy. apply In_upto in Hx, Hy. now apply H.
  Qed.

End CompleteMapping.

(* ---------- mapping constraints, table layout ---------- *)
Section SparseMapping.
  Context (a : Z -> bool) (t : list ((Z * Z) * Z)) (L R : Z) (Hpos : forall e, In e t -> 0 < snd e).

  Lemma sm_complete_sem : irs_hold a (sm_complete t L) = true <->
    forall u, 1 <= u <= L -> exists v, In (u, v) (sel a t).
  Proof.
    unfold sm_complete. rewrite irs_hold_map. split.
    - intros H u Hu. specialize (H u (proj2 (In_upto u L) Hu)). cbn [ir_holds] in H. unfold row_ids in H.
      apply clause_ids_where in H; [|assumption]. destruct H as [[x v] [Hin Hp]]. cbn in Hp. assert (x = u) by lia. subst. eauto.
    - intros H u Hu. apply In_upto in Hu. cbn [ir_holds]. unfold row_ids. apply clause_ids_where; [assumption|].
      destruct (H u Hu) as [v Hv]. exists (u, v). split; [assumption|cbn; lia].
  Qed.
  Lemma sm_surjective_sem : irs_hold a (sm_surjective t R) = true <->
    forall v, 1 <= v <= R -> exists u, In (u, v) (sel a t).
  Proof.
    unfold sm_surjective. rewrite irs_hold_map. split.
    - intros H v Hv. specialize (H v (proj2 (In_upto v R) Hv)). cbn [ir_holds] in H. unfold col_ids in H.
      apply clause_ids_where in H; [|assumption]. destruct H as [[u x] [Hin Hp]]. cbn in Hp. assert (x = v) by lia. subst. eauto.
    - intros H v Hv. apply In_upto in Hv. cbn [ir_holds]. unfold col_ids. apply clause_ids_where; [assumption|].
      destruct (H v Hv) as [u Hu]. exists (u, v). split; [assumption|cbn; lia].
  Qed.

  Context (Hnd : NoDup (map fst t)).

  Lemma sm_injective_sem : irs_hold a (sm_injective t R) = true <->
    forall v u1 u2, 1 <= v <= R -> In (u1, v) (sel a t) -> In (u2, v) (sel a t) -> u1 = u2.
  Proof.
    unfold sm_injective. rewrite irs_hold_map. split.
    - intros H v u1 u2 Hv H1 H2. specialize (H v (proj2 (In_upto v R) Hv)). cbn [ir_holds cop_holds] in H. unfold col_ids in H.
      rewrite count_ids_where in H by assumption. apply Z.leb_le in H.
      rewrite (filter_le1 _ _ (sel_NoDup a t Hnd)) in H.
      specialize (H (u1, v) (u2, v) H1 H2). cbn in H. assert (E : (u1, v) = (u2, v)) by (apply H; lia). congruence.
    - intros H v Hv. apply In_upto in Hv. cbn [ir_holds cop_holds]. unfold col_ids.
      rewrite count_ids_where by assumption. apply Z.leb_le. rewrite (filter_le1 _ _ (sel_NoDup a t Hnd)).
      intros [u1 v1] [u2 v2] H1 H2 P1 P2. cbn in P1, P2. assert (v1 = v) by lia. assert (v2 = v) by lia. subst.
      f_equal. eapply H; eauto.
  Qed.
  Lemma sm_functional_sem : irs_hold a (sm_functional t L) = true <->
    forall u v1 v2, 1 <= u <= L -> In (u, v1) (sel a t) -> In (u, v2) (sel a t) -> v1 = v2.
  Proof.
    unfold sm_functional. rewrite irs_hold_map. split.
    - intros H u v1 v2 Hu H1 H2. specialize (H u (proj2 (In_upto u L) Hu)). cbn [ir_holds cop_holds] in H. unfold row_ids in H.
      rewrite count_ids_where in H by assumption. apply Z.leb_le in H.
      rewrite (filter_le1 _ _ (sel_NoDup a t Hnd)) in H.
      specialize (H (u, v1) (u, v2) H1 H2). cbn in H. assert (E : (u, v1) = (u, v2)) by (apply H; lia). congruence.
    - intros H u Hu. apply In_upto in Hu. cbn [ir_holds cop_holds]. unfold row_ids.
      rewrite count_ids_where by assumption. apply Z.leb_le. rewrite (filter_le1 _ _ (sel_NoDup a t Hnd)).
      intros [u1 v1] [u2 v2] H1 H2 P1 P2. cbn in P1, P2. assert (u1 = u) by lia. assert (u2 = u) by lia. subst.
      f_equal. eapply H; eauto.
  Qed.

End SparseMapping.

Section SparseMappingOk.
  Context (t : list ((Z * Z) * Z)) (L R : Z) (Hpos : forall e, In e t -> 0 < snd e).
  Lemma sm_complete_ok : irs_ok (sm_complete t L) = true.
  Proof. apply irs_ok_map. intros. now apply lits_ok_ids_where. Qed.
  Lemma sm_surjective_ok : irs_ok (sm_surjective t R) = true.
  Proof. apply irs_ok_map. intros. now apply lits_ok_ids_where. Qed.
  Lemma sm_injective_ok : irs_ok (sm_injective t R) = true.
  Proof. apply irs_ok_map. intros. now apply lits_ok_ids_where. Qed.
  Lemma sm_functional_ok : irs_ok (sm_functional t L) = true.
  Proof. apply irs_ok_map. intros. now apply lits_ok_ids_where. Qed.
End SparseMappingOk.

(* ---------- bipartite adjacency lists ---------- *)
Lemma strictly_increasing_spec : forall l, strictly_increasing l = true ->
  NoDup l /\ forall x, In x l -> match l with [] => False | h :: _ => h <= x end.
Proof.
  induction l as [|x t IH]; intros H; [split; [constructor|intros ? []]|].
  cbn [strictly_increasing] in H. destruct t as [|y r].
  - split; [constructor; [intros []|constructor]|]. intros z [<-|[]]. lia.
  - apply andb_true_iff in H as [Hxy Hr]. destruct (IH Hr) as [Hnd Hmin]. split.
    + constructor; [|assumption]. intros Hin. specialize (Hmin x Hin). lia.
    + intros z [<-|Hz]; [lia|]. specialize (Hmin z Hz). lia.
Qed.

Lemma In_bip_rows : forall adj u0 u v, In (u, v) (bip_rows u0 adj) <->
  u0 <= u < u0 + len adj /\ In v (nth (Z.to_nat (u - u0)) adj []).
Proof.
  induction adj as [|vs r IH]; intros u0 u v; cbn [bip_rows].
  - rewrite len_nil. split; [intros []|lia].
  - rewrite in_app_iff, in_map_iff, IH, len_cons. pose proof (len_nonneg r). split.
    + intros [[w [E Hw]]|[Hu Hv]].
      * inversion E; subst. replace (Z.to_nat (u - u)) with O by lia. cbn [nth]. split; [lia|assumption].
      * split; [lia|]. replace (Z.to_nat (u - u0)) with (S (Z.to_nat (u - (u0 + 1)))) by lia. exact Hv.
    + intros [Hu Hv]. destruct (Z.eq_dec u u0) as [->|Hne].
      * left. replace (Z.to_nat (u0 - u0)) with O in Hv by lia. cbn [nth] in Hv. eauto.
      * right. split; [lia|]. replace (Z.to_nat (u - u0)) with (S (Z.to_nat (u - (u0 + 1)))) in Hv by lia. exact Hv.
Qed.

Lemma NoDup_app_intro {A} (l1 l2 : list A) : NoDup l1 -> NoDup l2 -> (forall x, In x l1 -> In x l2 -> False) -> NoDup (l1 ++ l2).
Proof.
  induction l1 as [|x t IH]; intros H1 H2 Hd; [assumption|]. inversion H1 as [|? ? Hx Ht]; subst. cbn. constructor.
  - rewrite in_app_iff. intros [H|H]; [auto|]. apply (Hd x); [now left|assumption].
  - apply IH; auto. intros y Hy. apply Hd. now right.
Qed.

Lemma NoDup_bip_rows : forall adj u0, (forall vs, In vs adj -> NoDup vs) -> NoDup (bip_rows u0 adj).
Proof.
  induction adj as [|vs r IH]; intros u0 H; cbn [bip_rows]; [constructor|].
  apply NoDup_app_intro.
  - apply NoDup_map_inj_in; [intros; congruence|]. apply H. now left.
  - apply IH. intros. apply H. now right.
  - intros [u v] H1 H2. apply in_map_iff in H1 as [w [E _]]. inversion E; subst.
    apply In_bip_rows in H2. lia.
Qed.

(* ---------- pairs of a range ---------- *)
Lemma pairs_map_seq_in {B} (f : nat -> B) : forall k s i1 i2, (s <= i1)%nat -> (i1 < i2)%nat -> (i2 < s + k)%nat ->
  In (f i1, f i2) (pairs (map f (seq s k))).
Proof.
  induction k as [|k IH]; intros s i1 i2 H1 H2 H3; [lia|]. cbn [seq map pairs]. apply in_or_app.
  destruct (Nat.eq_dec i1 s) as [->|Hne].
  - left. apply in_map. apply in_map. apply in_seq. lia.
  - right. apply IH; lia.
Qed.
Lemma pairs_map_seq_inv {B} (f : nat -> B) : forall k s x y, In (x, y) (pairs (map f (seq s k))) ->
  exists i1 i2, (s <= i1)%nat /\ (i1 < i2)%nat /\ (i2 < s + k)%nat /\ x = f i1 /\ y = f i2.
Proof.
  induction k as [|k IH]; intros s x y H; cbn [seq map pairs] in H; [destruct H|]. apply in_app_or in H as [H|H].
  - apply in_map_iff in H as [w [E Hw]]. inversion E; subst. apply in_map_iff in Hw as [i2 [<- Hi]]. apply in_seq in Hi.
    exists s, i2. repeat split; lia.
  - apply IH in H as [i1 [i2 [? [? [? [? ?]]]]]]. exists i1, i2. repeat split; auto; lia.
Qed.
Lemma In_pairs_upto m x y : In (x, y) (pairs (upto m)) <-> 1 <= x /\ x < y /\ y <= m.
Proof.
  unfold upto, zrange. split.
  - intros H. apply pairs_map_seq_inv in H as (i1 & i2 & A & B & C & -> & ->). lia.
  - intros H. replace x with (1 + Z.of_nat (Z.to_nat (x - 1))) by lia. replace y with (1 + Z.of_nat (Z.to_nat (y - 1))) by lia.
    apply (pairs_map_seq_in (fun i => 1 + Z.of_nat i)); lia.
Qed.

(* ---------- a decoded selection is a filter of the index list ---------- *)
Definition pair_eqb (e f : Z * Z) : bool := (fst e =? fst f) && (snd e =? snd f).
Lemma pair_eqb_spec e f : pair_eqb e f = true <-> e = f.
Proof. destruct e, f. unfold pair_eqb. cbn. split; [intros H; f_equal; lia|intros H; inversion H; lia]. Qed.
Fixpoint zlist_eqb (l1 l2 : list Z) : bool :=
  match l1, l2 with
  | [], [] => true
  | x :: t1, y :: t2 => (x =? y) && zlist_eqb t1 t2
  | _, _ => false
  end.
Lemma zlist_eqb_spec : forall l1 l2, zlist_eqb l1 l2 = true <-> l1 = l2.
Proof.
  induction l1 as [|x t IH]; destruct l2 as [|y t2]; cbn; try (split; [discriminate|congruence]); [tauto|].
  rewrite andb_true_iff, IH. split; [intros [H1 H2]; f_equal; [lia|assumption]|intros H; inversion H; split; [lia|reflexivity]].
Qed.

Lemma sel_as_filter {I} (eqb : I -> I -> bool) a (t : list (I * Z)) :
  (forall x y, eqb x y = true <-> x = y) -> NoDup (map fst t) ->
  sel a t = filter (fun x => existsb (eqb x) (sel a t)) (map fst t).
Proof.
  intros Heq Hnd. rewrite filter_map_comm. unfold sel at 1. f_equal. apply filter_ext_in.
  intros [x v] Hin. cbn [fst snd]. destruct (a v) eqn:Ea.
  - symmetry. apply existsb_exists. exists x. split; [apply In_sel; eauto|now apply Heq].
  - symmetry. apply not_true_is_false. intros H. apply existsb_exists in H as [y [Hy Hxy]]. apply Heq in Hxy. subst y.
    apply In_sel in Hy as [w [Hw Ha]]. rewrite (NoDup_fst_unique t x v w Hnd Hin Hw) in Ea. congruence.
Qed.

(* ---------- every literal of a list of builder calls is a variable of 1..n (or its negation) ---------- *)
Definition irs_in_range (n : Z) (l : list ir) : Prop :=
  forall i x, In i l -> In x (ir_lits i) -> 1 <= Z.abs x <= n.
Lemma irs_in_range_app n l1 l2 : irs_in_range n l1 -> irs_in_range n l2 -> irs_in_range n (l1 ++ l2).
Proof. intros H1 H2 i x Hi. apply in_app_or in Hi as [Hi|Hi]; eauto. Qed.
Lemma irs_in_range_nil n : irs_in_range n []. Proof. intros i x []. Qed.
Lemma irs_in_range_map {A} n (f : A -> ir) l :
  (forall y x, In y l -> In x (ir_lits (f y)) -> 1 <= Z.abs x <= n) -> irs_in_range n (map f l).
Proof. intros H i x Hi Hx. apply in_map_iff in Hi as [y [<- Hy]]. eauto. Qed.
Lemma ids_where_range {I} (p : I -> bool) (l : list I) x : In x (ids_where p (number 0 l)) -> 1 <= Z.abs x <= len l.
Proof.
  unfold ids_where. intros H. apply in_map_iff in H as [e [<- He]]. apply filter_In in He as [He _].
  apply number_range in He. lia.
Qed.
Lemma blk_row_range off m n i x : 0 <= off -> 1 <= i <= m -> In x (blk_row off n i) -> 1 <= Z.abs x <= off + m * n.
Proof.
  intros Ho Hi Hx. unfold blk_row in Hx. apply in_map_iff in Hx as [j [<- Hj]]. apply In_upto in Hj.
  pose proof (bvar_range off m n i j Hi Hj). lia.
Qed.
Lemma blk_col_range off m n j x : 0 <= off -> 1 <= j <= n -> In x (blk_col off m n j) -> 1 <= Z.abs x <= off + m * n.
Proof.
  intros Ho Hj Hx. unfold blk_col in Hx. apply in_map_iff in Hx as [i [<- Hi]]. apply In_upto in Hi.
  pose proof (bvar_range off m n i j Hi Hj). lia.
Qed.
