(* Shuffle.v — model of cnfgen/transformations/shuffle.py : Shuffle.
   Definitions only.

   A formula is (N, F): N = F.number_of_variables(), F = the clause list.
   Each of the three arguments polarity_flips / variables_permutation /
   clauses_permutation is ShFixed (the string 'fixed') or ShGiven l (an explicit
   sequence of integers).  The string 'shuffle' is not a separate case: the code
   then draws  [random.choice([-1,1]) for x in range(N)],  random.shuffle of
   list(range(1,N+1))  and  random.shuffle of list(range(M))  and continues
   exactly as if these sequences had been given; the correspondence harness
   records the draws and passes them as ShGiven.

   The result is ShOk numvar clauses, or the ValueError the code raises:
   ShErrFlips (message perr), ShErrVars (verr), ShErrClauses (cerr), checked in
   this order.

   `sorted(seq)` on integers is modelled by insertion sort (`isort`);
   `sorted(enumerate(cp), key=lambda x: x[1])` (a stable sort by new position)
   by the stable insertion sort `psort` on (new position, clause) pairs; the
   clause that ends up at each position is then emitted in order (the code's
   assertion new == out.number_of_clauses() holds for every validated cp).

   Abstracted: headers; sequences whose elements are not integers (floats,
   strings: outside the documented types, classified separately by the
   harness); the literal table substitution[lit] is modelled by the function
   subst_lit (equal for literals within 1..N in absolute value). *)
From Coq Require Import ZArith List Bool.
From Cnfgen Require Import Sem Comb.
Import ListNotations.
Open Scope Z_scope.

Inductive sharg := ShFixed | ShGiven (l : list Z).
Inductive shres :=
| ShOk (numvar : Z) (F : cnf)
| ShErrFlips
| ShErrVars
| ShErrClauses.

(* sorted() on integers *)
Fixpoint zinsert (x : Z) (l : list Z) : list Z :=
  match l with
  | [] => [x]
  | y :: t => if x <=? y then x :: l else y :: zinsert x t
  end.
Fixpoint isort (l : list Z) : list Z :=
  match l with [] => [] | x :: t => zinsert x (isort t) end.

Fixpoint zlist_eqb (l1 l2 : list Z) : bool :=
  match l1, l2 with
  | [], [] => true
  | x :: t1, y :: t2 => (x =? y) && zlist_eqb t1 t2
  | _, _ => false
  end.

(* 'fixed' -> [1]*N ; else len != N or abs(f) != 1 -> ValueError(perr) *)
Definition check_flips (N : Z) (fl : sharg) : option (list Z) :=
  match fl with
  | ShFixed => Some (repeat 1 (Z.to_nat N))
  | ShGiven l =>
    if negb (len l =? N) then None
    else if forallb (fun f => Z.abs f =? 1) l then Some l else None
  end.

(* 'fixed' -> range(a, a+n) ; else len != n or sorted(l) != [a..a+n-1] -> ValueError *)
Definition check_permutation (a n : Z) (p : sharg) : option (list Z) :=
  match p with
  | ShFixed => Some (zrange a (a + n))
  | ShGiven l =>
    if negb (len l =? n) then None
    else if zlist_eqb (isort l) (zrange a (a + n)) then Some l else None
  end.

(* substitution[i] = polarity_flips[i-1] * variables_permutation[i-1];
   substitution[-i] = -substitution[i] *)
Definition subst_lit (flips perm : list Z) (l : Z) : Z :=
  let i := Z.to_nat (Z.abs l - 1) in
  let s := nth i flips 0 * nth i perm 0 in
  if l >? 0 then s else - s.

(* stable sort of (new position, clause) pairs by new position *)
Fixpoint pinsert {A} (p : Z * A) (l : list (Z * A)) : list (Z * A) :=
  match l with
  | [] => [p]
  | q :: t => if fst p <=? fst q then p :: l else q :: pinsert p t
  end.
Fixpoint psort {A} (l : list (Z * A)) : list (Z * A) :=
  match l with [] => [] | p :: t => pinsert p (psort t) end.

(* the i-th clause goes to position cp[i] *)
Definition place {A} (cp : list Z) (F : list A) : list A := map snd (psort (combine cp F)).

Definition shuffle (N : Z) (F : cnf) (fl pm cp : sharg) : shres :=
  match check_flips N fl with
  | None => ShErrFlips
  | Some flips =>
    match check_permutation 1 N pm with
    | None => ShErrVars
    | Some perm =>
      match check_permutation 0 (len F) cp with
      | None => ShErrClauses
      | Some cperm =>
        let out := place cperm (map (map (subst_lit flips perm)) F) in
        ShOk (Z.max N (max_var out)) out
      end
    end
  end.

(* ---------- notions used to state the property ---------- *)

(* first position of x in l *)
Fixpoint index_of (x : Z) (l : list Z) : nat :=
  match l with
  | [] => O
  | y :: t => if x =? y then O else S (index_of x t)
  end.

(* the inverse literal map *)
Definition inv_lit (flips perm : list Z) (l : Z) : Z :=
  let i := index_of (Z.abs l) perm in
  let s := nth i flips 0 * (Z.of_nat i + 1) in
  if l >? 0 then s else - s.

(* the assignment of the input variables induced by an assignment of the
   shuffled formula: variable v takes the value of the literal it is renamed to *)
Definition pull (sigma : Z -> Z) (a : Z -> bool) (v : Z) : bool := lit_true a (sigma v).

(* all 0/1 vectors of length n; vector -> assignment of the variables 1..n *)
Fixpoint all_vectors (n : nat) : list (list bool) :=
  match n with
  | O => [[]]
  | S m => map (cons false) (all_vectors m) ++ map (cons true) (all_vectors m)
  end.
Definition assign_of (vec : list bool) (v : Z) : bool := nth (Z.to_nat (v - 1)) vec false.
Definition count_models (N : Z) (F : cnf) : nat :=
  length (filter (fun vec => cnf_sat (assign_of vec) F) (all_vectors (Z.to_nat N))).
