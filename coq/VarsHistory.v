(* VarsHistory.v — all group kinds satisfy the group laws; the manager history
   machine: variable count bounds every mentioned variable, fresh allocation,
   groups are laid out in increasing disjoint ranges, label alignment. *)
From Coq Require Import ZArith List Bool Lia ZifyBool String.
From Cnfgen Require Import Sem Comb SemFacts Vars VarsLists VarsFacts VarsBip VarsComb.
Import ListNotations.
Open Scope Z_scope.

Theorem all_group_laws off s : 0 <= off -> shape_wf s -> group_laws off s.
Proof.
  intros Hoff Hw. destruct s as [|ranges|kind n k|adj R|succ b|adj|n m|n m].
  - now apply single_laws.
  - destruct Hw. now apply block_laws.
  - now apply words_laws.
  - eapply graph_shape_laws; eauto; reflexivity.
  - destruct b; eapply graph_shape_laws; eauto; reflexivity.
  - eapply graph_shape_laws; eauto; reflexivity.
  - eapply graph_shape_laws; eauto; reflexivity.
  - destruct Hw. now apply binmap_laws.
Qed.

(* ---------- what the constructors check ---------- *)
Definition graph_wf (s : shape) : Prop :=
  match s with
  | BipEdges adj _ | DiEdges adj _ | GraphEdges adj => adj_nodup adj
  | _ => True
  end.

Lemma created_wf f g : vg_create f g = Created -> graph_wf (g_shape g) -> shape_wf (g_shape g).
Proof.
  unfold vg_create. destruct (fmt_ok _ _); cbn [negb]; [|discriminate].
  destruct (g_shape g) as [|ranges|kind n k|adj R|succ b|adj|n m|n m]; cbn [graph_wf shape_wf]; intros H G; auto.
  - destruct ranges as [|r t]; [discriminate|]. cbn [length Nat.eqb] in H.
    destruct (forallb _ (r :: t)) eqn:E; [|discriminate]. split; [discriminate|].
    apply Forall_forall. intros x Hx. rewrite forallb_forall in E. specialize (E x Hx). lia.
  - destruct (Z.ltb_spec n 0); destruct (Z.ltb_spec k 0); cbn [orb] in H; try discriminate. lia.
  - destruct (Z.ltb_spec n 0); destruct (Z.ltb_spec m 0); cbn [orb] in H; try discriminate. lia.
  - destruct (Z.ltb_spec m 1); destruct (Z.ltb_spec n 1); cbn [orb] in H; try discriminate. lia.
Qed.

(* ---------- largest variable mentioned ---------- *)
Lemma max_var_clause_nonneg c : 0 <= max_var_clause c.
Proof. induction c as [|l t IH]; cbn; lia. Qed.
Lemma max_var_nonneg F : 0 <= max_var F.
Proof. induction F as [|c t IH]; cbn; [lia|]. pose proof (max_var_clause_nonneg c). lia. Qed.
Lemma max_var_app F c : max_var (F ++ [c]) = Z.max (max_var F) (max_var_clause c).
Proof.
  induction F as [|d t IH]; cbn [app max_var fold_right].
  - pose proof (max_var_clause_nonneg c). lia.
  - fold (max_var (t ++ [c])). fold (max_var t). rewrite IH. lia.
Qed.
Lemma max_var_clause_bound c l : In l c -> Z.abs l <= max_var_clause c.
Proof. induction c as [|x t IH]; intros H; [destruct H|]. cbn. destruct H as [<-|H]; [lia|]. specialize (IH H). fold (max_var_clause t). lia. Qed.
Lemma max_var_bound F c l : In c F -> In l c -> Z.abs l <= max_var F.
Proof.
  induction F as [|d t IH]; intros Hc Hl; [destruct Hc|]. cbn. fold (max_var t). destruct Hc as [<-|Hc].
  - pose proof (max_var_clause_bound _ _ Hl). lia.
  - specialize (IH Hc Hl). lia.
Qed.

(* ---------- the invariant of C10 ---------- *)
Definition inv (st : vstate) : Prop := 0 <= st_numvar st /\ max_var (st_clauses st) <= st_numvar st.

(* the side condition: an unchecked insertion mentions only declared variables;
   a checked insertion is one the code accepts (no literal 0) *)
Definition op_ok (f : variant) (st : vstate) (o : op) : Prop :=
  match o with
  | OpAddClause c true => fixD34 f = true \/ lits_ok c = true
  | OpAddClause c false => max_var_clause c <= st_numvar st
  | _ => True
  end.

Fixpoint ops_ok (f : variant) (st : vstate) (ops : list op) : Prop :=
  match ops with
  | [] => True
  | o :: t => op_ok f st o /\ ops_ok f (fst (vm_step f st o)) t
  end.

Lemma add_group_facts st off g st' out : add_variable_group st off g = (st', out) ->
  st_clauses st' = st_clauses st /\ st_numvar st <= st_numvar st' /\
  (out = VmValueError /\ st' = st \/
   out = VmAllocated off /\ st_groups st' = st_groups st ++ [(off, g)] /\
   (gsize (g_shape g) = 0 /\ st_numvar st' = st_numvar st \/
    gsize (g_shape g) <> 0 /\ st_numvar st < off + 1 /\ st_numvar st' = Z.max (st_numvar st) (off + gsize (g_shape g)))).
Proof.
  unfold add_variable_group. destruct (Z.eqb_spec (gsize (g_shape g)) 0) as [E|E].
  - intros Hq. injection Hq as <- <-. cbn. split; [reflexivity|]. split; [lia|]. right. auto.
  - destruct (Z.leb_spec (off + 1) (st_numvar st)); intros Hq; injection Hq as <- <-.
    + split; [reflexivity|]. split; [lia|]. left. auto.
    + cbn. split; [reflexivity|]. split; [lia|]. right. split; [reflexivity|]. split; [reflexivity|]. right. split; [exact E|]. split; [lia|reflexivity].
Qed.

Lemma step_numvar_mono f st o : st_numvar st <= st_numvar (fst (vm_step f st o)).
Proof.
  destruct o as [g|c chk|k]; cbn [vm_step].
  - destruct (vg_create (fixD2 f) g); cbn [fst]; try lia.
    destruct (add_variable_group st (st_numvar st) g) as [st' out] eqn:E. apply add_group_facts in E. cbn [fst]. lia.
  - destruct chk; [destruct (lits_ok c); [|destruct (fixD34 f)]|]; cbn; lia.
  - destruct (k <? 0); cbn; lia.
Qed.

Theorem inv_step f st o : inv st -> op_ok f st o -> inv (fst (vm_step f st o)).
Proof.
  intros [H0 H1] Hok. destruct o as [g|c chk|k]; cbn [vm_step].
  - destruct (vg_create (fixD2 f) g); cbn [fst]; try (split; assumption).
    destruct (add_variable_group st (st_numvar st) g) as [st' out] eqn:E. apply add_group_facts in E as [Ec [En _]]. cbn [fst].
    unfold inv. rewrite Ec. lia.
  - destruct chk; cbn [op_ok] in Hok.
    + destruct (lits_ok c) eqn:El.
      * cbn [fst]. unfold inv. cbn [st_numvar st_clauses]. rewrite max_var_app. lia.
      * destruct Hok as [Hok|Hok]; [|discriminate]. rewrite Hok. cbn [fst]. split; assumption.
    + cbn [fst]. unfold inv. cbn [st_numvar st_clauses]. rewrite max_var_app. lia.
  - destruct (Z.ltb_spec k 0); cbn [fst]; unfold inv; cbn [st_numvar st_clauses]; lia.
Qed.

Theorem inv_run f : forall ops st, inv st -> ops_ok f st ops -> inv (vm_run f st ops).
Proof.
  induction ops as [|o t IH]; intros st Hi Hok; [exact Hi|].
  destruct Hok as [H1 H2]. unfold vm_run. cbn [fold_left]. apply IH; [now apply inv_step|exact H2].
Qed.

Lemma inv_init : inv vm_init. Proof. split; cbn; lia. Qed.

(* fresh allocation: the identifiers handed to a new group lie above every variable mentioned so far *)
Theorem fresh_allocation f st g st' off : inv st -> vm_step f st (OpNewGroup g) = (st', VmAllocated off) ->
  off = st_numvar st /\
  (forall c l, In c (st_clauses st) -> In l c -> Z.abs l <= off) /\
  (forall x, off + 1 <= x -> max_var (st_clauses st) < x).
Proof.
  intros [H0 H1] H. cbn [vm_step] in H. destruct (vg_create (fixD2 f) g); try (injection H; discriminate).
  apply add_group_facts in H as [_ [_ [[E _]|[E _]]]]; [discriminate|]. injection E as E.
  split; [lia|]. split.
  - intros c l Hc Hl. pose proof (max_var_bound _ _ _ Hc Hl). lia.
  - intros x Hx. lia.
Qed.

Theorem fresh_in_history f ops g st' off : ops_ok f vm_init ops ->
  vm_step f (vm_run f vm_init ops) (OpNewGroup g) = (st', VmAllocated off) ->
  forall c l, In c (st_clauses (vm_run f vm_init ops)) -> In l c -> Z.abs l <= off.
Proof.
  intros Hok H. pose proof (inv_run f ops vm_init inv_init Hok) as Hi.
  now destruct (fresh_allocation f _ g st' off Hi H) as [_ [F _]].
Qed.

(* ---------- layout of the groups ---------- *)
Fixpoint groups_sorted (lo : Z) (gs : list (Z * group)) (hi : Z) : Prop :=
  match gs with
  | [] => lo <= hi
  | (off, g) :: t => lo <= off /\ 0 <= gsize (g_shape g) /\ groups_sorted (off + gsize (g_shape g)) t hi
  end.

Lemma groups_sorted_weaken gs : forall lo hi hi', groups_sorted lo gs hi -> hi <= hi' -> groups_sorted lo gs hi'.
Proof.
  induction gs as [|[off g] t IH]; intros lo hi hi' H L; cbn [groups_sorted] in *; [lia|].
  destruct H as [H1 [H2 H3]]. split; [exact H1|]. split; [exact H2|]. eapply IH; eauto.
Qed.

Lemma groups_sorted_snoc gs : forall lo hi off g hi', groups_sorted lo gs hi -> hi <= off -> 0 <= gsize (g_shape g) ->
  off + gsize (g_shape g) <= hi' -> groups_sorted lo (gs ++ [(off, g)]) hi'.
Proof.
  induction gs as [|[o1 g1] t IH]; intros lo hi off g hi' H L S L2; cbn [app groups_sorted] in *.
  - split; [lia|]. split; [exact S|lia].
  - destruct H as [H1 [H2 H3]]. split; [exact H1|]. split; [exact H2|]. eapply IH; eauto.
Qed.

Lemma groups_sorted_le gs : forall lo hi, groups_sorted lo gs hi -> lo <= hi.
Proof.
  induction gs as [|[off g] t IH]; intros lo hi H; cbn [groups_sorted] in H; [exact H|].
  destruct H as [H1 [H2 H3]]. apply IH in H3. lia.
Qed.

Lemma created_size_nonneg f g : vg_create f g = Created -> 0 <= gsize (g_shape g).
Proof.
  unfold vg_create. destruct (fmt_ok _ _); cbn [negb]; [|discriminate].
  destruct (g_shape g) as [|ranges|kind n k|adj R|succ b|adj|n m|n m]; intros H; cbn [gsize shape_bip]; try apply bip_size_nonneg; try lia.
  - destruct ranges as [|r t]; [discriminate|]. cbn [length Nat.eqb] in H.
    destruct (forallb _ (r :: t)) eqn:E; [|discriminate]. apply block_size_nonneg.
    apply Forall_forall. intros x Hx. rewrite forallb_forall in E. specialize (E x Hx). lia.
  - apply len_nonneg.
  - destruct b; apply bip_size_nonneg.
  - destruct (Z.ltb_spec m 1); destruct (Z.ltb_spec n 1); cbn [orb] in H; try discriminate. pose proof (bitlength_nonneg m). nia.
Qed.

Definition op_wf (o : op) : Prop := match o with OpNewGroup g => graph_wf (g_shape g) | _ => True end.
Definition layout (st : vstate) : Prop :=
  0 <= st_numvar st /\ groups_sorted 0 (st_groups st) (st_numvar st) /\ Forall (fun og => shape_wf (g_shape (snd og))) (st_groups st).

Theorem layout_step f st o : layout st -> op_wf o -> layout (fst (vm_step f st o)).
Proof.
  intros [H0 [H1 H2]] Hw. destruct o as [g|c chk|k]; cbn [vm_step].
  - destruct (vg_create (fixD2 f) g) eqn:C; cbn [fst]; try (repeat split; assumption).
    destruct (add_variable_group st (st_numvar st) g) as [st' out] eqn:E. apply add_group_facts in E as [Ec [En [[_ ->]|[_ [Eg Es]]]]]; cbn [fst].
    + repeat split; assumption.
    + pose proof (created_size_nonneg _ _ C) as S. unfold layout. rewrite Eg. split; [lia|]. split.
      * eapply groups_sorted_snoc; [exact H1|lia|exact S|]. destruct Es as [[Z1 Z2]|[Z1 [Z2 Z3]]]; lia.
      * apply Forall_app. split; [exact H2|]. constructor; [|constructor]. cbn [snd]. eapply created_wf; eauto.
  - destruct chk; [destruct (lits_ok c); [|destruct (fixD34 f)]|]; cbn [fst]; unfold layout; cbn [st_numvar st_groups]; repeat split; try assumption; try lia.
    eapply groups_sorted_weaken; eauto. lia.
  - destruct (Z.ltb_spec k 0); cbn [fst]; unfold layout; cbn [st_numvar st_groups]; repeat split; try assumption; try lia.
    eapply groups_sorted_weaken; eauto. lia.
Qed.

Theorem layout_run f : forall ops st, layout st -> Forall op_wf ops -> layout (vm_run f st ops).
Proof.
  induction ops as [|o t IH]; intros st Hl Hw; [exact Hl|].
  inversion Hw as [|? ? W1 W2]; subst. unfold vm_run. cbn [fold_left]. apply IH; [now apply layout_step|exact W2].
Qed.

Lemma layout_init : layout vm_init.
Proof. unfold layout. cbn. repeat split; try lia. constructor. Qed.

(* ---------- labels ---------- *)
(* no singleton variable is created directly after anonymous variables *)
Fixpoint singles_tight (prev_end : Z) (gs : list (Z * group)) : bool :=
  match gs with
  | [] => true
  | (off, g) :: t =>
      if gsize (g_shape g) =? 0 then singles_tight prev_end t
      else (if is_single g then off =? prev_end else true) && singles_tight (off + gsize (g_shape g)) t
  end.

Lemma label_of_groups_below dflt gs : forall lo hi v, groups_sorted lo gs hi -> v <= lo ->
  label_of_groups dflt gs v = default_label dflt v.
Proof.
  induction gs as [|[off g] t IH]; intros lo hi v H L; [reflexivity|].
  cbn [groups_sorted] in H. destruct H as [H1 [H2 H3]]. cbn [label_of_groups].
  destruct (Z.leb_spec (off + 1) v); [lia|]. cbn [andb]. eapply IH; eauto. lia.
Qed.

Lemma labels_of_group_range dflt off g t : 0 <= off -> shape_wf (g_shape g) ->
  map (label_of_groups dflt ((off, g) :: t)) (zrange (off + 1) (off + gsize (g_shape g) + 1)) = vg_labels g.
Proof.
  intros Hoff Hw. pose proof (all_group_laws off _ Hoff Hw) as L.
  rewrite (map_ext_in _ (fun v => match vg_to_index off (g_shape g) v with Some i => label_of_index g i | None => EmptyString end)).
  - rewrite <- (map_map (vg_to_index off (g_shape g)) (fun o => match o with Some i => label_of_index g i | None => EmptyString end)).
    rewrite (g_unrank_all _ _ L), map_map. reflexivity.
  - intros v Hv. apply in_zrange in Hv. cbn [label_of_groups].
    destruct (Z.leb_spec (off + 1) v); [|lia]. destruct (Z.leb_spec v (off + gsize (g_shape g))); [|lia]. reflexivity.
Qed.

Lemma label_of_groups_above dflt off g t v : off + gsize (g_shape g) < v ->
  label_of_groups dflt ((off, g) :: t) v = label_of_groups dflt t v.
Proof.
  intros H. cbn [label_of_groups]. destruct (Z.leb_spec v (off + gsize (g_shape g))); [lia|].
  now rewrite andb_false_r.
Qed.

Lemma single_size g : is_single g = true -> gsize (g_shape g) = 1 /\ vg_labels g = [label_of_index g []].
Proof. unfold is_single, vg_labels. destruct (g_shape g); try discriminate. intros _. split; reflexivity. Qed.

(* the list the code produces is the list of the names of variables varid .. endv *)
Theorem labels_loop_spec fixD3 dflt : forall gs varid endv, 1 <= varid ->
  groups_sorted (varid - 1) gs endv -> Forall (fun og => shape_wf (g_shape (snd og))) gs ->
  fixD3 = true \/ singles_tight (varid - 1) gs = true ->
  labels_loop fixD3 dflt gs varid endv = map (label_of_groups dflt gs) (zrange varid (endv + 1)).
Proof.
  induction gs as [|[off g] t IH]; intros varid endv Hv Hs Hw Ht; [reflexivity|].
  cbn [groups_sorted] in Hs. destruct Hs as [S1 [S2 S3]]. inversion Hw as [|? ? W1 W2]; subst. cbn [snd] in W1.
  cbn [labels_loop]. destruct (Z.eqb_spec (gsize (g_shape g)) 0) as [E|E].
  - rewrite E, Z.add_0_r in S3.
    assert (S3' : groups_sorted (varid - 1) t endv).
    { destruct t as [|[o2 g2] t2]; cbn [groups_sorted] in *; [lia|]. destruct S3 as [A [B C]]. split; [lia|auto]. }
    rewrite IH; [|exact Hv|exact S3'|exact W2|].
    + apply map_ext. intros v. cbn [label_of_groups]. rewrite E.
      destruct (Z.leb_spec (off + 1) v); destruct (Z.leb_spec v (off + 0)); cbn [andb]; try reflexivity. lia.
    + destruct Ht as [Ht|Ht]; [now left|right]. cbn [singles_tight] in Ht. rewrite E in Ht. cbn [Z.eqb] in Ht. exact Ht.
  - assert (Ge : off + gsize (g_shape g) <= endv) by (apply groups_sorted_le in S3; exact S3).
    assert (T3 : fixD3 = true \/ singles_tight (off + gsize (g_shape g)) t = true).
    { destruct Ht as [Ht|Ht]; [now left|right]. cbn [singles_tight] in Ht.
      destruct (Z.eqb_spec (gsize (g_shape g)) 0); [contradiction|]. now apply andb_true_iff in Ht as [_ Ht]. }
    destruct (is_single g && negb fixD3) eqn:B.
    + (* the code as it is, on a singleton: correct only without a gap *)
      apply andb_true_iff in B as [B1 B2]. destruct fixD3; [discriminate|].
      destruct Ht as [Ht|Ht]; [discriminate|]. cbn [singles_tight] in Ht.
      destruct (Z.eqb_spec (gsize (g_shape g)) 0); [contradiction|]. rewrite B1 in Ht.
      apply andb_true_iff in Ht as [Ht1 Ht2]. apply Z.eqb_eq in Ht1.
      destruct (single_size g B1) as [Sz _]. rewrite Sz in *.
      rewrite zrange_cons by lia. cbn [map]. f_equal.
      * cbn [label_of_groups]. rewrite Sz. destruct (Z.leb_spec (off + 1) varid); [|lia]. destruct (Z.leb_spec varid (off + 1)); [|lia].
        cbn [andb]. unfold is_single in B1. destruct (g_shape g) eqn:Eg; try discriminate.
        unfold vg_to_index. cbn [gsize]. rewrite Z.abs_eq by lia.
        destruct (Z.leb_spec (off + 1) varid); [|lia]. destruct (Z.leb_spec varid (off + 1)); [|lia]. reflexivity.
      * rewrite IH; [|lia| | |].
        -- apply map_ext_in. intros v Hv'. apply in_zrange in Hv'. symmetry. apply label_of_groups_above. lia.
        -- replace (varid + 1 - 1) with (off + 1) by lia. exact S3.
        -- exact W2.
        -- right. replace (varid + 1 - 1) with (off + 1) by lia. exact Ht2.
    + (* gap filling, labels of the group, rest *)
      replace (Z.max varid (off + 1)) with (off + 1) by lia.
      rewrite (zrange_app varid (off + 1) (endv + 1)) by lia.
      rewrite (zrange_app (off + 1) (off + gsize (g_shape g) + 1) (endv + 1)) by lia.
      rewrite !map_app. f_equal; [|f_equal].
      * apply map_ext_in. intros v Hv'. apply in_zrange in Hv'. symmetry.
        apply (label_of_groups_below dflt _ v endv); [|lia]. cbn [groups_sorted]. split; [lia|auto].
      * symmetry. apply labels_of_group_range; [lia|exact W1].
      * replace (off + 1 + gsize (g_shape g)) with (off + gsize (g_shape g) + 1) by lia.
        rewrite IH; [|lia| |exact W2|].
        -- apply map_ext_in. intros v Hv'. apply in_zrange in Hv'. symmetry. apply label_of_groups_above. lia.
        -- replace (off + gsize (g_shape g) + 1 - 1) with (off + gsize (g_shape g)) by lia. exact S3.
        -- replace (off + gsize (g_shape g) + 1 - 1) with (off + gsize (g_shape g)) by lia. exact T3.
Qed.

Definition names_of_variables (dflt : list string) (st : vstate) : list string :=
  map (vg_label_of dflt st) (zrange 1 (st_numvar st + 1)).

Theorem labels_aligned_layout fixD3 dflt st : layout st ->
  fixD3 = true \/ singles_tight 0 (st_groups st) = true ->
  all_variable_labels fixD3 dflt st = names_of_variables dflt st.
Proof.
  intros [H0 [H1 H2]] Ht. unfold all_variable_labels, names_of_variables, vg_label_of.
  apply labels_loop_spec; [lia|exact H1|exact H2|exact Ht].
Qed.

(* for every history: with the repaired enumeration always, with the code as it is
   when no singleton variable follows anonymous variables *)
Theorem labels_aligned_history f fixD3 dflt ops : Forall op_wf ops ->
  fixD3 = true \/ singles_tight 0 (st_groups (vm_run f vm_init ops)) = true ->
  all_variable_labels fixD3 dflt (vm_run f vm_init ops) = names_of_variables dflt (vm_run f vm_init ops).
Proof. intros Hw Ht. apply labels_aligned_layout; [apply layout_run; [apply layout_init|exact Hw]|exact Ht]. Qed.


(* ---------- the number of names is the number of variables (code as it is, every history) ---------- *)
Lemma groups_sorted_lower gs lo lo' hi : groups_sorted lo gs hi -> lo' <= lo -> groups_sorted lo' gs hi.
Proof. destruct gs as [|[off g] t]; cbn [groups_sorted]; intros H L; [lia|]. destruct H as [A [B C]]. split; [lia|auto]. Qed.

Lemma labels_len g : shape_wf (g_shape g) -> len (vg_labels g) = gsize (g_shape g).
Proof.
  intros Hw. unfold vg_labels. rewrite len_map.
  apply (g_size 0 (g_shape g)). apply all_group_laws; [lia|exact Hw].
Qed.

Lemma labels_loop_len fixD3 dflt : forall gs varid endv, 1 <= varid ->
  groups_sorted (varid - 1) gs endv -> Forall (fun og => shape_wf (g_shape (snd og))) gs ->
  len (labels_loop fixD3 dflt gs varid endv) = endv - varid + 1.
Proof.
  induction gs as [|[off g] t IH]; intros varid endv Hv Hs Hw.
  - cbn [labels_loop groups_sorted] in *. rewrite len_map, zrange_len; lia.
  - cbn [groups_sorted] in Hs. destruct Hs as [S1 [S2 S3]]. inversion Hw as [|? ? W1 W2]; subst. cbn [snd] in W1.
    cbn [labels_loop]. destruct (Z.eqb_spec (gsize (g_shape g)) 0) as [E|E].
    + apply IH; [exact Hv| |exact W2]. rewrite E in S3. eapply groups_sorted_lower; eauto. lia.
    + pose proof (groups_sorted_le _ _ _ S3) as Ge.
      destruct (is_single g && negb fixD3) eqn:B.
      * apply andb_true_iff in B as [B1 _]. destruct (single_size g B1) as [Sz _]. rewrite Sz in *.
        rewrite len_cons, IH; [lia|lia| |exact W2]. eapply groups_sorted_lower; eauto. lia.
      * replace (Z.max varid (off + 1)) with (off + 1) by lia.
        rewrite !len_app, len_map, zrange_len by lia. rewrite labels_len by exact W1.
        rewrite IH; [lia|lia| |exact W2].
        replace (off + 1 + gsize (g_shape g) - 1) with (off + gsize (g_shape g)) by lia. exact S3.
Qed.

Theorem labels_length_history f fixD3 dflt ops : Forall op_wf ops ->
  len (all_variable_labels fixD3 dflt (vm_run f vm_init ops)) = st_numvar (vm_run f vm_init ops).
Proof.
  intros Hw. destruct (layout_run f ops vm_init layout_init Hw) as [H0 [H1 H2]].
  unfold all_variable_labels. rewrite labels_loop_len; [lia|lia|exact H1|exact H2].
Qed.

(* ---------- the faithful model does NOT align names (DESIGN D3) ---------- *)
Definition hist_D3 : list op := [OpRaiseNumvar 3; OpNewGroup (mkgroup GSingle ["X"%string])].

Lemma labels_D3_as_is :
  all_variable_labels false ["x"%string; ""%string] (vm_run as_is vm_init hist_D3) = ["X"; "x2"; "x3"; "x4"]%string /\
  names_of_variables ["x"%string; ""%string] (vm_run as_is vm_init hist_D3) = ["x1"; "x2"; "x3"; "X"]%string.
Proof. vm_compute. split; reflexivity. Qed.

Theorem labels_refuted : exists ops dflt, Forall op_wf ops /\
  all_variable_labels false dflt (vm_run as_is vm_init ops) <> names_of_variables dflt (vm_run as_is vm_init ops).
Proof.
  exists hist_D3, ["x"%string; ""%string]. split.
  - repeat constructor.
  - destruct labels_D3_as_is as [-> ->]. discriminate.
Qed.

(* new_combinations_with_replacement cannot be used at all (DESIGN D2) *)
Theorem combrepl_crash_as_is n k fmt st : 0 <= n -> 0 <= k -> fmt_ok (GWords WCombRepl n k) fmt = true ->
  vm_step as_is st (OpNewGroup (mkgroup (GWords WCombRepl n k) fmt)) = (st, VmCrash).
Proof.
  intros Hn Hk Hf. cbn [vm_step]. unfold vg_create. cbn [g_shape g_fmt]. rewrite Hf. cbn [negb].
  destruct (Z.ltb_spec n 0); [lia|]. destruct (Z.ltb_spec k 0); [lia|]. reflexivity.
Qed.

(* a checked insertion that the code rejects has already stored the clause:
   without the side condition the invariant and freshness fail *)
Theorem inv_rejected_clause_refuted : exists ops st' off,
  vm_step as_is (vm_run as_is vm_init ops) (OpNewGroup (mkgroup GSingle ["Y"%string])) = (st', VmAllocated off) /\
  exists c l, In c (st_clauses (vm_run as_is vm_init ops)) /\ In l c /\ off + 1 <= Z.abs l.
Proof.
  exists [OpAddClause [7; 0] true]. eexists. exists 0. split; [vm_compute; reflexivity|].
  exists [7; 0], 7. vm_compute. intuition discriminate.
Qed.

(* ---------- statements in the form quoted by Prop_C11.v ---------- *)
Section Wrap.
  Context (off : Z) (s : shape) (Hoff : 0 <= off) (Hw : shape_wf s).
  Let L := all_group_laws off s Hoff Hw.
  Lemma w_size : len (vg_indices s) = gsize s. Proof. exact (g_size off s L). Qed.
  Lemma w_enum : map (vg_to_id off s) (vg_indices s) = map Some (zrange (off + 1) (off + gsize s + 1)). Proof. exact (g_enum off s L). Qed.
  Lemma w_index_of_id i x : In i (vg_indices s) -> vg_to_id off s i = Some x ->
    vg_to_index off s x = Some i /\ vg_to_index off s (- x) = Some i /\ off + 1 <= x <= off + gsize s.
  Proof. exact (g_index_of_id off s L i x). Qed.
  Lemma w_id_of_index l i : vg_to_index off s l = Some i -> In i (vg_indices s) /\ vg_to_id off s i = Some (Z.abs l).
  Proof. exact (g_id_of_index off s L l i). Qed.
  Lemma w_to_index_none l : vg_to_index off s l = None <-> ~ (off + 1 <= Z.abs l <= off + gsize s).
  Proof. exact (g_to_index_none off s L l). Qed.
  Lemma w_to_id_some i x : vg_to_id off s i = Some x ->
    In (canon s i) (vg_indices s) /\ vg_to_index off s x = Some (canon s i) /\ off + 1 <= x <= off + gsize s.
  Proof. exact (g_to_id_some off s L i x). Qed.
  Lemma w_to_id_rejects i : ~ In (canon s i) (vg_indices s) -> vg_to_id off s i = None.
  Proof. exact (g_to_id_rejects off s L i). Qed.
  Lemma w_nodup : NoDup (vg_indices s). Proof. exact (g_nodup off s L). Qed.
  Lemma w_unrank_all : map (vg_to_index off s) (zrange (off + 1) (off + gsize s + 1)) = map Some (vg_indices s).
  Proof. exact (g_unrank_all off s L). Qed.
End Wrap.

Lemma names_nth dflt st i : 1 <= i <= st_numvar st -> znth (i - 1) (names_of_variables dflt st) = Some (vg_label_of dflt st i).
Proof.
  intros H. unfold names_of_variables. rewrite znth_map, znth_zrange by lia. cbn [option_map]. f_equal. f_equal. lia.
Qed.

Theorem labels_nth_history f fixD3 dflt ops i : Forall op_wf ops ->
  fixD3 = true \/ singles_tight 0 (st_groups (vm_run f vm_init ops)) = true ->
  1 <= i <= st_numvar (vm_run f vm_init ops) ->
  znth (i - 1) (all_variable_labels fixD3 dflt (vm_run f vm_init ops)) = Some (vg_label_of dflt (vm_run f vm_init ops) i).
Proof. intros Hw Ht Hi. rewrite labels_aligned_history by assumption. now apply names_nth. Qed.
