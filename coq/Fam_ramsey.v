(* Fam_ramsey.v — model of cnfgen/families/ramsey.py:
     RamseyNumber, VanDerWaerden (_vdw_ap_generator), PythagoreanTriples.
   Definitions only.

   Variables: RamseyNumber e_{u,v} (u < v) = new_combinations(N,2), [cid];
   VanDerWaerden with two colours x_i = i, with C >= 3 colours x_{i,c} = (i-1)*C + c
   (new_block(N,C)) and one cardinality_eq(...,1) per number; PythagoreanTriples v(x) = x.
   _vdw_ap_generator(N,k) divides by k-1: for k = 1 the Python code raises
   ZeroDivisionError (DESIGN D12); [vdw_formula] returns that exception,
   [vdw_spec_formula] is the documented behaviour (a progression of length 1 is a
   single number).  int(sqrt(.)) is modelled by the exact integer square root
   (DESIGN section 8: exact below 2^52).
   Abstracted: description/header, labels. *)
From Coq Require Import ZArith List Bool.
From Cnfgen Require Import Sem Comb Linear IR C03_Util Fam_ordering.
Import ListNotations.
Open Scope Z_scope.

(* ---------- RamseyNumber ---------- *)
Definition ram_pos (N : Z) (S : list Z) : list Z := map (fun p => cid N (fst p) (snd p)) (pairs S).
Definition ram_neg (N : Z) (S : list Z) : list Z := map (fun p => - cid N (fst p) (snd p)) (pairs S).
Definition ram_cnf (s k N : Z) : cnf :=
  map (ram_pos N) (combs (vrange N) (Z.to_nat s)) ++ map (ram_neg N) (combs (vrange N) (Z.to_nat k)).
Definition ram_numvar (N : Z) : Z := N * (N - 1) / 2.
Definition ram_formula (s k N : Z) : c3res :=
  if (N <? 0) || (s <? 1) || (k <? 1) then C3Err C3ValueError
  else C3Ok (ram_numvar N) (clauses_ir (ram_cnf s k N)).

(* ---------- VanDerWaerden ---------- *)
(* arithmetic progressions of length k >= 2 in 1..N, in the generator's order *)
Definition vdw_aps (N k : Z) : list (list Z) :=
  flat_map (fun d => map (fun i => map (fun t => i + d * t) (zrange 0 k))
                         (zrange 1 (N - d * k + d + 1)))
           (zrange 1 ((N - 1) / (k - 1) + 1)).
(* documented meaning, also for k = 1 *)
Definition vdw_aps_spec (N k : Z) : list (list Z) :=
  if k =? 1 then map (fun i => [i]) (vrange N) else vdw_aps N k.

Definition vdw_var (C i c : Z) : Z := (i - 1) * C + c.

Definition vdw_ir (aps : Z -> Z -> list (list Z)) (N : Z) (ks : list Z) : list ir :=
  match ks with
  | [k1; k2] => clauses_ir (aps N k1 ++ map (map Z.opp) (aps N k2))
  | _ => let C := len ks in
         map (fun i => ILin (map (vdw_var C i) (vrange C)) CEq 1) (vrange N)
         ++ flat_map (fun c => map (fun ap => IClause (map (fun i => - vdw_var C i c) ap))
                                   (aps N (nth (Z.to_nat (c - 1)) ks 0))) (vrange (len ks))
  end.
Definition vdw_numvar (N : Z) (ks : list Z) : Z :=
  match ks with [_; _] => N | _ => N * len ks end.

Definition vdw_args_ok (N : Z) (ks : list Z) : bool :=
  (0 <=? N) && (2 <=? len ks) && forallb (fun k => 1 <=? k) ks.

(* the code as it is *)
Definition vdw_formula (N : Z) (ks : list Z) : c3res :=
  if negb (vdw_args_ok N ks) then C3Err C3ValueError
  else if existsb (fun k => k =? 1) ks then C3Err C3ZeroDivisionError
  else C3Ok (vdw_numvar N ks) (vdw_ir vdw_aps N ks).
(* the documented behaviour *)
Definition vdw_spec_formula (N : Z) (ks : list Z) : c3res :=
  if negb (vdw_args_ok N ks) then C3Err C3ValueError
  else C3Ok (vdw_numvar N ks) (vdw_ir vdw_aps_spec N ks).

(* ---------- PythagoreanTriples ---------- *)
Definition ptn_cnf (N : Z) : cnf :=
  flat_map (fun p => let x := fst p in let y := snd p in
                     let z := Z.sqrt (x * x + y * y) in
                     if (z <=? N) && (z * z =? x * x + y * y)
                     then [[x; y; z]; [- x; - y; - z]] else []) (pairs_lt N).
Definition ptn_formula (N : Z) : c3res :=
  if N <? 0 then C3Err C3ValueError else C3Ok N (clauses_ir (ptn_cnf N)).
