(* Fam_pebbling.v — model of cnfgen/families/pebbling.py:
     PebblingFormula, StoneFormula, SparseStoneFormula.
   Definitions only.

   A DAG is given as the list [D] of the (sorted) predecessor lists of the
   vertices 1..n (n = length D); cnfgen's DirectedGraph.predecessors(v) is
   [nthZ D v], DirectedGraph.is_dag() is "every edge goes forward" ([dag_ok]),
   out_degree(v) == 0 is [is_sink].  A stone availability graph (BipartiteGraph)
   is the list [B] of the sorted right-neighbour lists of the left vertices 1..n
   together with the number [R] of stones.
   Variables: PebblingFormula x(v) = v.  SparseStoneFormula: R_j = j (new_block),
   then P_{v,j} (new_sparse_mapping) numbered vertex by vertex in the order of the
   neighbour lists; force_complete_mapping adds one clause per vertex.
   Abstracted: names/labels/header; graph objects (only adjacency is kept). *)
From Coq Require Import ZArith List Bool.
From Cnfgen Require Import Sem Comb Linear IR C03_Util.
Import ListNotations.
Open Scope Z_scope.

Definition is_sink (D : list (list Z)) (v : Z) : bool := negb (existsb (memZ v) D).

Definition dag_ok (D : list (list Z)) : bool :=
  forallb (fun v => forallb (fun p => (1 <=? p) && (p <? v)) (nthZ D v)) (vrange (len D)).

(* ---------- PebblingFormula ---------- *)
Definition peb_vertex (D : list (list Z)) (v : Z) : cnf :=
  (map Z.opp (nthZ D v) ++ [v]) :: (if is_sink D v then [[- v]] else []).
Definition peb_cnf (D : list (list Z)) : cnf := flat_map (peb_vertex D) (vrange (len D)).
Definition peb_formula (D : list (list Z)) : c3res :=
  if dag_ok D then C3Ok (len D) (clauses_ir (peb_cnf D)) else C3Err C3ValueError.

(* ---------- SparseStoneFormula ---------- *)
(* P_{v,j}: offset of vertex v plus the position of j among the stones allowed on v *)
Definition Pvar (B : list (list Z)) (R : Z) (v j : Z) : Z :=
  R + prefix_len B (Z.to_nat (v - 1)) + indexZ j (nthZ B v) + 1.

Definition sstone_complete (B : list (list Z)) (R : Z) : cnf :=
  map (fun v => map (Pvar B R v) (nthZ B v)) (vrange (len B)).

Definition sstone_prop_clause (B : list (list Z)) (R : Z) (pred : list Z) (v j : Z) (pat : list Z) : list Z :=
  map (fun ps => - Pvar B R (fst ps) (snd ps)) (combine pred pat)
  ++ [- Pvar B R v j] ++ map Z.opp (uniqify pat) ++ [j].

Definition sstone_vertex (D B : list (list Z)) (R : Z) (v : Z) : cnf :=
  flat_map (fun j =>
      map (sstone_prop_clause B R (nthZ D v) v j)
          (prod (map (fun p => filter (fun s => negb (s =? j)) (nthZ B p)) (nthZ D v))))
    (nthZ B v)
  ++ (if is_sink D v then map (fun j => [- Pvar B R v j; - j]) (nthZ B v) else []).

Definition sstone_cnf (D B : list (list Z)) (R : Z) : cnf :=
  sstone_complete B R ++ flat_map (sstone_vertex D B R) (vrange (len D)).

Definition sstone_numvar (B : list (list Z)) (R : Z) : Z := R + prefix_len B (length B).

(* stones allowed on a vertex are in 1..R *)
Definition bip_ok (B : list (list Z)) (R : Z) : bool :=
  forallb (forallb (fun j => (1 <=? j) && (j <=? R))) B.

Definition sstone_formula (D B : list (list Z)) (R : Z) : c3res :=
  if negb (dag_ok D) then C3Err C3ValueError
  else if negb (len B =? len D) then C3Err C3ValueError
  else C3Ok (sstone_numvar B R) (clauses_ir (sstone_cnf D B R)).

(* ---------- StoneFormula: complete availability graph ---------- *)
Definition complete_bip (n : nat) (R : Z) : list (list Z) := repeat (vrange R) n.
Definition stone_cnf (D : list (list Z)) (R : Z) : cnf := sstone_cnf D (complete_bip (length D) R) R.
Definition stone_formula (D : list (list Z)) (R : Z) : c3res :=
  if negb (dag_ok D) then C3Err C3ValueError
  else if R <? 0 then C3Err C3ValueError
  else sstone_formula D (complete_bip (length D) R) R.
