(* FamRange_C01.v — literal range and documented variable counts of the C01 families
   (pigeonhole.py, counting.py, subsetcardinality.py, cliquecoloring.py).
   Every literal handed to a builder call is a variable of 1..numvar or its negation
   ([lits_bounded], FamRange_Util.v), hence so is every literal of the CNF rendering.
   Lemmas only; the statements are in Prop_C10_families.v. *)
From Coq Require Import ZArith List Bool Lia ZifyBool.
From Cnfgen Require Import Sem Comb Linear SemFacts LinearFacts IR IRFacts IRRange FamTab FamTabFacts
  Fam_php Fam_count Fam_subsetcard Fam_cliquecol Fam_php_Facts Fam_count_Facts Fam_subsetcard_Facts
  Fam_cliquecol_Facts Cli FamRange_Util.
Import ListNotations.
Open Scope Z_scope.

(* the notion of the family files is the one of FamRange_Util *)
Lemma famtab_bounded n l : FamTabFacts.irs_in_range n l -> lits_bounded n l.
Proof. intros H. exact H. Qed.

(* ---------- complete mappings with an offset, inside a larger formula ---------- *)
Lemma cm_complete_bounded off m n tot : 0 <= off -> off + m * n <= tot -> lits_bounded tot (cm_complete off m n).
Proof.
  intros Ho Ht. apply lits_bounded_map. intros i x Hi Hx. apply In_upto in Hi. cbn [ir_lits] in Hx.
  pose proof (blk_row_range off m n i x Ho Hi Hx). lia.
Qed.
Lemma cm_functional_bounded off m n tot : 0 <= off -> off + m * n <= tot -> lits_bounded tot (cm_functional off m n).
Proof.
  intros Ho Ht. apply lits_bounded_map. intros i x Hi Hx. apply In_upto in Hi. cbn [ir_lits] in Hx.
  pose proof (blk_row_range off m n i x Ho Hi Hx). lia.
Qed.
Lemma cm_surjective_bounded off m n tot : 0 <= off -> off + m * n <= tot -> lits_bounded tot (cm_surjective off m n).
Proof.
  intros Ho Ht. apply lits_bounded_map. intros j x Hj Hx. apply In_upto in Hj. cbn [ir_lits] in Hx.
  pose proof (blk_col_range off m n j x Ho Hj Hx). lia.
Qed.
Lemma cm_injective_bounded off m n tot : 0 <= off -> off + m * n <= tot -> lits_bounded tot (cm_injective off m n).
Proof.
  intros Ho Ht. apply lits_bounded_map. intros j x Hj Hx. apply In_upto in Hj. cbn [ir_lits] in Hx.
  pose proof (blk_col_range off m n j x Ho Hj Hx). lia.
Qed.

(* ================= PigeonholePrinciple ================= *)
Theorem php_range m n f o : lits_in_range (php_numvar m n) (to_cnf (php_ir m n f o)) = true.
Proof. apply bounded_to_cnf, famtab_bounded, php_in_range. Qed.
Lemma php_numvar_doc m n : php_numvar m n = m * n.
Proof. reflexivity. Qed.

(* ================= GraphPigeonholePrinciple ================= *)
Theorem gphp_range adj R f o : lits_in_range (gphp_numvar adj) (to_cnf (gphp_ir adj R f o)) = true.
Proof. apply bounded_to_cnf, famtab_bounded, gphp_in_range. Qed.

(* number of edges of a bipartite graph given by adjacency lists *)
Definition bip_edges (adj : list (list Z)) : Z := fold_right (fun vs s => len vs + s) 0 adj.
Lemma len_bip_rows : forall adj u, len (bip_rows u adj) = bip_edges adj.
Proof.
  induction adj as [|vs t IH]; intros u; [reflexivity|].
  cbn [bip_rows bip_edges fold_right]. rewrite len_app, len_map, IH. reflexivity.
Qed.
Lemma gphp_numvar_doc adj : gphp_numvar adj = bip_edges adj.
Proof. unfold gphp_numvar, bip_index. apply len_bip_rows. Qed.

(* ================= BinaryPigeonholePrinciple ================= *)
Lemma bphp_forbid_from_bounded K m i j : 1 <= i <= m -> forall k x, Z.of_nat k <= K ->
  In x (bphp_forbid_from K i j k) -> 1 <= Z.abs x <= m * K.
Proof.
  intros Hi. induction k as [|k IH]; intros x Hk Hx; [destruct Hx|].
  cbn [bphp_forbid_from] in Hx. destruct Hx as [<-|Hx]; [|apply IH; [lia|exact Hx]].
  assert (1 <= bitvar K i (Z.of_nat k) <= m * K) as B.
  { unfold bitvar. assert (0 < K) by lia. split; nia. }
  destruct (Z.testbit j (Z.of_nat k)); lia.
Qed.
Lemma bphp_forbid_bounded K m i j x : 1 <= i <= m -> In x (bphp_forbid K i j) -> 1 <= Z.abs x <= m * K.
Proof.
  intros Hi Hx. unfold bphp_forbid in Hx. destruct (Z.le_gt_cases 0 K) as [HK|HK].
  - apply (bphp_forbid_from_bounded K m i j Hi (Z.to_nat K) x); [lia|exact Hx].
  - replace (Z.to_nat K) with O in Hx by lia. destruct Hx.
Qed.
Lemma bphp_bounded m n : lits_bounded (bphp_numvar m n) (bphp_ir m n).
Proof.
  unfold bphp_ir, bphp_numvar. cbv zeta. apply lits_bounded_app.
  - apply lits_bounded_flat_map. intros i Hi. apply In_upto in Hi. apply lits_bounded_map.
    intros j x _ Hx. cbn [ir_lits] in Hx. now apply (bphp_forbid_bounded _ m i j).
  - apply lits_bounded_flat_map. intros y _. apply lits_bounded_map. intros [i1 i2] x Hp Hx.
    apply In_pairs_upto in Hp. cbn [ir_lits fst snd] in Hx. apply in_app_or in Hx as [Hx|Hx].
    + apply (bphp_forbid_bounded _ m i1 y); [lia|exact Hx].
    + apply (bphp_forbid_bounded _ m i2 y); [lia|exact Hx].
Qed.
Theorem bphp_range m n : lits_in_range (bphp_numvar m n) (to_cnf (bphp_ir m n)) = true.
Proof. apply bounded_to_cnf, bphp_bounded. Qed.
Lemma bphp_numvar_doc m n : bphp_numvar m n = m * Z.log2_up n.
Proof. reflexivity. Qed.

(* the documented behaviour on the whole documented domain (repair of D30) *)
Lemma bphp_spec_bounded m n : lits_bounded (bphp_spec_numvar m n) (bphp_spec_ir m n).
Proof.
  unfold bphp_spec_ir, bphp_spec_numvar. destruct (m =? 0) eqn:Em; [apply lits_bounded_nil|].
  destruct (n =? 0) eqn:En; cbn [orb].
  - apply lits_bounded_cons; [intros x []|apply lits_bounded_nil].
  - apply bphp_bounded.
Qed.
Theorem bphp_spec_range m n : lits_in_range (bphp_spec_numvar m n) (to_cnf (bphp_spec_ir m n)) = true.
Proof. apply bounded_to_cnf, bphp_spec_bounded. Qed.
Lemma bphp_spec_numvar_doc m n : 1 <= m -> 1 <= n -> bphp_spec_numvar m n = m * Z.log2_up n.
Proof.
  intros Hm Hn. unfold bphp_spec_numvar. destruct (m =? 0) eqn:Em; [lia|]. destruct (n =? 0) eqn:En; [lia|]. reflexivity.
Qed.

(* ================= RelativizedPigeonholePrinciple ================= *)
Lemma rphp_bounded m r n : rphp_valid m r n = true -> lits_bounded (rphp_numvar m r n) (rphp_ir m r n).
Proof.
  intros Hv. unfold rphp_valid in Hv. assert (0 <= m /\ 0 <= r /\ 0 <= n) as [Hm [Hr Hn]] by lia.
  pose proof (Z.mul_nonneg_nonneg m r Hm Hr) as Hmr. pose proof (Z.mul_nonneg_nonneg r n Hr Hn) as Hrn.
  unfold rphp_ir, rphp_numvar. repeat apply lits_bounded_app.
  - apply cm_complete_bounded; lia.
  - apply cm_injective_bounded; lia.
  - apply lits_bounded_flat_map. intros v Hv'. apply In_upto in Hv'. apply lits_bounded_map. intros u x Hu Hx.
    apply In_upto in Hu. cbn [ir_lits] in Hx. unfold rp, rr in Hx.
    pose proof (bvar_range 0 m r u v Hu Hv'). destruct Hx as [<-|[<-|[]]]; lia.
  - apply lits_bounded_map. intros v x Hv' Hx. apply In_upto in Hv'. cbn [ir_lits] in Hx. destruct Hx as [<-|Hx].
    + unfold rr. lia.
    + pose proof (blk_row_range (m * r) r n v x Hmr Hv' Hx). lia.
  - apply lits_bounded_flat_map. intros w Hw. apply In_upto in Hw. apply lits_bounded_map. intros [v1 v2] x Hp Hx.
    apply In_pairs_upto in Hp. cbn [ir_lits fst snd] in Hx. unfold rr, rq in Hx.
    pose proof (bvar_range (m * r) r n v1 w ltac:(lia) Hw). pose proof (bvar_range (m * r) r n v2 w ltac:(lia) Hw).
    destruct Hx as [<-|[<-|[<-|[<-|[]]]]]; lia.
Qed.
Theorem rphp_range m r n : rphp_valid m r n = true -> lits_in_range (rphp_numvar m r n) (to_cnf (rphp_ir m r n)) = true.
Proof. intros Hv. apply bounded_to_cnf, rphp_bounded, Hv. Qed.
Lemma rphp_numvar_doc m r n : rphp_numvar m r n = m * r + r * n + r.
Proof. reflexivity. Qed.

(* ================= CountingPrinciple ================= *)
Theorem count_range M p : lits_in_range (count_numvar M p) (to_cnf (count_ir M p)) = true.
Proof. apply bounded_to_cnf, famtab_bounded, count_in_range. Qed.

(* the number of k-subsets of a list, in the order of itertools.combinations, is the binomial coefficient *)
Lemma len_combs {A} : forall (l : list A) k, len (combs l k) = binom (length l) k.
Proof.
  induction l as [|x t IH]; intros k.
  - destruct k; reflexivity.
  - destruct k as [|k]; [reflexivity|]. cbn [combs length binom]. rewrite len_app, len_map, !IH. reflexivity.
Qed.
Lemma length_upto M : length (upto M) = Z.to_nat M.
Proof. unfold upto, zrange. rewrite map_length, seq_length. f_equal. lia. Qed.
Lemma count_numvar_doc M p : count_numvar M p = binom (Z.to_nat M) (Z.to_nat p).
Proof. unfold count_numvar, count_blocks. rewrite len_combs, length_upto. reflexivity. Qed.

(* ================= PerfectMatchingPrinciple ================= *)
Theorem matching_range n es : lits_in_range (matching_numvar es) (to_cnf (matching_ir n es)) = true.
Proof. apply bounded_to_cnf, famtab_bounded, matching_in_range. Qed.
Lemma matching_numvar_doc es : matching_numvar es = len es.
Proof. reflexivity. Qed.

(* ================= SubsetCardinalityFormula ================= *)
Theorem subsetcard_range adj R eq : lits_in_range (subsetcard_numvar adj) (to_cnf (subsetcard_ir adj R eq)) = true.
Proof. apply bounded_to_cnf, famtab_bounded, subsetcard_in_range. Qed.
Lemma subsetcard_numvar_doc adj : subsetcard_numvar adj = bip_edges adj.
Proof. unfold subsetcard_numvar, bip_index. apply len_bip_rows. Qed.

(* ================= CliqueColoring ================= *)
Lemma cliquecol_bounded n k c : cc_valid n k c = true -> lits_bounded (cc_numvar n k c) (cliquecol_ir n k c).
Proof.
  intros Hv. unfold cc_valid in Hv. assert (0 <= n /\ 0 <= k /\ 0 <= c) as [Hn [Hk Hc]] by lia.
  pose proof (cc_ne_nonneg n) as Hne. pose proof (Z.mul_nonneg_nonneg k n Hk Hn) as Hkn.
  pose proof (Z.mul_nonneg_nonneg n c Hn Hc) as Hnc.
  unfold cliquecol_ir, cc_numvar. cbv zeta. repeat apply lits_bounded_app.
  - apply cm_complete_bounded; lia.
  - apply cm_functional_bounded; lia.
  - apply cm_injective_bounded; lia.
  - apply lits_bounded_flat_map. intros e He. apply cc_etab_spec in He. apply lits_bounded_flat_map. intros [i j] Hij.
    apply In_pairs_upto in Hij. cbn [fst snd]. unfold cc_q.
    pose proof (bvar_range (cc_ne n) k n i (fst (fst e)) ltac:(lia) ltac:(lia)).
    pose proof (bvar_range (cc_ne n) k n j (snd (fst e)) ltac:(lia) ltac:(lia)).
    pose proof (bvar_range (cc_ne n) k n i (snd (fst e)) ltac:(lia) ltac:(lia)).
    pose proof (bvar_range (cc_ne n) k n j (fst (fst e)) ltac:(lia) ltac:(lia)).
    apply lits_bounded_cons; [|apply lits_bounded_cons; [|apply lits_bounded_nil]];
      intros x Hx; cbn [ir_lits] in Hx; destruct Hx as [<-|[<-|[<-|[]]]]; lia.
  - apply cm_complete_bounded; lia.
  - apply cm_functional_bounded; lia.
  - apply lits_bounded_flat_map. intros e He. apply cc_etab_spec in He. apply lits_bounded_map. intros l x Hl Hx.
    apply In_upto in Hl. cbn [ir_lits] in Hx. unfold cc_r in Hx.
    pose proof (bvar_range (cc_ne n + k * n) n c (fst (fst e)) l ltac:(lia) Hl).
    pose proof (bvar_range (cc_ne n + k * n) n c (snd (fst e)) l ltac:(lia) Hl).
    destruct Hx as [<-|[<-|[<-|[]]]]; lia.
Qed.
Theorem cliquecol_range n k c : cc_valid n k c = true ->
  lits_in_range (cc_numvar n k c) (to_cnf (cliquecol_ir n k c)) = true.
Proof. intros Hv. apply bounded_to_cnf, cliquecol_bounded, Hv. Qed.

(* number of pairs u < v *)
Lemma len_pairs {A} : forall l : list A, 2 * len (pairs l) = len l * (len l - 1).
Proof.
  induction l as [|x t IH]; [reflexivity|]. cbn [pairs]. rewrite len_app, len_map, len_cons. lia.
Qed.
Lemma cc_ne_closed n : 0 <= n -> cc_ne n = n * (n - 1) / 2.
Proof.
  intros Hn. unfold cc_ne. pose proof (len_pairs (upto n)) as H. rewrite len_upto in H by exact Hn.
  apply Z.div_unique_exact; lia.
Qed.
Lemma cliquecol_numvar_doc n k c : 0 <= n -> cc_numvar n k c = n * (n - 1) / 2 + k * n + n * c.
Proof. intros Hn. unfold cc_numvar. now rewrite cc_ne_closed. Qed.
