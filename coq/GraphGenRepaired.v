(* GraphGenRepaired.v -- facts about the CURRENT code of the constructions that were repaired in /repo
   (glrm dense branch 434eacc, grid/torus arity 458cbc2): which outcomes are possible at all. *)
From Coq Require Import ZArith List Bool Lia ZifyBool.
From Cnfgen Require Import Comb GText GraphIO GraphIOFacts GraphGen GraphGenFacts.
Import ListNotations.
Open Scope Z_scope.

(* an outcome that is a value, a refusal with ValueError, or a stream that breaks the contract of `random` *)
Definition gg_plain {A} (r : gg_res A) : Prop :=
  match r with
  | GGOk _ => True
  | GGRaise e => e = EValueError
  | GGBadOracle => True
  | GGZeroDiv => False
  | GGNoFuel => False
  end.

Lemma plain_bind {A B} (x : gg_res A) (f : A -> gg_res B) : gg_plain x -> (forall a, gg_plain (f a)) -> gg_plain (gg_bind x f).
Proof. destruct x; cbn; auto. Qed.

Lemma plain_lift_new k name n r : gg_plain (gg_lift (gio_new k name n r)).
Proof. destruct (gio_new k name n r) eqn:E; cbn; [exact I|]. eapply new_exn; eauto. Qed.
Lemma plain_lift_add_edge G u v : gg_plain (gg_lift (gio_add_edge G u v)).
Proof. destruct (gio_add_edge G u v) eqn:E; cbn; [exact I|]. eapply add_edge_exn; eauto. Qed.
Lemma plain_add_edges G es s : gg_plain (gg_add_edges G es s).
Proof.
  unfold gg_add_edges. apply plain_bind; [|intros; exact I].
  destruct (gio_add_edges G es) eqn:E; cbn; [exact I|]. eapply add_edges_exn; eauto.
Qed.

Lemma plain_draw_pos : forall k n seen s, gg_plain (gg_draw_pos k n seen s).
Proof.
  induction k as [|k IH]; intros n seen s; cbn [gg_draw_pos]; [exact I|].
  destruct s as [|z t]; [exact I|]. destruct ((0 <=? z) && (z <? n) && negb (existsb (Z.eqb z) seen)); [|exact I].
  apply plain_bind; [apply IH|intros; exact I].
Qed.
Lemma plain_sample_pos n k s : gg_plain (gg_sample_pos n k s).
Proof. unfold gg_sample_pos. destruct ((k <? 0) || (Z.max 0 n <? k)); [reflexivity|apply plain_draw_pos]. Qed.
Lemma plain_sample_list {A} (d : A) pop k s : gg_plain (gg_sample_list d pop k s).
Proof. unfold gg_sample_list. apply plain_bind; [apply plain_sample_pos|intros; exact I]. Qed.

Lemma plain_me_sparse : forall n s L R rem G, (length s <= n)%nat -> gg_plain (gg_me_sparse L R rem G s).
Proof.
  induction n as [|n IH]; intros s L R rem G Hlen.
  - destruct s; [|cbn in Hlen; lia]. cbn [gg_me_sparse]. destruct (rem <=? 0); exact I.
  - destruct s as [|u s]; cbn [gg_me_sparse]; [destruct (rem <=? 0); exact I|].
    destruct (rem <=? 0); [exact I|]. destruct s as [|v t]; [exact I|].
    destruct ((1 <=? u) && (u <=? L) && (1 <=? v) && (v <=? R)); [|exact I]. cbn [length] in Hlen.
    destruct (gio_has_edge G u v).
    + apply IH. lia.
    + apply plain_bind; [apply plain_lift_add_edge|]. intros G'. apply IH. lia.
Qed.

(* glrm / bipartite_random_m_edges, current code: a graph, ValueError, or a stream outside the contract; never TypeError *)
Theorem m_edges_outcomes L R m s : gg_plain (gg_m_edges L R m s).
Proof.
  unfold gg_m_edges, gg_m_edges_gen. destruct ((L <? 1) || (R <? 1) || (m <? 0) || (L * R <? m)); [reflexivity|].
  apply plain_bind; [apply plain_lift_new|]. intros G. destruct (L * R / 3 <? m).
  - apply plain_bind; [apply plain_sample_list|]. intros es. apply plain_add_edges.
  - apply (plain_me_sparse (length s)). lia.
Qed.

(* every request returns exactly m edges or is refused with ValueError, for every stream that respects the contract *)
Theorem m_edges_full L R m s :
  match gg_m_edges L R m s with
  | GGOk (G, _) => gg_nedges G = m /\ io_kind G = GioBipartite /\ io_n G = L /\ io_r G = R /\ 0 <= m <= L * R
  | GGRaise e => e = EValueError
  | GGBadOracle => True
  | _ => False
  end.
Proof.
  pose proof (m_edges_outcomes L R m s) as H. destruct (gg_m_edges L R m s) as [[G s']| | | |] eqn:E; try exact H.
  exact (m_edges_spec_exact L R m s G s' E).
Qed.

(* grid / torus, current guard: at least one dimension, all positive *)
Lemma guard_grid_full : forall dims, gg_guard_grid dims = true -> dims <> [] /\ gg_pre_nx_grid dims.
Proof.
  intros dims H. unfold gg_guard_grid in H. apply andb_true_iff in H as [H1 H2]. split.
  - destruct dims; [discriminate|discriminate].
  - now apply guard_grid_pre.
Qed.
(* as found: no dimension at all passes the guard (and the null graph is returned) *)
Lemma guard_grid_as_found_refuted : exists dims, gg_guard_grid_as_found dims = true /\ dims = [] /\ gg_guard_grid dims = false.
Proof. exists []. repeat split. Qed.
