(* Fam_ordering.v — model of cnfgen/families/ordering.py:
     OrderingPrinciple, GraphOrderingPrinciple (options total, smart, plant, knuth).
   Definitions only.

   The graph is the list [nb] of sorted neighbour lists of the vertices 1..n
   (n = length nb; Graph.neighbors(v) = [nthZ nb v]).
   Variables: new_permutations(n,2): x_{u,v} (u <> v) in lexicographic order, [pid];
   smart: new_combinations(n,2): x_{u,v} (u < v) in lexicographic order, [cid].
   [xlit smart n u v] is the literal that reads "u precedes v".
   Clause order as in the Python code: non-minimality, transitivity
   (combinations(V,3) / permutations(V,3) filtered by the Knuth variant),
   antisymmetry, totality.
   Abstracted: description/header, labels. *)
From Coq Require Import ZArith List Bool.
From Cnfgen Require Import Sem Comb Linear IR C03_Util.
Import ListNotations.
Open Scope Z_scope.

(* rank of (u,v), u <> v, among permutations(range(1,n+1),2) *)
Definition pid (n u v : Z) : Z := (u - 1) * (n - 1) + (if v <? u then v else v - 1).

(* csum n m = sum_{i=1..m} (n - i): number of pairs (u,v), u < v, with u <= m *)
Fixpoint csum (n : Z) (m : nat) : Z :=
  match m with
  | O => 0
  | S m' => csum n m' + (n - Z.of_nat m)
  end.
(* rank of (u,v), u < v, among combinations(range(1,n+1),2) *)
Definition cid (n u v : Z) : Z := csum n (Z.to_nat (u - 1)) + (v - u).

Definition xlit (smart : bool) (n u v : Z) : Z :=
  if smart then (if u <? v then cid n u v else - cid n v u) else pid n u v.

Definition knuth_keep (knuth v1 v2 v3 : Z) : bool :=
  if knuth =? 2 then negb ((v2 <? v1) || (v2 <? v3))
  else if knuth =? 3 then negb ((v3 <? v1) || (v3 <? v2))
  else true.

Definition gop_nonmin (nb : list (list Z)) (smart plant : bool) : cnf :=
  let n := len nb in
  flat_map (fun v => if (v =? n) && plant then []
                     else [map (fun u => xlit smart n u v) (nthZ nb v)]) (vrange n).

Definition gop_trans_smart (n : Z) : cnf :=
  flat_map (fun t => match t with (v1, v2, v3) =>
      [[xlit true n v1 v2; xlit true n v2 v3; - xlit true n v1 v3];
       [- xlit true n v1 v2; - xlit true n v2 v3; xlit true n v1 v3]] end) (triples_lt n).

Definition gop_trans (n knuth : Z) : cnf :=
  flat_map (fun t => match t with (v1, v2, v3) =>
      if knuth_keep knuth v1 v2 v3
      then [[- xlit false n v1 v2; - xlit false n v2 v3; xlit false n v1 v3]] else [] end) (triples_ne n).

Definition gop_antisym (n : Z) : cnf :=
  map (fun p => [- xlit false n (fst p) (snd p); - xlit false n (snd p) (fst p)]) (pairs_lt n).
Definition gop_totality (n : Z) : cnf :=
  map (fun p => [xlit false n (fst p) (snd p); xlit false n (snd p) (fst p)]) (pairs_lt n).

Definition gop_cnf (nb : list (list Z)) (total smart plant : bool) (knuth : Z) : cnf :=
  let n := len nb in
  gop_nonmin nb smart plant ++
  (if smart then gop_trans_smart n
   else gop_trans n knuth ++ gop_antisym n ++ (if total then gop_totality n else [])).

Definition gop_numvar (n : Z) (smart : bool) : Z := if smart then n * (n - 1) / 2 else n * (n - 1).

(* neighbours inside 1..n, no loops *)
Definition graph_ok (nb : list (list Z)) : bool :=
  forallb (fun v => forallb (fun u => (1 <=? u) && (u <=? len nb) && negb (u =? v)) (nthZ nb v)) (vrange (len nb)).

Definition gop_formula (nb : list (list Z)) (total smart plant : bool) (knuth : Z) : c3res :=
  C3Ok (gop_numvar (len nb) smart) (clauses_ir (gop_cnf nb total smart plant knuth)).

(* OrderingPrinciple(size): the complete graph *)
Definition complete_nb (n : Z) : list (list Z) :=
  map (fun v => filter (fun u => negb (u =? v)) (vrange n)) (vrange n).
Definition op_cnf (n : Z) (total smart plant : bool) (knuth : Z) : cnf :=
  gop_cnf (complete_nb n) total smart plant knuth.
Definition op_formula (n : Z) (total smart plant : bool) (knuth : Z) : c3res :=
  if n <? 0 then C3Err C3ValueError else gop_formula (complete_nb n) total smart plant knuth.
