(* Alias.v — formula objects as Python has them: which lists are COPIED and which are
   SHARED between the caller, a formula object and the formulas derived from it.
   Definitions only.  Decided by reading the code (file:line of /repo):

   cnfgen/formula/basecnf.py
     add_clause            :278  data = list(clause)        COPY of the argument (list, tuple, generator)
                           :280  empty clause: a fresh []
                           :284  check: `0 in data` -> ValueError, nothing stored; numvar = max(...)
     add_clauses_from      :300  one add_clause per item: a rejected clause raises AFTER the
                                 earlier ones were stored (prefix stays, arguments untouched)
     __init__(clauses)     :116  the same loop, but the object is lost when it raises
     __getitem__           :142  self._clauses[idx][:]      COPY for an integer index;
                                 for a slice: a new outer list of the SAME inner lists (SHARED)
     __iter__              :137  iter(self._clauses)        the inner lists themselves (SHARED)
     ClausesView (clauses()) :29 __iter__ SHARED, :43 slice SHARED, :45 integer index COPY
     header                :102  one OrderedDict per object, reachable as F.header (by design
                                 the way to edit it)
   cnfgen/formula/linear.py (CNFLinear)
     add_parity            :74   generators materialised; :84 every clause a fresh list
     add_linear            :135  generators materialised; :139 check once, before anything is stored
                           :143  '!=': lits = list(lits)    COPY; the sign flips :149/:152 are done
                                 IN PLACE on that copy and undone after add_clause copied it (:150)
                           :170  '<=': a fresh negated list;  :183 tuples from combinations, copied
   cnfgen/formula/baseopb.py (BaseOPB)
     add_clause            :342  fresh tuples (1,l) + ['>=',1]
     add_constraint        :393  normalize_opb :87 constraint[:-2] is a SHALLOW copy: the outer
                                 list is new, the pairs are the caller's objects.  For '<=' / '<'
                                 (:99) every pair is rebuilt as a fresh tuple; otherwise only pairs
                                 with a negative coefficient are replaced (:110).  A pair given as a
                                 tuple is immutable (sharing it is unobservable: VALUE); a pair given
                                 as a two-element LIST stays the caller's list: SHARED.
     cardinality_geq/leq/eq :434 fresh tuples, then add_constraint
     cardinality_neq       :476  lits = list(lits) COPY, in-place flips on the copy, add_clause
     add_parity            :580  fresh lists, add_clause
     __getitem__ / __iter__ / ConstraintsView: as for CNF (:203 copy of the outer list only,
                                 :198 / :34 / :48 the stored lists themselves)
   cnfgen/transformations/substitutions.py
     FlipPolarity :83-84, XorSubstitution :103-104, OrSubstitution :290-291:  newF = CNF() (new object),
                                 newF.header = copy(F.header) (new dict), add_description(newF, ...),
                                 clauses rebuilt literal by literal (tuples -> add_clause -> list())
   cnfgen/transformations/shuffle.py
     Shuffle :52-60 new object, copied header; :77-113 the three argument sequences are only
                                 read (len, indexing, sorted() makes a new list); :125 F[old] (copy)
                                 and a generator -> add_clause

   Model: state = heap of list objects (Heap.v) + heap of header dicts + formula objects
   + the list of references the client holds.  A formula object holds LOCATIONS of its
   clause / constraint lists (they are individual Python lists that the code hands out
   by reference through iteration); its outer list `_clauses` is never handed out by the
   public interface and is a VALUE here (`oclauses`, a list of locations).  Everything
   the code copies is allocated fresh.

   `lv : liveness` selects the code as found (`as_found`: iteration and slices hand out the
   stored lists, add_constraint keeps list-pairs by reference) or a repaired variant
   (`repaired`: copies); the two switches are independent.

   Each operation is compiled, by reading the current state, into micro-operations
   (allocate / attach cells to an object / new object / hand out references / set header /
   client mutation); `al_exec` runs them.  Histories are lists of `aop`; the client names
   its lists by HANDLE (position in `s_held`, in the order it obtained them) and formula
   objects by their creation index.

   Abstracted / outside the model (result `ABad`, the harness never sends them):
   - builders applied to a list of the wrong shape with check=False; non-integer items;
   - transformations of a formula that contains a literal 0 or beyond its variable count
     (the Python code indexes a table with the literal: IndexError or a silent wrap);
   - OPB objects as input of a transformation; random ('shuffle') arguments of Shuffle;
   - variable names (kept by VariablesManager; compared by the harness directly);
   - header values other than strings; assignment to attributes (F.header = ..., F._clauses). *)
From Coq Require Import ZArith List Bool String Ascii.
From Cnfgen Require Import Sem Comb Linear Subst Shuffle Header Heap.
From Cnfgen Require Text.
Import ListNotations.
Open Scope Z_scope.

Inductive fkind := KCnf | KOpb.

Record fobj := mkobj { okind : fkind; onumvar : Z; oclauses : list nat; ohdr : nat }.

Record astate := mkst {
  s_heap : hheap;            (* list objects *)
  s_hdrs : list header;      (* header dicts *)
  s_objs : list fobj;        (* formula objects, by creation index *)
  s_held : list nat          (* references held by the client, by handle *)
}.

Definition al_init : astate := mkst [] [] [] [].

(* ---------- micro-operations ---------- *)
Inductive uop :=
| UAllocHeld (c : hcell)                                   (* a fresh list, given to the client *)
| UAllocTmp (c : hcell)                                    (* a fresh list that nobody keeps *)
| UAddCells (f : nat) (nv : Z) (cs : list hcell)           (* fresh lists appended to object f *)
| UNewObj (k : fkind) (nv : Z) (cs : list hcell) (hd : header)   (* a new object with fresh lists and a fresh header dict *)
| UHold (ls : list nat)                                    (* existing lists handed to the client BY REFERENCE *)
| USetHdr (f : nat) (hd : header)                          (* the header dict of f is updated in place *)
| UMut (l : nat) (m : mutation).                           (* the client mutates the list at l *)

Definition ustep (s : astate) (u : uop) : astate :=
  match u with
  | UAllocHeld c =>
      let '(ls, h') := hp_alloc (s_heap s) [c] in
      mkst h' (s_hdrs s) (s_objs s) (s_held s ++ ls)
  | UAllocTmp c =>
      let '(_, h') := hp_alloc (s_heap s) [c] in
      mkst h' (s_hdrs s) (s_objs s) (s_held s)
  | UAddCells f nv cs =>
      match nth_error (s_objs s) f with
      | Some o =>
          let '(ls, h') := hp_alloc (s_heap s) cs in
          mkst h' (s_hdrs s) (hp_set f (mkobj (okind o) nv (oclauses o ++ ls) (ohdr o)) (s_objs s)) (s_held s)
      | None => s
      end
  | UNewObj k nv cs hd =>
      let '(ls, h') := hp_alloc (s_heap s) cs in
      mkst h' (s_hdrs s ++ [hd]) (s_objs s ++ [mkobj k nv ls (List.length (s_hdrs s))]) (s_held s)
  | UHold ls => mkst (s_heap s) (s_hdrs s) (s_objs s) (s_held s ++ ls)
  | USetHdr f hd =>
      match nth_error (s_objs s) f with
      | Some o => mkst (s_heap s) (hp_set (ohdr o) hd (s_hdrs s)) (s_objs s) (s_held s)
      | None => s
      end
  | UMut l m => mkst (hp_set l (mutate m (hp_get (s_heap s) l)) (s_heap s)) (s_hdrs s) (s_objs s) (s_held s)
  end.

(* ---------- the history alphabet ---------- *)
Inductive tspec := TsTup (c l : Z) | TsRef (h : nat).      (* a term of a client constraint: tuple, or one of the client's lists used as a pair *)

Inductive transf :=
| TFlip
| TXor (k : Z)
| TOr (k : Z)
| TShuffle (fl pm cp : option nat).        (* None = 'fixed'; Some h = the client's list with handle h *)

Inductive aop :=
| ONewList (xs : list Z)                                   (* L = [...] *)
| ONewPb (ts : list tspec) (o : pbop) (d : Z)              (* C = [t1, ..., tn, op, d] *)
| ONewFormula (k : fkind) (hd : header)                    (* CNF() / OPB(); hd = the initial header *)
| ONewFrom (k : fkind) (hd : header) (hs : list nat)       (* CNF([L1, ...]) / OPB([C1, ...]) *)
| OAddClause (f h : nat) (check : bool)                    (* F.add_clause(L, check) *)
| OAddClausesFrom (f : nat) (hs : list nat) (check : bool) (* F.add_clauses_from([L1, ...], check) *)
| OAddLinear (f h : nat) (o : cop) (c : Z) (check : bool)  (* CNF.add_linear / cardinality_*; OPB.cardinality_* *)
| OAddParity (f h : nat) (c : Z) (check : bool)            (* F.add_parity(L, c, check) *)
| OAddConstraint (f h : nat) (check : bool)                (* OPB.add_constraint(C, check) *)
| OAddConstraintsFrom (f : nat) (hs : list nat) (check : bool)
| OGetItem (f i : nat)                                     (* F[i], F.clauses()[i] *)
| OIter (f : nat)                                          (* list(F), list(F.clauses()), for c in F *)
| OSlice (f a b : nat)                                     (* F[a:b], F.clauses()[a:b] *)
| OHdrSet (f : nat) (k : hkey) (v : string)                (* F.header[k] = v *)
| OHdrDel (f : nat) (k : hkey)                             (* del F.header[k] *)
| OTransform (t : transf) (f : nat)                        (* F' = t(F) *)
| OMut (h : nat) (m : mutation).                           (* the client edits one of its lists *)

Inductive ares := AOk | AErr | ABad.     (* returned | Python raised | outside the model *)

(* which references the code hands out / keeps *)
Record liveness := mklv {
  lv_iter : bool;      (* __iter__ and slices give the stored lists themselves *)
  lv_pair : bool       (* add_constraint keeps a pair given as a list by reference *)
}.
Definition as_found : liveness := mklv true true.
Definition repaired : liveness := mklv false false.

(* ---------- reading the state ---------- *)
Definition handle_loc (s : astate) (h : nat) : option nat := nth_error (s_held s) h.

Definition read_lits (s : astate) (h : nat) : option (list Z) :=
  match handle_loc s h with
  | Some l => match hp_get (s_heap s) l with HLits xs => Some xs | HPb _ _ _ => None end
  | None => None
  end.

Definition has_zero (xs : list Z) : bool := existsb (fun x => x =? 0) xs.

(* _check_and_update: numvar = max(numvar, max(data), -min(data)) *)
Definition upd_numvar (check : bool) (nv : Z) (xs : list Z) : Z :=
  if check then Z.max nv (max_var_clause xs) else nv.

Definition clause_cell (k : fkind) (xs : list Z) : hcell :=
  match k with
  | KCnf => HLits xs
  | KOpb => HPb (map (fun l => PTup 1 l) xs) PGe 1
  end.

Definition pbc_cell (c : pbc) : hcell :=
  HPb (map (fun cl => PTup (fst cl) (snd cl)) (pb_terms c)) (pb_op c) (pb_deg c).

(* ---------- sequences of insertions: the valid prefix is stored, then the call raises ---------- *)
Inductive item_res := IOk (nv : Z) (c : hcell) | IErr | IBad.

Fixpoint collect (one : nat -> Z -> item_res) (nv : Z) (hs : list nat) : (Z * list hcell) * ares :=
  match hs with
  | [] => ((nv, []), AOk)
  | h :: t =>
    match one h nv with
    | IOk nv' c => let '((nv2, cs), r) := collect one nv' t in ((nv2, c :: cs), r)
    | IErr => ((nv, []), AErr)
    | IBad => ((nv, []), ABad)
    end
  end.

Definition one_clause (s : astate) (k : fkind) (check : bool) (h : nat) (nv : Z) : item_res :=
  match read_lits s h with
  | None => IBad
  | Some xs => if check && has_zero xs then IErr else IOk (upd_numvar check nv xs) (clause_cell k xs)
  end.

(* add_constraint *)
Definition pair_of (vs : list Z) : option (Z * Z) :=
  match vs with [c; l] => Some (c, l) | _ => None end.

Fixpoint all_pairs (vs : list (list Z)) : option (list (Z * Z)) :=
  match vs with
  | [] => Some []
  | v :: t => match pair_of v, all_pairs t with
              | Some p, Some ps => Some (p :: ps)
              | _, _ => None
              end
  end.

Definition rebuilds_all (o : pbop) : bool := match o with PLe | PLt => true | _ => false end.

(* which object ends up in the stored list for one term *)
Definition store_term (live : bool) (all_fresh : bool) (tgn : pterm * ((Z * Z) * (Z * Z))) : pterm :=
  let '(t, (orig, nrm)) := tgn in
  if all_fresh || (fst orig <? 0) then PTup (fst nrm) (snd nrm)
  else match t with
       | PTup _ _ => t
       | PRef _ => if live then t else PTup (fst nrm) (snd nrm)
       end.

Definition terms_zero (ts : list (Z * Z)) : bool := existsb (fun cl => snd cl =? 0) ts.
Definition terms_maxvar (ts : list (Z * Z)) : Z := fold_right (fun cl m => Z.max (Z.abs (snd cl)) m) 0 ts.

Definition one_constraint (live : bool) (s : astate) (check : bool) (h : nat) (nv : Z) : item_res :=
  match handle_loc s h with
  | None => IBad
  | Some l =>
    match hp_get (s_heap s) l with
    | HLits _ => IErr                    (* normalize_opb on a list of integers: TypeError / IndexError *)
    | HPb ts o d =>
      match all_pairs (map (term_val (s_heap s)) ts) with
      | None => IErr                     (* a term that does not unpack into (c, l) *)
      | Some origs =>
        let n := normalize_opb (mkpbc origs o d) in
        if check && terms_zero (pb_terms n) then IErr
        else IOk (if check then Z.max nv (terms_maxvar (pb_terms n)) else nv)
                 (HPb (map (store_term live (rebuilds_all o)) (combine ts (combine origs (pb_terms n))))
                      (pb_op n) (pb_deg n))
      end
    end
  end.

Definition add_cells (f : nat) (x : (Z * list hcell) * ares) : list uop * ares :=
  let '((nv, cs), r) := x in
  (match cs with [] => [] | _ => [UAddCells f nv cs] end, r).

(* ---------- linear constraints and parity ---------- *)
Definition linear_cells (k : fkind) (xs : list Z) (o : cop) (c : Z) : option (list hcell) :=
  match k with
  | KCnf => Some (map HLits (add_linear xs o c))
  | KOpb => match o with
            | CLt | CGt => None
            | _ => Some (map pbc_cell (opb_linear xs o c))
            end
  end.

Definition parity_cells (k : fkind) (xs : list Z) (c : Z) : list hcell :=
  map (clause_cell k) (add_parity xs c).

(* the '!=' branch works on `list(lits)`: one more list object, flipped and restored in place *)
Definition neq_tmp (o : cop) (xs : list Z) : list uop :=
  match o with CNe => [UAllocTmp (HLits xs)] | _ => [] end.

(* ---------- header ---------- *)
Fixpoint hdr_set (h : header) (k : hkey) (v : string) : header :=
  match h with
  | [] => [(k, v)]
  | e :: t => if hkey_eqb (fst e) k then (fst e, v) :: t else e :: hdr_set t k v
  end.
Definition hdr_del (h : header) (k : hkey) : header :=
  filter (fun e => negb (hkey_eqb (fst e) k)) h.
Definition hdr_at (s : astate) (o : fobj) : header := nth (ohdr o) (s_hdrs s) [].

Definition zstr (z : Z) : string := string_of_list_ascii (Text.print_Z z).

(* ---------- transformations ---------- *)
Definition obj_cnf (s : astate) (o : fobj) : cnf := map (lits_at (s_heap s)) (oclauses o).

Definition sharg_of (s : astate) (a : option nat) : option sharg :=
  match a with
  | None => Some ShFixed
  | Some h => match read_lits s h with Some xs => Some (ShGiven xs) | None => None end
  end.

Definition transform (s : astate) (t : transf) (o : fobj) : list uop * ares :=
  let N := onumvar o in
  let F := obj_cnf s o in
  let hd := hdr_at s o in
  match t with
  | TFlip =>
      let '(nv, out) := flip_polarity_spec N F in
      ([UNewObj KCnf nv (map HLits out) (add_description hd "All polarities have been flipped")], AOk)
  | TXor k =>
      match xor_substitution N k F with
      | TOk (nv, out) =>
          ([UNewObj KCnf nv (map HLits out) (add_description hd ("Substitution with XOR of arity " ++ zstr k)%string)], AOk)
      | TValueErr => ([], AErr)
      end
  | TOr k =>
      match or_substitution N k F with
      | TOk (nv, out) =>
          ([UNewObj KCnf nv (map HLits out) (add_description hd ("Substitution with OR of arity " ++ zstr k)%string)], AOk)
      | TValueErr => ([], AErr)
      end
  | TShuffle fl pm cp =>
      match sharg_of s fl, sharg_of s pm, sharg_of s cp with
      | Some a1, Some a2, Some a3 =>
          match shuffle N F a1 a2 a3 with
          | ShOk nv out => ([UNewObj KCnf nv (map HLits out) (shuffle_header hd)], AOk)
          | _ => ([], AErr)
          end
      | _, _, _ => ([], ABad)
      end
  end.

(* ---------- client constraint lists ---------- *)
Fixpoint resolve_terms (s : astate) (ts : list tspec) : option (list pterm) :=
  match ts with
  | [] => Some []
  | TsTup c l :: t => match resolve_terms s t with Some r => Some (PTup c l :: r) | None => None end
  | TsRef h :: t => match handle_loc s h, resolve_terms s t with
                    | Some p, Some r => Some (PRef p :: r)
                    | _, _ => None
                    end
  end.

Definition sub_list {A} (a b : nat) (l : list A) : list A := firstn (b - a) (skipn a l).

(* ---------- one operation = micro-operations computed from the current state ---------- *)
Definition compile (lv : liveness) (s : astate) (op : aop) : list uop * ares :=
  match op with
  | ONewList xs => ([UAllocHeld (HLits xs)], AOk)
  | ONewPb ts o d =>
      match resolve_terms s ts with
      | Some r => ([UAllocHeld (HPb r o d)], AOk)
      | None => ([], ABad)
      end
  | ONewFormula k hd => ([UNewObj k 0 [] hd], AOk)
  | ONewFrom k hd hs =>
      let '((nv, cs), r) :=
        match k with
        | KCnf => collect (one_clause s KCnf true) 0 hs
        | KOpb => collect (one_constraint (lv_pair lv) s true) 0 hs
        end in
      match r with
      | AOk => ([UNewObj k nv cs hd], AOk)
      | _ => ([], r)                       (* the constructor raised: no object *)
      end
  | OAddClause f h check =>
      match nth_error (s_objs s) f with
      | Some o => add_cells f (collect (one_clause s (okind o) check) (onumvar o) [h])
      | None => ([], ABad)
      end
  | OAddClausesFrom f hs check =>
      match nth_error (s_objs s) f with
      | Some o => add_cells f (collect (one_clause s (okind o) check) (onumvar o) hs)
      | None => ([], ABad)
      end
  | OAddLinear f h o c check =>
      match nth_error (s_objs s) f, read_lits s h with
      | Some ob, Some xs =>
          match linear_cells (okind ob) xs o c with
          | None => ([], ABad)
          | Some cs =>
              if check && has_zero xs then ([], AErr)
              else (neq_tmp o xs ++ [UAddCells f (upd_numvar check (onumvar ob) xs) cs], AOk)
          end
      | _, _ => ([], ABad)
      end
  | OAddParity f h c check =>
      match nth_error (s_objs s) f, read_lits s h with
      | Some ob, Some xs =>
          if check && has_zero xs then ([], AErr)
          else ([UAddCells f (upd_numvar check (onumvar ob) xs) (parity_cells (okind ob) xs c)], AOk)
      | _, _ => ([], ABad)
      end
  | OAddConstraint f h check =>
      match nth_error (s_objs s) f with
      | Some o => match okind o with
                  | KOpb => add_cells f (collect (one_constraint (lv_pair lv) s check) (onumvar o) [h])
                  | KCnf => ([], ABad)
                  end
      | None => ([], ABad)
      end
  | OAddConstraintsFrom f hs check =>
      match nth_error (s_objs s) f with
      | Some o => match okind o with
                  | KOpb => add_cells f (collect (one_constraint (lv_pair lv) s check) (onumvar o) hs)
                  | KCnf => ([], ABad)
                  end
      | None => ([], ABad)
      end
  | OGetItem f i =>
      match nth_error (s_objs s) f with
      | Some o => match nth_error (oclauses o) i with
                  | Some l => ([UAllocHeld (hp_get (s_heap s) l)], AOk)
                  | None => ([], AErr)       (* IndexError *)
                  end
      | None => ([], ABad)
      end
  | OIter f =>
      match nth_error (s_objs s) f with
      | Some o => if lv_iter lv then ([UHold (oclauses o)], AOk)
                  else (map (fun l => UAllocHeld (hp_get (s_heap s) l)) (oclauses o), AOk)
      | None => ([], ABad)
      end
  | OSlice f a b =>
      match nth_error (s_objs s) f with
      | Some o => if lv_iter lv then ([UHold (sub_list a b (oclauses o))], AOk)
                  else (map (fun l => UAllocHeld (hp_get (s_heap s) l)) (sub_list a b (oclauses o)), AOk)
      | None => ([], ABad)
      end
  | OHdrSet f k v =>
      match nth_error (s_objs s) f with
      | Some o => ([USetHdr f (hdr_set (hdr_at s o) k v)], AOk)
      | None => ([], ABad)
      end
  | OHdrDel f k =>
      match nth_error (s_objs s) f with
      | Some o => if has_key (hdr_at s o) k then ([USetHdr f (hdr_del (hdr_at s o) k)], AOk)
                  else ([], AErr)            (* KeyError *)
      | None => ([], ABad)
      end
  | OTransform t f =>
      match nth_error (s_objs s) f with
      | Some o => match okind o with
                  | KCnf => if lits_in_range (onumvar o) (obj_cnf s o) then transform s t o else ([], ABad)
                  | KOpb => ([], ABad)
                  end
      | None => ([], ABad)
      end
  | OMut h m =>
      match handle_loc s h with
      | Some l => ([UMut l m], AOk)
      | None => ([], ABad)
      end
  end.

Definition al_exec (lv : liveness) (s : astate) (op : aop) : astate * ares :=
  let '(us, r) := compile lv s op in (fold_left ustep us s, r).

Definition al_step (lv : liveness) (s : astate) (op : aop) : astate := fst (al_exec lv s op).

Definition al_run (lv : liveness) (h : list aop) : astate := fold_left (al_step lv) h al_init.

(* the same, keeping every intermediate state and result (for the driver) *)
Fixpoint al_trace (lv : liveness) (s : astate) (h : list aop) : list (astate * ares) :=
  match h with
  | [] => []
  | op :: t => let sr := al_exec lv s op in sr :: al_trace lv (fst sr) t
  end.

(* ---------- what an observer sees ---------- *)
Definition aval (s : astate) (g : nat) : option (fkind * Z * list cval * header) :=
  match nth_error (s_objs s) g with
  | Some o => Some (okind o, onumvar o, map (cell_val (s_heap s)) (oclauses o), hdr_at s o)
  | None => None
  end.

Definition client_view (s : astate) : list cval := map (cell_val (s_heap s)) (s_held s).

(* ---------- notions used by the statements ---------- *)
(* the lists a formula object can reach: its clause / constraint lists and the pair lists they refer to *)
Definition obj_reach (h : hheap) (o : fobj) : list nat :=
  oclauses o ++ flat_map (fun l => cell_refs (hp_get h l)) (oclauses o).

Definition nat_in (x : nat) (l : list nat) : bool := existsb (Nat.eqb x) l.

(* does operation op, run in state s, act on object g?  (builders and header edits name their object;
   a client mutation acts on g when the mutated list is reachable from g) *)
Definition touches (s : astate) (op : aop) (g : nat) : bool :=
  match op with
  | OAddClause f _ _ | OAddClausesFrom f _ _ | OAddLinear f _ _ _ _ | OAddParity f _ _ _
  | OAddConstraint f _ _ | OAddConstraintsFrom f _ _ | OHdrSet f _ _ | OHdrDel f _ => Nat.eqb f g
  | OMut h _ =>
      match handle_loc s h, nth_error (s_objs s) g with
      | Some l, Some o => nat_in l (obj_reach (s_heap s) o)
      | _, _ => false
      end
  | _ => false
  end.

(* operations through which the code as found hands out or keeps references; the repaired variant has none *)
Definition spec_has_ref (t : tspec) : bool := match t with TsRef _ => true | TsTup _ _ => false end.
Definition op_tame (lv : liveness) (op : aop) : bool :=
  match op with
  | OIter _ | OSlice _ _ _ => negb (lv_iter lv)
  | ONewPb ts _ _ => negb (lv_pair lv && existsb spec_has_ref ts)
  | _ => true
  end.

Definition is_mut (op : aop) : bool := match op with OMut _ _ => true | _ => false end.
Definition is_hdr_edit (op : aop) : bool := match op with OHdrSet _ _ _ | OHdrDel _ _ => true | _ => false end.
