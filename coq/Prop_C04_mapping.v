(* Property C04, mapping part — the complete / functional / injective / surjective /
   non-decreasing requirement of a unary, sparse or binary mapping constrains the formula
   to exactly the assignments satisfying the stated functional condition, for the CNF
   clause encoding and the pseudo-Boolean encoding alike.  ONLY statements.
   Model: coq/Mapping.v (+ coq/Vars.v for the identifiers); lemmas: MappingFacts.v, MappingBin.v. *)
From Coq Require Import ZArith List Bool.
From Cnfgen Require Import Sem Comb Linear IR Vars VarsFacts VarsBip Mapping MappingBin MappingFacts.
Import ListNotations.
Open Scope Z_scope.

(* the constraints are lists of builder calls; both renderings mean the arithmetic reading *)
Theorem C04_map_cnf_opb_alike : forall a l, irs_ok l = true ->
  cnf_sat a (to_cnf l) = irs_hold a l /\ opb_sat a (to_opb l) = irs_hold a l.
Proof. exact mapping_transfer. Qed.
Print Assumptions C04_map_cnf_opb_alike.

(* ----- unary (complete bipartite graph) and sparse (any bipartite graph) mappings -----
   adj: the sorted list of admissible holes of each pigeon 1..L; R: number of holes;
   rel a off adj i j = a (id (i,j)) for admissible pairs *)
Theorem C04_map_unary_literals_ok : forall off adj R, 0 <= off -> adj_nodup adj ->
  irs_ok (vm_force_complete off (MUnary adj R)) = true /\ irs_ok (vm_force_functional off (MUnary adj R)) = true /\
  irs_ok (fst (vm_force_surjective off (MUnary adj R))) = true /\ irs_ok (vm_force_injective off (MUnary adj R)) = true /\
  irs_ok (vm_force_nondecreasing off (MUnary adj R)) = true.
Proof. exact un_ok. Qed.
Print Assumptions C04_map_unary_literals_ok.

Theorem C04_map_unary_complete : forall a off adj R, 0 <= off -> adj_nodup adj ->
  irs_hold a (vm_force_complete off (MUnary adj R)) = true <->
  forall i, 1 <= i <= len adj -> exists j, In j (m_range_of adj i) /\ rel a off adj i j = true.
Proof. exact un_complete_sem. Qed.
Print Assumptions C04_map_unary_complete.

Theorem C04_map_unary_functional : forall a off adj R, 0 <= off -> adj_nodup adj ->
  irs_hold a (vm_force_functional off (MUnary adj R)) = true <->
  forall i, 1 <= i <= len adj -> forall j1 j2, In j1 (m_range_of adj i) -> In j2 (m_range_of adj i) ->
    rel a off adj i j1 = true -> rel a off adj i j2 = true -> j1 = j2.
Proof. exact un_functional_sem. Qed.
Print Assumptions C04_map_unary_functional.

Theorem C04_map_unary_surjective : forall a off adj R, 0 <= off -> adj_nodup adj ->
  snd (vm_force_surjective off (MUnary adj R)) = false /\
  (irs_hold a (fst (vm_force_surjective off (MUnary adj R))) = true <->
   forall j, 1 <= j <= R -> exists i, In j (m_range_of adj i) /\ rel a off adj i j = true).
Proof. exact un_surjective_sem. Qed.
Print Assumptions C04_map_unary_surjective.

Theorem C04_map_unary_injective : forall a off adj R, 0 <= off -> adj_nodup adj ->
  irs_hold a (vm_force_injective off (MUnary adj R)) = true <->
  forall j, 1 <= j <= R -> forall i1 i2, In j (m_range_of adj i1) -> In j (m_range_of adj i2) ->
    rel a off adj i1 j = true -> rel a off adj i2 j = true -> i1 = i2.
Proof. exact un_injective_sem. Qed.
Print Assumptions C04_map_unary_injective.

Theorem C04_map_unary_nondecreasing : forall a off adj R, 0 <= off -> adj_nodup adj ->
  irs_hold a (vm_force_nondecreasing off (MUnary adj R)) = true <->
  forall i1 i2, 1 <= i1 < i2 /\ i2 <= len adj -> forall j1 j2, In j1 (m_range_of adj i1) -> In j2 (m_range_of adj i2) ->
    rel a off adj i1 j1 = true -> rel a off adj i2 j2 = true -> j1 <= j2.
Proof. exact un_nondecreasing_sem. Qed.
Print Assumptions C04_map_unary_nondecreasing.

(* new_mapping(n,m): every pair is admissible and id (i,j) = off + (i-1) m + j *)
Theorem C04_map_complete_graph_ids : forall off n m i j, 0 <= off -> 1 <= i <= n -> 1 <= j <= m ->
  bip_to_id off (complete_adj n m) i j = Some (off + (i - 1) * m + j).
Proof. exact umap_id. Qed.
Print Assumptions C04_map_complete_graph_ids.
Theorem C04_map_complete_graph_range : forall n m i, 1 <= i <= n -> m_range_of (complete_adj n m) i = zrange 1 (m + 1).
Proof. exact complete_range_of. Qed.
Print Assumptions C04_map_complete_graph_range.

(* ----- binary mappings: value a off n m i = the number spelled by the bits of pigeon i ----- *)
Theorem C04_map_forbid : forall a off n m i j, 0 <= off -> 1 <= i <= n -> 0 <= j < 2 ^ bitlength m ->
  exists c, vmap_forbid off n m i j = Some c /\ clause_sat a c = negb (value a off n m i =? j) /\ lits_ok c = true.
Proof. exact forbid_sem. Qed.
Print Assumptions C04_map_forbid.

Theorem C04_map_binary_literals_ok : forall off n m, 0 <= off -> 1 <= m ->
  irs_ok (vm_force_complete off (MBinary n m)) = true /\ irs_ok (vm_force_injective off (MBinary n m)) = true /\
  irs_ok (vm_force_nondecreasing off (MBinary n m)) = true.
Proof. exact bin_ok. Qed.
Print Assumptions C04_map_binary_literals_ok.

Theorem C04_map_binary_complete : forall a off n m, 0 <= off -> 1 <= n -> 1 <= m ->
  irs_hold a (vm_force_complete off (MBinary n m)) = true <-> forall i, 1 <= i <= n -> value a off n m i < m.
Proof. exact bin_complete_sem. Qed.
Print Assumptions C04_map_binary_complete.

(* the injectivity / monotonicity clauses range over the values below m only ... *)
Theorem C04_map_binary_injective : forall a off n m, 0 <= off -> 1 <= n -> 1 <= m ->
  irs_hold a (vm_force_injective off (MBinary n m)) = true <->
  forall x1 x2, 1 <= x1 < x2 /\ x2 <= n -> value a off n m x1 = value a off n m x2 -> m <= value a off n m x1.
Proof. exact bin_injective_sem. Qed.
Print Assumptions C04_map_binary_injective.

Theorem C04_map_binary_nondecreasing : forall a off n m, 0 <= off -> 1 <= n -> 1 <= m ->
  irs_hold a (vm_force_nondecreasing off (MBinary n m)) = true <->
  forall u1 u2, 1 <= u1 < u2 /\ u2 <= n -> value a off n m u2 < value a off n m u1 -> m <= value a off n m u1.
Proof. exact bin_nondecreasing_sem. Qed.
Print Assumptions C04_map_binary_nondecreasing.

(* ... so together with completeness: values pairwise distinct / non-decreasing *)
Theorem C04_map_binary_complete_injective : forall a off n m, 0 <= off -> 1 <= n -> 1 <= m ->
  irs_hold a (vm_force_complete off (MBinary n m) ++ vm_force_injective off (MBinary n m)) = true <->
  (forall i, 1 <= i <= n -> value a off n m i < m) /\
  (forall x1 x2, 1 <= x1 < x2 /\ x2 <= n -> value a off n m x1 <> value a off n m x2).
Proof. exact bin_complete_injective. Qed.
Print Assumptions C04_map_binary_complete_injective.

Theorem C04_map_binary_complete_nondecreasing : forall a off n m, 0 <= off -> 1 <= n -> 1 <= m ->
  irs_hold a (vm_force_complete off (MBinary n m) ++ vm_force_nondecreasing off (MBinary n m)) = true <->
  (forall i, 1 <= i <= n -> value a off n m i < m) /\
  (forall u1 u2, 1 <= u1 < u2 /\ u2 <= n -> value a off n m u1 <= value a off n m u2).
Proof. exact bin_complete_nondecreasing. Qed.
Print Assumptions C04_map_binary_complete_nondecreasing.

(* a binary mapping is functional by construction; force_surjective_mapping is documented for
   unary mappings only and, called on a binary mapping, always ends in ValueError *)
Theorem C04_map_binary_functional : forall off n m, vm_force_functional off (MBinary n m) = [].
Proof. reflexivity. Qed.
Print Assumptions C04_map_binary_functional.
Theorem C04_map_binary_surjective_raises : forall off n m, 1 <= m -> snd (vm_force_surjective off (MBinary n m)) = true.
Proof. exact bin_surjective_always_raises. Qed.
Print Assumptions C04_map_binary_surjective_raises.

Example C04_map_nonvacuous :
  vm_force_nondecreasing 0 (MUnary [[2; 3]; [1; 3]] 3) = [IClause [-1; -3]; IClause [-2; -3]] /\
  vmap_forbid 0 4 6 4 3 = Some [10; -11; -12] /\
  value (fun v => (v =? 11) || (v =? 12)) 0 4 6 4 = 3 /\
  to_cnf (vm_force_complete 0 (MBinary 1 3)) = [[-1; -2]] /\
  irs_hold (fun v => v =? 2) (vm_force_complete 0 (MBinary 1 3)) = true.
Proof. vm_compute. repeat split. Qed.
