(* LinearFacts.v — the constraint builders mean what their names say (C04). *)
From Coq Require Import ZArith List Bool Lia ZifyBool.
From Cnfgen Require Import Sem Comb Linear SemFacts.
Import ListNotations.
Open Scope Z_scope.
Ltac Zify.zify_post_hook ::= Z.to_euclidean_division_equations.

(* ---------- at least k : the combinations lemma ---------- *)

Lemma combs_core a : forall l (j : nat),
  cnf_sat a (combs l j) = (len l - count_true a l <? Z.of_nat j).
Proof.
  induction l as [|x t IH]; intros j.
  - destruct j; reflexivity.
  - destruct j as [|j'].
    + cbn [combs]. pose proof (count_true_range a (x :: t)). cbn [cnf_sat forallb clause_sat existsb]. lia.
    + cbn [combs]. rewrite cnf_sat_app, cnf_sat_map, len_cons. cbn [count_true].
      rewrite !IH. pose proof (count_true_range a t).
      destruct (lit_true a x) eqn:Hx; cbn [b2z].
      * rewrite (forallb_true (fun c => clause_sat a (x :: c))).
        2:{ intros c _. rewrite clause_sat_cons, Hx. reflexivity. }
        lia.
      * rewrite (forallb_ext (fun c => clause_sat a (x :: c)) (clause_sat a)).
        2:{ intros c. rewrite clause_sat_cons, Hx. reflexivity. }
        fold (cnf_sat a (combs t j')). rewrite IH. lia.
Qed.

Lemma add_geq_sem a ls k : cnf_sat a (add_geq ls k) = (count_true a ls >=? k).
Proof.
  unfold add_geq. pose proof (count_true_range a ls).
  destruct (k <=? 0) eqn:E1; [cbn; lia|].
  destruct (k >? len ls) eqn:E2; [cbn; lia|].
  rewrite combs_core. rewrite Z2Nat.id by lia. lia.
Qed.

Lemma lits_ok_len_opp ls : len (map Z.opp ls) = len ls.
Proof. apply len_map. Qed.

Lemma add_leq_sem a ls k : lits_ok ls = true ->
  cnf_sat a (add_leq ls k) = (count_true a ls <=? k).
Proof.
  intros H. unfold add_leq. rewrite add_geq_sem, count_true_opp by assumption. lia.
Qed.

(* ---------- different from k ---------- *)

Lemma neq_clauses_sem a : forall ls (k : nat), lits_ok ls = true ->
  cnf_sat a (neq_clauses ls k) = negb (count_true a ls =? Z.of_nat k).
Proof.
  induction ls as [|x t IH]; intros k H.
  - destruct k; reflexivity.
  - cbn in H. apply andb_true_iff in H as [H1 H2]. apply nonzero_spec in H1.
    destruct k as [|k'].
    + cbn [neq_clauses]. rewrite cnf_sat_cons, cnf_sat_nil, andb_true_r, clause_sat_count.
      pose proof (count_true_range a (x :: t)). lia.
    + cbn [neq_clauses]. rewrite cnf_sat_app, !cnf_sat_map. cbn [count_true].
      pose proof (count_true_range a t).
      destruct (lit_true a x) eqn:Hx; cbn [b2z].
      * rewrite (forallb_ext (fun c => clause_sat a (- x :: c)) (clause_sat a)).
        2:{ intros c. rewrite clause_sat_cons, lit_true_opp, Hx by assumption. reflexivity. }
        rewrite (forallb_true (fun c => clause_sat a (x :: c))).
        2:{ intros c _. rewrite clause_sat_cons, Hx. reflexivity. }
        fold (cnf_sat a (neq_clauses t k')). rewrite IH by assumption. lia.
      * rewrite (forallb_true (fun c => clause_sat a (- x :: c))).
        2:{ intros c _. rewrite clause_sat_cons, lit_true_opp, Hx by assumption. reflexivity. }
        rewrite (forallb_ext (fun c => clause_sat a (x :: c)) (clause_sat a)).
        2:{ intros c. rewrite clause_sat_cons, Hx. reflexivity. }
        fold (cnf_sat a (neq_clauses t (S k'))). rewrite IH by assumption. lia.
Qed.

Lemma add_neq_sem a ls k : lits_ok ls = true ->
  cnf_sat a (add_neq ls k) = negb (count_true a ls =? k).
Proof.
  intros H. unfold add_neq. pose proof (count_true_range a ls).
  destruct ((k <? 0) || (k >? len ls)) eqn:E; [cbn; lia|].
  rewrite neq_clauses_sem by assumption. rewrite Z2Nat.id by lia. reflexivity.
Qed.

(* ---------- the six operators ---------- *)

Theorem add_linear_sem a ls o k : lits_ok ls = true ->
  cnf_sat a (add_linear ls o k) = cop_holds o (count_true a ls) k.
Proof.
  intros H. destruct o; cbn [add_linear cop_holds];
    rewrite ?cnf_sat_app, ?add_geq_sem, ?add_leq_sem, ?add_neq_sem by assumption; lia.
Qed.

(* '>=' and '>' need no hypothesis at all (zero literals included) *)
Theorem add_linear_sem_geq a ls k :
  cnf_sat a (add_linear ls CGe k) = (count_true a ls >=? k)
  /\ cnf_sat a (add_linear ls CGt k) = (count_true a ls >? k).
Proof. cbn [add_linear]. rewrite !add_geq_sem. lia. Qed.

(* ---------- parity ---------- *)

Lemma parity_clauses_sem a : forall ls w, lits_ok ls = true ->
  cnf_sat a (parity_clauses ls w) = eqb (parity_of a ls) w.
Proof.
  induction ls as [|x t IH]; intros w H.
  - destruct w; reflexivity.
  - cbn in H. apply andb_true_iff in H as [H1 H2]. apply nonzero_spec in H1.
    cbn [parity_clauses parity_of]. rewrite cnf_sat_app, !cnf_sat_map.
    destruct (lit_true a x) eqn:Hx.
    + rewrite (forallb_true (fun c => clause_sat a (x :: c))).
      2:{ intros c _. rewrite clause_sat_cons, Hx. reflexivity. }
      rewrite (forallb_ext (fun c => clause_sat a (- x :: c)) (clause_sat a)).
      2:{ intros c. rewrite clause_sat_cons, lit_true_opp, Hx by assumption. reflexivity. }
      fold (cnf_sat a (parity_clauses t (negb w))). rewrite IH by assumption.
      destruct (parity_of a t), w; reflexivity.
    + rewrite (forallb_ext (fun c => clause_sat a (x :: c)) (clause_sat a)).
      2:{ intros c. rewrite clause_sat_cons, Hx. reflexivity. }
      rewrite (forallb_true (fun c => clause_sat a (- x :: c))).
      2:{ intros c _. rewrite clause_sat_cons, lit_true_opp, Hx by assumption. reflexivity. }
      fold (cnf_sat a (parity_clauses t w)). rewrite IH by assumption.
      destruct (parity_of a t), w; reflexivity.
Qed.

Theorem add_parity_sem a ls constant : lits_ok ls = true ->
  cnf_sat a (add_parity ls constant) = eqb (parity_of a ls) (constant =? 1).
Proof. intros H. unfold add_parity. now apply parity_clauses_sem. Qed.

Lemma parity_of_count a ls : parity_of a ls = Z.odd (count_true a ls).
Proof.
  induction ls as [|x t IH]; [reflexivity|]. cbn [parity_of count_true]. rewrite IH.
  destruct (lit_true a x); cbn [b2z].
  - replace (1 + count_true a t) with (Z.succ (count_true a t)) by lia.
    rewrite Z.odd_succ, <- Z.negb_odd. destruct (Z.odd (count_true a t)); reflexivity.
  - cbn. destruct (Z.odd (count_true a t)); reflexivity.
Qed.

(* ---------- majorities / minorities ---------- *)

Theorem loose_majority_sem a ls : cnf_sat a (add_loose_majority ls) = (2 * count_true a ls >=? len ls).
Proof. unfold add_loose_majority. cbn [add_linear]. rewrite add_geq_sem. lia. Qed.
Theorem strict_majority_sem a ls : cnf_sat a (add_strict_majority ls) = (2 * count_true a ls >? len ls).
Proof. unfold add_strict_majority. cbn [add_linear]. rewrite add_geq_sem. lia. Qed.
Theorem loose_minority_sem a ls : lits_ok ls = true ->
  cnf_sat a (add_loose_minority ls) = (2 * count_true a ls <=? len ls).
Proof. intros H. unfold add_loose_minority. cbn [add_linear]. rewrite add_leq_sem by assumption. lia. Qed.
Theorem strict_minority_sem a ls : lits_ok ls = true ->
  cnf_sat a (add_strict_minority ls) = (2 * count_true a ls <? len ls).
Proof. intros H. unfold add_strict_minority. cbn [add_linear]. rewrite add_leq_sem by assumption. lia. Qed.

(* ---------- pseudo-Boolean normalisation ---------- *)

Definition terms_ok (ts : list (Z * Z)) : bool := forallb (fun cl => nonzero (snd cl)) ts.

Lemma norm_coeffs_sem a : forall ts v ts' v', terms_ok ts = true ->
  norm_coeffs ts v = (ts', v') ->
  pb_lhs a ts' - v' = pb_lhs a ts - v.
Proof.
  induction ts as [|[c l] t IH]; intros v ts' v' H E.
  - cbn in E. inversion E; subst. reflexivity.
  - cbn in H. apply andb_true_iff in H as [H1 H2]. apply nonzero_spec in H1. cbn [snd] in H1.
    cbn [norm_coeffs] in E. destruct (norm_coeffs t v) as [t1 v1] eqn:E1.
    specialize (IH v t1 v1 H2 E1).
    destruct (c <? 0) eqn:Ec; inversion E; subst; cbn [pb_lhs].
    + rewrite lit_true_opp, b2z_negb by assumption. lia.
    + lia.
Qed.

Lemma norm_coeffs_shape : forall ts v ts' v', norm_coeffs ts v = (ts', v') ->
  Forall (fun cl => 0 <= fst cl) ts' /\
  length ts' = length ts /\
  (forall i, fst (nth i ts (0,0)) <> 0 -> 0 < fst (nth i ts' (0,0))).
Proof.
  induction ts as [|[c l] t IH]; intros v ts' v' E.
  - cbn in E. inversion E; subst. repeat split; auto. intros i. destruct i; cbn; lia.
  - cbn [norm_coeffs] in E. destruct (norm_coeffs t v) as [t1 v1] eqn:E1.
    destruct (IH v t1 v1 E1) as [F [L N]].
    destruct (c <? 0) eqn:Ec; inversion E; subst.
    + repeat split; [constructor; [cbn; lia|exact F] | cbn; lia |].
      intros i. destruct i as [|i]; cbn [nth fst]; [lia|apply N].
    + repeat split; [constructor; [cbn; lia|exact F] | cbn; lia |].
      intros i. destruct i as [|i]; cbn [nth fst]; [lia|apply N].
Qed.

Lemma pb_lhs_negate a ts : pb_lhs a (map (fun cl => (- fst cl, snd cl)) ts) = - pb_lhs a ts.
Proof. induction ts as [|[c l] t IH]; [reflexivity|]. cbn [map pb_lhs fst snd]. rewrite IH. lia. Qed.

Lemma terms_ok_negate ts : terms_ok (map (fun cl => (- fst cl, snd cl)) ts) = terms_ok ts.
Proof. unfold terms_ok. rewrite forallb_map. reflexivity. Qed.

Theorem normalize_opb_sem a c : terms_ok (pb_terms c) = true ->
  pb_sat a (normalize_opb c) = pb_sat a c.
Proof.
  intros H. destruct c as [ts o v]. cbn [pb_terms] in H. unfold normalize_opb, pb_sat. cbn [pb_op pb_deg pb_terms].
  destruct o; cbn [pb_op pb_terms pb_deg].
  - (* <= *) destruct (norm_coeffs _ (- v)) as [t3 v3] eqn:E.
    apply (norm_coeffs_sem a) in E; [|now rewrite terms_ok_negate]. rewrite pb_lhs_negate in E.
    cbn [pb_op pb_terms pb_deg pbop_holds]. lia.
  - destruct (norm_coeffs ts v) as [t3 v3] eqn:E. apply (norm_coeffs_sem a) in E; [|assumption].
    cbn [pb_op pb_terms pb_deg pbop_holds]. lia.
  - destruct (norm_coeffs _ (- (v - 1))) as [t3 v3] eqn:E.
    apply (norm_coeffs_sem a) in E; [|now rewrite terms_ok_negate]. rewrite pb_lhs_negate in E.
    cbn [pb_op pb_terms pb_deg pbop_holds]. lia.
  - destruct (norm_coeffs ts (v + 1)) as [t3 v3] eqn:E. apply (norm_coeffs_sem a) in E; [|assumption].
    cbn [pb_op pb_terms pb_deg pbop_holds]. lia.
  - destruct (norm_coeffs ts v) as [t3 v3] eqn:E. apply (norm_coeffs_sem a) in E; [|assumption].
    cbn [pb_op pb_terms pb_deg pbop_holds]. lia.
Qed.

(* the result has >= or ==, no negative coefficient, and a positive coefficient
   wherever the input coefficient was not zero *)
Theorem normalize_opb_shape c :
  (pb_op (normalize_opb c) = PGe \/ pb_op (normalize_opb c) = PEq) /\
  Forall (fun cl => 0 <= fst cl) (pb_terms (normalize_opb c)) /\
  length (pb_terms (normalize_opb c)) = length (pb_terms c) /\
  (forall i, fst (nth i (pb_terms c) (0,0)) <> 0 -> 0 < fst (nth i (pb_terms (normalize_opb c)) (0,0))).
Proof.
  destruct c as [ts o v]. unfold normalize_opb. cbn [pb_op pb_deg pb_terms].
  assert (Hneg : forall i, fst (nth i (map (fun cl : Z * Z => (- fst cl, snd cl)) ts) (0,0)) = - fst (nth i ts (0,0))).
  { intros i. change (0,0) with ((fun cl : Z * Z => (- fst cl, snd cl)) (0,0)) at 1. rewrite map_nth. reflexivity. }
  destruct o; cbn [pb_op pb_terms pb_deg];
    match goal with |- context [norm_coeffs ?t ?w] => destruct (norm_coeffs t w) as [t3 v3] eqn:E end;
    apply norm_coeffs_shape in E as [F [L N]]; cbn [pb_op pb_terms];
    rewrite ?map_length in L; repeat split; auto;
    intros i Hi; apply N; rewrite ?Hneg; lia.
Qed.

Lemma pb_lhs_unit a ls : pb_lhs a (unit_terms ls) = count_true a ls.
Proof. induction ls as [|l t IH]; [reflexivity|]. cbn [unit_terms map pb_lhs count_true]. fold (unit_terms t). rewrite IH. lia. Qed.
Lemma terms_ok_unit ls : terms_ok (unit_terms ls) = lits_ok ls.
Proof. unfold terms_ok, unit_terms, lits_ok. rewrite forallb_map. reflexivity. Qed.

Lemma opb_clause_sem a c : pb_sat a (opb_clause c) = clause_sat a c.
Proof. unfold opb_clause, pb_sat. cbn. rewrite pb_lhs_unit, clause_sat_count. lia. Qed.

Lemma opb_clauses_sem a F : opb_sat a (map opb_clause F) = cnf_sat a F.
Proof. unfold opb_sat, cnf_sat. rewrite forallb_map. apply forallb_ext. apply opb_clause_sem. Qed.

Theorem opb_linear_sem a ls o k : lits_ok ls = true ->
  opb_sat a (opb_linear ls o k) = cop_holds o (count_true a ls) k.
Proof.
  intros H. destruct o; cbn [opb_linear];
  try (unfold opb_sat; cbn [forallb]; rewrite andb_true_r, normalize_opb_sem by (cbn [pb_terms]; now rewrite terms_ok_unit);
       unfold pb_sat; cbn [pb_op pb_terms pb_deg pbop_holds cop_holds]; rewrite pb_lhs_unit; reflexivity).
  rewrite opb_clauses_sem. now apply add_neq_sem.
Qed.

(* the two encodings have the same models *)
Theorem linear_cnf_opb_agree a ls o k : lits_ok ls = true ->
  cnf_sat a (add_linear ls o k) = opb_sat a (opb_linear ls o k).
Proof. intros H. now rewrite add_linear_sem, opb_linear_sem. Qed.

Theorem parity_cnf_opb_agree a ls constant :
  cnf_sat a (add_parity ls constant) = opb_sat a (opb_parity ls constant).
Proof. unfold opb_parity. now rewrite opb_clauses_sem. Qed.

Theorem opb_majorities_agree a ls : lits_ok ls = true ->
  opb_sat a (opb_loose_majority ls) = cnf_sat a (add_loose_majority ls) /\
  opb_sat a (opb_loose_minority ls) = cnf_sat a (add_loose_minority ls) /\
  opb_sat a (opb_strict_majority ls) = cnf_sat a (add_strict_majority ls) /\
  opb_sat a (opb_strict_minority ls) = cnf_sat a (add_strict_minority ls).
Proof.
  intros H. unfold opb_loose_majority, opb_loose_minority, opb_strict_majority, opb_strict_minority.
  rewrite !opb_linear_sem by assumption.
  rewrite loose_majority_sem, strict_majority_sem, loose_minority_sem, strict_minority_sem by assumption.
  cbn [cop_holds]. repeat split; lia.
Qed.
