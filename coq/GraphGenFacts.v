(* GraphGenFacts.v -- lemmas about the graph constructions of GraphGen.v (property C15). *)
From Coq Require Import ZArith List Bool Lia ZifyBool Permutation.
From Cnfgen Require Import Comb GText GraphIO GraphIOFacts GraphGen.
Import ListNotations.
Open Scope Z_scope.
Ltac Zify.zify_post_hook ::= Z.to_euclidean_division_equations.

(* ---------- results ---------- *)
Lemma gg_bind_ok {A B} (x : gg_res A) (f : A -> gg_res B) b :
  gg_bind x f = GGOk b -> exists a, x = GGOk a /\ f a = GGOk b.
Proof. destruct x; cbn; intros H; try discriminate. eauto. Qed.
Lemma gg_lift_ok {A} (x : gio_res A) a : gg_lift x = GGOk a -> x = GOk a.
Proof. destruct x; cbn; intros H; inversion H; reflexivity. Qed.

Ltac bind_inv H x Hx :=
  let H' := fresh in
  apply gg_bind_ok in H as [x [Hx H']]; rename H' into H.

(* ---------- ranges ---------- *)
Lemma range1_In n x : In x (gt_range1 n) <-> 1 <= x <= n.
Proof.
  unfold gt_range1. rewrite in_map_iff. split.
  - intros [k [<- Hk]]. apply in_seq in Hk. lia.
  - intros H. exists (Z.to_nat x). split; [lia|]. apply in_seq. lia.
Qed.
Lemma NoDup_map_inj {A B} (f : A -> B) l :
  (forall x y, In x l -> In y l -> f x = f y -> x = y) -> NoDup l -> NoDup (map f l).
Proof.
  intros Hinj Hnd. induction Hnd as [|a l Ha Hnd IH]; cbn; constructor.
  - intros Hin. apply in_map_iff in Hin as [y [Hy Hin]]. apply Ha.
    assert (y = a) by (apply Hinj; [now right|now left|exact Hy]). now subst.
  - apply IH. intros x y Hx Hy. apply Hinj; now right.
Qed.
Lemma range1_NoDup n : NoDup (gt_range1 n).
Proof.
  unfold gt_range1. apply NoDup_map_inj; [|apply seq_NoDup].
  intros x y _ _ H. lia.
Qed.
Lemma range1_length n : length (gt_range1 n) = Z.to_nat n.
Proof. unfold gt_range1. now rewrite map_length, seq_length. Qed.

Lemma NoDup_app_intro {A} (l1 l2 : list A) :
  NoDup l1 -> NoDup l2 -> (forall x, In x l1 -> ~ In x l2) -> NoDup (l1 ++ l2).
Proof.
  intros H1 H2 Hd. induction H1 as [|a l Ha H1 IH]; cbn; [exact H2|].
  constructor.
  - intros Hin. apply in_app_or in Hin as [Hin|Hin]; [now apply Ha|]. apply (Hd a); [now left|exact Hin].
  - apply IH. intros x Hx. apply Hd. now right.
Qed.
Lemma NoDup_flat_map {A B} (f : A -> list B) l :
  NoDup l -> (forall x, In x l -> NoDup (f x)) ->
  (forall x y z, In x l -> In y l -> x <> y -> In z (f x) -> ~ In z (f y)) -> NoDup (flat_map f l).
Proof.
  intros Hnd. induction Hnd as [|a l Ha Hnd IH]; intros Hf Hd; cbn; [constructor|].
  apply NoDup_app_intro.
  - apply Hf. now left.
  - apply IH; [intros x Hx; apply Hf; now right|].
    intros x y z Hx Hy. apply Hd; now right.
  - intros z Hz Hin. apply in_flat_map in Hin as [y [Hy Hzy]].
    apply (Hd a y z); [now left|now right| |exact Hz|exact Hzy]. intros E. subst. contradiction.
Qed.

Lemma all_pairs_In L R u v : In (u, v) (gg_all_pairs L R) <-> 1 <= u <= L /\ 1 <= v <= R.
Proof.
  unfold gg_all_pairs. rewrite in_flat_map. split.
  - intros [x [Hx Hin]]. apply in_map_iff in Hin as [y [E Hy]]. inversion E; subst.
    apply range1_In in Hx. apply range1_In in Hy. lia.
  - intros [Hu Hv]. exists u. split; [now apply range1_In|]. apply in_map_iff. exists v. split; [reflexivity|now apply range1_In].
Qed.
Lemma all_pairs_NoDup L R : NoDup (gg_all_pairs L R).
Proof.
  unfold gg_all_pairs. apply NoDup_flat_map; [apply range1_NoDup| |].
  - intros x _. apply NoDup_map_inj; [|apply range1_NoDup]. intros a b _ _ E. now inversion E.
  - intros x y z _ _ Hxy Hx Hy. apply in_map_iff in Hx as [a [<- _]]. apply in_map_iff in Hy as [b [E _]].
    inversion E. congruence.
Qed.

(* ---------- counting edges: insertion of new edges is a permutation of consing them ---------- *)
Lemma insert_perm e l : ~ In e l -> Permutation (gio_insert e l) (e :: l).
Proof.
  induction l as [|y t IH]; intros Hn; cbn [gio_insert]; [reflexivity|].
  destruct (gio_pair_ltb e y); [reflexivity|].
  destruct (gio_pair_eqb e y) eqn:E2.
  - apply pair_eqb_spec in E2. subst. exfalso. apply Hn. now left.
  - rewrite IH; [apply perm_swap|]. intros H. apply Hn. now right.
Qed.
Lemma insert_all_perm es : forall l, NoDup es -> (forall e, In e es -> ~ In e l) ->
  Permutation (insert_all es l) (es ++ l).
Proof.
  induction es as [|e t IH]; intros l Hnd Hd; [reflexivity|].
  rewrite insert_all_cons. inversion Hnd as [|x l' Hx Hnd']; subst.
  rewrite IH; [| exact Hnd' |].
  - rewrite insert_perm; [|apply Hd; now left]. cbn. symmetry. apply Permutation_middle.
  - intros x Hxt Hin. apply insert_In in Hin as [->|Hin]; [contradiction|]. apply (Hd x); [now right|exact Hin].
Qed.
Lemma insert_all_length es l : NoDup es -> (forall e, In e es -> ~ In e l) ->
  length (insert_all es l) = (length es + length l)%nat.
Proof. intros H1 H2. rewrite (Permutation_length (insert_all_perm es l H1 H2)). apply app_length. Qed.

Lemma filter_perm {A} (p : A -> bool) l1 l2 : Permutation l1 l2 -> Permutation (filter p l1) (filter p l2).
Proof.
  induction 1 as [|x l l' _ IH|x y l|l l' l'' _ IH1 _ IH2]; cbn.
  - reflexivity.
  - destruct (p x); [now constructor|exact IH].
  - destruct (p x), (p y); try reflexivity. apply perm_swap.
  - now transitivity (filter p l').
Qed.
Lemma insert_all_count (p : Z * Z -> bool) es l : NoDup es -> (forall e, In e es -> ~ In e l) ->
  length (filter p (insert_all es l)) = (length (filter p es) + length (filter p l))%nat.
Proof.
  intros H1 H2. rewrite (Permutation_length (filter_perm p _ _ (insert_all_perm es l H1 H2))).
  rewrite filter_app. apply app_length.
Qed.

(* adding one absent edge *)
Lemma nedges_with G es : gg_nedges (gio_with_edges G es) = gg_len es.
Proof. reflexivity. Qed.
Lemma add_new_edge G u v G' : gio_has_edge G u v = false -> gio_add_edge G u v = GOk G' ->
  gg_nedges G' = gg_nedges G + 1 /\ io_kind G' = io_kind G /\ io_n G' = io_n G /\ io_r G' = io_r G.
Proof.
  intros Hh Ha. apply add_edge_inv in Ha as [_ ->]. repeat split.
  unfold gg_nedges, gg_len. cbn [gio_with_edges io_edges]. rewrite insert_length_new; [lia|].
  intros Hin. apply has_edge_In in Hin. congruence.
Qed.
Lemma add_edge_keeps G u v G' : gio_add_edge G u v = GOk G' ->
  io_kind G' = io_kind G /\ io_n G' = io_n G /\ io_r G' = io_r G /\
  (forall e, In e (io_edges G) -> In e (io_edges G')).
Proof.
  intros Ha. apply add_edge_inv in Ha as [_ ->]. repeat split.
  intros e He. cbn [gio_with_edges io_edges]. apply insert_In. now right.
Qed.
Lemma add_edges_keeps G es G' : gio_add_edges G es = GOk G' ->
  io_kind G' = io_kind G /\ io_n G' = io_n G /\ io_r G' = io_r G /\
  (forall e, In e (io_edges G) -> In e (io_edges G')).
Proof.
  intros Ha. apply add_edges_inv in Ha as [_ ->]. repeat split.
  intros e He. cbn [gio_with_edges io_edges]. apply insert_all_In. now right.
Qed.

(* ---------- the random module ---------- *)
Lemma draw_pos_spec : forall k n seen s ps s', gg_draw_pos k n seen s = GGOk (ps, s') ->
  length ps = k /\ (forall p, In p ps -> 0 <= p < n /\ ~ In p seen) /\ NoDup ps.
Proof.
  induction k as [|k IH]; intros n seen s ps s' H; cbn [gg_draw_pos] in H.
  - inversion H; subst. split; [reflexivity|]. split; [intros q []|constructor].
  - destruct s as [|z t]; [discriminate|].
    destruct ((0 <=? z) && (z <? n) && negb (existsb (Z.eqb z) seen)) eqn:E; [|discriminate].
    bind_inv H r Hr. destruct r as [ps1 s1]. inversion H; subst. cbn [fst snd] in *.
    apply IH in Hr as (Hl & Hr & Hnd).
    assert (Hz : ~ In z seen).
    { intros Hin. assert (existsb (Z.eqb z) seen = true) by (apply existsb_exists; exists z; split; [exact Hin|apply Z.eqb_refl]). rewrite H0 in E. cbn in E. lia. }
    split; [cbn; now rewrite Hl|]. split.
    + intros q [<-|Hq]; [split; [lia|exact Hz]|].
      apply Hr in Hq as [Hq1 Hq2]. split; [exact Hq1|]. intros Hin. apply Hq2. now right.
    + constructor; [|exact Hnd]. intros Hin. apply Hr in Hin as [_ Hin]. apply Hin. now left.
Qed.
Lemma sample_pos_spec n k s ps s' : gg_sample_pos n k s = GGOk (ps, s') ->
  0 <= k <= Z.max 0 n /\ length ps = Z.to_nat k /\ (forall p, In p ps -> 0 <= p < n) /\ NoDup ps.
Proof.
  unfold gg_sample_pos. destruct ((k <? 0) || (Z.max 0 n <? k)) eqn:E; [discriminate|]. intros H.
  apply draw_pos_spec in H as (Hl & Hr & Hnd). split; [lia|]. split; [exact Hl|]. split; [|exact Hnd].
  intros q Hq. apply Hr in Hq. tauto.
Qed.
Lemma sample_range1_spec n k s vs s' : gg_sample_range1 n k s = GGOk (vs, s') ->
  0 <= k <= Z.max 0 n /\ length vs = Z.to_nat k /\ (forall v, In v vs -> 1 <= v <= n) /\ NoDup vs.
Proof.
  unfold gg_sample_range1. intros H. bind_inv H r Hr. destruct r as [ps s1]. inversion H; subst. cbn [fst snd].
  apply sample_pos_spec in Hr as (Hk & Hl & Hr & Hnd). split; [lia|]. split; [now rewrite map_length|]. split.
  - intros v Hv. apply in_map_iff in Hv as [q [<- Hq]]. apply Hr in Hq. lia.
  - apply NoDup_map_inj; [|exact Hnd]. intros; lia.
Qed.
Lemma sample_list_spec {A} (d : A) pop k s es s' : NoDup pop -> gg_sample_list d pop k s = GGOk (es, s') ->
  0 <= k /\ length es = Z.to_nat k /\ (forall e, In e es -> In e pop) /\ NoDup es.
Proof.
  unfold gg_sample_list, gg_len. intros Hpop H. bind_inv H r Hr. destruct r as [ps s1]. inversion H; subst. cbn [fst snd].
  apply sample_pos_spec in Hr as (Hk & Hl & Hr & Hnd). split; [lia|]. split; [now rewrite map_length|]. split.
  - intros e He. apply in_map_iff in He as [q [<- Hq]]. apply Hr in Hq. apply nth_In. lia.
  - apply NoDup_map_inj; [|exact Hnd]. intros x y Hx Hy E. apply Hr in Hx. apply Hr in Hy.
    assert (Z.to_nat x = Z.to_nat y); [|lia].
    apply (proj1 (NoDup_nth pop d) Hpop); [lia|lia|exact E].
Qed.

(* ---------- bipartite_random_m_edges ---------- *)
Lemma me_sparse_count : forall n s L R rem G G' s', (length s <= n)%nat ->
  gg_me_sparse L R rem G s = GGOk (G', s') ->
  gg_nedges G' = gg_nedges G + Z.max 0 rem /\ io_kind G' = io_kind G /\ io_n G' = io_n G /\ io_r G' = io_r G.
Proof.
  induction n as [|n IH]; intros s L R rem G G' s' Hlen H.
  - destruct s; [|cbn in Hlen; lia]. cbn [gg_me_sparse] in H.
    destruct (rem <=? 0) eqn:E; [|discriminate]. inversion H; subst. repeat split; lia.
  - destruct s as [|u s]; cbn [gg_me_sparse] in H.
    + destruct (rem <=? 0) eqn:E; [|discriminate]. inversion H; subst. repeat split; lia.
    + destruct (rem <=? 0) eqn:E; [inversion H; subst; repeat split; lia|].
      destruct s as [|v t]; [discriminate|].
      destruct ((1 <=? u) && (u <=? L) && (1 <=? v) && (v <=? R)) eqn:Er; [|discriminate].
      cbn [length] in Hlen.
      destruct (gio_has_edge G u v) eqn:Eh.
      * apply IH in H; [exact H|lia].
      * bind_inv H G1 H1. apply gg_lift_ok in H1. apply (add_new_edge _ _ _ _ Eh) in H1 as (Hc & Hk & Hn & Hr).
        apply IH in H; [|lia]. destruct H as (Hc' & Hk' & Hn' & Hr'). repeat split; try congruence. lia.
Qed.

Theorem m_edges_exact : forall spec L R m s G s',
  gg_m_edges spec L R m s = GGOk (G, s') -> spec = true \/ m <= L * R / 3 ->
  gg_nedges G = m /\ io_kind G = KBipartite /\ io_n G = L /\ io_r G = R /\ 0 <= m <= L * R.
Proof.
  intros spec L R m s G s' H Hb. unfold gg_m_edges in H.
  destruct ((L <? 1) || (R <? 1) || (m <? 0) || (L * R <? m)) eqn:Eg; [discriminate|].
  bind_inv H G0 H0. apply gg_lift_ok in H0. apply new_inv in H0 as (HL & HR & ->).
  destruct (L * R / 3 <? m) eqn:Ed.
  - destruct spec; [|destruct Hb as [Hb|Hb]; [discriminate|lia]].
    bind_inv H es Hes. destruct es as [es s1]. cbn [fst snd] in H.
    apply sample_list_spec in Hes as (Hk & Hl & Hin & Hnd); [|apply all_pairs_NoDup].
    unfold gg_add_edges in H. bind_inv H G1 H1. apply gg_lift_ok in H1. inversion H; subst.
    apply add_edges_inv in H1 as [_ ->]. cbn [io_kind gio_with_edges io_n io_r io_edges].
    repeat split; try lia. unfold gg_nedges, gg_len. cbn [io_edges gio_with_edges].
    rewrite insert_all_length.
    + rewrite map_length, Hl. cbn. lia.
    + cbn [edge_norm]. rewrite map_id. exact Hnd.
    + intros e _ [].
  - apply (me_sparse_count (length s)) in H; [|lia]. cbn [io_kind io_n io_r] in H. destruct H as (Hc & Hk & Hn & Hr).
    repeat split; try assumption; try lia. rewrite Hc. unfold gg_nedges, gg_len. cbn. lia.
Qed.

Lemma m_edges_as_is_refuted : exists L R m s, 0 <= m <= L * R /\ 1 <= L /\ 1 <= R /\
  gg_m_edges_as_is L R m s = GGRaise ETypeError.
Proof. exists 3, 3, 8, []. vm_compute. repeat split; congruence. Qed.

(* ---------- sorting ---------- *)
Lemma sort_insert_perm {A} (ltb : A -> A -> bool) x l : Permutation (gio_sort_insert ltb x l) (x :: l).
Proof.
  induction l as [|y t IH]; cbn [gio_sort_insert]; [reflexivity|].
  destruct (ltb x y); [reflexivity|]. rewrite IH. apply perm_swap.
Qed.
Lemma sort_perm {A} (ltb : A -> A -> bool) l : Permutation (gio_sort ltb l) l.
Proof.
  unfold gio_sort. induction l as [|x t IH]; cbn [fold_right]; [reflexivity|].
  rewrite sort_insert_perm. now constructor.
Qed.
Lemma sort_In {A} (ltb : A -> A -> bool) l x : In x (gio_sort ltb l) <-> In x l.
Proof. split; apply Permutation_in; [apply sort_perm|symmetry; apply sort_perm]. Qed.
Lemma sort_NoDup {A} (ltb : A -> A -> bool) l : NoDup l -> NoDup (gio_sort ltb l).
Proof. intros H. eapply Permutation_NoDup; [symmetry; apply sort_perm|exact H]. Qed.
Lemma sort_length {A} (ltb : A -> A -> bool) l : length (gio_sort ltb l) = length l.
Proof. apply Permutation_length, sort_perm. Qed.

(* ---------- degrees ---------- *)
Definition ldeg (G : iograph) (u : Z) : nat := length (gio_succs G u).
Definition rdeg (G : iograph) (v : Z) : nat := length (gio_preds G v).
Lemma ldeg_filter G u : ldeg G u = length (filter (fun e => fst e =? u) (io_edges G)).
Proof. unfold ldeg, gio_succs. apply map_length. Qed.
Lemma rdeg_filter G v : rdeg G v = length (filter (fun e => snd e =? v) (io_edges G)).
Proof. unfold rdeg, gio_preds. apply map_length. Qed.

Lemma filter_none {A} (p : A -> bool) l : (forall x, In x l -> p x = false) -> filter p l = [].
Proof.
  induction l as [|x t IH]; intros H; cbn; [reflexivity|].
  rewrite (H x (or_introl eq_refl)). apply IH. intros y Hy. apply H. now right.
Qed.
Lemma filter_all {A} (p : A -> bool) l : (forall x, In x l -> p x = true) -> filter p l = l.
Proof.
  induction l as [|x t IH]; intros H; cbn; [reflexivity|].
  rewrite (H x (or_introl eq_refl)). f_equal. apply IH. intros y Hy. apply H. now right.
Qed.
Lemma filter_length_zero {A} (p : A -> bool) l x : length (filter p l) = 0%nat -> In x l -> p x = false.
Proof.
  induction l as [|y t IH]; intros H Hin; [destruct Hin|]. cbn in H. destruct (p y) eqn:E; [discriminate|].
  destruct Hin as [<-|Hin]; [exact E|auto].
Qed.

(* all edges (u, v), v in vs, added to a bipartite graph in which u has no neighbour *)
Lemma add_left_star G u vs G' : io_kind G = KBipartite -> NoDup vs -> ldeg G u = 0%nat ->
  gio_add_edges G (map (fun v => (u, v)) vs) = GOk G' ->
  ldeg G' u = length vs /\ (forall u', u' <> u -> ldeg G' u' = ldeg G u') /\
  io_kind G' = KBipartite /\ io_n G' = io_n G /\ io_r G' = io_r G.
Proof.
  intros Hk Hnd Hd H. apply add_edges_inv in H as [_ ->]. rewrite Hk. cbn [edge_norm]. rewrite map_id.
  assert (Hnd' : NoDup (map (fun v => (u, v)) vs)).
  { apply NoDup_map_inj; [|exact Hnd]. intros a b _ _ E. now inversion E. }
  assert (Hdis : forall e, In e (map (fun v => (u, v)) vs) -> ~ In e (io_edges G)).
  { intros e He Hin. apply in_map_iff in He as [v [<- _]]. rewrite ldeg_filter in Hd.
    apply (filter_length_zero _ _ _ Hd) in Hin. cbn in Hin. lia. }
  split; [|split; [|repeat split; assumption]].
  - rewrite ldeg_filter. cbn [io_edges gio_with_edges]. rewrite insert_all_count by assumption.
    rewrite <- ldeg_filter, Hd, filter_all, map_length; [lia|].
    intros e He. apply in_map_iff in He as [v [<- _]]. cbn. lia.
  - intros u' Hu. rewrite !ldeg_filter. cbn [io_edges gio_with_edges]. rewrite insert_all_count by assumption.
    rewrite filter_none; [reflexivity|]. intros e He. apply in_map_iff in He as [v [<- _]]. cbn. lia.
Qed.

(* ---------- bipartite_random_left_regular ---------- *)
Lemma lr_loop_deg : forall us r d G s G' s', NoDup us -> io_kind G = KBipartite -> 0 <= d ->
  (forall u, In u us -> ldeg G u = 0%nat) ->
  gg_lr_loop us r d G s = GGOk (G', s') ->
  (forall u, In u us -> ldeg G' u = Z.to_nat d) /\ (forall u, ~ In u us -> ldeg G' u = ldeg G u) /\
  io_kind G' = KBipartite /\ io_n G' = io_n G /\ io_r G' = io_r G.
Proof.
  induction us as [|u us IH]; intros r d G s G' s' Hnd Hk Hd H0 H; cbn [gg_lr_loop] in H.
  - inversion H; subst. repeat split; try assumption. intros u [].
  - inversion Hnd as [|x l Hu Hnd']; subst.
    bind_inv H vs Hvs. destruct vs as [vs s1]. cbn [fst snd] in H.
    apply sample_range1_spec in Hvs as (Hkk & Hl & Hr & Hndv).
    bind_inv H G1 H1. apply gg_lift_ok in H1.
    apply add_left_star in H1; [|exact Hk|now apply sort_NoDup|apply H0; now left].
    destruct H1 as (Hdu & Hoth & Hk1 & Hn1 & Hr1). rewrite sort_length in Hdu.
    apply IH in H; [|exact Hnd'|exact Hk1|exact Hd|].
    + destruct H as (Hin & Hout & Hk2 & Hn2 & Hr2). repeat split; try congruence.
      * intros x [<-|Hx]; [|now apply Hin]. rewrite Hout by exact Hu. lia.
      * intros x Hx. rewrite Hout by (intros Hc; apply Hx; now right). apply Hoth. intros E. apply Hx. now left.
    + intros x Hx. rewrite Hoth; [apply H0; now right|]. intros E. subst. contradiction.
Qed.

Theorem left_regular_degree : forall l r d s G s', gg_left_regular l r d s = GGOk (G, s') ->
  io_kind G = KBipartite /\ io_n G = l /\ io_r G = r /\
  forall u, 1 <= u <= l -> Z.of_nat (length (gio_succs G u)) = Z.min r d.
Proof.
  intros l r d s G s' H. unfold gg_left_regular in H.
  destruct ((l <? 0) || (r <? 0) || (d <? 0)) eqn:E; [discriminate|].
  bind_inv H G0 H0. apply gg_lift_ok in H0. apply new_inv in H0 as (Hl & Hr & ->).
  apply lr_loop_deg in H; [|apply range1_NoDup|reflexivity|lia|reflexivity].
  destruct H as (Hin & _ & Hk & Hn & Hrr). cbn [io_n io_r] in *. repeat split; try assumption.
  intros u Hu. fold (ldeg G u). rewrite Hin by (now apply range1_In). lia.
Qed.

(* ---------- fixed graphs: edges added to the empty directed graph ---------- *)
Lemma build_directed n es : 0 <= n -> NoDup es -> (forall s t, In (s, t) es -> 1 <= s /\ s < t /\ t <= n) ->
  exists G, gg_bind (gg_lift (gio_new KDirected [] n 0)) (fun G => gg_lift (gio_add_edges G es)) = GGOk G /\
            io_kind G = KDirected /\ io_n G = n /\ io_r G = 0 /\ gg_nedges G = gg_len es /\ gio_is_dag G = true /\
            (forall e, In e (io_edges G) <-> In e es).
Proof.
  intros Hn Hnd Hb. rewrite new_ok by lia. cbn [gg_lift gg_bind].
  rewrite add_edges_ok.
  - cbn [gg_lift io_kind edge_norm io_edges]. rewrite map_id. eexists. split; [reflexivity|].
    cbn [io_kind io_n io_r gio_with_edges]. repeat split.
    + unfold gg_nedges, gg_len. cbn [io_edges gio_with_edges]. rewrite insert_all_length; [cbn; lia|exact Hnd|intros e _ []].
    + apply is_dag_spec. cbn [io_edges gio_with_edges]. intros u v Hin. apply insert_all_In in Hin as [Hin|[]]. apply Hb in Hin. lia.
    + cbn [io_edges gio_with_edges]. intros Hin. apply insert_all_In in Hin as [Hin|[]]. exact Hin.
    + cbn [io_edges gio_with_edges]. intros Hin. apply insert_all_In. now left.
  - apply Forall_forall. intros [s t] Hin. apply Hb in Hin. unfold edge_ok. cbn. lia.
Qed.

(* dag_path *)
Theorem dag_path_shape : forall len, 0 <= len -> exists G, gg_dag_path len = GGOk G /\
  io_kind G = KDirected /\ io_n G = len + 1 /\ gg_nedges G = len /\ gio_is_dag G = true /\
  (forall u v, In (u, v) (io_edges G) <-> 1 <= u <= len /\ v = u + 1).
Proof.
  intros len Hl. unfold gg_dag_path. replace (len <? 0) with false by lia.
  destruct (build_directed (len + 1) (map (fun i => (i, i + 1)) (gt_range1 len))) as (G & HG & Hk & Hn & _ & Hm & Hd & He).
  - lia.
  - apply NoDup_map_inj; [|apply range1_NoDup]. intros a b _ _ E. now inversion E.
  - intros s t Hin. apply in_map_iff in Hin as [i [E Hi]]. inversion E; subst. apply range1_In in Hi. lia.
  - exists G. repeat split; try assumption.
    + rewrite Hm. unfold gg_len. rewrite map_length, range1_length. lia.
    + apply He in H. apply in_map_iff in H as [i [E Hi]]. inversion E; subst. apply range1_In in Hi. lia.
    + apply He in H. apply in_map_iff in H as [i [E Hi]]. inversion E; subst. apply range1_In in Hi. lia.
    + apply He in H. apply in_map_iff in H as [i [E Hi]]. now inversion E.
    + intros [Hu ->]. apply He. apply in_map_iff. exists u. split; [reflexivity|now apply range1_In].
Qed.

(* dag_complete_binary_tree *)
Lemma tree_edges_In : forall cnt src dest s t, In (s, t) (gg_tree_edges cnt src dest) ->
  dest <= t < dest + Z.of_nat cnt /\ (s = src + 2 * (t - dest) \/ s = src + 2 * (t - dest) + 1).
Proof.
  induction cnt as [|c IH]; intros src dest s t Hin; [destruct Hin|].
  cbn [gg_tree_edges] in Hin. destruct Hin as [E|[E|Hin]]; try (inversion E; subst; lia).
  apply IH in Hin. lia.
Qed.
Lemma tree_edges_NoDup : forall cnt src dest, NoDup (gg_tree_edges cnt src dest).
Proof.
  induction cnt as [|c IH]; intros src dest; cbn [gg_tree_edges]; [constructor|].
  constructor; [|constructor; [|apply IH]].
  - intros [E|Hin]; [inversion E; lia|]. apply tree_edges_In in Hin. lia.
  - intros Hin. apply tree_edges_In in Hin. lia.
Qed.
Lemma tree_edges_length : forall cnt src dest, length (gg_tree_edges cnt src dest) = (2 * cnt)%nat.
Proof. induction cnt as [|c IH]; intros; cbn [gg_tree_edges length]; [reflexivity|]. rewrite IH. lia. Qed.

Theorem dag_tree_shape : forall h, 0 <= h -> exists G, gg_dag_tree h = GGOk G /\
  io_kind G = KDirected /\ io_n G = 2 ^ (h + 1) - 1 /\ gg_nedges G = 2 ^ (h + 1) - 2 /\ gio_is_dag G = true.
Proof.
  intros h Hh. unfold gg_dag_tree. replace (h <? 0) with false by lia.
  assert (Hp : 1 <= 2 ^ h) by (pose proof (Z.pow_pos_nonneg 2 h); lia).
  assert (Hs : 2 ^ (h + 1) = 2 * 2 ^ h) by (rewrite Z.pow_add_r by lia; lia).
  set (p := 2 ^ h) in *. replace (2 * p / 2) with p by lia.
  destruct (build_directed (2 * p - 1) (gg_tree_edges (Z.to_nat (p - 1)) 1 (p + 1))) as (G & HG & Hk & Hn & _ & Hm & Hd & _).
  - lia.
  - apply tree_edges_NoDup.
  - intros s t Hin. apply tree_edges_In in Hin. lia.
  - exists G. repeat split; try assumption; try lia.
    rewrite Hm. unfold gg_len. rewrite tree_edges_length. lia.
Qed.

(* dag_pyramid *)
Fixpoint tri (w : nat) : Z := match w with O => 0 | S w' => tri w' + Z.of_nat (S w') end.
Lemma tri_closed w : 2 * tri w = Z.of_nat w * (Z.of_nat w + 1).
Proof. induction w as [|w IH]; [reflexivity|]. cbn [tri]. rewrite Z.mul_add_distr_l, IH. lia. Qed.
Lemma tri_nonneg w : 0 <= tri w.
Proof. induction w as [|w IH]; cbn [tri]; lia. Qed.

Lemma pyr_row_In : forall w src dest s t, In (s, t) (gg_pyr_row w src dest) ->
  dest <= t < dest + Z.of_nat w /\ (s = src + (t - dest) \/ s = src + (t - dest) + 1).
Proof.
  induction w as [|w IH]; intros src dest s t Hin; [destruct Hin|].
  cbn [gg_pyr_row] in Hin. destruct Hin as [E|[E|Hin]]; try (inversion E; subst; lia).
  apply IH in Hin. lia.
Qed.
Lemma pyr_row_NoDup : forall w src dest, NoDup (gg_pyr_row w src dest).
Proof.
  induction w as [|w IH]; intros src dest; cbn [gg_pyr_row]; [constructor|].
  constructor; [|constructor; [|apply IH]].
  - intros [E|Hin]; [inversion E; lia|]. apply pyr_row_In in Hin. lia.
  - intros Hin. apply pyr_row_In in Hin. lia.
Qed.
Lemma pyr_row_length : forall w src dest, length (gg_pyr_row w src dest) = (2 * w)%nat.
Proof. induction w as [|w IH]; intros; cbn [gg_pyr_row length]; [reflexivity|]. rewrite IH. lia. Qed.

(* rows of width w, ..., 1 starting at vertex src whose destinations start at dest = src + w + 1 *)
Lemma pyr_rows_In : forall w src dest s t, dest = src + Z.of_nat w + 1 -> In (s, t) (gg_pyr_rows w src dest) ->
  src <= s /\ s < t /\ dest <= t < dest + tri w.
Proof.
  induction w as [|w IH]; intros src dest s t Hd Hin; [destruct Hin|].
  cbn [gg_pyr_rows] in Hin. apply in_app_or in Hin as [Hin|Hin].
  - apply pyr_row_In in Hin. pose proof (tri_nonneg w). cbn [tri]. lia.
  - apply IH in Hin; [|lia]. cbn [tri]. lia.
Qed.
Lemma pyr_rows_NoDup : forall w src dest, dest = src + Z.of_nat w + 1 -> NoDup (gg_pyr_rows w src dest).
Proof.
  induction w as [|w IH]; intros src dest Hd; cbn [gg_pyr_rows]; [constructor|].
  apply NoDup_app_intro; [apply pyr_row_NoDup|apply IH; lia|].
  intros [s t] H1 H2. apply pyr_row_In in H1. apply pyr_rows_In in H2; lia.
Qed.
Lemma pyr_rows_length : forall w src dest, gg_len (gg_pyr_rows w src dest) = 2 * tri w.
Proof.
  unfold gg_len. induction w as [|w IH]; intros; cbn [gg_pyr_rows]; [reflexivity|].
  rewrite app_length, Nat2Z.inj_add, IH, pyr_row_length. cbn [tri]. lia.
Qed.

Theorem dag_pyramid_shape : forall h, 0 <= h -> exists G, gg_dag_pyramid h = GGOk G /\
  io_kind G = KDirected /\ io_n G = (h + 1) * (h + 2) / 2 /\ gg_nedges G = h * (h + 1) /\ gio_is_dag G = true.
Proof.
  intros h Hh. unfold gg_dag_pyramid. replace (h <? 0) with false by lia.
  pose proof (tri_closed (Z.to_nat h)) as Ht. rewrite Z2Nat.id in Ht by lia.
  assert (Hn : (h + 1) * (h + 2) / 2 = tri (Z.to_nat h) + h + 1).
  { replace ((h + 1) * (h + 2)) with (h * (h + 1) + 2 * (h + 1)) by ring. rewrite <- Ht. lia. }
  rewrite Hn. pose proof (tri_nonneg (Z.to_nat h)) as Hp.
  destruct (build_directed (tri (Z.to_nat h) + h + 1) (gg_pyr_rows (Z.to_nat h) 1 (h + 2))) as (G & HG & Hk & Hnn & _ & Hm & Hd & _).
  - lia.
  - apply pyr_rows_NoDup. lia.
  - intros s t Hin. apply pyr_rows_In in Hin; lia.
  - exists G. repeat split; try assumption. rewrite Hm, pyr_rows_length. lia.
Qed.

Lemma dag_negative_refused : forall h, h < 0 ->
  gg_dag_path h = GGRaise EValueError /\ gg_dag_tree h = GGRaise EValueError /\ gg_dag_pyramid h = GGRaise EValueError.
Proof. intros h Hh. unfold gg_dag_path, gg_dag_tree, gg_dag_pyramid. replace (h <? 0) with true by lia. auto. Qed.

Lemma m_edges_spec_exact : forall L R m s G s',
  gg_m_edges_spec L R m s = GGOk (G, s') ->
  gg_nedges G = m /\ io_kind G = KBipartite /\ io_n G = L /\ io_r G = R /\ 0 <= m <= L * R.
Proof. intros L R m s G s' H. exact (m_edges_exact true L R m s G s' H (or_introl eq_refl)). Qed.
Lemma m_edges_sparse_exact : forall L R m s G s',
  gg_m_edges_as_is L R m s = GGOk (G, s') -> m <= L * R / 3 ->
  gg_nedges G = m /\ io_kind G = KBipartite /\ io_n G = L /\ io_r G = R /\ 0 <= m <= L * R.
Proof. intros L R m s G s' H Hm. exact (m_edges_exact false L R m s G s' H (or_intror Hm)). Qed.
