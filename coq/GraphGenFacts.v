(* GraphGenFacts.v -- lemmas about the graph constructions of GraphGen.v (property C15). *)
From Coq Require Import ZArith List Bool Lia ZifyBool Permutation.
From Cnfgen Require Import Comb GText GraphIO GraphIOFacts GraphGen.
Import ListNotations.
Open Scope Z_scope.
Ltac Zify.zify_post_hook ::= Z.to_euclidean_division_equations.

(* ---------- results ---------- *)
Lemma gg_bind_ok {A B} (x : gg_res A) (f : A -> gg_res B) b :
  gg_bind x f = GGOk b -> exists a, x = GGOk a /\ f a = GGOk b.
Proof. destruct x; cbn; intros H; try discriminate. eauto. Qed.
Lemma gg_lift_ok {A} (x : gio_res A) a : gg_lift x = GGOk a -> x = GOk a.
Proof. destruct x; cbn; intros H; inversion H; reflexivity. Qed.

Ltac bind_inv H x Hx :=
  let H' := fresh in
  apply gg_bind_ok in H as [x [Hx H']]; rename H' into H.

(* ---------- ranges ---------- *)
Lemma range1_In n x : In x (gt_range1 n) <-> 1 <= x <= n.
Proof.
  unfold gt_range1. rewrite in_map_iff. split.
  - intros [k [<- Hk]]. apply in_seq in Hk. lia.
  - intros H. exists (Z.to_nat x). split; [lia|]. apply in_seq. lia.
Qed.
Lemma NoDup_map_inj {A B} (f : A -> B) l :
  (forall x y, In x l -> In y l -> f x = f y -> x = y) -> NoDup l -> NoDup (map f l).
Proof.
  intros Hinj Hnd. induction Hnd as [|a l Ha Hnd IH]; cbn; constructor.
  - intros Hin. apply in_map_iff in Hin as [y [Hy Hin]]. apply Ha.
    assert (y = a) by (apply Hinj; [now right|now left|exact Hy]). now subst.
  - apply IH. intros x y Hx Hy. apply Hinj; now right.
Qed.
Lemma range1_NoDup n : NoDup (gt_range1 n).
Proof.
  unfold gt_range1. apply NoDup_map_inj; [|apply seq_NoDup].
  intros x y _ _ H. lia.
Qed.
Lemma range1_length n : length (gt_range1 n) = Z.to_nat n.
Proof. unfold gt_range1. now rewrite map_length, seq_length. Qed.

Lemma NoDup_app_intro {A} (l1 l2 : list A) :
  NoDup l1 -> NoDup l2 -> (forall x, In x l1 -> ~ In x l2) -> NoDup (l1 ++ l2).
Proof.
  intros H1 H2 Hd. induction H1 as [|a l Ha H1 IH]; cbn; [exact H2|].
  constructor.
  - intros Hin. apply in_app_or in Hin as [Hin|Hin]; [now apply Ha|]. apply (Hd a); [now left|exact Hin].
  - apply IH. intros x Hx. apply Hd. now right.
Qed.
Lemma NoDup_flat_map {A B} (f : A -> list B) l :
  NoDup l -> (forall x, In x l -> NoDup (f x)) ->
  (forall x y z, In x l -> In y l -> x <> y -> In z (f x) -> ~ In z (f y)) -> NoDup (flat_map f l).
Proof.
  intros Hnd. induction Hnd as [|a l Ha Hnd IH]; intros Hf Hd; cbn; [constructor|].
  apply NoDup_app_intro.
  - apply Hf. now left.
  - apply IH; [intros x Hx; apply Hf; now right|].
    intros x y z Hx Hy. apply Hd; now right.
  - intros z Hz Hin. apply in_flat_map in Hin as [y [Hy Hzy]].
    apply (Hd a y z); [now left|now right| |exact Hz|exact Hzy]. intros E. subst. contradiction.
Qed.

Lemma all_pairs_In L R u v : In (u, v) (gg_all_pairs L R) <-> 1 <= u <= L /\ 1 <= v <= R.
Proof.
  unfold gg_all_pairs. rewrite in_flat_map. split.
  - intros [x [Hx Hin]]. apply in_map_iff in Hin as [y [E Hy]]. inversion E; subst.
    apply range1_In in Hx. apply range1_In in Hy. lia.
  - intros [Hu Hv]. exists u. split; [now apply range1_In|]. apply in_map_iff. exists v. split; [reflexivity|now apply range1_In].
Qed.
Lemma all_pairs_NoDup L R : NoDup (gg_all_pairs L R).
Proof.
  unfold gg_all_pairs. apply NoDup_flat_map; [apply range1_NoDup| |].
  - intros x _. apply NoDup_map_inj; [|apply range1_NoDup]. intros a b _ _ E. now inversion E.
  - intros x y z _ _ Hxy Hx Hy. apply in_map_iff in Hx as [a [<- _]]. apply in_map_iff in Hy as [b [E _]].
    inversion E. congruence.
Qed.

(* ---------- counting edges: insertion of new edges is a permutation of consing them ---------- *)
Lemma insert_perm e l : ~ In e l -> Permutation (gio_insert e l) (e :: l).
Proof.
  induction l as [|y t IH]; intros Hn; cbn [gio_insert]; [reflexivity|].
  destruct (gio_pair_ltb e y); [reflexivity|].
  destruct (gio_pair_eqb e y) eqn:E2.
  - apply pair_eqb_spec in E2. subst. exfalso. apply Hn. now left.
  - rewrite IH; [apply perm_swap|]. intros H. apply Hn. now right.
Qed.
Lemma insert_all_perm es : forall l, NoDup es -> (forall e, In e es -> ~ In e l) ->
  Permutation (insert_all es l) (es ++ l).
Proof.
  induction es as [|e t IH]; intros l Hnd Hd; [reflexivity|].
  rewrite insert_all_cons. inversion Hnd as [|x l' Hx Hnd']; subst.
  rewrite IH; [| exact Hnd' |].
  - rewrite insert_perm; [|apply Hd; now left]. cbn. symmetry. apply Permutation_middle.
  - intros x Hxt Hin. apply insert_In in Hin as [->|Hin]; [contradiction|]. apply (Hd x); [now right|exact Hin].
Qed.
Lemma insert_all_length es l : NoDup es -> (forall e, In e es -> ~ In e l) ->
  length (insert_all es l) = (length es + length l)%nat.
Proof. intros H1 H2. rewrite (Permutation_length (insert_all_perm es l H1 H2)). apply app_length. Qed.

Lemma filter_perm {A} (p : A -> bool) l1 l2 : Permutation l1 l2 -> Permutation (filter p l1) (filter p l2).
Proof.
  induction 1 as [|x l l' _ IH|x y l|l l' l'' _ IH1 _ IH2]; cbn.
  - reflexivity.
  - destruct (p x); [now constructor|exact IH].
  - destruct (p x), (p y); try reflexivity. apply perm_swap.
  - now transitivity (filter p l').
Qed.
Lemma insert_all_count (p : Z * Z -> bool) es l : NoDup es -> (forall e, In e es -> ~ In e l) ->
  length (filter p (insert_all es l)) = (length (filter p es) + length (filter p l))%nat.
Proof.
  intros H1 H2. rewrite (Permutation_length (filter_perm p _ _ (insert_all_perm es l H1 H2))).
  rewrite filter_app. apply app_length.
Qed.

(* adding one absent edge *)
Lemma nedges_with G es : gg_nedges (gio_with_edges G es) = gg_len es.
Proof. reflexivity. Qed.
Lemma add_new_edge G u v G' : gio_has_edge G u v = false -> gio_add_edge G u v = GOk G' ->
  gg_nedges G' = gg_nedges G + 1 /\ io_kind G' = io_kind G /\ io_n G' = io_n G /\ io_r G' = io_r G.
Proof.
  intros Hh Ha. apply add_edge_inv in Ha as [_ ->]. repeat split.
  unfold gg_nedges, gg_len. cbn [gio_with_edges io_edges]. rewrite insert_length_new; [lia|].
  intros Hin. apply has_edge_In in Hin. congruence.
Qed.
Lemma add_edge_keeps G u v G' : gio_add_edge G u v = GOk G' ->
  io_kind G' = io_kind G /\ io_n G' = io_n G /\ io_r G' = io_r G /\
  (forall e, In e (io_edges G) -> In e (io_edges G')).
Proof.
  intros Ha. apply add_edge_inv in Ha as [_ ->]. repeat split.
  intros e He. cbn [gio_with_edges io_edges]. apply insert_In. now right.
Qed.
Lemma add_edges_keeps G es G' : gio_add_edges G es = GOk G' ->
  io_kind G' = io_kind G /\ io_n G' = io_n G /\ io_r G' = io_r G /\
  (forall e, In e (io_edges G) -> In e (io_edges G')).
Proof.
  intros Ha. apply add_edges_inv in Ha as [_ ->]. repeat split.
  intros e He. cbn [gio_with_edges io_edges]. apply insert_all_In. now right.
Qed.

(* ---------- the random module ---------- *)
Lemma draw_pos_spec : forall k n seen s ps s', gg_draw_pos k n seen s = GGOk (ps, s') ->
  length ps = k /\ (forall p, In p ps -> 0 <= p < n /\ ~ In p seen) /\ NoDup ps.
Proof.
  induction k as [|k IH]; intros n seen s ps s' H; cbn [gg_draw_pos] in H.
  - inversion H; subst. split; [reflexivity|]. split; [intros q []|constructor].
  - destruct s as [|z t]; [discriminate|].
    destruct ((0 <=? z) && (z <? n) && negb (existsb (Z.eqb z) seen)) eqn:E; [|discriminate].
    bind_inv H r Hr. destruct r as [ps1 s1]. inversion H; subst. cbn [fst snd] in *.
    apply IH in Hr as (Hl & Hr & Hnd).
    assert (Hz : ~ In z seen).
    { intros Hin. assert (existsb (Z.eqb z) seen = true) by (apply existsb_exists; exists z; split; [exact Hin|apply Z.eqb_refl]). rewrite H0 in E. cbn in E. lia. }
    split; [cbn; now rewrite Hl|]. split.
    + intros q [<-|Hq]; [split; [lia|exact Hz]|].
      apply Hr in Hq as [Hq1 Hq2]. split; [exact Hq1|]. intros Hin. apply Hq2. now right.
    + constructor; [|exact Hnd]. intros Hin. apply Hr in Hin as [_ Hin]. apply Hin. now left.
Qed.
Lemma sample_pos_spec n k s ps s' : gg_sample_pos n k s = GGOk (ps, s') ->
  0 <= k <= Z.max 0 n /\ length ps = Z.to_nat k /\ (forall p, In p ps -> 0 <= p < n) /\ NoDup ps.
Proof.
  unfold gg_sample_pos. destruct ((k <? 0) || (Z.max 0 n <? k)) eqn:E; [discriminate|]. intros H.
  apply draw_pos_spec in H as (Hl & Hr & Hnd). split; [lia|]. split; [exact Hl|]. split; [|exact Hnd].
  intros q Hq. apply Hr in Hq. tauto.
Qed.
Lemma sample_range1_spec n k s vs s' : gg_sample_range1 n k s = GGOk (vs, s') ->
  0 <= k <= Z.max 0 n /\ length vs = Z.to_nat k /\ (forall v, In v vs -> 1 <= v <= n) /\ NoDup vs.
Proof.
  unfold gg_sample_range1. intros H. bind_inv H r Hr. destruct r as [ps s1]. inversion H; subst. cbn [fst snd].
  apply sample_pos_spec in Hr as (Hk & Hl & Hr & Hnd). split; [lia|]. split; [now rewrite map_length|]. split.
  - intros v Hv. apply in_map_iff in Hv as [q [<- Hq]]. apply Hr in Hq. lia.
  - apply NoDup_map_inj; [|exact Hnd]. intros; lia.
Qed.
Lemma sample_list_spec {A} (d : A) pop k s es s' : NoDup pop -> gg_sample_list d pop k s = GGOk (es, s') ->
  0 <= k /\ length es = Z.to_nat k /\ (forall e, In e es -> In e pop) /\ NoDup es.
Proof.
  unfold gg_sample_list, gg_len. intros Hpop H. bind_inv H r Hr. destruct r as [ps s1]. inversion H; subst. cbn [fst snd].
  apply sample_pos_spec in Hr as (Hk & Hl & Hr & Hnd). split; [lia|]. split; [now rewrite map_length|]. split.
  - intros e He. apply in_map_iff in He as [q [<- Hq]]. apply Hr in Hq. apply nth_In. lia.
  - apply NoDup_map_inj; [|exact Hnd]. intros x y Hx Hy E. apply Hr in Hx. apply Hr in Hy.
    assert (Z.to_nat x = Z.to_nat y); [|lia].
    apply (proj1 (NoDup_nth pop d) Hpop); [lia|lia|exact E].
Qed.

(* ---------- bipartite_random_m_edges ---------- *)
Lemma me_sparse_count : forall n s L R rem G G' s', (length s <= n)%nat ->
  gg_me_sparse L R rem G s = GGOk (G', s') ->
  gg_nedges G' = gg_nedges G + Z.max 0 rem /\ io_kind G' = io_kind G /\ io_n G' = io_n G /\ io_r G' = io_r G.
Proof.
  induction n as [|n IH]; intros s L R rem G G' s' Hlen H.
  - destruct s; [|cbn in Hlen; lia]. cbn [gg_me_sparse] in H.
    destruct (rem <=? 0) eqn:E; [|discriminate]. inversion H; subst. repeat split; lia.
  - destruct s as [|u s]; cbn [gg_me_sparse] in H.
    + destruct (rem <=? 0) eqn:E; [|discriminate]. inversion H; subst. repeat split; lia.
    + destruct (rem <=? 0) eqn:E; [inversion H; subst; repeat split; lia|].
      destruct s as [|v t]; [discriminate|].
      destruct ((1 <=? u) && (u <=? L) && (1 <=? v) && (v <=? R)) eqn:Er; [|discriminate].
      cbn [length] in Hlen.
      destruct (gio_has_edge G u v) eqn:Eh.
      * apply IH in H; [exact H|lia].
      * bind_inv H G1 H1. apply gg_lift_ok in H1. apply (add_new_edge _ _ _ _ Eh) in H1 as (Hc & Hk & Hn & Hr).
        apply IH in H; [|lia]. destruct H as (Hc' & Hk' & Hn' & Hr'). repeat split; try congruence. lia.
Qed.

Theorem m_edges_exact : forall spec L R m s G s',
  gg_m_edges_gen spec L R m s = GGOk (G, s') -> spec = true \/ m <= L * R / 3 ->
  gg_nedges G = m /\ io_kind G = GioBipartite /\ io_n G = L /\ io_r G = R /\ 0 <= m <= L * R.
Proof.
  intros spec L R m s G s' H Hb. unfold gg_m_edges_gen in H.
  destruct ((L <? 1) || (R <? 1) || (m <? 0) || (L * R <? m)) eqn:Eg; [discriminate|].
  bind_inv H G0 H0. apply gg_lift_ok in H0. apply new_inv in H0 as (HL & HR & ->).
  destruct (L * R / 3 <? m) eqn:Ed.
  - destruct spec; [|destruct Hb as [Hb|Hb]; [discriminate|lia]].
    bind_inv H es Hes. destruct es as [es s1]. cbn [fst snd] in H.
    apply sample_list_spec in Hes as (Hk & Hl & Hin & Hnd); [|apply all_pairs_NoDup].
    unfold gg_add_edges in H. bind_inv H G1 H1. apply gg_lift_ok in H1. inversion H; subst.
    apply add_edges_inv in H1 as [_ ->]. cbn [io_kind gio_with_edges io_n io_r io_edges].
    repeat split; try lia. unfold gg_nedges, gg_len. cbn [io_edges gio_with_edges].
    rewrite insert_all_length.
    + rewrite map_length, Hl. cbn. lia.
    + cbn [edge_norm]. rewrite map_id. exact Hnd.
    + intros e _ [].
  - apply (me_sparse_count (length s)) in H; [|lia]. cbn [io_kind io_n io_r] in H. destruct H as (Hc & Hk & Hn & Hr).
    repeat split; try assumption; try lia. rewrite Hc. unfold gg_nedges, gg_len. cbn. lia.
Qed.

Lemma m_edges_as_is_refuted : exists L R m s, 0 <= m <= L * R /\ 1 <= L /\ 1 <= R /\
  gg_m_edges_as_found L R m s = GGRaise ETypeError.
Proof. exists 3, 3, 8, []. vm_compute. repeat split; congruence. Qed.

(* ---------- sorting ---------- *)
Lemma sort_insert_perm {A} (ltb : A -> A -> bool) x l : Permutation (gio_sort_insert ltb x l) (x :: l).
Proof.
  induction l as [|y t IH]; cbn [gio_sort_insert]; [reflexivity|].
  destruct (ltb x y); [reflexivity|]. rewrite IH. apply perm_swap.
Qed.
Lemma sort_perm {A} (ltb : A -> A -> bool) l : Permutation (gio_sort ltb l) l.
Proof.
  unfold gio_sort. induction l as [|x t IH]; cbn [fold_right]; [reflexivity|].
  rewrite sort_insert_perm. now constructor.
Qed.
Lemma sort_In {A} (ltb : A -> A -> bool) l x : In x (gio_sort ltb l) <-> In x l.
Proof. split; apply Permutation_in; [apply sort_perm|symmetry; apply sort_perm]. Qed.
Lemma sort_NoDup {A} (ltb : A -> A -> bool) l : NoDup l -> NoDup (gio_sort ltb l).
Proof. intros H. eapply Permutation_NoDup; [symmetry; apply sort_perm|exact H]. Qed.
Lemma sort_length {A} (ltb : A -> A -> bool) l : length (gio_sort ltb l) = length l.
Proof. apply Permutation_length, sort_perm. Qed.

(* ---------- degrees ---------- *)
Definition ldeg (G : iograph) (u : Z) : nat := length (gio_succs G u).
Definition rdeg (G : iograph) (v : Z) : nat := length (gio_preds G v).
Lemma ldeg_filter G u : ldeg G u = length (filter (fun e => fst e =? u) (io_edges G)).
Proof. unfold ldeg, gio_succs. apply map_length. Qed.
Lemma rdeg_filter G v : rdeg G v = length (filter (fun e => snd e =? v) (io_edges G)).
Proof. unfold rdeg, gio_preds. apply map_length. Qed.

Lemma filter_none {A} (p : A -> bool) l : (forall x, In x l -> p x = false) -> filter p l = [].
Proof.
  induction l as [|x t IH]; intros H; cbn; [reflexivity|].
  rewrite (H x (or_introl eq_refl)). apply IH. intros y Hy. apply H. now right.
Qed.
Lemma filter_all {A} (p : A -> bool) l : (forall x, In x l -> p x = true) -> filter p l = l.
Proof.
  induction l as [|x t IH]; intros H; cbn; [reflexivity|].
  rewrite (H x (or_introl eq_refl)). f_equal. apply IH. intros y Hy. apply H. now right.
Qed.
Lemma filter_length_zero {A} (p : A -> bool) l x : length (filter p l) = 0%nat -> In x l -> p x = false.
Proof.
  induction l as [|y t IH]; intros H Hin; [destruct Hin|]. cbn in H. destruct (p y) eqn:E; [discriminate|].
  destruct Hin as [<-|Hin]; [exact E|auto].
Qed.

(* all edges (u, v), v in vs, added to a bipartite graph in which u has no neighbour *)
Lemma add_left_star G u vs G' : io_kind G = GioBipartite -> NoDup vs -> ldeg G u = 0%nat ->
  gio_add_edges G (map (fun v => (u, v)) vs) = GOk G' ->
  ldeg G' u = length vs /\ (forall u', u' <> u -> ldeg G' u' = ldeg G u') /\
  io_kind G' = GioBipartite /\ io_n G' = io_n G /\ io_r G' = io_r G.
Proof.
  intros Hk Hnd Hd H. apply add_edges_inv in H as [_ ->]. rewrite Hk. cbn [edge_norm]. rewrite map_id.
  assert (Hnd' : NoDup (map (fun v => (u, v)) vs)).
  { apply NoDup_map_inj; [|exact Hnd]. intros a b _ _ E. now inversion E. }
  assert (Hdis : forall e, In e (map (fun v => (u, v)) vs) -> ~ In e (io_edges G)).
  { intros e He Hin. apply in_map_iff in He as [v [<- _]]. rewrite ldeg_filter in Hd.
    apply (filter_length_zero _ _ _ Hd) in Hin. cbn in Hin. lia. }
  split; [|split; [|repeat split; assumption]].
  - rewrite ldeg_filter. cbn [io_edges gio_with_edges]. rewrite insert_all_count by assumption.
    rewrite <- ldeg_filter, Hd, filter_all, map_length; [lia|].
    intros e He. apply in_map_iff in He as [v [<- _]]. cbn. lia.
  - intros u' Hu. rewrite !ldeg_filter. cbn [io_edges gio_with_edges]. rewrite insert_all_count by assumption.
    rewrite filter_none; [reflexivity|]. intros e He. apply in_map_iff in He as [v [<- _]]. cbn. lia.
Qed.

(* ---------- bipartite_random_left_regular ---------- *)
Lemma lr_loop_deg : forall us r d G s G' s', NoDup us -> io_kind G = GioBipartite -> 0 <= d ->
  (forall u, In u us -> ldeg G u = 0%nat) ->
  gg_lr_loop us r d G s = GGOk (G', s') ->
  (forall u, In u us -> ldeg G' u = Z.to_nat d) /\ (forall u, ~ In u us -> ldeg G' u = ldeg G u) /\
  io_kind G' = GioBipartite /\ io_n G' = io_n G /\ io_r G' = io_r G.
Proof.
  induction us as [|u us IH]; intros r d G s G' s' Hnd Hk Hd H0 H; cbn [gg_lr_loop] in H.
  - inversion H; subst. repeat split; try assumption. intros u [].
  - inversion Hnd as [|x l Hu Hnd']; subst.
    bind_inv H vs Hvs. destruct vs as [vs s1]. cbn [fst snd] in H.
    apply sample_range1_spec in Hvs as (Hkk & Hl & Hr & Hndv).
    bind_inv H G1 H1. apply gg_lift_ok in H1.
    apply add_left_star in H1; [|exact Hk|now apply sort_NoDup|apply H0; now left].
    destruct H1 as (Hdu & Hoth & Hk1 & Hn1 & Hr1). rewrite sort_length in Hdu.
    apply IH in H; [|exact Hnd'|exact Hk1|exact Hd|].
    + destruct H as (Hin & Hout & Hk2 & Hn2 & Hr2). repeat split; try congruence.
      * intros x [<-|Hx]; [|now apply Hin]. rewrite Hout by exact Hu. lia.
      * intros x Hx. rewrite Hout by (intros Hc; apply Hx; now right). apply Hoth. intros E. apply Hx. now left.
    + intros x Hx. rewrite Hoth; [apply H0; now right|]. intros E. subst. contradiction.
Qed.

Theorem left_regular_degree : forall l r d s G s', gg_left_regular l r d s = GGOk (G, s') ->
  io_kind G = GioBipartite /\ io_n G = l /\ io_r G = r /\
  forall u, 1 <= u <= l -> Z.of_nat (length (gio_succs G u)) = Z.min r d.
Proof.
  intros l r d s G s' H. unfold gg_left_regular in H.
  destruct ((l <? 0) || (r <? 0) || (d <? 0)) eqn:E; [discriminate|].
  bind_inv H G0 H0. apply gg_lift_ok in H0. apply new_inv in H0 as (Hl & Hr & ->).
  apply lr_loop_deg in H; [|apply range1_NoDup|reflexivity|lia|reflexivity].
  destruct H as (Hin & _ & Hk & Hn & Hrr). cbn [io_n io_r] in *. repeat split; try assumption.
  intros u Hu. fold (ldeg G u). rewrite Hin by (now apply range1_In). lia.
Qed.

(* ---------- fixed graphs: edges added to the empty directed graph ---------- *)
Lemma build_directed n es : 0 <= n -> NoDup es -> (forall s t, In (s, t) es -> 1 <= s /\ s < t /\ t <= n) ->
  exists G, gg_bind (gg_lift (gio_new GioDirected [] n 0)) (fun G => gg_lift (gio_add_edges G es)) = GGOk G /\
            io_kind G = GioDirected /\ io_n G = n /\ io_r G = 0 /\ gg_nedges G = gg_len es /\ gio_is_dag G = true /\
            (forall e, In e (io_edges G) <-> In e es).
Proof.
  intros Hn Hnd Hb. rewrite new_ok by lia. cbn [gg_lift gg_bind].
  rewrite add_edges_ok.
  - cbn [gg_lift io_kind edge_norm io_edges]. rewrite map_id. eexists. split; [reflexivity|].
    cbn [io_kind io_n io_r gio_with_edges]. repeat split.
    + unfold gg_nedges, gg_len. cbn [io_edges gio_with_edges]. rewrite insert_all_length; [cbn; lia|exact Hnd|intros e _ []].
    + apply is_dag_spec. cbn [io_edges gio_with_edges]. intros u v Hin. apply insert_all_In in Hin as [Hin|[]]. apply Hb in Hin. lia.
    + cbn [io_edges gio_with_edges]. intros Hin. apply insert_all_In in Hin as [Hin|[]]. exact Hin.
    + cbn [io_edges gio_with_edges]. intros Hin. apply insert_all_In. now left.
  - apply Forall_forall. intros [s t] Hin. apply Hb in Hin. unfold edge_ok. cbn. lia.
Qed.

(* dag_path *)
Theorem dag_path_shape : forall len, 0 <= len -> exists G, gg_dag_path len = GGOk G /\
  io_kind G = GioDirected /\ io_n G = len + 1 /\ gg_nedges G = len /\ gio_is_dag G = true /\
  (forall u v, In (u, v) (io_edges G) <-> 1 <= u <= len /\ v = u + 1).
Proof.
  intros len Hl. unfold gg_dag_path. replace (len <? 0) with false by lia.
  destruct (build_directed (len + 1) (map (fun i => (i, i + 1)) (gt_range1 len))) as (G & HG & Hk & Hn & _ & Hm & Hd & He).
  - lia.
  - apply NoDup_map_inj; [|apply range1_NoDup]. intros a b _ _ E. now inversion E.
  - intros s t Hin. apply in_map_iff in Hin as [i [E Hi]]. inversion E; subst. apply range1_In in Hi. lia.
  - exists G. repeat split; try assumption.
    + rewrite Hm. unfold gg_len. rewrite map_length, range1_length. lia.
    + apply He in H. apply in_map_iff in H as [i [E Hi]]. inversion E; subst. apply range1_In in Hi. lia.
    + apply He in H. apply in_map_iff in H as [i [E Hi]]. inversion E; subst. apply range1_In in Hi. lia.
    + apply He in H. apply in_map_iff in H as [i [E Hi]]. now inversion E.
    + intros [Hu ->]. apply He. apply in_map_iff. exists u. split; [reflexivity|now apply range1_In].
Qed.

(* dag_complete_binary_tree *)
Lemma tree_edges_In : forall cnt src dest s t, In (s, t) (gg_tree_edges cnt src dest) ->
  dest <= t < dest + Z.of_nat cnt /\ (s = src + 2 * (t - dest) \/ s = src + 2 * (t - dest) + 1).
Proof.
  induction cnt as [|c IH]; intros src dest s t Hin; [destruct Hin|].
  cbn [gg_tree_edges] in Hin. destruct Hin as [E|[E|Hin]]; try (inversion E; subst; lia).
  apply IH in Hin. lia.
Qed.
Lemma tree_edges_NoDup : forall cnt src dest, NoDup (gg_tree_edges cnt src dest).
Proof.
  induction cnt as [|c IH]; intros src dest; cbn [gg_tree_edges]; [constructor|].
  constructor; [|constructor; [|apply IH]].
  - intros [E|Hin]; [inversion E; lia|]. apply tree_edges_In in Hin. lia.
  - intros Hin. apply tree_edges_In in Hin. lia.
Qed.
Lemma tree_edges_length : forall cnt src dest, length (gg_tree_edges cnt src dest) = (2 * cnt)%nat.
Proof. induction cnt as [|c IH]; intros; cbn [gg_tree_edges length]; [reflexivity|]. rewrite IH. lia. Qed.

Theorem dag_tree_shape : forall h, 0 <= h -> exists G, gg_dag_tree h = GGOk G /\
  io_kind G = GioDirected /\ io_n G = 2 ^ (h + 1) - 1 /\ gg_nedges G = 2 ^ (h + 1) - 2 /\ gio_is_dag G = true.
Proof.
  intros h Hh. unfold gg_dag_tree. replace (h <? 0) with false by lia.
  assert (Hp : 1 <= 2 ^ h) by (pose proof (Z.pow_pos_nonneg 2 h); lia).
  assert (Hs : 2 ^ (h + 1) = 2 * 2 ^ h) by (rewrite Z.pow_add_r by lia; lia).
  set (p := 2 ^ h) in *. replace (2 * p / 2) with p by lia.
  destruct (build_directed (2 * p - 1) (gg_tree_edges (Z.to_nat (p - 1)) 1 (p + 1))) as (G & HG & Hk & Hn & _ & Hm & Hd & _).
  - lia.
  - apply tree_edges_NoDup.
  - intros s t Hin. apply tree_edges_In in Hin. lia.
  - exists G. repeat split; try assumption; try lia.
    rewrite Hm. unfold gg_len. rewrite tree_edges_length. lia.
Qed.

(* dag_pyramid *)
Fixpoint tri (w : nat) : Z := match w with O => 0 | S w' => tri w' + Z.of_nat (S w') end.
Lemma tri_closed w : 2 * tri w = Z.of_nat w * (Z.of_nat w + 1).
Proof. induction w as [|w IH]; [reflexivity|]. cbn [tri]. rewrite Z.mul_add_distr_l, IH. lia. Qed.
Lemma tri_nonneg w : 0 <= tri w.
Proof. induction w as [|w IH]; cbn [tri]; lia. Qed.

Lemma pyr_row_In : forall w src dest s t, In (s, t) (gg_pyr_row w src dest) ->
  dest <= t < dest + Z.of_nat w /\ (s = src + (t - dest) \/ s = src + (t - dest) + 1).
Proof.
  induction w as [|w IH]; intros src dest s t Hin; [destruct Hin|].
  cbn [gg_pyr_row] in Hin. destruct Hin as [E|[E|Hin]]; try (inversion E; subst; lia).
  apply IH in Hin. lia.
Qed.
Lemma pyr_row_NoDup : forall w src dest, NoDup (gg_pyr_row w src dest).
Proof.
  induction w as [|w IH]; intros src dest; cbn [gg_pyr_row]; [constructor|].
  constructor; [|constructor; [|apply IH]].
  - intros [E|Hin]; [inversion E; lia|]. apply pyr_row_In in Hin. lia.
  - intros Hin. apply pyr_row_In in Hin. lia.
Qed.
Lemma pyr_row_length : forall w src dest, length (gg_pyr_row w src dest) = (2 * w)%nat.
Proof. induction w as [|w IH]; intros; cbn [gg_pyr_row length]; [reflexivity|]. rewrite IH. lia. Qed.

(* rows of width w, ..., 1 starting at vertex src whose destinations start at dest = src + w + 1 *)
Lemma pyr_rows_In : forall w src dest s t, dest = src + Z.of_nat w + 1 -> In (s, t) (gg_pyr_rows w src dest) ->
  src <= s /\ s < t /\ dest <= t < dest + tri w.
Proof.
  induction w as [|w IH]; intros src dest s t Hd Hin; [destruct Hin|].
  cbn [gg_pyr_rows] in Hin. apply in_app_or in Hin as [Hin|Hin].
  - apply pyr_row_In in Hin. pose proof (tri_nonneg w). cbn [tri]. lia.
  - apply IH in Hin; [|lia]. cbn [tri]. lia.
Qed.
Lemma pyr_rows_NoDup : forall w src dest, dest = src + Z.of_nat w + 1 -> NoDup (gg_pyr_rows w src dest).
Proof.
  induction w as [|w IH]; intros src dest Hd; cbn [gg_pyr_rows]; [constructor|].
  apply NoDup_app_intro; [apply pyr_row_NoDup|apply IH; lia|].
  intros [s t] H1 H2. apply pyr_row_In in H1. apply pyr_rows_In in H2; lia.
Qed.
Lemma pyr_rows_length : forall w src dest, gg_len (gg_pyr_rows w src dest) = 2 * tri w.
Proof.
  unfold gg_len. induction w as [|w IH]; intros; cbn [gg_pyr_rows]; [reflexivity|].
  rewrite app_length, Nat2Z.inj_add, IH, pyr_row_length. cbn [tri]. lia.
Qed.

Theorem dag_pyramid_shape : forall h, 0 <= h -> exists G, gg_dag_pyramid h = GGOk G /\
  io_kind G = GioDirected /\ io_n G = (h + 1) * (h + 2) / 2 /\ gg_nedges G = h * (h + 1) /\ gio_is_dag G = true.
Proof.
  intros h Hh. unfold gg_dag_pyramid. replace (h <? 0) with false by lia.
  pose proof (tri_closed (Z.to_nat h)) as Ht. rewrite Z2Nat.id in Ht by lia.
  assert (Hn : (h + 1) * (h + 2) / 2 = tri (Z.to_nat h) + h + 1).
  { replace ((h + 1) * (h + 2)) with (h * (h + 1) + 2 * (h + 1)) by ring. rewrite <- Ht. lia. }
  rewrite Hn. pose proof (tri_nonneg (Z.to_nat h)) as Hp.
  destruct (build_directed (tri (Z.to_nat h) + h + 1) (gg_pyr_rows (Z.to_nat h) 1 (h + 2))) as (G & HG & Hk & Hnn & _ & Hm & Hd & _).
  - lia.
  - apply pyr_rows_NoDup. lia.
  - intros s t Hin. apply pyr_rows_In in Hin; lia.
  - exists G. repeat split; try assumption. rewrite Hm, pyr_rows_length. lia.
Qed.

Lemma dag_negative_refused : forall h, h < 0 ->
  gg_dag_path h = GGRaise EValueError /\ gg_dag_tree h = GGRaise EValueError /\ gg_dag_pyramid h = GGRaise EValueError.
Proof. intros h Hh. unfold gg_dag_path, gg_dag_tree, gg_dag_pyramid. replace (h <? 0) with true by lia. auto. Qed.

Lemma m_edges_spec_exact : forall L R m s G s',
  gg_m_edges L R m s = GGOk (G, s') ->
  gg_nedges G = m /\ io_kind G = GioBipartite /\ io_n G = L /\ io_r G = R /\ 0 <= m <= L * R.
Proof. intros L R m s G s' H. exact (m_edges_exact true L R m s G s' H (or_introl eq_refl)). Qed.
Lemma m_edges_sparse_exact : forall L R m s G s',
  gg_m_edges_as_found L R m s = GGOk (G, s') -> m <= L * R / 3 ->
  gg_nedges G = m /\ io_kind G = GioBipartite /\ io_n G = L /\ io_r G = R /\ 0 <= m <= L * R.
Proof. intros L R m s G s' H Hm. exact (m_edges_exact false L R m s G s' H (or_intror Hm)). Qed.

(* ---------- bipartite_shift ---------- *)
Lemma shift_edges_In N M pat u v : In (u, v) (gg_shift_edges N M pat) <->
  1 <= u <= N /\ exists o, In o pat /\ v = 1 + (u - 1 + o) mod M.
Proof.
  unfold gg_shift_edges. rewrite in_flat_map. split.
  - intros [x [Hx Hin]]. apply in_map_iff in Hin as [o [E Ho]]. inversion E; subst. apply range1_In in Hx. eauto.
  - intros [Hu [o [Ho ->]]]. exists u. split; [now apply range1_In|]. apply in_map_iff. eauto.
Qed.

Theorem shift_named : forall b N M pat G p', gg_shift_gen b N M pat = GGOk (G, p') ->
  io_kind G = GioBipartite /\ io_n G = N /\ io_r G = M /\ 1 <= N /\ 1 <= M /\
  (forall u v, gio_has_edge G u v = true <-> 1 <= u <= N /\ exists o, In o pat /\ v = 1 + (u - 1 + o) mod M) /\
  p' = (if b then gio_sort Z.ltb pat else pat).
Proof.
  intros b N M pat G p' H. unfold gg_shift_gen in H.
  destruct ((N <? 1) || (M <? 1)) eqn:E; [discriminate|].
  bind_inv H G0 H0. apply gg_lift_ok in H0. apply new_inv in H0 as (_ & _ & ->).
  bind_inv H G1 H1. apply gg_lift_ok in H1. inversion H; subst. apply add_edges_inv in H1 as [_ ->].
  cbn [io_kind io_n io_r gio_with_edges].
  split; [reflexivity|]. split; [reflexivity|]. split; [reflexivity|]. split; [lia|]. split; [lia|]. split; [|reflexivity].
  intros u v. rewrite has_edge_In. cbn [io_kind gio_with_edges edge_norm io_edges]. rewrite map_id, insert_all_In, shift_edges_In.
  split.
  - intros [[Hu [o [Ho Hv]]]|[]]. split; [exact Hu|]. exists o. split; [now apply sort_In in Ho|exact Hv].
  - intros [Hu [o [Ho Hv]]]. left. split; [exact Hu|]. exists o. split; [now apply sort_In|exact Hv].
Qed.

Theorem shift_returns : forall b N M pat, 1 <= N -> 1 <= M -> exists G p', gg_shift_gen b N M pat = GGOk (G, p').
Proof.
  intros b N M pat HN HM. unfold gg_shift_gen. replace ((N <? 1) || (M <? 1)) with false by lia.
  rewrite new_ok by lia. cbn [gg_lift gg_bind]. rewrite add_edges_ok; [cbn [gg_lift gg_bind]; eauto|].
  apply Forall_forall. intros [u v] Hin. apply shift_edges_In in Hin as [Hu [o [_ ->]]].
  unfold edge_ok. cbn [io_kind io_n io_r fst snd]. pose proof (Z.mod_pos_bound (u - 1 + o) M). lia.
Qed.

Lemma shift_spec_keeps_pattern : forall N M pat G p', gg_shift N M pat = GGOk (G, p') -> p' = pat.
Proof. intros N M pat G p' H. apply shift_named in H. tauto. Qed.
Lemma shift_as_is_changes_pattern : exists N M pat G p', gg_shift_as_found N M pat = GGOk (G, p') /\ p' <> pat.
Proof. exists 4, 4, [3; 1]. eexists. eexists. split; [vm_compute; reflexivity|]. intros E. discriminate. Qed.

(* ---------- guards imply the precondition of what is called next ---------- *)
Lemma guard_gnd_refuted : exists n d, gg_guard_gnd_as_found [n; d] = true /\ ~ gg_pre_nx_random_regular d n.
Proof. exists 4, 4. split; [reflexivity|]. unfold gg_pre_nx_random_regular. lia. Qed.
Lemma guard_gnd_partial : forall args, gg_guard_gnd_as_found args = true ->
  exists n d, args = [n; d] /\ (d < n -> gg_pre_nx_random_regular d n).
Proof.
  intros args H. destruct args as [|n [|d [|x t]]]; try discriminate. exists n, d. split; [reflexivity|].
  unfold gg_guard_gnd_as_found in H. unfold gg_pre_nx_random_regular. lia.
Qed.
Lemma guard_gnd_spec_pre : forall args, gg_guard_gnd args = true ->
  exists n d, args = [n; d] /\ gg_pre_nx_random_regular d n.
Proof.
  intros args H. destruct args as [|n [|d [|x t]]]; try discriminate. exists n, d. split; [reflexivity|].
  unfold gg_guard_gnd in H. unfold gg_pre_nx_random_regular. lia.
Qed.
Lemma guard_gnm_pre : forall args, gg_guard_gnm args = true -> exists n m, args = [n; m] /\ gg_pre_nx_gnm n m.
Proof.
  intros args H. destruct args as [|n [|m [|x t]]]; try discriminate. exists n, m. split; [reflexivity|].
  unfold gg_guard_gnm in H. unfold gg_pre_nx_gnm. lia.
Qed.
Lemma guard_grid_pre : forall dims, gg_guard_grid_as_found dims = true -> gg_pre_nx_grid dims.
Proof.
  intros dims H. unfold gg_guard_grid_as_found in H. unfold gg_pre_nx_grid. apply Forall_forall. intros d Hd.
  rewrite forallb_forall in H. specialize (H d Hd). lia.
Qed.
Lemma guard_complete_simple_pre : forall args, gg_guard_complete_simple args = true ->
  (exists n, args = [n] /\ 0 < n) \/ (exists n b, args = [n; b] /\ gg_pre_nx_multipartite n b).
Proof.
  intros args H. destruct args as [|n [|b [|x t]]]; try discriminate; unfold gg_guard_complete_simple in H.
  - left. exists n. split; [reflexivity|lia].
  - right. exists n, b. split; [reflexivity|]. unfold gg_pre_nx_multipartite. lia.
Qed.
Lemma guard_glrm_pre : forall args, gg_guard_glrm args = true -> exists l r m, args = [l; r; m] /\ gg_pre_m_edges l r m.
Proof.
  intros args H. destruct args as [|l [|r [|m [|x t]]]]; try discriminate. exists l, r, m. split; [reflexivity|].
  unfold gg_guard_glrm in H. unfold gg_pre_m_edges. lia.
Qed.
Lemma guard_glrd_pre : forall args, gg_guard_glrd args = true -> exists l r d, args = [l; r; d] /\ gg_pre_left_regular l r d.
Proof.
  intros args H. destruct args as [|l [|r [|d [|x t]]]]; try discriminate. exists l, r, d. split; [reflexivity|].
  unfold gg_guard_glrd in H. unfold gg_pre_left_regular. lia.
Qed.
Lemma guard_regular_pre : forall args, gg_guard_regular args = true ->
  exists l r d, args = [l; r; d] /\ gg_pre_random_regular l r d /\ d <= r.
Proof.
  intros args H. destruct args as [|l [|r [|d [|x t]]]]; try discriminate. exists l, r, d. split; [reflexivity|].
  unfold gg_guard_regular in H. unfold gg_pre_random_regular. rewrite (Z.mul_comm l d). lia.
Qed.
Lemma guard_shift_pre : forall values, gg_guard_shift values = true ->
  exists L R pat, values = L :: R :: pat /\ gg_pre_shift L R (gio_sort Z.ltb pat) /\ (forall x, In x pat -> 0 <= x <= R).
Proof.
  intros values H. destruct values as [|L [|R pat]]; try discriminate. exists L, R, pat. split; [reflexivity|].
  unfold gg_guard_shift in H. unfold gg_pre_shift.
  destruct (existsb (fun x => (x <? 0) || (R <? x)) pat) eqn:E; [lia|]. split; [lia|].
  intros x Hx. destruct ((x <? 0) || (R <? x)) eqn:Ex; [|lia].
  assert (existsb (fun x => (x <? 0) || (R <? x)) pat = true) by (apply existsb_exists; eauto). congruence.
Qed.
Lemma guard_two_positive_pre : forall args, gg_guard_two_positive args = true -> exists l r, args = [l; r] /\ gg_pre_orders l r /\ 0 < l /\ 0 < r.
Proof.
  intros args H. destruct args as [|l [|r [|x t]]]; try discriminate. exists l, r. split; [reflexivity|].
  unfold gg_guard_two_positive in H. unfold gg_pre_orders. lia.
Qed.
Lemma guard_one_nonneg_pre : forall args, gg_guard_one_nonneg args = true -> exists h, args = [h] /\ gg_pre_height h.
Proof.
  intros args H. destruct args as [|h [|x t]]; try discriminate. exists h. split; [reflexivity|].
  unfold gg_guard_one_nonneg in H. unfold gg_pre_height. lia.
Qed.
(* plantclique: the guard and the test against the order of the graph give the precondition of random.sample *)
Lemma guard_plantclique_pre : forall args n, gg_guard_one_nonneg args = true ->
  exists k, args = [k] /\ ((n <? k) = false -> gg_pre_sample n k).
Proof.
  intros args n H. apply guard_one_nonneg_pre in H as [k [-> Hk]]. exists k. split; [reflexivity|].
  unfold gg_pre_height in Hk. unfold gg_pre_sample. lia.
Qed.
Lemma guard_plantbiclique_pre : forall args L R, gg_guard_two_nonneg args = true ->
  exists a b, args = [a; b] /\ ((L <? a) || (R <? b) = false -> gg_pre_sample L a /\ gg_pre_sample R b).
Proof.
  intros args L R H. destruct args as [|a [|b [|x t]]]; try discriminate. exists a, b. split; [reflexivity|].
  unfold gg_guard_two_nonneg in H. unfold gg_pre_sample. lia.
Qed.

(* path, tree, pyramid on the command line: a graph or a refusal, never anything else *)
Lemma obtain_dag_total : forall which args,
  (exists G, gg_obtain_dag which args = GGOk G /\ gio_is_dag G = true) \/ gg_obtain_dag which args = GGRaise EValueError.
Proof.
  intros which args. unfold gg_obtain_dag. destruct args as [|h [|x t]]; auto.
  destruct (gg_guard_one_nonneg [h]) eqn:E; [|auto]. left.
  assert (Hh : 0 <= h) by (unfold gg_guard_one_nonneg in E; lia).
  destruct (which =? 0); [|destruct (which =? 1)].
  - destruct (dag_path_shape h Hh) as (G & HG & _ & _ & _ & Hd & _). eauto.
  - destruct (dag_tree_shape h Hh) as (G & HG & _ & _ & _ & Hd). eauto.
  - destruct (dag_pyramid_shape h Hh) as (G & HG & _ & _ & _ & Hd). eauto.
Qed.

(* ---------- combinations(l, 2) ---------- *)
Lemma pairs_In {A} (l : list A) x y : In (x, y) (pairs l) -> In x l /\ In y l.
Proof.
  induction l as [|a t IH]; cbn [pairs]; [intros []|]. intros H. apply in_app_or in H as [H|H].
  - apply in_map_iff in H as [b [E Hb]]. inversion E; subst. split; [now left|now right].
  - apply IH in H. split; right; tauto.
Qed.
Lemma pairs_complete {A} (l : list A) x y : In x l -> In y l -> x <> y -> In (x, y) (pairs l) \/ In (y, x) (pairs l).
Proof.
  induction l as [|a t IH]; intros Hx Hy Hn; [destruct Hx|]. cbn [pairs].
  destruct Hx as [->|Hx], Hy as [->|Hy].
  - contradiction.
  - left. apply in_or_app. left. apply in_map_iff. eauto.
  - right. apply in_or_app. left. apply in_map_iff. eauto.
  - destruct (IH Hx Hy Hn) as [H|H]; [left|right]; apply in_or_app; now right.
Qed.
Lemma pairs_NoDup {A} (l : list A) : NoDup l -> NoDup (pairs l).
Proof.
  induction 1 as [|a t Ha Hnd IH]; cbn [pairs]; [constructor|].
  apply NoDup_app_intro; [|exact IH|].
  - apply NoDup_map_inj; [|exact Hnd]. intros x y _ _ E. now inversion E.
  - intros [x y] H1 H2. apply in_map_iff in H1 as [b [E _]]. inversion E; subst. apply pairs_In in H2. tauto.
Qed.
Lemma pairs_seq_lt : forall k a u v, In (u, v) (pairs (map Z.of_nat (seq a k))) -> Z.of_nat a <= u /\ u < v /\ v < Z.of_nat (a + k).
Proof.
  induction k as [|k IH]; intros a u v H; [destruct H|]. cbn [seq map pairs] in H. apply in_app_or in H as [H|H].
  - apply in_map_iff in H as [b [E Hb]]. inversion E; subst. apply in_map_iff in Hb as [j [<- Hj]]. apply in_seq in Hj. lia.
  - apply IH in H. lia.
Qed.
Lemma pairs_range1_lt n u v : In (u, v) (pairs (gt_range1 n)) -> 1 <= u /\ u < v /\ v <= n.
Proof. unfold gt_range1. intros H. apply pairs_seq_lt in H. lia. Qed.

(* ---------- plantclique / plantbiclique ---------- *)
Theorem plantclique_clique : forall G k s G' s', io_kind G = GioSimple -> gg_plantclique G k s = GGOk (G', s') ->
  exists c, length c = Z.to_nat k /\ NoDup c /\ 0 <= k <= io_n G /\ (forall v, In v c -> 1 <= v <= io_n G) /\
    (forall v w, In v c -> In w c -> v <> w -> gio_has_edge G' v w = true) /\
    (forall e, In e (io_edges G) -> In e (io_edges G')) /\
    (forall e, In e (io_edges G') -> In e (io_edges G) \/ (In (fst e) c /\ In (snd e) c)) /\
    io_kind G' = GioSimple /\ io_n G' = io_n G.
Proof.
  intros G k s G' s' Hk H. unfold gg_plantclique in H. destruct (io_n G <? k) eqn:E; [discriminate|].
  bind_inv H c Hc. destruct c as [c s1]. cbn [fst snd] in H. apply sample_range1_spec in Hc as (Hkk & Hl & Hr & Hnd).
  unfold gg_add_edges in H. bind_inv H G1 H1. apply gg_lift_ok in H1. inversion H; subst.
  exists c. split; [exact Hl|]. split; [exact Hnd|]. split; [lia|]. split; [exact Hr|].
  pose proof (add_edges_keeps _ _ _ H1) as (Hk1 & Hn1 & _ & Hsub).
  apply add_edges_inv in H1 as [_ HG]. rewrite Hk in HG.
  split; [|split; [exact Hsub|split; [|split; [congruence|exact Hn1]]]].
  - intros v w Hv Hw Hvw. apply has_edge_In. rewrite Hk1, Hk, HG. cbn [io_edges gio_with_edges].
    apply insert_all_In. left. apply in_map_iff.
    destruct (pairs_complete c v w Hv Hw Hvw) as [Hp|Hp].
    + exists (v, w). split; [reflexivity|exact Hp].
    + exists (w, v). split; [|exact Hp]. unfold edge_norm. cbn [fst snd]. f_equal; lia.
  - intros e He. rewrite HG in He. cbn [io_edges gio_with_edges] in He. apply insert_all_In in He as [He|He]; [right|now left].
    apply in_map_iff in He as [[a b] [<- Hab]]. apply pairs_In in Hab. unfold edge_norm. cbn [fst snd].
    destruct (Z.min_spec a b) as [[_ ->]|[_ ->]], (Z.max_spec a b) as [[_ ->]|[_ ->]]; tauto.
Qed.

Theorem plantbiclique_biclique : forall G a b s G' s', io_kind G = GioBipartite -> gg_plantbiclique G a b s = GGOk (G', s') ->
  exists lf rt, length lf = Z.to_nat a /\ length rt = Z.to_nat b /\ NoDup lf /\ NoDup rt /\
    (forall u, In u lf -> 1 <= u <= io_n G) /\ (forall v, In v rt -> 1 <= v <= io_r G) /\
    (forall u v, In u lf -> In v rt -> gio_has_edge G' u v = true) /\
    (forall e, In e (io_edges G) -> In e (io_edges G')) /\
    (forall e, In e (io_edges G') -> In e (io_edges G) \/ (In (fst e) lf /\ In (snd e) rt)) /\
    io_kind G' = GioBipartite /\ io_n G' = io_n G /\ io_r G' = io_r G.
Proof.
  intros G a b s G' s' Hk H. unfold gg_plantbiclique in H. destruct ((io_n G <? a) || (io_r G <? b)) eqn:E; [discriminate|].
  bind_inv H lf Hlf. destruct lf as [lf s1]. cbn [fst snd] in H. apply sample_range1_spec in Hlf as (_ & Hl1 & Hr1 & Hnd1).
  bind_inv H rt Hrt. destruct rt as [rt s2]. cbn [fst snd] in H. apply sample_range1_spec in Hrt as (_ & Hl2 & Hr2 & Hnd2).
  unfold gg_add_edges in H. bind_inv H G1 H1. apply gg_lift_ok in H1. inversion H; subst.
  exists lf, rt. repeat (split; [assumption|]).
  pose proof (add_edges_keeps _ _ _ H1) as (Hk1 & Hn1 & Hrr1 & Hsub).
  apply add_edges_inv in H1 as [_ HG]. rewrite Hk in HG. cbn [edge_norm] in HG. rewrite map_id in HG.
  split; [|split; [exact Hsub|split; [|split; [congruence|split; assumption]]]].
  - intros u v Hu Hv. apply has_edge_In. rewrite Hk1, Hk, HG. cbn [io_edges gio_with_edges edge_norm].
    apply insert_all_In. left. apply in_flat_map. exists u. split; [exact Hu|]. apply in_map_iff. eauto.
  - intros e He. rewrite HG in He. cbn [io_edges gio_with_edges] in He. apply insert_all_In in He as [He|He]; [right|now left].
    apply in_flat_map in He as [u [Hu He]]. apply in_map_iff in He as [v [<- Hv]]. cbn. tauto.
Qed.

(* ---------- add_random_missing_edges ---------- *)
Definition same_frame (G G' : iograph) : Prop :=
  io_kind G' = io_kind G /\ io_n G' = io_n G /\ io_r G' = io_r G /\ (forall e, In e (io_edges G) -> In e (io_edges G')).
Lemma same_frame_refl G : same_frame G G.
Proof. unfold same_frame. auto. Qed.
Lemma same_frame_trans G1 G2 G3 : same_frame G1 G2 -> same_frame G2 G3 -> same_frame G1 G3.
Proof. unfold same_frame. intros (a & b & c & d) (a' & b' & c' & d'). repeat split; try congruence. auto. Qed.

Lemma ae_loop_spec : forall n s cnt goal G G' s', (length s <= n)%nat ->
  gg_ae_loop cnt goal G s = GGOk (G', s') -> gg_nedges G <= goal ->
  gg_nedges G <= gg_nedges G' <= goal /\ same_frame G G'.
Proof.
  induction n as [|n IH]; intros s cnt goal G G' s' Hlen H Hg.
  - destruct s; [|cbn in Hlen; lia]. cbn [gg_ae_loop] in H.
    destruct (cnt <=? 0); [inversion H; subst; split; [lia|apply same_frame_refl]|].
    destruct (goal <=? gg_nedges G); [inversion H; subst; split; [lia|apply same_frame_refl]|].
    destruct (gg_ae_pop_small G); discriminate.
  - destruct s as [|a s]; cbn [gg_ae_loop] in H.
    + destruct (cnt <=? 0); [inversion H; subst; split; [lia|apply same_frame_refl]|].
      destruct (goal <=? gg_nedges G); [inversion H; subst; split; [lia|apply same_frame_refl]|].
      destruct (gg_ae_pop_small G); discriminate.
    + destruct (cnt <=? 0); [inversion H; subst; split; [lia|apply same_frame_refl]|].
      destruct (goal <=? gg_nedges G) eqn:Eg; [inversion H; subst; split; [lia|apply same_frame_refl]|].
      destruct (gg_ae_pop_small G); [discriminate|].
      destruct s as [|b t]; [discriminate|]. cbn [length] in Hlen.
      destruct (gg_ae_pick G a b) as [[u v]|]; [|discriminate].
      destruct (gio_has_edge G u v) eqn:Eh.
      * apply IH in H; [exact H|lia|exact Hg].
      * bind_inv H G1 H1. apply gg_lift_ok in H1.
        pose proof (add_new_edge _ _ _ _ Eh H1) as (Hc & _). pose proof (add_edge_keeps _ _ _ _ H1) as Hf.
        apply IH in H; [|lia|lia]. destruct H as [Hb Hf']. split; [lia|].
        eapply same_frame_trans; [|exact Hf']. exact Hf.
Qed.

Lemma candidates_NoDup G : NoDup (gg_candidates G).
Proof. unfold gg_candidates. destruct (io_kind G); try apply pairs_NoDup, range1_NoDup. apply all_pairs_NoDup. Qed.
(* on the candidate pairs add_edge stores the pair itself *)
Lemma candidates_norm G e : io_kind G <> GioDirected -> In e (gg_candidates G) -> edge_norm (io_kind G) e = e.
Proof.
  unfold gg_candidates, edge_norm. destruct (io_kind G); intros Hk Hin; try reflexivity.
  destruct e as [u v]. apply pairs_range1_lt in Hin. cbn [fst snd]. f_equal; lia.
Qed.

Theorem add_missing_exact : forall G m s G' s', io_kind G <> GioDirected -> gg_add_missing G m s = GGOk (G', s') ->
  gg_nedges G' = gg_nedges G + m /\ 0 <= m /\ same_frame G G'.
Proof.
  intros G m s G' s' Hk H. unfold gg_add_missing in H. destruct (m <? 0) eqn:Em; [discriminate|].
  destruct (gg_total2 G <? 2 * (gg_nedges G + m)) eqn:Et; [discriminate|].
  bind_inv H r Hr. destruct r as [G1 s1]. cbn [fst snd] in H.
  apply (ae_loop_spec (length s)) in Hr; [|lia|lia]. destruct Hr as [Hb Hf].
  destruct (gg_nedges G1 <? gg_nedges G + m) eqn:El.
  - bind_inv H es Hes. destruct es as [es s2]. cbn [fst snd] in H.
    apply sample_list_spec in Hes as (_ & Hl & Hin & Hnd); [|apply NoDup_filter, candidates_NoDup].
    unfold gg_add_edges in H. bind_inv H G2 H2. apply gg_lift_ok in H2. inversion H; subst.
    pose proof (add_edges_keeps _ _ _ H2) as Hf2. apply add_edges_inv in H2 as [_ HG].
    assert (Hk1 : io_kind G1 <> GioDirected) by (destruct Hf as (-> & _); exact Hk).
    assert (Hmap : map (edge_norm (io_kind G1)) es = es).
    { rewrite <- (map_id es) at 2. apply map_ext_in. intros e He. apply Hin in He. apply filter_In in He as [He _].
      now apply candidates_norm. }
    rewrite Hmap in HG. split; [|split; [lia|eapply same_frame_trans; [exact Hf|exact Hf2]]].
    rewrite HG. unfold gg_nedges, gg_len in *. cbn [io_edges gio_with_edges]. rewrite insert_all_length.
    + rewrite Hl. lia.
    + exact Hnd.
    + intros e He Hc. pose proof (Hin e He) as Hav. apply filter_In in Hav as [Hcand Hno].
      assert (gio_has_edge G1 (fst e) (snd e) = true); [|rewrite H0 in Hno; discriminate].
      apply has_edge_In. rewrite <- surjective_pairing. rewrite candidates_norm; assumption.
  - inversion H; subst. split; [lia|]. split; [lia|exact Hf].
Qed.

(* ---------- split_random_edges ---------- *)
Lemma filter_ssorted (p : Z * Z -> bool) l : ssorted l -> ssorted (filter p l).
Proof.
  induction 1 as [|x l Hs IH Hx]; cbn [filter]; [constructor|].
  destruct (p x); [|exact IH]. constructor; [exact IH|]. intros y Hy. apply filter_In in Hy as [Hy _]. auto.
Qed.
Lemma filter_remove_length (l : list (Z * Z)) e : NoDup l -> In e l ->
  S (length (filter (fun x => negb (gio_pair_eqb x e)) l)) = length l.
Proof.
  induction 1 as [|a t Ha Hnd IH]; intros Hin; [destruct Hin|]. cbn [filter length].
  destruct (gio_pair_eqb a e) eqn:E; cbn [negb].
  - apply pair_eqb_spec in E. subst a. f_equal. rewrite filter_all; [reflexivity|].
    intros y Hy. destruct (gio_pair_eqb y e) eqn:E2; [|reflexivity]. apply pair_eqb_spec in E2. subst. contradiction.
  - cbn [length]. f_equal. apply IH. destruct Hin as [->|Hin]; [|exact Hin]. rewrite pair_eqb_refl in E. discriminate.
Qed.
Lemma add_edge_wf G u v G' : gio_wf G -> gio_add_edge G u v = GOk G' -> gio_wf G'.
Proof.
  intros Hw H. apply (add_edges_wf G [(u, v)] G' Hw). cbn [gio_add_edges]. rewrite H. reflexivity.
Qed.
Lemma wf_stored G e : gio_wf G -> In e (io_edges G) -> edge_stored_ok G e.
Proof. intros (_ & _ & _ & _ & Hf) Hin. rewrite Forall_forall in Hf. auto. Qed.

Lemma split_step G u v x G1 G2 : gio_wf G -> io_kind G = GioSimple -> In (u, v) (io_edges G) ->
  (forall e, In e (io_edges G) -> snd e < x) ->
  gio_add_edge (gg_remove_edge G u v) u x = GOk G1 -> gio_add_edge G1 x v = GOk G2 ->
  gio_wf G2 /\ io_kind G2 = GioSimple /\ io_n G2 = io_n G /\ gg_nedges G2 = gg_nedges G + 1 /\
  (forall e, In e (io_edges G2) -> snd e < x + 1) /\
  (forall e, In e (io_edges G) -> e <> (u, v) -> In e (io_edges G2)).
Proof.
  intros Hw Hk Hin Hx H1 H2.
  pose proof (wf_stored G _ Hw Hin) as Hst. unfold edge_stored_ok in Hst. rewrite Hk in Hst. cbn [fst snd] in Hst.
  pose proof (Hx _ Hin) as Hvx. cbn [snd] in Hvx.
  assert (Hh : gio_has_edge G u v = true).
  { apply has_edge_In. rewrite Hk. unfold edge_norm. cbn [fst snd]. replace (Z.min u v) with u by lia. replace (Z.max u v) with v by lia. exact Hin. }
  unfold gg_remove_edge in H1. rewrite Hh in H1. replace (Z.min u v) with u in H1 by lia. replace (Z.max u v) with v in H1 by lia.
  set (es0 := filter (fun e => negb (gio_pair_eqb e (u, v))) (io_edges G)) in *.
  set (G0 := gio_with_edges G es0) in *.
  assert (Hsub0 : forall e, In e es0 -> In e (io_edges G)) by (intros e He; apply filter_In in He; tauto).
  assert (Hw0 : gio_wf G0).
  { destruct Hw as (a & b & c & d & f). unfold gio_wf, G0. cbn [gio_with_edges io_n io_r io_kind io_edges].
    repeat split; try assumption; [now apply filter_ssorted|].
    apply Forall_forall. intros e He. rewrite Forall_forall in f. apply (f e). now apply Hsub0. }
  pose proof (add_edge_wf _ _ _ _ Hw0 H1) as Hw1. pose proof (add_edge_wf _ _ _ _ Hw1 H2) as Hw2.
  apply add_edge_inv in H1 as [Hok1 HG1]. apply add_edge_inv in H2 as [Hok2 HG2]. subst G1.
  unfold G0 in HG2. cbn [io_kind io_edges gio_with_edges] in HG2. rewrite Hk in HG2.
  unfold edge_norm in HG2. cbn [fst snd] in HG2.
  replace (Z.min u x) with u in HG2 by lia. replace (Z.max u x) with x in HG2 by lia.
  replace (Z.min x v) with v in HG2 by lia. replace (Z.max x v) with x in HG2 by lia.
  assert (Hn0 : forall w, ~ In (w, x) es0).
  { intros w Hc. apply Hsub0, Hx in Hc. cbn [snd] in Hc. lia. }
  split; [exact Hw2|]. rewrite HG2. cbn [io_kind io_n gio_with_edges io_edges].
  split; [exact Hk|]. split; [reflexivity|]. split; [|split].
  - unfold gg_nedges, gg_len. cbn [io_edges gio_with_edges].
    rewrite insert_length_new.
    + rewrite insert_length_new by apply Hn0.
      pose proof (filter_remove_length (io_edges G) (u, v) (ssorted_NoDup _ (proj1 (proj2 (proj2 (proj2 Hw))))) Hin) as Hlen.
      fold es0 in Hlen. lia.
    + intros Hc. apply insert_In in Hc as [Hc|Hc]; [inversion Hc; lia|]. now apply Hn0 in Hc.
  - intros e He. apply insert_In in He as [->|He]; [cbn; lia|]. apply insert_In in He as [->|He]; [cbn; lia|].
    apply Hsub0, Hx in He. lia.
  - intros e He Hne. apply insert_In. right. apply insert_In. right. apply filter_In. split; [exact He|].
    destruct (gio_pair_eqb e (u, v)) eqn:E; [|reflexivity]. apply pair_eqb_spec in E. contradiction.
Qed.

Lemma split_loop_spec : forall es G x G', gio_wf G -> io_kind G = GioSimple -> NoDup es ->
  (forall e, In e es -> In e (io_edges G)) -> (forall e, In e (io_edges G) -> snd e < x) ->
  gg_split_loop G x es = GGOk G' ->
  gio_wf G' /\ io_kind G' = GioSimple /\ io_n G' = io_n G /\ gg_nedges G' = gg_nedges G + gg_len es.
Proof.
  induction es as [|[u v] t IH]; intros G x G' Hw Hk Hnd Hin Hx H; cbn [gg_split_loop] in H.
  - inversion H; subst. split; [exact Hw|]. split; [exact Hk|]. split; [reflexivity|]. unfold gg_len. cbn [length]. lia.
  - bind_inv H G1 H1. apply gg_lift_ok in H1. bind_inv H G2 H2. apply gg_lift_ok in H2.
    inversion Hnd as [|a l Hnot Hnd']; subst.
    destruct (split_step G u v x G1 G2 Hw Hk (Hin _ (or_introl eq_refl)) Hx H1 H2) as (Hw2 & Hk2 & Hn2 & Hm2 & Hx2 & Hkeep).
    apply IH in H; [|exact Hw2|exact Hk2|exact Hnd'| |exact Hx2].
    + destruct H as (Hw' & Hk' & Hn' & Hm'). split; [exact Hw'|]. split; [exact Hk'|]. split; [congruence|].
      rewrite Hm', Hm2. unfold gg_len. cbn [length]. lia.
    + intros e He. apply Hkeep; [apply Hin; now right|]. intros ->. contradiction.
Qed.

Theorem split_exact : forall G k s G' s', gio_wf G -> gg_split_edges G k s = GGOk (G', s') ->
  io_kind G = GioSimple /\ io_kind G' = GioSimple /\ 0 <= k /\
  io_n G' = io_n G + k /\ gg_nedges G' = gg_nedges G + k /\ gio_wf G'.
Proof.
  intros G k s G' s' Hw H. unfold gg_split_edges in H. destruct (io_kind G) eqn:Hk; try discriminate.
  destruct (k <? 0) eqn:Ek; [discriminate|]. destruct (gg_nedges G <? k) eqn:Em; [discriminate|].
  bind_inv H ts Hts. destruct ts as [ts s1]. cbn [fst snd] in H.
  pose proof Hw as (Hn & Hr & Hkr & Hs & Hf).
  apply sample_list_spec in Hts as (_ & Hl & Hin & Hnd); [|now apply ssorted_NoDup].
  bind_inv H G0 H0. unfold gg_update_vertex_number in H0. destruct (io_n G + k <? 0); [discriminate|]. inversion H0; subst G0. clear H0.
  bind_inv H G1 H1. inversion H; subst.
  apply split_loop_spec in H1.
  - destruct H1 as (Hw' & Hk' & Hn' & Hm'). cbn [io_n] in Hn'. split; [reflexivity|]. split; [exact Hk'|]. split; [lia|].
    split; [lia|]. split; [|exact Hw']. rewrite Hm'. unfold gg_nedges, gg_len. cbn [io_edges]. lia.
  - unfold gio_wf. cbn [io_n io_r io_kind io_edges]. repeat split; try assumption; try lia.
    apply Forall_forall. intros e He. rewrite Forall_forall in Hf. specialize (Hf e He).
    unfold edge_stored_ok in *. cbn [io_kind io_n]. rewrite Hk in *. lia.
  - exact Hk.
  - exact Hnd.
  - exact Hin.
  - cbn [io_edges]. intros e He. rewrite Forall_forall in Hf. specialize (Hf e He). unfold edge_stored_ok in Hf. rewrite Hk in Hf. lia.
Qed.

(* ---------- complete and empty graphs ---------- *)
Lemma flat_map_length_const {A B} (f : A -> list B) l k : (forall x, In x l -> length (f x) = k) ->
  length (flat_map f l) = (length l * k)%nat.
Proof.
  induction l as [|a t IH]; intros H; cbn [flat_map length]; [reflexivity|].
  rewrite app_length, IH, (H a (or_introl eq_refl)); [lia|]. intros x Hx. apply H. now right.
Qed.
Lemma all_pairs_length L R : 0 <= L -> 0 <= R -> gg_len (gg_all_pairs L R) = L * R.
Proof.
  intros HL HR. unfold gg_len, gg_all_pairs. rewrite (flat_map_length_const _ _ (Z.to_nat R)).
  - rewrite range1_length. nia.
  - intros x _. now rewrite map_length, range1_length.
Qed.
Lemma pairs_length {A} (l : list A) : 2 * gg_len (pairs l) = gg_len l * (gg_len l - 1).
Proof.
  unfold gg_len. induction l as [|a t IH]; cbn [pairs length]; [reflexivity|].
  rewrite app_length, map_length, Nat2Z.inj_add. nia.
Qed.

Theorem complete_bipartite_shape : forall L R, 0 <= L -> 0 <= R -> exists G, gg_complete_bipartite L R = GGOk G /\
  io_kind G = GioBipartite /\ io_n G = L /\ io_r G = R /\ gg_nedges G = L * R /\
  (forall u v, gio_has_edge G u v = true <-> 1 <= u <= L /\ 1 <= v <= R).
Proof.
  intros L R HL HR. unfold gg_complete_bipartite. rewrite new_ok by lia. cbn [gg_lift gg_bind].
  rewrite add_edges_ok.
  - cbn [gg_lift io_kind edge_norm io_edges]. rewrite map_id. eexists. split; [reflexivity|].
    cbn [io_kind io_n io_r gio_with_edges]. split; [reflexivity|]. split; [reflexivity|]. split; [reflexivity|]. split.
    + unfold gg_nedges. cbn [io_edges gio_with_edges]. unfold gg_len. rewrite insert_all_length; [|apply all_pairs_NoDup|intros e _ []].
      pose proof (all_pairs_length L R HL HR) as E. unfold gg_len in E. cbn [length]. lia.
    + intros u v. rewrite has_edge_In. cbn [io_kind io_edges gio_with_edges edge_norm]. rewrite insert_all_In, all_pairs_In.
      cbn [In]. tauto.
  - apply Forall_forall. intros [u v] Hin. apply all_pairs_In in Hin. unfold edge_ok. cbn [io_kind io_n io_r fst snd]. lia.
Qed.

Theorem complete_simple_shape : forall n, 0 <= n -> exists G, gg_complete_simple n = GGOk G /\
  io_kind G = GioSimple /\ io_n G = n /\ 2 * gg_nedges G = n * (n - 1) /\
  (forall u v, gio_has_edge G u v = true <-> 1 <= u <= n /\ 1 <= v <= n /\ u <> v).
Proof.
  intros n Hn. unfold gg_complete_simple. rewrite new_ok by lia. cbn [gg_lift gg_bind].
  assert (Hnorm : map (edge_norm GioSimple) (pairs (gt_range1 n)) = pairs (gt_range1 n)).
  { rewrite <- (map_id (pairs (gt_range1 n))) at 2. apply map_ext_in. intros [u v] Hin. apply pairs_range1_lt in Hin.
    unfold edge_norm. cbn [fst snd]. f_equal; lia. }
  rewrite add_edges_ok.
  - cbn [gg_lift io_kind io_edges]. rewrite Hnorm. eexists. split; [reflexivity|].
    cbn [io_kind io_n io_r gio_with_edges]. split; [reflexivity|]. split; [reflexivity|]. split.
    + unfold gg_nedges. cbn [io_edges gio_with_edges]. unfold gg_len.
      rewrite insert_all_length; [|apply pairs_NoDup, range1_NoDup|intros e _ []].
      pose proof (pairs_length (gt_range1 n)) as E. unfold gg_len in E. rewrite range1_length in E. cbn [length]. lia.
    + intros u v. rewrite has_edge_In. cbn [io_kind io_edges gio_with_edges]. rewrite insert_all_In. cbn [In]. split.
      * intros [Hin|[]]. unfold edge_norm in Hin. cbn [fst snd] in Hin. apply pairs_range1_lt in Hin. lia.
      * intros (Hu & Hv & Hne). left. unfold edge_norm. cbn [fst snd].
        destruct (pairs_complete (gt_range1 n) (Z.min u v) (Z.max u v)) as [H|H]; try (apply range1_In; lia); [lia|exact H|].
        apply pairs_range1_lt in H. lia.
  - apply Forall_forall. intros [u v] Hin. apply pairs_range1_lt in Hin. unfold edge_ok. cbn [io_kind io_n io_r fst snd]. lia.
Qed.

Lemma empty_shapes : forall L R n, 0 <= L -> 0 <= R -> 0 <= n ->
  gg_empty_bipartite L R = GGOk (mkIOG GioBipartite [] L R []) /\ gg_empty_simple n = GGOk (mkIOG GioSimple [] n 0 []).
Proof. intros. unfold gg_empty_bipartite, gg_empty_simple. rewrite !new_ok by lia. split; reflexivity. Qed.
