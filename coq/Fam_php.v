(* Fam_php.v — cnfgen/families/pigeonhole.py:
     PigeonholePrinciple(pigeons, holes, functional, onto)
     GraphPigeonholePrinciple(G, functional, onto)
     BinaryPigeonholePrinciple(pigeons, holes)       (+ BinaryMappingVariables.forbid,
                                                        force_complete/injective for binary mappings)
     RelativizedPigeonholePrinciple(pigeons, resting_places, holes)
   as lists of builder calls in the order the Python code makes them.
   Abstracted: descriptions/labels; type checks (non_negative_int) appear as the
   [*_valid] predicates (the driver answers (raises "ValueError") when they fail);
   the number of bits int(ceil(log(m,2))) is the exact ceiling of the binary
   logarithm (DESIGN section 8: equal to the float computation below 2^29).
   Definitions only. *)
From Coq Require Import ZArith List Bool.
From Cnfgen Require Import Sem Comb Linear IR FamTab.
Import ListNotations.
Open Scope Z_scope.

(* ---------- PigeonholePrinciple ---------- *)
Definition php_valid (m n : Z) : bool := (0 <=? m) && (0 <=? n).
Definition php_numvar (m n : Z) : Z := m * n.
Definition php_ir (m n : Z) (functional onto : bool) : list ir :=
  cm_complete 0 m n
  ++ (if onto then cm_surjective 0 m n else [])
  ++ cm_injective 0 m n
  ++ (if functional then cm_functional 0 m n else []).

(* ---------- GraphPigeonholePrinciple ---------- *)
Definition gphp_tab (adj : list (list Z)) : list ((Z * Z) * Z) := number 0 (bip_index adj).
Definition gphp_numvar (adj : list (list Z)) : Z := len (bip_index adj).
Definition gphp_ir (adj : list (list Z)) (R : Z) (functional onto : bool) : list ir :=
  let t := gphp_tab adj in
  let L := len adj in
  sm_complete t L
  ++ (if onto then sm_surjective t R else [])
  ++ sm_injective t R
  ++ (if functional then sm_functional t L else []).

(* ---------- BinaryPigeonholePrinciple ---------- *)
(* BinaryMappingVariables raises ValueError unless both sizes are positive *)
Definition bphp_valid (m n : Z) : bool := (1 <=? m) && (1 <=? n).
Definition bphp_bits (n : Z) : Z := Z.log2_up n.
Definition bphp_numvar (m n : Z) : Z := m * bphp_bits n.
(* variable of bit b (0 = least significant) of pigeon i:  i*K - b *)
Definition bitvar (K i b : Z) : Z := i * K - b.
(* BinaryMappingVariables.forbid(i,j) restricted to the bits k-1 .. 0, most significant first:
   the sign is -1 where j has a 1 (flips[j] = j-th tuple of product([1,-1],repeat=K)) *)
Fixpoint bphp_forbid_from (K i j : Z) (k : nat) : list Z :=
  match k with
  | O => []
  | S k' => (if Z.testbit j (Z.of_nat k') then - bitvar K i (Z.of_nat k') else bitvar K i (Z.of_nat k'))
            :: bphp_forbid_from K i j k'
  end.
Definition bphp_forbid (K i j : Z) : list Z := bphp_forbid_from K i j (Z.to_nat K).
Definition bphp_ir (m n : Z) : list ir :=
  let K := bphp_bits n in
  flat_map (fun i => map (fun j => IClause (bphp_forbid K i j)) (zrange n (2 ^ K))) (upto m)
  ++ flat_map (fun y => map (fun x => IClause (bphp_forbid K (fst x) y ++ bphp_forbid K (snd x) y)) (pairs (upto m)))
              (zrange 0 n).

(* the DOCUMENTED behaviour on the whole documented domain (pigeons, holes >= 0), see finding D30:
   no pigeon -> the empty formula; pigeons but no hole -> the empty clause.  Used by the
   correspondence only to accept a repaired cnfgen without raising an alarm. *)
Definition bphp_spec_valid (m n : Z) : bool := (0 <=? m) && (0 <=? n).
Definition bphp_spec_numvar (m n : Z) : Z := if (m =? 0) || (n =? 0) then 0 else bphp_numvar m n.
Definition bphp_spec_ir (m n : Z) : list ir :=
  if m =? 0 then [] else if n =? 0 then [IClause []] else bphp_ir m n.

(* ---------- RelativizedPigeonholePrinciple ---------- *)
Definition rphp_valid (m r n : Z) : bool := (0 <=? m) && (0 <=? r) && (0 <=? n).
Definition rphp_numvar (m r n : Z) : Z := m * r + r * n + r.
Definition rp (r u v : Z) : Z := bvar 0 r u v.                      (* p[u,v] : m x r *)
Definition rq (m r n v w : Z) : Z := bvar (m * r) n v w.            (* q[v,w] : r x n *)
Definition rr (m r n v : Z) : Z := m * r + r * n + v.               (* r[v] *)
Definition rphp_ir (m r n : Z) : list ir :=
  (* 3.1a *) cm_complete 0 m r
  (* 3.1b *) ++ cm_injective 0 m r
  (* 3.1c *) ++ flat_map (fun v => map (fun u => IClause [- rp r u v; rr m r n v]) (upto m)) (upto r)
  (* 3.1d *) ++ map (fun v => IClause (- rr m r n v :: blk_row (m * r) n v)) (upto r)
  (* 3.1e *) ++ flat_map (fun w => map (fun vv => IClause [- rr m r n (fst vv); - rr m r n (snd vv);
                                                          - rq m r n (fst vv) w; - rq m r n (snd vv) w])
                                     (pairs (upto r))) (upto n).
