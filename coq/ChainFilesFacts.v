(* The shell pipe  `cnfgen <argv> | cnfgen -q dimacs` : the whole-program model of Pipeline.v feeding the one with file and
   standard-input arguments of PipelineFiles.v.  Lemmas only; statements in Prop_C17_chain.v. *)
From Coq Require Import ZArith List Bool Ascii String.
From Cnfgen Require Import Sem Comb Linear IR Text Dimacs DimacsFacts OpbText Cli GraphSpec GText GraphIO Subst.
From Cnfgen Require Import PipelineGraph Pipeline PipelineFacts PipelineFiles PipelineFilesFacts.
Import ListNotations.
Open Scope Z_scope.

Lemma chain_dimacs_identity argv text :
  cnfgen_main argv = POut text -> pl_opb_of argv = false ->
  exists n F, pl_formula argv = FrOk n F /\
    (printable n -> printable (len F) ->
     forall env, plf_stdin env = text -> cnfgen_files_main ["-q"; "dimacs"]%string env = POut text).
Proof.
  intros Hm Hopb.
  destruct (cnfgen_main_roundtrip argv text Hm) as (n & F & Hf & Ht & _ & _ & RB).
  exists n, F. split; [exact Hf|]. intros P1 P2 env Hin.
  specialize (RB P1 P2). unfold pl_reads_back in RB. rewrite Hopb in RB.
  unfold pl_write in Ht. rewrite Hopb in Ht.
  destruct (files_dimacs_idempotent text n F (RB false) P1 P2) as (_ & Hout & _).
  rewrite files_dimacs_stdin_outcome, Hin. rewrite Ht at 1. rewrite Hout. now rewrite Ht.
Qed.
