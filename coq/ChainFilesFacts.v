(* The shell pipe  `cnfgen <argv> | cnfgen -q dimacs` : the whole-program model of Pipeline.v feeding the one with file and
   standard-input arguments of PipelineFiles.v.  Lemmas only; statements in Prop_C17_chain.v. *)
From Coq Require Import ZArith List Bool Ascii String.
From Cnfgen Require Import Sem Comb Linear IR Text Dimacs DimacsFacts OpbText Cli GraphSpec GText GraphIO Subst.
From Cnfgen Require Import PipelineGraph Pipeline PipelineFacts PipelineFiles PipelineFilesFacts.
Import ListNotations.
Open Scope Z_scope.

Lemma chain_dimacs_identity argv text :
  cnfgen_main argv = POut text -> pl_opb_of argv = false ->
  exists n F, pl_formula argv = FrOk n F /\
    (printable n -> printable (len F) ->
     forall env, plf_stdin env = text -> cnfgen_files_main ["-q"; "dimacs"]%string env = POut text).
Proof.
  intros Hm Hopb.
  destruct (cnfgen_main_roundtrip argv text Hm) as (n & F & Hf & Ht & _ & _ & RB).
  exists n, F. split; [exact Hf|]. intros P1 P2 env Hin.
  specialize (RB P1 P2). unfold pl_reads_back in RB. rewrite Hopb in RB.
  unfold pl_write in Ht. rewrite Hopb in Ht.
  destruct (files_dimacs_idempotent text n F (RB false) P1 P2) as (_ & Hout & _).
  rewrite files_dimacs_stdin_outcome, Hin. rewrite Ht at 1. rewrite Hout. now rewrite Ht.
Qed.

(* the formula `cnfgen -q dimacs` holds after reading what `cnfgen argv` wrote is the family model of argv *)
Lemma plf_formula_dimacs_stdin env n F :
  pl_is_ascii (plf_stdin env) = true -> parse_dimacs false (plf_stdin env) = DOk n F ->
  plf_formula ["-q"; "dimacs"]%string env = FrOk n F.
Proof.
  intros HA HP. unfold plf_formula, plf_formula_with.
  assert (N : noT ["-q"; "dimacs"]%string) by (intros [H|[H|[]]]; discriminate).
  rewrite (PipelinePbFacts.pl_chunks_of_noT _ N). cbn [plf_parse_chunks pl_parse_tchunks].
  change (plf_parse_chunk0 env (map lit ["-q"; "dimacs"]%string)) with (PlOk (mk_pl_opts true false, Some (GenDimacs (plf_stdin env)))).
  unfold plf_run_with. cbn [plf_g plf_ts plf_o pl_all_some plf_start_with]. unfold pl_chain. cbn [fold_left].
  rewrite HA. cbn [negb]. now rewrite HP.
Qed.

Lemma chain_dimacs_formula argv text n F env :
  cnfgen_main argv = POut text -> pl_opb_of argv = false -> pl_formula argv = FrOk n F ->
  printable n -> printable (len F) -> plf_stdin env = text ->
  plf_formula ["-q"; "dimacs"]%string env = FrOk n F.
Proof.
  intros Hm Hopb Hf P1 P2 Hin.
  destruct (cnfgen_main_roundtrip argv text Hm) as (n' & F' & Hf' & Ht & _ & _ & RB).
  rewrite Hf in Hf'. injection Hf' as <- <-.
  specialize (RB P1 P2). unfold pl_reads_back in RB. rewrite Hopb in RB.
  apply plf_formula_dimacs_stdin; rewrite Hin; [|apply RB].
  unfold pl_write in Ht. rewrite Hopb in Ht. rewrite Ht. apply plf_print_dimacs_ascii.
Qed.

(* transformations applied later, through `dimacs`, are the transformations applied at once: for every chain *)
Lemma chain_dimacs_later argv text n F env ts tcs :
  cnfgen_main argv = POut text -> pl_opb_of argv = false -> pl_formula argv = FrOk n F ->
  printable n -> printable (len F) -> plf_stdin env = text ->
  Forall noT ts -> Forall2 (fun t tc => pl_parse_tchunk (map lit t) = PlOk (Some tc)) ts tcs ->
  plf_formula (["-q"; "dimacs"]%string ++ flat_map (fun t => "-T"%string :: t) ts) env =
  pl_formula (argv ++ flat_map (fun t => "-T"%string :: t) ts).
Proof.
  intros Hm Hopb Hf P1 P2 Hin HT H2.
  pose proof (chain_dimacs_formula argv text n F env Hm Hopb Hf P1 P2 Hin) as HD.
  rewrite (plf_formula_chain env ts tcs _ (plf_formula_ok_wellformed _ env n F HD) HT H2).
  rewrite (pl_formula_chain ts tcs argv (pl_formula_ok_wellformed argv n F Hf) HT H2).
  now rewrite HD, Hf.
Qed.
