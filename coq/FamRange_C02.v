(* FamRange_C02.v — the literal-range half of C10 for the graph-problem families of C02
   (tseitin, kcolor, ec, domset, tiling, iso, auto, iso_nontrivial, subgraph, kclique,
   kcliquebin, ramlb): every literal handed to a builder call is a variable of
   1..fam_numvar or its negation ([<fam>_bounded]); by FamRange_Util.bounded_to_cnf the
   CNF rendering is in range ([<fam>_in_range]).  Also the closed formulas for the number of
   variables ([<fam>_numvar_doc]).  Lemmas only; the statements are in Prop_C10_families_C02.v. *)
From Coq Require Import ZArith List Bool Lia ZifyBool.
From Cnfgen Require Import Sem Comb Linear SemFacts LinearFacts IR IRFacts IRRange C02Common C02CommonFacts
  Fam_tseitin Fam_coloring Fam_domset Fam_iso Fam_subgraph FamRange_Util
  Fam_tseitin_Facts Fam_domset_Facts.
Import ListNotations.
Open Scope Z_scope.

(* ---------- literals ---------- *)
Lemma mvar_bd off n m tot i j : 0 <= off -> off + n * m <= tot -> 1 <= i <= n -> 1 <= j <= m ->
  1 <= mvar off m i j <= tot.
Proof. intros Ho Ht Hi Hj. pose proof (mvar_range off n m i j Ho Hi Hj). lia. Qed.

Lemma pos_bd n x : 1 <= x <= n -> 1 <= Z.abs x <= n. Proof. lia. Qed.
Lemma neg_bd n x : 1 <= x <= n -> 1 <= Z.abs (- x) <= n. Proof. lia. Qed.

Lemma in_map_bd {A} n (f : A -> Z) l x :
  (forall y, In y l -> 1 <= Z.abs (f y) <= n) -> In x (map f l) -> 1 <= Z.abs x <= n.
Proof. intros H Hx. apply in_map_iff in Hx as [y [<- Hy]]. auto. Qed.
Lemma in_app_bd n (l1 l2 : list Z) x :
  (In x l1 -> 1 <= Z.abs x <= n) -> (In x l2 -> 1 <= Z.abs x <= n) -> In x (l1 ++ l2) -> 1 <= Z.abs x <= n.
Proof. intros H1 H2 Hx. apply in_app_or in Hx as [Hx|Hx]; auto. Qed.
Lemma in2_bd n (a b x : Z) : 1 <= Z.abs a <= n -> 1 <= Z.abs b <= n -> In x [a; b] -> 1 <= Z.abs x <= n.
Proof. intros Ha Hb [<-|[<-|[]]]; assumption. Qed.
Lemma in3_bd n (a b c x : Z) : 1 <= Z.abs a <= n -> 1 <= Z.abs b <= n -> 1 <= Z.abs c <= n ->
  In x [a; b; c] -> 1 <= Z.abs x <= n.
Proof. intros Ha Hb Hc [<-|[<-|[<-|[]]]]; assumption. Qed.
Lemma in4_bd n (a b c d x : Z) : 1 <= Z.abs a <= n -> 1 <= Z.abs b <= n -> 1 <= Z.abs c <= n -> 1 <= Z.abs d <= n ->
  In x [a; b; c; d] -> 1 <= Z.abs x <= n.
Proof. intros Ha Hb Hc Hd [<-|[<-|[<-|[<-|[]]]]]; assumption. Qed.

Lemma lits_bounded_one n i : (forall x, In x (ir_lits i) -> 1 <= Z.abs x <= n) -> lits_bounded n [i].
Proof. intros H. apply lits_bounded_cons; [exact H|apply lits_bounded_nil]. Qed.

Lemma Some_eq {A} (x y : A) : Some x = Some y -> x = y.
Proof. intros H. now injection H. Qed.

(* ---------- unary mappings ---------- *)
Lemma um_complete_bounded off n m tot : 0 <= off -> off + n * m <= tot -> lits_bounded tot (um_complete off n m).
Proof.
  intros Ho Ht. unfold um_complete. apply lits_bounded_map. intros i x Hi Hx. cbn [ir_lits] in Hx.
  apply In_rng in Hi. revert Hx. apply in_map_bd. intros j Hj. apply In_rng in Hj.
  apply pos_bd. now apply (mvar_bd off n m).
Qed.
Lemma um_functional_bounded off n m tot : 0 <= off -> off + n * m <= tot -> lits_bounded tot (um_functional off n m).
Proof.
  intros Ho Ht. unfold um_functional. apply lits_bounded_map. intros i x Hi Hx. cbn [ir_lits] in Hx.
  apply In_rng in Hi. revert Hx. apply in_map_bd. intros j Hj. apply In_rng in Hj.
  apply pos_bd. now apply (mvar_bd off n m).
Qed.
Lemma um_surjective_bounded off n m tot : 0 <= off -> off + n * m <= tot -> lits_bounded tot (um_surjective off n m).
Proof.
  intros Ho Ht. unfold um_surjective. apply lits_bounded_map. intros j x Hj Hx. cbn [ir_lits] in Hx.
  apply In_rng in Hj. revert Hx. apply in_map_bd. intros i Hi. apply In_rng in Hi.
  apply pos_bd. now apply (mvar_bd off n m).
Qed.
Lemma um_injective_bounded off n m tot : 0 <= off -> off + n * m <= tot -> lits_bounded tot (um_injective off n m).
Proof.
  intros Ho Ht. unfold um_injective. apply lits_bounded_map. intros j x Hj Hx. cbn [ir_lits] in Hx.
  apply In_rng in Hj. revert Hx. apply in_map_bd. intros i Hi. apply In_rng in Hi.
  apply pos_bd. now apply (mvar_bd off n m).
Qed.
Lemma um_nondecreasing_bounded off n m tot : 0 <= off -> off + n * m <= tot -> lits_bounded tot (um_nondecreasing off n m).
Proof.
  intros Ho Ht. unfold um_nondecreasing. apply lits_bounded_flat_map. intros u Hu.
  apply In_pairs_rng in Hu. apply lits_bounded_flat_map. intros v Hv.
  apply In_list_prod in Hv as [Hv1 Hv2]. apply In_rng in Hv1, Hv2.
  apply lits_bounded_if. apply lits_bounded_one. cbn [ir_lits]. intros x.
  apply in2_bd; apply neg_bd; apply (mvar_bd off n m); lia.
Qed.

Lemma cons_clauses_bounded tot bad mk k N :
  (forall i1 i2 j1 j2, 1 <= i1 -> i1 < i2 -> i2 <= k -> 1 <= j1 -> j1 < j2 -> j2 <= N ->
     lits_bounded tot (mk i1 i2 j1 j2)) ->
  lits_bounded tot (cons_clauses bad mk k N).
Proof.
  intros H. unfold cons_clauses. apply lits_bounded_flat_map. intros i Hi. apply In_pairs_rng in Hi.
  apply lits_bounded_flat_map. intros j Hj. apply In_pairs_rng in Hj.
  apply lits_bounded_if. apply H; lia.
Qed.

Lemma pair_mk_bounded off k N tot sb i1 i2 j1 j2 : 0 <= off -> off + k * N <= tot ->
  1 <= i1 -> i1 < i2 -> i2 <= k -> 1 <= j1 -> j1 < j2 -> j2 <= N ->
  lits_bounded tot (pair_mk off N sb i1 i2 j1 j2).
Proof.
  intros Ho Ht A1 A2 A3 B1 B2 B3. unfold pair_mk. apply lits_bounded_cons.
  - cbn [ir_lits]. intros x. apply in2_bd; apply neg_bd; apply (mvar_bd off k N); lia.
  - destruct sb; [apply lits_bounded_nil|]. apply lits_bounded_one. cbn [ir_lits]. intros x.
    apply in2_bd; apply neg_bd; apply (mvar_bd off k N); lia.
Qed.
Lemma cons_pair_bounded off k N tot sb bad : 0 <= off -> off + k * N <= tot ->
  lits_bounded tot (cons_clauses bad (pair_mk off N sb) k N).
Proof. intros Ho Ht. apply cons_clauses_bounded. intros. now apply (pair_mk_bounded off k N). Qed.

Lemma emb_mapping_bounded off k N tot sb : 0 <= off -> off + k * N <= tot -> lits_bounded tot (emb_mapping off k N sb).
Proof.
  intros Ho Ht. unfold emb_mapping.
  apply lits_bounded_app; [now apply um_complete_bounded|].
  apply lits_bounded_app; [now apply um_functional_bounded|].
  apply lits_bounded_app; [now apply um_injective_bounded|].
  apply lits_bounded_if. now apply um_nondecreasing_bounded.
Qed.

(* ---------- tseitin, ec ---------- *)
Lemma tseitin_bounded n E ch : lits_bounded (tseitin_numvar E) (tseitin_ir n E ch).
Proof.
  unfold tseitin_ir, tseitin_numvar. apply lits_bounded_map. intros v x _ Hx. cbn [ir_lits] in Hx.
  apply incident_pos in Hx. lia.
Qed.
Theorem tseitin_in_range n E ch : lits_in_range (tseitin_numvar E) (to_cnf (tseitin_ir n E ch)) = true.
Proof. apply bounded_to_cnf, tseitin_bounded. Qed.
Lemma tseitin_numvar_doc E : tseitin_numvar E = len E. Proof. reflexivity. Qed.

Lemma ec_bounded n E l : ec_ir n E = Some l -> lits_bounded (ec_numvar E) l.
Proof.
  unfold ec_ir, ec_numvar. destruct (forallb _ _); [|discriminate]. intros [= <-].
  apply lits_bounded_map. intros v x _ Hx. cbn [ir_lits] in Hx. apply incident_pos in Hx. lia.
Qed.
Theorem ec_in_range n E l : ec_ir n E = Some l -> lits_in_range (ec_numvar E) (to_cnf l) = true.
Proof. intros H. eapply bounded_to_cnf, ec_bounded; eauto. Qed.
Lemma ec_numvar_doc E : ec_numvar E = len E. Proof. reflexivity. Qed.

(* ---------- kcolor ---------- *)
Lemma kcolor_bounded n E k fn l : edges_ok n E = true -> kcolor_ir n E k fn = Some l ->
  lits_bounded (kcolor_numvar n k) l.
Proof.
  intros HE. unfold kcolor_ir, kcolor_numvar. destruct (k <? 0); [discriminate|]. intros [= <-].
  apply lits_bounded_app; [apply um_complete_bounded; lia|].
  apply lits_bounded_app; [apply lits_bounded_if; apply um_functional_bounded; lia|].
  unfold kcolor_edge_clauses. apply lits_bounded_flat_map. intros [u v] He.
  pose proof (edges_ok_in n E u v HE He) as Huv. apply lits_bounded_map. intros c x Hc. apply In_rng in Hc.
  cbn [ir_lits fst snd]. apply in2_bd; apply neg_bd; apply (mvar_bd 0 n k); lia.
Qed.
Theorem kcolor_in_range n E k fn l : edges_ok n E = true -> kcolor_ir n E k fn = Some l ->
  lits_in_range (kcolor_numvar n k) (to_cnf l) = true.
Proof. intros H1 H2. eapply bounded_to_cnf, kcolor_bounded; eauto. Qed.
Lemma kcolor_numvar_doc n k : kcolor_numvar n k = n * k. Proof. reflexivity. Qed.

(* ---------- domset, tiling ---------- *)
Lemma unique_nbhds_range n E N u : edges_ok n E = true -> In N (unique_nbhds n E) -> In u N -> 1 <= u <= n.
Proof.
  intros HE HN Hu. apply In_unique_nbhds in HN as [v [Hv ->]]. now apply (closed_nbhd_range n E u v).
Qed.

Lemma domset_cover_bounded n E tot : edges_ok n E = true -> n <= tot -> lits_bounded tot (domset_cover n E).
Proof.
  intros HE Ht. unfold domset_cover. apply lits_bounded_map. intros N x HN Hx. cbn [ir_lits] in Hx.
  pose proof (unique_nbhds_range n E N x HE HN Hx). lia.
Qed.
Lemma domset_link_bounded n d : 0 <= n -> lits_bounded (n + n * d) (domset_link n d).
Proof.
  intros Hn. unfold domset_link. apply lits_bounded_flat_map. intros i Hi. apply In_rng in Hi.
  apply lits_bounded_map. intros v x Hv. apply In_rng in Hv. cbn [ir_lits].
  apply in2_bd; [apply neg_bd; apply (mvar_bd n n d); lia|apply pos_bd; nia].
Qed.
Lemma domset_active_bounded n d : 0 <= n -> 0 <= d -> lits_bounded (n + n * d) (domset_active n d).
Proof.
  intros Hn Hd. unfold domset_active. apply lits_bounded_map. intros v x Hv. apply In_rng in Hv. cbn [ir_lits].
  intros [<-|Hx].
  - nia.
  - revert Hx. apply in_map_bd. intros i Hi. apply In_rng in Hi. apply pos_bd. apply (mvar_bd n n d); lia.
Qed.
Lemma domset_alt_inj_bounded n d : 0 <= n -> lits_bounded (n + n * d) (domset_alt_inj n d).
Proof.
  intros Hn. unfold domset_alt_inj. apply lits_bounded_flat_map. intros u Hu. apply In_pairs_rng in Hu.
  apply lits_bounded_map. intros i x Hi. apply In_rng in Hi. cbn [ir_lits].
  assert (0 <= n * d) by nia.
  apply in4_bd; apply neg_bd; try lia; apply (mvar_bd n n d); lia.
Qed.
Lemma domset_alt_fun_bounded n d : 0 <= n -> lits_bounded (n + n * d) (domset_alt_fun n d).
Proof.
  intros Hn. unfold domset_alt_fun. apply lits_bounded_flat_map. intros v Hv. apply In_rng in Hv.
  apply lits_bounded_map. intros i x Hi. apply In_pairs_rng in Hi. cbn [ir_lits].
  assert (0 <= n * d) by nia.
  apply in3_bd; apply neg_bd; try lia; apply (mvar_bd n n d); lia.
Qed.

Lemma domset_bounded n E d alt l : graph_wf n E = true -> domset_ir n E d alt = Some l ->
  lits_bounded (domset_numvar n d) l.
Proof.
  intros Hwf. unfold graph_wf in Hwf. apply andb_true_iff in Hwf as [Hwf _]. apply andb_true_iff in Hwf as [Hn HE].
  assert (0 <= n) as Hn0 by lia.
  unfold domset_ir, domset_numvar. destruct (Z.leb_spec d 0) as [Hd|Hd]; [discriminate|].
  destruct (n =? 0); intros [= <-]; [apply lits_bounded_nil|].
  apply lits_bounded_app; [|apply lits_bounded_app].
  - destruct alt.
    + apply lits_bounded_app; [now apply domset_alt_inj_bounded|now apply domset_alt_fun_bounded].
    + apply lits_bounded_app; [apply um_injective_bounded; lia|].
      apply lits_bounded_app; [apply um_nondecreasing_bounded; lia|now apply domset_link_bounded].
  - apply domset_active_bounded; lia.
  - apply domset_cover_bounded; [exact HE|nia].
Qed.
Theorem domset_in_range n E d alt l : graph_wf n E = true -> domset_ir n E d alt = Some l ->
  lits_in_range (domset_numvar n d) (to_cnf l) = true.
Proof. intros H1 H2. eapply bounded_to_cnf, domset_bounded; eauto. Qed.
Lemma domset_numvar_doc n d : domset_numvar n d = n + n * d. Proof. reflexivity. Qed.

Lemma tiling_bounded n E : edges_ok n E = true -> lits_bounded (tiling_numvar n) (tiling_ir n E).
Proof.
  intros HE. unfold tiling_ir, tiling_numvar. apply lits_bounded_map. intros N x HN Hx. cbn [ir_lits] in Hx.
  pose proof (unique_nbhds_range n E N x HE HN Hx). lia.
Qed.
Theorem tiling_in_range n E : edges_ok n E = true -> lits_in_range (tiling_numvar n) (to_cnf (tiling_ir n E)) = true.
Proof. intros H. apply bounded_to_cnf. now apply tiling_bounded. Qed.
Lemma tiling_numvar_doc n : tiling_numvar n = n. Proof. reflexivity. Qed.

(* ---------- iso, auto, iso_nontrivial ---------- *)
Lemma iso_bounded n1 E1 n2 E2 : lits_bounded (iso_numvar n1 n2) (iso_ir n1 E1 n2 E2).
Proof.
  unfold iso_ir, iso_numvar.
  apply lits_bounded_app; [apply um_complete_bounded; lia|].
  apply lits_bounded_app; [apply um_surjective_bounded; lia|].
  apply lits_bounded_app; [apply um_functional_bounded; lia|].
  apply lits_bounded_app; [apply um_injective_bounded; lia|].
  apply cons_pair_bounded; lia.
Qed.
Theorem iso_in_range n1 E1 n2 E2 : lits_in_range (iso_numvar n1 n2) (to_cnf (iso_ir n1 E1 n2 E2)) = true.
Proof. apply bounded_to_cnf, iso_bounded. Qed.
Lemma iso_numvar_doc n1 n2 : iso_numvar n1 n2 = n1 * n2. Proof. reflexivity. Qed.

Lemma auto_bounded n E : lits_bounded (iso_numvar n n) (auto_ir n E).
Proof.
  unfold auto_ir. apply lits_bounded_app; [apply iso_bounded|]. apply lits_bounded_one. cbn [ir_lits].
  intros x. apply in_map_bd. intros u Hu. apply In_rng in Hu. apply neg_bd. unfold iso_numvar.
  apply (mvar_bd 0 n n); lia.
Qed.
Theorem auto_in_range n E : lits_in_range (iso_numvar n n) (to_cnf (auto_ir n E)) = true.
Proof. apply bounded_to_cnf, auto_bounded. Qed.
Lemma auto_numvar_doc n : iso_numvar n n = n * n. Proof. reflexivity. Qed.

Lemma iso_nontrivial_bounded n1 E1 n2 E2 : lits_bounded (iso_numvar n1 n2) (iso_nontrivial_ir n1 E1 n2 E2).
Proof.
  unfold iso_nontrivial_ir. apply lits_bounded_app; [apply iso_bounded|]. apply lits_bounded_one. cbn [ir_lits].
  intros x. apply in_map_bd. intros u Hu. apply In_rng in Hu. apply neg_bd. unfold iso_numvar.
  apply (mvar_bd 0 n1 n2); lia.
Qed.
Theorem iso_nontrivial_in_range n1 E1 n2 E2 :
  lits_in_range (iso_numvar n1 n2) (to_cnf (iso_nontrivial_ir n1 E1 n2 E2)) = true.
Proof. apply bounded_to_cnf, iso_nontrivial_bounded. Qed.

(* ---------- subgraph, kclique ---------- *)
Lemma subgraph_bounded N EG k EH ind sb : lits_bounded (subgraph_numvar N k) (subgraph_ir N EG k EH ind sb).
Proof.
  unfold subgraph_ir, subgraph_numvar.
  apply lits_bounded_app; [apply emb_mapping_bounded; lia|apply cons_pair_bounded; lia].
Qed.
Theorem subgraph_in_range N EG k EH ind sb :
  lits_in_range (subgraph_numvar N k) (to_cnf (subgraph_ir N EG k EH ind sb)) = true.
Proof. apply bounded_to_cnf, subgraph_bounded. Qed.
Lemma subgraph_numvar_doc N k : subgraph_numvar N k = k * N. Proof. reflexivity. Qed.

Lemma kclique_bounded N E k sb l : kclique_ir N E k sb = Some l -> lits_bounded (kclique_numvar N k) l.
Proof.
  unfold kclique_ir, kclique_numvar. destruct (k <? 0); [discriminate|]. intros [= <-].
  apply lits_bounded_app; [apply emb_mapping_bounded; lia|apply cons_pair_bounded; lia].
Qed.
Theorem kclique_in_range N E k sb l : kclique_ir N E k sb = Some l ->
  lits_in_range (kclique_numvar N k) (to_cnf l) = true.
Proof. intros H. eapply bounded_to_cnf, kclique_bounded; eauto. Qed.
Lemma kclique_numvar_doc N k : kclique_numvar N k = k * N. Proof. reflexivity. Qed.

(* ---------- kcliquebin ---------- *)
Lemma forbid_bits_range nb : forall base j x, 0 <= base -> In x (forbid_bits nb base j) ->
  base + 1 <= Z.abs x <= base + Z.of_nat nb.
Proof.
  induction nb as [|p IH]; intros base j x Hb Hx; cbn [forbid_bits] in Hx; [destruct Hx|].
  destruct (2 ^ Z.of_nat p <=? j); destruct Hx as [<-|Hx]; try lia;
    specialize (IH _ _ _ (ltac:(lia) : 0 <= base + 1) Hx); lia.
Qed.
Lemma bm_forbid_bounded b k i j x : 0 <= b -> 1 <= i <= k -> In x (bm_forbid b i j) -> 1 <= Z.abs x <= k * b.
Proof.
  intros Hb Hi Hx. unfold bm_forbid in Hx. apply forbid_bits_range in Hx; [|nia].
  rewrite Z2Nat.id in Hx by lia. nia.
Qed.
Lemma bm_forbid2_bounded b k i1 j1 i2 j2 x : 0 <= b -> 1 <= i1 <= k -> 1 <= i2 <= k ->
  In x (bm_forbid b i1 j1 ++ bm_forbid b i2 j2) -> 1 <= Z.abs x <= k * b.
Proof. intros Hb H1 H2. apply in_app_bd; now apply bm_forbid_bounded. Qed.

Lemma bm_complete_bounded n m : 1 <= m -> lits_bounded (n * bm_bits m) (bm_complete n m).
Proof.
  intros Hm. destruct (bm_bits_spec m Hm) as [Hb _]. unfold bm_complete. apply lits_bounded_flat_map.
  intros i Hi. apply In_rng in Hi. apply lits_bounded_map. intros j x _. cbn [ir_lits].
  now apply bm_forbid_bounded.
Qed.
Lemma bm_injective_bounded n m : 1 <= m -> lits_bounded (n * bm_bits m) (bm_injective n m).
Proof.
  intros Hm. destruct (bm_bits_spec m Hm) as [Hb _]. unfold bm_injective. apply lits_bounded_flat_map.
  intros y _. apply lits_bounded_map. intros p x Hp. apply In_pairs_rng in Hp. cbn [ir_lits].
  apply bm_forbid2_bounded; lia.
Qed.
Lemma bm_nondecreasing_bounded n m : 1 <= m -> lits_bounded (n * bm_bits m) (bm_nondecreasing n m).
Proof.
  intros Hm. destruct (bm_bits_spec m Hm) as [Hb _]. unfold bm_nondecreasing. apply lits_bounded_flat_map.
  intros u Hu. apply In_pairs_rng in Hu. apply lits_bounded_map. intros v x _. cbn [ir_lits].
  apply bm_forbid2_bounded; lia.
Qed.
Lemma kcliquebin_mk_bounded b k sb i1 i2 j1 j2 : 0 <= b -> 1 <= i1 <= k -> 1 <= i2 <= k ->
  lits_bounded (k * b) (kcliquebin_mk b sb i1 i2 j1 j2).
Proof.
  intros Hb H1 H2. unfold kcliquebin_mk. apply lits_bounded_cons.
  - cbn [ir_lits]. intros x. now apply bm_forbid2_bounded.
  - destruct sb; [apply lits_bounded_nil|]. apply lits_bounded_one. cbn [ir_lits]. intros x.
    now apply bm_forbid2_bounded.
Qed.

Lemma kcliquebin_bounded N E k sb l : kcliquebin_ir N E k sb = Some l -> lits_bounded (kcliquebin_numvar N k) l.
Proof.
  unfold kcliquebin_ir, kcliquebin_numvar.
  destruct ((k <? 1) || (N <? 1)) eqn:HkN; [discriminate|]. intros [= <-].
  apply orb_false_iff in HkN as [Hk HN']. assert (1 <= N) as HN by lia. destruct (bm_bits_spec N HN) as [Hb _].
  apply lits_bounded_app; [now apply bm_complete_bounded|].
  apply lits_bounded_app; [now apply bm_injective_bounded|].
  apply lits_bounded_app; [apply lits_bounded_if; now apply bm_nondecreasing_bounded|].
  apply cons_clauses_bounded. intros. apply kcliquebin_mk_bounded; lia.
Qed.
Theorem kcliquebin_in_range N E k sb l : kcliquebin_ir N E k sb = Some l ->
  lits_in_range (kcliquebin_numvar N k) (to_cnf l) = true.
Proof. intros H. eapply bounded_to_cnf, kcliquebin_bounded; eauto. Qed.
Lemma kcliquebin_numvar_doc N k : kcliquebin_numvar N k = k * Z.log2_up N. Proof. reflexivity. Qed.

(* ---------- ramlb ---------- *)
Lemma guarded_complete_bounded g off k N tot : 0 <= off -> off + k * N <= tot -> 1 <= Z.abs g <= tot ->
  lits_bounded tot (guarded_complete g off k N).
Proof.
  intros Ho Ht Hg. unfold guarded_complete. apply lits_bounded_map. intros i x Hi. apply In_rng in Hi.
  cbn [ir_lits]. intros [<-|Hx]; [exact Hg|]. revert Hx. apply in_map_bd. intros j Hj. apply In_rng in Hj.
  apply pos_bd. now apply (mvar_bd off k N).
Qed.
Lemma ramlb_part_bounded g off k N tot bad sb : 0 <= off -> off + k * N <= tot -> 1 <= Z.abs g <= tot ->
  lits_bounded tot (ramlb_part g off k N bad sb).
Proof.
  intros Ho Ht Hg. unfold ramlb_part.
  apply lits_bounded_app; [now apply guarded_complete_bounded|].
  apply lits_bounded_app; [now apply um_functional_bounded|].
  apply lits_bounded_app; [now apply um_injective_bounded|].
  apply lits_bounded_app; [apply lits_bounded_if; now apply um_nondecreasing_bounded|].
  now apply cons_pair_bounded.
Qed.
Lemma ramlb_spec_bounded N E k s sb l : 0 <= N -> ramlb_spec N E k s sb = Some l ->
  lits_bounded (ramlb_spec_numvar N k s) l.
Proof.
  intros HN. unfold ramlb_spec, ramlb_spec_numvar.
  destruct ((k <? 0) || (s <? 0)) eqn:Hks; [discriminate|]. intros Hl. apply Some_eq in Hl. subst l.
  apply orb_false_iff in Hks as [Hk Hs].
  assert (0 <= k * N) by nia. assert (0 <= s * N) by nia.
  apply lits_bounded_app; apply ramlb_part_bounded; lia.
Qed.
Theorem ramlb_spec_in_range N E k s sb l : 0 <= N -> ramlb_spec N E k s sb = Some l ->
  lits_in_range (ramlb_spec_numvar N k s) (to_cnf l) = true.
Proof. intros H1 H2. eapply bounded_to_cnf, ramlb_spec_bounded; eauto. Qed.
Lemma ramlb_spec_numvar_doc N k s : ramlb_spec_numvar N k s = 1 + k * N + s * N. Proof. reflexivity. Qed.

(* the code as it is: no hypothesis on N is needed (the variable C occurs only next to a mapping variable) *)
Lemma ramlb_mk_bounded E N k sb i1 i2 j1 j2 :
  1 <= i1 -> i1 < i2 -> i2 <= k -> 1 <= j1 -> j1 < j2 -> j2 <= N ->
  lits_bounded (1 + k * N) (ramlb_mk E N sb i1 i2 j1 j2).
Proof.
  intros A1 A2 A3 B1 B2 B3. unfold ramlb_mk.
  pose proof (mvar_bd 1 k N (1 + k * N) i1 j1). pose proof (mvar_bd 1 k N (1 + k * N) i2 j2).
  pose proof (mvar_bd 1 k N (1 + k * N) i1 j2). pose proof (mvar_bd 1 k N (1 + k * N) i2 j1).
  assert (1 <= Z.abs (if has_edge E j1 j2 then 1 else -1) <= 1 + k * N) as Hc by (destruct (has_edge E j1 j2); lia).
  apply lits_bounded_cons; [|apply lits_bounded_one].
  - cbn [ir_lits]. intros x. apply in3_bd; [exact Hc|apply neg_bd; lia|apply neg_bd; lia].
  - destruct sb; cbn [ir_lits]; intros x.
    + apply in2_bd; apply neg_bd; lia.
    + apply in3_bd; [exact Hc|apply neg_bd; lia|apply neg_bd; lia].
Qed.
Lemma ramlb_as_is_bounded N E k s sb l : ramlb_as_is N E k s sb = Some l ->
  lits_bounded (ramlb_as_is_numvar N k s) l.
Proof.
  unfold ramlb_as_is, ramlb_as_is_numvar. destruct ((k <? 0) || (s <? 0)); [discriminate|]. intros [= <-].
  apply lits_bounded_app; [apply emb_mapping_bounded; lia|].
  apply cons_clauses_bounded. intros. now apply ramlb_mk_bounded.
Qed.
Theorem ramlb_as_is_in_range N E k s sb l : ramlb_as_is N E k s sb = Some l ->
  lits_in_range (ramlb_as_is_numvar N k s) (to_cnf l) = true.
Proof. intros H. eapply bounded_to_cnf, ramlb_as_is_bounded; eauto. Qed.
Lemma ramlb_as_is_numvar_doc N k s : ramlb_as_is_numvar N k s = 1 + k * N. Proof. reflexivity. Qed.
