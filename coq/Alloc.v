(* Alloc.v — the allocation history of a formula object, reduced to what C10 needs
   (cnfgen/formula/basecnf.py + baseopb.py: add_clause / add_constraint with and
   without check, update_variable_number; cnfgen/formula/variables.py:
   VariablesManager._add_variable_group).  State: the declared number of variables
   and the largest variable mentioned by any clause so far.  A new group of size n
   receives the identifiers numvar+1 .. numvar+n.  Definitions only. *)
From Coq Require Import ZArith List Bool.
From Cnfgen Require Import Sem.
Import ListNotations.
Open Scope Z_scope.

Inductive aop :=
| AGroup (size : Z)                         (* new_variable / new_block / new_mapping / ... *)
| AClause (c : list Z) (checked : bool)     (* add_clause(c, check=...) *)
| ARaise (k : Z).                           (* update_variable_number(k) *)

Record ast := mkast { a_numvar : Z; a_mentioned : Z }.
Definition ast0 : ast := mkast 0 0.

Definition astep (s : ast) (o : aop) : ast :=
  match o with
  | AGroup n => if n <=? 0 then s else mkast (a_numvar s + n) (a_mentioned s)
  | AClause c true => mkast (Z.max (a_numvar s) (max_var_clause c)) (Z.max (a_mentioned s) (max_var_clause c))
  | AClause c false => mkast (a_numvar s) (Z.max (a_mentioned s) (max_var_clause c))
  | ARaise k => mkast (Z.max (a_numvar s) k) (a_mentioned s)
  end.

(* first identifier handed out by a group creation in state s *)
Definition first_id (s : ast) : Z := a_numvar s + 1.

(* an unchecked insertion is legitimate only if its literals are already in range:
   every check=False site of the family models satisfies this *)
Definition aop_ok (s : ast) (o : aop) : bool :=
  match o with
  | AClause c false => max_var_clause c <=? a_numvar s
  | _ => true
  end.

Fixpoint arun (s : ast) (ops : list aop) : option ast :=
  match ops with
  | [] => Some s
  | o :: more => if aop_ok s o then arun (astep s o) more else None
  end.
