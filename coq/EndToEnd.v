(* EndToEnd.v — composition of the slices: a formula whose literals are in range
   (C10: every family model, every rendering of builder calls) written by the DIMACS
   printer (C06, repaired printer) and read back by the DIMACS reader is the same
   formula.  Lemmas only; statements in Prop_C06_families.v. *)
From Coq Require Import ZArith List Bool Lia.
From Cnfgen Require Import Sem Comb Linear IR SemFacts IRFacts IRRange Text Dimacs DimacsFacts.
From Cnfgen Require Import FamTab Fam_php Fam_tseitin C03_Util Fam_pebbling Fam_ordering FamRange_Util FamRange_C01 FamRange_C02 FamRange_C03.
Import ListNotations.
Open Scope Z_scope.

Lemma in_range_valid n F : 0 <= n -> lits_in_range n F = true -> valid n F.
Proof.
  intros Hn H. split; [exact Hn|]. unfold lits_in_range in H. rewrite forallb_forall in H.
  apply Forall_forall. intros c Hc. specialize (H c Hc). rewrite forallb_forall in H.
  apply Forall_forall. intros l Hl. specialize (H l Hl). apply andb_true_iff in H as [H1 H2].
  apply nonzero_spec in H1. unfold lit_in. lia.
Qed.

Theorem in_range_roundtrip u h names n F :
  0 <= n -> lits_in_range n F = true -> printable n -> printable (len F) ->
  parse_dimacs u (print_dimacs h names n F) = DOk n F.
Proof. intros Hn H P1 P2. apply dimacs_roundtrip_proved; auto. now apply in_range_valid. Qed.

(* any list of builder calls: rendered as CNF, printed, read back *)
Theorem builder_calls_roundtrip u h names n l :
  0 <= n -> irs_ok l = true -> irs_max_var l <= n -> printable n -> printable (len (to_cnf l)) ->
  parse_dimacs u (print_dimacs h names n (to_cnf l)) = DOk n (to_cnf l).
Proof. intros Hn Hok Hm P1 P2. apply in_range_roundtrip; auto. now apply to_cnf_in_range. Qed.

(* ---- the families: a few representatives of each slice (any family with a C10_*_in_range theorem goes the same way) ---- *)
Theorem php_dimacs_roundtrip u h names m n f o :
  0 <= m -> 0 <= n -> printable (php_numvar m n) -> printable (len (to_cnf (php_ir m n f o))) ->
  parse_dimacs u (print_dimacs h names (php_numvar m n) (to_cnf (php_ir m n f o))) = DOk (php_numvar m n) (to_cnf (php_ir m n f o)).
Proof.
  intros Hm Hn P1 P2. apply in_range_roundtrip; auto; [unfold php_numvar; lia|apply php_range].
Qed.

Theorem tseitin_dimacs_roundtrip u h names n E ch :
  printable (tseitin_numvar E) -> printable (len (to_cnf (tseitin_ir n E ch))) ->
  parse_dimacs u (print_dimacs h names (tseitin_numvar E) (to_cnf (tseitin_ir n E ch))) = DOk (tseitin_numvar E) (to_cnf (tseitin_ir n E ch)).
Proof.
  intros P1 P2. apply in_range_roundtrip; auto; [|apply tseitin_in_range].
  rewrite tseitin_numvar_doc. apply len_nonneg.
Qed.

Theorem peb_dimacs_roundtrip u h names D nv f :
  peb_formula D = C3Ok nv f -> printable nv -> printable (len (to_cnf f)) ->
  parse_dimacs u (print_dimacs h names nv (to_cnf f)) = DOk nv (to_cnf f).
Proof.
  intros E P1 P2. apply in_range_roundtrip; auto; [|eapply peb_in_range; eauto].
  rewrite (peb_numvar_doc D nv f E). apply len_nonneg.
Qed.
