(* PipelinePb.v -- whole-program model of the command line tool `pbgen`:
   argv -> bytes written to standard output.  Definitions only.

   Models (the tree in /repo as it is now, CPython 3.12.1 and its argparse)
     cnfgen/clitools/pbgen.py      cli(): parse_command_line (a token "-T" ANYWHERE in the command line is a CLIError,
                                   before any parser runs; no transformation parser), the "did not pick a formula"
                                   check, build_formula(args, formula_class=OPB), to_file
     the main parser               the one of cnfgen.py (same option strings: Pipeline.pl_main_longs) except
                                   --output-format/-of: choices latex, opb (dimacs is an invalid choice), default opb
     cnfgen/clihelpers/*.py        the SAME helper objects as `cnfgen` (get_formula_helpers): Pipeline.pl_parse_formula
                                   is reused unchanged; build_formula with the class OPB
     cnfgen/formula/baseopb.py     class OPB receives the builder calls of the family: IR.to_opb of the calls
     cnfgen/utils/opb.py           to_file(fileformat='opb') on an OPB object -> OpbText.print_opb _ _ (FOpb n C)
     header                        the header of the formula + 'command line' = "pbgen " + " ".join(argv[1:]),
                                   every line prefixed "* " (PipelineHeader.plh_fresh / pl_fdesc are reused);
                                   error messages are prefixed "* " as well (not part of standard output)

   What differs from cnfgen.py, and only that:   -T (cnfgen only)   -of dimacs (cnfgen only; default of pbgen: opb)
   the formula class   the program name in the header.

   [plb_ir_of] is the list of builder calls a sub-command makes on the formula object, whatever its class;
   PipelinePbFacts.pl_build_via_ir proves that Pipeline.pl_build_with is `render` after it, so that the CNF the model
   of `cnfgen` writes and the constraints the model of `pbgen` writes are the two renderings of ONE list.

   The token grammar is the one of Pipeline.v (POutside elsewhere).  Identifiers are prefixed plb_. *)
From Coq Require Import ZArith List Bool Ascii String.
From Cnfgen Require Import Sem Comb Linear IR Text Dimacs OpbText Cli GraphSpec GraphIO Subst FamTab FamFast
     Fam_php Fam_count Fam_cliquecol Fam_subsetcard C02Common Fam_tseitin Fam_coloring Fam_domset Fam_subgraph
     C03_Util Fam_ordering Fam_ramsey Fam_cpls Fam_pebbling Header PipelineGraph Pipeline PipelineHeader.
Import ListNotations.
Open Scope Z_scope.

(* ------------------------------------------------------------------ *)
(* the builder calls of a sub-command                                  *)
(* ------------------------------------------------------------------ *)
Inductive plb_ires :=
| IrOk (n : Z) (l : list ir)
| IrErr            (* CLIError / ValueError turned into a command line error *)
| IrCrash.         (* any other exception *)

Definition plb_of_c3 (r : c3res) : plb_ires :=
  match r with
  | C3Ok nv f => IrOk nv f
  | C3Err C3ValueError => IrErr
  | C3Err _ => IrCrash
  end.
Definition plb_of_opt (nv : Z) (o : option (list ir)) : plb_ires :=
  match o with Some l => IrOk nv l | None => IrErr end.

Definition plb_ir_of (c : pl_fcmd) : plb_ires :=
  match c with
  | FcPhp m n f o => if php_valid m n then IrOk (php_numvar m n) (php_ir m n f o) else IrErr
  | FcBphp m n => if bphp_valid m n then IrOk (bphp_numvar m n) (bphp_ir m n) else IrErr
  | FcRphp p r h => if rphp_valid p r h then IrOk (rphp_numvar p r h) (rphp_ir p r h) else IrErr
  | FcCount M p => if count_valid M p then IrOk (count_numvar M p) (count_ir M p) else IrErr
  | FcCliqueCol n k c => if cc_valid n k c then IrOk (cc_numvar n k c) (cliquecol_ir n k c) else IrErr
  | FcOp n t s p kn => plb_of_c3 (op_formula n t s p kn)
  | FcRam s k N => plb_of_c3 (ram_formula s k N)
  | FcVdw N ks => plb_of_c3 (vdw_spec_formula N ks)
  | FcPtn N => plb_of_c3 (ptn_formula N)
  | FcCpls a b c => plb_of_c3 (cpls_formula a b c)
  | FcAnd p n => if (0 <=? p) && (0 <=? n) then IrOk (p + n) (pl_and_ir p n) else IrErr
  | FcOr p n => if (0 <=? p) && (0 <=? n) then IrOk (p + n) (pl_or_ir p n) else IrErr
  | FcTrue => IrOk 0 []
  | FcFalse => IrOk 0 [IClause []]
  | FcKcolor k n E => plb_of_opt (kcolor_numvar n k) (kcolor_ir n E k true)
  | FcEc n E => plb_of_opt (ec_numvar E) (ec_ir n E)
  | FcTiling n E => IrOk (tiling_numvar n) (tiling_ir n E)
  | FcMatching n E => IrOk (matching_numvar E) (matching_ir n E)
  | FcKclique k sb n E => plb_of_opt (kclique_numvar n k) (kclique_ir n E k sb)
  | FcKcliquebin k n E => plb_of_opt (kcliquebin_numvar n k) (kcliquebin_ir n E k true)
  | FcDomset d alt n E => plb_of_opt (domset_numvar n d) (domset_ir n E d alt)
  | FcTseitin ch n E => IrOk (tseitin_numvar E) (tseitin_ir n E ch)
  | FcGphp adj R f o => IrOk (gphp_numvar adj) (gphp_ir adj R f o)
  | FcSubsetcard adj R eq => IrOk (subsetcard_numvar adj) (subsetcard_ir adj R eq)
  | FcGop nb t s p kn => plb_of_c3 (gop_formula nb t s p kn)
  | FcPeb D => plb_of_c3 (peb_formula D)
  | FcStone s D => plb_of_c3 (stone_formula D s)
  end.

(* the same outcome seen through a rendering of the calls *)
Definition plb_rendered (render : list ir -> cnf) (r : plb_ires) : pl_fres :=
  match r with
  | IrOk n l => FrOk n (render l)
  | IrErr => FrErr
  | IrCrash => FrCrash
  end.

(* ------------------------------------------------------------------ *)
(* the formula object of pbgen                                         *)
(* ------------------------------------------------------------------ *)
Inductive plb_fres :=
| PbOk (n : Z) (C : list pbc)
| PbErr
| PbCrash
| PbOutside.

Definition plb_opb_of (r : plb_ires) : plb_fres :=
  match r with
  | IrOk n l => PbOk n (to_opb l)
  | IrErr => PbErr
  | IrCrash => PbCrash
  end.
(* args.generator.build_formula(args, formula_class=OPB) *)
Definition plb_build (c : pl_fcmd) : plb_fres := plb_opb_of (plb_ir_of c).

(* ------------------------------------------------------------------ *)
(* the main parser of pbgen                                            *)
(* ------------------------------------------------------------------ *)
(* options in front of the formula name: the group {--verbose/-v, --quiet/-q} and --output-format/-of with its
   argument (choices latex, opb).  Returns the quiet flag and, when a formula name follows, the parsed command *)
Fixpoint plb_parse_main (seen_q seen_v : bool) (toks : list text) : pl_parsed (bool * option pl_fcmd) :=
  match toks with
  | [] => PlOk (seen_q, None)                              (* no generator: reported by cli() *)
  | t :: r =>
    if gs_teqb t (lit "-q") || gs_teqb t (lit "--quiet") then
      if seen_v then PlErr else plb_parse_main true seen_v r
    else if gs_teqb t (lit "-v") || gs_teqb t (lit "--verbose") then
      if seen_q then PlErr else plb_parse_main seen_q true r
    else if gs_teqb t (lit "-of") || gs_teqb t (lit "--output-format") then
      match r with
      | [] => PlErr                                        (* expected one argument *)
      | f :: r' =>
        if pl_starts_dash f then PlOutside
        else if gs_teqb f (lit "opb") then plb_parse_main seen_q seen_v r'
        else if gs_teqb f (lit "latex") then PlOutside
        else PlErr                                         (* invalid choice (dimacs too) *)
      end
    else if pl_starts_dash t then PlOutside
    else match pl_parse_formula t r with
         | PlOk c => PlOk (seen_q, Some c)
         | PlErr => PlErr
         | PlOutside => PlOutside
         end
  end.

(* for arg in argv: if arg == '-T': raise CLIError *)
Definition plb_has_T (argv : list String.string) : bool := existsb (String.eqb "-T") argv.

(* parse_command_line *)
Definition plb_parse (argv : list String.string) : pl_parsed (bool * option pl_fcmd) :=
  let toks := map lit argv in
  if negb (forallb pl_is_ascii toks) then PlOutside
  else if plb_has_T argv then PlErr
  else plb_parse_main false false toks.

(* the builder calls behind a command line *)
Inductive plb_run :=
| RunIr (r : plb_ires)
| RunErr
| RunOutside.
Definition plb_ir (argv : list String.string) : plb_run :=
  match plb_parse argv with
  | PlOk (_, Some g) => RunIr (plb_ir_of g)
  | PlOk (_, None) => RunErr                               (* You did not tell which formula you wanted to generate *)
  | PlErr => RunErr
  | PlOutside => RunOutside
  end.

(* the formula object that reaches to_file *)
Definition plb_formula (argv : list String.string) : plb_fres :=
  match plb_ir argv with
  | RunIr r => plb_opb_of r
  | RunErr => PbErr
  | RunOutside => PbOutside
  end.

Definition plb_quiet_of (argv : list String.string) : bool :=
  match plb_parse argv with
  | PlOk (q, _) => q
  | _ => false
  end.

(* to_file(output, 'opb', export_header, export_varnames=False) on an OPB object *)
Definition plb_write (h : option Dimacs.header) (n : Z) (C : list pbc) : text := print_opb h None (FOpb n C).

Definition plb_render (h : option (option Dimacs.header)) (r : plb_fres) : pipeline_result :=
  match r with
  | PbOk n C => match h with
                | Some hh => POut (plb_write hh n C)
                | None => POutside
                end
  | PbErr => PCliError
  | PbCrash => PCrash
  | PbOutside => POutside
  end.

(* the program under -q (without -q: POutside, see pbgen_main_env) *)
Definition pbgen_main (argv : list String.string) : pipeline_result :=
  plb_render (if plb_quiet_of argv then Some None else None) (plb_formula argv).

(* ------------------------------------------------------------------ *)
(* without -q: the comment header                                      *)
(* ------------------------------------------------------------------ *)
Local Open Scope string_scope.
Definition plb_final (version : string) (argv : list string) (d : string) : Header.header :=
  List.app (plh_fresh version d) [(KO "command line", "pbgen " ++ plh_join " " argv)].
Definition plb_header (version : string) (argv : list string) (g : pl_fcmd) : option Dimacs.header :=
  match pl_fdesc g with
  | Some d => Some (plh_render (plb_final version argv d))
  | None => None
  end.
(* Some None = nothing (-q), Some (Some h) = the header h, None = a header that is not modelled *)
Definition plb_header_choice (version : string) (argv : list string) : option (option Dimacs.header) :=
  match plb_parse argv with
  | PlOk (true, _) => Some None
  | PlOk (false, Some g) => option_map Some (plb_header version argv g)
  | _ => None
  end.
(* the program with and without -q; [version] is info['version'] of the installation *)
Definition pbgen_main_env (version : string) (argv : list string) : pipeline_result :=
  plb_render (plb_header_choice version argv) (plb_formula argv).
