(* PipelineRand.v -- whole-program model of the command line tool `cnfgen` for command lines that USE RANDOMNESS:
   (argv, stream of primitive random draws) -> bytes written to standard output.  Definitions only.

   Extends Pipeline.v (same token grammar, same results) with
     cnfgen/clitools/cnfgen.py        --seed S / -S S among the leading options (SeedAction: int(S), installed when
                                      met; the model RECORDS the last seed, it does not compute with it: the seed
                                      selects the oracle);
     cnfgen/clihelpers/simple_helpers.py   randkcnf / randkxor  k n m [--plant|-p]     (Rand.rand_cmd / randxor_cmd)
     cnfgen/clihelpers/counting_helpers.py tseitin random|randomodd|randomeven <graph>  (random.randint(0,1) per vertex)
     cnfgen/clitools/graph_args.py, graph_build.py, cnfgen/graphs.py
                                      a graph argument whose plan (GraphSpec.gs_make) has a random step implemented
                                      by cnfgen itself: glrd L R d, glrm L R m (bipartite), and the options
                                      plantclique k, plantbiclique a b, addedges k, splitedges k on any construction
                                      of the grammar (GraphGen.gg_left_regular, gg_m_edges, gg_plantclique,
                                      gg_plantbiclique, gg_add_missing, gg_split_edges), for the sub-commands
                                      ec tiling matching kcolor kcliquebin kclique domset tseitin php subsetcard;
     cnfgen/clihelpers/transformation_helpers.py  -T shuffle [-p|--no-polarity-flips] [-v|--no-variables-permutation]
                                      [-c|--no-clauses-permutation]   (ShuffleMain's draw protocol: shm_bounds, shm_args)
     Lib/random.py (CPython 3.12.1)   Random.sample (both branches: the pool branch for n <= setsize, the set branch
                                      otherwise), Random.choice, Random.randint = randrange = a + _randbelow(b-a+1),
                                      Random.shuffle, Random._randbelow_with_getrandbits.

   THE ORACLE is the list of the values getrandbits(k) returned, in call order (ShuffleMain.shm_randbelow replays
   _randbelow on it).  THE ORDER in which the parts read it is the order of the program: the graph argument of the
   formula is sampled by the argparse action while the first chunk is parsed (construction, then plant.., addedges,
   splitedges); then build_formula draws (--plant, the random formula, the charges); then the transformations, left to
   right.  [cnfgen_main_rand argv oracle] returns the result of Pipeline.v together with the unread rest of the
   oracle, or PdEnd q (the oracle ended; q is the call that would come next: this is what lets a generator answer)
   or PdBad (a value getrandbits could not have returned).

   The samplers of Rand.v / GraphGen.v read streams of HIGHER LEVEL draws (the positions random.sample selected, the
   value random.choice / randint returned).  They are REUSED: a schedule of calls (plr_call) is decoded from the
   primitive stream into such draws ([plr_decode]; each decoded call remembers the primitive rest after it), the sampler
   runs on the decoded draws, and the number of draws it read says where the primitive stream continues.

   POutside on top of Pipeline.v's list: random.random() (gnp N p t, glrp), regular (the bounds of its draws depend on
   earlier draws), networkx's own samplers (gnp N p, gnm, gnd and the N [d] short forms), xorcomp / majcomp, op with
   a random graph, option save, every spelling of --seed other than `--seed S` / `-S S` with S a token int() accepts
   and that is not option-like.  Two invariants are CHECKED by the model instead of proved about the samplers (the
   result is POutside if one fails; the correspondence run would report it): a sampled simple graph satisfies
   C02Common.graph_wf, a sampled formula has its literals in range.
   A command line error raised after some draws were made (e.g. an unknown option after a sampled graph) is PCliError;
   the model does not say how many draws the tool made before it.

   Identifiers are prefixed plr_ / Pd / Rq / Ss / Rc / Rt / C (single extracted OCaml module). *)
From Coq Require Import ZArith List Bool Ascii String.
From Cnfgen Require Import Sem Comb Linear IR Text Dimacs OpbText Cli GraphSpec GText GraphIO GraphGen Subst Shuffle FamTab FamFast
     C02Common Rand ShuffleMain PipelineGraph Pipeline.
Import ListNotations.
Open Scope Z_scope.

(* ------------------------------------------------------------------ *)
(* reading the oracle                                                  *)
(* ------------------------------------------------------------------ *)
Inductive plr_req := RqBits (k : Z).          (* the next call would be getrandbits(k) *)

Inductive plr_dr (A : Type) :=
| PdOk (a : A) (rest : list Z)
| PdEnd (q : plr_req)
| PdBad.
Arguments PdOk {A} a rest.
Arguments PdEnd {A} q.
Arguments PdBad {A}.

(* Random._randbelow_with_getrandbits(n) *)
Definition plr_randbelow (n : Z) (o : list Z) : plr_dr Z :=
  match shm_randbelow n o with
  | DrOk r o' => PdOk r o'
  | DrEnd => PdEnd (RqBits (shm_bitlen n))
  | DrBad => PdBad
  end.

(* one _randbelow call per bound, in order (ShuffleMain.shm_draws, saying which call the stream ended in) *)
Fixpoint plr_belows (bounds : list Z) (o : list Z) : plr_dr (list Z) :=
  match bounds with
  | [] => PdOk [] o
  | b :: bs =>
    match plr_randbelow b o with
    | PdOk r o' =>
      match plr_belows bs o' with
      | PdOk rs o'' => PdOk (r :: rs) o''
      | PdEnd q => PdEnd q
      | PdBad => PdBad
      end
    | PdEnd q => PdEnd q
    | PdBad => PdBad
    end
  end.

(* ---- Random.sample(population, k), n = len(population): the POSITIONS selected, in order ---- *)
(* _ceil(_log(x, 4)) for x = 3k (never a power of 4) *)
Definition plr_ceil_log4 (x : Z) : Z := (Z.log2_up x + 1) / 2.
Definition plr_setsize (k : Z) : Z := if k <=? 5 then 21 else 21 + 4 ^ plr_ceil_log4 (3 * k).

(* n <= setsize: pool = list(population); for i in range(k): j = randbelow(n-i); result[i] = pool[j]; pool[j] = pool[n-i-1] *)
Fixpoint plr_pool (i : nat) (m : Z) (pool : list Z) (o : list Z) : plr_dr (list Z) :=
  match i with
  | O => PdOk [] o
  | S i' =>
    match plr_randbelow m o with
    | PdOk j o' =>
      let jn := Z.to_nat j in
      match plr_pool i' (m - 1) (shm_set jn (nth (Z.to_nat (m - 1)) pool 0) pool) o' with
      | PdOk vs o'' => PdOk (nth jn pool 0 :: vs) o''
      | PdEnd q => PdEnd q
      | PdBad => PdBad
      end
    | PdEnd q => PdEnd q
    | PdBad => PdBad
    end
  end.

(* n > setsize: j = randbelow(n); while j in selected: j = randbelow(n)   (both rejection loops in one) *)
Fixpoint plr_pick (n : Z) (sel : list Z) (o : list Z) : plr_dr Z :=
  match o with
  | [] => PdEnd (RqBits (shm_bitlen n))
  | r :: o' =>
    if (r <? 0) || (2 ^ shm_bitlen n <=? r) then PdBad
    else if (r <? n) && negb (existsb (Z.eqb r) sel) then PdOk r o'
    else plr_pick n sel o'
  end.
Fixpoint plr_setsel (i : nat) (n : Z) (sel : list Z) (o : list Z) : plr_dr (list Z) :=
  match i with
  | O => PdOk [] o
  | S i' =>
    match plr_pick n sel o with
    | PdOk j o' =>
      match plr_setsel i' n (j :: sel) o' with
      | PdOk vs o'' => PdOk (j :: vs) o''
      | PdEnd q => PdEnd q
      | PdBad => PdBad
      end
    | PdEnd q => PdEnd q
    | PdBad => PdBad
    end
  end.
(* k < 0 or k > n: CPython raises ValueError before any draw; the samplers of Rand.v / GraphGen.v model that
   themselves and never read such a call: here it is simply not decodable *)
Definition plr_sample (n k : Z) (o : list Z) : plr_dr (list Z) :=
  if (k <? 0) || (n <? k) then PdBad
  else if n <=? plr_setsize k then plr_pool (Z.to_nat k) n (zrange 0 n) o
  else plr_setsel (Z.to_nat k) n [] o.

(* ------------------------------------------------------------------ *)
(* schedules of calls and their decoding                               *)
(* ------------------------------------------------------------------ *)
Inductive plr_call :=
| CSample (n k : Z)          (* random.sample(pop, k), len(pop) = n : the k positions *)
| CChoice (vals : list Z)    (* random.choice(vals) : the value *)
| CRandint (a b : Z).        (* random.randint(a, b) : the value *)

Definition plr_call_vals (c : plr_call) (o : list Z) : plr_dr (list Z) :=
  match c with
  | CSample n k => plr_sample n k o
  | CChoice vals =>
    match plr_randbelow (len vals) o with
    | PdOk r o' => PdOk [nth (Z.to_nat r) vals 0] o'
    | PdEnd q => PdEnd q
    | PdBad => PdBad
    end
  | CRandint a b =>
    match plr_randbelow (b - a + 1) o with
    | PdOk r o' => PdOk [a + r] o'
    | PdEnd q => PdEnd q
    | PdBad => PdBad
    end
  end.

Inductive plr_status := SsDone | SsEnd (q : plr_req) | SsBad.
Record plr_item := mk_plr_item { pi_call : plr_call; pi_vals : list Z; pi_rest : list Z }.

(* the calls are thunks: the population size of a later call may be expensive and is computed only when reached *)
Fixpoint plr_decode (calls : list (unit -> plr_call)) (o : list Z) : list plr_item * plr_status :=
  match calls with
  | [] => ([], SsDone)
  | th :: more =>
    let c := th tt in
    match plr_call_vals c o with
    | PdOk vs o' => let x := plr_decode more o' in (mk_plr_item c vs o' :: fst x, snd x)
    | PdEnd q => ([], SsEnd q)
    | PdBad => ([], SsBad)
    end
  end.

Fixpoint plr_last_rest (items : list plr_item) (o : list Z) : list Z :=
  match items with
  | [] => o
  | it :: tl => plr_last_rest tl (pi_rest it)
  end.
(* where the primitive stream continues after the first c higher-level draws (sizes: draws per decoded call) *)
Fixpoint plr_rest_after (c : nat) (items : list (nat * list Z)) (o : list Z) : list Z :=
  match items with
  | [] => o
  | (sz, r) :: tl => match c with O => o | S _ => plr_rest_after (c - sz) tl r end
  end.
Definition plr_status_dr {A} (s : plr_status) : plr_dr A :=
  match s with SsEnd q => PdEnd q | _ => PdBad end.

(* a sampler of GraphGen.v (stream of Z: positions / values) whose successful runs read the whole schedule *)
Definition plr_exact {A} (calls : list (unit -> plr_call)) (hl : gg_stream -> gg_res (A * gg_stream)) (o : list Z)
  : plr_dr (pl_parsed A) :=
  let d := plr_decode calls o in
  match hl (flat_map pi_vals (fst d)) with
  | GGOk (a, _) => match snd d with SsDone => PdOk (PlOk a) (plr_last_rest (fst d) o) | s => plr_status_dr s end
  | GGRaise EValueError => PdOk PlErr o
  | GGBadOracle => plr_status_dr (snd d)
  | _ => PdOk PlOutside o
  end.
(* a sampler that stops reading when it is done: the primitive stream continues after the draws it read *)
Definition plr_tracked {A} (calls : list (unit -> plr_call)) (hl : gg_stream -> gg_res (A * gg_stream)) (o : list Z)
  : plr_dr (pl_parsed A) :=
  let d := plr_decode calls o in
  let toks := flat_map pi_vals (fst d) in
  match hl toks with
  | GGOk (a, rest) =>
    PdOk (PlOk a) (plr_rest_after (List.length toks - List.length rest)
                                  (map (fun it => (List.length (pi_vals it), pi_rest it)) (fst d)) o)
  | GGRaise EValueError => PdOk PlErr o
  | GGBadOracle => plr_status_dr (snd d)
  | _ => PdOk PlOutside o
  end.

(* ------------------------------------------------------------------ *)
(* the graph argument                                                  *)
(* ------------------------------------------------------------------ *)
Definition plr_rep (n : Z) (c : plr_call) : list (unit -> plr_call) := repeat (fun _ => c) (Z.to_nat n).

(* add_random_missing_edges: up to 10*m rounds of edge_sampler() (random.sample(Left,1), random.sample(Right,1) |
   random.sample(range(1,V+1),2)), stopped when the goal is reached; if it is not, random.sample(available_edges(), missing) *)
Definition plr_ae_period (G : iograph) : list (unit -> plr_call) :=
  match io_kind G with
  | GioBipartite => [(fun _ => CSample (io_n G) 1); (fun _ => CSample (io_r G) 1)]
  | _ => [fun _ => CSample (io_n G) 2]
  end.
Definition plr_addedges (G : iograph) (m : Z) (o : list Z) : plr_dr (pl_parsed iograph) :=
  let goal := gg_nedges G + m in
  let d1 := plr_decode (List.concat (repeat (plr_ae_period G) (Z.to_nat (10 * m)))) o in
  let toks1 := flat_map pi_vals (fst d1) in
  match gg_ae_loop (10 * m) goal G toks1 with
  | GGOk (G1, rest1) =>
    let c1 := (List.length toks1 - List.length rest1)%nat in
    let o1 := plr_rest_after c1 (map (fun it => (List.length (pi_vals it), pi_rest it)) (fst d1)) o in
    let used := firstn c1 toks1 in
    if gg_nedges G1 <? goal then
      let d2 := plr_decode [fun _ => CSample (gg_len (gg_available G1)) (goal - gg_nedges G1)] o1 in
      match gg_add_missing G m (used ++ flat_map pi_vals (fst d2)) with
      | GGOk (G', _) => match snd d2 with SsDone => PdOk (PlOk G') (plr_last_rest (fst d2) o1) | s => plr_status_dr s end
      | GGRaise EValueError => PdOk PlErr o
      | GGBadOracle => plr_status_dr (snd d2)
      | _ => PdOk PlOutside o
      end
    else
      match gg_add_missing G m used with
      | GGOk (G', _) => PdOk (PlOk G') o1
      | GGRaise EValueError => PdOk PlErr o
      | _ => PdOk PlOutside o
      end
  | GGRaise EValueError => PdOk PlErr o
  | GGBadOracle =>
    (* the guards of add_random_missing_edges come first: they need no draw *)
    match gg_add_missing G m [] with
    | GGRaise EValueError => PdOk PlErr o
    | _ => plr_status_dr (snd d1)
    end
  | _ => PdOk PlOutside o
  end.

(* the construction *)
Definition plr_gen (c : gs_call) (o : list Z) : plr_dr (pl_parsed iograph) :=
  match c with
  | GCGlrd l r d => plr_exact (plr_rep l (CSample r (Z.min r d))) (gg_left_regular l r d) o
  | GCGlrm l r m =>
    if l * r / 3 <? m then plr_exact [fun _ => CSample (l * r) m] (gg_m_edges l r m) o
    else plr_tracked (List.concat (repeat [(fun _ => CRandint 1 l); (fun _ => CRandint 1 r)] (S (List.length o))))
                     (gg_m_edges l r m) o
  | GCGnp _ _ _ | GCGnm _ _ | GCGnd _ _ | GCGlrp _ _ _ | GCRegular _ _ _ => PdOk PlOutside o
  | _ => PdOk (plg_build_call c) o
  end.

Definition plr_step (G : iograph) (s : gs_step) (o : list Z) : plr_dr (pl_parsed iograph) :=
  match s with
  | SGen _ => PdOk PlOutside o
  | SPlantClique k => plr_exact [fun _ => CSample (io_n G) k] (gg_plantclique G k) o
  | SPlantBiclique a b => plr_exact [(fun _ => CSample (io_n G) a); (fun _ => CSample (io_r G) b)] (gg_plantbiclique G a b) o
  | SAddEdges k => plr_addedges G k o
  | SSplitEdges k => plr_exact [fun _ => CSample (gg_nedges G) k] (gg_split_edges G k) o
  | SSave _ _ => PdOk PlOutside o
  end.
Fixpoint plr_steps (G : iograph) (steps : list gs_step) (o : list Z) : plr_dr (pl_parsed iograph) :=
  match steps with
  | [] => PdOk (PlOk G) o
  | s :: more =>
    match plr_step G s o with
    | PdOk (PlOk G') o' => plr_steps G' more o'
    | other => other
    end
  end.

Definition plr_call_random (c : gs_call) : bool :=
  match c with
  | GCGnp _ _ _ | GCGnm _ _ | GCGnd _ _ | GCGlrp _ _ _ | GCGlrm _ _ _ | GCGlrd _ _ _ | GCRegular _ _ _ => true
  | _ => false
  end.

(* what the families need of a sampled graph (PipelineFacts.pl_cmd_wf): checked, see the header *)
Definition plr_graph_checked (g : gs_gtype) (G : iograph) : pl_parsed iograph :=
  if negb (plg_kind_eqb (io_kind G) (plg_kind_of g)) then PlOutside
  else match g with
       | GSSimple => if graph_wf (io_n G) (io_edges G) then PlOk G else PlOutside
       | _ => PlOk G
       end.

(* ObtainXGraph.__call__(values): a plan without random step is Pipeline.v's graph argument *)
Definition plr_graph_arg (g : gs_gtype) (values : list text) (o : list Z) : plr_dr (pl_parsed iograph) :=
  match gs_make (0, 0) g values with
  | inl (GSVOk (SGen c :: mods)) =>
    if plr_call_random c || negb (gs_is_nil mods) then
      match plr_gen c o with
      | PdOk (PlOk G0) o0 =>
        match plr_steps G0 mods o0 with
        | PdOk (PlOk G) o' => PdOk (plr_graph_checked g G) o'
        | other => other
        end
      | other => other
      end
    else PdOk (plg_graph_arg g values) o
  | _ => PdOk (plg_graph_arg g values) o
  end.

(* ------------------------------------------------------------------ *)
(* commands                                                            *)
(* ------------------------------------------------------------------ *)
Inductive plr_fcmd :=
| RcDet (c : pl_fcmd)                                  (* built without a draw: Pipeline.pl_build *)
| RcRand (xor : bool) (k n m : Z) (planted : bool)     (* randkcnf / randkxor *)
| RcTseitin (mode : Z) (n : Z) (E : list (Z * Z)).     (* charges: 0 random, 1 randomodd, 2 randomeven *)

Inductive plr_tcmd :=
| RtDet (t : pl_tcmd)
| RtShuffle (nop nov noc : bool).

(* where the graph argument of a sub-command is, and what the sub-command does with the graph; None: the tokens do
   not have that shape and Pipeline.pl_parse_formula decides (error, outside, no graph) *)
Definition plr_kont := iograph -> pl_parsed plr_fcmd.
Definition plr_site := (gs_gtype * list text * plr_kont)%type.

Definition plr_site_graph_only (g : gs_gtype) (mk : iograph -> pl_fcmd) (toks : list text) : option plr_site :=
  let cls := map (pl_classify []) toks in
  if existsb pl_is_out cls || existsb pl_is_unknown cls then None
  else match pl_plus cls with
       | Some vs => Some (g, vs, fun G => PlOk (RcDet (mk G)))
       | None => None
       end.
Definition plr_site_int_graph (flags : list text) (ty : argty) (g : gs_gtype)
           (mk : list pl_class -> Z -> iograph -> pl_fcmd) (toks : list text) : option plr_site :=
  let cls := map (pl_classify_gen flags []) toks in
  if existsb pl_is_out cls || existsb pl_is_unknown cls then None
  else match pl_one_plus cls with
       | Some (tx, vs) =>
         match gs_int tx with
         | Some x => if argty_ok ty x then Some (g, vs, fun G => PlOk (RcDet (mk cls x G))) else None
         | None => None
         end
       | None => None
       end.
Definition plr_charge_mode (name : text) : Z :=
  if gs_teqb name (lit "randomodd") then 1 else if gs_teqb name (lit "randomeven") then 2 else 0.
Definition plr_site_tseitin (toks : list text) : option plr_site :=
  let cls := map (pl_classify []) toks in
  if existsb pl_is_out cls || existsb pl_is_unknown cls then None
  else match pl_star cls with
       | Some (v0 :: v1 :: vs) =>
         if gs_float_ok v0 || negb (gs_mem v0 pl_charge_names) then None
         else Some (GSSimple, v1 :: vs,
                    fun G => match pl_charge v0 (io_n G) with
                             | Some ch => PlOk (RcDet (FcTseitin ch (io_n G) (io_edges G)))
                             | None => PlOk (RcTseitin (plr_charge_mode v0) (io_n G) (io_edges G))
                             end)
       | _ => None
       end.
Definition plr_site_php (toks : list text) : option plr_site :=
  let cls := map (pl_classify pl_php_flags) toks in
  if existsb pl_is_out cls then None
  else match pl_star cls with
       | Some (v0 :: vs) =>
         if gs_float_ok v0 then None
         else Some (GSBipartite, v0 :: vs,
                    fun G => if existsb pl_is_unknown cls then PlErr
                             else PlOk (RcDet (FcGphp (plg_adj (io_n G) (io_edges G)) (io_r G)
                                                      (pl_has_flag "--functional" cls) (pl_has_flag "--onto" cls))))
       | _ => None
       end.
Definition plr_site_subsetcard (toks : list text) : option plr_site :=
  let cls := map (pl_classify pl_sc_flags) toks in
  if existsb pl_is_out cls || existsb pl_is_unknown cls then None
  else match pl_star cls with
       | Some (v0 :: vs) =>
         if gs_float_ok v0 then None
         else Some (GSBipartite, v0 :: vs,
                    fun G => PlOk (RcDet (FcSubsetcard (plg_adj (io_n G) (io_edges G)) (io_r G)
                                                       (pl_has_flag "--equal" cls || pl_has_flag "-e" cls))))
       | _ => None
       end.

Definition plr_site_of (name : text) (toks : list text) : option plr_site :=
  if pl_is name "kcolor" then
    plr_site_int_graph [] TPos GSSimple (fun _ k G => FcKcolor k (io_n G) (io_edges G)) toks
  else if pl_is name "kcliquebin" then
    plr_site_int_graph [] TNonNeg GSSimple (fun _ k G => FcKcliquebin k (io_n G) (io_edges G)) toks
  else if pl_is name "kclique" then
    plr_site_int_graph [lit "--no-symmetry-breaking"] TNonNeg GSSimple
      (fun cls k G => FcKclique k (negb (pl_has_flag "--no-symmetry-breaking" cls)) (io_n G) (io_edges G)) toks
  else if pl_is name "domset" then
    plr_site_int_graph [lit "--alternative"; lit "-a"] TPos GSSimple
      (fun cls d G => FcDomset d (pl_has_flag "--alternative" cls || pl_has_flag "-a" cls) (io_n G) (io_edges G)) toks
  else if pl_is name "ec" then plr_site_graph_only GSSimple (fun G => FcEc (io_n G) (io_edges G)) toks
  else if pl_is name "tiling" then plr_site_graph_only GSSimple (fun G => FcTiling (io_n G) (io_edges G)) toks
  else if pl_is name "matching" then plr_site_graph_only GSSimple (fun G => FcMatching (io_n G) (io_edges G)) toks
  else if pl_is name "tseitin" then plr_site_tseitin toks
  else if pl_is name "php" then plr_site_php toks
  else if pl_is name "subsetcard" then plr_site_subsetcard toks
  else None.

Definition plr_rand_flags : list text := [lit "--plant"; lit "-p"].
(* simple_helpers.py: RandCmdHelper / RandXorHelper.setup_command_line: k n (positive_int) m (nonnegative_int), --plant/-p *)
Definition plr_parse_randk (xor : bool) (toks : list text) : pl_parsed plr_fcmd :=
  let cls := map (pl_classify plr_rand_flags) toks in
  if existsb pl_is_out cls then PlOutside
  else if existsb pl_is_unknown cls then PlErr
  else match check_args [TPos; TPos; TNonNeg] None
                        (map gs_int (flat_map (fun c => match c with PlPos t => [t] | _ => [] end) cls)) with
       | Some [k; n; m] => PlOk (RcRand xor k n m (pl_has_flag "--plant" cls || pl_has_flag "-p" cls))
       | _ => PlErr
       end.

Definition plr_lift_det (x : pl_parsed pl_fcmd) : pl_parsed plr_fcmd := pl_map_parsed RcDet x.

(* the formula sub-command: the only place where the parser draws *)
Definition plr_parse_formula (name : text) (toks : list text) (o : list Z) : plr_dr (pl_parsed plr_fcmd) :=
  if pl_is name "randkcnf" then PdOk (plr_parse_randk false toks) o
  else if pl_is name "randkxor" then PdOk (plr_parse_randk true toks) o
  else match plr_site_of name toks with
       | Some (g, vs, k) =>
         match plr_graph_arg g vs o with
         | PdOk (PlOk G) o' => PdOk (k G) o'
         | PdOk PlErr o' => PdOk PlErr o'
         | PdOk PlOutside o' => PdOk PlOutside o'
         | PdEnd q => PdEnd q
         | PdBad => PdBad
         end
       | None => PdOk (plr_lift_det (pl_parse_formula name toks)) o
       end.

Record plr_head := mk_plr_head { plr_opts_of : pl_opts; plr_seed_of : option Z; plr_gen_of : option plr_fcmd }.

(* Pipeline.pl_parse_main with --seed / -S: int(token), the last one wins *)
Fixpoint plr_parse_main (seen_q seen_v opb : bool) (seed : option Z) (toks : list text) (o : list Z)
  : plr_dr (pl_parsed plr_head) :=
  match toks with
  | [] => PdOk (PlOk (mk_plr_head (mk_pl_opts seen_q opb) seed None)) o
  | t :: r =>
    if gs_teqb t (lit "-q") || gs_teqb t (lit "--quiet") then
      if seen_v then PdOk PlErr o else plr_parse_main true seen_v opb seed r o
    else if gs_teqb t (lit "-v") || gs_teqb t (lit "--verbose") then
      if seen_q then PdOk PlErr o else plr_parse_main seen_q true opb seed r o
    else if gs_teqb t (lit "-of") || gs_teqb t (lit "--output-format") then
      match r with
      | [] => PdOk PlErr o
      | f :: r' =>
        if pl_starts_dash f then PdOk PlOutside o
        else if gs_teqb f (lit "dimacs") then plr_parse_main seen_q seen_v false seed r' o
        else if gs_teqb f (lit "opb") then plr_parse_main seen_q seen_v true seed r' o
        else if gs_teqb f (lit "latex") then PdOk PlOutside o
        else PdOk PlErr o
      end
    else if gs_teqb t (lit "--seed") || gs_teqb t (lit "-S") then
      match r with
      | [] => PdOk PlErr o                                   (* expected one argument *)
      | v :: r' =>
        if pl_starts_dash v && negb (pl_all_digits (tl v)) then PdOk PlOutside o
        else match gs_int v with
             | Some z => plr_parse_main seen_q seen_v opb (Some z) r' o
             | None => PdOk PlErr o                          (* invalid int value *)
             end
      end
    else if pl_starts_dash t then PdOk PlOutside o
    else match plr_parse_formula t r o with
         | PdOk (PlOk c) o' => PdOk (PlOk (mk_plr_head (mk_pl_opts seen_q opb) seed (Some c))) o'
         | PdOk PlErr o' => PdOk PlErr o'
         | PdOk PlOutside o' => PdOk PlOutside o'
         | PdEnd q => PdEnd q
         | PdBad => PdBad
         end
  end.

Definition plr_shuffle_flags : list text :=
  [lit "--no-polarity-flips"; lit "-p"; lit "--no-variables-permutation"; lit "-v"; lit "--no-clauses-permutation"; lit "-c"].
Definition plr_parse_shuffle (toks : list text) : pl_parsed plr_tcmd :=
  let cls := map (pl_classify plr_shuffle_flags) toks in
  if existsb pl_is_out cls then PlOutside
  else if existsb pl_is_unknown cls || existsb pl_is_pos cls then PlErr
  else PlOk (RtShuffle (pl_has_flag "--no-polarity-flips" cls || pl_has_flag "-p" cls)
                       (pl_has_flag "--no-variables-permutation" cls || pl_has_flag "-v" cls)
                       (pl_has_flag "--no-clauses-permutation" cls || pl_has_flag "-c" cls)).

Definition plr_parse_tchunk (toks : list text) : pl_parsed (option plr_tcmd) :=
  match toks with
  | t :: r =>
    if forallb pl_is_ascii toks && negb (pl_starts_dash t) && pl_is t "shuffle"
    then pl_map_parsed Some (plr_parse_shuffle r)
    else pl_map_parsed (option_map RtDet) (pl_parse_tchunk toks)
  | [] => pl_map_parsed (option_map RtDet) (pl_parse_tchunk toks)
  end.
Fixpoint plr_parse_tchunks (chunks : list (list text)) : pl_parsed (list (option plr_tcmd)) :=
  match chunks with
  | [] => PlOk []
  | c :: r =>
    match plr_parse_tchunk c with
    | PlOk t => match plr_parse_tchunks r with
                | PlOk ts => PlOk (t :: ts)
                | PlErr => PlErr
                | PlOutside => PlOutside
                end
    | PlErr => PlErr
    | PlOutside => PlOutside
    end
  end.

Record plr_cmdline := mk_plr_cmdline { plr_head_of : plr_head; plr_ts : list (option plr_tcmd) }.

(* STAGE 1: parse_command_line; the graph argument is sampled here *)
Definition plr_stage_parse (chunks : list (list text)) (o : list Z) : plr_dr (pl_parsed plr_cmdline) :=
  match chunks with
  | [] => PdOk PlOutside o
  | c0 :: rest =>
    if negb (forallb pl_is_ascii c0) then PdOk PlOutside o
    else match plr_parse_main false false false None c0 o with
         | PdOk (PlOk h) o' =>
           PdOk (match plr_parse_tchunks rest with
                 | PlOk ts => PlOk (mk_plr_cmdline h ts)
                 | PlErr => PlErr
                 | PlOutside => PlOutside
                 end) o'
         | PdOk PlErr o' => PdOk PlErr o'
         | PdOk PlOutside o' => PdOk PlOutside o'
         | PdEnd q => PdEnd q
         | PdBad => PdBad
         end
  end.

(* ------------------------------------------------------------------ *)
(* STAGE 2: build_formula                                              *)
(* ------------------------------------------------------------------ *)
Definition plr_draw_of (it : plr_item) : draw :=
  match pi_call it with
  | CSample _ _ => DSample (map Z.to_nat (pi_vals it))
  | CChoice _ => DChoice (hd 0 (pi_vals it))
  | CRandint _ _ => DInt (hd 0 (pi_vals it))
  end.

(* one round of sample_clauses / sample_parities *)
Definition plr_period (xor : bool) (k n : Z) : list (unit -> plr_call) :=
  (fun _ => CSample n k) ::
  (if xor then [fun _ => CRandint 0 1] else repeat (fun _ => CChoice [1; -1]) (Z.to_nat k)).
Definition plr_fullsize (xor : bool) (k n : Z) (planted : list (list Z)) : Z :=
  if xor then match all_good_parities k n planted with Some l => len l | None => 0 end
  else len (all_clauses k n planted).
(* up to 10*m rounds, then random.sample(fullset, m) *)
Definition plr_rand_schedule (xor : bool) (k n m : Z) (planted : list (list Z)) : list (unit -> plr_call) :=
  List.concat (repeat (plr_period xor k n) (Z.to_nat (10 * m))) ++ [fun _ => CSample (plr_fullsize xor k n planted) m].
(* planted = [random.choice([-1,1])*v for v in range(1,n+1)] *)
Definition plr_plant_schedule (n : Z) : list (unit -> plr_call) := plr_rep n (CChoice [-1; 1]).

Definition plr_checked (nv : Z) (F : cnf) : pl_fres :=
  if (0 <=? nv) && lits_in_range nv F then FrOk nv F else FrOutside.

Definition plr_rand_run (xor : bool) (k n m : Z) (pl : bool) (o : list Z) : plr_dr pl_fres :=
  let d1 := if pl then plr_decode (plr_plant_schedule n) o else ([], SsDone) in
  let t1 := map plr_draw_of (fst d1) in
  let o1 := plr_last_rest (fst d1) o in
  match snd d1 with
  | SsEnd q => PdEnd q
  | SsBad => PdBad
  | SsDone =>
    let planted := if pl then match Rand.plant n t1 with ROk (p, _) => [p] | _ => [] end else [] in
    let d2 := plr_decode (plr_rand_schedule xor k n m planted) o1 in
    let toks := t1 ++ map plr_draw_of (fst d2) in
    let sizes := map (fun it => (1%nat, pi_rest it)) (fst d1 ++ fst d2) in
    let fin (nv : Z) (F : cnf) (rest : list draw) :=
        PdOk (plr_checked nv F) (plr_rest_after (List.length toks - List.length rest) sizes o) in
    if xor then
      match randxor_cmd k n m pl toks with
      | ROk (nv, _, F, rest) => fin nv F rest
      | RValueError => PdOk FrErr o
      | ROracleEnd => plr_status_dr (snd d2)
      | ROracleBad => PdBad
      end
    else
      match rand_cmd k n m pl toks with
      | ROk (nv, F, rest) => fin nv F rest
      | RValueError => PdOk FrErr o
      | ROracleEnd => plr_status_dr (snd d2)
      | ROracleBad => PdBad
      end
  end.

(* charge = [random.randint(0,1) for _ in range(n-1)]; then randint(0,1) | 1 - parity | parity *)
Definition plr_charges (mode n : Z) (rs : list Z) : list bool :=
  let firsts := firstn (Z.to_nat (n - 1)) rs in
  let parity := (fold_right Z.add 0 firsts) mod 2 in
  map (fun r => r =? 1) firsts ++
  [if mode =? 0 then (nth (Z.to_nat (n - 1)) rs 0 =? 1) else if mode =? 1 then (1 - parity =? 1) else (parity =? 1)].
Definition plr_charge_bounds (mode n : Z) : list Z := repeat 2 (Z.to_nat (if mode =? 0 then n else n - 1)).

Definition plr_stage_family (c : plr_fcmd) (o : list Z) : plr_dr pl_fres :=
  match c with
  | RcDet d => PdOk (pl_build_fast d) o
  | RcRand xor k n m pl => plr_rand_run xor k n m pl o
  | RcTseitin mode n E =>
    match plr_belows (plr_charge_bounds mode n) o with
    | PdOk rs o' => PdOk (pl_build_fast (FcTseitin (Some (plr_charges mode n rs)) n E)) o'
    | PdEnd q => PdEnd q
    | PdBad => PdBad
    end
  end.

(* ------------------------------------------------------------------ *)
(* STAGE 3: the transformations, left to right                         *)
(* ------------------------------------------------------------------ *)
Definition plr_shuffle (nop nov noc : bool) (n : Z) (F : cnf) (o : list Z) : plr_dr pl_fres :=
  match plr_belows (shm_bounds nop nov noc n (len F)) o with
  | PdOk rs o' =>
    let '(fl, pm, cp) := shm_args nop nov noc n (len F) rs in
    match shuffle n F fl pm cp with
    | ShOk n' out => PdOk (plr_checked n' out) o'
    | _ => PdOk FrErr o'
    end
  | PdEnd q => PdEnd q
  | PdBad => PdBad
  end.

Definition plr_tstep (t : plr_tcmd) (n : Z) (F : cnf) (o : list Z) : plr_dr pl_fres :=
  match t with
  | RtDet d => PdOk (pl_transform d n F) o
  | RtShuffle a b c => plr_shuffle a b c n F o
  end.
Fixpoint plr_chain (ts : list plr_tcmd) (acc : pl_fres) (o : list Z) : plr_dr pl_fres :=
  match ts with
  | [] => PdOk acc o
  | t :: more =>
    match acc with
    | FrOk n F =>
      match plr_tstep t n F o with
      | PdOk r o' => plr_chain more r o'
      | PdEnd q => PdEnd q
      | PdBad => PdBad
      end
    | other => PdOk other o
    end
  end.

(* ------------------------------------------------------------------ *)
(* the whole program                                                   *)
(* ------------------------------------------------------------------ *)
(* cli() after the parsers returned: the two "did not pick" checks, then the stages *)
Definition plr_after_parse (c : plr_cmdline) (o : list Z) : plr_dr pl_fres :=
  match plr_gen_of (plr_head_of c) with
  | None => PdOk FrErr o
  | Some g =>
    match pl_all_some (plr_ts c) with
    | None => PdOk FrErr o
    | Some ts =>
      match plr_stage_family g o with
      | PdOk F o' => plr_chain ts F o'
      | PdEnd q => PdEnd q
      | PdBad => PdBad
      end
    end
  end.

Definition plr_finish (c : plr_cmdline) (r : pl_fres) : pipeline_result :=
  pl_render (pl_quiet (plr_opts_of (plr_head_of c))) (pl_opb (plr_opts_of (plr_head_of c))) r.

Definition plr_main (argv : list String.string) (o : list Z) : plr_dr pipeline_result :=
  match plr_stage_parse (pl_chunks_of argv) o with
  | PdOk (PlOk c) o1 =>
    match plr_after_parse c o1 with
    | PdOk r o2 => PdOk (plr_finish c r) o2
    | PdEnd q => PdEnd q
    | PdBad => PdBad
    end
  | PdOk PlErr o1 => PdOk PCliError o1
  | PdOk PlOutside o1 => PdOk POutside o1
  | PdEnd q => PdEnd q
  | PdBad => PdBad
  end.

(* the words that announce a random part *)
Definition plr_random_words : list text :=
  [lit "--seed"; lit "-S"; lit "randkcnf"; lit "randkxor"; lit "gnp"; lit "gnm"; lit "gnd"; lit "glrp"; lit "glrm"; lit "glrd";
   lit "regular"; lit "plantclique"; lit "plantbiclique"; lit "addedges"; lit "splitedges";
   lit "random"; lit "randomodd"; lit "randomeven"].
Definition plr_uses_random (argv : list String.string) : bool :=
  match pl_chunks_of argv with
  | [] => false
  | c0 :: rest =>
    existsb (fun t => gs_mem t plr_random_words) c0 ||
    existsb (fun c => match c with t :: _ => pl_is t "shuffle" | [] => false end) rest
  end.

Definition cnfgen_main_rand (argv : list String.string) (oracle : list Z) : plr_dr pipeline_result :=
  if plr_uses_random argv then plr_main argv oracle else PdOk (cnfgen_main_fast argv) oracle.

(* the seed the command line installs: the last --seed / -S among the leading options (None: the generator keeps
   the state it had).  No draw is made before the formula name is reached. *)
Fixpoint plr_seed_scan (seed : option Z) (toks : list text) : option Z :=
  match toks with
  | [] => seed
  | t :: r =>
    if gs_teqb t (lit "-q") || gs_teqb t (lit "--quiet") || gs_teqb t (lit "-v") || gs_teqb t (lit "--verbose")
    then plr_seed_scan seed r
    else if gs_teqb t (lit "-of") || gs_teqb t (lit "--output-format") then
      match r with _ :: r' => plr_seed_scan seed r' | [] => seed end
    else if gs_teqb t (lit "--seed") || gs_teqb t (lit "-S") then
      match r with
      | v :: r' => match gs_int v with Some z => plr_seed_scan (Some z) r' | None => seed end
      | [] => seed
      end
    else seed
  end.
Definition plr_seed (argv : list String.string) : option Z :=
  match pl_chunks_of argv with
  | c0 :: _ => plr_seed_scan None c0
  | [] => None
  end.

(* ------------------------------------------------------------------ *)
(* a run against a generator                                           *)
(* ------------------------------------------------------------------ *)
Section Generator.
  Context {G : Type}.
  Context (bits : Z -> G -> Z * G).      (* getrandbits(k) : value and next state *)

  (* the tool asks, the generator answers: the oracle is extended by one value whenever the model says which call
     comes next; None = the fuel ran out (rejection loops are not bounded) *)
  Fixpoint plr_gen_loop (fuel : nat) (f : list Z -> plr_dr pipeline_result) (g : G) (o : list Z)
    : option (plr_dr pipeline_result * list Z) :=
    match fuel with
    | O => None
    | S fl =>
      match f o with
      | PdEnd (RqBits k) => let '(v, g') := bits k g in plr_gen_loop fl f g' (o ++ [v])
      | r => Some (r, o)
      end
    end.

  (* one run of the tool: the generator starts in state g0; `random.seed(S)` replaces the state when a seed is
     given; the result comes with the values the generator handed out *)
  Definition cnfgen_run_rand (seed_fn : Z -> G) (fuel : nat) (argv : list String.string) (g0 : G)
    : option (plr_dr pipeline_result * list Z) :=
    plr_gen_loop fuel (cnfgen_main_rand argv) (match plr_seed argv with Some s => seed_fn s | None => g0 end) [].
End Generator.
