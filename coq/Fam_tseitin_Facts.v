(* Fam_tseitin_Facts.v — Tseitin formulas: characterisation of the satisfying assignments (T1)
   and the double-counting argument: a union of connected components with odd total charge
   makes the formula unsatisfiable (T3, the direction reused by the Pitfall formula). *)
From Coq Require Import ZArith List Bool Lia ZifyBool.
From Cnfgen Require Import Sem Comb Linear SemFacts LinearFacts IR IRFacts C02Common C02CommonFacts Fam_tseitin.
Import ListNotations.
Open Scope Z_scope.

(* ---------- identifiers of the edges ---------- *)
Lemma eidx_in E i e : In (i, e) (eidx E) -> 1 <= i <= len E /\ In e E.
Proof.
  unfold eidx. intros H. split.
  - apply in_combine_l in H. now apply In_rng in H.
  - now apply in_combine_r in H.
Qed.
Lemma incident_pos E v i : In i (incident E v) -> 1 <= i <= len E.
Proof.
  unfold incident. rewrite in_app_iff, !in_map_iff. intros [[[j e] [<- H]]|[[j e] [<- H]]];
    apply filter_In in H as [H _]; now apply eidx_in in H.
Qed.
Lemma incident_ok E v : lits_ok (incident E v) = true.
Proof. apply lits_ok_true_iff. intros i Hi. apply incident_pos in Hi. lia. Qed.

Lemma tseitin_ok n E ch : irs_ok (tseitin_ir n E ch) = true.
Proof. apply irs_ok_map. intros v _. unfold ir_ok. cbn [ir_lits]. apply incident_ok. Qed.

Lemma b2z_eqb_1 b : (b2z b =? 1) = b. Proof. now destruct b. Qed.

(* T1: an assignment satisfies the formula iff at every vertex the number of chosen incident
   edges has the parity of the charge *)
Theorem tseitin_char a n E ch :
  irs_hold a (tseitin_ir n E ch) = true <->
  forall v, 1 <= v <= n -> parity_of a (incident E v) = tseitin_charge ch v.
Proof.
  unfold tseitin_ir. rewrite irs_hold_map_iff. split.
  - intros H v Hv. specialize (H v (proj2 (In_rng v n) Hv)). cbn [ir_holds] in H. rewrite b2z_eqb_1 in H.
    now apply eqb_prop in H.
  - intros H v Hv. apply In_rng in Hv. cbn [ir_holds]. rewrite b2z_eqb_1, (H v Hv). apply eqb_reflx.
Qed.

(* both renderings *)
Corollary tseitin_cnf_char a n E ch :
  cnf_sat a (to_cnf (tseitin_ir n E ch)) = true <->
  forall v, 1 <= v <= n -> Z.odd (count_true a (incident E v)) = tseitin_charge ch v.
Proof.
  rewrite to_cnf_sem by apply tseitin_ok. rewrite tseitin_char.
  split; intros H v Hv; specialize (H v Hv); now rewrite parity_of_count in *.
Qed.

(* ---------- double counting ---------- *)
Definition xsum (f : Z -> bool) (l : list Z) : bool := fold_right xorb false (map f l).

Lemma xsum_cons f x l : xsum f (x :: l) = xorb (f x) (xsum f l). Proof. reflexivity. Qed.
Lemma xsum_ext_in f g l : (forall x, In x l -> f x = g x) -> xsum f l = xsum g l.
Proof.
  induction l as [|x t IH]; intros H; [reflexivity|]. rewrite !xsum_cons, H by (now left). f_equal. apply IH.
  intros y Hy. apply H. now right.
Qed.
Lemma xsum_xorb f g l : xsum (fun v => xorb (f v) (g v)) l = xorb (xsum f l) (xsum g l).
Proof.
  induction l as [|x t IH]; [reflexivity|]. rewrite !xsum_cons, IH.
  destruct (f x), (g x), (xsum f t), (xsum g t); reflexivity.
Qed.
Lemma xsum_false l : xsum (fun _ => false) l = false.
Proof. induction l as [|x t IH]; [reflexivity|]. now rewrite xsum_cons, IH. Qed.
Lemma xsum_delta w (g : Z -> bool) l : NoDup l ->
  xsum (fun v => (w =? v) && g v) l = if in_dec Z.eq_dec w l then g w else false.
Proof.
  induction l as [|x t IH]; intros Hnd; [reflexivity|]. inversion Hnd as [|? ? Hx Ht]; subst.
  rewrite xsum_cons, (IH Ht). destruct (Z.eqb_spec w x) as [->|Hne].
  - destruct (in_dec Z.eq_dec x t); [contradiction|]. destruct (in_dec Z.eq_dec x (x :: t)) as [_|Hn]; [|exfalso; apply Hn; now left].
    cbn. now destruct (g x).
  - cbn [andb]. destruct (in_dec Z.eq_dec w t) as [Hi|Hi]; destruct (in_dec Z.eq_dec w (x :: t)) as [Hj|Hj].
    + now destruct (g w).
    + exfalso. apply Hj. now right.
    + exfalso. destruct Hj as [Hj|Hj]; [congruence|contradiction].
    + reflexivity.
Qed.

Lemma parity_of_app a l1 l2 : parity_of a (l1 ++ l2) = xorb (parity_of a l1) (parity_of a l2).
Proof.
  induction l1 as [|x t IH]; cbn [app parity_of]; [now destruct (parity_of a l2)|]. rewrite IH.
  destruct (lit_true a x), (parity_of a t), (parity_of a l2); reflexivity.
Qed.

(* parity at v of an indexed edge list *)
Definition inc_par (a : Z -> bool) (L : list (Z * (Z * Z))) (v : Z) : bool :=
  parity_of a (map fst (filter (fun x => snd (snd x) =? v) L) ++ map fst (filter (fun x => fst (snd x) =? v) L)).

Lemma inc_par_cons a i u w L v : 0 < i ->
  inc_par a ((i, (u, w)) :: L) v = xorb (xorb ((w =? v) && a i) ((u =? v) && a i)) (inc_par a L v).
Proof.
  intros Hi. unfold inc_par. rewrite !parity_of_app. cbn [filter fst snd].
  destruct (w =? v), (u =? v); cbn [map parity_of fst andb]; rewrite ?lit_true_pos by assumption;
  destruct (a i), (parity_of a (map fst (filter (fun x => snd (snd x) =? v) L))),
           (parity_of a (map fst (filter (fun x => fst (snd x) =? v) L))); reflexivity.
Qed.

(* every edge inside 1..n and not leaving S is counted twice *)
Lemma inc_par_sum a (S : Z -> bool) n L :
  (forall i u w, In (i, (u, w)) L -> 0 < i /\ 1 <= u <= n /\ 1 <= w <= n /\ S u = S w) ->
  xsum (fun v => S v && inc_par a L v) (rng n) = false.
Proof.
  induction L as [|[i [u w]] L IH]; intros H.
  - unfold inc_par. cbn. rewrite (xsum_ext_in _ (fun _ => false)); [apply xsum_false|]. intros v _. apply andb_false_r.
  - destruct (H i u w (or_introl eq_refl)) as [Hi [Hu [Hw HS]]].
    rewrite (xsum_ext_in _ (fun v => xorb (xorb ((w =? v) && (S v && a i)) ((u =? v) && (S v && a i))) (S v && inc_par a L v))).
    2:{ intros v _. rewrite inc_par_cons by assumption.
        destruct (S v), (w =? v), (u =? v), (a i), (inc_par a L v); reflexivity. }
    rewrite xsum_xorb, IH by (intros; apply H; now right). rewrite xsum_xorb, !xsum_delta by apply NoDup_rng.
    destruct (in_dec Z.eq_dec w (rng n)) as [_|Hn]; [|exfalso; apply Hn; now apply In_rng].
    destruct (in_dec Z.eq_dec u (rng n)) as [_|Hn]; [|exfalso; apply Hn; now apply In_rng].
    rewrite HS. now destruct (S w && a i).
Qed.

(* reusable core: for ANY assignment of the edge variables, the parities seen at the vertices of a
   union of components add up to zero *)
Theorem incidence_xor_zero a n E (S : Z -> bool) :
  edges_ok n E = true -> closed_under_edges S E ->
  xsum (fun v => S v && parity_of a (incident E v)) (rng n) = false.
Proof.
  intros Hok Hcl. change (xsum (fun v => S v && inc_par a (eidx E) v) (rng n) = false).
  apply inc_par_sum. intros i u w Hin. apply eidx_in in Hin as [Hi He].
  pose proof (edges_ok_in n E u w Hok He). specialize (Hcl (u, w) He). cbn [fst snd] in Hcl. repeat split; try lia. exact Hcl.
Qed.

(* T3: a union of connected components whose charges sum to odd makes the formula unsatisfiable *)
Theorem tseitin_unsat_of_odd_component n E ch (S : Z -> bool) a :
  edges_ok n E = true -> closed_under_edges S E -> charge_parity ch S n = true ->
  irs_hold a (tseitin_ir n E ch) = false.
Proof.
  intros Hok Hcl Hodd. destruct (irs_hold a (tseitin_ir n E ch)) eqn:Hs; [exfalso|reflexivity].
  rewrite tseitin_char in Hs. pose proof (incidence_xor_zero a n E S Hok Hcl) as Hz.
  unfold charge_parity in Hodd. fold (xsum (fun v => S v && tseitin_charge ch v) (rng n)) in Hodd.
  rewrite (xsum_ext_in _ (fun v => S v && parity_of a (incident E v))) in Hodd; [congruence|].
  intros v Hv. apply In_rng in Hv. now rewrite Hs.
Qed.

(* whole-graph version: total charge odd => unsatisfiable, for every graph *)
Theorem tseitin_unsat_of_odd_total n E ch a :
  edges_ok n E = true -> charge_parity ch (fun _ => true) n = true ->
  irs_hold a (tseitin_ir n E ch) = false.
Proof. intros Hok Hodd. apply (tseitin_unsat_of_odd_component n E ch (fun _ => true)); auto. intros e _. reflexivity. Qed.

Corollary tseitin_cnf_unsat_of_odd_component n E ch (S : Z -> bool) a :
  edges_ok n E = true -> closed_under_edges S E -> charge_parity ch S n = true ->
  cnf_sat a (to_cnf (tseitin_ir n E ch)) = false.
Proof. intros. rewrite to_cnf_sem by apply tseitin_ok. now apply (tseitin_unsat_of_odd_component n E ch S). Qed.

(* ---------- the same double counting with numbers instead of parities (used for even colouring) ---------- *)
Definition zsum (f : Z -> Z) (l : list Z) : Z := fold_right Z.add 0 (map f l).
Lemma zsum_cons f x l : zsum f (x :: l) = f x + zsum f l. Proof. reflexivity. Qed.
Lemma zsum_ext_in f g l : (forall x, In x l -> f x = g x) -> zsum f l = zsum g l.
Proof.
  induction l as [|x t IH]; intros H; [reflexivity|]. rewrite !zsum_cons, H by (now left). f_equal. apply IH.
  intros y Hy. apply H. now right.
Qed.
Lemma zsum_add f g l : zsum (fun v => f v + g v) l = zsum f l + zsum g l.
Proof. induction l as [|x t IH]; [reflexivity|]. rewrite !zsum_cons, IH. lia. Qed.
Lemma zsum_scale f l : zsum (fun v => 2 * f v) l = 2 * zsum f l.
Proof. induction l as [|x t IH]; [reflexivity|]. rewrite !zsum_cons, IH. lia. Qed.
Lemma zsum_zero l : zsum (fun _ => 0) l = 0.
Proof. induction l as [|x t IH]; [reflexivity|]. now rewrite zsum_cons, IH. Qed.
Lemma zsum_delta w (g : Z -> Z) l : NoDup l ->
  zsum (fun v => if w =? v then g v else 0) l = if in_dec Z.eq_dec w l then g w else 0.
Proof.
  induction l as [|x t IH]; intros Hnd; [reflexivity|]. inversion Hnd as [|? ? Hx Ht]; subst.
  rewrite zsum_cons, (IH Ht). destruct (Z.eqb_spec w x) as [->|Hne].
  - destruct (in_dec Z.eq_dec x t); [contradiction|]. destruct (in_dec Z.eq_dec x (x :: t)) as [_|Hn]; [lia|exfalso; apply Hn; now left].
  - destruct (in_dec Z.eq_dec w t) as [Hi|Hi]; destruct (in_dec Z.eq_dec w (x :: t)) as [Hj|Hj]; try lia.
    + exfalso. apply Hj. now right.
    + exfalso. destruct Hj as [Hj|Hj]; [congruence|contradiction].
Qed.

Definition inc_cnt (a : Z -> bool) (L : list (Z * (Z * Z))) (v : Z) : Z :=
  count_true a (map fst (filter (fun x => snd (snd x) =? v) L) ++ map fst (filter (fun x => fst (snd x) =? v) L)).
(* chosen edges with their first end in S *)
Definition esum (a : Z -> bool) (S : Z -> bool) (L : list (Z * (Z * Z))) : Z :=
  fold_right (fun x acc => (if S (fst (snd x)) then b2z (a (fst x)) else 0) + acc) 0 L.

Lemma inc_cnt_cons a i u w L v : 0 < i ->
  inc_cnt a ((i, (u, w)) :: L) v = (if w =? v then b2z (a i) else 0) + (if u =? v then b2z (a i) else 0) + inc_cnt a L v.
Proof.
  intros Hi. unfold inc_cnt. rewrite !count_true_app. cbn [filter fst snd].
  destruct (w =? v), (u =? v); cbn [map count_true fst]; rewrite ?lit_true_pos by assumption; lia.
Qed.

Lemma inc_cnt_sum a (S : Z -> bool) n L :
  (forall i u w, In (i, (u, w)) L -> 0 < i /\ 1 <= u <= n /\ 1 <= w <= n /\ S u = S w) ->
  zsum (fun v => if S v then inc_cnt a L v else 0) (rng n) = 2 * esum a S L.
Proof.
  induction L as [|[i [u w]] L IH]; intros H.
  - cbn [esum fold_right]. rewrite (zsum_ext_in _ (fun _ => 0)); [now rewrite zsum_zero|].
    intros v _. destruct (S v); reflexivity.
  - destruct (H i u w (or_introl eq_refl)) as [Hi [Hu [Hw HS]]].
    rewrite (zsum_ext_in _ (fun v => ((if w =? v then (if S v then b2z (a i) else 0) else 0) +
                                      (if u =? v then (if S v then b2z (a i) else 0) else 0)) +
                                     (if S v then inc_cnt a L v else 0))).
    2:{ intros v _. rewrite inc_cnt_cons by assumption. destruct (S v), (w =? v), (u =? v); lia. }
    rewrite zsum_add, IH by (intros; apply H; now right). rewrite zsum_add, !zsum_delta by apply NoDup_rng.
    destruct (in_dec Z.eq_dec w (rng n)) as [_|Hn]; [|exfalso; apply Hn; now apply In_rng].
    destruct (in_dec Z.eq_dec u (rng n)) as [_|Hn]; [|exfalso; apply Hn; now apply In_rng].
    cbn [esum fold_right fst snd]. fold (esum a S L). rewrite HS. destruct (S w); lia.
Qed.

Theorem incidence_count_double a n E (S : Z -> bool) :
  edges_ok n E = true -> closed_under_edges S E ->
  zsum (fun v => if S v then count_true a (incident E v) else 0) (rng n) = 2 * esum a S (eidx E).
Proof.
  intros Hok Hcl. change (zsum (fun v => if S v then inc_cnt a (eidx E) v else 0) (rng n) = 2 * esum a S (eidx E)).
  apply inc_cnt_sum. intros i u w Hin. apply eidx_in in Hin as [Hi He].
  pose proof (edges_ok_in n E u w Hok He). specialize (Hcl (u, w) He). cbn [fst snd] in Hcl. repeat split; try lia. exact Hcl.
Qed.

Lemma esum_all_true (S : Z -> bool) : forall E ids,
  esum (fun _ => true) S (combine ids E) <= len (filter (fun e => S (fst e)) E) /\
  (length ids = length E -> esum (fun _ => true) S (combine ids E) = len (filter (fun e => S (fst e)) E)).
Proof.
  induction E as [|e E IH]; intros ids.
  - destruct ids; cbn; split; intros; lia.
  - destruct ids as [|i ids]; [cbn; split; [apply len_nonneg|intros; discriminate]|].
    cbn [combine esum fold_right fst snd filter]. fold (esum (fun _ => true) S (combine ids E)).
    destruct (IH ids) as [H1 H2]. destruct (S (fst e)); rewrite ?len_cons; cbn [b2z]; split; try lia.
    + intros Hl. rewrite H2 by (cbn in Hl; lia). lia.
    + intros Hl. rewrite H2 by (cbn in Hl; lia). lia.
Qed.
Lemma esum_eidx_true S E : esum (fun _ => true) S (eidx E) = len (filter (fun e => S (fst e)) E).
Proof.
  unfold eidx. apply esum_all_true. unfold rng. rewrite length_zrange. pose proof (len_nonneg E). unfold len in *. lia.
Qed.
Lemma count_true_all_pos ls : (forall l, In l ls -> 0 < l) -> count_true (fun _ => true) ls = len ls.
Proof.
  induction ls as [|x t IH]; intros H; [reflexivity|]. cbn [count_true]. rewrite len_cons, lit_true_pos by (apply H; now left).
  rewrite IH by (intros; apply H; now right). reflexivity.
Qed.
