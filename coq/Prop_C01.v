(* placeholder, replaced below *)
From Coq Require Import ZArith.
