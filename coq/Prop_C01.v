(* Property C01 — pigeonhole, matching and counting families encode exactly their principle.
   ONLY statements; every proof is `exact <lemma>` (lemmas in C01_Main.v and the *_Facts.v files).
   Models: Fam_php.v Fam_count.v Fam_subsetcard.v Fam_cliquecol.v (lists of builder calls, coq/IR.v);
   objects and decodings: Spec_C01.v.  [to_cnf] / [to_opb] are what classes CNF / OPB build.
   Tiers: T1 = characterisation for every assignment, T2 = every object is encoded (+ uniqueness of
   the encoding on the documented variables), T3 = classical satisfiability criterion. *)
From Coq Require Import ZArith List Bool.
From Cnfgen Require Import Sem Comb Linear IR FamTab FamTabFacts Fam_php Fam_count Fam_subsetcard Fam_cliquecol Spec_C01.
From Cnfgen Require Import Fam_php_Facts Fam_count_Facts Fam_subsetcard_Facts Fam_cliquecol_Facts C01_Main.
Import ListNotations.
Open Scope Z_scope.

(* ===================== PigeonholePrinciple ===================== *)
(* T1: for all sizes, flags and assignments (CNF and OPB alike) *)
Theorem C01_php_T1 a m n f o : 0 <= n ->
  (cnf_sat a (to_cnf (php_ir m n f o)) = true <-> placement m n f o (php_R a n)) /\
  (opb_sat a (to_opb (php_ir m n f o)) = true <-> placement m n f o (php_R a n)).
Proof. exact (php_T1_final a m n f o). Qed.
Print Assumptions C01_php_T1.

(* T2: every placement is described by a satisfying assignment ... *)
Theorem C01_php_T2 m n f o R : 0 <= n -> placement m n f o R ->
  exists a, cnf_sat a (to_cnf (php_ir m n f o)) = true /\ opb_sat a (to_opb (php_ir m n f o)) = true /\
            forall i j, 1 <= i <= m -> 1 <= j <= n -> php_R a n i j = R i j.
Proof. exact (php_T2_final m n f o R). Qed.
Print Assumptions C01_php_T2.

(* ... and by exactly one on the documented variables 1..m*n *)
Theorem C01_php_unique a b m n : 0 <= m -> 0 <= n ->
  (forall i j, 1 <= i <= m -> 1 <= j <= n -> php_R a n i j = php_R b n i j) ->
  forall v, 1 <= v <= php_numvar m n -> a v = b v.
Proof. exact (php_unique a b m n). Qed.
Print Assumptions C01_php_unique.

(* T3: satisfiable iff  m <= n  and, with onto: functional -> n <= m, else (1 <= m or n = 0) *)
Theorem C01_php_sat_iff m n f o : 0 <= m -> 0 <= n ->
  ((exists a, cnf_sat a (to_cnf (php_ir m n f o)) = true) <-> php_criterion m n f o) /\
  ((exists a, opb_sat a (to_opb (php_ir m n f o)) = true) <-> php_criterion m n f o).
Proof. exact (php_sat_iff_final m n f o). Qed.
Print Assumptions C01_php_sat_iff.

(* T3 spelled out for the four flag combinations *)
Theorem C01_php_flags_sat_iff m n : 0 <= m -> 0 <= n ->
  ((exists a, cnf_sat a (to_cnf (php_ir m n false false)) = true) <-> m <= n) /\
  ((exists a, cnf_sat a (to_cnf (php_ir m n true false)) = true) <-> m <= n) /\
  ((exists a, cnf_sat a (to_cnf (php_ir m n false true)) = true) <-> m <= n /\ (1 <= m \/ n = 0)) /\
  ((exists a, cnf_sat a (to_cnf (php_ir m n true true)) = true) <-> m = n).
Proof. exact (php_flags_sat_iff m n). Qed.
Print Assumptions C01_php_flags_sat_iff.

(* the pigeonhole principle is unsatisfiable iff there are more pigeons than holes *)
Theorem C01_php_unsat_iff_more_pigeons m n : 0 <= m -> 0 <= n ->
  (~ (exists a, cnf_sat a (to_cnf (php_ir m n false false)) = true) <-> n < m).
Proof. exact (php_plain_unsat_iff m n). Qed.
Print Assumptions C01_php_unsat_iff_more_pigeons.

(* the formula mentions the documented variables 1..m*n only *)
Theorem C01_php_vars m n f o : irs_in_range (php_numvar m n) (php_ir m n f o).
Proof. exact (php_in_range m n f o). Qed.
Print Assumptions C01_php_vars.

(* ===================== GraphPigeonholePrinciple ===================== *)
Theorem C01_gphp_T1 a adj R f o : bip_wf adj R = true ->
  (cnf_sat a (to_cnf (gphp_ir adj R f o)) = true <-> graph_placement (len adj) R f o (gphp_sel a adj)) /\
  (opb_sat a (to_opb (gphp_ir adj R f o)) = true <-> graph_placement (len adj) R f o (gphp_sel a adj)).
Proof. exact (gphp_T1_final a adj R f o). Qed.
Print Assumptions C01_gphp_T1.

Theorem C01_gphp_T2 adj R f o (obj : Z * Z -> bool) : bip_wf adj R = true ->
  graph_placement (len adj) R f o (filter obj (bip_index adj)) ->
  exists a, cnf_sat a (to_cnf (gphp_ir adj R f o)) = true /\ opb_sat a (to_opb (gphp_ir adj R f o)) = true /\
            gphp_sel a adj = filter obj (bip_index adj).
Proof. exact (gphp_T2_final adj R f o obj). Qed.
Print Assumptions C01_gphp_T2.

Theorem C01_gphp_unique a b adj R : bip_wf adj R = true ->
  (forall e, In e (gphp_sel a adj) <-> In e (gphp_sel b adj)) ->
  forall v, 1 <= v <= gphp_numvar adj -> a v = b v.
Proof. exact (gphp_unique a b adj R). Qed.
Print Assumptions C01_gphp_unique.

Theorem C01_gphp_sat_iff_exists adj R f o : bip_wf adj R = true ->
  ((exists a, cnf_sat a (to_cnf (gphp_ir adj R f o)) = true) <->
   exists obj, graph_placement (len adj) R f o (filter obj (bip_index adj))) /\
  ((exists a, opb_sat a (to_opb (gphp_ir adj R f o)) = true) <->
   exists obj, graph_placement (len adj) R f o (filter obj (bip_index adj))).
Proof. exact (gphp_sat_iff_exists_final adj R f o). Qed.
Print Assumptions C01_gphp_sat_iff_exists.

(* T3 (plain and functional): satisfiable iff the graph has a matching that saturates the left side *)
Theorem C01_gphp_sat_iff_matching adj R f : bip_wf adj R = true ->
  ((exists a, cnf_sat a (to_cnf (gphp_ir adj R f false)) = true) <-> exists h, left_saturating adj h) /\
  ((exists a, opb_sat a (to_opb (gphp_ir adj R f false)) = true) <-> exists h, left_saturating adj h).
Proof. exact (gphp_sat_iff_final adj R f). Qed.
Print Assumptions C01_gphp_sat_iff_matching.

Theorem C01_gphp_vars adj R f o : irs_in_range (gphp_numvar adj) (gphp_ir adj R f o).
Proof. exact (gphp_in_range adj R f o). Qed.
Print Assumptions C01_gphp_vars.

(* ===================== BinaryPigeonholePrinciple ===================== *)
Theorem C01_bphp_T1 a m n : 1 <= n ->
  (cnf_sat a (to_cnf (bphp_ir m n)) = true <-> binary_placement m n (bphp_hole a n)) /\
  (opb_sat a (to_opb (bphp_ir m n)) = true <-> binary_placement m n (bphp_hole a n)).
Proof. exact (bphp_T1_final a m n). Qed.
Print Assumptions C01_bphp_T1.

Theorem C01_bphp_T2 m n h : 1 <= n -> binary_placement m n h ->
  exists a, cnf_sat a (to_cnf (bphp_ir m n)) = true /\ opb_sat a (to_opb (bphp_ir m n)) = true /\
            forall i, 1 <= i <= m -> bphp_hole a n i = h i.
Proof. exact (bphp_T2_final m n h). Qed.
Print Assumptions C01_bphp_T2.

Theorem C01_bphp_sat_iff m n : 0 <= m -> 1 <= n ->
  ((exists a, cnf_sat a (to_cnf (bphp_ir m n)) = true) <-> m <= n) /\
  ((exists a, opb_sat a (to_opb (bphp_ir m n)) = true) <-> m <= n).
Proof. exact (bphp_sat_iff_final m n). Qed.
Print Assumptions C01_bphp_sat_iff.

Theorem C01_bphp_unique a b m n : 0 <= m -> 1 <= n ->
  (forall i, 1 <= i <= m -> bphp_hole a n i = bphp_hole b n i) ->
  forall v, 1 <= v <= bphp_numvar m n -> a v = b v.
Proof. exact (bphp_unique a b m n). Qed.
Print Assumptions C01_bphp_unique.

(* D30: the docstring declares pigeons, holes >= 0 valid; the code (and the faithful model) raise
   ValueError below 1.  The full statement is refuted, the partial one is what holds. *)
Definition C01_bphp_domain_statement : Prop := forall m n, 0 <= m -> 0 <= n -> bphp_valid m n = true.
Theorem C01_bphp_domain_refuted : exists m n, 0 <= m /\ 0 <= n /\ bphp_valid m n = false.
Proof. exact bphp_domain_refuted. Qed.
Print Assumptions C01_bphp_domain_refuted.

Theorem C01_bphp_domain_partial : forall m n, 1 <= m -> 1 <= n -> bphp_valid m n = true.
Proof. exact bphp_domain_partial. Qed.
Print Assumptions C01_bphp_domain_partial.

(* the documented behaviour on the documented domain (what a repaired cnfgen builds; the
   correspondence accepts either variant on the inputs of D30) satisfies the full criterion *)
Theorem C01_bphp_spec_sat_iff m n : 0 <= m -> 0 <= n ->
  ((exists a, cnf_sat a (to_cnf (bphp_spec_ir m n)) = true) <-> m <= n) /\
  ((exists a, opb_sat a (to_opb (bphp_spec_ir m n)) = true) <-> m <= n).
Proof. exact (bphp_spec_sat_iff_final m n). Qed.
Print Assumptions C01_bphp_spec_sat_iff.

(* ===================== RelativizedPigeonholePrinciple ===================== *)
Theorem C01_rphp_T1 a m r n : 0 <= m -> 0 <= r -> 0 <= n ->
  (cnf_sat a (to_cnf (rphp_ir m r n)) = true <->
     relativized_placement m r n (rphp_P a r) (rphp_Q a m r n) (rphp_S a m r n)) /\
  (opb_sat a (to_opb (rphp_ir m r n)) = true <->
     relativized_placement m r n (rphp_P a r) (rphp_Q a m r n) (rphp_S a m r n)).
Proof. exact (rphp_T1_final a m r n). Qed.
Print Assumptions C01_rphp_T1.

Theorem C01_rphp_T2 m r n P Q S : 0 <= m -> 0 <= r -> 0 <= n -> relativized_placement m r n P Q S ->
  exists a, cnf_sat a (to_cnf (rphp_ir m r n)) = true /\ opb_sat a (to_opb (rphp_ir m r n)) = true /\
    ((forall u v, 1 <= u <= m -> 1 <= v <= r -> rphp_P a r u v = P u v) /\
     (forall v w, 1 <= v <= r -> 1 <= w <= n -> rphp_Q a m r n v w = Q v w) /\
     (forall v, 1 <= v <= r -> rphp_S a m r n v = S v)).
Proof. exact (rphp_T2_final m r n P Q S). Qed.
Print Assumptions C01_rphp_T2.

(* T3: what the clauses say is  m <= r and m <= n  (the docstring's "m <= r <= n" is not it: DESIGN 5/C01) *)
Theorem C01_rphp_sat_iff m r n : 0 <= m -> 0 <= r -> 0 <= n ->
  ((exists a, cnf_sat a (to_cnf (rphp_ir m r n)) = true) <-> m <= r /\ m <= n) /\
  ((exists a, opb_sat a (to_opb (rphp_ir m r n)) = true) <-> m <= r /\ m <= n).
Proof. exact (rphp_sat_iff_final m r n). Qed.
Print Assumptions C01_rphp_sat_iff.

Theorem C01_rphp_unique a b m r n : 0 <= m -> 0 <= r -> 0 <= n ->
  (forall u v, 1 <= u <= m -> 1 <= v <= r -> rphp_P a r u v = rphp_P b r u v) ->
  (forall v w, 1 <= v <= r -> 1 <= w <= n -> rphp_Q a m r n v w = rphp_Q b m r n v w) ->
  (forall v, 1 <= v <= r -> rphp_S a m r n v = rphp_S b m r n v) ->
  forall x, 1 <= x <= rphp_numvar m r n -> a x = b x.
Proof. exact (rphp_unique a b m r n). Qed.
Print Assumptions C01_rphp_unique.

(* ===================== CountingPrinciple ===================== *)
Theorem C01_count_T1 a M p :
  (cnf_sat a (to_cnf (count_ir M p)) = true <-> partition_of M (count_sel a M p)) /\
  (opb_sat a (to_opb (count_ir M p)) = true <-> partition_of M (count_sel a M p)).
Proof. exact (count_T1_final a M p). Qed.
Print Assumptions C01_count_T1.

(* the decoded blocks are p-subsets of 1..M *)
Theorem C01_count_blocks a M p S : 0 <= p -> In S (count_sel a M p) ->
  len S = p /\ NoDup S /\ forall x, In x S -> 1 <= x <= M.
Proof. exact (count_blocks_spec a M p S). Qed.
Print Assumptions C01_count_blocks.

Theorem C01_count_T2 M p (blk : list Z -> bool) : partition_of M (filter blk (count_blocks M p)) ->
  exists a, cnf_sat a (to_cnf (count_ir M p)) = true /\ opb_sat a (to_opb (count_ir M p)) = true /\
            count_sel a M p = filter blk (count_blocks M p).
Proof. exact (count_T2_final M p blk). Qed.
Print Assumptions C01_count_T2.

Theorem C01_count_unique a b M p :
  (forall S, In S (count_sel a M p) <-> In S (count_sel b M p)) ->
  forall v, 1 <= v <= count_numvar M p -> a v = b v.
Proof. exact (count_unique a b M p). Qed.
Print Assumptions C01_count_unique.

(* T3: satisfiable iff p divides M *)
Theorem C01_count_sat_iff M p : 0 <= M -> 1 <= p ->
  ((exists a, cnf_sat a (to_cnf (count_ir M p)) = true) <-> (p | M)) /\
  ((exists a, opb_sat a (to_opb (count_ir M p)) = true) <-> (p | M)).
Proof. exact (count_sat_iff_final M p). Qed.
Print Assumptions C01_count_sat_iff.

Theorem C01_count_vars M p : irs_in_range (count_numvar M p) (count_ir M p).
Proof. exact (count_in_range M p). Qed.
Print Assumptions C01_count_vars.

(* ===================== PerfectMatchingPrinciple ===================== *)
Theorem C01_matching_T1 a n es : simple_graph_wf n es = true ->
  (cnf_sat a (to_cnf (matching_ir n es)) = true <-> perfect_matching n (matching_sel a es)) /\
  (opb_sat a (to_opb (matching_ir n es)) = true <-> perfect_matching n (matching_sel a es)).
Proof. exact (matching_T1_final a n es). Qed.
Print Assumptions C01_matching_T1.

Theorem C01_matching_T2 n es (obj : Z * Z -> bool) : simple_graph_wf n es = true -> perfect_matching n (filter obj es) ->
  exists a, cnf_sat a (to_cnf (matching_ir n es)) = true /\ opb_sat a (to_opb (matching_ir n es)) = true /\
            matching_sel a es = filter obj es.
Proof. exact (matching_T2_final n es obj). Qed.
Print Assumptions C01_matching_T2.

Theorem C01_matching_unique a b n es : simple_graph_wf n es = true ->
  (forall e, In e (matching_sel a es) <-> In e (matching_sel b es)) ->
  forall v, 1 <= v <= matching_numvar es -> a v = b v.
Proof. exact (matching_unique a b n es). Qed.
Print Assumptions C01_matching_unique.

Theorem C01_matching_sat_iff n es : simple_graph_wf n es = true ->
  ((exists a, cnf_sat a (to_cnf (matching_ir n es)) = true) <-> exists obj, perfect_matching n (filter obj es)) /\
  ((exists a, opb_sat a (to_opb (matching_ir n es)) = true) <-> exists obj, perfect_matching n (filter obj es)).
Proof. exact (matching_sat_iff_final n es). Qed.
Print Assumptions C01_matching_sat_iff.

Theorem C01_matching_vars n es : irs_in_range (matching_numvar es) (matching_ir n es).
Proof. exact (matching_in_range n es). Qed.
Print Assumptions C01_matching_vars.

(* ===================== SubsetCardinalityFormula ===================== *)
Theorem C01_subsetcard_T1 a adj R eq :
  (cnf_sat a (to_cnf (subsetcard_ir adj R eq)) = true <-> subsetcard_labelling adj R eq (subsetcard_sel a adj)) /\
  (opb_sat a (to_opb (subsetcard_ir adj R eq)) = true <-> subsetcard_labelling adj R eq (subsetcard_sel a adj)).
Proof. exact (subsetcard_T1_final a adj R eq). Qed.
Print Assumptions C01_subsetcard_T1.

Theorem C01_subsetcard_T2 adj R eq (obj : Z * Z -> bool) :
  subsetcard_labelling adj R eq (filter obj (bip_index adj)) ->
  exists a, cnf_sat a (to_cnf (subsetcard_ir adj R eq)) = true /\ opb_sat a (to_opb (subsetcard_ir adj R eq)) = true /\
            subsetcard_sel a adj = filter obj (bip_index adj).
Proof. exact (subsetcard_T2_final adj R eq obj). Qed.
Print Assumptions C01_subsetcard_T2.

Theorem C01_subsetcard_unique a b adj R : bip_wf adj R = true ->
  (forall e, In e (subsetcard_sel a adj) <-> In e (subsetcard_sel b adj)) ->
  forall v, 1 <= v <= subsetcard_numvar adj -> a v = b v.
Proof. exact (subsetcard_unique a b adj R). Qed.
Print Assumptions C01_subsetcard_unique.

Theorem C01_subsetcard_sat_iff adj R eq : bip_wf adj R = true ->
  ((exists a, cnf_sat a (to_cnf (subsetcard_ir adj R eq)) = true) <->
   exists obj, subsetcard_labelling adj R eq (filter obj (bip_index adj))) /\
  ((exists a, opb_sat a (to_opb (subsetcard_ir adj R eq)) = true) <->
   exists obj, subsetcard_labelling adj R eq (filter obj (bip_index adj))).
Proof. exact (subsetcard_sat_iff_final adj R eq). Qed.
Print Assumptions C01_subsetcard_sat_iff.

Theorem C01_subsetcard_vars adj R eq : irs_in_range (subsetcard_numvar adj) (subsetcard_ir adj R eq).
Proof. exact (subsetcard_in_range adj R eq). Qed.
Print Assumptions C01_subsetcard_vars.

(* ===================== CliqueColoring ===================== *)
Theorem C01_cliquecol_T1 a n k c : 0 <= n -> 0 <= k -> 0 <= c ->
  (cnf_sat a (to_cnf (cliquecol_ir n k c)) = true <-> clique_and_colouring n k c (cc_E a n) (cc_Q a n) (cc_C a n k c)) /\
  (opb_sat a (to_opb (cliquecol_ir n k c)) = true <-> clique_and_colouring n k c (cc_E a n) (cc_Q a n) (cc_C a n k c)).
Proof. exact (cliquecol_T1_final a n k c). Qed.
Print Assumptions C01_cliquecol_T1.

Theorem C01_cliquecol_edges a n u v : In (u, v) (cc_E a n) -> 1 <= u /\ u < v /\ v <= n.
Proof. exact (cliquecol_edges_spec a n u v). Qed.
Print Assumptions C01_cliquecol_edges.

Theorem C01_cliquecol_T2 n k c (Eobj : Z * Z -> bool) Q C : 0 <= n -> 0 <= k -> 0 <= c ->
  clique_and_colouring n k c (filter Eobj (pairs (upto n))) Q C ->
  exists a, cnf_sat a (to_cnf (cliquecol_ir n k c)) = true /\ opb_sat a (to_opb (cliquecol_ir n k c)) = true /\
    (cc_E a n = filter Eobj (pairs (upto n)) /\
     (forall i u, 1 <= i <= k -> 1 <= u <= n -> cc_Q a n i u = Q i u) /\
     (forall v l, 1 <= v <= n -> 1 <= l <= c -> cc_C a n k c v l = C v l)).
Proof. exact (cliquecol_T2_final n k c Eobj Q C). Qed.
Print Assumptions C01_cliquecol_T2.

(* T3: satisfiable iff k <= n, k <= c and (n = 0 or 1 <= c) *)
Theorem C01_cliquecol_sat_iff n k c : 0 <= n -> 0 <= k -> 0 <= c ->
  ((exists a, cnf_sat a (to_cnf (cliquecol_ir n k c)) = true) <-> k <= n /\ k <= c /\ (n = 0 \/ 1 <= c)) /\
  ((exists a, opb_sat a (to_opb (cliquecol_ir n k c)) = true) <-> k <= n /\ k <= c /\ (n = 0 \/ 1 <= c)).
Proof. exact (cliquecol_sat_iff_final n k c). Qed.
Print Assumptions C01_cliquecol_sat_iff.

Theorem C01_cliquecol_unique a b n k c : 0 <= n -> 0 <= k -> 0 <= c ->
  (forall e, In e (cc_E a n) <-> In e (cc_E b n)) ->
  (forall i u, 1 <= i <= k -> 1 <= u <= n -> cc_Q a n i u = cc_Q b n i u) ->
  (forall v l, 1 <= v <= n -> 1 <= l <= c -> cc_C a n k c v l = cc_C b n k c v l) ->
  forall x, 1 <= x <= cc_numvar n k c -> a x = b x.
Proof. exact (cliquecol_unique a b n k c). Qed.
Print Assumptions C01_cliquecol_unique.

(* ===================== the driver's pruned CNF rendering is the CNF rendering ===================== *)
From Cnfgen Require Import FamFast FamFastFacts.
Theorem C01_fast_rendering : forall l, to_cnf_f l = to_cnf l.
Proof. exact to_cnf_f_eq. Qed.
Print Assumptions C01_fast_rendering.

(* ===================== non-vacuity ===================== *)
Example C01_nonvacuous :
  bip_wf [[1; 2]; []; [2]] 2 = true /\ simple_graph_wf 4 [(1, 3); (2, 3); (3, 4)] = true /\
  php_valid 3 2 = true /\ bphp_valid 3 3 = true /\ rphp_valid 2 2 2 = true /\ count_valid 4 2 = true /\ cc_valid 3 2 2 = true /\
  to_cnf (php_ir 2 2 false false) = [[1; 2]; [3; 4]; [-1; -3]; [-2; -4]] /\
  cnf_sat (fun v => (v =? 1) || (v =? 4)) (to_cnf (php_ir 2 2 true true)) = true /\
  cnf_sat (fun v => (v =? 1) || (v =? 3)) (to_cnf (php_ir 2 2 true true)) = false /\
  to_cnf (count_ir 3 2) = [[-1; -2]; [1; 2]; [-1; -3]; [1; 3]; [-2; -3]; [2; 3]] /\
  to_cnf (matching_ir 2 [(1, 2)]) = [[1]; [1]] /\
  to_cnf (bphp_ir 2 2) = [[1; 2]; [-1; -2]] /\
  length (to_cnf (rphp_ir 2 2 2)) = 12%nat /\ length (to_cnf (cliquecol_ir 3 2 2)) = 29%nat /\
  to_cnf (subsetcard_ir [[1; 2]; [1]; [2]] 2 false) = [[1; 2]; [3]; [4]; [-1; -3]; [-2; -4]].
Proof. vm_compute. repeat split. Qed.
