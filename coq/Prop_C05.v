(* Property C05 — substitution, lifting, polarity flip and variable compression
   compose the formula with the gadget.  ONLY statements; every proof is
   `exact <lemma>`.

   A formula is (N, F): N variables, clause list F with literals within 1..N
   in absolute value ([lits_in_range N F = true]: the invariant of cnfgen's CNF
   objects) — empty clauses, unused variables, repeated and opposite literals
   are all allowed.  k is the arity, [a] an arbitrary assignment of the NEW
   variables, [dec_* a] the assignment it induces on the original variables. *)
From Coq Require Import ZArith List Bool.
From Cnfgen Require Import Sem Comb Linear SemFacts LinearFacts Subst SubstFacts.
Import ListNotations.
Open Scope Z_scope.

(* [composes r nv F dec]: the transformation succeeded, its result has exactly nv
   variables, all its literals are within 1..nv, and it is satisfied by an
   assignment exactly when F is satisfied by the induced assignment *)
Theorem C05_composes_meaning : forall r nv F dec,
  composes r nv F dec <->
  exists out, r = TOk (nv, out) /\ lits_in_range nv out = true /\
              forall a, cnf_sat a out = cnf_sat (dec a) F.
Proof. exact (fun r nv F dec => iff_refl _). Qed.
Print Assumptions C05_composes_meaning.

(* the engine shared by all transformations (apply_substitution): if the gadget
   CNF of every literal in range means that literal under the induced assignment
   d, the substituted formula means F under d *)
Theorem C05_apply_substitution : forall a (d : Z -> bool) g N F,
  (forall l, l <> 0 -> Z.abs l <= N -> cnf_sat a (g l) = lit_true d l) ->
  lits_in_range N F = true ->
  cnf_sat a (apply_subst F g) = cnf_sat d F.
Proof. exact apply_subst_sem. Qed.
Print Assumptions C05_apply_substitution.

(* original variable v owns the new variables (v-1)k+1 .. vk *)
Theorem C05_block_layout : forall k v x, 0 <= k ->
  (In x (subst_block k v) <-> (v - 1) * k < x <= v * k).
Proof. exact subst_block_spec. Qed.
Print Assumptions C05_block_layout.

(* the induced assignments of xor / or / all-equal / not-all-equal in terms of
   the number c of true variables in the block (majority, exactly-one and the
   linear ones are defined directly by c: dec_maj, dec_one, dec_linear) *)
Theorem C05_induced_assignments : forall k a v, 1 <= k -> 0 < v ->
  let c := count_true a (subst_block k v) in
  dec_xor k a v = Z.odd c /\
  dec_or k a v = (c >=? 1) /\
  dec_eq k false a v = ((c =? 0) || (c =? k)) /\
  dec_eq k true a v = negb ((c =? 0) || (c =? k)).
Proof. exact decoders_arith. Qed.
Print Assumptions C05_induced_assignments.

Theorem C05_xor : forall N k F, 1 <= k -> 0 <= N -> lits_in_range N F = true ->
  composes (xor_substitution N k F) (k * N) F (dec_xor k).
Proof. exact xor_substitution_correct. Qed.
Print Assumptions C05_xor.

Theorem C05_or : forall N k F, 1 <= k -> 0 <= N -> lits_in_range N F = true ->
  composes (or_substitution N k F) (k * N) F (dec_or k).
Proof. exact or_substitution_correct. Qed.
Print Assumptions C05_or.

(* majority: at least half of the k new variables *)
Theorem C05_majority : forall N k F, 1 <= k -> 0 <= N -> lits_in_range N F = true ->
  composes (majority_substitution N k F) (k * N) F
           (fun a v => 2 * count_true a (subst_block k v) >=? k).
Proof. exact majority_substitution_correct. Qed.
Print Assumptions C05_majority.

Theorem C05_exactly_one : forall N k F, 1 <= k -> 0 <= N -> lits_in_range N F = true ->
  composes (exactly_one_substitution N k F) (k * N) F
           (fun a v => count_true a (subst_block k v) =? 1).
Proof. exact exactly_one_substitution_correct. Qed.
Print Assumptions C05_exactly_one.

Theorem C05_all_equal : forall N k F, 1 <= k -> 0 <= N -> lits_in_range N F = true ->
  composes (all_equal_substitution N k false F) (k * N) F (dec_eq k false).
Proof. exact (fun N k F Hk HN HF => all_equal_substitution_correct N k F Hk HN HF false). Qed.
Print Assumptions C05_all_equal.

Theorem C05_not_all_equal : forall N k F, 1 <= k -> 0 <= N -> lits_in_range N F = true ->
  composes (not_all_equal_substitution N k F) (k * N) F (dec_eq k true).
Proof. exact (fun N k F Hk HN HF => all_equal_substitution_correct N k F Hk HN HF true). Qed.
Print Assumptions C05_not_all_equal.

(* LinearSubstitution with any of the six operators and any integer constant C
   (negative, larger than k) *)
Theorem C05_linear : forall N k F, 1 <= k -> 0 <= N -> lits_in_range N F = true -> forall o C,
  composes (linear_substitution N k o C F) (k * N) F
           (fun a v => cop_holds o (count_true a (subst_block k v)) C).
Proof. exact linear_substitution_correct. Qed.
Print Assumptions C05_linear.

(* exactly / at-least / at-most / anything-but C out of k *)
Theorem C05_thresholds : forall N k F, 1 <= k -> 0 <= N -> lits_in_range N F = true -> forall C,
  composes (exactly_k_substitution N k C F) (k * N) F (fun a v => count_true a (subst_block k v) =? C) /\
  composes (at_least_k_substitution N k C F) (k * N) F (fun a v => count_true a (subst_block k v) >=? C) /\
  composes (at_most_k_substitution N k C F) (k * N) F (fun a v => count_true a (subst_block k v) <=? C) /\
  composes (anything_but_k_substitution N k C F) (k * N) F (fun a v => negb (count_true a (subst_block k v) =? C)).
Proof.
  exact (fun N k F Hk HN HF C =>
           conj (linear_substitution_correct N k F Hk HN HF CEq C)
          (conj (linear_substitution_correct N k F Hk HN HF CGe C)
          (conj (linear_substitution_correct N k F Hk HN HF CLe C)
                (linear_substitution_correct N k F Hk HN HF CNe C)))).
Qed.
Print Assumptions C05_thresholds.

(* if-then-else: 3 new variables per original variable: selector v, then N+v, else 2N+v *)
Theorem C05_if_then_else : forall N F, 0 <= N -> lits_in_range N F = true ->
  fst (ite_substitution N F) = 3 * N /\
  lits_in_range (3 * N) (snd (ite_substitution N F)) = true /\
  forall a, cnf_sat a (snd (ite_substitution N F)) =
            cnf_sat (fun v => if a v then a (N + v) else a (2 * N + v)) F.
Proof. exact ite_substitution_correct. Qed.
Print Assumptions C05_if_then_else.

(* lifting: 2k variables per original variable; satisfied exactly when every
   variable has exactly one selector true and F holds on the selected copies *)
Theorem C05_lifting : forall N k F, 1 <= k -> 0 <= N -> lits_in_range N F = true ->
  exists out, formula_lifting N k F = TOk (2 * k * N, out) /\
              lits_in_range (2 * k * N) out = true /\
              forall a, cnf_sat a out = selectors_ok N k a && cnf_sat (dec_lift k a) F.
Proof. exact formula_lifting_correct. Qed.
Print Assumptions C05_lifting.

(* ... where, under the selector constraint, dec_lift is the value of THE selected copy *)
Theorem C05_lifting_selected_copy : forall N k a v, 1 <= k -> selectors_ok N k a = true -> 1 <= v <= N ->
  exists i, 1 <= i <= k /\ a (lift_y k v i) = true /\
            (forall j, 1 <= j <= k -> a (lift_y k v j) = true -> j = i) /\
            dec_lift k a v = a (lift_x k v i).
Proof. exact lift_selected_copy. Qed.
Print Assumptions C05_lifting_selected_copy.

(* variable compression over any bipartite graph (R right vertices, adj = sorted
   neighbour lists of the left vertices 1..N): xor / majority of the neighbours *)
Theorem C05_compression_xor : forall N F, 0 <= N -> lits_in_range N F = true -> forall R adj,
  len adj = N -> 0 <= R -> adj_ok R adj = true ->
  composes (variable_compression N F R adj CompXor) R F
           (fun a v => parity_of a (right_nbrs adj v)).
Proof. exact variable_compression_xor_correct. Qed.
Print Assumptions C05_compression_xor.

Theorem C05_compression_maj : forall N F, 0 <= N -> lits_in_range N F = true -> forall R adj,
  len adj = N -> 0 <= R -> adj_ok R adj = true ->
  composes (variable_compression N F R adj CompMaj) R F
           (fun a v => 2 * count_true a (right_nbrs adj v) >=? len (right_nbrs adj v)).
Proof. exact variable_compression_maj_correct. Qed.
Print Assumptions C05_compression_maj.

(* invalid arguments are rejected (ValueError) *)
Theorem C05_arity_rejected : forall N k F g, k < 1 ->
  block_subst N k F g = TValueErr /\ formula_lifting N k F = TValueErr.
Proof. exact (fun N k F g H => conj (block_subst_rejects N k F g H) (formula_lifting_rejects N k F H)). Qed.
Print Assumptions C05_arity_rejected.

Theorem C05_compression_rejected : forall N F R adj fn,
  len adj <> N \/ fn = CompOther -> variable_compression N F R adj fn = TValueErr.
Proof. exact variable_compression_rejects. Qed.
Print Assumptions C05_compression_rejected.

(* polarity flip: the semantics is right ... *)
Theorem C05_flip : forall N F a, lits_in_range N F = true ->
  cnf_sat a (snd (flip_polarity N F)) = cnf_sat (fun v => negb (a v)) F.
Proof. exact flip_sem. Qed.
Print Assumptions C05_flip.

(* ... but the number of variables is the largest variable that OCCURS, not N
   (FlipPolarity as it is in cnfgen: DESIGN.md D32) *)
Theorem C05_flip_numvar_as_is : forall N F, fst (flip_polarity N F) = max_var F.
Proof. exact flip_numvar. Qed.
Print Assumptions C05_flip_numvar_as_is.

(* the documented statement "the variable count is unchanged" ... *)
Definition C05_flip_numvar_statement : Prop :=
  forall N F, lits_in_range N F = true -> fst (flip_polarity N F) = N.
(* ... is false for the faithful model: CNF([[1],[],[1]]) with 3 variables gives 1 *)
Theorem C05_flip_numvar_refuted : exists N F, lits_in_range N F = true /\ fst (flip_polarity N F) <> N.
Proof. exact flip_numvar_refuted. Qed.
Print Assumptions C05_flip_numvar_refuted.
(* ... and holds exactly when the last variable occurs in some clause *)
Theorem C05_flip_numvar_partial : forall N F, fst (flip_polarity N F) = N <-> max_var F = N.
Proof. exact flip_numvar_partial. Qed.
Print Assumptions C05_flip_numvar_partial.

(* the repaired FlipPolarity (fixes/D32.diff) keeps the count and the clauses *)
Theorem C05_flip_spec : forall N F, 0 <= N -> lits_in_range N F = true ->
  fst (flip_polarity_spec N F) = N /\
  snd (flip_polarity_spec N F) = snd (flip_polarity N F) /\
  lits_in_range N (snd (flip_polarity_spec N F)) = true.
Proof. exact flip_spec_correct. Qed.
Print Assumptions C05_flip_spec.

(* non-vacuity: a formula with an empty clause, an unused variable, a repeated
   and two opposite literals meets the hypotheses; the transformations produce
   ordinary clause lists and the statements are not trivially true *)
Example C05_nonvacuous :
  let F := [[1; -2]; []; [2; 2; -2]] in
  lits_in_range 3 F = true /\
  xor_substitution 3 2 [[1; -2]] =
    TOk (6, [[1; 2; 3; -4]; [1; 2; -3; 4]; [-1; -2; 3; -4]; [-1; -2; -3; 4]]) /\
  match xor_substitution 3 2 F with
  | TOk (n, out) => n = 6 /\ length out = 13%nat /\ nth 4 out [0] = []
  | TValueErr => False
  end /\
  cnf_sat (fun v => v =? 1) (apply_subst [[1; -2]] (xorify 2)) = true /\
  cnf_sat (fun v => (v =? 1) || (v =? 3)) (apply_subst [[-1; -2]] (xorify 2)) = false /\
  formula_lifting 1 2 [[1]] = TOk (4, [[-3; -4]; [3; 4]; [-3; 1]; [-4; 2]]) /\
  selectors_ok 1 2 (fun v => v =? 3) = true /\
  variable_compression 2 [[1; -2]] 3 [[1; 2]; [2; 3]] CompXor =
    TOk (3, [[1; 2; 2; -3]; [1; 2; -2; 3]; [-1; -2; 2; -3]; [-1; -2; -2; 3]]) /\
  adj_ok 3 [[1; 2]; [2; 3]] = true.
Proof. vm_compute. repeat split. Qed.
