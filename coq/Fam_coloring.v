(* Fam_coloring.v — model of cnfgen/families/coloring.py :
   GraphColoringFormula(G, colors, functional) and EvenColoringFormula(G).
   kcolor: col = new_mapping(n, colors); force_complete_mapping; if functional
   force_functional_mapping (one cardinality_leq(...,1) per vertex); then for every
   edge (v1,v2) of G.edges() and every colour c the clause [-col(v1,c), -col(v2,c)].
   colors < 0 raises ValueError ([None]).
   ec: e = new_graph_edges(G); for v = 1..n: ValueError when the degree of v is odd,
   else cardinality_eq(edges at v, degree/2).  The model answers [None] when some
   vertex has odd degree (the Python loop raises at the first such vertex).
   Abstracted: descriptions.  Definitions only. *)
From Coq Require Import ZArith List Bool.
From Cnfgen Require Import Sem Comb Linear IR C02Common.
Import ListNotations.
Open Scope Z_scope.

Definition kcolor_edge_clauses (E : list (Z * Z)) (k : Z) : list ir :=
  flat_map (fun e => map (fun c => IClause [- mvar 0 k (fst e) c; - mvar 0 k (snd e) c]) (rng k)) E.
Definition kcolor_ir (n : Z) (E : list (Z * Z)) (k : Z) (functional : bool) : option (list ir) :=
  if k <? 0 then None
  else Some (um_complete 0 n k ++ (if functional then um_functional 0 n k else []) ++ kcolor_edge_clauses E k).
Definition kcolor_numvar (n k : Z) : Z := n * k.

Definition ec_ir (n : Z) (E : list (Z * Z)) : option (list ir) :=
  if forallb (fun v => Z.even (degree E v)) (rng n)
  then Some (map (fun v => ILin (incident E v) CEq (degree E v / 2)) (rng n))
  else None.
Definition ec_numvar (E : list (Z * Z)) : Z := len E.

(* a proper colouring with colours 1..k *)
Definition proper_coloring (n : Z) (E : list (Z * Z)) (k : Z) (phi : Z -> Z) : Prop :=
  (forall v, 1 <= v <= n -> 1 <= phi v <= k) /\
  (forall e, In e E -> phi (fst e) <> phi (snd e)).

(* when every union of components contains an even number of edges the even-colouring formula is
   satisfiable: proved in Fam_coloring_Euler.v (ec_sat_of_even_components), also tested by enumeration in
   harness/c02.py *)
Definition ec_sat_of_even_components_statement : Prop :=
  forall n E l, graph_wf n E = true -> ec_ir n E = Some l ->
    (forall S, closed_under_edges S E -> Z.even (len (filter (fun e => S (fst e)) E)) = true) ->
    exists a, irs_hold a l = true.
