(* C03_Util.v — small shared definitions of the C03 family models
   (Fam_ordering, Fam_pebbling, Fam_cpls, Fam_pitfall, Fam_ramsey).
   Definitions only.

   * [c3res]   : result of a generator call: a formula (number of variables and
                 the list of builder calls) or the exception class cnfgen raises.
   * [pairs2], [triples_lt], [triples_ne] : itertools.combinations(V,2),
                 combinations(V,3), permutations(V,3) for V = range(1,n+1),
                 written as filtered products (same lexicographic order as CPython).
   * [nthZ]    : 1-based access into adjacency lists. *)
From Coq Require Import ZArith List Bool.
From Cnfgen Require Import Sem Comb Linear IR.
Import ListNotations.
Open Scope Z_scope.

Inductive c3exn := C3ValueError | C3ZeroDivisionError | C3IndexError | C3NetworkXError.
Inductive c3res := C3Ok (numvar : Z) (f : list ir) | C3Err (e : c3exn).

Definition clauses_ir (F : cnf) : list ir := map IClause F.

(* 1-based access: adjacency list of vertex v *)
Definition nthZ {A} (l : list (list A)) (v : Z) : list A := nth (Z.to_nat (v - 1)) l [].

(* V = range(1, n+1) *)
Definition vrange (n : Z) : list Z := zrange 1 (n + 1).

(* combinations(V,2) *)
Definition pairs_lt (n : Z) : list (Z * Z) :=
  flat_map (fun u => flat_map (fun v => if u <? v then [(u, v)] else []) (vrange n)) (vrange n).
(* combinations(V,3) *)
Definition triples_lt (n : Z) : list (Z * Z * Z) :=
  flat_map (fun v1 => flat_map (fun v2 => flat_map (fun v3 =>
     if (v1 <? v2) && (v2 <? v3) then [(v1, v2, v3)] else []) (vrange n)) (vrange n)) (vrange n).
(* permutations(V,3) *)
Definition triples_ne (n : Z) : list (Z * Z * Z) :=
  flat_map (fun v1 => flat_map (fun v2 => flat_map (fun v3 =>
     if negb (v1 =? v2) && negb (v2 =? v3) && negb (v1 =? v3) then [(v1, v2, v3)] else []) (vrange n)) (vrange n)) (vrange n).

(* sum of the lengths of the first k lists: offsets of a sparse (bipartite-edges) group *)
Fixpoint prefix_len {A} (l : list (list A)) (k : nat) : Z :=
  match k, l with
  | O, _ => 0
  | _, [] => 0
  | S k', x :: t => len x + prefix_len t k'
  end.

(* position (0-based) of x in l; length l when absent (Python's list.index would raise) *)
Fixpoint indexZ (x : Z) (l : list Z) : Z :=
  match l with
  | [] => 0
  | y :: t => if x =? y then 0 else 1 + indexZ x t
  end.

Definition memZ (x : Z) (l : list Z) : bool := existsb (Z.eqb x) l.

(* remove duplicates keeping the first occurrence (pebbling.py: _uniqify_list) *)
Fixpoint uniq_aux (seen : list Z) (l : list Z) : list Z :=
  match l with
  | [] => []
  | x :: t => if memZ x seen then uniq_aux seen t else x :: uniq_aux (x :: seen) t
  end.
Definition uniqify (l : list Z) : list Z := uniq_aux [] l.
