(* Property C06 composed with C10: "for all formulas produced by any family ...
   writing to DIMACS and reading back yields the same number of variables and the same
   clauses in the same order".  The generic statements hold for every formula whose
   literals are in range — which Prop_C10_families.v proves for all 31 family models and
   Prop_C10.v for every rendering of builder calls — with any header and any names
   (line breaks included), under both newline conventions.  `printable z` says that z has
   at most 4300 decimal digits (CPython's int/str conversion limit). *)
From Coq Require Import ZArith List Bool.
From Cnfgen Require Import Sem Comb Linear IR Text Dimacs DimacsFacts FamTab Fam_php Fam_tseitin C03_Util Fam_pebbling EndToEnd.
Import ListNotations.
Open Scope Z_scope.

Theorem C06_in_range_formula_roundtrips : forall u h names n F,
  0 <= n -> lits_in_range n F = true -> printable n -> printable (len F) ->
  parse_dimacs u (print_dimacs h names n F) = DOk n F.
Proof. exact in_range_roundtrip. Qed.
Print Assumptions C06_in_range_formula_roundtrips.

Theorem C06_builder_calls_roundtrip : forall u h names n l,
  0 <= n -> irs_ok l = true -> irs_max_var l <= n -> printable n -> printable (len (to_cnf l)) ->
  parse_dimacs u (print_dimacs h names n (to_cnf l)) = DOk n (to_cnf l).
Proof. exact builder_calls_roundtrip. Qed.
Print Assumptions C06_builder_calls_roundtrip.

Theorem C06_php_roundtrip : forall u h names m n f o,
  0 <= m -> 0 <= n -> printable (php_numvar m n) -> printable (len (to_cnf (php_ir m n f o))) ->
  parse_dimacs u (print_dimacs h names (php_numvar m n) (to_cnf (php_ir m n f o))) = DOk (php_numvar m n) (to_cnf (php_ir m n f o)).
Proof. exact php_dimacs_roundtrip. Qed.
Print Assumptions C06_php_roundtrip.

Theorem C06_tseitin_roundtrip : forall u h names n E ch,
  printable (tseitin_numvar E) -> printable (len (to_cnf (tseitin_ir n E ch))) ->
  parse_dimacs u (print_dimacs h names (tseitin_numvar E) (to_cnf (tseitin_ir n E ch))) = DOk (tseitin_numvar E) (to_cnf (tseitin_ir n E ch)).
Proof. exact tseitin_dimacs_roundtrip. Qed.
Print Assumptions C06_tseitin_roundtrip.

Theorem C06_peb_roundtrip : forall u h names D nv f,
  peb_formula D = C3Ok nv f -> printable nv -> printable (len (to_cnf f)) ->
  parse_dimacs u (print_dimacs h names nv (to_cnf f)) = DOk nv (to_cnf f).
Proof. exact peb_dimacs_roundtrip. Qed.
Print Assumptions C06_peb_roundtrip.
