(* Fam_subgraph_Facts.v — SubgraphFormula, CliqueFormula, BinaryCliqueFormula, RamseyWitnessFormula:
   the satisfying assignments are exactly the graphs of the embeddings / cliques (T1), hence
   satisfiable iff such an object exists (T2). *)
From Coq Require Import ZArith List Bool Lia ZifyBool.
From Cnfgen Require Import Sem Comb Linear SemFacts LinearFacts IR IRFacts C02Common C02CommonFacts Fam_subgraph.
Import ListNotations.
Open Scope Z_scope.

(* ---------- the mapping part ---------- *)
Lemma emb_mapping_sem a off k N sb : 0 <= off ->
  (irs_hold a (emb_mapping off k N sb) = true <->
   rel_total (rel_of a off N) k N /\ rel_functional (rel_of a off N) k N /\ rel_injective (rel_of a off N) k N /\
   (sb = true -> rel_nondecreasing (rel_of a off N) k N)).
Proof.
  intros Hoff. unfold emb_mapping. rewrite !irs_hold_app_iff, um_complete_sem, um_functional_sem, um_injective_sem by lia.
  rewrite irs_hold_if, um_nondecreasing_sem by lia. tauto.
Qed.
Lemma emb_mapping_ok off k N sb : 0 <= off -> irs_ok (emb_mapping off k N sb) = true.
Proof.
  intros Hoff. unfold emb_mapping. rewrite !irs_ok_app_iff.
  repeat split; [apply um_complete_ok|apply um_functional_ok|apply um_injective_ok|apply irs_ok_if, um_nondecreasing_ok]; lia.
Qed.

(* the image pair of i1 < i2, listed in increasing order, is never bad *)
Definition pairs_ok (bad : Z -> Z -> Z -> Z -> bool) (k : Z) (phi : Z -> Z) : Prop :=
  forall i1 i2, 1 <= i1 -> i1 < i2 -> i2 <= k ->
    bad i1 i2 (Z.min (phi i1) (phi i2)) (Z.max (phi i1) (phi i2)) = false.

Lemma emb_fun R phi k N bad sb : graph_of R phi k N ->
  (rel_injective R k N /\ (sb = true -> rel_nondecreasing R k N) /\
   rel_straight R bad k N /\ (sb = false -> rel_crossed R bad k N) <->
   injection k N phi /\ (sb = true -> increasing k phi) /\ pairs_ok bad k phi).
Proof.
  intros G. rewrite (graph_injective R phi k N G), (graph_nondecreasing R phi k N G),
    (graph_straight R phi k N _ G), (graph_crossed R phi k N _ G).
  unfold injection, increasing, pairs_ok. split.
  - intros [Hi [Hnd [Hst Hcr]]]. split; [split; [intros i Hi'; apply (G i Hi')|exact Hi]|]. split.
    + intros -> i1 i2 A1 A2 A3. specialize (Hnd eq_refl i1 i2 A1 A2 A3).
      assert (phi i1 <> phi i2) by (intros E; apply Hi in E; lia). lia.
    + intros i1 i2 A1 A2 A3. assert (phi i1 <> phi i2) by (intros E; apply Hi in E; lia).
      destruct (Z.lt_ge_cases (phi i1) (phi i2)) as [L|L].
      * rewrite Z.min_l, Z.max_r by lia. now apply Hst.
      * rewrite Z.min_r, Z.max_l by lia. destruct sb.
        -- specialize (Hnd eq_refl i1 i2 A1 A2 A3). lia.
        -- apply Hcr; auto. lia.
  - intros [[Hr Hi] [Hinc Hp]]. split; [exact Hi|]. split; [|split].
    + intros -> i1 i2 A1 A2 A3. specialize (Hinc eq_refl i1 i2 A1 A2 A3). lia.
    + intros i1 i2 A1 A2 A3 L. specialize (Hp i1 i2 A1 A2 A3). now rewrite Z.min_l, Z.max_r in Hp by lia.
    + intros _ i1 i2 A1 A2 A3 L. specialize (Hp i1 i2 A1 A2 A3). now rewrite Z.min_r, Z.max_l in Hp by lia.
Qed.

(* mapping + consistency loop, in one statement *)
Lemma emb_char a off k N bad sb : 0 <= off ->
  (irs_hold a (emb_mapping off k N sb ++ cons_clauses bad (pair_mk off N sb) k N) = true <->
   exists phi, graph_of (rel_of a off N) phi k N /\ injection k N phi /\ (sb = true -> increasing k phi) /\ pairs_ok bad k phi).
Proof.
  intros Hoff. rewrite irs_hold_app_iff, emb_mapping_sem, cons_pair_sem by lia. split.
  - intros [[Ht [Hf [Hi Hnd]]] [Hst Hcr]]. exists (dec_map a off N).
    assert (G := dec_map_graph a off N k Ht Hf). split; [exact G|]. apply (emb_fun _ _ _ _ bad sb G).
    tauto.
  - intros [phi [G HE]]. apply (emb_fun _ _ _ _ bad sb G) in HE as [Hi [Hnd [Hst Hcr]]].
    pose proof (graph_of_total _ _ _ _ G). pose proof (graph_of_functional _ _ _ _ G). tauto.
Qed.
Lemma emb_ok off k N bad sb : 0 <= off ->
  irs_ok (emb_mapping off k N sb ++ cons_clauses bad (pair_mk off N sb) k N) = true.
Proof. intros Hoff. rewrite irs_ok_app_iff. split; [now apply emb_mapping_ok|now apply cons_pair_ok]. Qed.

Lemma has_edge_minmax E x y : has_edge E (Z.min x y) (Z.max x y) = has_edge E x y.
Proof.
  destruct (Z.le_gt_cases x y).
  - now rewrite Z.min_l, Z.max_r by lia.
  - rewrite Z.min_r, Z.max_l by lia. apply has_edge_sym.
Qed.

(* ---------- SubgraphFormula ---------- *)
Lemma subgraph_bad_false EG EH ind i1 i2 j1 j2 :
  subgraph_bad EG EH ind i1 i2 j1 j2 = false <->
  (has_edge EH i1 i2 = true -> has_edge EG j1 j2 = true) /\
  (ind = true -> has_edge EG j1 j2 = true -> has_edge EH i1 i2 = true).
Proof.
  unfold subgraph_bad. destruct (has_edge EG j1 j2), (has_edge EH i1 i2), ind; cbn; intuition congruence.
Qed.

Lemma subgraph_pairs_ok N EG k EH ind phi : injection k N phi ->
  (pairs_ok (subgraph_bad EG EH ind) k phi <->
   forall i1 i2, 1 <= i1 <= k -> 1 <= i2 <= k -> i1 <> i2 ->
    (has_edge EH i1 i2 = true -> has_edge EG (phi i1) (phi i2) = true) /\
    (ind = true -> has_edge EG (phi i1) (phi i2) = true -> has_edge EH i1 i2 = true)).
Proof.
  intros Hinj. unfold pairs_ok. split.
  - intros H.
    assert (Hlt : forall i1 i2, 1 <= i1 -> i1 < i2 -> i2 <= k ->
      (has_edge EH i1 i2 = true -> has_edge EG (phi i1) (phi i2) = true) /\
      (ind = true -> has_edge EG (phi i1) (phi i2) = true -> has_edge EH i1 i2 = true)).
    { intros i1 i2 A1 A2 A3. specialize (H i1 i2 A1 A2 A3). apply subgraph_bad_false in H.
      now rewrite has_edge_minmax in H. }
    intros i1 i2 H1 H2 Hne. destruct (Z.lt_ge_cases i1 i2) as [L|L].
    + apply Hlt; lia.
    + rewrite (has_edge_sym EH i1 i2), (has_edge_sym EG (phi i1)). apply Hlt; lia.
  - intros H i1 i2 A1 A2 A3. apply subgraph_bad_false. rewrite has_edge_minmax. apply H; lia.
Qed.

Lemma subgraph_ok N EG k EH ind sb : irs_ok (subgraph_ir N EG k EH ind sb) = true.
Proof. unfold subgraph_ir. apply emb_ok. lia. Qed.

(* T1 *)
Theorem subgraph_char a N EG k EH ind sb :
  irs_hold a (subgraph_ir N EG k EH ind sb) = true <->
  exists phi, graph_of (rel_of a 0 N) phi k N /\ embedding N EG k EH ind phi /\ (sb = true -> increasing k phi).
Proof.
  unfold subgraph_ir. rewrite emb_char by lia. unfold embedding. split.
  - intros [phi [G [Hinj [Hinc Hp]]]]. exists phi. split; [exact G|]. split; [|exact Hinc]. split; [exact Hinj|].
    exact (proj1 (subgraph_pairs_ok N EG k EH ind phi Hinj) Hp).
  - intros [phi [G [[Hinj He] Hinc]]]. exists phi. split; [exact G|]. split; [exact Hinj|]. split; [exact Hinc|].
    exact (proj2 (subgraph_pairs_ok N EG k EH ind phi Hinj) He).
Qed.

(* T2 *)
Theorem subgraph_sat_iff N EG k EH ind sb :
  (exists a, irs_hold a (subgraph_ir N EG k EH ind sb) = true) <->
  exists phi, embedding N EG k EH ind phi /\ (sb = true -> increasing k phi).
Proof.
  split.
  - intros [a H]. apply subgraph_char in H as [phi [_ H]]. now exists phi.
  - intros [phi [He Hi]]. exists (enc_map 0 N phi). apply subgraph_char. exists phi. split; [|auto].
    apply enc_map_graph; [lia|apply He].
Qed.

(* ---------- CliqueFormula ---------- *)
Lemma kclique_pairs_ok N E k phi : injection k N phi ->
  (pairs_ok (kclique_bad E) k phi <->
   forall i1 i2, 1 <= i1 <= k -> 1 <= i2 <= k -> i1 <> i2 -> has_edge E (phi i1) (phi i2) = true).
Proof.
  intros Hinj. unfold pairs_ok, kclique_bad. split.
  - intros H i1 i2 H1 H2 Hne. destruct (Z.lt_ge_cases i1 i2) as [L|L].
    + specialize (H i1 i2 ltac:(lia) L ltac:(lia)). rewrite has_edge_minmax in H. now apply negb_false_iff in H.
    + specialize (H i2 i1 ltac:(lia) ltac:(lia) ltac:(lia)). rewrite has_edge_minmax in H. apply negb_false_iff in H.
      now rewrite has_edge_sym.
  - intros H i1 i2 A1 A2 A3. rewrite has_edge_minmax. apply negb_false_iff. apply H; lia.
Qed.

Lemma kclique_ok N E k sb l : kclique_ir N E k sb = Some l -> irs_ok l = true.
Proof. unfold kclique_ir. destruct (k <? 0); [discriminate|]. intros [= <-]. apply emb_ok. lia. Qed.

(* T1 *)
Theorem kclique_char a N E k sb l : kclique_ir N E k sb = Some l ->
  (irs_hold a l = true <->
   exists phi, graph_of (rel_of a 0 N) phi k N /\ homogeneous N E k true phi /\ (sb = true -> increasing k phi)).
Proof.
  unfold kclique_ir. destruct (k <? 0); [discriminate|]. intros [= <-]. rewrite emb_char by lia. unfold homogeneous. split.
  - intros [phi [G [Hinj [Hinc Hp]]]]. exists phi. split; [exact G|]. split; [|exact Hinc]. split; [exact Hinj|].
    exact (proj1 (kclique_pairs_ok N E k phi Hinj) Hp).
  - intros [phi [G [[Hinj He] Hinc]]]. exists phi. split; [exact G|]. split; [exact Hinj|]. split; [exact Hinc|].
    exact (proj2 (kclique_pairs_ok N E k phi Hinj) He).
Qed.

Theorem kclique_sat_iff_raw N E k sb l : kclique_ir N E k sb = Some l ->
  ((exists a, irs_hold a l = true) <-> exists phi, homogeneous N E k true phi /\ (sb = true -> increasing k phi)).
Proof.
  intros Hl. split.
  - intros [a H]. apply (kclique_char a N E k sb l Hl) in H as [phi [_ H]]. now exists phi.
  - intros [phi [He Hi]]. exists (enc_map 0 N phi). apply (kclique_char _ N E k sb l Hl). exists phi. split; [|auto].
    apply enc_map_graph; [lia|apply He].
Qed.

(* ---------- RamseyWitnessFormula, the code as it is ---------- *)
Lemma crossed_all_nondecreasing R n m : rel_crossed R (fun _ _ _ _ => true) n m <-> rel_nondecreasing R n m.
Proof.
  unfold rel_crossed, rel_nondecreasing. split.
  - intros H i1 i2 j1 j2 A1 A2 A3 B1 B2 B3 T1 T2. apply (H i1 i2 j2 j1); auto.
  - intros H i1 i2 j1 j2 A1 A2 A3 B1 B2 B3 _ T1 T2. apply (H i1 i2 j2 j1); auto.
Qed.

(* "the colour C is the wrong one for the pair j1 j2" *)
Definition ramlb_bad (E : list (Z * Z)) (c : bool) (i1 i2 j1 j2 : Z) : bool := negb (eqb c (has_edge E j1 j2)).

Lemma ramlb_lit a E j1 j2 :
  lit_true a (if has_edge E j1 j2 then 1 else -1) = true <-> ramlb_bad E (a 1) 0 0 j1 j2 = false.
Proof.
  unfold ramlb_bad. destruct (has_edge E j1 j2).
  - rewrite lit_true_pos by lia. destruct (a 1); cbn; split; congruence.
  - change (-1) with (- (1)). rewrite lit_true_neg by lia. destruct (a 1); cbn; split; congruence.
Qed.

Lemma ramlb_cons_sem a E N sb k :
  irs_hold a (cons_clauses (fun _ _ _ _ => true) (ramlb_mk E N sb) k N) = true <->
  rel_straight (rel_of a 1 N) (ramlb_bad E (a 1)) k N /\
  (sb = true -> rel_nondecreasing (rel_of a 1 N) k N) /\
  (sb = false -> rel_crossed (rel_of a 1 N) (ramlb_bad E (a 1)) k N).
Proof.
  rewrite cons_clauses_sem. unfold ramlb_mk. split.
  - intros H. split; [|split].
    + intros i1 i2 j1 j2 A1 A2 A3 B1 B2 B3 Hb T1 T2. specialize (H i1 i2 j1 j2 A1 A2 A3 B1 B2 B3 eq_refl).
      rewrite irs_hold_cons in H. apply andb_true_iff in H as [H _]. cbn [ir_holds] in H.
      assert (P1 : 0 < mvar 1 N i1 j1) by (apply mvar_pos; lia). assert (P2 : 0 < mvar 1 N i2 j2) by (apply mvar_pos; lia).
      pose proof (proj1 (clause_neg3 a _ _ _ P1 P2) H T1 T2) as H'. apply ramlb_lit in H'.
      unfold ramlb_bad in *. congruence.
    + intros -> . apply crossed_all_nondecreasing. intros i1 i2 j1 j2 A1 A2 A3 B1 B2 B3 _ T1 T2.
      specialize (H i1 i2 j1 j2 A1 A2 A3 B1 B2 B3 eq_refl).
      rewrite !irs_hold_cons in H. apply andb_true_iff in H as [_ H]. apply andb_true_iff in H as [H _]. cbn [ir_holds] in H.
      apply clause_neg2_true in H; auto; apply mvar_pos; lia.
    + intros -> i1 i2 j1 j2 A1 A2 A3 B1 B2 B3 Hb T1 T2. specialize (H i1 i2 j1 j2 A1 A2 A3 B1 B2 B3 eq_refl).
      rewrite !irs_hold_cons in H. apply andb_true_iff in H as [_ H]. apply andb_true_iff in H as [H _]. cbn [ir_holds] in H.
      assert (P1 : 0 < mvar 1 N i1 j2) by (apply mvar_pos; lia). assert (P2 : 0 < mvar 1 N i2 j1) by (apply mvar_pos; lia).
      pose proof (proj1 (clause_neg3 a _ _ _ P1 P2) H T1 T2) as H'. apply ramlb_lit in H'.
      unfold ramlb_bad in *. congruence.
  - intros [Hs [Hn Hc]] i1 i2 j1 j2 A1 A2 A3 B1 B2 B3 _. rewrite !irs_hold_cons, irs_hold_nil, andb_true_r.
    apply andb_true_iff. split.
    + cbn [ir_holds]. apply clause_neg3; try (apply mvar_pos; lia). intros T1 T2. apply ramlb_lit.
      destruct (ramlb_bad E (a 1) 0 0 j1 j2) eqn:Hb; [exfalso|reflexivity]. apply (Hs i1 i2 j1 j2); auto.
    + destruct sb; cbn [ir_holds].
      * apply clause_neg2_true; try (apply mvar_pos; lia). intros T1 T2.
        apply (proj2 (crossed_all_nondecreasing _ _ _) (Hn eq_refl) i1 i2 j1 j2); auto.
      * apply clause_neg3; try (apply mvar_pos; lia). intros T1 T2. apply ramlb_lit.
        destruct (ramlb_bad E (a 1) 0 0 j1 j2) eqn:Hb; [exfalso|reflexivity]. apply (Hc eq_refl i1 i2 j1 j2); auto.
Qed.

Lemma ramlb_pairs_ok N E k c phi : injection k N phi ->
  (pairs_ok (ramlb_bad E c) k phi <->
   forall i1 i2, 1 <= i1 <= k -> 1 <= i2 <= k -> i1 <> i2 -> has_edge E (phi i1) (phi i2) = c).
Proof.
  intros Hinj. unfold pairs_ok, ramlb_bad.
  assert (Q : forall x y : bool, negb (eqb x y) = false <-> y = x) by (intros [] []; cbn; split; congruence).
  split.
  - intros H i1 i2 H1 H2 Hne. destruct (Z.lt_ge_cases i1 i2) as [L|L].
    + specialize (H i1 i2 ltac:(lia) L ltac:(lia)). rewrite has_edge_minmax in H. now apply (proj1 (Q _ _)) in H.
    + specialize (H i2 i1 ltac:(lia) ltac:(lia) ltac:(lia)). rewrite has_edge_minmax in H. apply (proj1 (Q _ _)) in H.
      now rewrite has_edge_sym.
  - intros H i1 i2 A1 A2 A3. rewrite has_edge_minmax. apply (proj2 (Q _ _)). apply H; lia.
Qed.

Lemma ramlb_mk_ok E N sb i1 i2 j1 j2 : 1 <= i1 -> i1 < i2 -> 1 <= j1 -> j1 < j2 -> j2 <= N ->
  irs_ok (ramlb_mk E N sb i1 i2 j1 j2) = true.
Proof.
  intros A1 A2 B1 B2 B3. unfold ramlb_mk.
  assert (0 < mvar 1 N i1 j1) by (apply mvar_pos; lia). assert (0 < mvar 1 N i2 j2) by (apply mvar_pos; lia).
  assert (0 < mvar 1 N i1 j2) by (apply mvar_pos; lia). assert (0 < mvar 1 N i2 j1) by (apply mvar_pos; lia).
  unfold irs_ok, ir_ok. destruct sb, (has_edge E j1 j2); cbn [forallb ir_lits lits_ok]; unfold nonzero;
    repeat (apply andb_true_iff; split); try reflexivity; apply negb_true_iff; apply Z.eqb_neq; lia.
Qed.

Lemma ramlb_as_is_ok N E k s sb l : ramlb_as_is N E k s sb = Some l -> irs_ok l = true.
Proof.
  unfold ramlb_as_is. destruct ((k <? 0) || (s <? 0)); [discriminate|]. intros [= <-].
  rewrite irs_ok_app_iff. split; [apply emb_mapping_ok; lia|]. apply cons_clauses_ok. intros. apply ramlb_mk_ok; lia.
Qed.

(* T1 for the code as it is: the mapping lists k distinct vertices that are pairwise adjacent when
   C (variable 1) is true and pairwise non-adjacent when it is false — [s] does not occur *)
Theorem ramlb_as_is_char a N E k s sb l : ramlb_as_is N E k s sb = Some l ->
  (irs_hold a l = true <->
   exists phi, graph_of (rel_of a 1 N) phi k N /\ homogeneous N E k (a 1) phi /\ (sb = true -> increasing k phi)).
Proof.
  unfold ramlb_as_is. destruct ((k <? 0) || (s <? 0)); [discriminate|]. intros [= <-].
  rewrite irs_hold_app_iff, emb_mapping_sem, ramlb_cons_sem by lia. unfold homogeneous. split.
  - intros [[Ht [Hf [Hi _]]] [Hst [Hnd Hcr]]]. exists (dec_map a 1 N).
    assert (G := dec_map_graph a 1 N k Ht Hf). split; [exact G|].
    destruct (proj1 (emb_fun _ _ k N (ramlb_bad E (a 1)) sb G)) as [Hinj [Hinc Hp]]; [tauto|].
    split; [|exact Hinc]. split; [exact Hinj|]. exact (proj1 (ramlb_pairs_ok N E k (a 1) _ Hinj) Hp).
  - intros [phi [G [[Hinj He] Hinc]]].
    destruct (proj2 (emb_fun _ _ k N (ramlb_bad E (a 1)) sb G)) as [Hi [Hnd [Hst Hcr]]].
    { split; [exact Hinj|]. split; [exact Hinc|]. exact (proj2 (ramlb_pairs_ok N E k (a 1) _ Hinj) He). }
    pose proof (graph_of_total _ _ _ _ G). pose proof (graph_of_functional _ _ _ _ G).
    repeat split; auto; intros; discriminate.
Qed.

Theorem ramlb_as_is_sat_iff_raw N E k s sb l : ramlb_as_is N E k s sb = Some l ->
  ((exists a, irs_hold a l = true) <->
   exists c phi, homogeneous N E k c phi /\ (sb = true -> increasing k phi)).
Proof.
  intros Hl. split.
  - intros [a H]. apply (ramlb_as_is_char a N E k s sb l Hl) in H as [phi [_ H]]. now exists (a 1), phi.
  - intros [c [phi [He Hi]]].
    (* variable 1 is C, the mapping starts at variable 2 *)
    exists (fun v => if v =? 1 then c else enc_map 1 N phi v).
    apply (ramlb_as_is_char _ N E k s sb l Hl). exists phi. cbn [Z.eqb Pos.eqb]. split; [|auto].
    intros i Hi'. destruct He as [[Hr _] _]. split; [now apply Hr|]. intros j Hj. unfold rel_of.
    assert (0 < mvar 0 N i j) by (apply mvar_pos; lia).
    replace (mvar 1 N i j =? 1) with false by (symmetry; apply Z.eqb_neq; unfold mvar in *; lia).
    rewrite enc_map_mvar by lia. apply Z.eqb_eq.
Qed.

(* ---------- BinaryCliqueFormula ---------- *)
(* the vertex (1..N) spelled by the bits of clique member i *)
Definition bin_vertex (a : Z -> bool) (N : Z) (i : Z) : Z := bm_value a (bm_bits N) i + 1.

Lemma kcliquebin_cons_sem a N E k sb : 1 <= N ->
  (irs_hold a (cons_clauses (kclique_bad E) (kcliquebin_mk (bm_bits N) sb) k N) = true <->
   rel_straight (bm_rel a N) (kclique_bad E) k N /\ (sb = false -> rel_crossed (bm_rel a N) (kclique_bad E) k N)).
Proof.
  intros HN. destruct (bm_bits_spec N HN) as [Hb Hle]. rewrite cons_clauses_sem.
  unfold rel_straight, rel_crossed, bm_rel, kcliquebin_mk. split.
  - intros H. split.
    + intros i1 i2 j1 j2 A1 A2 A3 B1 B2 B3 Hbad T1 T2. apply Z.eqb_eq in T1, T2.
      specialize (H i1 i2 j1 j2 A1 A2 A3 B1 B2 B3 Hbad).
      rewrite irs_hold_cons in H. apply andb_true_iff in H as [H _]. cbn [ir_holds] in H.
      assert (C1 : 1 <= i1) by lia. assert (C2 : 1 <= i2) by lia.
      assert (C3 : 0 <= j1 - 1 < 2 ^ bm_bits N) by lia. assert (C4 : 0 <= j2 - 1 < 2 ^ bm_bits N) by lia.
      apply (proj1 (bm_forbid2_sem a _ i1 (j1 - 1) i2 (j2 - 1) Hb C1 C2 C3 C4) H); lia.
    + intros -> i1 i2 j1 j2 A1 A2 A3 B1 B2 B3 Hbad T1 T2. apply Z.eqb_eq in T1, T2.
      specialize (H i1 i2 j1 j2 A1 A2 A3 B1 B2 B3 Hbad).
      rewrite !irs_hold_cons in H. apply andb_true_iff in H as [_ H]. apply andb_true_iff in H as [H _]. cbn [ir_holds] in H.
      assert (C1 : 1 <= i1) by lia. assert (C2 : 1 <= i2) by lia.
      assert (C3 : 0 <= j1 - 1 < 2 ^ bm_bits N) by lia. assert (C4 : 0 <= j2 - 1 < 2 ^ bm_bits N) by lia.
      apply (proj1 (bm_forbid2_sem a _ i1 (j2 - 1) i2 (j1 - 1) Hb C1 C2 C4 C3) H); lia.
  - intros [Hs Hc] i1 i2 j1 j2 A1 A2 A3 B1 B2 B3 Hbad. rewrite irs_hold_cons. apply andb_true_iff. split.
    + cbn [ir_holds]. apply bm_forbid2_sem; try lia. intros T1 T2. apply (Hs i1 i2 j1 j2); auto; apply Z.eqb_eq; lia.
    + destruct sb; [reflexivity|]. rewrite irs_hold_cons, irs_hold_nil, andb_true_r. cbn [ir_holds].
      apply bm_forbid2_sem; try lia. intros T1 T2. apply (Hc eq_refl i1 i2 j1 j2); auto; apply Z.eqb_eq; lia.
Qed.

Lemma kcliquebin_ok N E k sb l : kcliquebin_ir N E k sb = Some l -> irs_ok l = true.
Proof.
  unfold kcliquebin_ir. destruct (Z.ltb_spec k 1); [discriminate|]. destruct (Z.ltb_spec N 1); [discriminate|].
  cbn [orb]. intros [= <-]. destruct (bm_bits_spec N ltac:(lia)) as [Hb _].
  rewrite !irs_ok_app_iff. split; [apply bm_complete_ok; lia|]. split; [apply bm_injective_ok; lia|]. split.
  - apply irs_ok_if. apply bm_nondecreasing_ok; lia.
  - apply cons_clauses_ok. intros i1 i2 j1 j2 A1 A2 A3 B1 B2 B3. unfold kcliquebin_mk, irs_ok. cbn [forallb].
    rewrite bm_forbid2_ok by lia. destruct sb; cbn [forallb]; [reflexivity|]. now rewrite bm_forbid2_ok by lia.
Qed.

(* T1, through  value a i = sum of the bits : the k bit strings spell k distinct, pairwise adjacent
   vertices (increasing when symmetry is broken) *)
Theorem kcliquebin_char a N E k sb l : kcliquebin_ir N E k sb = Some l ->
  (irs_hold a l = true <->
   homogeneous N E k true (bin_vertex a N) /\ (sb = true -> increasing k (bin_vertex a N))).
Proof.
  unfold kcliquebin_ir. destruct (Z.ltb_spec k 1); [discriminate|]. destruct (Z.ltb_spec N 1); [discriminate|].
  cbn [orb]. intros [= <-]. assert (HN : 1 <= N) by lia. destruct (bm_bits_spec N HN) as [Hb Hle].
  rewrite !irs_hold_app_iff, bm_complete_sem, bm_injective_sem, irs_hold_if, bm_nondecreasing_sem, kcliquebin_cons_sem by assumption.
  unfold homogeneous. split.
  - intros [Hc [Hi [Hnd [Hst Hcr]]]].
    assert (G : graph_of (bm_rel a N) (bin_vertex a N) k N).
    { intros i Hi'. unfold bin_vertex, bm_rel. pose proof (bm_value_range a (bm_bits N) i Hb). specialize (Hc i Hi').
      split; [lia|]. intros j Hj. apply Z.eqb_eq. }
    destruct (proj1 (emb_fun _ _ k N (kclique_bad E) sb G)) as [Hinj [Hinc Hp]]; [tauto|].
    split; [|exact Hinc]. split; [exact Hinj|]. exact (proj1 (kclique_pairs_ok N E k _ Hinj) Hp).
  - intros [[Hinj He] Hinc].
    assert (Hc : forall i, 1 <= i <= k -> bm_value a (bm_bits N) i < N).
    { intros i Hi'. destruct Hinj as [Hr _]. specialize (Hr i Hi'). unfold bin_vertex in Hr. lia. }
    assert (G : graph_of (bm_rel a N) (bin_vertex a N) k N).
    { intros i Hi'. unfold bin_vertex, bm_rel. pose proof (bm_value_range a (bm_bits N) i Hb). specialize (Hc i Hi').
      split; [lia|]. intros j Hj. apply Z.eqb_eq. }
    destruct (proj2 (emb_fun _ _ k N (kclique_bad E) sb G)) as [Hi [Hnd [Hst Hcr]]].
    { split; [exact Hinj|]. split; [exact Hinc|]. exact (proj2 (kclique_pairs_ok N E k _ Hinj) He). }
    tauto.
Qed.

(* ---------- RamseyWitnessFormula, the documented behaviour (ramlb_spec) ---------- *)
Lemma guarded_complete_sem a g off k N : 0 <= off ->
  (irs_hold a (guarded_complete g off k N) = true <-> (lit_true a g = false -> rel_total (rel_of a off N) k N)).
Proof.
  intros Hoff. unfold guarded_complete, rel_total, rel_of. rewrite irs_hold_map_iff. split.
  - intros H Hg i Hi. specialize (H i (proj2 (In_rng i k) Hi)). cbn [ir_holds] in H. rewrite clause_sat_cons, Hg in H.
    cbn [orb] in H. apply clause_pos_map in H as [j [Hj T]].
    + exists j. split; [now apply In_rng|assumption].
    + intros j Hj. apply In_rng in Hj. apply mvar_pos; lia.
  - intros H i Hi. apply In_rng in Hi. cbn [ir_holds]. rewrite clause_sat_cons. destruct (lit_true a g); [reflexivity|].
    cbn [orb]. destruct (H eq_refl i Hi) as [j [Hj T]]. apply clause_pos_map.
    + intros j' Hj'. apply In_rng in Hj'. apply mvar_pos; lia.
    + exists j. split; [now apply In_rng|assumption].
Qed.
Lemma guarded_complete_ok g off k N : 0 <= off -> g <> 0 -> irs_ok (guarded_complete g off k N) = true.
Proof.
  intros Hoff Hg. apply irs_ok_map. intros i Hi. apply In_rng in Hi. unfold ir_ok. cbn [ir_lits lits_ok forallb].
  apply andb_true_iff. split; [now apply nonzero_spec|]. apply lits_ok_map_pos. intros j Hj. apply In_rng in Hj. apply mvar_pos; lia.
Qed.

(* one half of the documented formula: an embedding that must be total only when the guard literal is false *)
Definition part_rel (a : Z -> bool) (g off k N : Z) (bad : Z -> Z -> Z -> Z -> bool) (sb : bool) : Prop :=
  (lit_true a g = false -> rel_total (rel_of a off N) k N) /\
  rel_functional (rel_of a off N) k N /\ rel_injective (rel_of a off N) k N /\
  (sb = true -> rel_nondecreasing (rel_of a off N) k N) /\
  rel_straight (rel_of a off N) bad k N /\ (sb = false -> rel_crossed (rel_of a off N) bad k N).

Lemma ramlb_part_sem a g off k N bad sb : 0 <= off ->
  (irs_hold a (ramlb_part g off k N bad sb) = true <-> part_rel a g off k N bad sb).
Proof.
  intros Hoff. unfold ramlb_part, part_rel.
  rewrite !irs_hold_app_iff, guarded_complete_sem, um_functional_sem, um_injective_sem, irs_hold_if, um_nondecreasing_sem,
    cons_pair_sem by lia. tauto.
Qed.
Lemma ramlb_part_ok g off k N bad sb : 0 <= off -> g <> 0 -> irs_ok (ramlb_part g off k N bad sb) = true.
Proof.
  intros Hoff Hg. unfold ramlb_part. rewrite !irs_ok_app_iff.
  repeat split; [now apply guarded_complete_ok|now apply um_functional_ok|now apply um_injective_ok|
                 apply irs_ok_if; now apply um_nondecreasing_ok|now apply cons_pair_ok].
Qed.

Lemma pairs_ok_ext bad bad' k phi : (forall i1 i2 j1 j2, bad i1 i2 j1 j2 = bad' i1 i2 j1 j2) ->
  (pairs_ok bad k phi <-> pairs_ok bad' k phi).
Proof. intros H. unfold pairs_ok. split; intros Hp i1 i2 A1 A2 A3; [rewrite <- H|rewrite H]; now apply Hp. Qed.

(* an active half is an embedding of a homogeneous set *)
Lemma part_active a g off k N E c bad sb : 0 <= off ->
  (forall i1 i2 j1 j2, bad i1 i2 j1 j2 = ramlb_bad E c i1 i2 j1 j2) ->
  part_rel a g off k N bad sb -> lit_true a g = false ->
  exists phi, graph_of (rel_of a off N) phi k N /\ homogeneous N E k c phi /\ (sb = true -> increasing k phi).
Proof.
  intros Hoff Hbad [Ht [Hf [Hi [Hnd [Hst Hcr]]]]] Hg. specialize (Ht Hg). exists (dec_map a off N).
  assert (G := dec_map_graph a off N k Ht Hf). split; [exact G|].
  destruct (proj1 (emb_fun _ _ k N bad sb G)) as [Hinj [Hinc Hp]]; [tauto|].
  split; [|exact Hinc]. split; [exact Hinj|]. apply (proj1 (ramlb_pairs_ok N E k c _ Hinj)).
  now apply (pairs_ok_ext bad (ramlb_bad E c)).
Qed.

(* conversely: the graph of a homogeneous set satisfies a half, whatever the guard *)
Lemma part_of_graph a g off k N E c bad sb phi :
  (forall i1 i2 j1 j2, bad i1 i2 j1 j2 = ramlb_bad E c i1 i2 j1 j2) ->
  graph_of (rel_of a off N) phi k N -> homogeneous N E k c phi -> (sb = true -> increasing k phi) ->
  part_rel a g off k N bad sb.
Proof.
  intros Hbad G [Hinj He] Hinc.
  destruct (proj2 (emb_fun _ _ k N bad sb G)) as [Hi [Hnd [Hst Hcr]]].
  { split; [exact Hinj|]. split; [exact Hinc|]. apply (pairs_ok_ext bad (ramlb_bad E c)); [assumption|].
    exact (proj2 (ramlb_pairs_ok N E k c _ Hinj) He). }
  pose proof (graph_of_total _ _ _ _ G). pose proof (graph_of_functional _ _ _ _ G). unfold part_rel. tauto.
Qed.

(* an empty relation satisfies a half whose guard literal is true *)
Lemma part_of_empty a g off k N bad sb :
  (forall i j, 1 <= i <= k -> 1 <= j <= N -> rel_of a off N i j = false) -> lit_true a g = true ->
  part_rel a g off k N bad sb.
Proof.
  intros He Hg. unfold part_rel. split; [intros H; congruence|]. split; [|split; [|split; [|split]]].
  - intros i j1 j2 Hi H1 H2 T1. rewrite He in T1 by lia. discriminate.
  - intros j i1 i2 Hj H1 H2 T1. rewrite He in T1 by lia. discriminate.
  - intros _ i1 i2 j1 j2 A1 A2 A3 B1 B2 B3 T1. rewrite He in T1 by lia. discriminate.
  - intros i1 i2 j1 j2 A1 A2 A3 B1 B2 B3 _ T1. rewrite He in T1 by lia. discriminate.
  - intros _ i1 i2 j1 j2 A1 A2 A3 B1 B2 B3 _ T1. rewrite He in T1 by lia. discriminate.
Qed.

Definition spec_bad_clique (E : list (Z * Z)) : Z -> Z -> Z -> Z -> bool := fun _ _ j1 j2 => negb (has_edge E j1 j2).
Definition spec_bad_indep (E : list (Z * Z)) : Z -> Z -> Z -> Z -> bool := fun _ _ j1 j2 => has_edge E j1 j2.
Lemma spec_bad_clique_eq E i1 i2 j1 j2 : spec_bad_clique E i1 i2 j1 j2 = ramlb_bad E true i1 i2 j1 j2.
Proof. unfold spec_bad_clique, ramlb_bad. now destruct (has_edge E j1 j2). Qed.
Lemma spec_bad_indep_eq E i1 i2 j1 j2 : spec_bad_indep E i1 i2 j1 j2 = ramlb_bad E false i1 i2 j1 j2.
Proof. unfold spec_bad_indep, ramlb_bad. now destruct (has_edge E j1 j2). Qed.

Lemma ramlb_spec_some N E k s sb l : ramlb_spec N E k s sb = Some l ->
  0 <= k /\ 0 <= s /\
  l = ramlb_part (-1) 1 k N (spec_bad_clique E) sb ++ ramlb_part 1 (1 + k * N) s N (spec_bad_indep E) sb.
Proof.
  unfold ramlb_spec. destruct (Z.ltb_spec k 0); [discriminate|]. destruct (Z.ltb_spec s 0); [discriminate|].
  cbn [orb]. intros Hl. split; [assumption|]. split; [assumption|]. symmetry. now injection Hl.
Qed.

Lemma ramlb_spec_ok N E k s sb l : 0 <= N -> ramlb_spec N E k s sb = Some l -> irs_ok l = true.
Proof.
  intros HN Hl. apply ramlb_spec_some in Hl as [Hk [Hs ->]]. assert (0 <= k * N) by (apply Z.mul_nonneg_nonneg; lia).
  rewrite irs_ok_app_iff. split; apply ramlb_part_ok; lia.
Qed.

(* T1 for the documented behaviour *)
Theorem ramlb_spec_char a N E k s sb l : 0 <= N -> ramlb_spec N E k s sb = Some l ->
  (irs_hold a l = true <->
   part_rel a (-1) 1 k N (spec_bad_clique E) sb /\ part_rel a 1 (1 + k * N) s N (spec_bad_indep E) sb).
Proof.
  intros HN Hl. apply ramlb_spec_some in Hl as [Hk [Hs ->]]. assert (0 <= k * N) by (apply Z.mul_nonneg_nonneg; lia).
  rewrite irs_hold_app_iff, !ramlb_part_sem by lia. reflexivity.
Qed.

(* when C is true the first mapping lists a k-clique, when C is false the second one an independent set of size s *)
Theorem ramlb_spec_witness a N E k s sb l : 0 <= N -> ramlb_spec N E k s sb = Some l -> irs_hold a l = true ->
  (a 1 = true -> exists phi, graph_of (rel_of a 1 N) phi k N /\ homogeneous N E k true phi /\ (sb = true -> increasing k phi)) /\
  (a 1 = false -> exists psi, graph_of (rel_of a (1 + k * N) N) psi s N /\ homogeneous N E s false psi /\ (sb = true -> increasing s psi)).
Proof.
  intros HN Hl H. assert (Hk : 0 <= k /\ 0 <= s) by (apply ramlb_spec_some in Hl; tauto).
  assert (HkN : 0 <= k * N) by (apply Z.mul_nonneg_nonneg; lia).
  apply (ramlb_spec_char a N E k s sb l HN Hl) in H as [H1 H2]. split; intros HC.
  - apply (part_active a (-1) 1 k N E true _ sb ltac:(lia) (spec_bad_clique_eq E) H1).
    change (-1) with (- (1)). rewrite lit_true_neg by lia. now rewrite HC.
  - apply (part_active a 1 (1 + k * N) s N E false _ sb ltac:(lia) (spec_bad_indep_eq E) H2).
    rewrite lit_true_pos by lia. exact HC.
Qed.

(* T2 for the documented behaviour: satisfiable iff there is a k-clique or an independent set of size s *)
Theorem ramlb_spec_sat_iff_raw N E k s sb l : 0 <= N -> ramlb_spec N E k s sb = Some l ->
  ((exists a, irs_hold a l = true) <->
   (exists phi, homogeneous N E k true phi /\ (sb = true -> increasing k phi)) \/
   (exists psi, homogeneous N E s false psi /\ (sb = true -> increasing s psi))).
Proof.
  intros HN Hl. assert (Hk : 0 <= k /\ 0 <= s) by (apply ramlb_spec_some in Hl; tauto).
  assert (HkN : 0 <= k * N) by (apply Z.mul_nonneg_nonneg; lia).
  split.
  - intros [a H]. destruct (ramlb_spec_witness a N E k s sb l HN Hl H) as [W1 W2]. destruct (a 1).
    + left. destruct (W1 eq_refl) as [phi [_ W]]. now exists phi.
    + right. destruct (W2 eq_refl) as [psi [_ W]]. now exists psi.
  - intros [[phi [Hh Hinc]]|[psi [Hh Hinc]]].
    + exists (fun v => if v =? 1 then true else if v <=? 1 + k * N then enc_map 1 N phi v else false).
      apply (ramlb_spec_char _ N E k s sb l HN Hl). split.
      * apply (part_of_graph _ (-1) 1 k N E true _ sb phi (spec_bad_clique_eq E)); auto.
        intros i Hi. destruct Hh as [[Hr _] _]. split; [now apply Hr|]. intros j Hj. unfold rel_of.
        pose proof (mvar_range 1 k N i j ltac:(lia) Hi Hj) as Hm.
        replace (mvar 1 N i j =? 1) with false by (symmetry; apply Z.eqb_neq; lia).
        replace (mvar 1 N i j <=? 1 + k * N) with true by (symmetry; apply Z.leb_le; lia).
        rewrite enc_map_mvar by lia. apply Z.eqb_eq.
      * apply part_of_empty; [|reflexivity]. intros i j Hi Hj. unfold rel_of.
        pose proof (mvar_range (1 + k * N) s N i j ltac:(lia) Hi Hj) as Hm.
        replace (mvar (1 + k * N) N i j =? 1) with false by (symmetry; apply Z.eqb_neq; lia).
        replace (mvar (1 + k * N) N i j <=? 1 + k * N) with false by (symmetry; apply Z.leb_gt; lia). reflexivity.
    + exists (fun v => if v =? 1 then false else if v <=? 1 + k * N then false else enc_map (1 + k * N) N psi v).
      apply (ramlb_spec_char _ N E k s sb l HN Hl). split.
      * apply part_of_empty; [|reflexivity]. intros i j Hi Hj. unfold rel_of.
        pose proof (mvar_range 1 k N i j ltac:(lia) Hi Hj) as Hm.
        replace (mvar 1 N i j =? 1) with false by (symmetry; apply Z.eqb_neq; lia).
        replace (mvar 1 N i j <=? 1 + k * N) with true by (symmetry; apply Z.leb_le; lia). reflexivity.
      * apply (part_of_graph _ 1 (1 + k * N) s N E false _ sb psi (spec_bad_indep_eq E)); auto.
        intros i Hi. destruct Hh as [[Hr _] _]. split; [now apply Hr|]. intros j Hj. unfold rel_of.
        pose proof (mvar_range (1 + k * N) s N i j ltac:(lia) Hi Hj) as Hm.
        replace (mvar (1 + k * N) N i j =? 1) with false by (symmetry; apply Z.eqb_neq; lia).
        replace (mvar (1 + k * N) N i j <=? 1 + k * N) with false by (symmetry; apply Z.leb_gt; lia).
        rewrite enc_map_mvar by lia. apply Z.eqb_eq.
Qed.

(* ---------- from lists of vertices to sets of vertices ---------- *)
Lemma homogeneous_set_iff N E k b sb : 0 <= k ->
  ((exists phi, homogeneous N E k b phi /\ (sb = true -> increasing k phi)) <-> exists S, homogeneous_set N E k b S).
Proof.
  intros Hk. split.
  - intros [phi [[[Hr Hinj] He] _]]. exists (map phi (rng k)). split; [|split; [|split]].
    + apply NoDup_map_inj_in; [|apply NoDup_rng]. intros x y Hx Hy. apply In_rng in Hx, Hy. now apply Hinj.
    + rewrite len_map. now apply len_rng.
    + intros v Hv. apply in_map_iff in Hv as [i [<- Hi]]. apply In_rng in Hi. now apply Hr.
    + intros u v Hu Hv Hne. apply in_map_iff in Hu as [i1 [<- H1]]. apply in_map_iff in Hv as [i2 [<- H2]].
      apply In_rng in H1, H2. apply He; auto. congruence.
  - intros [S [Hnd [Hlen [Hr He]]]]. destruct (sorted_enum S N Hnd Hr) as [psi [Hin [Hinc _]]]. rewrite Hlen in *.
    exists psi. split; [|intros _; exact Hinc].
    assert (Hinj : forall i1 i2, 1 <= i1 <= k -> 1 <= i2 <= k -> psi i1 = psi i2 -> i1 = i2).
    { intros i1 i2 H1 H2 Eq. destruct (Z.lt_trichotomy i1 i2) as [L|[L|L]]; [exfalso|assumption|exfalso].
      - specialize (Hinc i1 i2 ltac:(lia) L ltac:(lia)). lia.
      - specialize (Hinc i2 i1 ltac:(lia) L ltac:(lia)). lia. }
    split; [split|].
    + intros i Hi. apply Hr. now apply Hin.
    + exact Hinj.
    + intros i1 i2 H1 H2 Hne. apply He; [now apply Hin|now apply Hin|]. intros Eq. apply Hne. now apply Hinj.
Qed.

(* T2 for CliqueFormula: satisfiable iff G has a k-clique (with or without symmetry breaking) *)
Theorem kclique_sat_iff N E k sb l : kclique_ir N E k sb = Some l ->
  ((exists a, irs_hold a l = true) <-> exists S, homogeneous_set N E k true S).
Proof.
  intros Hl. rewrite (kclique_sat_iff_raw N E k sb l Hl). apply homogeneous_set_iff.
  unfold kclique_ir in Hl. destruct (Z.ltb_spec k 0); [discriminate|assumption].
Qed.

(* RamseyWitnessFormula as it is: satisfiable iff G has a k-clique or an independent set of size k *)
Theorem ramlb_as_is_sat_iff N E k s sb l : ramlb_as_is N E k s sb = Some l ->
  ((exists a, irs_hold a l = true) <->
   (exists S, homogeneous_set N E k true S) \/ (exists S, homogeneous_set N E k false S)).
Proof.
  intros Hl. rewrite (ramlb_as_is_sat_iff_raw N E k s sb l Hl).
  assert (Hk : 0 <= k). { unfold ramlb_as_is in Hl. destruct (Z.ltb_spec k 0); [discriminate|assumption]. }
  rewrite <- !(homogeneous_set_iff N E k _ sb Hk). split.
  - intros [[|] [phi H]]; [left|right]; now exists phi.
  - intros [[phi H]|[phi H]]; [exists true|exists false]; now exists phi.
Qed.

(* the documented statement, for the code as it is, under the extra hypothesis k = s *)
Theorem ramlb_partial N E k s sb l : k = s -> ramlb_as_is N E k s sb = Some l ->
  ((exists a, irs_hold a l = true) <->
   (exists S, homogeneous_set N E k true S) \/ (exists S, homogeneous_set N E s false S)).
Proof. intros <- Hl. now apply (ramlb_as_is_sat_iff N E k k sb l). Qed.

(* ... and it fails without it: two isolated vertices, k = 2, s = 3 (DESIGN.md D15) *)
Theorem ramlb_refuted : exists N E k s sb l,
  ramlb_as_is N E k s sb = Some l /\ (exists a, irs_hold a l = true) /\
  ~ ((exists S, homogeneous_set N E k true S) \/ (exists S, homogeneous_set N E s false S)).
Proof.
  exists 2, [], 2, 3, true. eexists. split; [reflexivity|]. split.
  - exists (fun v => (v =? 2) || (v =? 5)). vm_compute. reflexivity.
  - intros [[S [Hnd [Hlen [Hr He]]]]|[S [Hnd [Hlen [Hr He]]]]].
    + destruct S as [|u [|v [|w S]]]; unfold len in Hlen; cbn [length] in Hlen; try lia.
      inversion Hnd as [|? ? Hu _]; subst. assert (u <> v) by (intros ->; apply Hu; now left).
      specialize (He u v (or_introl eq_refl) (or_intror (or_introl eq_refl)) H). discriminate.
    + assert (Hle : (length S <= length (rng 2))%nat).
      { apply NoDup_incl_length; [assumption|]. intros v Hv. apply In_rng. now apply Hr. }
      unfold rng in Hle. rewrite length_zrange in Hle. unfold len in Hlen. lia.
Qed.

(* T2 for the documented behaviour, with sets *)
Theorem ramlb_spec_sat_iff N E k s sb l : 0 <= N -> ramlb_spec N E k s sb = Some l ->
  ((exists a, irs_hold a l = true) <->
   (exists S, homogeneous_set N E k true S) \/ (exists S, homogeneous_set N E s false S)).
Proof.
  intros HN Hl. rewrite (ramlb_spec_sat_iff_raw N E k s sb l HN Hl).
  destruct (ramlb_spec_some N E k s sb l Hl) as [Hk [Hs _]].
  rewrite (homogeneous_set_iff N E k true sb Hk), (homogeneous_set_iff N E s false sb Hs). reflexivity.
Qed.

(* ---------- T2 for BinaryCliqueFormula ---------- *)
Lemma homogeneous_ext N E k b phi psi : (forall i, 1 <= i <= k -> phi i = psi i) ->
  homogeneous N E k b phi -> homogeneous N E k b psi.
Proof.
  intros Hx [[Hr Hinj] He]. split; [split|].
  - intros i Hi. rewrite <- Hx by assumption. now apply Hr.
  - intros i1 i2 H1 H2. rewrite <- !Hx by assumption. now apply Hinj.
  - intros i1 i2 H1 H2 Hne. rewrite <- !Hx by assumption. now apply He.
Qed.
Lemma increasing_ext k phi psi : (forall i, 1 <= i <= k -> phi i = psi i) -> increasing k phi -> increasing k psi.
Proof. intros Hx H i1 i2 A1 A2 A3. rewrite <- !Hx by lia. now apply H. Qed.

Theorem kcliquebin_sat_iff N E k sb l : kcliquebin_ir N E k sb = Some l ->
  ((exists a, irs_hold a l = true) <-> exists S, homogeneous_set N E k true S).
Proof.
  intros Hl. assert (Hk : 1 <= k /\ 1 <= N).
  { unfold kcliquebin_ir in Hl. destruct (Z.ltb_spec k 1); [discriminate|]. destruct (Z.ltb_spec N 1); [discriminate|]. lia. }
  destruct (bm_bits_spec N ltac:(lia)) as [Hb Hle].
  rewrite <- (homogeneous_set_iff N E k true sb ltac:(lia)). split.
  - intros [a H]. apply (kcliquebin_char a N E k sb l Hl) in H. now exists (bin_vertex a N).
  - intros [phi [Hh Hinc]]. exists (enc_bits (bm_bits N) phi). apply (kcliquebin_char _ N E k sb l Hl).
    assert (Hx : forall i, 1 <= i <= k -> phi i = bin_vertex (enc_bits (bm_bits N) phi) N i).
    { intros i Hi. unfold bin_vertex. destruct Hh as [[Hr _] _]. specialize (Hr i Hi). rewrite bm_value_enc; lia. }
    split; [now apply (homogeneous_ext N E k true phi)|]. intros Hs. apply (increasing_ext k phi); auto.
Qed.

(* ---------- model counts: models <-> embeddings / ordered cliques ---------- *)
Lemma embedding_ext N EG k EH ind phi psi : (forall i, 1 <= i <= k -> phi i = psi i) ->
  embedding N EG k EH ind phi -> embedding N EG k EH ind psi.
Proof.
  intros Hx [[Hr Hinj] He]. split; [split|].
  - intros i Hi. rewrite <- Hx by assumption. now apply Hr.
  - intros i1 i2 H1 H2. rewrite <- !Hx by assumption. now apply Hinj.
  - intros i1 i2 H1 H2 Hne. rewrite <- !Hx by assumption. now apply He.
Qed.

Theorem subgraph_bijection N EG k EH ind sb : 0 <= k ->
  let P := fun phi => embedding N EG k EH ind phi /\ (sb = true -> increasing k phi) in
  let F := subgraph_ir N EG k EH ind sb in
  (forall a, irs_hold a F = true -> P (dec_map a 0 N)) /\
  (forall phi, P phi -> irs_hold (enc_map 0 N phi) F = true) /\
  (forall phi, P phi -> forall i, 1 <= i <= k -> dec_map (enc_map 0 N phi) 0 N i = phi i) /\
  (forall a, irs_hold a F = true -> forall v, 0 < v <= 0 + k * N -> enc_map 0 N (dec_map a 0 N) v = a v).
Proof.
  intros Hk P F. apply (char_bijection (fun a => irs_hold a F = true) 0 k N P); try lia.
  - intros phi psi Hx [He Hi]. split; [now apply (embedding_ext N EG k EH ind phi)|].
    intros Hs. apply (increasing_ext k phi); auto.
  - intros phi [[[Hr _] _] _]. exact Hr.
  - intros a. unfold F. rewrite subgraph_char. unfold P. split; intros [phi H]; exists phi; tauto.
Qed.

Theorem kclique_bijection N E k sb l : kclique_ir N E k sb = Some l ->
  let P := fun phi => homogeneous N E k true phi /\ (sb = true -> increasing k phi) in
  (forall a, irs_hold a l = true -> P (dec_map a 0 N)) /\
  (forall phi, P phi -> irs_hold (enc_map 0 N phi) l = true) /\
  (forall phi, P phi -> forall i, 1 <= i <= k -> dec_map (enc_map 0 N phi) 0 N i = phi i) /\
  (forall a, irs_hold a l = true -> forall v, 0 < v <= 0 + k * N -> enc_map 0 N (dec_map a 0 N) v = a v).
Proof.
  intros Hl P. assert (Hk : 0 <= k). { unfold kclique_ir in Hl. destruct (Z.ltb_spec k 0); [discriminate|assumption]. }
  apply (char_bijection (fun a => irs_hold a l = true) 0 k N P); try lia.
  - intros phi psi Hx [He Hi]. split; [now apply (homogeneous_ext N E k true phi)|].
    intros Hs. apply (increasing_ext k phi); auto.
  - intros phi [[[Hr _] _] _]. exact Hr.
  - intros a. rewrite (kclique_char a N E k sb l Hl). unfold P. split; intros [phi H]; exists phi; tauto.
Qed.
