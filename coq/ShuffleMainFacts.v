(* ShuffleMainFacts.v -- lemmas about the whole-program model of `cnfshuffle` (coq/ShuffleMain.v):
   the replay of random.shuffle over ANY stream of primitive draws is a permutation, the arguments handed to
   Shuffle are always valid, the output text reads back as a signed renaming of the input formula, the
   switches are independent, no argv / input reaches a crash after the repair, the draws are a function of
   (switches, number of variables, number of clauses).  Statements in Prop_C09_main.v. *)
From Coq Require Import ZArith List Bool Lia ZifyBool Permutation Ascii.
From Cnfgen Require Import Sem Comb SemFacts Text TextFacts Dimacs DimacsFacts Header Shuffle ShuffleFacts ShuffleMain.
Import ListNotations.
Open Scope Z_scope.

(* ------------------------------------------------------------------ *)
(* A. the primitive draws                                              *)
(* ------------------------------------------------------------------ *)
Definition shm_in_bound (b r : Z) : Prop := 0 <= r < b.

(* a value returned by _randbelow(n) is in [0, n) and what was read is a prefix of the stream *)
Lemma shm_randbelow_spec n : forall o r rest, shm_randbelow n o = DrOk r rest ->
  shm_in_bound n r /\ exists used, o = used ++ rest /\ used <> [].
Proof.
  induction o as [|x o IH]; intros r rest H; cbn [shm_randbelow] in H; [discriminate|].
  destruct ((x <? 0) || (2 ^ shm_bitlen n <=? x)) eqn:Eb; [discriminate|].
  destruct (x <? n) eqn:En.
  - inversion H; subst. split; [unfold shm_in_bound; lia|]. exists [r]. split; [reflexivity|discriminate].
  - destruct (IH r rest H) as [Hb (used & -> & _)]. split; [exact Hb|].
    exists (x :: used). split; [reflexivity|discriminate].
Qed.

Lemma shm_randbelow_app n e : forall o r rest, shm_randbelow n o = DrOk r rest ->
  shm_randbelow n (o ++ e) = DrOk r (rest ++ e).
Proof.
  induction o as [|x o IH]; intros r rest H; cbn [shm_randbelow app] in *; [discriminate|].
  destruct ((x <? 0) || (2 ^ shm_bitlen n <=? x)); [discriminate|].
  destruct (x <? n); [inversion H; reflexivity|]. apply IH, H.
Qed.

Lemma shm_draws_spec : forall bs o rs rest, shm_draws bs o = DrOk rs rest ->
  Forall2 shm_in_bound bs rs /\ exists used, o = used ++ rest.
Proof.
  induction bs as [|b bs IH]; intros o rs rest H; cbn [shm_draws] in H.
  - inversion H; subst. split; [constructor|]. exists []. reflexivity.
  - destruct (shm_randbelow b o) as [r o'| |] eqn:E1; try discriminate.
    destruct (shm_draws bs o') as [rs' o''| |] eqn:E2; try discriminate.
    inversion H; subst. apply shm_randbelow_spec in E1 as [Hb (u1 & -> & _)].
    apply IH in E2 as [Hf (u2 & ->)]. split; [constructor; assumption|].
    exists (u1 ++ u2). rewrite app_assoc. reflexivity.
Qed.

(* values after the ones that are read do not matter *)
Lemma shm_draws_app e : forall bs o rs rest, shm_draws bs o = DrOk rs rest ->
  shm_draws bs (o ++ e) = DrOk rs (rest ++ e).
Proof.
  induction bs as [|b bs IH]; intros o rs rest H; cbn [shm_draws] in *.
  - inversion H; reflexivity.
  - destruct (shm_randbelow b o) as [r o'| |] eqn:E1; try discriminate.
    destruct (shm_draws bs o') as [rs' o''| |] eqn:E2; try discriminate.
    inversion H; subst. rewrite (shm_randbelow_app b e _ _ _ E1), (IH _ _ _ E2). reflexivity.
Qed.

Lemma shm_draws_nil o : shm_draws [] o = DrOk [] o.
Proof. reflexivity. Qed.

Lemma shm_Forall2_length {A B} (P : A -> B -> Prop) l l' : Forall2 P l l' -> length l = length l'.
Proof. induction 1; cbn; congruence. Qed.

(* the results of the calls for bounds a ++ b split into those of a and those of b *)
Lemma shm_Forall2_split {A B} (P : A -> B -> Prop) (a b : list A) (rs : list B) :
  Forall2 P (a ++ b) rs ->
  Forall2 P a (firstn (length a) rs) /\ Forall2 P b (skipn (length a) rs).
Proof.
  intros H. apply Forall2_app_inv_l in H as (l1 & l2 & H1 & H2 & ->).
  pose proof (shm_Forall2_length _ _ _ H1) as E. rewrite E.
  rewrite firstn_app, Nat.sub_diag, firstn_all, firstn_O, app_nil_r.
  rewrite skipn_app, Nat.sub_diag, skipn_all, skipn_O. cbn [app]. split; assumption.
Qed.

(* ------------------------------------------------------------------ *)
(* B. random.shuffle over any stream is a permutation                  *)
(* ------------------------------------------------------------------ *)
Lemma shm_set_length {A} (v : A) : forall x i, length (shm_set i v x) = length x.
Proof. induction x as [|a t IH]; intros [|i]; cbn; auto. Qed.

Lemma shm_set_perm {A} (v d : A) : forall x i, (i < length x)%nat ->
  Permutation (nth i x d :: shm_set i v x) (v :: x).
Proof.
  induction x as [|a t IH]; intros i Hi; cbn [length] in Hi; [lia|].
  destruct i as [|i]; cbn [nth shm_set].
  - apply perm_swap.
  - eapply perm_trans; [apply perm_swap|]. eapply perm_trans; [|apply perm_swap].
    apply perm_skip. apply IH. lia.
Qed.

Lemma shm_nth_set_same {A} (v d : A) : forall x i, (i < length x)%nat -> nth i (shm_set i v x) d = v.
Proof.
  induction x as [|a t IH]; intros i Hi; cbn [length] in Hi; [lia|].
  destruct i as [|i]; cbn [nth shm_set]; [reflexivity|]. apply IH. lia.
Qed.
Lemma shm_nth_set_other {A} (v d : A) : forall x i j, i <> j -> nth i (shm_set j v x) d = nth i x d.
Proof.
  induction x as [|a t IH]; intros i j Hij; [destruct j; reflexivity|].
  destruct j as [|j]; destruct i as [|i]; cbn [nth shm_set]; try reflexivity; try lia.
  apply IH. lia.
Qed.

Lemma shm_swap_length i j x : length (shm_swap i j x) = length x.
Proof. unfold shm_swap. rewrite !shm_set_length. reflexivity. Qed.

Lemma shm_swap_perm i j x : (i < length x)%nat -> (j < length x)%nat -> Permutation (shm_swap i j x) x.
Proof.
  intros Hi Hj. unfold shm_swap.
  set (x1 := shm_set i (nth j x 0) x).
  assert (L1 : length x1 = length x) by apply shm_set_length.
  pose proof (shm_set_perm (nth j x 0) 0 x i Hi) as P1. fold x1 in P1.
  assert (Hj1 : (j < length x1)%nat) by lia.
  pose proof (shm_set_perm (nth i x 0) 0 x1 j Hj1) as P2.
  assert (E : nth j x1 0 = nth j x 0).
  { destruct (Nat.eq_dec j i) as [->|Hne].
    - unfold x1. apply shm_nth_set_same. exact Hi.
    - unfold x1. apply shm_nth_set_other. exact Hne. }
  rewrite E in P2.
  (* nth j x :: swap  ~  nth i x :: x1   and   nth i x :: x1 ~ nth j x :: x *)
  apply Permutation_cons_inv with (a := nth j x 0).
  eapply perm_trans; [exact P2|]. exact P1.
Qed.

Lemma shm_fy_perm : forall i js x, (i < length x)%nat -> Forall2 shm_in_bound (shm_down i) js ->
  Permutation (shm_fy i js x) x.
Proof.
  induction i as [|i IH]; intros js x Hi Hf.
  - destruct js; reflexivity.
  - cbn [shm_down] in Hf. inversion Hf as [|b j bs js' Hb Hf' E1 E2]; subst.
    cbn [shm_fy]. unfold shm_in_bound in Hb.
    assert (Hj : (Z.to_nat j < length x)%nat) by lia.
    eapply perm_trans.
    + apply IH; [rewrite shm_swap_length; lia|exact Hf'].
    + apply shm_swap_perm; [exact Hi|exact Hj].
Qed.

Theorem shm_shuffle_list_perm js x : Forall2 shm_in_bound (shm_down (length x - 1)) js ->
  Permutation (shm_shuffle_list js x) x.
Proof.
  intros Hf. unfold shm_shuffle_list. destruct x as [|a t].
  - cbn. destruct js; reflexivity.
  - apply shm_fy_perm; [cbn [length]; lia|exact Hf].
Qed.

(* for every stream: if random.shuffle gets all its draws, its result is a permutation of its argument *)
Theorem shm_shuffle_any_oracle x o js rest :
  shm_draws (shm_down (length x - 1)) o = DrOk js rest -> Permutation (shm_shuffle_list js x) x.
Proof. intros H. apply shm_shuffle_list_perm. apply (shm_draws_spec _ _ _ _ H). Qed.

Lemma shm_flips_pm1 rs : Forall pm1 (shm_flips rs).
Proof.
  unfold shm_flips. apply Forall_forall. intros f Hf. apply in_map_iff in Hf as (r & <- & _).
  unfold pm1. destruct (r =? 0); auto.
Qed.
Lemma shm_flips_length rs : length (shm_flips rs) = length rs.
Proof. apply map_length. Qed.

(* ------------------------------------------------------------------ *)
(* C. what the DIMACS reader returns can be written back               *)
(* ------------------------------------------------------------------ *)
Lemma shm_digit_val_range c d : digit_val c = Some d -> is_digit c = true /\ 0 <= d <= 9.
Proof.
  unfold digit_val. destruct (is_digit c) eqn:E; [|discriminate]. intros H. inversion H; subst.
  split; [reflexivity|]. unfold is_digit in E. lia.
Qed.
Lemma shm_digit_val_none c : digit_val c = None -> is_digit c = false.
Proof. unfold digit_val. destruct (is_digit c); [discriminate|reflexivity]. Qed.

Lemma shm_count_digits_cons c r : count_digits (c :: r) = (if is_digit c then 1 else 0) + count_digits r.
Proof. unfold count_digits. cbn [filter]. destruct (is_digit c); cbn [length]; lia. Qed.
Lemma shm_count_digits_nonneg s : 0 <= count_digits s.
Proof. unfold count_digits. lia. Qed.

Lemma shm_int_body_bound : forall n s acc v, (length s <= n)%nat -> 0 <= acc -> int_body acc s = Some v ->
  acc * 10 ^ count_digits s <= v < (acc + 1) * 10 ^ count_digits s.
Proof.
  induction n as [|n IH]; intros s acc v Hl Ha H.
  - destruct s; [|cbn in Hl; lia]. cbn in H. inversion H; subst. cbn. lia.
  - destruct s as [|c r]; [cbn in H; inversion H; subst; cbn; lia|].
    cbn [int_body] in H. rewrite shm_count_digits_cons.
    destruct (digit_val c) as [d|] eqn:Ed.
    + apply shm_digit_val_range in Ed as [Ec Hd]. rewrite Ec.
      assert (Hl' : (length r <= n)%nat) by (cbn in Hl; lia).
      pose proof (IH r (10 * acc + d) v Hl' ltac:(lia) H) as [B1 B2].
      pose proof (shm_count_digits_nonneg r) as Hk.
      rewrite Z.pow_add_r by lia. change (10 ^ 1) with 10.
      assert (HP : 0 < 10 ^ count_digits r) by (apply Z.pow_pos_nonneg; lia).
      remember (10 ^ count_digits r) as P. nia.
    + apply shm_digit_val_none in Ed. rewrite Ed.
      destruct (Ascii.eqb c "_"%char); [|discriminate].
      destruct r as [|c2 r2]; [discriminate|].
      destruct (digit_val c2) as [d|] eqn:Ed2; [|discriminate].
      apply shm_digit_val_range in Ed2 as [Ec Hd]. rewrite shm_count_digits_cons, Ec.
      assert (Hl' : (length r2 <= n)%nat) by (cbn in Hl; lia).
      pose proof (IH r2 (10 * acc + d) v Hl' ltac:(lia) H) as [B1 B2].
      pose proof (shm_count_digits_nonneg r2) as Hk.
      replace (0 + (1 + count_digits r2)) with (1 + count_digits r2) by lia.
      rewrite Z.pow_add_r by lia. change (10 ^ 1) with 10.
      assert (HP : 0 < 10 ^ count_digits r2) by (apply Z.pow_pos_nonneg; lia).
      remember (10 ^ count_digits r2) as P. nia.
Qed.

Lemma shm_parse_unsigned_bound s v : parse_unsigned s = Some v -> 0 <= v < 10 ^ count_digits s.
Proof.
  unfold parse_unsigned. destruct s as [|c r]; [discriminate|]. destruct (is_digit c); [|discriminate].
  intros H. pose proof (shm_int_body_bound _ _ 0 v (le_n _) ltac:(lia) H). lia.
Qed.

(* int(token) accepts at most 4300 digits: the value can be written by str() *)
Lemma shm_parse_int_printable s z : parse_int s = Some z -> printable z.
Proof.
  unfold parse_int, printable.
  set (nb := match s with
             | [] => (false, s)
             | c :: r => if Ascii.eqb c "-"%char then (true, r)
                         else if Ascii.eqb c "+"%char then (false, r) else (false, s)
             end).
  destruct nb as [neg body].
  destruct (max_str_digits <? count_digits body) eqn:El; [discriminate|].
  destruct (parse_unsigned body) as [v|] eqn:Ev; [|discriminate].
  intros H. inversion H; subst. apply shm_parse_unsigned_bound in Ev.
  assert (Hp : 10 ^ count_digits body <= 10 ^ max_str_digits) by (apply Z.pow_le_mono_r; lia).
  remember (10 ^ max_str_digits) as B. remember (10 ^ count_digits body) as C.
  destruct neg; lia.
Qed.

Lemma shm_parse_spec_printable s n m : parse_spec s = Some (n, m) -> printable n /\ printable m.
Proof.
  unfold parse_spec. destruct (split_ws s) as [|? [|? [|a [|b [|? ?]]]]]; try discriminate.
  destruct (parse_int a) as [n1|] eqn:Ea; [|discriminate].
  destruct (parse_int b) as [m1|] eqn:Eb; [|discriminate].
  destruct ((n1 <? 0) || (m1 <? 0)); [discriminate|]. intros H. inversion H; subst.
  split; eapply shm_parse_int_printable; eassumption.
Qed.

Lemma shm_valid_in_range n F : Forall (Forall (lit_in n)) F -> lits_in_range n F = true.
Proof.
  intros H. unfold lits_in_range. apply forallb_forall. intros c Hc.
  rewrite Forall_forall in H. specialize (H c Hc). apply forallb_forall. intros l Hl.
  rewrite Forall_forall in H. specialize (H l Hl). unfold lit_in in H.
  apply andb_true_iff. split; [apply nonzero_spec; lia|lia].
Qed.
Lemma shm_in_range_valid n F : 0 <= n -> lits_in_range n F = true -> valid n F.
Proof.
  intros Hn H. split; [exact Hn|]. unfold lits_in_range in H. rewrite forallb_forall in H.
  apply Forall_forall. intros c Hc. specialize (H c Hc). rewrite forallb_forall in H.
  apply Forall_forall. intros l Hl. specialize (H l Hl). apply andb_true_iff in H as [H1 H2].
  apply nonzero_spec in H1. unfold lit_in. lia.
Qed.

(* a formula the reader accepts: non-negative number of variables, literals in range, counts that str() can write *)
Lemma shm_parse_ok u t N F : parse_dimacs u t = DOk N F ->
  0 <= N /\ lits_in_range N F = true /\ printable N /\ printable (len F).
Proof.
  intros H. apply parse_sound_proved in H as (sl & m & _ & Hs & Hm & HN & _ & Hv).
  apply shm_parse_spec_printable in Hs as [P1 P2]. subst m.
  repeat split; try assumption. apply shm_valid_in_range, Hv.
Qed.

(* ------------------------------------------------------------------ *)
(* D. the arguments handed to Shuffle are valid, for every stream      *)
(* ------------------------------------------------------------------ *)
Lemma shm_len_zrange a n : 0 <= n -> length (zrange a (a + n)) = Z.to_nat n.
Proof. intros Hn. rewrite sh_length_zrange. f_equal. lia. Qed.

Lemma shm_args_valid nop nov noc N M rs fl pm cp : 0 <= N -> 0 <= M ->
  Forall2 shm_in_bound (shm_bounds nop nov noc N M) rs ->
  shm_args nop nov noc N M rs = (fl, pm, cp) ->
  flips_valid N fl /\ perm_valid 1 N pm /\ perm_valid 0 M cp.
Proof.
  intros HN HM Hf Ha. unfold shm_bounds in Hf. unfold shm_args in Ha.
  set (A := if nop then [] else shm_choice_bounds N) in *.
  set (B := if nov then [] else shm_shuffle_bounds N) in *.
  set (C := if noc then [] else shm_shuffle_bounds M) in *.
  assert (E1 : (if nop then O else length (shm_choice_bounds N)) = length A) by (unfold A; destruct nop; reflexivity).
  assert (E2 : (if nov then O else length (shm_shuffle_bounds N)) = length B) by (unfold B; destruct nov; reflexivity).
  rewrite E1, E2 in Ha.
  apply shm_Forall2_split in Hf as [HA HBC]. apply shm_Forall2_split in HBC as [HB HC].
  inversion Ha; subst fl pm cp. clear Ha. split; [|split].
  - destruct nop; cbn [flips_valid]; [trivial|]. split; [|apply shm_flips_pm1].
    unfold len. rewrite shm_flips_length, <- (shm_Forall2_length _ _ _ HA).
    unfold A, shm_choice_bounds. rewrite repeat_length. lia.
  - destruct nov; cbn [perm_valid]; [trivial|].
    apply shm_shuffle_list_perm. rewrite (shm_len_zrange 1 N HN). exact HB.
  - destruct noc; cbn [perm_valid]; [trivial|].
    apply shm_shuffle_list_perm. rewrite (shm_len_zrange 0 M HM). exact HC.
Qed.

(* ------------------------------------------------------------------ *)
(* E. inversion of the program                                          *)
(* ------------------------------------------------------------------ *)
Lemma shm_plan_run rep env argv stdin o N F : shm_plan_of rep env argv stdin = PlanRun o N F ->
  shm_parse_args env argv = PaOk o /\
  parse_dimacs (shm_universal o) (shm_input_text env o stdin) = DOk N F /\
  so_nop o && (shm_word <=? N) = false.
Proof.
  unfold shm_plan_of. destruct (shm_parse_args env argv) as [o'| | |]; try discriminate.
  destruct (match so_input o' with Some f => shm_mem f (so_outs o') | None => false end); [discriminate|].
  destruct (parse_dimacs (shm_universal o') (shm_input_text env o' stdin)) as [N' F'|e k] eqn:Ep; [|discriminate].
  destruct (so_nop o' && (shm_word <=? N')) eqn:Ew; [destruct rep; discriminate|].
  intros H. inversion H; subst. repeat split; assumption.
Qed.

(* a run that stops before its draws: outside, a command line error, or (as found only) the OverflowError *)
Lemma shm_plan_stop rep env argv stdin r : shm_plan_of rep env argv stdin = PlanStop r ->
  r = ShmOutside \/ r = ShmCliError \/
  (r = ShmCrash /\ rep = false /\ exists o N F, shm_parse_args env argv = PaOk o /\
     parse_dimacs (shm_universal o) (shm_input_text env o stdin) = DOk N F /\ so_nop o = true /\ shm_word <= N).
Proof.
  unfold shm_plan_of. destruct (shm_parse_args env argv) as [o'| | |] eqn:Ea;
    try (intros H; inversion H; auto; fail).
  destruct (match so_input o' with Some f => shm_mem f (so_outs o') | None => false end);
    [intros H; inversion H; auto|].
  destruct (parse_dimacs (shm_universal o') (shm_input_text env o' stdin)) as [N' F'|e k] eqn:Ep;
    [|intros H; inversion H; auto].
  destruct (so_nop o' && (shm_word <=? N')) eqn:Ew; [|discriminate].
  destruct rep; intros H; inversion H; auto.
  right. right. apply andb_true_iff in Ew as [E1 E2]. repeat split.
  exists o', N', F'. repeat split; try assumption. lia.
Qed.

Lemma shm_core rep env argv stdin oracle dest t :
  cnfshuffle_main_gen rep env argv stdin oracle = ShmOut dest t ->
  exists o N F rs rest fl pm cp out,
    shm_plan_of rep env argv stdin = PlanRun o N F /\
    shm_draws (shm_bounds (so_nop o) (so_nov o) (so_noc o) N (len F)) oracle = DrOk rs rest /\
    shm_args (so_nop o) (so_nov o) (so_noc o) N (len F) rs = (fl, pm, cp) /\
    shuffle N F fl pm cp = ShOk N out /\
    dest = so_output o /\ t = print_dimacs (shm_out_header env o) None N out.
Proof.
  unfold cnfshuffle_main_gen, shm_run. destruct (shm_plan_of rep env argv stdin) as [o N F|r] eqn:Ep.
  - cbn [shm_plan_bounds]. unfold shm_finish.
    destruct (shm_draws (shm_bounds (so_nop o) (so_nov o) (so_noc o) N (len F)) oracle) as [rs rest| |] eqn:Ed;
      try discriminate.
    destruct (shm_args (so_nop o) (so_nov o) (so_noc o) N (len F) rs) as [[fl pm] cp] eqn:Ea.
    destruct (shuffle N F fl pm cp) as [n out| | |] eqn:Es; try discriminate.
    intros H. inversion H; subst.
    destruct (shm_plan_run _ _ _ _ _ _ _ Ep) as (_ & Hp & _).
    destruct (shm_parse_ok _ _ _ _ Hp) as (HN & HF & _ & _).
    destruct (shuffle_counts _ _ _ _ _ _ _ HN HF Es) as (-> & _).
    exists o, N, F, rs, rest, fl, pm, cp, out. repeat split; assumption.
  - intros ->. apply shm_plan_stop in Ep as [E|[E|[E _]]]; discriminate.
Qed.

(* whenever all draws are there, Shuffle succeeds: the ValueError branch of shm_finish is dead *)
Lemma shm_shuffle_succeeds o N F rs rest oracle fl pm cp : 0 <= N ->
  shm_draws (shm_bounds (so_nop o) (so_nov o) (so_noc o) N (len F)) oracle = DrOk rs rest ->
  shm_args (so_nop o) (so_nov o) (so_noc o) N (len F) rs = (fl, pm, cp) ->
  exists n out, shuffle N F fl pm cp = ShOk n out.
Proof.
  intros HN Hd Ha. apply shm_draws_spec in Hd as [Hf _].
  apply (shuffle_validation N F fl pm cp HN).
  eapply shm_args_valid; try eassumption. apply len_nonneg.
Qed.

(* ------------------------------------------------------------------ *)
(* F. the output reads back as a signed renaming of the input          *)
(* ------------------------------------------------------------------ *)
Lemma shm_args_fixed nop nov noc N M rs fl pm cp : shm_args nop nov noc N M rs = (fl, pm, cp) ->
  (nop = true -> fl = ShFixed) /\ (nov = true -> pm = ShFixed) /\ (noc = true -> cp = ShFixed).
Proof. unfold shm_args. intros H. inversion H. repeat split; intros ->; reflexivity. Qed.

Lemma shm_nth_in_perm perm N i : Permutation perm (zrange 1 (1 + N)) -> (i < Z.to_nat N)%nat -> 0 <= N ->
  1 <= nth i perm 0 <= N.
Proof.
  intros Hp Hi HN. assert (Hl : length perm = Z.to_nat N).
  { rewrite (Permutation_length Hp). apply shm_len_zrange. exact HN. }
  assert (Hin : In (nth i perm 0) perm) by (apply nth_In; lia).
  apply (Permutation_in _ Hp) in Hin. apply sh_in_zrange in Hin. lia.
Qed.

Theorem shm_is_renaming rep env argv stdin oracle dest t :
  cnfshuffle_main_gen rep env argv stdin oracle = ShmOut dest t ->
  exists o N F out flips perm cperm,
    shm_parse_args env argv = PaOk o /\ dest = so_output o /\
    parse_dimacs (shm_universal o) (shm_input_text env o stdin) = DOk N F /\
    (forall u, parse_dimacs u t = DOk N out) /\
    0 <= N /\ lits_in_range N F = true /\ lits_in_range N out = true /\
    length out = length F /\ Permutation (map (@length Z) F) (map (@length Z) out) /\
    let sigma := subst_lit flips perm in
    let sigma' := inv_lit flips perm in
    signed_map N sigma /\ signed_map N sigma' /\
    (forall l, inrange N l -> sigma' (sigma l) = l) /\ (forall l, inrange N l -> sigma (sigma' l) = l) /\
    Permutation cperm (zrange 0 (len F)) /\
    Permutation out (map (map sigma) F) /\
    (forall i, (i < length F)%nat -> nth (Z.to_nat (nth i cperm 0)) out [] = map sigma (nth i F [])) /\
    (forall a, cnf_sat a out = cnf_sat (pull sigma a) F) /\
    (forall a v, 1 <= v <= N -> pull sigma' (pull sigma a) v = a v) /\
    (forall a v, 1 <= v <= N -> pull sigma (pull sigma' a) v = a v) /\
    count_models N out = count_models N F /\
    (so_nop o = true -> forall l, inrange N l -> (0 < sigma l <-> 0 < l)) /\
    (so_nov o = true -> forall l, inrange N l -> Z.abs (sigma l) = Z.abs l) /\
    (so_noc o = true -> out = map (map sigma) F).
Proof.
  intros H. apply shm_core in H as (o & N & F & rs & rest & fl & pm & cp & out & Hplan & Hd & Ha & Hs & -> & ->).
  destruct (shm_plan_run _ _ _ _ _ _ _ Hplan) as (Hargs & Hparse & _).
  destruct (shm_parse_ok _ _ _ _ Hparse) as (HN & HF & PN & PM).
  destruct (shuffle_counts _ _ _ _ _ _ _ HN HF Hs) as (_ & Hlen & Hw & Hout).
  destruct (shuffle_is_signed_renaming _ _ _ _ _ _ _ HN Hs)
    as (flips & perm & cperm & Cf & Cp & Cc & S1 & S2 & S3 & S4 & Sv & Pc & Po & Pos).
  cbv zeta in S1, S2, S3, S4, Sv, Po, Pos.
  exists o, N, F, out, flips, perm, cperm.
  split; [exact Hargs|]. split; [reflexivity|]. split; [exact Hparse|].
  split.
  { intros u. apply dimacs_roundtrip_proved; [apply shm_in_range_valid; assumption|exact PN|].
    unfold len. rewrite Hlen. exact PM. }
  do 5 (split; [assumption|]). cbv zeta.
  do 7 (split; [assumption|]).
  split. { intros a. rewrite (cnf_sat_permutation a _ _ Po). now apply (pull_cnf a _ N). }
  split. { intros a v Hv. now apply (pull_inverse a _ _ N). }
  split. { intros a v Hv. now apply (pull_inverse a _ _ N). }
  split. { apply (model_count_preserved N F fl pm cp N out HN HF Hs). }
  destruct (shm_args_fixed _ _ _ _ _ _ _ _ _ Ha) as (Fp & Fv & Fc).
  destruct (check_flips_some _ _ _ HN Cf) as [Lf Pf].
  pose proof (check_permutation_some _ _ _ _ HN Cp) as Pp.
  split; [|split].
  - (* -p : no polarity flip *)
    intros Enop. assert (Ef : repeat 1 (Z.to_nat N) = flips) by (rewrite (Fp Enop), check_flips_fixed in Cf; congruence).
    assert (Pos1 : forall v, 1 <= v <= N -> 1 <= subst_lit flips perm v).
    { intros v Hv. rewrite (Sv v Hv), <- Ef.
      assert (Hi : (Z.to_nat (v - 1) < Z.to_nat N)%nat) by lia.
      rewrite (nth_indep _ 0 1) by (rewrite repeat_length; exact Hi). rewrite nth_repeat.
      pose proof (shm_nth_in_perm perm N _ Pp Hi HN). lia. }
    intros l [Hl0 HlN]. destruct (Z.lt_trichotomy l 0) as [Hneg|[Hz|Hpos]]; [|lia|].
    + assert (Hr : inrange N (- l)) by (split; lia).
      destruct (S1 (- l) Hr) as [_ Hodd]. rewrite Z.opp_involutive in Hodd.
      pose proof (Pos1 (- l) ltac:(lia)). lia.
    + pose proof (Pos1 l ltac:(lia)). lia.
  - (* -v : no renaming *)
    intros Enov. assert (Ep : zrange 1 (1 + N) = perm) by (rewrite (Fv Enov), check_permutation_fixed in Cp; congruence).
    assert (Abs1 : forall v, 1 <= v <= N -> Z.abs (subst_lit flips perm v) = v).
    { intros v Hv. rewrite (Sv v Hv), <- Ep.
      assert (Hi : (Z.to_nat (v - 1) < Z.to_nat N)%nat) by lia.
      rewrite sh_nth_zrange by lia.
      assert (Hfl : pm1 (nth (Z.to_nat (v - 1)) flips 0)).
      { rewrite Forall_forall in Pf. apply Pf. apply nth_In. unfold len in Lf. lia. }
      destruct Hfl as [->| ->]; lia. }
    intros l [Hl0 HlN]. destruct (Z.lt_trichotomy l 0) as [Hneg|[Hz|Hpos]]; [|lia|].
    + assert (Hr : inrange N (- l)) by (split; lia).
      destruct (S1 (- l) Hr) as [_ Hodd]. rewrite Z.opp_involutive in Hodd.
      pose proof (Abs1 (- l) ltac:(lia)). lia.
    + pose proof (Abs1 l ltac:(lia)). lia.
  - (* -c : clauses stay in place *)
    intros Enoc. assert (Ec : zrange 0 (0 + len F) = cperm) by (rewrite (Fc Enoc), check_permutation_fixed in Cc; congruence).
    destruct (shuffle_inv _ _ _ _ _ _ _ Hs) as (flips' & perm' & cperm' & Cf' & Cp' & Cc' & Eout & _).
    assert (flips' = flips) by congruence. assert (perm' = perm) by congruence.
    assert (cperm' = zrange 0 (0 + len F)) by (rewrite (Fc Enoc), check_permutation_fixed in Cc'; congruence).
    subst flips' perm' cperm'. rewrite Eout. rewrite <- (sh_len_map (map (subst_lit flips perm)) F). apply place_identity.
Qed.

(* -p -v -c : no draw is read, the formula is written as it was read *)
Theorem shm_fixed_identity rep env argv stdin o :
  shm_parse_args env argv = PaOk o -> so_nop o = true -> so_nov o = true -> so_noc o = true ->
  forall oracle,
    cnfshuffle_main_gen rep env argv stdin oracle = cnfshuffle_main_gen rep env argv stdin [] /\
    forall dest t, cnfshuffle_main_gen rep env argv stdin oracle = ShmOut dest t ->
      exists N F, parse_dimacs (shm_universal o) (shm_input_text env o stdin) = DOk N F /\
                  t = print_dimacs (shm_out_header env o) None N F /\
                  forall u, parse_dimacs u t = DOk N F.
Proof.
  intros Hargs Ep Ev Ec oracle.
  assert (Hb : forall p, (forall o' N F, p = PlanRun o' N F -> o' = o) -> shm_plan_bounds p = []).
  { intros [o' N F|r] Hp; [|reflexivity]. rewrite (Hp o' N F eq_refl). cbn [shm_plan_bounds].
    unfold shm_bounds. rewrite Ep, Ev, Ec. reflexivity. }
  assert (Ho : forall o' N F, shm_plan_of rep env argv stdin = PlanRun o' N F -> o' = o).
  { intros o' N F Hp. apply shm_plan_run in Hp as (Hp & _). rewrite Hargs in Hp. inversion Hp. reflexivity. }
  split.
  - unfold cnfshuffle_main_gen, shm_run. destruct (shm_plan_of rep env argv stdin) as [o' N F|r] eqn:Eplan; [|reflexivity].
    rewrite (Hb _ (fun o1 N1 F1 E => Ho o1 N1 F1 (eq_trans (eq_sym eq_refl) E))).
    reflexivity.
  - intros dest t H. apply shm_core in H as (o' & N & F & rs & rest & fl & pm & cp & out & Hplan & Hd & Ha & Hs & -> & ->).
    pose proof (Ho _ _ _ Hplan) as ->.
    destruct (shm_plan_run _ _ _ _ _ _ _ Hplan) as (_ & Hparse & _).
    destruct (shm_parse_ok _ _ _ _ Hparse) as (HN & HF & PN & PM).
    destruct (shm_args_fixed _ _ _ _ _ _ _ _ _ Ha) as (Fp & Fv & Fc).
    rewrite (Fp Ep), (Fv Ev), (Fc Ec), (all_fixed_is_identity N F HN HF) in Hs. inversion Hs; subst out.
    exists N, F. split; [exact Hparse|]. split; [reflexivity|].
    intros u. apply dimacs_roundtrip_proved; [apply shm_in_range_valid; assumption|exact PN|exact PM].
Qed.

(* ------------------------------------------------------------------ *)
(* G. totality                                                          *)
(* ------------------------------------------------------------------ *)
Lemma shm_finish_no_crash env o N F d : shm_finish env o N F d <> ShmCrash /\ shm_finish env o N F d <> ShmOutside.
Proof.
  unfold shm_finish. destruct d as [rs rest| |]; try (split; discriminate).
  destruct (shm_args (so_nop o) (so_nov o) (so_noc o) N (len F) rs) as [[fl pm] cp].
  destruct (shuffle N F fl pm cp); split; discriminate.
Qed.

(* after the repair: no argv, no input text, no stream reaches a crash *)
Theorem shm_total_repaired env argv stdin oracle : cnfshuffle_main_repaired env argv stdin oracle <> ShmCrash.
Proof.
  unfold cnfshuffle_main_repaired, cnfshuffle_main_gen, shm_run.
  destruct (shm_plan_of true env argv stdin) as [o N F|r] eqn:Ep.
  - apply shm_finish_no_crash.
  - apply shm_plan_stop in Ep as [->|[->|[_ [E _]]]]; discriminate.
Qed.

(* as found: the only crash is the OverflowError of `[1] * N` under -p with N >= 2^63 *)
Theorem shm_crash_only_overflow env argv stdin oracle :
  cnfshuffle_main_env env argv stdin oracle = ShmCrash ->
  exists o N F, shm_parse_args env argv = PaOk o /\
                parse_dimacs (shm_universal o) (shm_input_text env o stdin) = DOk N F /\ so_nop o = true /\ shm_word <= N.
Proof.
  unfold cnfshuffle_main_env, cnfshuffle_main_gen, shm_run.
  destruct (shm_plan_of false env argv stdin) as [o N F|r] eqn:Ep.
  - intros H. exfalso. revert H. apply shm_finish_no_crash.
  - intros ->. apply shm_plan_stop in Ep as [E|[E|[_ [_ E]]]]; try discriminate. exact E.
Qed.

(* the two programs differ only there *)
Lemma shm_plan_repaired env argv stdin :
  shm_plan_of true env argv stdin = shm_plan_of false env argv stdin \/
  (shm_plan_of false env argv stdin = PlanStop ShmCrash /\ shm_plan_of true env argv stdin = PlanStop ShmCliError).
Proof.
  unfold shm_plan_of. destruct (shm_parse_args env argv) as [o| | |]; auto.
  destruct (match so_input o with Some f => shm_mem f (so_outs o) | None => false end); auto.
  destruct (parse_dimacs (shm_universal o) (shm_input_text env o stdin)) as [N F|e k]; auto.
  destruct (so_nop o && (shm_word <=? N)); auto.
Qed.
Theorem shm_repaired_agrees env argv stdin oracle :
  cnfshuffle_main_env env argv stdin oracle <> ShmCrash ->
  cnfshuffle_main_repaired env argv stdin oracle = cnfshuffle_main_env env argv stdin oracle.
Proof.
  unfold cnfshuffle_main_env, cnfshuffle_main_repaired, cnfshuffle_main_gen.
  destruct (shm_plan_repaired env argv stdin) as [E|[E1 E2]].
  - rewrite E. reflexivity.
  - rewrite E1. cbn [shm_run]. intros H. contradiction H. reflexivity.
Qed.

(* a run that gets to its draws and finds them all writes a formula: the ValueError branch after Shuffle is dead *)
Theorem shm_run_outputs rep env argv stdin oracle o N F :
  shm_plan_of rep env argv stdin = PlanRun o N F ->
  match shm_draws (shm_bounds (so_nop o) (so_nov o) (so_noc o) N (len F)) oracle with
  | DrOk _ _ => exists t, cnfshuffle_main_gen rep env argv stdin oracle = ShmOut (so_output o) t
  | DrEnd => cnfshuffle_main_gen rep env argv stdin oracle = ShmOracleEnd
  | DrBad => cnfshuffle_main_gen rep env argv stdin oracle = ShmOracleBad
  end.
Proof.
  intros Hp. unfold cnfshuffle_main_gen, shm_run. rewrite Hp. cbn [shm_plan_bounds]. unfold shm_finish.
  destruct (shm_draws (shm_bounds (so_nop o) (so_nov o) (so_noc o) N (len F)) oracle) as [rs rest| |] eqn:Ed;
    try reflexivity.
  destruct (shm_args (so_nop o) (so_nov o) (so_noc o) N (len F) rs) as [[fl pm] cp] eqn:Ea.
  destruct (shm_plan_run _ _ _ _ _ _ _ Hp) as (_ & Hparse & _).
  destruct (shm_parse_ok _ _ _ _ Hparse) as (HN & _).
  destruct (shm_shuffle_succeeds o N F rs rest oracle fl pm cp HN Ed Ea) as (n & out & ->).
  eexists. reflexivity.
Qed.

(* ------------------------------------------------------------------ *)
(* H. the draws: a function of (switches, N, M); nothing else of the stream matters *)
(* ------------------------------------------------------------------ *)
Definition shm_forget_rest (d : shm_dr (list Z)) : shm_dr (list Z) :=
  match d with DrOk rs _ => DrOk rs [] | DrEnd => DrEnd | DrBad => DrBad end.

Lemma shm_finish_forget env o N F d : shm_finish env o N F (shm_forget_rest d) = shm_finish env o N F d.
Proof. destruct d; reflexivity. Qed.

(* the output depends on the stream only through the results of the _randbelow calls whose bounds are
   [shm_plan_bounds]: by definition a function of the switches, the number of variables and of clauses *)
Theorem shm_output_by_draws rep env argv stdin o1 o2 :
  let bs := shm_plan_bounds (shm_plan_of rep env argv stdin) in
  shm_forget_rest (shm_draws bs o1) = shm_forget_rest (shm_draws bs o2) ->
  cnfshuffle_main_gen rep env argv stdin o1 = cnfshuffle_main_gen rep env argv stdin o2.
Proof.
  cbv zeta. unfold cnfshuffle_main_gen, shm_run. destruct (shm_plan_of rep env argv stdin) as [o N F|r]; [|reflexivity].
  intros H. rewrite <- (shm_finish_forget env o N F (shm_draws _ o1)), H. apply shm_finish_forget.
Qed.

Theorem shm_bounds_of_plan rep env argv stdin o N F :
  shm_plan_of rep env argv stdin = PlanRun o N F ->
  shm_plan_bounds (shm_plan_of rep env argv stdin) =
    (if so_nop o then [] else repeat 2 (Z.to_nat N)) ++
    (if so_nov o then [] else shm_down (Z.to_nat N - 1)) ++
    (if so_noc o then [] else shm_down (Z.to_nat (len F) - 1)).
Proof. intros ->. reflexivity. Qed.

Lemma shm_down_length i : length (shm_down i) = i.
Proof. induction i as [|i IH]; cbn [shm_down length]; congruence. Qed.
Lemma shm_down_bounds i b : In b (shm_down i) -> 2 <= b <= Z.of_nat i + 1.
Proof.
  induction i as [|i IH]; cbn [shm_down In]; [tauto|]. intros [<-|H]; [lia|]. apply IH in H. lia.
Qed.

(* number of _randbelow calls and their bounds *)
Theorem shm_bounds_count nop nov noc N M : 0 <= N -> 0 <= M ->
  len (shm_bounds nop nov noc N M) =
    (if nop then 0 else N) + (if nov then 0 else Z.max 0 (N - 1)) + (if noc then 0 else Z.max 0 (M - 1)) /\
  Forall (fun b => 2 <= b <= Z.max 2 (Z.max N M)) (shm_bounds nop nov noc N M).
Proof.
  intros HN HM. unfold shm_bounds, shm_choice_bounds, shm_shuffle_bounds, len. split.
  - rewrite !app_length. destruct nop, nov, noc; cbn [length]; rewrite ?repeat_length, ?shm_down_length; lia.
  - apply Forall_forall. intros b Hb. apply in_app_or in Hb as [Hb|Hb]; [|apply in_app_or in Hb as [Hb|Hb]].
    + destruct nop; [destruct Hb|]. apply repeat_spec in Hb. lia.
    + destruct nov; [destruct Hb|]. apply shm_down_bounds in Hb. lia.
    + destruct noc; [destruct Hb|]. apply shm_down_bounds in Hb. lia.
Qed.

(* what follows the values that are read does not matter *)
Theorem shm_unused_draws rep env argv stdin oracle extra dest t :
  cnfshuffle_main_gen rep env argv stdin oracle = ShmOut dest t ->
  cnfshuffle_main_gen rep env argv stdin (oracle ++ extra) = ShmOut dest t.
Proof.
  intros H. rewrite <- H. apply shm_output_by_draws. cbv zeta.
  apply shm_core in H as (o & N & F & rs & rest & fl & pm & cp & out & Hplan & Hd & _).
  rewrite Hplan. cbn [shm_plan_bounds]. rewrite (shm_draws_app extra _ _ _ _ Hd), Hd. reflexivity.
Qed.

(* ------------------------------------------------------------------ *)
(* I. runs against a generator                                          *)
(* ------------------------------------------------------------------ *)
Section Gen.
  Context {G : Type} (bits : Z -> G -> Z * G).
  (* getrandbits(k) returns a value in [0, 2^k) *)
  Definition shm_bits_ok : Prop := forall k g, 0 <= k -> 0 <= fst (bits k g) < 2 ^ k.
  Lemma shm_bitlen_nonneg n : 0 <= shm_bitlen n.
  Proof. unfold shm_bitlen. destruct (n <=? 0); [lia|]. pose proof (Z.log2_nonneg n). lia. Qed.

  Lemma shm_gen_randbelow_replay (Hb : shm_bits_ok) e : forall fuel n g r rec g',
    shm_gen_randbelow bits fuel n g = Some (r, rec, g') -> shm_randbelow n (rec ++ e) = DrOk r e.
  Proof.
    induction fuel as [|f IH]; intros n g r rec g' H; cbn [shm_gen_randbelow] in H; [discriminate|].
    pose proof (Hb (shm_bitlen n) g (shm_bitlen_nonneg n)) as Hr. destruct (bits (shm_bitlen n) g) as [x g1]. cbn [fst] in Hr.
    destruct (x <? n) eqn:En.
    - inversion H; subst. cbn [app shm_randbelow].
      replace ((r <? 0) || (2 ^ shm_bitlen n <=? r)) with false by lia. rewrite En. reflexivity.
    - destruct (shm_gen_randbelow bits f n g1) as [[[v rc] g2]|] eqn:E; [|discriminate].
      inversion H; subst. cbn [app shm_randbelow].
      replace ((x <? 0) || (2 ^ shm_bitlen n <=? x)) with false by lia. rewrite En. eapply IH. exact E.
  Qed.

  Lemma shm_gen_draws_replay (Hb : shm_bits_ok) fuel : forall bs e g rs rec g',
    shm_gen_draws bits fuel bs g = Some (rs, rec, g') -> shm_draws bs (rec ++ e) = DrOk rs e.
  Proof.
    induction bs as [|b bs IH]; intros e g rs rec g' H; cbn [shm_gen_draws] in H.
    - inversion H; subst. reflexivity.
    - destruct (shm_gen_randbelow bits fuel b g) as [[[r rec1] g1]|] eqn:E1; [|discriminate].
      destruct (shm_gen_draws bits fuel bs g1) as [[[rs' rec2] g2]|] eqn:E2; [|discriminate].
      inversion H; subst. cbn [shm_draws]. rewrite <- app_assoc.
      rewrite (shm_gen_randbelow_replay Hb (rec2 ++ e) _ _ _ _ _ _ E1).
      rewrite (IH e _ _ _ _ E2). reflexivity.
  Qed.

  (* a run of the tool against a generator IS the model on the stream of values getrandbits returned
     during that run, and the model reads that stream to its end: recording and replaying is exact *)
  Theorem shm_run_is_replay (Hb : shm_bits_ok) seed_fn fuel env argv stdin g0 r :
    cnfshuffle_run bits seed_fn fuel env argv stdin g0 = Some r ->
    exists oracle, cnfshuffle_main_env env argv stdin oracle = r /\
                   (forall dest t, r = ShmOut dest t -> shm_draws_used env argv stdin oracle = Some (len oracle)).
  Proof.
    unfold cnfshuffle_run, cnfshuffle_main_env, cnfshuffle_main_gen, shm_run, shm_draws_used.
    destruct (shm_plan_of false env argv stdin) as [o N F|r0] eqn:Ep.
    - set (g := match shm_seed_installed o with Some s => seed_fn s | None => g0 end).
      destruct (shm_gen_draws bits fuel (shm_bounds (so_nop o) (so_nov o) (so_noc o) N (len F)) g)
        as [[[rs rec] g']|] eqn:Eg; [|discriminate].
      intros H. inversion H; subst r. exists rec. cbn [shm_plan_bounds].
      pose proof (shm_gen_draws_replay Hb fuel _ [] _ _ _ _ Eg) as Hd. rewrite app_nil_r in Hd.
      rewrite Hd. split; [reflexivity|]. intros _ _ _. unfold len. cbn [length]. f_equal. lia.
    - intros H. inversion H; subst r. exists []. split; [reflexivity|].
      intros dest t E. apply shm_plan_stop in Ep as [E'|[E'|[E' _]]]; rewrite E' in E; discriminate.
  Qed.

  (* with a seed on the command line (not the empty string) the run does not depend on the state
     the generator was in *)
  Theorem shm_seeded_runs_agree seed_fn fuel env argv stdin :
    (forall o, shm_parse_args env argv = PaOk o -> shm_seed_installed o <> None) ->
    forall g1 g2, cnfshuffle_run bits seed_fn fuel env argv stdin g1 = cnfshuffle_run bits seed_fn fuel env argv stdin g2.
  Proof.
    intros Hs g1 g2. unfold cnfshuffle_run.
    destruct (shm_plan_of false env argv stdin) as [o N F|r0] eqn:Ep; [|reflexivity].
    apply shm_plan_run in Ep as (Ha & _). specialize (Hs o Ha).
    destruct (shm_seed_installed o); [reflexivity|contradiction].
  Qed.
End Gen.

(* without a seed (or with the empty string as seed) the output depends on the state: a toy generator *)
Definition shm_toy_bits (k : Z) (g : Z) : Z * Z := (g mod 2 ^ k, g + 1).
Lemma shm_toy_bits_ok : shm_bits_ok shm_toy_bits.
Proof.
  intros k g Hk. unfold shm_toy_bits. cbn [fst]. apply Z.mod_pos_bound. apply Z.pow_pos_nonneg; lia.
Qed.

(* ------------------------------------------------------------------ *)
(* J. the three switches, each on its own                               *)
(* ------------------------------------------------------------------ *)
Theorem shm_options_independent rep env argv stdin oracle dest t :
  cnfshuffle_main_gen rep env argv stdin oracle = ShmOut dest t ->
  exists o N F out sigma,
    shm_parse_args env argv = PaOk o /\
    parse_dimacs (shm_universal o) (shm_input_text env o stdin) = DOk N F /\
    (forall u, parse_dimacs u t = DOk N out) /\
    signed_map N sigma /\ Permutation out (map (map sigma) F) /\
    (so_nop o = true -> forall l, inrange N l -> (0 < sigma l <-> 0 < l)) /\
    (so_nov o = true -> forall l, inrange N l -> Z.abs (sigma l) = Z.abs l) /\
    (so_noc o = true -> out = map (map sigma) F).
Proof.
  intros H. apply shm_is_renaming in H
    as (o & N & F & out & flips & perm & cperm & H1 & _ & H2 & H3 & _ & _ & _ & _ & _ & H4).
  cbv zeta in H4. destruct H4 as (S1 & _ & _ & _ & _ & Po & _ & _ & _ & _ & _ & Hp & Hv & Hc).
  exists o, N, F, out, (subst_lit flips perm).
  split; [exact H1|]. split; [exact H2|]. split; [exact H3|]. split; [exact S1|]. split; [exact Po|].
  split; [exact Hp|]. split; [exact Hv|exact Hc].
Qed.

(* ------------------------------------------------------------------ *)
(* K. which runs end in a clean error                                   *)
(* ------------------------------------------------------------------ *)
(* the input file is one of the files opened for writing *)
Definition shm_alias (o : shm_opts) : bool :=
  match so_input o with Some f => shm_mem f (so_outs o) | None => false end.

(* as found, the tool reports an error exactly when argparse rejects the command line or the DIMACS reader
   rejects the text: a text the reader accepts is never answered by an error, whatever the stream *)
Theorem shm_clean_error_iff env argv stdin oracle :
  cnfshuffle_main_env env argv stdin oracle = ShmCliError <->
  shm_parse_args env argv = PaError \/
  exists o, shm_parse_args env argv = PaOk o /\ shm_alias o = false /\
            exists e k, parse_dimacs (shm_universal o) (shm_input_text env o stdin) = Err e k.
Proof.
  unfold cnfshuffle_main_env.
  destruct (shm_plan_of false env argv stdin) as [o N F|r] eqn:Ep.
  - pose proof (shm_run_outputs false env argv stdin oracle o N F Ep) as Ho.
    destruct (shm_plan_run _ _ _ _ _ _ _ Ep) as (Ha & Hp & _).
    split.
    + intros H. rewrite H in Ho.
      destruct (shm_draws (shm_bounds (so_nop o) (so_nov o) (so_noc o) N (len F)) oracle);
        [destruct Ho as [t Ht]; discriminate|discriminate|discriminate].
    + intros [H|(o' & H1 & _ & e & k & H2)]; [rewrite Ha in H; discriminate|].
      rewrite Ha in H1. inversion H1; subst o'. rewrite Hp in H2. discriminate.
  - unfold cnfshuffle_main_gen. rewrite Ep. cbn [shm_run]. unfold shm_plan_of in Ep.
    destruct (shm_parse_args env argv) as [o| | |] eqn:Ea.
    + destruct (shm_alias o) eqn:El; unfold shm_alias in El; rewrite El in Ep.
      * inversion Ep; subst r. split; [discriminate|].
        intros [H|(o' & H1 & H2 & _)]; [discriminate|]. inversion H1; subst o'.
        unfold shm_alias in H2. rewrite El in H2. discriminate.
      * destruct (parse_dimacs (shm_universal o) (shm_input_text env o stdin)) as [N F|e k] eqn:Epd.
        -- destruct (so_nop o && (shm_word <=? N)); [|discriminate]. inversion Ep; subst r.
           split; [discriminate|]. intros [H|(o' & H1 & _ & e & k & H2)]; [discriminate|].
           inversion H1; subst o'. rewrite Epd in H2. discriminate.
        -- inversion Ep; subst r. split; [|reflexivity]. intros _. right. exists o.
           split; [reflexivity|]. split; [exact El|]. exists e, k. exact Epd.
    + inversion Ep; subst r. split; [|reflexivity]. intros _. left. reflexivity.
    + inversion Ep; subst r. split; [discriminate|]. intros [H|(o' & H1 & _)]; discriminate.
    + inversion Ep; subst r. split; [discriminate|]. intros [H|(o' & H1 & _)]; discriminate.
Qed.
