(* ShuffleMainFacts.v -- lemmas about the whole-program model of `cnfshuffle` (coq/ShuffleMain.v):
   the replay of random.shuffle over ANY stream of primitive draws is a permutation, the arguments handed to
   Shuffle are always valid, the output text reads back as a signed renaming of the input formula, the
   switches are independent, no argv / input reaches a crash after the repair, the draws are a function of
   (switches, number of variables, number of clauses).  Statements in Prop_C09_main.v. *)
From Coq Require Import ZArith List Bool Lia ZifyBool Permutation Ascii.
From Cnfgen Require Import Sem Comb SemFacts Text TextFacts Dimacs DimacsFacts Header Shuffle ShuffleFacts ShuffleMain.
Import ListNotations.
Open Scope Z_scope.

(* ------------------------------------------------------------------ *)
(* A. the primitive draws                                              *)
(* ------------------------------------------------------------------ *)
Definition shm_in_bound (b r : Z) : Prop := 0 <= r < b.

(* a value returned by _randbelow(n) is in [0, n) and what was read is a prefix of the stream *)
Lemma shm_randbelow_spec n : forall o r rest, shm_randbelow n o = DrOk r rest ->
  shm_in_bound n r /\ exists used, o = used ++ rest /\ used <> [].
Proof.
  induction o as [|x o IH]; intros r rest H; cbn [shm_randbelow] in H; [discriminate|].
  destruct ((x <? 0) || (2 ^ shm_bitlen n <=? x)) eqn:Eb; [discriminate|].
  destruct (x <? n) eqn:En.
  - inversion H; subst. split; [unfold shm_in_bound; lia|]. exists [r]. split; [reflexivity|discriminate].
  - destruct (IH r rest H) as [Hb (used & -> & _)]. split; [exact Hb|].
    exists (x :: used). split; [reflexivity|discriminate].
Qed.

Lemma shm_randbelow_app n e : forall o r rest, shm_randbelow n o = DrOk r rest ->
  shm_randbelow n (o ++ e) = DrOk r (rest ++ e).
Proof.
  induction o as [|x o IH]; intros r rest H; cbn [shm_randbelow app] in *; [discriminate|].
  destruct ((x <? 0) || (2 ^ shm_bitlen n <=? x)); [discriminate|].
  destruct (x <? n); [inversion H; reflexivity|]. apply IH, H.
Qed.

Lemma shm_draws_spec : forall bs o rs rest, shm_draws bs o = DrOk rs rest ->
  Forall2 shm_in_bound bs rs /\ exists used, o = used ++ rest.
Proof.
  induction bs as [|b bs IH]; intros o rs rest H; cbn [shm_draws] in H.
  - inversion H; subst. split; [constructor|]. exists []. reflexivity.
  - destruct (shm_randbelow b o) as [r o'| |] eqn:E1; try discriminate.
    destruct (shm_draws bs o') as [rs' o''| |] eqn:E2; try discriminate.
    inversion H; subst. apply shm_randbelow_spec in E1 as [Hb (u1 & -> & _)].
    apply IH in E2 as [Hf (u2 & ->)]. split; [constructor; assumption|].
    exists (u1 ++ u2). rewrite app_assoc. reflexivity.
Qed.

(* values after the ones that are read do not matter *)
Lemma shm_draws_app e : forall bs o rs rest, shm_draws bs o = DrOk rs rest ->
  shm_draws bs (o ++ e) = DrOk rs (rest ++ e).
Proof.
  induction bs as [|b bs IH]; intros o rs rest H; cbn [shm_draws] in *.
  - inversion H; reflexivity.
  - destruct (shm_randbelow b o) as [r o'| |] eqn:E1; try discriminate.
    destruct (shm_draws bs o') as [rs' o''| |] eqn:E2; try discriminate.
    inversion H; subst. rewrite (shm_randbelow_app b e _ _ _ E1), (IH _ _ _ E2). reflexivity.
Qed.

Lemma shm_draws_nil o : shm_draws [] o = DrOk [] o.
Proof. reflexivity. Qed.

Lemma shm_Forall2_length {A B} (P : A -> B -> Prop) l l' : Forall2 P l l' -> length l = length l'.
Proof. induction 1; cbn; congruence. Qed.

(* the results of the calls for bounds a ++ b split into those of a and those of b *)
Lemma shm_Forall2_split {A B} (P : A -> B -> Prop) (a b : list A) (rs : list B) :
  Forall2 P (a ++ b) rs ->
  Forall2 P a (firstn (length a) rs) /\ Forall2 P b (skipn (length a) rs).
Proof.
  intros H. apply Forall2_app_inv_l in H as (l1 & l2 & H1 & H2 & ->).
  pose proof (shm_Forall2_length _ _ _ H1) as E. rewrite E.
  rewrite firstn_app, Nat.sub_diag, firstn_all, firstn_O, app_nil_r.
  rewrite skipn_app, Nat.sub_diag, skipn_all, skipn_O. cbn [app]. split; assumption.
Qed.

(* ------------------------------------------------------------------ *)
(* B. random.shuffle over any stream is a permutation                  *)
(* ------------------------------------------------------------------ *)
Lemma shm_set_length {A} (v : A) : forall x i, length (shm_set i v x) = length x.
Proof. induction x as [|a t IH]; intros [|i]; cbn; auto. Qed.

Lemma shm_set_perm {A} (v d : A) : forall x i, (i < length x)%nat ->
  Permutation (nth i x d :: shm_set i v x) (v :: x).
Proof.
  induction x as [|a t IH]; intros i Hi; cbn [length] in Hi; [lia|].
  destruct i as [|i]; cbn [nth shm_set].
  - apply perm_swap.
  - eapply perm_trans; [apply perm_swap|]. eapply perm_trans; [|apply perm_swap].
    apply perm_skip. apply IH. lia.
Qed.

Lemma shm_nth_set_same {A} (v d : A) : forall x i, (i < length x)%nat -> nth i (shm_set i v x) d = v.
Proof.
  induction x as [|a t IH]; intros i Hi; cbn [length] in Hi; [lia|].
  destruct i as [|i]; cbn [nth shm_set]; [reflexivity|]. apply IH. lia.
Qed.
Lemma shm_nth_set_other {A} (v d : A) : forall x i j, i <> j -> nth i (shm_set j v x) d = nth i x d.
Proof.
  induction x as [|a t IH]; intros i j Hij; [destruct j; reflexivity|].
  destruct j as [|j]; destruct i as [|i]; cbn [nth shm_set]; try reflexivity; try lia.
  apply IH. lia.
Qed.

Lemma shm_swap_length i j x : length (shm_swap i j x) = length x.
Proof. unfold shm_swap. rewrite !shm_set_length. reflexivity. Qed.

Lemma shm_swap_perm i j x : (i < length x)%nat -> (j < length x)%nat -> Permutation (shm_swap i j x) x.
Proof.
  intros Hi Hj. unfold shm_swap.
  set (x1 := shm_set i (nth j x 0) x).
  assert (L1 : length x1 = length x) by apply shm_set_length.
  pose proof (shm_set_perm (nth j x 0) 0 x i Hi) as P1. fold x1 in P1.
  assert (Hj1 : (j < length x1)%nat) by lia.
  pose proof (shm_set_perm (nth i x 0) 0 x1 j Hj1) as P2.
  assert (E : nth j x1 0 = nth j x 0).
  { destruct (Nat.eq_dec j i) as [->|Hne].
    - unfold x1. apply shm_nth_set_same. exact Hi.
    - unfold x1. apply shm_nth_set_other. exact Hne. }
  rewrite E in P2.
  (* nth j x :: swap  ~  nth i x :: x1   and   nth i x :: x1 ~ nth j x :: x *)
  apply Permutation_cons_inv with (a := nth j x 0).
  eapply perm_trans; [exact P2|]. exact P1.
Qed.

Lemma shm_fy_perm : forall i js x, (i < length x)%nat -> Forall2 shm_in_bound (shm_down i) js ->
  Permutation (shm_fy i js x) x.
Proof.
  induction i as [|i IH]; intros js x Hi Hf.
  - destruct js; reflexivity.
  - cbn [shm_down] in Hf. inversion Hf as [|b j bs js' Hb Hf' E1 E2]; subst.
    cbn [shm_fy]. unfold shm_in_bound in Hb.
    assert (Hj : (Z.to_nat j < length x)%nat) by lia.
    eapply perm_trans.
    + apply IH; [rewrite shm_swap_length; lia|exact Hf'].
    + apply shm_swap_perm; [exact Hi|exact Hj].
Qed.

Theorem shm_shuffle_list_perm js x : Forall2 shm_in_bound (shm_down (length x - 1)) js ->
  Permutation (shm_shuffle_list js x) x.
Proof.
  intros Hf. unfold shm_shuffle_list. destruct x as [|a t].
  - cbn. destruct js; reflexivity.
  - apply shm_fy_perm; [cbn [length]; lia|exact Hf].
Qed.

(* for every stream: if random.shuffle gets all its draws, its result is a permutation of its argument *)
Theorem shm_shuffle_any_oracle x o js rest :
  shm_draws (shm_down (length x - 1)) o = DrOk js rest -> Permutation (shm_shuffle_list js x) x.
Proof. intros H. apply shm_shuffle_list_perm. apply (shm_draws_spec _ _ _ _ H). Qed.

Lemma shm_flips_pm1 rs : Forall pm1 (shm_flips rs).
Proof.
  unfold shm_flips. apply Forall_forall. intros f Hf. apply in_map_iff in Hf as (r & <- & _).
  unfold pm1. destruct (r =? 0); auto.
Qed.
Lemma shm_flips_length rs : length (shm_flips rs) = length rs.
Proof. apply map_length. Qed.
