(* Property C19 — transformations leave their inputs untouched and record
   provenance.  The theorem part is the header discipline; that inputs are not
   mutated is a heap property, covered by the purity correspondence of the
   harness (snapshots before/after every call), see DESIGN.md section 5, C19. *)
From Coq Require Import List Bool Arith String.
From Cnfgen Require Import Header HeaderFacts.
Import ListNotations.

(* one transformation: every earlier entry is kept, in place, and exactly one
   entry 'transformation n+1' is appended *)
Theorem C19_one_step : forall n h t, numbered n h ->
  add_description h t = h ++ [(KT (S n), t)] /\ numbered (S n) (add_description h t).
Proof. exact add_description_numbered. Qed.
Print Assumptions C19_one_step.

(* any chain of k transformations: old header as a prefix, then
   'transformation n+1' ... 'transformation n+k' in the order applied *)
Theorem C19_chain : forall texts n h, numbered n h ->
  apply_chain h texts = h ++ number_from n texts /\ numbered (n + List.length texts) (apply_chain h texts).
Proof. exact apply_chain_numbered. Qed.
Print Assumptions C19_chain.

(* the header of a freshly generated formula has no transformation entry *)
Theorem C19_fresh_header : forall h, (forall i, has_key h (KT i) = false) -> numbered 0 h.
Proof. exact no_transformation_numbered. Qed.
Print Assumptions C19_fresh_header.

Theorem C19_shuffle_header : forall n h, numbered n h ->
  shuffle_header h = suffix_description h ++ [(KT (S n), "Formula reshuffling"%string)]
  /\ numbered (S n) (shuffle_header h).
Proof. exact shuffle_header_numbered. Qed.
Print Assumptions C19_shuffle_header.

Example C19_nonvacuous :
  let h0 := [(KO "description", "php"); (KO "generator", "CNFgen")]%string in
  apply_chain h0 ["xor 2"; "flip"]%string
  = h0 ++ [(KT 1, "xor 2"); (KT 2, "flip")]%string
  /\ first_free [(KT 2, "a"); (KT 1, "b")]%string = 3.
Proof. vm_compute. split; reflexivity. Qed.
