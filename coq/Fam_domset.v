(* Fam_domset.v — model of cnfgen/families/dominatingset.py :
   DominatingSet(G, d, alternative) and Tiling(G).
   domset: D = new_block(V) (identifiers 1..V), M = new_mapping(V, d) (identifier of
   M(v,i) is V + (v-1)*d + i).  d <= 0 raises ValueError ([None]); V = 0 returns
   the empty formula.  Clause groups in the order of the code:
     standard    : force_injective_mapping(M), force_nondecreasing_mapping(M),
                   [-M(v,i), D(v)] for i, v;
     alternative : [-D(u),-D(v),-M(u,i),-M(v,i)] for u<v, i;  [-D(v),-M(v,i),-M(v,j)] for v, i<j;
     both        : [-D(v), M(v,1..d)] for v;  [D(u) for u in N] for N in unique_neighborhoods(G).
   tiling: x = new_block(n); cardinality_eq([x(u) for u in N], 1) for N in unique_neighborhoods(G).
   Abstracted: descriptions.  Definitions only. *)
From Coq Require Import ZArith List Bool.
From Cnfgen Require Import Sem Comb Linear IR C02Common.
Import ListNotations.
Open Scope Z_scope.

Definition domset_link (n d : Z) : list ir :=
  flat_map (fun i => map (fun v => IClause [- mvar n d v i; v]) (rng n)) (rng d).
Definition domset_active (n d : Z) : list ir :=
  map (fun v => IClause ((- v) :: map (fun i => mvar n d v i) (rng d))) (rng n).
Definition domset_cover (n : Z) (E : list (Z * Z)) : list ir :=
  map (fun N => IClause N) (unique_nbhds n E).
Definition domset_alt_inj (n d : Z) : list ir :=
  flat_map (fun u => map (fun i => IClause [- fst u; - snd u; - mvar n d (fst u) i; - mvar n d (snd u) i]) (rng d))
           (pairs (rng n)).
Definition domset_alt_fun (n d : Z) : list ir :=
  flat_map (fun v => map (fun i => IClause [- v; - mvar n d v (fst i); - mvar n d v (snd i)]) (pairs (rng d)))
           (rng n).

Definition domset_ir (n : Z) (E : list (Z * Z)) (d : Z) (alternative : bool) : option (list ir) :=
  if d <=? 0 then None
  else if n =? 0 then Some []
  else Some ((if alternative
              then domset_alt_inj n d ++ domset_alt_fun n d
              else um_injective n n d ++ um_nondecreasing n n d ++ domset_link n d)
             ++ domset_active n d ++ domset_cover n E).
Definition domset_numvar (n d : Z) : Z := n + n * d.

Definition tiling_ir (n : Z) (E : list (Z * Z)) : list ir :=
  map (fun N => ILin N CEq 1) (unique_nbhds n E).
Definition tiling_numvar (n : Z) : Z := n.

(* u dominates v: u = v or u ~ v *)
Definition dominates (E : list (Z * Z)) (u v : Z) : bool := (u =? v) || has_edge E u v.
(* S (a duplicate-free list of vertices) is a dominating set of size at most d *)
Definition dominating_set (n : Z) (E : list (Z * Z)) (d : Z) (S : list Z) : Prop :=
  NoDup S /\ (forall u, In u S -> 1 <= u <= n) /\ len S <= d /\
  (forall v, 1 <= v <= n -> exists u, In u S /\ dominates E u v = true).
