(* VarsComb.v — the itertools enumerators produce duplicate-free lists on a
   duplicate-free ground set (needed for the ranking-by-position argument of
   WordOfIndicesVariables), and the laws for Words. *)
From Coq Require Import ZArith List Bool Lia ZifyBool.
From Cnfgen Require Import Sem Comb SemFacts Vars VarsLists VarsFacts.
Import ListNotations.
Open Scope Z_scope.

Lemma combs_in_sub {A} (l : list A) : forall k c, In c (combs l k) -> forall y, In y c -> In y l.
Proof.
  induction l as [|x t IH]; intros [|k] c H y Hy; cbn [combs] in H.
  - destruct H as [<-|[]]. destruct Hy.
  - destruct H.
  - destruct H as [<-|[]]. destruct Hy.
  - apply in_app_iff in H as [H|H].
    + apply in_map_iff in H as [c' [<- Hc']]. destruct Hy as [<-|Hy]; [now left|]. right. eapply IH; eauto.
    + right. eapply IH; eauto.
Qed.

Lemma NoDup_combs {A} (l : list A) : NoDup l -> forall k, NoDup (combs l k).
Proof.
  induction 1 as [|x t Hx Ht IH]; intros [|k]; cbn [combs]; try (repeat constructor; intros []).
  apply NoDup_app_intro; [apply NoDup_map_cons, IH|apply IH|].
  intros c H1 H2. apply in_map_iff in H1 as [c' [<- _]].
  apply Hx. eapply combs_in_sub; [exact H2|now left].
Qed.

Lemma NoDup_prod {A} (ls : list (list A)) : Forall (@NoDup A) ls -> NoDup (prod ls).
Proof.
  induction 1 as [|l t Hl Ht IH]; cbn [prod]; [repeat constructor; intros []|].
  apply NoDup_flat_map_intro; [exact Hl|intros; now apply NoDup_map_cons|].
  intros i j c _ _ N H1 H2. apply in_map_iff in H1 as [c1 [<- _]]. apply in_map_iff in H2 as [c2 [E _]]. congruence.
Qed.

Lemma NoDup_prod_rep {A} (l : list A) k : NoDup l -> NoDup (prod_rep l k).
Proof. intros H. apply NoDup_prod. apply Forall_forall. intros x Hx. apply repeat_spec in Hx. now subst. Qed.

Lemma combs_rep_S {A} (l : list A) k :
  combs_rep l (S k) = match l with [] => [] | x :: t => map (cons x) (combs_rep (x :: t) k) ++ combs_rep t (S k) end.
Proof. destruct l; reflexivity. Qed.

Lemma combs_rep_in_sub {A} : forall k (l : list A) c, In c (combs_rep l k) -> forall y, In y c -> In y l.
Proof.
  induction k as [|k IHk]; intros l c H y Hy.
  - destruct H as [<-|[]]. destruct Hy.
  - induction l as [|x t IHl]; rewrite combs_rep_S in H; [destruct H|].
    apply in_app_iff in H as [H|H].
    + apply in_map_iff in H as [c' [<- Hc']]. destruct Hy as [<-|Hy]; [now left|]. eapply IHk; eauto.
    + right. now apply IHl.
Qed.

Lemma NoDup_combs_rep {A} : forall k (l : list A), NoDup l -> NoDup (combs_rep l k).
Proof.
  induction k as [|k IHk]; intros l Hl; [repeat constructor; intros []|].
  induction Hl as [|x t Hx Ht IHl]; rewrite combs_rep_S; [constructor|].
  apply NoDup_app_intro; [apply NoDup_map_cons, IHk; now constructor|exact IHl|].
  intros c H1 H2. apply in_map_iff in H1 as [c' [<- _]].
  apply Hx. eapply combs_rep_in_sub; [exact H2|now left].
Qed.

Lemma remove_nth_In {A} (l : list A) : forall i y, In y (remove_nth i l) -> In y l.
Proof.
  induction l as [|x t IH]; intros i y H.
  - destruct i; destruct H.
  - destruct i as [|i]; cbn [remove_nth] in H.
    + now right.
    + destruct H as [<-|H]; [now left|right; eapply IH; eauto].
Qed.

Lemma NoDup_remove_nth {A} (l : list A) : NoDup l -> forall i, NoDup (remove_nth i l).
Proof.
  induction 1 as [|x t Hx Ht IH]; intros [|i]; cbn [remove_nth]; try constructor; auto.
  intros H. apply Hx. eapply remove_nth_In; eauto.
Qed.

Lemma NoDup_perms_fuel {A} : forall f (l : list A) k, NoDup l -> NoDup (perms_fuel f l k).
Proof.
  induction f as [|f IH]; intros l [|k] Hl; cbn [perms_fuel]; try (repeat constructor; intros []).
  apply NoDup_flat_map_intro; [apply seq_NoDup| |].
  - intros i _. destruct (nth_error l i); [|constructor]. apply NoDup_map_cons, IH. now apply NoDup_remove_nth.
  - intros i j c Hi _ N H1 H2.
    destruct (nth_error l i) as [a|] eqn:Ea; [|destruct H1]. destruct (nth_error l j) as [b|] eqn:Eb; [|destruct H2].
    apply in_map_iff in H1 as [c1 [<- _]]. apply in_map_iff in H2 as [c2 [E _]]. injection E as -> _.
    apply N. apply (proj1 (NoDup_nth_error l) Hl); [apply in_seq in Hi; lia|congruence].
Qed.

Lemma NoDup_perms {A} (l : list A) k : NoDup l -> NoDup (perms l k).
Proof. apply NoDup_perms_fuel. Qed.

Lemma NoDup_words_enum kind n k : NoDup (words_enum kind n k).
Proof.
  unfold words_enum. pose proof (NoDup_zrange 1 (n + 1)) as H.
  destruct kind; [now apply NoDup_combs|now apply NoDup_combs_rep|now apply NoDup_perms|now apply NoDup_prod_rep].
Qed.

(* ranking by position *)
Theorem words_laws off kind n k : 0 <= off -> group_laws off (GWords kind n k).
Proof.
  intros Hoff. pose proof (NoDup_words_enum kind n k) as Hn. unfold group_laws. cbn [gsize].
  split; [apply len_nonneg|]. split; [|split].
  - unfold law_enum. cbn [vg_indices gsize vg_to_id].
    rewrite (map_ext _ (fun v => option_map (fun p => off + 1 + p) (pos_of v (words_enum kind n k)))) by reflexivity.
    rewrite map_pos_of_self by exact Hn. f_equal. f_equal; lia.
  - intros i x Hi Hx. cbn [vg_to_id] in Hx. destruct (pos_of i (words_enum kind n k)) as [p|] eqn:E; [|discriminate].
    cbn [option_map] in Hx. injection Hx as <-. apply pos_of_Some in E as [E R].
    unfold vg_to_index. cbn [gsize]. rewrite Z.abs_eq by lia.
    destruct (Z.leb_spec (off + 1) (off + 1 + p)); [|lia].
    destruct (Z.leb_spec (off + 1 + p) (off + len (words_enum kind n k))); [|lia]. cbn [andb].
    replace (off + 1 + p - off - 1) with p by lia. exact E.
  - intros i x Hx. unfold canon. cbn [to_core of_core]. split; [|exact Hx]. cbn [vg_to_id vg_indices] in *.
    destruct (pos_of i (words_enum kind n k)) as [p|] eqn:E; [|discriminate]. apply pos_of_Some in E as [E _]. eapply znth_In; eauto.
Qed.
