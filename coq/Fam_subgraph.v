(* Fam_subgraph.v — model of cnfgen/families/subgraph.py :
   SubgraphFormula(G, H, induced, symbreak), CliqueFormula(G, k, symbreak),
   BinaryCliqueFormula(G, k, symbreak), RamseyWitnessFormula(G, k, s, symbreak).
   subgraph / kclique: s = new_mapping(k, N) (k = |H| resp. the clique size, N = |G|);
   force_complete, force_functional, force_injective, and force_nondecreasing when
   symbreak; then for (i1<i2) in 1..k and (j1<j2) in 1..N that are not consistent
   the clause [-s(i1,j1),-s(i2,j2)] and, without symbreak, [-s(i1,j2),-s(i2,j1)].
   kcliquebin: m = new_binary_mapping(k, N) (raises ValueError for k < 1 or N < 1);
   force_complete, force_injective, force_nondecreasing when symbreak; forbid clauses
   on the non-edges, vertices numbered from 0 in binary.
   ramlb: variable C (identifier 1), mapping s = new_mapping(k, N) after it.
   [ramlb_as_is] is the code as it is: the parameter s is shadowed by the mapping and
   never used (DESIGN.md D15).  [ramlb_spec] is the documented behaviour: a second
   mapping t = new_mapping(s, N) for the independent set; totality of the first
   mapping is required only when C is true, of the second only when C is false.
   k < 0 (or s < 0) raises ValueError ([None]).
   Abstracted: descriptions.  Definitions only. *)
From Coq Require Import ZArith List Bool.
From Cnfgen Require Import Sem Comb Linear IR C02Common.
Import ListNotations.
Open Scope Z_scope.

(* the four mapping constraints shared by subgraph, kclique and ramlb *)
Definition emb_mapping (off k N : Z) (symbreak : bool) : list ir :=
  um_complete off k N ++ um_functional off k N ++ um_injective off k N
  ++ (if symbreak then um_nondecreasing off k N else []).

(* ---- SubgraphFormula ---- *)
Definition subgraph_bad (EG EH : list (Z * Z)) (induced : bool) (i1 i2 j1 j2 : Z) : bool :=
  let gedge := has_edge EG j1 j2 in
  let tedge := has_edge EH i1 i2 in
  negb (eqb gedge tedge || (gedge && negb induced)).
Definition subgraph_ir (N : Z) (EG : list (Z * Z)) (k : Z) (EH : list (Z * Z)) (induced symbreak : bool) : list ir :=
  emb_mapping 0 k N symbreak ++ cons_clauses (subgraph_bad EG EH induced) (pair_mk 0 N symbreak) k N.
Definition subgraph_numvar (N k : Z) : Z := k * N.

(* ---- CliqueFormula ---- *)
Definition kclique_bad (E : list (Z * Z)) (i1 i2 j1 j2 : Z) : bool := negb (has_edge E j1 j2).
Definition kclique_ir (N : Z) (E : list (Z * Z)) (k : Z) (symbreak : bool) : option (list ir) :=
  if k <? 0 then None
  else Some (emb_mapping 0 k N symbreak ++ cons_clauses (kclique_bad E) (pair_mk 0 N symbreak) k N).
Definition kclique_numvar (N k : Z) : Z := k * N.

(* ---- BinaryCliqueFormula ---- *)
Definition kcliquebin_mk (b : Z) (symbreak : bool) (i1 i2 j1 j2 : Z) : list ir :=
  IClause (bm_forbid b i1 (j1 - 1) ++ bm_forbid b i2 (j2 - 1))
  :: (if symbreak then [] else [IClause (bm_forbid b i1 (j2 - 1) ++ bm_forbid b i2 (j1 - 1))]).
Definition kcliquebin_ir (N : Z) (E : list (Z * Z)) (k : Z) (symbreak : bool) : option (list ir) :=
  if (k <? 1) || (N <? 1) then None
  else Some (bm_complete k N ++ bm_injective k N ++ (if symbreak then bm_nondecreasing k N else [])
             ++ cons_clauses (kclique_bad E) (kcliquebin_mk (bm_bits N) symbreak) k N).
Definition kcliquebin_numvar (N k : Z) : Z := k * bm_bits N.

(* ---- RamseyWitnessFormula ---- *)
Definition ramlb_mk (E : list (Z * Z)) (N : Z) (symbreak : bool) (i1 i2 j1 j2 : Z) : list ir :=
  let c := if has_edge E j1 j2 then 1 else -1 in
  [IClause [c; - mvar 1 N i1 j1; - mvar 1 N i2 j2];
   if symbreak then IClause [- mvar 1 N i1 j2; - mvar 1 N i2 j1]
   else IClause [c; - mvar 1 N i1 j2; - mvar 1 N i2 j1]].
Definition ramlb_as_is (N : Z) (E : list (Z * Z)) (k s : Z) (symbreak : bool) : option (list ir) :=
  if (k <? 0) || (s <? 0) then None
  else Some (emb_mapping 1 k N false ++ cons_clauses (fun _ _ _ _ => true) (ramlb_mk E N symbreak) k N).
Definition ramlb_as_is_numvar (N k s : Z) : Z := 1 + k * N.

(* documented behaviour: C selects which of two independent embeddings must be total *)
Definition guarded_complete (g off k N : Z) : list ir :=
  map (fun i => IClause (g :: map (fun j => mvar off N i j) (rng N))) (rng k).
Definition ramlb_part (g off k N : Z) (bad : Z -> Z -> Z -> Z -> bool) (symbreak : bool) : list ir :=
  guarded_complete g off k N ++ um_functional off k N ++ um_injective off k N
  ++ (if symbreak then um_nondecreasing off k N else [])
  ++ cons_clauses bad (pair_mk off N symbreak) k N.
Definition ramlb_spec (N : Z) (E : list (Z * Z)) (k s : Z) (symbreak : bool) : option (list ir) :=
  if (k <? 0) || (s <? 0) then None
  else Some (ramlb_part (-1) 1 k N (fun _ _ j1 j2 => negb (has_edge E j1 j2)) symbreak
             ++ ramlb_part 1 (1 + k * N) s N (fun _ _ j1 j2 => has_edge E j1 j2) symbreak).
Definition ramlb_spec_numvar (N k s : Z) : Z := 1 + k * N + s * N.

(* ---- predicates of the statements ---- *)
(* phi embeds 1..k injectively into 1..N *)
Definition injection (k N : Z) (phi : Z -> Z) : Prop :=
  (forall i, 1 <= i <= k -> 1 <= phi i <= N) /\
  (forall i1 i2, 1 <= i1 <= k -> 1 <= i2 <= k -> phi i1 = phi i2 -> i1 = i2).
Definition increasing (k : Z) (phi : Z -> Z) : Prop :=
  forall i1 i2, 1 <= i1 -> i1 < i2 -> i2 <= k -> phi i1 < phi i2.
(* H -> G : edges go to edges (and, when induced, non-edges to non-edges) *)
Definition embedding (N : Z) (EG : list (Z * Z)) (k : Z) (EH : list (Z * Z)) (induced : bool) (phi : Z -> Z) : Prop :=
  injection k N phi /\
  forall i1 i2, 1 <= i1 <= k -> 1 <= i2 <= k -> i1 <> i2 ->
    (has_edge EH i1 i2 = true -> has_edge EG (phi i1) (phi i2) = true) /\
    (induced = true -> has_edge EG (phi i1) (phi i2) = true -> has_edge EH i1 i2 = true).
(* phi lists k distinct pairwise adjacent (b = true) / pairwise non-adjacent (b = false) vertices *)
Definition homogeneous (N : Z) (E : list (Z * Z)) (k : Z) (b : bool) (phi : Z -> Z) : Prop :=
  injection k N phi /\
  forall i1 i2, 1 <= i1 <= k -> 1 <= i2 <= k -> i1 <> i2 -> has_edge E (phi i1) (phi i2) = b.
(* S is a set of k vertices, pairwise adjacent (b = true: a k-clique) or pairwise non-adjacent
   (b = false: an independent set of size k) *)
Definition homogeneous_set (N : Z) (E : list (Z * Z)) (k : Z) (b : bool) (S : list Z) : Prop :=
  NoDup S /\ len S = k /\ (forall v, In v S -> 1 <= v <= N) /\
  (forall u v, In u S -> In v S -> u <> v -> has_edge E u v = b).
