(* Seeding.v — model of the seeding discipline of the command line tools
   (cnfgen/clitools/cnfgen.py, pbgen.py: `cli`; cnfshuffle.py: `cli`).

   The global pseudo-random generator is abstract (Section variables: its state
   type, the seeding function and the draw function); a run of a tool is a
   program over that generator (an interaction tree: return the output, draw a
   number and continue, or install a seed and continue).  The tools are the
   compositions written at the end, in the order the Python code performs the
   phases: argument parsing (graph arguments such as `gnp 10 .5` are materialised
   by argparse actions DURING parsing), seeding, formula construction,
   transformations, output.  Definitions only. *)
From Coq Require Import ZArith List Bool.
Import ListNotations.
Open Scope Z_scope.

Inductive event := ESeed (s : Z) | EDraw.

Section Generator.
  Context {G : Type} {out : Type}.
  Context (seed_fn : Z -> G) (draw : G -> Z * G).

  Inductive prog :=
  | Ret (o : out)
  | Draw (k : Z -> prog)
  | Seed (s : Z) (k : prog).

  Fixpoint run (p : prog) (g : G) : out :=
    match p with
    | Ret o => o
    | Draw k => let '(v, g') := draw g in run (k v) g'
    | Seed s k => run k (seed_fn s)
    end.

  (* the events of the run from state g, in order *)
  Fixpoint trace (p : prog) (g : G) : list event :=
    match p with
    | Ret _ => []
    | Draw k => let '(v, g') := draw g in EDraw :: trace (k v) g'
    | Seed s k => ESeed s :: trace k (seed_fn s)
    end.
End Generator.

Arguments prog : clear implicits.

(* A trace is disciplined for seed s when nothing is drawn before the seed s is
   installed (a run that uses no randomness at all is disciplined too). *)
Definition disciplined (s : Z) (tr : list event) : bool :=
  match tr with
  | [] => true
  | ESeed s' :: _ => s' =? s
  | EDraw :: _ => false
  end.

(* ---- the tools ---- *)
Section Tools.
  Context {out : Type} {parsed : Type}.
  (* parse: what argparse does with the sub-command's arguments (may draw: graph
     arguments); build: formula construction + transformations + printing *)
  Context (parse : (parsed -> prog out) -> prog out) (build : parsed -> prog out).

  (* cnfgen / pbgen as found in the pinned tree: parse first, then
     `if args.seed: random.seed(args.seed)` (so seed 0 is skipped), then build *)
  Definition cli_as_found (seed : option Z) : prog out :=
    parse (fun a => match seed with
                    | Some s => if s =? 0 then build a else Seed s (build a)
                    | None => build a
                    end).

  (* the repaired order: the --seed option installs the seed when it is met on
     the command line, i.e. before the sub-command's arguments are parsed *)
  Definition cli_seed_first (seed : option Z) : prog out :=
    match seed with
    | Some s => Seed s (parse build)
    | None => parse build
    end.
End Tools.
