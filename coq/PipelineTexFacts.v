(* PipelineTexFacts.v -- lemmas about coq/PipelineTex.v (statements in Prop_C12_pipeline.v). *)
From Coq Require Import ZArith List Bool Ascii String Lia.
From Cnfgen Require Import Sem Comb Linear IR Text TextFacts Dimacs DimacsFacts OpbText OpbTextFacts Latex LatexFacts EndToEnd
     Cli GraphSpec GraphIO Subst FamTab Vars Header HeaderFacts FamRange_Util
     PipelineGraph Pipeline PipelineFacts PipelineHeader PipelineHeaderFacts PipelinePb PipelinePbFacts PipelineTex.
Import ListNotations.
Open Scope Z_scope.

(* ------------------------------------------------------------------ *)
(* the main parser returns well-formed commands                        *)
(* ------------------------------------------------------------------ *)
Lemma plt_scan_wf : forall toks pb q v sof sl vn fmt h g,
  plt_scan pb q v sof sl vn fmt toks = PlOk h -> plt_hgen h = Some g -> pl_cmd_wf g.
Proof.
  intros toks. remember (List.length toks) as k eqn:Hk. revert toks Hk.
  induction k as [k IHk] using lt_wf_ind. intros toks Hk pb q v sof sl vn fmt h g.
  destruct toks as [|t r]; cbn [plt_scan].
  - intros H. inversion H; subst. cbn [plt_hgen]. discriminate.
  - cbn [List.length] in Hk.
    destruct (_ || _).
    { destruct v; [discriminate|]. apply (IHk (List.length r)); [lia|reflexivity]. }
    destruct (_ || _).
    { destruct q; [discriminate|]. apply (IHk (List.length r)); [lia|reflexivity]. }
    destruct (_ || _).
    { destruct r as [|f r']; [discriminate|]. cbn [List.length] in Hk.
      destruct (pl_starts_dash f); [discriminate|].
      destruct (gs_teqb f (lit "dimacs")).
      { destruct (pb || sl); [discriminate|]. apply (IHk (List.length r')); [lia|reflexivity]. }
      destruct (gs_teqb f (lit "opb")).
      { destruct sl; [discriminate|]. apply (IHk (List.length r')); [lia|reflexivity]. }
      destruct (gs_teqb f (lit "latex")); [|discriminate].
      destruct sl; [discriminate|]. apply (IHk (List.length r')); [lia|reflexivity]. }
    destruct (_ || _).
    { destruct sof; [discriminate|]. apply (IHk (List.length r)); [lia|reflexivity]. }
    destruct (gs_teqb t (lit "--varnames")).
    { apply (IHk (List.length r)); [lia|reflexivity]. }
    destruct (pl_starts_dash t); [discriminate|].
    destruct (pl_parse_formula t r) as [c| |] eqn:E; try discriminate.
    intros H. inversion H; subst. cbn [plt_hgen]. intros G. inversion G; subst. now apply (pl_parse_formula_wf t r).
Qed.

(* the formula name and the tokens after it, as recorded, are those the command was parsed from *)
Lemma plt_scan_gen : forall toks pb q v sof sl vn fmt h g,
  plt_scan pb q v sof sl vn fmt toks = PlOk h -> plt_hgen h = Some g ->
  pl_parse_formula (plt_hname h) (plt_htoks h) = PlOk g.
Proof.
  intros toks. remember (List.length toks) as k eqn:Hk. revert toks Hk.
  induction k as [k IHk] using lt_wf_ind. intros toks Hk pb q v sof sl vn fmt h g.
  destruct toks as [|t r]; cbn [plt_scan].
  - intros H. inversion H; subst. cbn [plt_hgen]. discriminate.
  - cbn [List.length] in Hk.
    destruct (_ || _).
    { destruct v; [discriminate|]. apply (IHk (List.length r)); [lia|reflexivity]. }
    destruct (_ || _).
    { destruct q; [discriminate|]. apply (IHk (List.length r)); [lia|reflexivity]. }
    destruct (_ || _).
    { destruct r as [|f r']; [discriminate|]. cbn [List.length] in Hk.
      destruct (pl_starts_dash f); [discriminate|].
      destruct (gs_teqb f (lit "dimacs")).
      { destruct (pb || sl); [discriminate|]. apply (IHk (List.length r')); [lia|reflexivity]. }
      destruct (gs_teqb f (lit "opb")).
      { destruct sl; [discriminate|]. apply (IHk (List.length r')); [lia|reflexivity]. }
      destruct (gs_teqb f (lit "latex")); [|discriminate].
      destruct sl; [discriminate|]. apply (IHk (List.length r')); [lia|reflexivity]. }
    destruct (_ || _).
    { destruct sof; [discriminate|]. apply (IHk (List.length r)); [lia|reflexivity]. }
    destruct (gs_teqb t (lit "--varnames")).
    { apply (IHk (List.length r)); [lia|reflexivity]. }
    destruct (pl_starts_dash t); [discriminate|].
    destruct (pl_parse_formula t r) as [c| |] eqn:E; try discriminate.
    intros H. inversion H; subst. cbn [plt_hgen plt_hname plt_htoks]. intros G. inversion G; subst. exact E.
Qed.

(* pbgen never selects the DIMACS writer *)
Lemma plt_scan_pb_format : forall toks q v sof sl vn fmt h,
  fmt <> FmtDimacs -> plt_scan true q v sof sl vn fmt toks = PlOk h -> plt_format (plt_ho h) <> FmtDimacs.
Proof.
  intros toks. remember (List.length toks) as k eqn:Hk. revert toks Hk.
  induction k as [k IHk] using lt_wf_ind. intros toks Hk q v sof sl vn fmt h Hf.
  destruct toks as [|t r]; cbn [plt_scan].
  - intros H. inversion H; subst. cbn [plt_ho plt_format]. exact Hf.
  - cbn [List.length] in Hk.
    destruct (_ || _).
    { destruct v; [discriminate|]. apply (IHk (List.length r)); [lia|reflexivity|exact Hf]. }
    destruct (_ || _).
    { destruct q; [discriminate|]. apply (IHk (List.length r)); [lia|reflexivity|exact Hf]. }
    destruct (_ || _).
    { destruct r as [|f r']; [discriminate|]. cbn [List.length] in Hk.
      destruct (pl_starts_dash f); [discriminate|].
      destruct (gs_teqb f (lit "dimacs")); [cbn [orb]; discriminate|].
      destruct (gs_teqb f (lit "opb")).
      { destruct sl; [discriminate|]. apply (IHk (List.length r')); [lia|reflexivity|discriminate]. }
      destruct (gs_teqb f (lit "latex")); [|discriminate].
      destruct sl; [discriminate|]. apply (IHk (List.length r')); [lia|reflexivity|discriminate]. }
    destruct (_ || _).
    { destruct sof; [discriminate|]. apply (IHk (List.length r)); [lia|reflexivity|discriminate]. }
    destruct (gs_teqb t (lit "--varnames")).
    { apply (IHk (List.length r)); [lia|reflexivity|exact Hf]. }
    destruct (pl_starts_dash t); [discriminate|].
    destruct (pl_parse_formula t r) as [c| |] eqn:E; try discriminate.
    intros H. inversion H; subst. cbn [plt_ho plt_format]. exact Hf.
Qed.

(* ------------------------------------------------------------------ *)
(* what reaches the writer                                             *)
(* ------------------------------------------------------------------ *)
(* the job of a run of cnfgen, taken apart *)
Record plt_cnf_view (version : string) (argv : list string) (j : plt_job) : Type := mk_plt_cnf_view {
  pcv_head : plt_head;
  pcv_targs : list (option pl_tcmd);
  pcv_g : pl_fcmd;
  pcv_ts : list pl_tcmd;
  pcv_n : Z;
  pcv_F : cnf;
  pcv_parse : plt_parse_chunks (pl_chunks_of argv) = PlOk (pcv_head, pcv_targs);
  pcv_gen : plt_hgen pcv_head = Some pcv_g;
  pcv_cmd : pl_parse_formula (plt_hname pcv_head) (plt_htoks pcv_head) = PlOk pcv_g;
  pcv_all : pl_all_some pcv_targs = Some pcv_ts;
  pcv_chain : pl_chain (pl_build pcv_g) pcv_ts = FrOk pcv_n pcv_F;
  pcv_run : pl_run_with pl_build (plt_cmdline_of (pcv_head, pcv_targs)) = FrOk pcv_n pcv_F;
  pcv_opts : plt_jo j = plt_ho pcv_head;
  pcv_form : plt_jform j = FCnf pcv_n pcv_F;
  pcv_nonneg : 0 <= pcv_n;
  pcv_range : lits_in_range pcv_n pcv_F = true;
  pcv_title : plt_jtitle j = option_map lit (plt_fdesc (plt_hname pcv_head) (plt_htoks pcv_head) pcv_g);
  pcv_header : plt_header_choice (plt_quiet (plt_ho pcv_head))
                 (option_map (fun d => plt_header version argv d pcv_ts) (plt_fdesc (plt_hname pcv_head) (plt_htoks pcv_head) pcv_g))
               = Some (plt_jheader j);
  pcv_names : plt_needs_names (plt_ho pcv_head) = true ->
              plt_jnames j = map lit (plt_labels (plt_dflt (plt_ho pcv_head)) pcv_g
                                                 (match pl_build pcv_g with FrOk n0 _ => n0 | _ => 0 end) pcv_ts)
}.

Lemma plt_cnf_job_view version argv j : plt_cnf_job_with pl_build version argv = JobOk j -> plt_cnf_view version argv j.
Proof.
  unfold plt_cnf_job_with.
  destruct (plt_parse_chunks (pl_chunks_of argv)) as [[h targs]| |] eqn:Ep; try discriminate.
  cbn [fst snd]. destruct (plt_hgen h) as [g|] eqn:Eg; [|discriminate].
  destruct (pl_all_some targs) as [ts|] eqn:Ea; [|discriminate]. cbv zeta.
  destruct (pl_chain (pl_build g) ts) as [n F| | |] eqn:Ec; try discriminate.
  destruct (plt_header_choice _ _) as [hh|] eqn:Eh; [|discriminate].
  intros H. inversion H; subst j. clear H.
  assert (W : pl_cmd_wf g).
  { unfold plt_parse_chunks in Ep. destruct (pl_chunks_of argv) as [|c0 rest]; [discriminate|].
    destruct (plt_parse_chunk0 false c0) as [h0| |] eqn:E0; try discriminate.
    destruct (pl_parse_tchunks rest); try discriminate. inversion Ep; subst.
    unfold plt_parse_chunk0 in E0. destruct (negb _); [discriminate|]. exact (plt_scan_wf _ _ _ _ _ _ _ _ _ _ E0 Eg). }
  assert (C : pl_parse_formula (plt_hname h) (plt_htoks h) = PlOk g).
  { unfold plt_parse_chunks in Ep. destruct (pl_chunks_of argv) as [|c0 rest]; [discriminate|].
    destruct (plt_parse_chunk0 false c0) as [h0| |] eqn:E0; try discriminate.
    destruct (pl_parse_tchunks rest); try discriminate. inversion Ep; subst.
    unfold plt_parse_chunk0 in E0. destruct (negb _); [discriminate|]. exact (plt_scan_gen _ _ _ _ _ _ _ _ _ _ E0 Eg). }
  pose proof (pl_chain_good ts _ (pl_build_good g W)) as G. rewrite Ec in G. destruct G as [Hn HR].
  match goal with |- plt_cnf_view _ _ ?J => refine (mk_plt_cnf_view version argv J h targs g ts n F Ep Eg C Ea Ec _ eq_refl eq_refl Hn HR eq_refl Eh _) end.
  - unfold pl_run_with, plt_cmdline_of. cbn [pl_gen pl_ts fst snd]. rewrite Eg, Ea. exact Ec.
  - cbn [plt_jnames]. intros ->. reflexivity.
Qed.

Lemma plt_cnf_job_no_crash version argv : plt_cnf_job_with pl_build version argv <> JobCrash.
Proof.
  unfold plt_cnf_job_with.
  destruct (plt_parse_chunks (pl_chunks_of argv)) as [[h targs]| |] eqn:Ep; try discriminate.
  cbn [fst snd]. destruct (plt_hgen h) as [g|] eqn:Eg; [|discriminate].
  destruct (pl_all_some targs) as [ts|] eqn:Ea; [|discriminate]. cbv zeta.
  assert (W : pl_cmd_wf g).
  { unfold plt_parse_chunks in Ep. destruct (pl_chunks_of argv) as [|c0 rest]; [discriminate|].
    destruct (plt_parse_chunk0 false c0) as [h0| |] eqn:E0; try discriminate.
    destruct (pl_parse_tchunks rest); try discriminate. inversion Ep; subst.
    unfold plt_parse_chunk0 in E0. destruct (negb _); [discriminate|]. exact (plt_scan_wf _ _ _ _ _ _ _ _ _ _ E0 Eg). }
  pose proof (pl_chain_good ts _ (pl_build_good g W)) as G.
  destruct (pl_chain (pl_build g) ts) as [n F| | |]; try discriminate; try contradiction.
  destruct (plt_header_choice _ _); discriminate.
Qed.

(* the job of a run of pbgen *)
Record plt_pb_view (version : string) (argv : list string) (j : plt_job) : Type := mk_plt_pb_view {
  ppv_head : plt_head;
  ppv_g : pl_fcmd;
  ppv_n : Z;
  ppv_l : list ir;
  ppv_parse : plt_pb_parse argv = PlOk ppv_head;
  ppv_gen : plt_hgen ppv_head = Some ppv_g;
  ppv_cmd : pl_parse_formula (plt_hname ppv_head) (plt_htoks ppv_head) = PlOk ppv_g;
  ppv_ir : plb_ir_of ppv_g = IrOk ppv_n ppv_l;
  ppv_opts : plt_jo j = plt_ho ppv_head;
  ppv_fmt : plt_format (plt_ho ppv_head) <> FmtDimacs;
  ppv_form : plt_jform j = FOpb ppv_n (to_opb ppv_l);
  ppv_nonneg : 0 <= ppv_n;
  ppv_bounded : lits_bounded ppv_n ppv_l;
  ppv_title : plt_jtitle j = option_map lit (plt_fdesc (plt_hname ppv_head) (plt_htoks ppv_head) ppv_g);
  ppv_header : plt_header_choice (plt_quiet (plt_ho ppv_head))
                 (option_map (fun d => plt_pb_header version argv d) (plt_fdesc (plt_hname ppv_head) (plt_htoks ppv_head) ppv_g))
               = Some (plt_jheader j);
  ppv_names : plt_needs_names (plt_ho ppv_head) = true ->
              plt_jnames j = map lit (plt_labels (plt_dflt (plt_ho ppv_head)) ppv_g ppv_n [])
}.

Lemma plt_pb_parse_inv argv h : plt_pb_parse argv = PlOk h ->
  plt_scan true false false false false false FmtOpb (map lit argv) = PlOk h.
Proof. unfold plt_pb_parse. destruct (negb _); [discriminate|]. destruct (plb_has_T argv); [discriminate|]. intros H; exact H. Qed.

Lemma plt_pb_job_view version argv j : plt_pb_job version argv = JobOk j -> plt_pb_view version argv j.
Proof.
  unfold plt_pb_job. destruct (plt_pb_parse argv) as [h| |] eqn:Ep; try discriminate.
  destruct (plt_hgen h) as [g|] eqn:Eg; [|discriminate].
  pose proof (plt_pb_parse_inv argv h Ep) as Es.
  pose proof (plt_scan_wf _ _ _ _ _ _ _ _ _ _ Es Eg) as W.
  pose proof (plb_ir_of_good g W) as G.
  destruct (plb_ir_of g) as [n l| |] eqn:Ei; try discriminate. cbv zeta.
  destruct (plt_header_choice _ _) as [hh|] eqn:Eh; [|discriminate].
  intros H. inversion H; subst j. clear H. destruct G as [Hn HB].
  match goal with |- plt_pb_view _ _ ?J => refine (mk_plt_pb_view version argv J h g n l Ep Eg (plt_scan_gen _ _ _ _ _ _ _ _ _ _ Es Eg) Ei eq_refl _ eq_refl Hn HB eq_refl Eh _) end.
  - apply (plt_scan_pb_format (map lit argv) false false false false false FmtOpb h); [discriminate|exact Es].
  - cbn [plt_jnames]. intros ->. reflexivity.
Qed.

Lemma plt_pb_job_no_crash version argv : plt_pb_job version argv <> JobCrash.
Proof.
  unfold plt_pb_job. destruct (plt_pb_parse argv) as [h| |] eqn:Ep; try discriminate.
  destruct (plt_hgen h) as [g|] eqn:Eg; [|discriminate].
  pose proof (plt_scan_wf _ _ _ _ _ _ _ _ _ _ (plt_pb_parse_inv argv h Ep) Eg) as W.
  pose proof (plb_ir_of_good g W) as G.
  destruct (plb_ir_of g) as [n l| |]; try discriminate; try contradiction. cbv zeta.
  destruct (plt_header_choice _ _); discriminate.
Qed.

(* both kinds of job hand a valid formula to the writer *)
Lemma plt_cnf_view_valid version argv j : plt_cnf_view version argv j -> opb_valid (plt_jform j).
Proof.
  intros V. rewrite (pcv_form _ _ _ V). apply cnf_opb_valid. apply in_range_valid; [exact (pcv_nonneg _ _ _ V)|exact (pcv_range _ _ _ V)].
Qed.
Lemma plt_pb_view_valid version argv j : plt_pb_view version argv j -> opb_valid (plt_jform j).
Proof.
  intros V. rewrite (ppv_form _ _ _ V). apply plb_to_opb_valid; [exact (ppv_nonneg _ _ _ V)|exact (ppv_bounded _ _ _ V)].
Qed.

(* ------------------------------------------------------------------ *)
(* the writer                                                          *)
(* ------------------------------------------------------------------ *)
Lemma plt_checked_parts n (names : list (list ascii)) : plt_names_checked n names = true ->
  len names = n /\ latex_names_ok names = true /\ latex_names_decodable names = true.
Proof.
  unfold plt_names_checked. intros H. apply andb_true_iff in H as [H H3]. apply andb_true_iff in H as [H1 H2].
  apply Z.eqb_eq in H1. auto.
Qed.

(* every literal of a valid formula has a name when there are as many names as variables *)
Lemma plt_valid_named f (names : list (list ascii)) : opb_valid f -> len names = numvar f ->
  forall c l, In c (constraints f) -> In l (map snd (pb_terms c)) -> l <> 0 /\ Z.abs l <= len names.
Proof.
  intros [_ V] E c l Hc Hl. rewrite Forall_forall in V. destruct (V c Hc) as [T _].
  rewrite Forall_forall in T. apply in_map_iff in Hl as (cl & <- & Hcl). specialize (T cl Hcl). unfold term_ok in T. lia.
Qed.

(* the front part of the document, before the align blocks *)
Definition plt_doc_front (title : text) (h : option Dimacs.header) (extra : text) (f : formula) : text :=
  latex_preamble ++ lit "\begin{document}" ++ LF ::
  lit "\title{" ++ escape_underscore title ++ lit "}" ++ LF ::
  lit "\author{CNFgen formula generator}" ++ LF :: lit "\maketitle" ++ LF ::
  (match h with
   | Some h => lit "\noindent\textbf{Formula header:}" ++ LF ::
               lit "\begin{lstlisting}[breaklines]" ++ LF ::
               List.concat (map latex_header_line h) ++
               lit "\end{lstlisting}" ++ LF :: lit "\bigskip" ++ [LF]
   | None => []
   end) ++ extra ++
  (match f with
   | FCnf n F => lit "\noindent\textbf{CNF with " ++ print_Z n ++ lit " variables and and " ++
                 print_Z (len F) ++ lit " clauses:}" ++ [LF]
   | FOpb n C => lit "\noindent\textbf{Pseudo-boolean formula with " ++ print_Z n ++
                 lit " variables and and " ++ print_Z (len C) ++ lit " constraints:}" ++ [LF]
   end).

Lemma print_latex_document_split title h extra names f doc :
  print_latex_document title h extra names f = Some doc ->
  exists body, print_latex names 35 false f = Some body /\
               doc = plt_doc_front title h extra f ++ body ++ LF :: lit "\end{document}".
Proof.
  unfold print_latex_document. destruct (print_latex names 35 false f) as [body|]; [|discriminate].
  intros H. inversion H; subst. exists body. split; [reflexivity|].
  unfold plt_doc_front. repeat (rewrite <- ?app_assoc; cbn [app]). reflexivity.
Qed.

(* what a LaTeX document written by the model says *)
Definition plt_latex_says (doc : text) (title : text) (h : option Dimacs.header) (names : list text) (f : formula) : Prop :=
  exists body rows lrows,
    doc = plt_doc_front title h plt_extra_text f ++ body ++ LF :: lit "\end{document}" /\
    print_latex names 35 false f = Some body /\
    len names = numvar f /\
    rows_of_latex (is_opb f) body = (negb (nonempty rows), rows) /\
    formula_litrows names f = Some lrows /\
    map decode_lrow rows = map Some lrows /\
    List.length lrows = List.length (constraints f).

Theorem plt_emit_latex j doc : plt_emit (JobOk j) = POut doc -> plt_format (plt_jo j) = FmtLatex ->
  exists title, plt_jtitle j = Some title /\ plt_latex_says doc title (plt_jheader j) (plt_jnames j) (plt_jform j).
Proof.
  unfold plt_emit, plt_write, plt_needs_names. intros H Ef. rewrite Ef in H. cbn [andb] in H.
  destruct (plt_names_checked (numvar (plt_jform j)) (plt_jnames j)) eqn:Ck; cbn [negb] in H; [|discriminate].
  destruct (plt_checked_parts _ _ Ck) as (E1 & E2 & E3).
  destruct (plt_jtitle j) as [title|]; [|discriminate]. exists title. split; [reflexivity|].
  destruct (print_latex_document title (plt_jheader j) plt_extra_text (plt_jnames j) (plt_jform j)) as [d|] eqn:Ed; [|discriminate].
  inversion H; subst d. destruct (print_latex_document_split _ _ _ _ _ _ Ed) as (body & Eb & ->).
  destruct (latex_rows_literals_proved _ _ _ _ _ E2 E3 Eb) as (rows & lrows & R1 & R2 & R3).
  exists body, rows, lrows. repeat split; try assumption. exact (formula_litrows_length _ _ _ R2).
Qed.

(* with the names checked, the LaTeX writer is defined on every valid formula *)
Lemma plt_latex_defined title h extra (names : list (list ascii)) f : opb_valid f -> len names = numvar f ->
  exists doc, print_latex_document title h extra names f = Some doc.
Proof.
  intros V E. destruct (print_latex_defined names 35 false f (plt_valid_named f names V E)) as (body & Eb).
  unfold print_latex_document. rewrite Eb. eexists. reflexivity.
Qed.

Theorem plt_emit_no_crash j : opb_valid (plt_jform j) -> plt_emit (JobOk j) <> PCrash.
Proof.
  intros V. unfold plt_emit, plt_write.
  destruct (plt_needs_names (plt_jo j)) eqn:En; cbn [andb].
  - destruct (plt_names_checked (numvar (plt_jform j)) (plt_jnames j)) eqn:Ck; cbn [negb]; [|discriminate].
    destruct (plt_checked_parts _ _ Ck) as (E1 & _ & _).
    destruct (plt_format (plt_jo j)).
    + destruct (plt_jform j); discriminate.
    + discriminate.
    + destruct (plt_jtitle j) as [title|]; [|discriminate].
      destruct (plt_latex_defined title (plt_jheader j) plt_extra_text (plt_jnames j) (plt_jform j) V E1) as (doc & ->). discriminate.
  - unfold plt_needs_names in En. destruct (plt_format (plt_jo j)); try discriminate.
    destruct (plt_jform j); discriminate.
Qed.

(* the names lines of a DIMACS text: one entry per name, numbered from 1 *)
Fixpoint plt_varname_lines (i : Z) (names : list text) : list text :=
  match names with
  | [] => []
  | nm :: r => (lit "c varname " ++ print_Z i ++ [SP] ++ nm) :: plt_varname_lines (i + 1) r
  end.
Lemma plt_varname_lines_eq : forall names i, plt_varname_lines i names = varname_lines_as_found i names.
Proof. induction names as [|nm r IH]; intros i; cbn; [reflexivity|]. now rewrite IH. Qed.

Lemma plt_varname_lines_nth : forall names i k nm, nth_error names k = Some nm ->
  nth_error (plt_varname_lines i names) k = Some (lit "c varname " ++ print_Z (i + Z.of_nat k) ++ [SP] ++ nm).
Proof.
  induction names as [|x r IH]; intros i k nm H; destruct k as [|k]; cbn in H; try discriminate.
  - inversion H; subst. cbn. now rewrite Z.add_0_r.
  - cbn [plt_varname_lines nth_error]. rewrite (IH (i + 1) k nm H). replace (i + Z.of_nat (S k)) with (i + 1 + Z.of_nat k) by lia. reflexivity.
Qed.
Lemma plt_varname_lines_length : forall names i, List.length (plt_varname_lines i names) = List.length names.
Proof. induction names as [|x r IH]; intros i; cbn; [reflexivity|]. now rewrite IH. Qed.

(* names without white space have no line break *)
Lemma plt_no_ws_no_break nm : no_ws_text nm = true -> no_break nm = true.
Proof.
  unfold no_ws_text, no_break. intros H. rewrite forallb_forall in *. intros c Hc. specialize (H c Hc).
  apply negb_true_iff in H. unfold is_lf, is_cr, LF, CR. unfold is_space in H.
  destruct (Ascii.eqb c "010") eqn:E1; [apply Ascii.eqb_eq in E1; subst c; vm_compute in H; discriminate|].
  destruct (Ascii.eqb c "013") eqn:E2; [apply Ascii.eqb_eq in E2; subst c; vm_compute in H; discriminate|].
  reflexivity.
Qed.
Lemma plt_names_ok_no_break names : latex_names_ok names = true -> forallb no_break names = true.
Proof.
  unfold latex_names_ok. intros H. rewrite forallb_forall in *. intros nm Hn. apply plt_no_ws_no_break. now apply H.
Qed.

(* what a DIMACS text with names written by the model says *)
Definition plt_dimacs_names_say (t : text) (h : option Dimacs.header) (names : list text) (n : Z) (F : cnf) : Prop :=
  t = unlines (comment_entries h None ++ plt_varname_lines 1 names ++ [lit "c"] ++ [spec_line n (len F)] ++ map clause_line F) /\
  len names = n /\
  (printable n -> printable (len F) -> forall u, parse_dimacs u t = DOk n F).

Theorem plt_emit_dimacs_names j t : opb_valid (plt_jform j) ->
  plt_emit (JobOk j) = POut t -> plt_format (plt_jo j) = FmtDimacs -> plt_varnames (plt_jo j) = true ->
  exists n F, plt_jform j = FCnf n F /\ t = print_dimacs (plt_jheader j) (Some (plt_jnames j)) n F /\
              plt_dimacs_names_say t (plt_jheader j) (plt_jnames j) n F.
Proof.
  intros V. unfold plt_emit, plt_write, plt_needs_names. intros H Ef Ev. rewrite Ef, Ev in H. cbn [andb] in H.
  destruct (plt_names_checked (numvar (plt_jform j)) (plt_jnames j)) eqn:Ck; cbn [negb] in H; [|discriminate].
  destruct (plt_checked_parts _ _ Ck) as (E1 & E2 & _).
  destruct (plt_jform j) as [n F|n C] eqn:Ej; [|discriminate]. inversion H; subst t. clear H.
  exists n, F. split; [reflexivity|]. split; [reflexivity|]. cbn [numvar] in E1. split; [|split; [exact E1|]].
  - unfold print_dimacs, print_entries. f_equal. unfold comment_entries.
    rewrite (varname_entries_as_found _ 1 (plt_names_ok_no_break _ E2)), <- plt_varname_lines_eq.
    rewrite app_nil_r. rewrite <- !app_assoc. reflexivity.
  - intros P1 P2 u. apply dimacs_roundtrip_proved; try assumption.
    destruct V as [Vn Vc]. cbn [numvar constraints] in Vn, Vc. split; [exact Vn|].
    rewrite Forall_forall in *. intros c Hc. specialize (Vc (clause_pbc c) (in_map _ _ _ Hc)). destruct Vc as [T _].
    rewrite Forall_forall in *. intros l Hl. cbn [clause_pbc pb_terms] in T.
    specialize (T (1, l)). unfold term_ok in T. cbn [snd] in T. unfold lit_in. apply T. apply in_map_iff. exists l. auto.
Qed.

(* the OPB writer with names *)
Theorem plt_emit_opb_names j t : opb_valid (plt_jform j) ->
  plt_emit (JobOk j) = POut t -> plt_format (plt_jo j) = FmtOpb -> plt_varnames (plt_jo j) = true ->
  t = print_opb (plt_jheader j) (Some (plt_jnames j)) (plt_jform j) /\ len (plt_jnames j) = numvar (plt_jform j) /\
  (opb_printable (plt_jform j) -> parse_opb t = OOk (numvar (plt_jform j)) (constraints (plt_jform j))).
Proof.
  intros V. unfold plt_emit, plt_write, plt_needs_names. intros H Ef Ev. rewrite Ef, Ev in H. cbn [andb] in H.
  destruct (plt_names_checked (numvar (plt_jform j)) (plt_jnames j)) eqn:Ck; cbn [negb] in H; [|discriminate].
  destruct (plt_checked_parts _ _ Ck) as (E1 & _ & _). inversion H; subst t. clear H.
  split; [reflexivity|]. split; [exact E1|]. intros P. now apply opb_roundtrip_proved.
Qed.

(* without the new options the bytes are those of the writers of Pipeline.v / PipelinePb.v *)
Theorem plt_emit_plain j t : plt_emit (JobOk j) = POut t -> plt_needs_names (plt_jo j) = false ->
  match plt_jform j with
  | FCnf n F => t = pl_write (plt_is_opb (plt_format (plt_jo j))) (plt_jheader j) n F
  | FOpb n C => t = plb_write (plt_jheader j) n C
  end.
Proof.
  unfold plt_emit, plt_write. intros H En. rewrite En in H. cbn [andb] in H.
  unfold plt_needs_names in En. destruct (plt_format (plt_jo j)); try discriminate.
  - destruct (plt_jform j); [|discriminate]. inversion H; subst. reflexivity.
  - destruct (plt_jform j); inversion H; subst; reflexivity.
Qed.

(* ------------------------------------------------------------------ *)
(* the programs                                                        *)
(* ------------------------------------------------------------------ *)
Theorem cnfgen_main_tex_total version argv :
  (exists t, cnfgen_main_tex version argv = POut t) \/ cnfgen_main_tex version argv = PCliError \/
  cnfgen_main_tex version argv = POutside.
Proof.
  unfold cnfgen_main_tex. pose proof (plt_cnf_job_no_crash version argv) as NC.
  destruct (plt_cnf_job_with pl_build version argv) as [j| | |] eqn:E.
  - pose proof (plt_emit_no_crash j (plt_cnf_view_valid _ _ _ (plt_cnf_job_view _ _ _ E))) as N.
    destruct (plt_emit (JobOk j)) as [t| | |]; [left; eexists; reflexivity|right; left; reflexivity|contradiction|right; right; reflexivity].
  - right; left; reflexivity.
  - contradiction.
  - right; right; reflexivity.
Qed.

Theorem pbgen_main_tex_total version argv :
  (exists t, pbgen_main_tex version argv = POut t) \/ pbgen_main_tex version argv = PCliError \/
  pbgen_main_tex version argv = POutside.
Proof.
  unfold pbgen_main_tex. pose proof (plt_pb_job_no_crash version argv) as NC.
  destruct (plt_pb_job version argv) as [j| | |] eqn:E.
  - pose proof (plt_emit_no_crash j (plt_pb_view_valid _ _ _ (plt_pb_job_view _ _ _ E))) as N.
    destruct (plt_emit (JobOk j)) as [t| | |]; [left; eexists; reflexivity|right; left; reflexivity|contradiction|right; right; reflexivity].
  - right; left; reflexivity.
  - contradiction.
  - right; right; reflexivity.
Qed.

Lemma plt_emit_out_job r t : plt_emit r = POut t -> exists j, r = JobOk j.
Proof. destruct r as [j| | |]; cbn [plt_emit]; try discriminate. intros _. now exists j. Qed.

(* the fast rendering *)
Lemma plt_cnf_job_ext b1 b2 version argv : (forall c, b1 c = b2 c) ->
  plt_cnf_job_with b1 version argv = plt_cnf_job_with b2 version argv.
Proof.
  intros H. unfold plt_cnf_job_with. destruct (plt_parse_chunks (pl_chunks_of argv)) as [x| |]; try reflexivity.
  destruct (plt_hgen (fst x)) as [g|]; [|reflexivity]. destruct (pl_all_some (snd x)) as [ts|]; [|reflexivity].
  cbv zeta. rewrite (H g). reflexivity.
Qed.
Theorem cnfgen_main_tex_fast_eq version argv : cnfgen_main_tex_fast version argv = cnfgen_main_tex version argv.
Proof. unfold cnfgen_main_tex_fast, cnfgen_main_tex. now rewrite (plt_cnf_job_ext pl_build_fast pl_build version argv pl_build_fast_eq). Qed.

(* ------------------------------------------------------------------ *)
(* the header                                                          *)
(* ------------------------------------------------------------------ *)
Theorem plt_header_shape version argv d ts :
  plt_header version argv d ts =
  plh_render (plh_fresh version d ++ number_from 0 (flat_map pl_tdesc ts)
              ++ [(KO "command line", ("cnfgen " ++ plh_join " " argv)%string)]).
Proof. unfold plt_header. now rewrite plh_final_shape. Qed.

Theorem plt_pb_header_shape version argv d :
  plt_pb_header version argv d =
  plh_render (plh_fresh version d ++ [(KO "command line", ("pbgen " ++ plh_join " " argv)%string)]).
Proof. reflexivity. Qed.

Lemma plt_header_choice_verbose h hh : plt_header_choice false h = Some hh -> exists x, h = Some x /\ hh = Some x.
Proof. unfold plt_header_choice. destruct h as [x|]; cbn; [|discriminate]. intros H. inversion H. now exists x. Qed.

(* a description that PipelineHeader.pl_fdesc does not give is built from the name of the graph argument *)
Lemma plt_fdesc_cases name toks g d : plt_fdesc name toks g = Some d ->
  pl_fdesc g = Some d \/
  (pl_fdesc g = None /\ exists gt vs c G, plt_graph_tokens name toks = Some (gt, vs) /\
     gs_make (0, 0) gt vs = inl (GSVOk [SGen c]) /\ plt_call_name c = Some G /\ plt_gdesc g G = Some d).
Proof.
  unfold plt_fdesc. destruct (pl_fdesc g) as [d0|]; [intros H; left; exact H|]. intros H. right. split; [reflexivity|].
  unfold plt_gname in H. destruct (plt_graph_tokens name toks) as [[gt vs]|]; [|discriminate].
  unfold plt_graph_name in H.
  repeat match type of H with
         | match ?x with _ => _ end = Some _ => let E := fresh "Em" in destruct x eqn:E; try discriminate
         end.
  repeat match type of Em with
         | match ?x with _ => _ end = Some _ => let E := fresh "En" in destruct x eqn:E; try discriminate
         end.
  exists gt, vs, c, s. split; [reflexivity|]. split; [exact En|]. split; [exact Em|exact H].
Qed.

(* ------------------------------------------------------------------ *)
(* the statements of Prop_C12_pipeline.v                               *)
(* ------------------------------------------------------------------ *)
Lemma pl_step_err t : pl_step FrErr t = FrErr /\ pl_step FrCrash t = FrCrash /\ pl_step FrOutside t = FrOutside.
Proof. repeat split. Qed.
Lemma pl_chain_ok_start : forall ts start n F, pl_chain start ts = FrOk n F -> exists n0 F0, start = FrOk n0 F0.
Proof.
  unfold pl_chain. induction ts as [|t ts IH]; intros start n F H; cbn [fold_left] in H.
  - now exists n, F.
  - destruct (IH _ _ _ H) as (n1 & F1 & E). destruct start as [n0 F0| | |]; cbn [pl_step] in E; try discriminate.
    now exists n0, F0.
Qed.

(* the output options a command line selects *)
Definition plt_cnf_opts (argv : list string) : option plt_opts :=
  match plt_parse_chunks (pl_chunks_of argv) with PlOk x => Some (plt_ho (fst x)) | _ => None end.
Definition plt_pb_opts (argv : list string) : option plt_opts :=
  match plt_pb_parse argv with PlOk h => Some (plt_ho h) | _ => None end.

(* [plt_cnf_run argv name toks g ts n0 n F]: the parsers of cnfgen read argv as the sub-command g (formula name [name],
   followed by the tokens [toks]) and the transformations ts; g builds a formula with n0 variables; the chain of
   transformations, left to right, gives the formula (n, F) that reaches the writer; its literals are within 1..n *)
Definition plt_cnf_run (argv : list string) (name : text) (toks : list text) (g : pl_fcmd) (ts : list pl_tcmd) (n0 n : Z) (F : cnf) : Prop :=
  exists h targs F0,
    plt_parse_chunks (pl_chunks_of argv) = PlOk (h, targs) /\ plt_hgen h = Some g /\ plt_hname h = name /\ plt_htoks h = toks /\
    pl_parse_formula name toks = PlOk g /\ pl_all_some targs = Some ts /\
    pl_build g = FrOk n0 F0 /\ pl_chain (pl_build g) ts = FrOk n F /\
    pl_run_with pl_build (plt_cmdline_of (h, targs)) = FrOk n F /\ 0 <= n /\ lits_in_range n F = true.

(* [plt_pb_run argv name toks g n l]: the parser of pbgen reads argv as the sub-command g, whose builder calls are l on n variables *)
Definition plt_pb_run (argv : list string) (name : text) (toks : list text) (g : pl_fcmd) (n : Z) (l : list ir) : Prop :=
  exists h, plt_pb_parse argv = PlOk h /\ plt_hgen h = Some g /\ plt_hname h = name /\ plt_htoks h = toks /\
            pl_parse_formula name toks = PlOk g /\ plb_ir_of g = IrOk n l /\ 0 <= n /\ lits_bounded n l.

Lemma plt_cnf_view_run version argv j (V : plt_cnf_view version argv j) :
  exists n0, plt_cnf_run argv (plt_hname (pcv_head _ _ _ V)) (plt_htoks (pcv_head _ _ _ V)) (pcv_g _ _ _ V) (pcv_ts _ _ _ V) n0 (pcv_n _ _ _ V) (pcv_F _ _ _ V) /\
             (match pl_build (pcv_g _ _ _ V) with FrOk m _ => m | _ => 0 end) = n0.
Proof.
  destruct (pl_chain_ok_start _ _ _ _ (pcv_chain _ _ _ V)) as (n0 & F0 & E0). exists n0. split; [|now rewrite E0].
  exists (pcv_head _ _ _ V), (pcv_targs _ _ _ V), F0.
  repeat split; try reflexivity; try exact E0.
  - exact (pcv_parse _ _ _ V).
  - exact (pcv_gen _ _ _ V).
  - exact (pcv_cmd _ _ _ V).
  - exact (pcv_all _ _ _ V).
  - exact (pcv_chain _ _ _ V).
  - exact (pcv_run _ _ _ V).
  - exact (pcv_nonneg _ _ _ V).
  - exact (pcv_range _ _ _ V).
Qed.

Lemma plt_cnf_opts_view version argv j (V : plt_cnf_view version argv j) o : plt_cnf_opts argv = Some o -> o = plt_ho (pcv_head _ _ _ V).
Proof. unfold plt_cnf_opts. rewrite (pcv_parse _ _ _ V). cbn [fst]. intros H. now inversion H. Qed.
Lemma plt_pb_opts_view version argv j (V : plt_pb_view version argv j) o : plt_pb_opts argv = Some o -> o = plt_ho (ppv_head _ _ _ V).
Proof. unfold plt_pb_opts. rewrite (ppv_parse _ _ _ V). intros H. now inversion H. Qed.

Lemma plt_header_choice_some q (d : option string) (mk : string -> Dimacs.header) hh x :
  plt_header_choice q (option_map mk d) = Some hh -> d = Some x -> hh = if q then None else Some (mk x).
Proof. intros H ->. unfold plt_header_choice in H. destruct q; cbn in H; now inversion H. Qed.

(* LaTeX, cnfgen *)
Theorem cnfgen_tex_latex version argv doc o : cnfgen_main_tex version argv = POut doc ->
  plt_cnf_opts argv = Some o -> plt_format o = FmtLatex ->
  exists name toks g ts n0 n F d,
    plt_cnf_run argv name toks g ts n0 n F /\ plt_fdesc name toks g = Some d /\
    plt_latex_says doc (lit d) (if plt_quiet o then None else Some (plt_header version argv d ts))
                   (map lit (plt_labels plt_x_ g n0 ts)) (FCnf n F).
Proof.
  unfold cnfgen_main_tex. intros H Eo Ef. destruct (plt_emit_out_job _ _ H) as (j & Ej). rewrite Ej in H.
  pose proof (plt_cnf_job_view _ _ _ Ej) as V. pose proof (plt_cnf_opts_view _ _ _ V o Eo) as Eo'.
  assert (Ef' : plt_format (plt_jo j) = FmtLatex) by (rewrite (pcv_opts _ _ _ V), <- Eo'; exact Ef).
  destruct (plt_emit_latex j doc H Ef') as (title & Et & S).
  destruct (plt_cnf_view_run _ _ _ V) as (n0 & R & En0).
  rewrite (pcv_title _ _ _ V) in Et.
  destruct (plt_fdesc (plt_hname (pcv_head _ _ _ V)) (plt_htoks (pcv_head _ _ _ V)) (pcv_g _ _ _ V)) as [d|] eqn:Ed; [|discriminate].
  cbn [option_map] in Et. inversion Et; subst title.
  exists (plt_hname (pcv_head _ _ _ V)), (plt_htoks (pcv_head _ _ _ V)), (pcv_g _ _ _ V), (pcv_ts _ _ _ V), n0, (pcv_n _ _ _ V), (pcv_F _ _ _ V), d.
  split; [exact R|]. split; [exact Ed|].
  pose proof (pcv_header _ _ _ V) as Eh. rewrite Ed in Eh.
  pose proof (plt_header_choice_some _ (Some d) (fun d => plt_header version argv d (pcv_ts _ _ _ V)) _ d Eh eq_refl) as Ehh.
  assert (Nn : plt_needs_names (plt_ho (pcv_head _ _ _ V)) = true) by (unfold plt_needs_names; rewrite <- Eo', Ef; reflexivity).
  pose proof (pcv_names _ _ _ V Nn) as En. rewrite En0 in En. unfold plt_dflt in En. rewrite <- Eo', Ef in En.
  rewrite <- (pcv_form _ _ _ V), <- En, Eo', <- Ehh. exact S.
Qed.

(* LaTeX, pbgen *)
Theorem pbgen_tex_latex version argv doc o : pbgen_main_tex version argv = POut doc ->
  plt_pb_opts argv = Some o -> plt_format o = FmtLatex ->
  exists name toks g n l d,
    plt_pb_run argv name toks g n l /\ plt_fdesc name toks g = Some d /\
    plt_latex_says doc (lit d) (if plt_quiet o then None else Some (plt_pb_header version argv d))
                   (map lit (plt_labels plt_x_ g n [])) (FOpb n (to_opb l)).
Proof.
  unfold pbgen_main_tex. intros H Eo Ef. destruct (plt_emit_out_job _ _ H) as (j & Ej). rewrite Ej in H.
  pose proof (plt_pb_job_view _ _ _ Ej) as V. pose proof (plt_pb_opts_view _ _ _ V o Eo) as Eo'.
  assert (Ef' : plt_format (plt_jo j) = FmtLatex) by (rewrite (ppv_opts _ _ _ V), <- Eo'; exact Ef).
  destruct (plt_emit_latex j doc H Ef') as (title & Et & S).
  rewrite (ppv_title _ _ _ V) in Et.
  destruct (plt_fdesc (plt_hname (ppv_head _ _ _ V)) (plt_htoks (ppv_head _ _ _ V)) (ppv_g _ _ _ V)) as [d|] eqn:Ed; [|discriminate].
  cbn [option_map] in Et. inversion Et; subst title.
  exists (plt_hname (ppv_head _ _ _ V)), (plt_htoks (ppv_head _ _ _ V)), (ppv_g _ _ _ V), (ppv_n _ _ _ V), (ppv_l _ _ _ V), d.
  split.
  { exists (ppv_head _ _ _ V).
    exact (conj (ppv_parse _ _ _ V) (conj (ppv_gen _ _ _ V) (conj eq_refl (conj eq_refl (conj (ppv_cmd _ _ _ V)
          (conj (ppv_ir _ _ _ V) (conj (ppv_nonneg _ _ _ V) (ppv_bounded _ _ _ V)))))))). }
  split; [exact Ed|].
  pose proof (ppv_header _ _ _ V) as Eh. rewrite Ed in Eh.
  pose proof (plt_header_choice_some _ (Some d) (fun d => plt_pb_header version argv d) _ d Eh eq_refl) as Ehh.
  assert (Nn : plt_needs_names (plt_ho (ppv_head _ _ _ V)) = true) by (unfold plt_needs_names; rewrite <- Eo', Ef; reflexivity).
  pose proof (ppv_names _ _ _ V Nn) as En. unfold plt_dflt in En. rewrite <- Eo', Ef in En.
  rewrite <- (ppv_form _ _ _ V), <- En, Eo', <- Ehh. exact S.
Qed.

(* --varnames, DIMACS *)
Theorem cnfgen_tex_varnames version argv t o : cnfgen_main_tex version argv = POut t ->
  plt_cnf_opts argv = Some o -> plt_format o = FmtDimacs -> plt_varnames o = true ->
  exists name toks g ts n0 n F hh,
    plt_cnf_run argv name toks g ts n0 n F /\
    plt_header_choice (plt_quiet o) (option_map (fun d => plt_header version argv d ts) (plt_fdesc name toks g)) = Some hh /\
    plt_dimacs_names_say t hh (map lit (plt_labels plt_x g n0 ts)) n F.
Proof.
  unfold cnfgen_main_tex. intros H Eo Ef Ev. destruct (plt_emit_out_job _ _ H) as (j & Ej). rewrite Ej in H.
  pose proof (plt_cnf_job_view _ _ _ Ej) as V. pose proof (plt_cnf_opts_view _ _ _ V o Eo) as Eo'.
  assert (Ef' : plt_format (plt_jo j) = FmtDimacs) by (rewrite (pcv_opts _ _ _ V), <- Eo'; exact Ef).
  assert (Ev' : plt_varnames (plt_jo j) = true) by (rewrite (pcv_opts _ _ _ V), <- Eo'; exact Ev).
  destruct (plt_emit_dimacs_names j t (plt_cnf_view_valid _ _ _ V) H Ef' Ev') as (n & F & Efm & _ & S).
  destruct (plt_cnf_view_run _ _ _ V) as (n0 & R & En0).
  rewrite (pcv_form _ _ _ V) in Efm. inversion Efm; subst n F.
  exists (plt_hname (pcv_head _ _ _ V)), (plt_htoks (pcv_head _ _ _ V)), (pcv_g _ _ _ V), (pcv_ts _ _ _ V), n0, (pcv_n _ _ _ V), (pcv_F _ _ _ V), (plt_jheader j).
  split; [exact R|]. split; [rewrite Eo'; exact (pcv_header _ _ _ V)|].
  assert (Nn : plt_needs_names (plt_ho (pcv_head _ _ _ V)) = true) by (unfold plt_needs_names; rewrite <- Eo', Ef; exact Ev).
  pose proof (pcv_names _ _ _ V Nn) as En. rewrite En0 in En. unfold plt_dflt in En. rewrite <- Eo', Ef in En.
  rewrite <- En. exact S.
Qed.

(* --varnames, OPB (both tools) *)
Theorem cnfgen_tex_varnames_opb version argv t o : cnfgen_main_tex version argv = POut t ->
  plt_cnf_opts argv = Some o -> plt_format o = FmtOpb -> plt_varnames o = true ->
  exists name toks g ts n0 n F hh,
    plt_cnf_run argv name toks g ts n0 n F /\
    plt_header_choice (plt_quiet o) (option_map (fun d => plt_header version argv d ts) (plt_fdesc name toks g)) = Some hh /\
    let names := map lit (plt_labels plt_x g n0 ts) in
    t = print_opb hh (Some names) (FCnf n F) /\ len names = n /\
    (printable n -> printable (len F) -> parse_opb t = OOk n (map clause_pbc F)).
Proof.
  unfold cnfgen_main_tex. intros H Eo Ef Ev. destruct (plt_emit_out_job _ _ H) as (j & Ej). rewrite Ej in H.
  pose proof (plt_cnf_job_view _ _ _ Ej) as V. pose proof (plt_cnf_opts_view _ _ _ V o Eo) as Eo'.
  assert (Ef' : plt_format (plt_jo j) = FmtOpb) by (rewrite (pcv_opts _ _ _ V), <- Eo'; exact Ef).
  assert (Ev' : plt_varnames (plt_jo j) = true) by (rewrite (pcv_opts _ _ _ V), <- Eo'; exact Ev).
  destruct (plt_emit_opb_names j t (plt_cnf_view_valid _ _ _ V) H Ef' Ev') as (Et & El & RB).
  destruct (plt_cnf_view_run _ _ _ V) as (n0 & R & En0).
  exists (plt_hname (pcv_head _ _ _ V)), (plt_htoks (pcv_head _ _ _ V)), (pcv_g _ _ _ V), (pcv_ts _ _ _ V), n0, (pcv_n _ _ _ V), (pcv_F _ _ _ V), (plt_jheader j).
  split; [exact R|]. split; [rewrite Eo'; exact (pcv_header _ _ _ V)|].
  assert (Nn : plt_needs_names (plt_ho (pcv_head _ _ _ V)) = true) by (unfold plt_needs_names; rewrite <- Eo', Ef; exact Ev).
  pose proof (pcv_names _ _ _ V Nn) as En. rewrite En0 in En. unfold plt_dflt in En. rewrite <- Eo', Ef in En.
  cbv zeta. rewrite <- En. rewrite (pcv_form _ _ _ V) in Et, El, RB. cbn [numvar constraints] in El, RB.
  split; [exact Et|]. split; [exact El|]. intros P1 P2. apply RB. now apply cnf_opb_printable.
Qed.

Theorem pbgen_tex_varnames version argv t o : pbgen_main_tex version argv = POut t ->
  plt_pb_opts argv = Some o -> plt_format o = FmtOpb -> plt_varnames o = true ->
  exists name toks g n l hh,
    plt_pb_run argv name toks g n l /\
    plt_header_choice (plt_quiet o) (option_map (fun d => plt_pb_header version argv d) (plt_fdesc name toks g)) = Some hh /\
    let names := map lit (plt_labels plt_x g n []) in
    t = print_opb hh (Some names) (FOpb n (to_opb l)) /\ len names = n /\
    (opb_printable (FOpb n (to_opb l)) -> parse_opb t = OOk n (to_opb l)).
Proof.
  unfold pbgen_main_tex. intros H Eo Ef Ev. destruct (plt_emit_out_job _ _ H) as (j & Ej). rewrite Ej in H.
  pose proof (plt_pb_job_view _ _ _ Ej) as V. pose proof (plt_pb_opts_view _ _ _ V o Eo) as Eo'.
  assert (Ef' : plt_format (plt_jo j) = FmtOpb) by (rewrite (ppv_opts _ _ _ V), <- Eo'; exact Ef).
  assert (Ev' : plt_varnames (plt_jo j) = true) by (rewrite (ppv_opts _ _ _ V), <- Eo'; exact Ev).
  destruct (plt_emit_opb_names j t (plt_pb_view_valid _ _ _ V) H Ef' Ev') as (Et & El & RB).
  exists (plt_hname (ppv_head _ _ _ V)), (plt_htoks (ppv_head _ _ _ V)), (ppv_g _ _ _ V), (ppv_n _ _ _ V), (ppv_l _ _ _ V), (plt_jheader j).
  split.
  { exists (ppv_head _ _ _ V).
    exact (conj (ppv_parse _ _ _ V) (conj (ppv_gen _ _ _ V) (conj eq_refl (conj eq_refl (conj (ppv_cmd _ _ _ V)
          (conj (ppv_ir _ _ _ V) (conj (ppv_nonneg _ _ _ V) (ppv_bounded _ _ _ V)))))))). }
  split; [rewrite Eo'; exact (ppv_header _ _ _ V)|].
  assert (Nn : plt_needs_names (plt_ho (ppv_head _ _ _ V)) = true) by (unfold plt_needs_names; rewrite <- Eo', Ef; exact Ev).
  pose proof (ppv_names _ _ _ V Nn) as En. unfold plt_dflt in En. rewrite <- Eo', Ef in En.
  cbv zeta. rewrite <- En. rewrite (ppv_form _ _ _ V) in Et, El, RB. cbn [numvar constraints] in El, RB.
  split; [exact Et|]. split; [exact El|]. exact RB.
Qed.

(* without -q, without the new options: the bytes are the header followed by the formula, graph sub-commands included *)
Theorem cnfgen_tex_plain version argv t o : cnfgen_main_tex version argv = POut t ->
  plt_cnf_opts argv = Some o -> plt_format o <> FmtLatex -> plt_varnames o = false ->
  exists name toks g ts n0 n F hh,
    plt_cnf_run argv name toks g ts n0 n F /\
    plt_header_choice (plt_quiet o) (option_map (fun d => plt_header version argv d ts) (plt_fdesc name toks g)) = Some hh /\
    t = pl_write (plt_is_opb (plt_format o)) hh n F /\
    (printable n -> printable (len F) -> pl_reads_back (plt_is_opb (plt_format o)) t n F).
Proof.
  unfold cnfgen_main_tex. intros H Eo Ef Ev. destruct (plt_emit_out_job _ _ H) as (j & Ej). rewrite Ej in H.
  pose proof (plt_cnf_job_view _ _ _ Ej) as V. pose proof (plt_cnf_opts_view _ _ _ V o Eo) as Eo'.
  assert (Nn : plt_needs_names (plt_jo j) = false).
  { rewrite (pcv_opts _ _ _ V), <- Eo'. unfold plt_needs_names. destruct (plt_format o); try exact Ev. now contradiction Ef. }
  pose proof (plt_emit_plain j t H Nn) as P. rewrite (pcv_form _ _ _ V), (pcv_opts _ _ _ V), <- Eo' in P.
  destruct (plt_cnf_view_run _ _ _ V) as (n0 & R & _).
  exists (plt_hname (pcv_head _ _ _ V)), (plt_htoks (pcv_head _ _ _ V)), (pcv_g _ _ _ V), (pcv_ts _ _ _ V), n0, (pcv_n _ _ _ V), (pcv_F _ _ _ V), (plt_jheader j).
  split; [exact R|]. split; [rewrite Eo'; exact (pcv_header _ _ _ V)|]. split; [exact P|].
  intros P1 P2. rewrite P. apply pl_write_reads_back; try assumption; [exact (pcv_nonneg _ _ _ V)|exact (pcv_range _ _ _ V)].
Qed.
