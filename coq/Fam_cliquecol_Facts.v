(* Fam_cliquecol_Facts.v — the clique-colouring formula encodes a graph together with a
   clique (an injective map onto pairwise adjacent vertices) and a proper colouring (C01). *)
From Coq Require Import ZArith List Bool Lia ZifyBool.
From Cnfgen Require Import Sem Comb Linear IR SemFacts LinearFacts IRFacts FamTab FamTabFacts Fam_cliquecol Spec_C01.
Import ListNotations.
Open Scope Z_scope.

Lemma In_pairs {A} (l : list A) x y : In (x, y) (pairs l) -> In x l /\ In y l.
Proof.
  induction l as [|z t IH]; cbn [pairs]; [intros []|]. rewrite in_app_iff, in_map_iff.
  intros [[w [E H]]|H].
  - inversion E; subst. split; [now left|now right].
  - apply IH in H. split; right; tauto.
Qed.
Lemma NoDup_pairs {A} (l : list A) : NoDup l -> NoDup (pairs l).
Proof.
  induction l as [|z t IH]; intros H; [constructor|]. inversion H as [|? ? Hz Ht]; subst. cbn [pairs].
  apply NoDup_app_intro.
  - apply NoDup_map_inj_in; [intros; congruence|assumption].
  - auto.
  - intros [x y] H1 H2. apply in_map_iff in H1 as [w [E _]]. inversion E; subst. apply In_pairs in H2. tauto.
Qed.

Lemma cc_etab_spec n e : In e (cc_etab n) ->
  1 <= fst (fst e) /\ fst (fst e) < snd (fst e) /\ snd (fst e) <= n /\ 0 < snd e <= cc_ne n.
Proof.
  intros H. unfold cc_etab in H. pose proof (number_range _ _ _ H) as Hr.
  assert (In (fst e) (pairs (upto n))) as Hp.
  { rewrite <- (number_fst (pairs (upto n)) 0). now apply in_map. }
  destruct e as [[u v] id]. cbn [fst snd] in *. apply In_pairs_upto in Hp. unfold cc_ne. lia.
Qed.
Lemma cc_etab_exists n u v : 1 <= u -> u < v -> v <= n -> exists id, In ((u, v), id) (cc_etab n).
Proof.
  intros H1 H2 H3. assert (In (u, v) (map fst (cc_etab n))) as H.
  { unfold cc_etab. rewrite number_fst. apply In_pairs_upto. lia. }
  apply in_map_iff in H as [[x id] [E H]]. cbn in E. subst x. eauto.
Qed.
Lemma cc_etab_NoDup n : NoDup (map fst (cc_etab n)).
Proof. unfold cc_etab. rewrite number_fst. apply NoDup_pairs, NoDup_upto. Qed.
Lemma cc_ne_nonneg n : 0 <= cc_ne n. Proof. apply len_nonneg. Qed.

Lemma clause3 a x y z : clause_sat a [x; y; z] = lit_true a x || (lit_true a y || lit_true a z).
Proof. unfold clause_sat. cbn [existsb]. now rewrite orb_false_r. Qed.

Lemma cc_q_pos n i u : 0 <= n -> 1 <= i -> 1 <= u -> 0 < cc_q n i u.
Proof. intros. unfold cc_q. apply bvar_pos; try lia. apply cc_ne_nonneg. Qed.
Lemma cc_r_pos n k c v l : 0 <= n -> 0 <= k -> 0 <= c -> 1 <= v -> 1 <= l -> 0 < cc_r n k c v l.
Proof.
  intros. unfold cc_r. apply bvar_pos; try lia. pose proof (cc_ne_nonneg n). pose proof (Z.mul_nonneg_nonneg k n). lia.
Qed.

Lemma cliquecol_ok n k c : 0 <= n -> 0 <= k -> 0 <= c -> irs_ok (cliquecol_ir n k c) = true.
Proof.
  intros Hn Hk Hc. pose proof (cc_ne_nonneg n) as Hne. pose proof (Z.mul_nonneg_nonneg k n Hk Hn) as Hkn.
  unfold cliquecol_ir. cbv zeta. repeat apply irs_ok_app_intro.
  - apply cm_complete_ok; lia.
  - apply cm_functional_ok; lia.
  - apply cm_injective_ok; lia.
  - apply irs_ok_flat_map. intros e He. apply cc_etab_spec in He. apply irs_ok_flat_map. intros [i j] Hij.
    apply In_pairs_upto in Hij. cbn [fst snd].
    pose proof (cc_q_pos n i (fst (fst e)) Hn ltac:(lia) ltac:(lia)). pose proof (cc_q_pos n j (snd (fst e)) Hn ltac:(lia) ltac:(lia)).
    pose proof (cc_q_pos n i (snd (fst e)) Hn ltac:(lia) ltac:(lia)). pose proof (cc_q_pos n j (fst (fst e)) Hn ltac:(lia) ltac:(lia)).
    unfold irs_ok. cbn [forallb]. rewrite andb_true_r. apply andb_true_iff.
    split; apply lits_ok_forall; intros l [<-|[<-|[<-|[]]]]; lia.
  - apply cm_complete_ok; lia.
  - apply cm_functional_ok; lia.
  - apply irs_ok_flat_map. intros e He. apply cc_etab_spec in He. apply irs_ok_map. intros l Hl. apply In_upto in Hl.
    pose proof (cc_r_pos n k c (fst (fst e)) l Hn Hk Hc ltac:(lia) ltac:(lia)).
    pose proof (cc_r_pos n k c (snd (fst e)) l Hn Hk Hc ltac:(lia) ltac:(lia)).
    apply lits_ok_forall. intros x [<-|[<-|[<-|[]]]]; lia.
Qed.

Theorem cliquecol_T1 a n k c : 0 <= n -> 0 <= k -> 0 <= c ->
  (irs_hold a (cliquecol_ir n k c) = true <->
   clique_and_colouring n k c (cc_E a n) (cc_Q a n) (cc_C a n k c)).
Proof.
  intros Hn Hk Hc. pose proof (cc_ne_nonneg n) as Hne. pose proof (Z.mul_nonneg_nonneg k n Hk Hn) as Hkn.
  unfold cliquecol_ir, clique_and_colouring, cc_Q, cc_C. cbv zeta. rewrite !irs_hold_app_iff.
  rewrite !cm_complete_sem, !cm_functional_sem, cm_injective_sem by lia.
  fold (cc_q n). fold (cc_r n k c).
  assert (A : forall (X Y X' Y' : Prop), (X <-> X') -> (Y <-> Y') -> (X /\ Y <-> X' /\ Y')) by tauto.
  apply A; [reflexivity|]. apply A; [reflexivity|]. apply A; [reflexivity|].
  apply A; [|apply A; [reflexivity|apply A; [reflexivity|]]].
  - (* clique clauses *)
    rewrite irs_hold_flat_map. split.
    + intros H i1 i2 u v Hi1 Hi2 Hi Hu Hv Huv Q1 Q2.
      (* wlog on the order of u,v and i1,i2 *)
      assert (Hcase : forall u' v' id i j, In ((u', v'), id) (cc_etab n) -> 1 <= i -> i < j -> j <= k ->
                (a (cc_q n i u') = true /\ a (cc_q n j v') = true) \/ (a (cc_q n i v') = true /\ a (cc_q n j u') = true) ->
                a id = true).
      { intros u' v' id i j He Hi' Hij Hj Hor. pose proof (cc_etab_spec n _ He) as Hs. cbn [fst snd] in Hs.
        specialize (H _ He). rewrite irs_hold_flat_map in H.
        specialize (H (i, j) (proj2 (In_pairs_upto k i j) ltac:(lia))). cbn [fst snd] in H.
        unfold irs_hold in H. cbn [forallb ir_holds] in H. rewrite !clause3 in H.
        rewrite !lit_true_neg, !lit_true_pos in H by (try apply cc_q_pos; lia).
        destruct (a id); [reflexivity|]. destruct Hor as [[B1 B2]|[B1 B2]]; rewrite B1, B2 in H; cbn in H; lia. }
      unfold adjacent. destruct (Z.lt_trichotomy u v) as [Hlt|[Heq|Hgt]]; [|lia|].
      * left. destruct (cc_etab_exists n u v) as [id He]; try lia. apply In_sel. exists id. split; [assumption|].
        destruct (Z.lt_trichotomy i1 i2) as [Hl|[He'|Hg]]; [|lia|].
        -- apply (Hcase u v id i1 i2); auto; lia.
        -- apply (Hcase u v id i2 i1); auto; lia.
      * right. destruct (cc_etab_exists n v u) as [id He]; try lia. apply In_sel. exists id. split; [assumption|].
        destruct (Z.lt_trichotomy i1 i2) as [Hl|[He'|Hg]]; [|lia|].
        -- apply (Hcase v u id i1 i2); auto; lia.
        -- apply (Hcase v u id i2 i1); auto; lia.
    + intros H e He. pose proof (cc_etab_spec n _ He) as Hs. destruct e as [[u v] id]. cbn [fst snd] in *.
      rewrite irs_hold_flat_map. intros [i j] Hij. apply In_pairs_upto in Hij. cbn [fst snd].
      unfold irs_hold. cbn [forallb ir_holds]. rewrite !clause3.
      rewrite !lit_true_neg, !lit_true_pos by (try apply cc_q_pos; lia).
      assert (Hadj : adjacent (cc_E a n) u v -> a id = true).
      { intros [Hin|Hin]; apply In_sel in Hin as [id' [He' Ha]].
        - now rewrite (NoDup_fst_unique _ _ _ _ (cc_etab_NoDup n) He He').
        - apply cc_etab_spec in He'. cbn [fst snd] in He'. lia. }
      destruct (a id) eqn:Ea; [reflexivity|]. cbn [orb]. rewrite andb_true_r.
      assert (N1 : a (cc_q n i u) = true -> a (cc_q n j v) = true -> False).
      { intros Q1 Q2. assert (adjacent (cc_E a n) u v) as X by (apply (H i j u v); auto; lia).
        apply Hadj in X. discriminate. }
      assert (N2 : a (cc_q n i v) = true -> a (cc_q n j u) = true -> False).
      { intros Q1 Q2. assert (adjacent (cc_E a n) v u) as X by (apply (H i j v u); auto; lia).
        assert (adjacent (cc_E a n) u v) as Y by (destruct X; [right|left]; assumption).
        apply Hadj in Y. discriminate. }
      destruct (a (cc_q n i u)) eqn:Q1, (a (cc_q n j v)) eqn:Q2, (a (cc_q n i v)) eqn:Q3, (a (cc_q n j u)) eqn:Q4; cbn; try reflexivity;
        exfalso; auto.
  - (* colouring clauses *)
    rewrite irs_hold_flat_map. split.
    + intros H u v l Hin Hl C1 C2. apply In_sel in Hin as [id [He Ha]]. pose proof (cc_etab_spec n _ He) as Hs. cbn [fst snd] in Hs.
      specialize (H _ He). rewrite irs_hold_map in H. specialize (H l (proj2 (In_upto l c) Hl)). cbn [ir_holds fst snd] in H.
      rewrite clause3, !lit_true_neg in H by (try apply cc_r_pos; lia). rewrite Ha, C1, C2 in H. discriminate.
    + intros H e He. pose proof (cc_etab_spec n _ He) as Hs. destruct e as [[u v] id]. cbn [fst snd] in *.
      rewrite irs_hold_map. intros l Hl. apply In_upto in Hl. cbn [ir_holds fst snd].
      rewrite clause3, !lit_true_neg by (try apply cc_r_pos; lia).
      destruct (a id) eqn:Ea; [|reflexivity]. destruct (a (cc_r n k c u l)) eqn:C1; [|reflexivity].
      destruct (a (cc_r n k c v l)) eqn:C2; [|reflexivity]. exfalso. apply (H u v l); auto. apply In_sel. eauto.
Qed.

(* ---------- T2 ---------- *)
Definition cc_enc (n k c : Z) (Eobj : Z * Z -> bool) (Q C : Z -> Z -> bool) : Z -> bool :=
  fun v => if v <=? cc_ne n then enc (cc_etab n) Eobj v
           else if v <=? cc_ne n + k * n then Q ((v - cc_ne n - 1) / n + 1) ((v - cc_ne n - 1) mod n + 1)
           else C ((v - (cc_ne n + k * n) - 1) / c + 1) ((v - (cc_ne n + k * n) - 1) mod c + 1).

Lemma cc_enc_E n k c Eobj Q C : cc_E (cc_enc n k c Eobj Q C) n = filter Eobj (pairs (upto n)).
Proof.
  unfold cc_E. rewrite (sel_ext _ (enc (cc_etab n) Eobj)).
  - rewrite sel_enc by apply number_NoDup_snd. unfold cc_etab. now rewrite number_fst.
  - intros e He. apply cc_etab_spec in He. unfold cc_enc. destruct (Z.leb_spec (snd e) (cc_ne n)); [reflexivity|lia].
Qed.
Lemma cc_enc_Q n k c Eobj Q C i u : 1 <= i <= k -> 1 <= u <= n -> cc_Q (cc_enc n k c Eobj Q C) n i u = Q i u.
Proof.
  intros Hi Hu. unfold cc_Q, cc_enc, cc_q. pose proof (bvar_range (cc_ne n) k n i u Hi Hu) as B.
  destruct (Z.leb_spec (bvar (cc_ne n) n i u) (cc_ne n)); [lia|].
  destruct (Z.leb_spec (bvar (cc_ne n) n i u) (cc_ne n + k * n)); [|lia].
  destruct (bvar_inv (cc_ne n) n i u Hu) as [A1 A2]. now rewrite A1, A2.
Qed.
Lemma cc_enc_C n k c Eobj Q C v l : 0 <= n -> 0 <= k -> 1 <= v <= n -> 1 <= l <= c ->
  cc_C (cc_enc n k c Eobj Q C) n k c v l = C v l.
Proof.
  intros Hn Hk Hv Hl. unfold cc_C, cc_enc, cc_r. pose proof (bvar_range (cc_ne n + k * n) n c v l Hv Hl) as B.
  pose proof (Z.mul_nonneg_nonneg k n Hk Hn).
  destruct (Z.leb_spec (bvar (cc_ne n + k * n) c v l) (cc_ne n)); [lia|].
  destruct (Z.leb_spec (bvar (cc_ne n + k * n) c v l) (cc_ne n + k * n)); [lia|].
  destruct (bvar_inv (cc_ne n + k * n) c v l Hl) as [A1 A2]. now rewrite A1, A2.
Qed.

Lemma clique_and_colouring_ext n k c E Q C Q' C' :
  (forall i u, 1 <= i <= k -> 1 <= u <= n -> Q i u = Q' i u) ->
  (forall v l, 1 <= v <= n -> 1 <= l <= c -> C v l = C' v l) ->
  (forall u v, In (u, v) E -> 1 <= u <= n /\ 1 <= v <= n) ->
  clique_and_colouring n k c E Q C -> clique_and_colouring n k c E Q' C'.
Proof.
  intros EQ EC HE (H1 & H2 & H3 & H4 & H5 & H6 & H7). repeat split.
  - intros i Hi. destruct (H1 i Hi) as [u [Hu Qt]]. exists u. split; auto. now rewrite <- EQ.
  - intros i u1 u2 Hi Hu1 Hu2 A B. apply (H2 i); auto; now rewrite EQ.
  - intros u i1 i2 Hu Hi1 Hi2 A B. apply (H3 u); auto; now rewrite EQ.
  - intros i1 i2 u v Hi1 Hi2 Hne Hu Hv Huv A B. apply (H4 i1 i2); auto; now rewrite EQ.
  - intros v Hv. destruct (H5 v Hv) as [l [Hl Ct]]. exists l. split; auto. now rewrite <- EC.
  - intros v l1 l2 Hv Hl1 Hl2 A B. apply (H6 v); auto; now rewrite EC.
  - intros u v l Hin Hl A B. destruct (HE u v Hin) as [Hu Hv]. apply (H7 u v l); auto; now rewrite EC.
Qed.

Theorem cliquecol_T2 n k c (Eobj : Z * Z -> bool) Q C : 0 <= n -> 0 <= k -> 0 <= c ->
  clique_and_colouring n k c (filter Eobj (pairs (upto n))) Q C ->
  exists a, irs_hold a (cliquecol_ir n k c) = true /\
    cc_E a n = filter Eobj (pairs (upto n)) /\
    (forall i u, 1 <= i <= k -> 1 <= u <= n -> cc_Q a n i u = Q i u) /\
    (forall v l, 1 <= v <= n -> 1 <= l <= c -> cc_C a n k c v l = C v l).
Proof.
  intros Hn Hk Hc HP. exists (cc_enc n k c Eobj Q C).
  split; [|split; [apply cc_enc_E|split; intros; [now apply cc_enc_Q|now apply cc_enc_C]]].
  apply cliquecol_T1; try assumption. rewrite cc_enc_E.
  apply (clique_and_colouring_ext n k c _ Q C); auto.
  - intros. symmetry. now apply cc_enc_Q.
  - intros. symmetry. now apply cc_enc_C.
  - intros u v Hin. apply filter_In in Hin as [Hin _]. apply In_pairs_upto in Hin. lia.
Qed.

(* ---------- T3: satisfiable iff k <= n, k <= c and (n = 0 or c >= 1) ---------- *)
From Cnfgen Require Import Fam_php_Facts.

Theorem cliquecol_sat_iff n k c : 0 <= n -> 0 <= k -> 0 <= c ->
  ((exists a, irs_hold a (cliquecol_ir n k c) = true) <-> k <= n /\ k <= c /\ (n = 0 \/ 1 <= c)).
Proof.
  intros Hn Hk Hc. split.
  - intros [a Ha]. apply cliquecol_T1 in Ha; try assumption.
    set (E := cc_E a n) in *. set (Q := cc_Q a n) in *. set (C := cc_C a n k c) in *.
    destruct Ha as (H1 & H2 & H3 & H4 & H5 & H6 & H7).
    set (q := fun i => first_such (Q i) 1 (n + 1)).
    assert (Hq : forall i, 1 <= i <= k -> 1 <= q i <= n /\ Q i (q i) = true).
    { intros i Hi. destruct (H1 i Hi) as [u [Hu Qt]].
      destruct (first_such_spec (Q i) 1 (n + 1)) as [A B]; [exists u; split; [lia|assumption]|]. split; [unfold q; lia|exact B]. }
    assert (Hqinj : forall i1 i2, 1 <= i1 <= k -> 1 <= i2 <= k -> q i1 = q i2 -> i1 = i2).
    { intros i1 i2 Hi1 Hi2 Eq. destruct (Hq i1 Hi1) as [A1 B1]. destruct (Hq i2 Hi2) as [A2 B2].
      apply (H3 (q i1)); auto. now rewrite Eq. }
    set (col := fun i => first_such (C (q i)) 1 (c + 1)).
    assert (Hcol : forall i, 1 <= i <= k -> 1 <= col i <= c /\ C (q i) (col i) = true).
    { intros i Hi. destruct (Hq i Hi) as [A B]. destruct (H5 (q i) A) as [l [Hl Ct]].
      destruct (first_such_spec (C (q i)) 1 (c + 1)) as [A' B']; [exists l; split; [lia|assumption]|]. split; [unfold col; lia|exact B']. }
    split; [|split].
    + apply (pigeonhole_core q); auto. intros i Hi. apply Hq, Hi.
    + apply (pigeonhole_core col); auto; [intros i Hi; apply Hcol, Hi|].
      intros i1 i2 Hi1 Hi2 Ec. destruct (Z.eq_dec i1 i2) as [|Hne]; [assumption|exfalso].
      destruct (Hq i1 Hi1) as [A1 B1]. destruct (Hq i2 Hi2) as [A2 B2].
      destruct (Hcol i1 Hi1) as [C1 D1]. destruct (Hcol i2 Hi2) as [C2 D2].
      assert (q i1 <> q i2) as Hqne by (intros Eq; apply Hne, Hqinj; auto).
      destruct (H4 i1 i2 (q i1) (q i2)) as [Hin|Hin]; auto.
      * apply (H7 (q i1) (q i2) (col i1)); auto. now rewrite Ec.
      * apply (H7 (q i2) (q i1) (col i1)); auto. now rewrite Ec.
    + destruct (Z.eq_dec n 0) as [|Hne]; [now left|right]. destruct (H5 1 ltac:(lia)) as [l [Hl _]]. lia.
  - intros (Hkn & Hkc & Hnc).
    destruct (cliquecol_T2 n k c (fun e => snd e <=? k) (fun i u => i =? u)
                (fun v l => if v <=? k then l =? v else l =? 1) Hn Hk Hc) as [a [Ha _]]; [|eauto].
    repeat split.
    + intros i Hi. exists i. split; lia.
    + intros; lia.
    + intros; lia.
    + intros i1 i2 u v Hi1 Hi2 Hne Hu Hv Huv Q1 Q2. unfold adjacent.
      destruct (Z.lt_trichotomy u v) as [Hlt|[Heq|Hgt]]; [left|lia|right];
        apply filter_In; (split; [apply In_pairs_upto; lia|cbn; lia]).
    + intros v Hv. destruct (Z.leb_spec v k); [exists v; split; lia|exists 1; split; lia].
    + intros v l1 l2 Hv Hl1 Hl2. destruct (v <=? k); lia.
    + intros u v l Hin Hl. apply filter_In in Hin as [Hp Hle]. apply In_pairs_upto in Hp. cbn in Hle.
      destruct (Z.leb_spec u k); destruct (Z.leb_spec v k); lia.
Qed.

(* ---------- one assignment per object ---------- *)
Theorem cliquecol_unique a b n k c : 0 <= n -> 0 <= k -> 0 <= c ->
  (forall e, In e (cc_E a n) <-> In e (cc_E b n)) ->
  (forall i u, 1 <= i <= k -> 1 <= u <= n -> cc_Q a n i u = cc_Q b n i u) ->
  (forall v l, 1 <= v <= n -> 1 <= l <= c -> cc_C a n k c v l = cc_C b n k c v l) ->
  forall x, 1 <= x <= cc_numvar n k c -> a x = b x.
Proof.
  intros Hn Hk Hc HE HQ HC x Hx. unfold cc_numvar in Hx. pose proof (Z.mul_nonneg_nonneg k n Hk Hn).
  destruct (Z.le_gt_cases x (cc_ne n)) as [H1|H1].
  - destruct (number_surj (pairs (upto n)) 0 x) as [e He]; [unfold cc_ne in H1; lia|].
    apply (sel_inj a b (cc_etab n) (cc_etab_NoDup n) HE (e, x) He).
  - destruct (Z.le_gt_cases x (cc_ne n + k * n)) as [H2|H2].
    + destruct (bvar_surj (cc_ne n) k n x) as (i & u & Hi & Hu & ->); try lia. now apply HQ.
    + destruct (bvar_surj (cc_ne n + k * n) n c x) as (v & l & Hv & Hl & ->); try lia. now apply HC.
Qed.
