(* Latex.v — LaTeX rendering of CNF and OPB objects, and a structural decoder
   of the rendering.  Definitions only.

   Models cnfgen/utils/latexoutput.py:
     _print_latex(F, out, split_every, compact)   -> print_align
        names = F.all_variable_labels(default_label_format='x_{}'), in order;
        the literal table `littext` (padding, \overline placement at the first
        '_' or '^' that is not at position 0, .strip() for OPB objects);
        write_clause / write_constraint; a new align block every split_every rows.
        result None = KeyError of the literal table (a literal without a name).
     to_latex_string(F)  = _print_latex(F, out, -1, compact=True)   -> print_latex_string
     to_latex_document(F, out, export_header, extra_text)            -> print_latex_document
        (title = header['description'] with '_' escaped; header fields through
        encode('ascii','replace'); 35 rows per block, compact=False)
   A coefficient 0 or 1 is printed as no coefficient (design note D26).

   rows_of_latex is NOT cnfgen code: it decodes the align blocks structurally:
   white-space separated tokens, rows start at the '&' tokens, the tokens that
   are LaTeX structure are dropped, what remains of a row are its literal
   tokens (or \square), resp. its terms, relation and bound. *)
From Coq Require Import String ZArith List Bool Ascii.
From Cnfgen Require Import Sem Text Dimacs OpbText.
Import ListNotations.
Open Scope Z_scope.

(* ---- literal table ---- *)
Fixpoint find_char (c : ascii) (s : text) : option nat :=
  match s with
  | [] => None
  | x :: r => if Ascii.eqb x c then Some O
              else match find_char c r with Some k => Some (S k) | None => None end
  end.
(* name.find(c), kept only when > 0 *)
Definition pos_find (c : ascii) (s : text) : option nat :=
  match find_char c s with Some (S k) => Some (S k) | _ => None end.
Definition split_point (name : text) : option nat :=
  match pos_find "_"%char name, pos_find "^"%char name with
  | Some a, Some b => Some (Nat.min a b)
  | Some a, None => Some a
  | None, Some b => Some b
  | None, None => None
  end.
Definition littext_pos (name : text) : text := lit "           {" ++ name ++ lit "}".
Definition littext_neg (name : text) : text :=
  match split_point name with
  | None => lit "  \overline{" ++ name ++ lit "}"
  | Some k => lit "{\overline{" ++ firstn k name ++ lit "}" ++ skipn k name ++ lit "}"
  end.

Fixpoint nthZ {A} (l : list A) (i : Z) : option A :=
  match l with
  | [] => None
  | x :: r => if i =? 0 then Some x else nthZ r (i - 1)
  end.
(* littext[l]; stripped for OPB objects *)
Definition littext (stripped : bool) (names : list text) (l : Z) : option text :=
  if l =? 0 then None
  else match nthZ names (Z.abs l - 1) with
       | Some nm => let t := if 0 <? l then littext_pos nm else littext_neg nm in
                    Some (if stripped then strip t else t)
       | None => None
       end.
Fixpoint all_some {A} (l : list (option A)) : option (list A) :=
  match l with
  | [] => Some []
  | Some x :: r => match all_some r with Some xs => Some (x :: xs) | None => None end
  | None :: _ => None
  end.

(* ---- rows ---- *)
Definition join (sep : text) (ts : list text) : text :=
  match ts with
  | [] => []
  | t :: r => t ++ concat (map (fun x => sep ++ x) r)
  end.
Definition clause_body (compact : bool) (lts : list text) : text :=
  match lts with
  | [] => lit "\square"
  | _ => if compact then lit "\left( " ++ join (lit " \lor ") lts ++ lit " \right)"
         else join (lit " \lor ") lts
  end.
Definition write_clause (compact : bool) (lts : list text) (first : bool) : text :=
  (if first then LF :: lit "&" else lit " \\" ++ LF :: lit "&") ++
  (if negb compact || first then lit "       " else lit " \land ") ++
  clause_body compact lts.

Definition coef_text (c : Z) : text := if 1 <? c then print_Z c else [].
Definition rel_text (o : pbop) : text := match o with PGe => lit "\geq" | _ => lit "=" end.
Definition constraint_body (terms : list (Z * text)) (o : pbop) (value : Z) : text :=
  (match terms with
   | [] => lit "0"
   | _ => join (lit " + ") (map (fun ct => coef_text (fst ct) ++ snd ct) terms)
   end) ++ [SP] ++ rel_text o ++ [SP] ++ print_Z value.
Definition write_constraint (terms : list (Z * text)) (o : pbop) (value : Z) (first : bool) : text :=
  (if first then LF :: lit "& " else lit " \\" ++ LF :: lit "& ") ++ constraint_body terms o value.

(* the loop of _print_latex over the rows, i = index of the row *)
Fixpoint rows_text (split_every : Z) (i : Z) (rows : list (bool -> text)) : text :=
  match rows with
  | [] => []
  | w :: rest =>
    (if (0 <? split_every) && (i mod split_every =? 0) && negb (i =? 0)
     then LF :: lit "\end{align}\pagebreak" ++ LF :: lit "\begin{align}" ++ w true
     else w (i =? 0)) ++ rows_text split_every (i + 1) rest
  end.
Definition print_align (split_every : Z) (rows : list (bool -> text)) : text :=
  lit "\begin{align}" ++
  (match rows with [] => LF :: lit "   \top" | _ => rows_text split_every 0 rows end) ++
  LF :: lit "\end{align}".

Definition clause_row (compact : bool) (names : list text) (c : list Z) : option (bool -> text) :=
  match all_some (map (littext false names) c) with
  | Some lts => Some (write_clause compact lts)
  | None => None
  end.
Definition constraint_row (names : list text) (c : pbc) : option (bool -> text) :=
  match all_some (map (fun cl => littext true names (snd cl)) (pb_terms c)) with
  | Some lts => Some (write_constraint (combine (map fst (pb_terms c)) lts) (pb_op c) (pb_deg c))
  | None => None
  end.
Definition formula_rows (compact : bool) (names : list text) (f : formula) : option (list (bool -> text)) :=
  match f with
  | FCnf _ F => all_some (map (clause_row compact names) F)
  | FOpb _ C => all_some (map (constraint_row names) C)
  end.
Definition print_latex (names : list text) (split_every : Z) (compact : bool) (f : formula) : option text :=
  match formula_rows compact names f with
  | Some rows => Some (print_align split_every rows)
  | None => None
  end.
Definition print_latex_string (names : list text) (f : formula) : option text :=
  print_latex names (-1) true f.

(* ---- document ---- *)
Definition escape_underscore (s : text) : text :=
  concat (map (fun c => if Ascii.eqb c "_"%char then lit "\_" else [c]) s).
Definition latex_preamble : text :=
  lit "%" ++ LF :: lit "\documentclass[10pt,a4paper]{article}" ++ LF ::
  lit "\usepackage[margin=1in]{geometry}" ++ LF :: lit "\usepackage{amsmath}" ++ LF ::
  lit "\usepackage{listings}" ++ LF :: lit "\usepackage[utf8]{inputenc}" ++ [LF].
Definition latex_header_line (fv : text * text) : text :=
  ascii_replace (fst fv ++ lit ": " ++ snd fv ++ [LF]).
Definition print_latex_document (title : text) (h : option header) (extra : text)
           (names : list text) (f : formula) : option text :=
  match print_latex names 35 false f with
  | None => None
  | Some body =>
    Some (latex_preamble ++ lit "\begin{document}" ++ LF ::
          lit "\title{" ++ escape_underscore title ++ lit "}" ++ LF ::
          lit "\author{CNFgen formula generator}" ++ LF :: lit "\maketitle" ++ LF ::
          (match h with
           | Some h => lit "\noindent\textbf{Formula header:}" ++ LF ::
                       lit "\begin{lstlisting}[breaklines]" ++ LF ::
                       concat (map latex_header_line h) ++
                       lit "\end{lstlisting}" ++ LF :: lit "\bigskip" ++ [LF]
           | None => []
           end) ++ extra ++
          (match f with
           | FCnf n F => lit "\noindent\textbf{CNF with " ++ print_Z n ++ lit " variables and and " ++
                         print_Z (len F) ++ lit " clauses:}" ++ [LF]
           | FOpb n C => lit "\noindent\textbf{Pseudo-boolean formula with " ++ print_Z n ++
                         lit " variables and and " ++ print_Z (len C) ++ lit " constraints:}" ++ [LF]
           end) ++ body ++ LF :: lit "\end{document}")
  end.

(* ---- structural decoder of the align blocks ---- *)
Inductive lrow :=
| RSquare                                    (* the empty clause *)
| RClause (lits : list text)                 (* literal tokens, in order *)
| RConstraint (terms : list text) (o : pbop) (value : text)
| RBad.

Definition is_amp (t : text) : bool := text_eqb t (lit "&").
Definition structural (t : text) : bool :=
  existsb (text_eqb t)
          [lit "\\"; lit "\land"; lit "\left("; lit "\right)"; lit "\lor"; lit "+";
           lit "\begin{align}"; lit "\end{align}"; lit "\end{align}\pagebreak"].

Definition decode_clause (toks : list text) : lrow :=
  match toks with
  | [t] => if text_eqb t (lit "\square") then RSquare else RClause toks
  | _ => RClause toks
  end.
Fixpoint decode_constraint (toks : list text) : lrow :=
  match toks with
  | [o; v] => if text_eqb o (lit "\geq") then RConstraint [] PGe v
              else if text_eqb o (lit "=") then RConstraint [] PEq v else RBad
  | t :: rest => match decode_constraint rest with
                 | RConstraint ts o v => RConstraint (t :: ts) o v
                 | _ => RBad
                 end
  | [] => RBad
  end.
(* "0" stands for the empty sum *)
Definition drop_zero_sum (r : lrow) : lrow :=
  match r with
  | RConstraint [t] o v => if text_eqb t (lit "0") then RConstraint [] o v else r
  | _ => r
  end.
Definition decode_row (opb : bool) (piece : list text) : lrow :=
  let body := filter (fun t => negb (structural t)) piece in
  if opb then drop_zero_sum (decode_constraint body) else decode_clause body.

(* (the empty-formula mark \top is present, rows) *)
Definition rows_of_latex (opb : bool) (t : text) : bool * list lrow :=
  match split_on is_amp (split_ws t) with
  | [] => (false, [])
  | first :: pieces => (existsb (fun x => text_eqb x (lit "\top")) first, map (decode_row opb) pieces)
  end.

(* what the rows should be *)
Definition lit_token (names : list text) (l : Z) : option text := littext true names l.
Definition clause_lrow (names : list text) (c : list Z) : option lrow :=
  match c with
  | [] => Some RSquare
  | _ => match all_some (map (lit_token names) c) with
         | Some ts => Some (RClause ts)
         | None => None
         end
  end.
Definition constraint_lrow (names : list text) (c : pbc) : option lrow :=
  match all_some (map (fun cl => lit_token names (snd cl)) (pb_terms c)) with
  | Some ts => Some (RConstraint (map (fun ct => coef_text (fst ct) ++ snd ct) (combine (map fst (pb_terms c)) ts))
                                 (match pb_op c with PGe => PGe | _ => PEq end) (print_Z (pb_deg c)))
  | None => None
  end.
Definition formula_lrows (names : list text) (f : formula) : option (list lrow) :=
  match f with
  | FCnf _ F => all_some (map (clause_lrow names) F)
  | FOpb _ C => all_some (map (constraint_lrow names) C)
  end.
Definition is_opb (f : formula) : bool := match f with FOpb _ _ => true | _ => false end.

(* names the decoder theorem is stated for: no white space inside a name *)
Definition no_ws_text (t : text) : bool := forallb (fun c => negb (is_space c)) t.
Definition latex_names_ok (names : list text) : bool := forallb no_ws_text names.

(* ---- from a literal token back to the literal (NOT cnfgen code: part of the
   statement, like rows_of_latex) ---- *)

(* s = p ++ r  ->  Some r *)
Fixpoint strip_prefix (p s : text) : option text :=
  match p with
  | [] => Some s
  | c :: p' => match s with
               | d :: s' => if Ascii.eqb c d then strip_prefix p' s' else None
               | [] => None
               end
  end.
(* s = a ++ [c]  ->  Some a *)
Definition strip_last (c : ascii) (s : text) : option text :=
  match rev s with
  | d :: r => if Ascii.eqb d c then Some (rev r) else None
  | [] => None
  end.

(* (polarity, variable name) of a literal token:
     {name}                        positive
     \overline{name}               negative, name without '_' / '^' after position 0
     {\overline{pre}post}          negative, name = pre ++ post, post starts at the first '_' or '^' after position 0
   (in the last form the inserted brace is found again with split_point) *)
Definition decode_lit (t : text) : option (bool * text) :=
  match strip_prefix (lit "{\overline{") t with
  | Some r =>
    match strip_last "}"%char r with
    | Some x =>
      match split_point x with
      | Some (S k) => match skipn k x with
                      | c :: post => if Ascii.eqb c "}"%char then Some (false, firstn k x ++ post) else None
                      | [] => None
                      end
      | _ => None
      end
    | None => None
    end
  | None =>
    match strip_prefix (lit "\overline{") t with
    | Some r => option_map (fun nm => (false, nm)) (strip_last "}"%char r)
    | None => match strip_prefix (lit "{") t with
              | Some r => option_map (fun nm => (true, nm)) (strip_last "}"%char r)
              | None => None
              end
    end
  end.

(* the literal itself: polarity and the name of its variable *)
Definition lit_name (names : list text) (l : Z) : option (bool * text) :=
  if l =? 0 then None
  else match nthZ names (Z.abs l - 1) with
       | Some nm => Some (0 <? l, nm)
       | None => None
       end.

(* names the literal decoding is stated for: a name that itself begins with
   \overline{ would be read as a negation ({\overline{x}_1} is the positive
   literal of "\overline{x}_1" and the negative literal of "x_1") *)
Definition starts_overline (nm : text) : bool :=
  match strip_prefix (lit "\overline{") nm with Some _ => true | None => false end.
Definition latex_names_decodable (names : list text) : bool :=
  forallb (fun nm => negb (starts_overline nm)) names.

(* rows that speak about literals *)
Inductive litrow :=
| LSquare                                                    (* the empty clause *)
| LClause (lits : list (bool * text))                         (* (polarity, name) in order *)
| LConstraint (terms : list (text * (bool * text))) (o : pbop) (value : text).
                                                             (* (coefficient as shown, (polarity, name)) *)
Fixpoint span_digits (t : text) : text * text :=
  match t with
  | c :: r => if is_digit c then let '(d, rest) := span_digits r in (c :: d, rest) else ([], t)
  | [] => ([], [])
  end.
Definition decode_term (t : text) : option (text * (bool * text)) :=
  let '(d, rest) := span_digits t in
  match decode_lit rest with Some pl => Some (d, pl) | None => None end.
Definition decode_lrow (r : lrow) : option litrow :=
  match r with
  | RSquare => Some LSquare
  | RClause ts => option_map LClause (all_some (map decode_lit ts))
  | RConstraint ts o v => option_map (fun x => LConstraint x o v) (all_some (map decode_term ts))
  | RBad => None
  end.

(* what the rows should say, computed from the formula in memory only *)
Definition clause_litrow (names : list text) (c : list Z) : option litrow :=
  match c with
  | [] => Some LSquare
  | _ => option_map LClause (all_some (map (lit_name names) c))
  end.
Definition constraint_litrow (names : list text) (c : pbc) : option litrow :=
  option_map (fun pls => LConstraint (combine (map (fun cl => coef_text (fst cl)) (pb_terms c)) pls)
                                     (match pb_op c with PGe => PGe | _ => PEq end) (print_Z (pb_deg c)))
             (all_some (map (fun cl => lit_name names (snd cl)) (pb_terms c))).
Definition formula_litrows (names : list text) (f : formula) : option (list litrow) :=
  match f with
  | FCnf _ F => all_some (map (clause_litrow names) F)
  | FOpb _ C => all_some (map (constraint_litrow names) C)
  end.
