(* Fam_domset_Facts.v — DominatingSet (both encodings) and Tiling: T1 characterisations and
   domset_sat_iff (satisfiable iff a dominating set of size at most d exists). *)
From Coq Require Import ZArith List Bool Lia ZifyBool.
From Cnfgen Require Import Sem Comb Linear SemFacts LinearFacts IR IRFacts C02Common C02CommonFacts Fam_domset.
Import ListNotations.
Open Scope Z_scope.

(* ---------- unique_neighborhoods lists exactly the closed neighbourhoods ---------- *)
Lemma In_insert_sorted x y l : In y (insert_sorted x l) <-> y = x \/ In y l.
Proof.
  induction l as [|z t IH]; cbn [insert_sorted].
  - cbn. intuition.
  - destruct (lex_leb x z); cbn [In]; [intuition|]. rewrite IH. intuition.
Qed.
Lemma In_sort_lists y l : In y (sort_lists l) <-> In y l.
Proof.
  unfold sort_lists. induction l as [|x t IH]; cbn [fold_right]; [reflexivity|].
  rewrite In_insert_sorted, IH. cbn. intuition.
Qed.
Lemma list_eqb_eq x y : list_eqb x y = true -> x = y.
Proof.
  revert y. induction x as [|a x IH]; intros [|b y]; cbn; try discriminate; [reflexivity|].
  intros H. apply andb_true_iff in H as [H1 H2]. apply Z.eqb_eq in H1. apply IH in H2. congruence.
Qed.
Lemma dedup_adj_cons2 x y t :
  dedup_adj (x :: y :: t) = if list_eqb x y then dedup_adj (y :: t) else x :: dedup_adj (y :: t).
Proof. reflexivity. Qed.
Lemma In_dedup_adj z l : In z (dedup_adj l) <-> In z l.
Proof.
  induction l as [|x t IH]; [reflexivity|]. destruct t as [|y t]; [reflexivity|].
  rewrite dedup_adj_cons2. destruct (list_eqb x y) eqn:Exy.
  - apply list_eqb_eq in Exy. subst. rewrite IH. cbn. intuition.
  - cbn [In]. rewrite IH. cbn. intuition.
Qed.
Lemma In_unique_nbhds n E N : In N (unique_nbhds n E) <-> exists v, 1 <= v <= n /\ N = closed_nbhd E v.
Proof.
  unfold unique_nbhds. rewrite In_dedup_adj, In_sort_lists, in_map_iff. split.
  - intros [v [<- Hv]]. exists v. split; [now apply In_rng|reflexivity].
  - intros [v [Hv ->]]. exists v. split; [reflexivity|now apply In_rng].
Qed.

Lemma In_closed_nbhd E u v : In u (closed_nbhd E v) <-> dominates E u v = true.
Proof.
  unfold closed_nbhd, dominates. rewrite in_app_iff. cbn [In]. rewrite !in_map_iff, orb_true_iff, has_edge_true, Z.eqb_eq.
  split.
  - intros [[[x y] [<- H]]|[->|[[x y] [<- H]]]]; apply filter_In in H as [H1 H2] || idtac; cbn [fst snd] in *;
      try (apply Z.eqb_eq in H2; subst); auto.
  - intros [->|[H|H]]; auto.
    + left. exists (u, v). split; [reflexivity|]. apply filter_In. split; [assumption|]. cbn. apply Z.eqb_refl.
    + right. right. exists (v, u). split; [reflexivity|]. apply filter_In. split; [assumption|]. cbn. apply Z.eqb_refl.
Qed.
Lemma closed_nbhd_range n E u v : edges_ok n E = true -> 1 <= v <= n -> In u (closed_nbhd E v) -> 1 <= u <= n.
Proof.
  intros Hok Hv H. apply In_closed_nbhd in H. unfold dominates in H. apply orb_true_iff in H as [H|H].
  - apply Z.eqb_eq in H. lia.
  - apply has_edge_true in H as [H|H]; apply (edges_ok_in n E _ _ Hok) in H; lia.
Qed.

(* a clause over the D variables of one closed neighbourhood *)
Lemma nbhd_clause_sem a n E v : edges_ok n E = true -> 1 <= v <= n ->
  (clause_sat a (closed_nbhd E v) = true <-> exists u, 1 <= u <= n /\ a u = true /\ dominates E u v = true).
Proof.
  intros Hok Hv. rewrite <- (map_id (closed_nbhd E v)). rewrite (clause_pos_map a (fun u => u)).
  2:{ intros u Hu. apply (closed_nbhd_range n E u v Hok Hv) in Hu. lia. }
  split; intros [u H]; exists u.
  - destruct H as [Hu T]. split; [now apply (closed_nbhd_range n E u v Hok Hv)|]. split; [assumption|now apply In_closed_nbhd].
  - destruct H as [_ [T Hd]]. split; [now apply In_closed_nbhd|assumption].
Qed.

Lemma domset_cover_sem a n E : edges_ok n E = true ->
  (irs_hold a (domset_cover n E) = true <->
   forall v, 1 <= v <= n -> exists u, 1 <= u <= n /\ a u = true /\ dominates E u v = true).
Proof.
  intros Hok. unfold domset_cover. rewrite irs_hold_map_iff. split.
  - intros H v Hv. specialize (H (closed_nbhd E v)). rewrite In_unique_nbhds in H.
    specialize (H (ex_intro _ v (conj Hv eq_refl))). cbn [ir_holds] in H. now apply (nbhd_clause_sem a n E v Hok Hv).
  - intros H N HN. apply In_unique_nbhds in HN as [v [Hv ->]]. cbn [ir_holds]. apply (nbhd_clause_sem a n E v Hok Hv). auto.
Qed.
Lemma domset_cover_ok n E : edges_ok n E = true -> irs_ok (domset_cover n E) = true.
Proof.
  intros Hok. apply irs_ok_map. intros N HN. apply In_unique_nbhds in HN as [v [Hv ->]]. unfold ir_ok. cbn [ir_lits].
  apply lits_ok_true_iff. intros u Hu. apply (closed_nbhd_range n E u v Hok Hv) in Hu. lia.
Qed.

(* ---------- the other clause groups ---------- *)
Lemma clause_imp a x y : 0 < x -> 0 < y -> (clause_sat a [- x; y] = true <-> (a x = true -> a y = true)).
Proof.
  intros Hx Hy. unfold clause_sat. cbn [existsb]. rewrite lit_true_neg, lit_true_pos by assumption.
  destruct (a x), (a y); cbn; intuition discriminate.
Qed.

Definition dom_link (a : Z -> bool) (n d : Z) : Prop :=
  forall v i, 1 <= v <= n -> 1 <= i <= d -> rel_of a n d v i = true -> a v = true.
Definition dom_active (a : Z -> bool) (n d : Z) : Prop :=
  forall v, 1 <= v <= n -> a v = true -> exists i, 1 <= i <= d /\ rel_of a n d v i = true.
Definition dom_cover (a : Z -> bool) (n : Z) (E : list (Z * Z)) : Prop :=
  forall v, 1 <= v <= n -> exists u, 1 <= u <= n /\ a u = true /\ dominates E u v = true.
(* alternative encoding: only chosen vertices are constrained *)
Definition dom_alt_inj (a : Z -> bool) (n d : Z) : Prop :=
  forall u v i, 1 <= u -> u < v -> v <= n -> 1 <= i <= d ->
    a u = true -> a v = true -> rel_of a n d u i = true -> rel_of a n d v i = true -> False.
Definition dom_alt_fun (a : Z -> bool) (n d : Z) : Prop :=
  forall v i j, 1 <= v <= n -> 1 <= i -> i < j -> j <= d ->
    a v = true -> rel_of a n d v i = true -> rel_of a n d v j = true -> False.

Lemma domset_link_sem a n d : 0 <= n -> (irs_hold a (domset_link n d) = true <-> dom_link a n d).
Proof.
  intros Hn. unfold domset_link, dom_link, rel_of. rewrite irs_hold_flat_map_iff. split.
  - intros H v i Hv Hi. specialize (H i (proj2 (In_rng i d) Hi)). rewrite irs_hold_map_iff in H.
    specialize (H v (proj2 (In_rng v n) Hv)). cbn [ir_holds] in H.
    assert (P1 : 0 < mvar n d v i) by (apply mvar_pos; lia). assert (P2 : 0 < v) by lia. exact (proj1 (clause_imp a _ _ P1 P2) H).
  - intros H i Hi. apply In_rng in Hi. apply irs_hold_map_iff. intros v Hv. apply In_rng in Hv. cbn [ir_holds].
    apply clause_imp; [apply mvar_pos; lia|lia|]. now apply H.
Qed.
Lemma domset_link_ok n d : 0 <= n -> irs_ok (domset_link n d) = true.
Proof.
  intros Hn. apply irs_ok_flat_map. intros i Hi. apply In_rng in Hi. apply irs_ok_map. intros v Hv. apply In_rng in Hv.
  unfold ir_ok. cbn [ir_lits]. apply lits_ok_true_iff. assert (0 < mvar n d v i) by (apply mvar_pos; lia).
  intros l [<-|[<-|[]]]; lia.
Qed.

Lemma domset_active_sem a n d : 0 <= n -> (irs_hold a (domset_active n d) = true <-> dom_active a n d).
Proof.
  intros Hn. unfold domset_active, dom_active, rel_of. rewrite irs_hold_map_iff.
  assert (Q : forall v, 1 <= v <= n ->
    (clause_sat a (- v :: map (fun i => mvar n d v i) (rng d)) = true <->
     (a v = true -> exists i, 1 <= i <= d /\ a (mvar n d v i) = true))).
  { intros v Hv. rewrite clause_sat_cons, lit_true_neg by lia. rewrite orb_true_iff, clause_pos_map.
    2:{ intros i Hi. apply In_rng in Hi. apply mvar_pos; lia. }
    split.
    - intros [H|[i [Hi T]]] Ta; [rewrite Ta in H; discriminate|]. exists i. split; [now apply In_rng|assumption].
    - intros H. destruct (a v); [right|now left]. destruct (H eq_refl) as [i [Hi T]]. exists i. split; [now apply In_rng|assumption]. }
  split.
  - intros H v Hv. apply Q; [assumption|]. apply (H v). now apply In_rng.
  - intros H v Hv. apply In_rng in Hv. cbn [ir_holds]. apply Q; [assumption|]. now apply H.
Qed.
Lemma domset_active_ok n d : 0 <= n -> irs_ok (domset_active n d) = true.
Proof.
  intros Hn. apply irs_ok_map. intros v Hv. apply In_rng in Hv. unfold ir_ok. cbn [ir_lits lits_ok forallb].
  apply andb_true_iff. split; [apply nonzero_spec; lia|]. apply lits_ok_map_pos. intros i Hi. apply In_rng in Hi. apply mvar_pos; lia.
Qed.

Lemma clause_neg4 a w x y z : 0 < w -> 0 < x -> 0 < y -> 0 < z ->
  (clause_sat a [- w; - x; - y; - z] = true <-> (a w = true -> a x = true -> a y = true -> a z = true -> False)).
Proof.
  intros. unfold clause_sat. cbn [existsb]. rewrite !lit_true_neg by assumption.
  destruct (a w), (a x), (a y), (a z); cbn; intuition discriminate.
Qed.
Lemma clause_neg3' a x y z : 0 < x -> 0 < y -> 0 < z ->
  (clause_sat a [- x; - y; - z] = true <-> (a x = true -> a y = true -> a z = true -> False)).
Proof.
  intros. unfold clause_sat. cbn [existsb]. rewrite !lit_true_neg by assumption.
  destruct (a x), (a y), (a z); cbn; intuition discriminate.
Qed.

Lemma domset_alt_inj_sem a n d : 0 <= n -> (irs_hold a (domset_alt_inj n d) = true <-> dom_alt_inj a n d).
Proof.
  intros Hn. unfold domset_alt_inj, dom_alt_inj, rel_of. rewrite irs_hold_flat_map_iff. split.
  - intros H u v i A1 A2 A3 Hi. specialize (H (u, v)). rewrite In_pairs_rng in H. cbn [fst snd] in H. specialize (H ltac:(lia)).
    rewrite irs_hold_map_iff in H. specialize (H i (proj2 (In_rng i d) Hi)). cbn [ir_holds] in H.
    assert (P1 : 0 < mvar n d u i) by (apply mvar_pos; lia). assert (P2 : 0 < mvar n d v i) by (apply mvar_pos; lia).
    assert (P3 : 0 < u) by lia. assert (P4 : 0 < v) by lia. exact (proj1 (clause_neg4 a u v _ _ P3 P4 P1 P2) H).
  - intros H [u v] Hp. apply In_pairs_rng in Hp. cbn [fst snd] in *. apply irs_hold_map_iff. intros i Hi. apply In_rng in Hi.
    cbn [ir_holds].
    assert (P1 : 0 < mvar n d u i) by (apply mvar_pos; lia). assert (P2 : 0 < mvar n d v i) by (apply mvar_pos; lia).
    assert (P3 : 0 < u) by lia. assert (P4 : 0 < v) by lia. apply (proj2 (clause_neg4 a u v _ _ P3 P4 P1 P2)). apply H; lia.
Qed.
Lemma domset_alt_inj_ok n d : 0 <= n -> irs_ok (domset_alt_inj n d) = true.
Proof.
  intros Hn. apply irs_ok_flat_map. intros [u v] Hp. apply In_pairs_rng in Hp. cbn [fst snd] in *.
  apply irs_ok_map. intros i Hi. apply In_rng in Hi. unfold ir_ok. cbn [ir_lits]. apply lits_ok_true_iff.
  assert (0 < mvar n d u i) by (apply mvar_pos; lia). assert (0 < mvar n d v i) by (apply mvar_pos; lia).
  intros l [<-|[<-|[<-|[<-|[]]]]]; lia.
Qed.

Lemma domset_alt_fun_sem a n d : 0 <= n -> (irs_hold a (domset_alt_fun n d) = true <-> dom_alt_fun a n d).
Proof.
  intros Hn. unfold domset_alt_fun, dom_alt_fun, rel_of. rewrite irs_hold_flat_map_iff. split.
  - intros H v i j Hv A1 A2 A3. specialize (H v (proj2 (In_rng v n) Hv)). rewrite irs_hold_map_iff in H.
    specialize (H (i, j)). rewrite In_pairs_rng in H. cbn [fst snd] in H. specialize (H ltac:(lia)). cbn [ir_holds] in H.
    assert (P1 : 0 < mvar n d v i) by (apply mvar_pos; lia). assert (P2 : 0 < mvar n d v j) by (apply mvar_pos; lia).
    assert (P3 : 0 < v) by lia. exact (proj1 (clause_neg3' a v _ _ P3 P1 P2) H).
  - intros H v Hv. apply In_rng in Hv. apply irs_hold_map_iff. intros [i j] Hp. apply In_pairs_rng in Hp. cbn [fst snd] in *.
    cbn [ir_holds].
    assert (P1 : 0 < mvar n d v i) by (apply mvar_pos; lia). assert (P2 : 0 < mvar n d v j) by (apply mvar_pos; lia).
    assert (P3 : 0 < v) by lia. apply (proj2 (clause_neg3' a v _ _ P3 P1 P2)). apply H; lia.
Qed.
Lemma domset_alt_fun_ok n d : 0 <= n -> irs_ok (domset_alt_fun n d) = true.
Proof.
  intros Hn. apply irs_ok_flat_map. intros v Hv. apply In_rng in Hv.
  apply irs_ok_map. intros [i j] Hp. apply In_pairs_rng in Hp. cbn [fst snd] in *. unfold ir_ok. cbn [ir_lits]. apply lits_ok_true_iff.
  assert (0 < mvar n d v i) by (apply mvar_pos; lia). assert (0 < mvar n d v j) by (apply mvar_pos; lia).
  intros l [<-|[<-|[<-|[]]]]; lia.
Qed.

Lemma domset_ok n E d alt l : graph_wf n E = true -> domset_ir n E d alt = Some l -> irs_ok l = true.
Proof.
  unfold graph_wf. intros Hwf. apply andb_true_iff in Hwf as [Hwf _]. apply andb_true_iff in Hwf as [Hn Hok].
  apply Z.leb_le in Hn. unfold domset_ir. destruct (d <=? 0); [discriminate|]. destruct (n =? 0); [intros [= <-]; reflexivity|].
  intros [= <-]. rewrite !irs_ok_app_iff. split; [|split; [now apply domset_active_ok|now apply domset_cover_ok]].
  destruct alt; rewrite !irs_ok_app_iff.
  - split; [now apply domset_alt_inj_ok|now apply domset_alt_fun_ok].
  - split; [now apply um_injective_ok|]. split; [now apply um_nondecreasing_ok|now apply domset_link_ok].
Qed.

(* T1: x_v (variable v) marks a set that meets every closed neighbourhood; the slot variables number
   the chosen vertices injectively (standard: increasingly, and only chosen vertices have slots) *)
Theorem domset_char a n E d alt l : graph_wf n E = true -> domset_ir n E d alt = Some l ->
  (irs_hold a l = true <->
   (if alt then dom_alt_inj a n d /\ dom_alt_fun a n d
    else rel_injective (rel_of a n d) n d /\ rel_nondecreasing (rel_of a n d) n d /\ dom_link a n d) /\
   dom_active a n d /\ dom_cover a n E).
Proof.
  unfold graph_wf. intros Hwf. apply andb_true_iff in Hwf as [Hwf _]. apply andb_true_iff in Hwf as [Hn Hok].
  apply Z.leb_le in Hn. unfold domset_ir. destruct (d <=? 0); [discriminate|]. destruct (Z.eqb_spec n 0) as [->|Hne].
  - intros [= <-]. split; [intros _|reflexivity].
    split; [|split; [intros v Hv; lia|intros v Hv; lia]].
    destruct alt; repeat split; repeat intro; lia.
  - intros [= <-]. rewrite !irs_hold_app_iff, domset_active_sem, domset_cover_sem by assumption. unfold dom_cover.
    destruct alt; rewrite !irs_hold_app_iff.
    + rewrite domset_alt_inj_sem, domset_alt_fun_sem by assumption. tauto.
    + rewrite um_injective_sem, um_nondecreasing_sem, domset_link_sem by assumption. tauto.
Qed.

(* ---------- Tiling ---------- *)
Lemma tiling_ok n E : edges_ok n E = true -> irs_ok (tiling_ir n E) = true.
Proof.
  intros Hok. apply irs_ok_map. intros N HN. apply In_unique_nbhds in HN as [v [Hv ->]]. unfold ir_ok. cbn [ir_lits].
  apply lits_ok_true_iff. intros u Hu. apply (closed_nbhd_range n E u v Hok Hv) in Hu. lia.
Qed.

(* T1: exactly one chosen vertex in every closed neighbourhood (variable v = vertex v) *)
Theorem tiling_char a n E :
  irs_hold a (tiling_ir n E) = true <-> forall v, 1 <= v <= n -> count_true a (closed_nbhd E v) = 1.
Proof.
  unfold tiling_ir. rewrite irs_hold_map_iff. split.
  - intros H v Hv. specialize (H (closed_nbhd E v)). rewrite In_unique_nbhds in H.
    specialize (H (ex_intro _ v (conj Hv eq_refl))). cbn [ir_holds cop_holds] in H. lia.
  - intros H N HN. apply In_unique_nbhds in HN as [v [Hv ->]]. cbn [ir_holds cop_holds]. specialize (H v Hv). lia.
Qed.

(* ---------- domset_sat_iff ---------- *)
Lemma domset_sat_only_if a n E d alt l : graph_wf n E = true -> domset_ir n E d alt = Some l ->
  irs_hold a l = true -> dominating_set n E d (filter a (rng n)).
Proof.
  intros Hwf Hl H. assert (Hd : 0 < d). { unfold domset_ir in Hl. destruct (Z.leb_spec d 0); [discriminate|assumption]. }
  apply (domset_char a n E d alt l Hwf Hl) in H as [Hnum [Hact Hcov]].
  set (S := filter a (rng n)).
  assert (HS : forall v, In v S <-> 1 <= v <= n /\ a v = true).
  { intros v. unfold S. rewrite filter_In, In_rng. tauto. }
  split; [apply NoDup_filter, NoDup_rng|]. split; [intros u Hu; now apply HS in Hu|]. split.
  - (* an injection of S into the slots 1..d *)
    assert (Hslot : forall v, In v S -> 1 <= dec_map a n d v <= d /\ rel_of a n d v (dec_map a n d v) = true).
    { intros v Hv. apply HS in Hv as [Hv Tv]. apply dec_map_some. destruct (Hact v Hv Tv) as [i Hi]. now exists i. }
    assert (Hinj : forall u v, In u S -> In v S -> dec_map a n d u = dec_map a n d v -> u = v).
    { intros u v Hu Hv Eq. destruct (Hslot u Hu) as [Ru Tu]. destruct (Hslot v Hv) as [Rv Tv]. rewrite Eq in Tu.
      apply HS in Hu as [Hu Au]. apply HS in Hv as [Hv Av]. destruct alt.
      - destruct Hnum as [Hai _]. destruct (Z.lt_trichotomy u v) as [L|[L|L]]; [exfalso|assumption|exfalso].
        + apply (Hai u v (dec_map a n d v)); auto; lia.
        + apply (Hai v u (dec_map a n d v)); auto; lia.
      - destruct Hnum as [Hi _]. apply (Hi (dec_map a n d v) u v); auto. }
    assert (Hle : (length (map (dec_map a n d) S) <= length (rng d))%nat).
    { apply NoDup_incl_length.
      - apply NoDup_map_inj_in; [exact Hinj|apply NoDup_filter, NoDup_rng].
      - intros i Hi. apply in_map_iff in Hi as [v [<- Hv]]. apply In_rng. apply (Hslot v Hv). }
    rewrite map_length in Hle. unfold rng in Hle. rewrite length_zrange in Hle. unfold len. lia.
  - intros v Hv. destruct (Hcov v Hv) as [u [Hu [Tu Du]]]. exists u. split; [apply HS; now split|assumption].
Qed.

(* the assignment built from a dominating set: x_v = [v in S], slot of v = rank of v in S *)
Definition domset_assignment (n d : Z) (S : list Z) : Z -> bool :=
  fun x => if x <=? n then memb x S else enc_rel n d (fun v i => memb v S && (rank S n v =? i)) x.

Lemma domset_sat_if n E d alt l S : graph_wf n E = true -> domset_ir n E d alt = Some l ->
  dominating_set n E d S -> irs_hold (domset_assignment n d S) l = true.
Proof.
  intros Hwf Hl [Hnd [Hr [Hlen Hdom]]].
  assert (Hn : 0 <= n). { unfold graph_wf in Hwf. apply andb_true_iff in Hwf as [Hwf _]. apply andb_true_iff in Hwf as [Hn _]. now apply Z.leb_le. }
  apply (domset_char _ n E d alt l Hwf Hl). set (a := domset_assignment n d S).
  assert (HD : forall v, 1 <= v <= n -> a v = memb v S).
  { intros v Hv. unfold a, domset_assignment. destruct (Z.leb_spec v n); [reflexivity|lia]. }
  assert (HM : forall v i, 1 <= v <= n -> 1 <= i <= d -> rel_of a n d v i = memb v S && (rank S n v =? i)).
  { intros v i Hv Hi. unfold rel_of, a, domset_assignment. pose proof (mvar_range n n d v i Hn Hv Hi).
    destruct (Z.leb_spec (mvar n d v i) n); [lia|]. now rewrite enc_rel_mvar. }
  assert (HMt : forall v i, 1 <= v <= n -> 1 <= i <= d -> rel_of a n d v i = true -> In v S /\ rank S n v = i).
  { intros v i Hv Hi T. rewrite HM in T by assumption. apply andb_true_iff in T as [T1 T2].
    apply memb_true in T1. apply Z.eqb_eq in T2. now split. }
  split; [|split].
  - destruct alt.
    + split.
      * intros u v i A1 A2 A3 Hi _ _ T1 T2. apply HMt in T1 as [Su Ru]; [|lia|lia]. apply HMt in T2 as [Sv Rv]; [|lia|lia].
        assert (u = v); [|lia]. apply (rank_inj S n); auto. congruence.
      * intros v i j Hv A1 A2 A3 _ T1 T2. apply HMt in T1 as [_ R1]; [|lia|lia]. apply HMt in T2 as [_ R2]; [|lia|lia]. lia.
    + split; [|split].
      * intros i v1 v2 Hi H1 H2 T1 T2. apply HMt in T1 as [S1 R1]; auto. apply HMt in T2 as [S2 R2]; auto.
        apply (rank_inj S n); auto. congruence.
      * intros v1 v2 j1 j2 A1 A2 A3 B1 B2 B3 T1 T2. apply HMt in T1 as [S1 R1]; [|lia|lia]. apply HMt in T2 as [S2 R2]; [|lia|lia].
        pose proof (rank_mono S n v1 v2 ltac:(lia)). lia.
      * intros v i Hv Hi T. apply HMt in T as [Sv _]; auto. rewrite HD by assumption. now apply memb_true.
  - intros v Hv T. rewrite HD in T by assumption. apply memb_true in T. exists (rank S n v).
    pose proof (rank_pos S n v T Hv). pose proof (rank_le S n v Hnd). split; [lia|].
    rewrite HM by lia. rewrite (proj2 (memb_true v S) T), Z.eqb_refl. reflexivity.
  - intros v Hv. destruct (Hdom v Hv) as [u [Su Du]]. exists u. split; [now apply Hr|]. split; [|assumption].
    rewrite HD by (now apply Hr). now apply memb_true.
Qed.

(* T3: the dominating-set formula (either encoding) is satisfiable iff the graph has a dominating set
   of size at most d *)
Theorem domset_sat_iff n E d alt l : graph_wf n E = true -> domset_ir n E d alt = Some l ->
  ((exists a, irs_hold a l = true) <-> exists S, dominating_set n E d S).
Proof.
  intros Hwf Hl. split.
  - intros [a H]. exists (filter a (rng n)). now apply (domset_sat_only_if a n E d alt l).
  - intros [S HS]. exists (domset_assignment n d S). now apply (domset_sat_if n E d alt l S).
Qed.
